import Marwood.Vm.Eval
import Marwood.Lemmas.StackWFToy
import Marwood.Lemmas.GoodEval
import Marwood.Proofs.C13
import Marwood.Lemmas.ConcreteLawsBpLive
import Marwood.Lemmas.PrepareHistory
/-!
# C07 — a failed evaluation leaves no trace beyond its completed effects

Statements about `Marwood.Vm.runEval`, the model of `prepare_eval` + `run_count` with its
epilogues (after the error-path `fix:`), for every heap, every instruction semantics `ops`, every
collector and every program.
-/
namespace Marwood.Proofs.C07
open Marwood.Vm

variable {H : Type}

/-- the register file and stack of a VM that has no evaluation in progress -/
def Quiescent (s : St H) : Prop :=
  s.stack.sp = 0 ∧ s.bp = 0 ∧ s.ep = usizeMax ∧ s.acc = .undefined ∧
    ∀ c ∈ s.stack.cells, c = VCell.undefined

theorem onError_quiescent (s : St H) : Quiescent (onError s) := by
  refine ⟨rfl, rfl, rfl, rfl, ?_⟩
  intro c hc
  simp only [onError] at hc
  exact (List.mem_replicate.mp hc).2

theorem Quiescent.gc {gc : St H → St H} (hg : GcRegs gc) {s : St H} (h : Quiescent s) : Quiescent (gc s) := by
  obtain ⟨g1, g2, g3, g4, _, _⟩ := hg s
  obtain ⟨h1, h2, h3, h4, h5⟩ := h
  exact ⟨by rw [g1]; exact h1, by rw [g4]; exact h2, by rw [g3]; exact h3, by rw [g2]; exact h4,
    by rw [g1]; exact h5⟩

/-- T07.1: whatever the program, the depth at which it failed and the kind of failure, after a
    failed `run_count` the registers and the stack are those of an idle VM, the stack capacity is
    the capacity the failed evaluation needed, and the heap is the heap at the failing instruction
    — the completed definitions and mutations, nothing else — after the collection that ends the
    error path (`hg`: the collector touches only the heap). -/
theorem failed_eval_resets (ops : HeapOps H) (gc : St H → St H) (count : Option Nat) (fuel : Nat)
    (s : St H) (f : Fault) (s' : St H) (h : runEval ops gc count fuel s = .failed f s')
    (hg : GcRegs gc) :
    Quiescent s' ∧ ∃ sf, runLoop ⟨vmStep ops, gc⟩ count fuel 0 s = .error f sf ∧
      s'.heap = (gc (onError sf)).heap ∧ s'.stack.cells.length = sf.stack.cells.length := by
  unfold runEval at h
  split at h <;> try (cases h)
  rename_i sf hr
  exact ⟨(onError_quiescent sf).gc hg, sf, hr, rfl, by rw [(hg _).1]; simp [onError]⟩

/-- T07.3: a quiescent stack holds no return addresses, so the stack trace of any later failure
    lists only frames pushed by the evaluation that failed. -/
theorem quiescent_no_frames (s : St H) (h : Quiescent s) : traceFrames s = [] := by
  unfold traceFrames
  rw [h.1]; simp

theorem quiescent_stack_no_instrPtr (s : St H) (h : Quiescent s) :
    ∀ c ∈ s.stack.cells, ∀ l o, c ≠ VCell.instrPtr l o := by
  intro c hc l o he
  have := h.2.2.2.2 c hc
  rw [this] at he; cases he

/-- one entry of a session history: the entry lambda `prepare_eval` produced, and the fuel/budget -/
structure Job where
  entry : Nat
  fuel : Nat

/-- run a whole history of evaluations, each uninterrupted; returns the final state (evaluations
    that exhaust the model's fuel are skipped — they do not terminate in the real VM either) -/
def runHistory (ops : HeapOps H) (gc : St H → St H) : List Job → St H → St H
  | [], s => s
  | j :: js, s =>
    match runEval ops gc none j.fuel (prepare s j.entry) with
    | .value s' => runHistory ops gc js s'
    | .failed _ s' => runHistory ops gc js s'
    | .paused s' => runHistory ops gc js s'
    | .fuel => runHistory ops gc js s

/-- "a successful evaluation is balanced": it returns `sp` to where it started. For compiled code
    this is the calling convention (entry sequence `PUSH 0; CALL; HALT`, `RET` restores `sp`); it is
    an explicit hypothesis here (checked on every generated session by the correspondence, not
    proved), and concerns successful evaluations only. -/
def Balanced (ops : HeapOps H) (gc : St H → St H) : Prop :=
  ∀ (s : St H) (entry fuel : Nat) (s' : St H), s.stack.sp = 0 →
    runEval ops gc none fuel (prepare s entry) = .value s' → s'.stack.sp = 0

/-- T07.2: for every history — any interleaving of succeeding and failing evaluations, any number
    of consecutive failures — the stack pointer between evaluations is 0: failures never
    accumulate stack depth (unconditionally, by T07.1); successes return to 0 by `Balanced`. -/
theorem sp_zero_between_evaluations (ops : HeapOps H) (gc : St H → St H) (hg : GcRegs gc)
    (hB : Balanced ops gc) : ∀ (js : List Job) (s : St H), s.stack.sp = 0 →
      (runHistory ops gc js s).stack.sp = 0 := by
  intro js
  induction js with
  | nil => intro s h; exact h
  | cons j js ih =>
    intro s h
    simp only [runHistory]
    split
    · rename_i s' hr; exact ih s' (hB s j.entry j.fuel s' h hr)
    · rename_i f s' hr
      exact ih s' (failed_eval_resets ops gc none j.fuel _ f s' hr hg).1.1
    · rename_i s' hr
      -- `run()` has no budget, so it never pauses
      exfalso
      unfold runEval at hr
      split at hr <;> try (cases hr)
      rename_i sp hp
      have : ∀ (f c : Nat) (s : St H) (x : St H),
          runLoop ⟨vmStep ops, gc⟩ none f c s ≠ .paused x := by
        intro f
        induction f with
        | zero => intro c s x; simp [runLoop]
        | succ f ihf =>
          intro c s x
          simp only [runLoop]
          split
          · simp
          · simp
          · simp only [reduceCtorEq, if_false]; exact ihf _ _ _
      exact this _ _ _ _ hp
    · exact ih s h

/-- k consecutive failures: no hypothesis about the programs. After each one the VM is quiescent. -/
theorem consecutive_failures_quiescent (ops : HeapOps H) (gc : St H → St H) (hg : GcRegs gc) :
    ∀ (js : List Job) (s : St H), Quiescent s →
      (∀ j ∈ js, ∀ s0, ∃ f s', runEval ops gc none j.fuel (prepare s0 j.entry) = .failed f s') →
      Quiescent (runHistory ops gc js s) := by
  intro js
  induction js with
  | nil => intro s h _; exact h
  | cons j js ih =>
    intro s _ hall
    obtain ⟨f, s', hf⟩ := hall j (by simp) s
    simp only [runHistory, hf]
    exact ih s' (failed_eval_resets ops gc none j.fuel _ f s' hf hg).1
      (fun j' hj' => hall j' (by simp [hj']))

/-! ### non-vacuity -/

/-- a heap-less toy instance: the lambda at 7 is `HALT`, everything else fails to fetch -/
def toyOps : HeapOps Unit where
  fetch _ l o := if l = 7 ∧ o = 0 then some (.opcode .halt) else none
  isLambda _ _ := true
  callee _ _ := .other
  lambdaInfo _ _ := none
  deref _ v := v
  getAt _ _ := .undefined
  setAt h _ _ := h
  put h v := (h, v)
  maybePut h v := (h, v)
  newCont h _ := (h, .undefined)
  globGet _ _ := .undefined
  globPut h _ _ := h
  envGet _ _ _ := none
  envPut _ _ _ _ := none
  makeClosure _ _ _ _ _ := .err .invalidBytecode
  makeActivation _ _ _ _ _ := .err .invalidBytecode
  vectorPush _ _ _ := .err .expectedType
  builtinKind _ _ := .generic
  builtinEval _ _ _ := .err .invalidSyntax
  compileEval _ _ := .err .invalidSyntax
  isProcedure _ _ := false

def toyState : St Unit :=
  { heap := (), stack := { cells := [.undefined, .bool true, .instrPtr 3 4], sp := 2 },
    acc := .bool true, ep := 5, ipL := 9, ipO := 0, bp := 1 }

example : ∃ f s', runEval toyOps id none 10 toyState = .failed f s' ∧ Quiescent s' := by
  refine ⟨.err .invalidBytecode, onError toyState, rfl, onError_quiescent _⟩

example : ∃ s', runEval toyOps id none 10 (prepare toyState 7) = .value s' := ⟨_, rfl⟩

/-- the hypothesis about the collector is satisfiable (trivially by the collector that does nothing;
    `run_gc` satisfies it because it never writes the stack or a register) -/
example : GcRegs (id : St Unit → St Unit) := fun _ => ⟨rfl, rfl, rfl, rfl, rfl, rfl⟩

/-! ## `Balanced` as a theorem (WF-stack, `Lemmas/StackWF*.lean`)

The hypothesis `Balanced` of `sp_zero_between_evaluations` is discharged for code the bytecode
verifier accepts: under the heap laws `CodeLaws` (what the generic heap must satisfy) and `GcLaws`
(what the collector must satisfy), an evaluation that starts in verified entry code at the entry
stack pointer and reaches HALT has `sp` back at the entry stack pointer. -/

/-- `run()` has no budget: the loop never pauses -/
theorem runLoop_none_not_paused (ops : HeapOps H) (gc : St H → St H) :
    ∀ (f c : Nat) (s x : St H), runLoop ⟨vmStep ops, gc⟩ none f c s ≠ .paused x := by
  intro f
  induction f with
  | zero => intro c s x; simp [runLoop]
  | succ f ihf =>
    intro c s x
    simp only [runLoop]
    split
    · simp
    · simp
    · simp only [reduceCtorEq, if_false]; exact ihf _ _ _

/-- the entry lambda `prepare_eval` produced is verified entry code (in every reachable heap) -/
def EntryOK {ops : HeapOps H} (cl : CodeLaws ops) (entry : Nat) : Prop :=
  ∀ h, cl.HInv h → ∃ t, tyOf (cl.code h) entry = some t ∧ t.entry = true

/-- no evaluation in progress, as far as the stack discipline is concerned (`acc` holds a value: the result
    of the last evaluation, or `Undefined`) -/
def Idle {ops : HeapOps H} (cl : CodeLaws ops) (s : St H) : Prop :=
  cl.HInv s.heap ∧ s.stack.sp = cl.e ∧ s.stack.sp < s.stack.cells.length ∧ cl.Val s.acc

/-- **`Balanced`, proved**: a successful evaluation of verified code returns `sp` to its entry value. -/
theorem balanced_of_verified {ops : HeapOps H} (cl : CodeLaws ops) {gc : St H → St H} (gl : GcLaws cl gc)
    (s : St H) (entry fuel : Nat) (s' : St H) (hidle : Idle cl s) (hentry : EntryOK cl entry)
    (hr : runEval ops gc none fuel (prepare s entry) = .value s') : Idle cl s' := by
  obtain ⟨t, ht, hent⟩ := hentry s.heap hidle.1
  have hw := WFS.initial (entry := entry) hidle.1 ht hent hidle.2.1 hidle.2.2.1 hidle.2.2.2
  have key := runLoop_wf gl none fuel 0 (prepare s entry) [] hw
  unfold runEval at hr
  split at hr <;> try (cases hr)
  rename_i sd hd
  rw [hd] at key
  obtain ⟨k1, k2, k3, k4⟩ := key
  obtain ⟨g1, _, _, _⟩ := gl.frame (onDone sd)
  refine ⟨gl.inv _ k2, ?_, ?_, ?_⟩
  · rw [g1]; exact k1
  · rw [g1]; simpa [onDone, Stack.clear] using k3
  · rw [gl.acc]; exact k4

/-- a failed evaluation of verified code leaves an idle machine, too (T07.1 + the heap invariant) -/
theorem failed_idle {ops : HeapOps H} (cl : CodeLaws ops) (he : cl.e = 0) {gc : St H → St H} (gl : GcLaws cl gc)
    (s : St H) (entry fuel : Nat) (f : Fault) (s' : St H) (hidle : Idle cl s) (hentry : EntryOK cl entry)
    (hr : runEval ops gc none fuel (prepare s entry) = .failed f s') : Idle cl s' := by
  obtain ⟨t, ht, hent⟩ := hentry s.heap hidle.1
  have hw := WFS.initial (entry := entry) hidle.1 ht hent hidle.2.1 hidle.2.2.1 hidle.2.2.2
  have key := runLoop_wf gl none fuel 0 (prepare s entry) [] hw
  unfold runEval at hr
  split at hr <;> try (cases hr)
  rename_i sf hd
  rw [hd] at key
  obtain ⟨k1, k2, _⟩ := key
  obtain ⟨g1, _, _, _⟩ := gl.frame (onError sf)
  refine ⟨gl.inv (onError sf) k1, by rw [g1, he]; rfl, ?_, by rw [gl.acc]; exact cl.val_imm _ rfl⟩
  rw [g1]
  show 0 < (List.replicate sf.stack.cells.length VCell.undefined).length
  simp; omega

/-- **T07.2 without the `Balanced` hypothesis**: for every history of evaluations of verified code —
    any interleaving of successes and failures — the machine is idle between evaluations; with the
    entry stack pointer 0 (the real VM's), `sp = 0` between evaluations. -/
theorem sp_zero_between_evaluations_verified {ops : HeapOps H} (cl : CodeLaws ops) (he : cl.e = 0)
    {gc : St H → St H} (gl : GcLaws cl gc) : ∀ (js : List Job) (s : St H),
      (∀ j ∈ js, EntryOK cl j.entry) → Idle cl s →
      Idle cl (runHistory ops gc js s) ∧ (runHistory ops gc js s).stack.sp = 0 := by
  intro js
  induction js with
  | nil => intro s _ h; exact ⟨h, by show s.stack.sp = 0; rw [h.2.1, he]⟩
  | cons j js ih =>
    intro s hall h
    have hj := hall j (by simp)
    have hrest : ∀ j' ∈ js, EntryOK cl j'.entry := fun j' hj' => hall j' (by simp [hj'])
    simp only [runHistory]
    split
    · rename_i s' hr
      exact ih s' hrest (balanced_of_verified cl gl s j.entry j.fuel s' h hj hr)
    · rename_i f s' hr
      exact ih s' hrest (failed_idle cl he gl s j.entry j.fuel f s' h hj hr)
    · rename_i s' hr
      exfalso
      unfold runEval at hr
      split at hr <;> try (cases hr)
      rename_i sp hp
      exact runLoop_none_not_paused ops gc _ _ _ _ hp
    · exact ih s hrest h

/-- the old formulation follows: on idle machines running verified entry code, `Balanced` holds -/
theorem balanced_sp {ops : HeapOps H} (cl : CodeLaws ops) (he : cl.e = 0) {gc : St H → St H} (gl : GcLaws cl gc)
    (s : St H) (entry fuel : Nat) (s' : St H) (hi : cl.HInv s.heap) (hcap : 0 < s.stack.cells.length)
    (hacc : cl.Val s.acc)
    (hentry : EntryOK cl entry) (hsp : s.stack.sp = 0)
    (hr : runEval ops gc none fuel (prepare s entry) = .value s') : s'.stack.sp = 0 := by
  have := balanced_of_verified cl gl s entry fuel s' ⟨hi, by rw [hsp, he], by rw [hsp]; exact hcap, hacc⟩ hentry hr
  rw [this.2.1, he]

/-! ### non-vacuity: a concrete verified program (`Lemmas/StackWFToy.lean`): entry code
`PUSHIMM argc0; MOVIMM λ2 acc; CALL; HALT` calling `λ2 = ENTER; MOVIMM void acc; RET` -/

open Marwood.Vm.Toy in
example : Idle Toy.laws Toy.idle ∧ EntryOK Toy.laws 1 :=
  ⟨⟨trivial, rfl, by decide, trivial⟩, fun _ _ => Toy.entry1⟩

open Marwood.Vm.Toy in
/-- the evaluation really reaches HALT (seven instructions), so the theorem applies non-vacuously -/
example : ∃ s', runEval Toy.ops id none 20 (prepare Toy.idle 1) = .value s' ∧ s'.stack.sp = 0 := by
  refine ⟨_, rfl, ?_⟩
  decide +kernel

open Marwood.Vm.Toy in
example : (runHistory Toy.ops id [⟨1, 20⟩, ⟨1, 20⟩, ⟨9, 20⟩, ⟨1, 20⟩] Toy.idle).stack.sp = 0 := by
  decide +kernel

/-! ## T07.2 on the concrete machine: no `Balanced`, no abstract laws

`Lemmas/ConcreteLaws*.lean`: over the concrete heap `CodeLaws` and — for the real collector `cgc` —
`GcLaws` are theorems (`concreteLaws`, `cgc_gcLaws`). `EntryOK` above asks for entry code at `j.entry` in
*every* invariant heap; `prepare_eval` compiles the entry lambda into the heap of the moment, so the
concrete statement asks for it in the state the job starts in (`HistOK`). The machine is `gops ext`
(`concreteOps ext` with the callee guard, `Proofs/C04.lean` "On the concrete machine"; its `step` is
`concreteOps ext`'s in every `CalleeOk` state, `step_gops`). -/

section Concrete
open Marwood.Vm.Concrete Marwood.Vm.Verify

/-- per-state form of `balanced_of_verified` -/
theorem balanced_at {ops : HeapOps H} (cl : CodeLaws ops) {gc : St H → St H} (gl : GcLaws cl gc)
    (s : St H) (entry fuel : Nat) (s' : St H) (hidle : Idle cl s)
    (hentry : ∃ t, tyOf (cl.code s.heap) entry = some t ∧ t.entry = true)
    (hr : runEval ops gc none fuel (prepare s entry) = .value s') : Idle cl s' := by
  obtain ⟨t, ht, hent⟩ := hentry
  have hw := WFS.initial (entry := entry) hidle.1 ht hent hidle.2.1 hidle.2.2.1 hidle.2.2.2
  have key := runLoop_wf gl none fuel 0 (prepare s entry) [] hw
  unfold runEval at hr
  split at hr <;> try (cases hr)
  rename_i sd hd
  rw [hd] at key
  obtain ⟨k1, k2, k3, k4⟩ := key
  obtain ⟨g1, _, _, _⟩ := gl.frame (onDone sd)
  refine ⟨gl.inv _ k2, ?_, ?_, ?_⟩
  · rw [g1]; exact k1
  · rw [g1]; simpa [onDone, Stack.clear] using k3
  · rw [gl.acc]; exact k4

/-- per-state form of `failed_idle` -/
theorem failed_idle_at {ops : HeapOps H} (cl : CodeLaws ops) (he : cl.e = 0) {gc : St H → St H}
    (gl : GcLaws cl gc) (s : St H) (entry fuel : Nat) (f : Fault) (s' : St H) (hidle : Idle cl s)
    (hentry : ∃ t, tyOf (cl.code s.heap) entry = some t ∧ t.entry = true)
    (hr : runEval ops gc none fuel (prepare s entry) = .failed f s') : Idle cl s' := by
  obtain ⟨t, ht, hent⟩ := hentry
  have hw := WFS.initial (entry := entry) hidle.1 ht hent hidle.2.1 hidle.2.2.1 hidle.2.2.2
  have key := runLoop_wf gl none fuel 0 (prepare s entry) [] hw
  unfold runEval at hr
  split at hr <;> try (cases hr)
  rename_i sf hd
  rw [hd] at key
  obtain ⟨k1, k2, _⟩ := key
  obtain ⟨g1, _, _, _⟩ := gl.frame (onError sf)
  refine ⟨gl.inv (onError sf) k1, by rw [g1, he]; rfl, ?_, by rw [gl.acc]; exact cl.val_imm _ rfl⟩
  rw [g1]
  show 0 < (List.replicate sf.stack.cells.length VCell.undefined).length
  simp; omega

/-- heap cell `entry` is a lambda holding entry code (what `prepare_eval` has just put) -/
def EntryAt (s : St CHeap) (entry : Nat) : Prop :=
  ∃ lam, lambdaAt s.heap entry = some lam ∧ isEntryCode lam.bc = true

/-- every job of the history starts with its entry lambda in the heap of the moment -/
def HistOK (ext : ExtOps) (force : Bool) : List Job → St CHeap → Prop
  | [], _ => True
  | j :: js, s => EntryAt s j.entry ∧
    match runEval (gops ext) (cgc force) none j.fuel (prepare s j.entry) with
    | .value s' => HistOK ext force js s'
    | .failed _ s' => HistOK ext force js s'
    | .paused s' => HistOK ext force js s'
    | .fuel => HistOK ext force js s

theorem entryAt_ty {ext : ExtOps} {ecl : ExtCodeLaws ext} {s : St CHeap} {entry : Nat}
    (hi : CInv s.heap) (he : EntryAt s entry) :
    ∃ t, tyOf ((concreteLaws ext ecl).code s.heap) entry = some t ∧ t.entry = true := by
  obtain ⟨lam, hl, hent⟩ := he
  have hv := hi.lamVer entry lam (lambdaAt_iff.mp hl)
  cases ht : verifyLam lam.bc with
  | none => rw [ht] at hv; cases hv
  | some t =>
    refine ⟨t, ?_, by rw [verifyLam_entry ht]; exact hent⟩
    show tyOf (codeC s.heap) entry = some t
    unfold tyOf codeC; rw [hl]; exact ht

/-- **T07.2 on the concrete machine.** For every history of evaluations — any interleaving of successes
    and failures, the real collector `cgc` — the machine is idle between evaluations and `sp = 0`.
    Hypotheses: the initial heap satisfies `CInv` (every lambda cell passes the bytecode verifier, …), the
    initial stack is empty, `ExtCodeLaws ext`, and each job's entry lambda is in the heap when the job
    starts. No `Balanced`, no `CodeLaws` / `GcLaws` hypothesis. -/
theorem sp_zero_between_evaluations_concrete (ext : ExtOps) (ecl : ExtCodeLaws ext) (force : Bool) :
    ∀ (js : List Job) (s : St CHeap), CInv s.heap → s.stack.sp = 0 → 0 < s.stack.cells.length →
      HistOK ext force js s →
      CInv (runHistory (gops ext) (cgc force) js s).heap ∧
        (runHistory (gops ext) (cgc force) js s).stack.sp = 0 := by
  have key : ∀ (js : List Job) (s : St CHeap), Idle (concreteLaws ext ecl) s → HistOK ext force js s →
      Idle (concreteLaws ext ecl) (runHistory (gops ext) (cgc force) js s) := by
    intro js
    induction js with
    | nil => intro s h _; exact h
    | cons j js ih =>
      intro s h hok
      obtain ⟨hent, hrest⟩ := hok
      have hty := entryAt_ty (ext := ext) (ecl := ecl) h.1 hent
      simp only [runHistory]
      split
      · rename_i s' hr
        rw [hr] at hrest
        exact ih s' (balanced_at _ (cgc_gcLaws ext ecl force) s j.entry j.fuel s' h hty hr) hrest
      · rename_i f s' hr
        rw [hr] at hrest
        exact ih s' (failed_idle_at _ rfl (cgc_gcLaws ext ecl force) s j.entry j.fuel f s' h hty hr) hrest
      · rename_i s' hr
        exfalso
        unfold runEval at hr
        split at hr <;> try (cases hr)
        rename_i sp hp
        exact runLoop_none_not_paused (gops ext) (cgc force) _ _ _ _ hp
      · rename_i hr
        rw [hr] at hrest
        exact ih s h hrest
  intro js s hi hsp hcap hok
  have := key js s ⟨hi, hsp, by rw [hsp]; exact hcap, trivial⟩ hok
  exact ⟨this.1, this.2.1⟩

end Concrete

/-! ## The concrete machine: `GcRegs` discharged, and the equivalence clause T07.4

`Marwood.Vm.Concrete.machine ext force` is `run_one` over the concrete heap with the C03 collector model
`cgc force`. `cgc_regs : GcRegs (cgc force)` discharges the hypothesis `GcRegs` of T07.1–T07.3 (instantiated
corollaries below). T07.4 — *every later evaluation returns what it would have returned in a VM that only
performed the definitions and mutations the failed evaluation completed* — is `failed_eval_equivalent_later`:
the state after the error epilogue, `cgc force (onError sf)`, is `Sim`-related to the **twin** `onError sf`
(the heap of the failing instruction — every completed definition and mutation, nothing undone — with idle
registers and no collection): `Lemmas/GoodEval.lean`, `failed_twin_sim`. `prepare_eval` of the same form on
both keeps them related (`prepare_sim`; laws `CompLaws`, `CompGood` of the unmodelled compiler), and the
heap simulation (`gcTransparent_concrete_partial`, with `Safe` discharged by `safe_of_good`) carries the
relation through the whole later evaluation: same status, same failure, equal datum in `acc`, `Sim`-related
final states (hence cell-wise related stacks, from which the stack trace is computed).
Hypotheses: `ExtLaws`, `ExtGood`, `CompLaws`, `CompGood` (unmodelled parameters), `GoodI` of the state the
failed evaluation started in, `SizeBounded` / `StackDiscAlong` along the three runs. -/
section ConcreteSim
open Marwood.Vm.Concrete Marwood.Lemmas.Sim Marwood.Lemmas.Good Marwood.Proofs.C13

/-- T07.1 for the real collector model -/
theorem failed_eval_resets_cgc (ext : ExtOps) (force : Bool) (count : Option Nat) (fuel : Nat)
    (s : St CHeap) (f : Fault) (s' : St CHeap)
    (h : runEval (concreteOps ext) (cgc force) count fuel s = .failed f s') :
    Quiescent s' ∧ ∃ sf, runLoop (machine ext force) count fuel 0 s = .error f sf ∧
      s' = cgc force (onError sf) ∧ s'.stack.cells.length = sf.stack.cells.length := by
  obtain ⟨q, sf, h1, _, h3⟩ := failed_eval_resets _ _ count fuel s f s' h (cgc_regs force)
  refine ⟨q, sf, h1, ?_, h3⟩
  unfold runEval at h
  have h1' : runLoop ⟨vmStep (concreteOps ext), cgc force⟩ count fuel 0 s = .error f sf := h1
  rw [h1'] at h
  cases h; rfl

/-- T07.2 for the real collector model (`Balanced` remains the hypothesis about successful evaluations) -/
theorem sp_zero_between_evaluations_cgc (ext : ExtOps) (force : Bool)
    (hB : Balanced (concreteOps ext) (cgc force)) (js : List Job) (s : St CHeap) (h : s.stack.sp = 0) :
    (runHistory (concreteOps ext) (cgc force) js s).stack.sp = 0 :=
  sp_zero_between_evaluations _ _ (cgc_regs force) hB js s h

/-- k consecutive failures on the real collector model -/
theorem consecutive_failures_quiescent_cgc (ext : ExtOps) (force : Bool) (js : List Job) (s : St CHeap)
    (hq : Quiescent s)
    (hall : ∀ j ∈ js, ∀ s0, ∃ f s', runEval (concreteOps ext) (cgc force) none j.fuel (prepare s0 j.entry) = .failed f s') :
    Quiescent (runHistory (concreteOps ext) (cgc force) js s) :=
  consecutive_failures_quiescent _ _ (cgc_regs force) js s hq hall

/-- the state a run of the concrete machine ends in is reachable -/
theorem runLoop_reaches (ext : ExtOps) (force : Bool) (count : Option Nat) :
    ∀ (fuel c : Nat) (s : St CHeap),
      (∀ e sf, runLoop (machine ext force) count fuel c s = .error e sf → Reaches (machine ext force) s sf) ∧
      (∀ sd, runLoop (machine ext force) count fuel c s = .done sd → Reaches (machine ext force) s sd) := by
  intro fuel
  induction fuel with
  | zero => intro c s; simp [runLoop]
  | succ n ih =>
    intro c s
    simp only [runLoop]
    have hr0 : Reaches (machine ext force) s (if (c + 1) % 8192 = 0 then (machine ext force).gc s else s) := by
      split
      · exact .gc (.refl s)
      · exact .refl s
    generalize (if (c + 1) % 8192 = 0 then (machine ext force).gc s else s) = s1 at hr0
    cases hst : (machine ext force).step s1 with
    | halt s' =>
      refine ⟨fun e sf h => (by cases h), fun sd h => ?_⟩
      cases h
      exact .halt hr0 hst
    | fail e s' =>
      refine ⟨fun e' sf h => ?_, fun sd h => (by cases h)⟩
      cases h
      -- `run_one` failed: the state is the state at the failing instruction
      have : s' = s1 := by
        have hst' : vmStep (concreteOps ext) s1 = .fail e s' := hst
        unfold vmStep at hst'
        split at hst' <;> cases hst' <;> rfl
      rw [this]; exact hr0
    | next s' =>
      simp only
      split
      · exact ⟨fun e sf h => (by cases h), fun sd h => (by cases h)⟩
      · obtain ⟨a, b⟩ := ih (c + 1) s'
        exact ⟨fun e sf h => hr0.trans ((Reaches.next (.refl s1) hst).trans (a e sf h)),
          fun sd h => hr0.trans ((Reaches.next (.refl s1) hst).trans (b sd h))⟩

/-- **T07.4 (equivalence clause).** After a failed evaluation, the next evaluation — the form `d`, any number
    `k` of instructions — on the VM that failed (`s1`: registers reset, stack wiped, collected) and on the twin
    that only performed the definitions and mutations the failed evaluation completed (`onError sf`: the heap
    at the failing instruction, idle registers) ends the same way: if the twin's evaluation reaches HALT so does
    the other and the datum in `acc` is equal; if it fails, the other fails with the same error, in
    `Sim`-related states whose stack-trace frames (`traceFrames`: the code objects of the return addresses below
    `sp`, innermost first) are related one by one to those of the collection-free reference run. -/
theorem failed_eval_equivalent_later (ext : ExtOps) (force : Bool) (el : ExtLaws ext) (eg : ExtGood ext)
    (comp : CHeap → VCell → Outcome (CHeap × VCell)) (cl : CompLaws comp) (cg : CompGood comp)
    (count : Option Nat) (fuel : Nat) (s : St CHeap) (f : Fault) (s1 : St CHeap)
    (hfail : runEval (concreteOps ext) (cgc force) count fuel s = .failed f s1)
    (g : GoodI s) (sb : SizeBounded (machine ext force) s) (sdl : StackDiscAlong (machine ext force) s)
    (sm1 : Small s1.heap) :
    ∃ sf, runLoop (machine ext force) count fuel 0 s = .error f sf ∧ s1 = cgc force (onError sf) ∧
      (∃ ψ, Sim ψ s1 (onError sf)) ∧
      ∀ (d : VCell) (s2 t2 : St CHeap), addrFree d = true →
        prepareEval comp s1 d = .ok s2 → prepareEval comp (onError sf) d = .ok t2 →
        SizeBounded (machine ext force) s2 → StackDiscAlong (machine ext force) s2 →
        SizeBounded (machine ext force) t2 → StackDiscAlong (machine ext force) t2 →
        ∀ k : Nat,
          (∀ t', pureN (machine ext force) k t2 = .done t' →
            ∃ s' t'', run (machine ext force) k s2 = .done s' ∧ run (machine ext force) k t2 = .done t'' ∧
              ∀ fl, resultObs fl s' = resultObs fl t'') ∧
          (∀ e t', pureN (machine ext force) k t2 = .error e t' →
            ∃ s' t'', run (machine ext force) k s2 = .error e s' ∧ run (machine ext force) k t2 = .error e t'' ∧
              (∃ ψ, Sim ψ s' t' ∧ All2 (AddrRel ψ) (traceFrames s') (traceFrames t')) ∧
              (∃ ψ, Sim ψ t'' t' ∧ All2 (AddrRel ψ) (traceFrames t'') (traceFrames t'))) := by
  obtain ⟨q1, sf, hrun, rfl, _⟩ := failed_eval_resets_cgc ext force count fuel s f s1 hfail
  have hreach : Reaches (machine ext force) s sf := (runLoop_reaches ext force count fuel 0 s).1 f sf hrun
  have gsf : GoodI sf := goodI_reaches force el eg g sb sdl sf hreach
  have gt1 : GoodI (onError sf) := onError_goodI gsf
  have gs1 : GoodI (cgc force (onError sf)) := good_gc force gt1 sm1
  have smt1 : Small (onError sf).heap := sb sf hreach
  obtain ⟨ψ0, hsim0⟩ := failed_twin_sim force gsf sm1
  refine ⟨sf, hrun, rfl, ⟨ψ0, hsim0⟩, ?_⟩
  intro d s2 t2 hd hs2 ht2 sb2 sd2 sbt sdt k
  obtain ⟨ψ, hsim⟩ := prepare_sim cl hsim0 sm1.sizeOk smt1.sizeOk (SymOk.of_wf gs1.hg.wf)
    (SymOk.of_wf gt1.hg.wf) hd hs2 ht2
  have qt1 : Quiescent (onError sf) := onError_quiescent sf
  have sent : Heap.Sentinel usizeMax := by unfold Heap.Sentinel usizeMax; decide
  have gs2 : GoodI s2 := prepare_goodI cg gs1 q1.2.2.2.1 (by rw [q1.2.2.1]; exact sent) q1.2.2.2.2 hd hs2
    (sb2 s2 (.refl s2))
  have gt2 : GoodI t2 := prepare_goodI cg gt1 qt1.2.2.2.1 (by rw [qt1.2.2.1]; exact sent) qt1.2.2.2.2 hd ht2
    (sbt t2 (.refl t2))
  have safe2 := safe_of_good force el eg gs2 sb2 sd2
  have safet := safe_of_good force el eg gt2 sbt sdt
  have hT := gcTransparent_concrete_partial ext force el
  have hR : R (machine ext force) s2 t2 := ⟨⟨ψ, hsim⟩, safe2, safet⟩
  have a := run_pureN _ _ hT k 0 s2 t2 hR
  have b := run_pureN _ _ hT k 0 t2 t2 (R_refl _ safet)
  constructor
  · intro t' hk
    obtain ⟨s', h1, ⟨⟨φ1, r1⟩, ss1, st1⟩⟩ := a.1 t' hk
    obtain ⟨t'', h2, ⟨⟨φ2, r2⟩, ss2, st2⟩⟩ := b.1 t' hk
    refine ⟨s', t'', h1, h2, fun fl => ?_⟩
    rw [resultObs_sim r1 ss1.good.size st1.good.size fl, resultObs_sim r2 ss2.good.size st2.good.size fl]
  · intro e t' hk
    obtain ⟨s', h1, ⟨⟨φ1, r1⟩, _, _⟩⟩ := a.2 e t' hk
    obtain ⟨t'', h2, ⟨⟨φ2, r2⟩, _, _⟩⟩ := b.2 e t' hk
    exact ⟨s', t'', h1, h2, ⟨φ1, r1, traceFrames_rel r1⟩, ⟨φ2, r2, traceFrames_rel r2⟩⟩

/-! ### non-vacuity -/

/-- the laws of the unmodelled compiler are satisfiable -/
example : CompLaws (fun _ _ => .err .invalidSyntax) ∧ CompGood (fun _ _ => .err .invalidSyntax) :=
  ⟨⟨fun _ _ _ _ _ _ _ _ _ _ => .err⟩, ⟨fun _ _ _ _ _ _ _ h => (by cases h)⟩⟩

open Marwood.Lemmas.Good.Demo in
/-- a failing evaluation of the concrete machine from a good state: running on past the `HALT` of the
    one-instruction program (`ip` beyond the code) fails with `InvalidBytecode` -/
theorem demo_failed_eval : runEval (concreteOps failingExt) (cgc false) none 5 (sHalt 1) =
    .failed (.err .invalidBytecode) (cgc false (onError (sHalt 1))) := by
  unfold runEval
  have : runLoop ⟨vmStep (concreteOps failingExt), cgc false⟩ none 5 0 (sHalt 1) =
      .error (.err .invalidBytecode) (sHalt 1) := by
    simp only [runLoop]
    have h1 : vmStep (concreteOps failingExt) (sHalt 1) = .fail (.err .invalidBytecode) (sHalt 1) :=
      sHalt_step1 failingExt false
    simp [h1]
  rw [this]

open Marwood.Lemmas.Good.Demo in
theorem demo_failed_small : Small (cgc false (onError (sHalt 1))).heap := by
  have e : cgc false (onError (sHalt 1)) = onError (sHalt 1) := by
    unfold cgc
    have : Heap.Heap.runGc true false (toHeap (onError (sHalt 1)).heap) (rootsOf (onError (sHalt 1))) =
        .ok (.skipped eHalt) := by
      show Heap.Heap.runGc true false (toHeap hHalt) _ = _
      rw [toHeap_hHalt]; rfl
    rw [this]
  rw [e]; exact sHalt_small 1

open Marwood.Lemmas.Good.Demo in
/-- T07.1 and T07.4 apply to it, with every hypothesis discharged -/
example : ∃ sf, runLoop (machine failingExt false) none 5 0 (sHalt 1) = .error (.err .invalidBytecode) sf ∧
    cgc false (onError (sHalt 1)) = cgc false (onError sf) ∧ (∃ ψ, Sim ψ (cgc false (onError (sHalt 1))) (onError sf)) := by
  obtain ⟨sf, h1, h2, h3, _⟩ := failed_eval_equivalent_later failingExt false failingExt_laws failingExt_good
    (fun _ _ => .err .invalidSyntax) ⟨fun _ _ _ _ _ _ _ _ _ _ => .err⟩ ⟨fun _ _ _ _ _ _ _ h => (by cases h)⟩
    none 5 (sHalt 1) _ _ demo_failed_eval (sHalt_goodI 1) (sHalt_sizeBounded1 _) (sHalt_discAlong1 _) demo_failed_small
  exact ⟨sf, h1, h2, h3⟩

open Marwood.Lemmas.Good.Demo in
example : Quiescent (cgc false (onError (sHalt 1))) :=
  (failed_eval_resets_cgc _ _ _ _ _ _ _ demo_failed_eval).1

/-! ### T07.4 without `StackDiscAlong` (see Proofs/C13.lean, "T13.3 without `StackDiscAlong`") -/

/-- **T07.4 from the bundled invariant of the initial states**: of the failing evaluation (`s`) and of the later
    evaluation on both machines (`s2`, `t2`: what `prepare_eval` made of the failed VM and of its twin). -/
theorem failed_eval_equivalent_later_wf (ext : ExtOps) (force : Bool) (el : ExtLaws ext) (eg : ExtGood ext)
    (ecl : ExtCodeLawsV ext)
    (comp : CHeap → VCell → Outcome (CHeap × VCell)) (cl : CompLaws comp) (cg : CompGood comp)
    (count : Option Nat) (fuel : Nat) (s : St CHeap) (f : Fault) (s1 : St CHeap)
    (hfail : runEval (concreteOps ext) (cgc force) count fuel s = .failed f s1)
    (h0 : VmOk ext ecl s) (sb : SizeBounded (machine ext force) s) (ca : CalleeOkAlong (machine ext force) s)
    (sm1 : Small s1.heap) :
    ∃ sf, runLoop (machine ext force) count fuel 0 s = .error f sf ∧ s1 = cgc force (onError sf) ∧
      (∃ ψ, Sim ψ s1 (onError sf)) ∧
      ∀ (d : VCell) (s2 t2 : St CHeap), addrFree d = true →
        prepareEval comp s1 d = .ok s2 → prepareEval comp (onError sf) d = .ok t2 →
        SizeBounded (machine ext force) s2 → VmOk ext ecl s2 → CalleeOkAlong (machine ext force) s2 →
        SizeBounded (machine ext force) t2 → VmOk ext ecl t2 → CalleeOkAlong (machine ext force) t2 →
        ∀ k : Nat,
          (∀ t', pureN (machine ext force) k t2 = .done t' →
            ∃ s' t'', run (machine ext force) k s2 = .done s' ∧ run (machine ext force) k t2 = .done t'' ∧
              ∀ fl, resultObs fl s' = resultObs fl t'') ∧
          (∀ e t', pureN (machine ext force) k t2 = .error e t' →
            ∃ s' t'', run (machine ext force) k s2 = .error e s' ∧ run (machine ext force) k t2 = .error e t'' ∧
              (∃ ψ, Sim ψ s' t' ∧ All2 (AddrRel ψ) (traceFrames s') (traceFrames t')) ∧
              (∃ ψ, Sim ψ t'' t' ∧ All2 (AddrRel ψ) (traceFrames t'') (traceFrames t'))) := by
  obtain ⟨sf, h1, h2, h3, h4⟩ := failed_eval_equivalent_later ext force el eg comp cl cg count fuel s f s1 hfail
    h0.1 sb (stackDiscAlong_of_wfs force el eg h0 sb ca) sm1
  refine ⟨sf, h1, h2, h3, ?_⟩
  intro d s2 t2 hd hs2 ht2 sb2 v2 c2 sbt vt ct k
  exact h4 d s2 t2 hd hs2 ht2 sb2 (stackDiscAlong_of_wfs force el eg v2 sb2 c2) sbt
    (stackDiscAlong_of_wfs force el eg vt sbt ct) k

open Marwood.Lemmas.Good.Demo in
/-- non-vacuity: the failing demo evaluation, every hypothesis discharged -/
example : ∃ sf, runLoop (machine failingExt false) none 5 0 (sHalt 1) = .error (.err .invalidBytecode) sf ∧
    cgc false (onError (sHalt 1)) = cgc false (onError sf) ∧ (∃ ψ, Sim ψ (cgc false (onError (sHalt 1))) (onError sf)) := by
  obtain ⟨sf, h1, h2, h3, _⟩ := failed_eval_equivalent_later_wf failingExt false failingExt_laws failingExt_good
    failingExt_codeLawsV
    (fun _ _ => .err .invalidSyntax) ⟨fun _ _ _ _ _ _ _ _ _ _ => .err⟩ ⟨fun _ _ _ _ _ _ _ h => (by cases h)⟩
    none 5 (sHalt 1) _ _ demo_failed_eval (sHalt1_vmOk _ _) (sHalt_sizeBounded1 _) (sHalt_calleeOkAlong1 _)
    demo_failed_small
  exact ⟨sf, h1, h2, h3⟩

/-! ### T07.4 without `CalleeOkAlong` (see Proofs/C13.lean, "T13.3 without `CalleeOkAlong`") -/

/-- **T07.4, closed**: from the bundled invariant `VmOk` and the two clauses `PInv` of the initial states — of the
    failing evaluation (`s`) and of the later evaluation on both machines (`s2`, `t2`: what `prepare_eval` made of
    the failed VM and of its twin) —, the laws of the unmodelled parts (`ExtLaws`, `ExtGood`, `ExtCodeLawsV`,
    `ExtProc`, `CompLaws`, `CompGood`) and the size bound. No hypothesis along the runs. -/
theorem failed_eval_equivalent_later_closed (ext : ExtOps) (force : Bool) (el : ExtLaws ext) (eg : ExtGood ext)
    (ecl : ExtCodeLawsV ext) (ep : ExtProc ext)
    (comp : CHeap → VCell → Outcome (CHeap × VCell)) (cl : CompLaws comp) (cg : CompGood comp)
    (count : Option Nat) (fuel : Nat) (s : St CHeap) (f : Fault) (s1 : St CHeap)
    (hfail : runEval (concreteOps ext) (cgc force) count fuel s = .failed f s1)
    (h0 : VmOk ext ecl s) (p0 : PInv s) (sb : SizeBounded (machine ext force) s) (sm1 : Small s1.heap) :
    ∃ sf, runLoop (machine ext force) count fuel 0 s = .error f sf ∧ s1 = cgc force (onError sf) ∧
      (∃ ψ, Sim ψ s1 (onError sf)) ∧
      ∀ (d : VCell) (s2 t2 : St CHeap), addrFree d = true →
        prepareEval comp s1 d = .ok s2 → prepareEval comp (onError sf) d = .ok t2 →
        SizeBounded (machine ext force) s2 → VmOk ext ecl s2 → PInv s2 →
        SizeBounded (machine ext force) t2 → VmOk ext ecl t2 → PInv t2 →
        ∀ k : Nat,
          (∀ t', pureN (machine ext force) k t2 = .done t' →
            ∃ s' t'', run (machine ext force) k s2 = .done s' ∧ run (machine ext force) k t2 = .done t'' ∧
              ∀ fl, resultObs fl s' = resultObs fl t'') ∧
          (∀ e t', pureN (machine ext force) k t2 = .error e t' →
            ∃ s' t'', run (machine ext force) k s2 = .error e s' ∧ run (machine ext force) k t2 = .error e t'' ∧
              (∃ ψ, Sim ψ s' t' ∧ All2 (AddrRel ψ) (traceFrames s') (traceFrames t')) ∧
              (∃ ψ, Sim ψ t'' t' ∧ All2 (AddrRel ψ) (traceFrames t'') (traceFrames t'))) := by
  obtain ⟨sf, h1, h2, h3, h4⟩ := failed_eval_equivalent_later_wf ext force el eg ecl comp cl cg count fuel s f s1 hfail
    h0 sb (calleeOkAlong_of_vmOk force el eg ep h0 p0 sb) sm1
  refine ⟨sf, h1, h2, h3, ?_⟩
  intro d s2 t2 hd hs2 ht2 sb2 v2 p2 sbt vt pt k
  exact h4 d s2 t2 hd hs2 ht2 sb2 v2 (calleeOkAlong_of_vmOk force el eg ep v2 p2 sb2) sbt vt
    (calleeOkAlong_of_vmOk force el eg ep vt pt sbt) k

open Marwood.Lemmas.Good.Demo in
/-- non-vacuity: the failing demo evaluation, every hypothesis discharged -/
example : ∃ sf, runLoop (machine failingExt false) none 5 0 (sHalt 1) = .error (.err .invalidBytecode) sf ∧
    cgc false (onError (sHalt 1)) = cgc false (onError sf) ∧ (∃ ψ, Sim ψ (cgc false (onError (sHalt 1))) (onError sf)) := by
  obtain ⟨sf, h1, h2, h3, _⟩ := failed_eval_equivalent_later_closed failingExt false failingExt_laws failingExt_good
    failingExt_codeLawsV failingExt_proc
    (fun _ _ => .err .invalidSyntax) ⟨fun _ _ _ _ _ _ _ _ _ _ => .err⟩ ⟨fun _ _ _ _ _ _ _ h => (by cases h)⟩
    none 5 (sHalt 1) _ _ demo_failed_eval (sHalt1_vmOk _ _) (sHalt_pinv 1) (sHalt_sizeBounded1 _) demo_failed_small
  exact ⟨sf, h1, h2, h3⟩

/-- the hypotheses `PInv s2`, `PInv t2` of `failed_eval_equivalent_later_closed` follow from the law `CompProc` of the
    compiler inside `prepare_eval` (the heap it returns, fresh entry lambda included, satisfies `HP`): the failed VM
    after the error epilogue and the collection, and its twin, are idle machines satisfying `PInv`, and
    `prepare_eval` only points `ip` at the new entry lambda -/
theorem prepared_pinv_after_failure (ext : ExtOps) (force : Bool) (el : ExtLaws ext) (eg : ExtGood ext)
    (ecl : ExtCodeLawsV ext) (ep : ExtProc ext)
    (comp : CHeap → VCell → Outcome (CHeap × VCell)) (cp : CompProc comp)
    (count : Option Nat) (fuel : Nat) (s : St CHeap) (f : Fault) (s1 : St CHeap)
    (hfail : runEval (concreteOps ext) (cgc force) count fuel s = .failed f s1)
    (h0 : VmOk ext ecl s) (p0 : PInv s) (sb : SizeBounded (machine ext force) s) :
    ∃ sf, runLoop (machine ext force) count fuel 0 s = .error f sf ∧ s1 = cgc force (onError sf) ∧
      ∀ (d : VCell) (s2 t2 : St CHeap), addrFree d = true →
        prepareEval comp s1 d = .ok s2 → prepareEval comp (onError sf) d = .ok t2 → PInv s2 ∧ PInv t2 := by
  obtain ⟨q1, sf, hrun, rfl, _⟩ := failed_eval_resets_cgc ext force count fuel s f s1 hfail
  have hreach : Reaches (machine ext force) s sf := (runLoop_reaches ext force count fuel 0 s).1 f sf hrun
  have hv := vmOkP_reaches force el eg ep (ecl := ecl) ⟨h0, p0⟩ sb sf hreach
  have pe : PInv (onError sf) := onError_pinv hv.2
  have p1 : PInv (cgc force (onError sf)) := pinv_gc force (s := onError sf) hv.1.cinv pe
  have qt : Quiescent (onError sf) := onError_quiescent sf
  refine ⟨sf, hrun, rfl, ?_⟩
  intro d s2 t2 hd hs2 ht2
  exact ⟨prepare_pinv cp p1 q1.2.2.2.1 q1.2.2.2.2 hd hs2, prepare_pinv cp pe qt.2.2.2.1 qt.2.2.2.2 hd ht2⟩

/-- the compiler law is satisfiable (the always-failing compiler of the demo) -/
example : CompProc (fun _ _ => .err .invalidSyntax) := ⟨fun _ _ _ _ _ _ h => (by cases h)⟩

end ConcreteSim

/-! ## T07.4 with `prepare_eval` made explicit: no per-job invariant hypothesis (Lemmas/Prepare*.lean)

`failed_eval_equivalent_later_closed` asks `VmOk ∧ PInv` of the state the failing evaluation starts in and of the two
states the later evaluation starts in (`s2`, `t2`), and the law `CompGood` of the compiler inside `prepare_eval`. Here
these are consequences: the machine BEFORE the failing job is idle and satisfies the idle invariant `IdleOk` (which
follows from `VmOkP` of a state with an empty stack: `VmOkP.idleOk`), each `prepare_eval` is described by the loader
relation `Installs` (Lemmas/PrepareDefs.lean: allocator steps installing loadings of the code objects of the compiler
model, their data, symbols and global slots), and `prepare_vmOkP_idle` re-establishes the bundled invariant. What is
still a parameter: `CompLaws` (the compiler behaves alike on `Sim`-related heaps — inherent to a statement relating
two heaps), the laws of the unmodelled builtins, and the physical size bound. -/
section InstallsT074
open Marwood.Vm.Concrete Marwood.Lemmas.Sim Marwood.Lemmas.Good Marwood.Proofs.C13

/-- **T07.4 from the idle invariant of the state before the failing job.** `s0` is the idle machine,
    `Installs e0 cf0 s0 s0' entry0` its `prepare_eval`, the evaluation from `prepare s0' entry0` fails; the failed VM
    `s1` and the twin `onError sf` are idle machines again (`IdleOk`), and for EVERY later form whose `prepare_eval`
    on both machines is described by `Installs`, the evaluation ends the same way on both. -/
theorem failed_eval_equivalent_later_installs (ext : ExtOps) (force : Bool) (el : ExtLaws ext) (eg : ExtGood ext)
    (ecl : ExtCodeLawsV ext) (ep : ExtProc ext)
    (comp : CHeap → VCell → Outcome (CHeap × VCell)) (cl : CompLaws comp)
    (count : Option Nat) (fuel : Nat) (s0 s0' : St CHeap) (e0 : Datum) (cf0 entry0 : Nat) (f : Fault) (s1 : St CHeap)
    (i0 : IdleOk s0) (inst0 : Installs e0 cf0 s0 s0' entry0)
    (hfail : runEval (concreteOps ext) (cgc force) count fuel (prepare s0' entry0) = .failed f s1)
    (sb : SizeBounded (machine ext force) (prepare s0' entry0)) (sm1 : Small s1.heap) :
    ∃ sf, runLoop (machine ext force) count fuel 0 (prepare s0' entry0) = .error f sf ∧ s1 = cgc force (onError sf) ∧
      (∃ ψ, Sim ψ s1 (onError sf)) ∧ IdleOk s1 ∧ IdleOk (onError sf) ∧
      ∀ (d : VCell) (s2 t2 : St CHeap) (e : Datum) (cf : Nat), addrFree d = true →
        prepareEval comp s1 d = .ok s2 → prepareEval comp (onError sf) d = .ok t2 →
        Installs e cf s1 { s1 with heap := s2.heap } s2.ipL →
        Installs e cf (onError sf) { onError sf with heap := t2.heap } t2.ipL →
        SizeBounded (machine ext force) s2 → SizeBounded (machine ext force) t2 →
        ∀ k : Nat,
          (∀ t', pureN (machine ext force) k t2 = .done t' →
            ∃ s' t'', run (machine ext force) k s2 = .done s' ∧ run (machine ext force) k t2 = .done t'' ∧
              ∀ fl, resultObs fl s' = resultObs fl t'') ∧
          (∀ e' t', pureN (machine ext force) k t2 = .error e' t' →
            ∃ s' t'', run (machine ext force) k s2 = .error e' s' ∧ run (machine ext force) k t2 = .error e' t'' ∧
              (∃ ψ, Sim ψ s' t' ∧ All2 (AddrRel ψ) (traceFrames s') (traceFrames t')) ∧
              (∃ ψ, Sim ψ t'' t' ∧ All2 (AddrRel ψ) (traceFrames t'') (traceFrames t'))) := by
  have hv0 : VmOkP ext ecl (prepare s0' entry0) := prepare_vmOkP_idle i0 inst0 (sb (prepare s0' entry0) (.refl _))
  obtain ⟨q1, sf, hrun, rfl, _⟩ := failed_eval_resets_cgc ext force count fuel _ f s1 hfail
  have hreach : Reaches (machine ext force) (prepare s0' entry0) sf :=
    (runLoop_reaches ext force count fuel 0 _).1 f sf hrun
  have hvf := vmOkP_reaches force el eg ep hv0 sb sf hreach
  have gsf : GoodI sf := hvf.1.1
  have hc : 0 < sf.stack.cells.length := by
    have h1 : 0 < (prepare s0' entry0).stack.cells.length := by
      have := i0.cap
      rw [inst0.regs]; exact this
    exact Nat.lt_of_lt_of_le h1 (reaches_len_mono hreach)
  have it1 : IdleOk (onError sf) := idleOk_onError gsf hvf.1.cinv hvf.2 hc
  have is1 : IdleOk (cgc force (onError sf)) := it1.gc force sm1
  have smt1 : Small (onError sf).heap := sb sf hreach
  obtain ⟨ψ0, hsim0⟩ := failed_twin_sim force gsf sm1
  refine ⟨sf, hrun, rfl, ⟨ψ0, hsim0⟩, is1, it1, ?_⟩
  intro d s2 t2 e cf hd hs2 ht2 in2 int2 sb2 sbt k
  obtain ⟨ψ, hsim⟩ := prepare_sim cl hsim0 sm1.sizeOk smt1.sizeOk (SymOk.of_wf is1.good.hg.wf)
    (SymOk.of_wf it1.good.hg.wf) hd hs2 ht2
  obtain ⟨h2, e2, _, rfl⟩ := prepareEval_inv hs2
  obtain ⟨h2', e2', _, rfl⟩ := prepareEval_inv ht2
  have v2 : VmOkP ext ecl (prepare { cgc force (onError sf) with heap := h2 } e2) :=
    prepare_vmOkP_idle is1 in2 (sb2 (prepare { cgc force (onError sf) with heap := h2 } e2) (.refl _))
  have vt : VmOkP ext ecl (prepare { onError sf with heap := h2' } e2') :=
    prepare_vmOkP_idle it1 int2 (sbt (prepare { onError sf with heap := h2' } e2') (.refl _))
  have safe2 := safe_of_vmOk force el eg v2.1 sb2 (calleeOkAlong_of_vmOk force el eg ep v2.1 v2.2 sb2)
  have safet := safe_of_vmOk force el eg vt.1 sbt (calleeOkAlong_of_vmOk force el eg ep vt.1 vt.2 sbt)
  have hT := gcTransparent_concrete_partial ext force el
  have hR : R (machine ext force) _ _ := ⟨⟨ψ, hsim⟩, safe2, safet⟩
  have a := run_pureN _ _ hT k 0 _ _ hR
  have b := run_pureN _ _ hT k 0 _ _ (R_refl _ safet)
  constructor
  · intro t' hk
    obtain ⟨s', h1, ⟨⟨φ1, r1⟩, ss1, st1⟩⟩ := a.1 t' hk
    obtain ⟨t'', h2, ⟨⟨φ2, r2⟩, ss2, st2⟩⟩ := b.1 t' hk
    refine ⟨s', t'', h1, h2, fun fl => ?_⟩
    rw [resultObs_sim r1 ss1.good.size st1.good.size fl, resultObs_sim r2 ss2.good.size st2.good.size fl]
  · intro e' t' hk
    obtain ⟨s', h1, ⟨⟨φ1, r1⟩, _, _⟩⟩ := a.2 e' t' hk
    obtain ⟨t'', h2, ⟨⟨φ2, r2⟩, _, _⟩⟩ := b.2 e' t' hk
    exact ⟨s', t'', h1, h2, ⟨φ1, r1, traceFrames_rel r1⟩, ⟨φ2, r2, traceFrames_rel r2⟩⟩

/-- the same with the bundled invariant `VmOkP` of an INITIAL state with an empty stack as the only invariant
    hypothesis (`VmOkP.idleOk`) -/
theorem failed_eval_equivalent_later_installs_vmOkP (ext : ExtOps) (force : Bool) (el : ExtLaws ext) (eg : ExtGood ext)
    (ecl : ExtCodeLawsV ext) (ep : ExtProc ext)
    (comp : CHeap → VCell → Outcome (CHeap × VCell)) (cl : CompLaws comp)
    (count : Option Nat) (fuel : Nat) (s0 s0' : St CHeap) (e0 : Datum) (cf0 entry0 : Nat) (f : Fault) (s1 : St CHeap)
    (h0 : VmOkP ext ecl s0) (hsp : s0.stack.sp = 0) (hcap : 0 < s0.stack.cells.length)
    (inst0 : Installs e0 cf0 s0 s0' entry0)
    (hfail : runEval (concreteOps ext) (cgc force) count fuel (prepare s0' entry0) = .failed f s1)
    (sb : SizeBounded (machine ext force) (prepare s0' entry0)) (sm1 : Small s1.heap) :
    ∃ sf, runLoop (machine ext force) count fuel 0 (prepare s0' entry0) = .error f sf ∧ s1 = cgc force (onError sf) ∧
      (∃ ψ, Sim ψ s1 (onError sf)) ∧ IdleOk s1 ∧ IdleOk (onError sf) :=
  let ⟨sf, a, b, c, d, e, _⟩ := failed_eval_equivalent_later_installs ext force el eg ecl ep comp cl count fuel s0 s0' e0
    cf0 entry0 f s1 (h0.idleOk hsp hcap) inst0 hfail sb sm1
  ⟨sf, a, b, c, d, e⟩

open Marwood.Lemmas.Good.Demo in
/-- non-vacuity of the idle invariant: the demo machine (heap = one entry lambda `[HALT]`, empty stack) satisfies it,
    and a history in which the compiler rejects a form that allocated nothing keeps it -/
example : IdleOk (sHalt 0) ∧ InstallsGarbage (sHalt 0) (sHalt 0) :=
  ⟨(sHalt_vmOkP failingExt failingExt_codeLawsV).idleOk rfl (by decide), ⟨rfl, .refl _⟩⟩

end InstallsT074

end Marwood.Proofs.C07
