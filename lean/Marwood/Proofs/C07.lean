import Marwood.Vm.Eval
import Marwood.Lemmas.StackWFToy
/-!
# C07 — a failed evaluation leaves no trace beyond its completed effects

Statements about `Marwood.Vm.runEval`, the model of `prepare_eval` + `run_count` with its
epilogues (after the error-path `fix:`), for every heap, every instruction semantics `ops`, every
collector and every program.
-/
namespace Marwood.Proofs.C07
open Marwood.Vm

variable {H : Type}

/-- the register file and stack of a VM that has no evaluation in progress -/
def Quiescent (s : St H) : Prop :=
  s.stack.sp = 0 ∧ s.bp = 0 ∧ s.ep = usizeMax ∧ s.acc = .undefined ∧
    ∀ c ∈ s.stack.cells, c = VCell.undefined

theorem onError_quiescent (s : St H) : Quiescent (onError s) := by
  refine ⟨rfl, rfl, rfl, rfl, ?_⟩
  intro c hc
  simp only [onError] at hc
  exact (List.mem_replicate.mp hc).2

theorem Quiescent.gc {gc : St H → St H} (hg : GcRegs gc) {s : St H} (h : Quiescent s) : Quiescent (gc s) := by
  obtain ⟨g1, g2, g3, g4, _, _⟩ := hg s
  obtain ⟨h1, h2, h3, h4, h5⟩ := h
  exact ⟨by rw [g1]; exact h1, by rw [g4]; exact h2, by rw [g3]; exact h3, by rw [g2]; exact h4,
    by rw [g1]; exact h5⟩

/-- T07.1: whatever the program, the depth at which it failed and the kind of failure, after a
    failed `run_count` the registers and the stack are those of an idle VM, the stack capacity is
    the capacity the failed evaluation needed, and the heap is the heap at the failing instruction
    — the completed definitions and mutations, nothing else — after the collection that ends the
    error path (`hg`: the collector touches only the heap). -/
theorem failed_eval_resets (ops : HeapOps H) (gc : St H → St H) (count : Option Nat) (fuel : Nat)
    (s : St H) (f : Fault) (s' : St H) (h : runEval ops gc count fuel s = .failed f s')
    (hg : GcRegs gc) :
    Quiescent s' ∧ ∃ sf, runLoop ⟨vmStep ops, gc⟩ count fuel 0 s = .error f sf ∧
      s'.heap = (gc (onError sf)).heap ∧ s'.stack.cells.length = sf.stack.cells.length := by
  unfold runEval at h
  split at h <;> try (cases h)
  rename_i sf hr
  exact ⟨(onError_quiescent sf).gc hg, sf, hr, rfl, by rw [(hg _).1]; simp [onError]⟩

/-- T07.3: a quiescent stack holds no return addresses, so the stack trace of any later failure
    lists only frames pushed by the evaluation that failed. -/
theorem quiescent_no_frames (s : St H) (h : Quiescent s) : traceFrames s = [] := by
  unfold traceFrames
  rw [h.1]; simp

theorem quiescent_stack_no_instrPtr (s : St H) (h : Quiescent s) :
    ∀ c ∈ s.stack.cells, ∀ l o, c ≠ VCell.instrPtr l o := by
  intro c hc l o he
  have := h.2.2.2.2 c hc
  rw [this] at he; cases he

/-- one entry of a session history: the entry lambda `prepare_eval` produced, and the fuel/budget -/
structure Job where
  entry : Nat
  fuel : Nat

/-- run a whole history of evaluations, each uninterrupted; returns the final state (evaluations
    that exhaust the model's fuel are skipped — they do not terminate in the real VM either) -/
def runHistory (ops : HeapOps H) (gc : St H → St H) : List Job → St H → St H
  | [], s => s
  | j :: js, s =>
    match runEval ops gc none j.fuel (prepare s j.entry) with
    | .value s' => runHistory ops gc js s'
    | .failed _ s' => runHistory ops gc js s'
    | .paused s' => runHistory ops gc js s'
    | .fuel => runHistory ops gc js s

/-- "a successful evaluation is balanced": it returns `sp` to where it started. For compiled code
    this is the calling convention (entry sequence `PUSH 0; CALL; HALT`, `RET` restores `sp`); it is
    an explicit hypothesis here (checked on every generated session by the correspondence, not
    proved), and concerns successful evaluations only. -/
def Balanced (ops : HeapOps H) (gc : St H → St H) : Prop :=
  ∀ (s : St H) (entry fuel : Nat) (s' : St H), s.stack.sp = 0 →
    runEval ops gc none fuel (prepare s entry) = .value s' → s'.stack.sp = 0

/-- T07.2: for every history — any interleaving of succeeding and failing evaluations, any number
    of consecutive failures — the stack pointer between evaluations is 0: failures never
    accumulate stack depth (unconditionally, by T07.1); successes return to 0 by `Balanced`. -/
theorem sp_zero_between_evaluations (ops : HeapOps H) (gc : St H → St H) (hg : GcRegs gc)
    (hB : Balanced ops gc) : ∀ (js : List Job) (s : St H), s.stack.sp = 0 →
      (runHistory ops gc js s).stack.sp = 0 := by
  intro js
  induction js with
  | nil => intro s h; exact h
  | cons j js ih =>
    intro s h
    simp only [runHistory]
    split
    · rename_i s' hr; exact ih s' (hB s j.entry j.fuel s' h hr)
    · rename_i f s' hr
      exact ih s' (failed_eval_resets ops gc none j.fuel _ f s' hr hg).1.1
    · rename_i s' hr
      -- `run()` has no budget, so it never pauses
      exfalso
      unfold runEval at hr
      split at hr <;> try (cases hr)
      rename_i sp hp
      have : ∀ (f c : Nat) (s : St H) (x : St H),
          runLoop ⟨vmStep ops, gc⟩ none f c s ≠ .paused x := by
        intro f
        induction f with
        | zero => intro c s x; simp [runLoop]
        | succ f ihf =>
          intro c s x
          simp only [runLoop]
          split
          · simp
          · simp
          · simp only [reduceCtorEq, if_false]; exact ihf _ _ _
      exact this _ _ _ _ hp
    · exact ih s h

/-- k consecutive failures: no hypothesis about the programs. After each one the VM is quiescent. -/
theorem consecutive_failures_quiescent (ops : HeapOps H) (gc : St H → St H) (hg : GcRegs gc) :
    ∀ (js : List Job) (s : St H), Quiescent s →
      (∀ j ∈ js, ∀ s0, ∃ f s', runEval ops gc none j.fuel (prepare s0 j.entry) = .failed f s') →
      Quiescent (runHistory ops gc js s) := by
  intro js
  induction js with
  | nil => intro s h _; exact h
  | cons j js ih =>
    intro s _ hall
    obtain ⟨f, s', hf⟩ := hall j (by simp) s
    simp only [runHistory, hf]
    exact ih s' (failed_eval_resets ops gc none j.fuel _ f s' hf hg).1
      (fun j' hj' => hall j' (by simp [hj']))

/-! ### non-vacuity -/

/-- a heap-less toy instance: the lambda at 7 is `HALT`, everything else fails to fetch -/
def toyOps : HeapOps Unit where
  fetch _ l o := if l = 7 ∧ o = 0 then some (.opcode .halt) else none
  isLambda _ _ := true
  callee _ _ := .other
  lambdaInfo _ _ := none
  deref _ v := v
  getAt _ _ := .undefined
  setAt h _ _ := h
  put h v := (h, v)
  maybePut h v := (h, v)
  newCont h _ := (h, .undefined)
  globGet _ _ := .undefined
  globPut h _ _ := h
  envGet _ _ _ := none
  envPut _ _ _ _ := none
  makeClosure _ _ _ _ _ := .err .invalidBytecode
  makeActivation _ _ _ _ _ := .err .invalidBytecode
  vectorPush _ _ _ := .err .expectedType
  builtinKind _ _ := .generic
  builtinEval _ _ _ := .err .invalidSyntax
  compileEval _ _ := .err .invalidSyntax
  isProcedure _ _ := false

def toyState : St Unit :=
  { heap := (), stack := { cells := [.undefined, .bool true, .instrPtr 3 4], sp := 2 },
    acc := .bool true, ep := 5, ipL := 9, ipO := 0, bp := 1 }

example : ∃ f s', runEval toyOps id none 10 toyState = .failed f s' ∧ Quiescent s' := by
  refine ⟨.err .invalidBytecode, onError toyState, rfl, onError_quiescent _⟩

example : ∃ s', runEval toyOps id none 10 (prepare toyState 7) = .value s' := ⟨_, rfl⟩

/-- the hypothesis about the collector is satisfiable (trivially by the collector that does nothing;
    `run_gc` satisfies it because it never writes the stack or a register) -/
example : GcRegs (id : St Unit → St Unit) := fun _ => ⟨rfl, rfl, rfl, rfl, rfl, rfl⟩

/-! ## `Balanced` as a theorem (WF-stack, `Lemmas/StackWF*.lean`)

The hypothesis `Balanced` of `sp_zero_between_evaluations` is discharged for code the bytecode
verifier accepts: under the heap laws `CodeLaws` (what the generic heap must satisfy) and `GcLaws`
(what the collector must satisfy), an evaluation that starts in verified entry code at the entry
stack pointer and reaches HALT has `sp` back at the entry stack pointer. -/

/-- `run()` has no budget: the loop never pauses -/
theorem runLoop_none_not_paused (ops : HeapOps H) (gc : St H → St H) :
    ∀ (f c : Nat) (s x : St H), runLoop ⟨vmStep ops, gc⟩ none f c s ≠ .paused x := by
  intro f
  induction f with
  | zero => intro c s x; simp [runLoop]
  | succ f ihf =>
    intro c s x
    simp only [runLoop]
    split
    · simp
    · simp
    · simp only [reduceCtorEq, if_false]; exact ihf _ _ _

/-- the entry lambda `prepare_eval` produced is verified entry code (in every reachable heap) -/
def EntryOK {ops : HeapOps H} (cl : CodeLaws ops) (entry : Nat) : Prop :=
  ∀ h, cl.HInv h → ∃ t, tyOf (cl.code h) entry = some t ∧ t.entry = true

/-- no evaluation in progress, as far as the stack discipline is concerned -/
def Idle {ops : HeapOps H} (cl : CodeLaws ops) (s : St H) : Prop :=
  cl.HInv s.heap ∧ s.stack.sp = cl.e ∧ s.stack.sp < s.stack.cells.length

/-- **`Balanced`, proved**: a successful evaluation of verified code returns `sp` to its entry value. -/
theorem balanced_of_verified {ops : HeapOps H} (cl : CodeLaws ops) {gc : St H → St H} (gl : GcLaws cl gc)
    (s : St H) (entry fuel : Nat) (s' : St H) (hidle : Idle cl s) (hentry : EntryOK cl entry)
    (hr : runEval ops gc none fuel (prepare s entry) = .value s') : Idle cl s' := by
  obtain ⟨t, ht, hent⟩ := hentry s.heap hidle.1
  have hw := WFS.initial (entry := entry) hidle.1 ht hent hidle.2.1 hidle.2.2
  have key := runLoop_wf gl none fuel 0 (prepare s entry) [] hw
  unfold runEval at hr
  split at hr <;> try (cases hr)
  rename_i sd hd
  rw [hd] at key
  obtain ⟨k1, k2, k3⟩ := key
  obtain ⟨g1, _, _, _⟩ := gl.frame (onDone sd)
  refine ⟨gl.inv _ k2, ?_, ?_⟩
  · rw [g1]; exact k1
  · rw [g1]; simpa [onDone, Stack.clear] using k3

/-- a failed evaluation of verified code leaves an idle machine, too (T07.1 + the heap invariant) -/
theorem failed_idle {ops : HeapOps H} (cl : CodeLaws ops) (he : cl.e = 0) {gc : St H → St H} (gl : GcLaws cl gc)
    (s : St H) (entry fuel : Nat) (f : Fault) (s' : St H) (hidle : Idle cl s) (hentry : EntryOK cl entry)
    (hr : runEval ops gc none fuel (prepare s entry) = .failed f s') : Idle cl s' := by
  obtain ⟨t, ht, hent⟩ := hentry s.heap hidle.1
  have hw := WFS.initial (entry := entry) hidle.1 ht hent hidle.2.1 hidle.2.2
  have key := runLoop_wf gl none fuel 0 (prepare s entry) [] hw
  unfold runEval at hr
  split at hr <;> try (cases hr)
  rename_i sf hd
  rw [hd] at key
  obtain ⟨k1, k2⟩ := key
  obtain ⟨g1, _, _, _⟩ := gl.frame (onError sf)
  refine ⟨gl.inv (onError sf) k1, by rw [g1, he]; rfl, ?_⟩
  rw [g1]
  show 0 < (List.replicate sf.stack.cells.length VCell.undefined).length
  simp; omega

/-- **T07.2 without the `Balanced` hypothesis**: for every history of evaluations of verified code —
    any interleaving of successes and failures — the machine is idle between evaluations; with the
    entry stack pointer 0 (the real VM's), `sp = 0` between evaluations. -/
theorem sp_zero_between_evaluations_verified {ops : HeapOps H} (cl : CodeLaws ops) (he : cl.e = 0)
    {gc : St H → St H} (gl : GcLaws cl gc) : ∀ (js : List Job) (s : St H),
      (∀ j ∈ js, EntryOK cl j.entry) → Idle cl s →
      Idle cl (runHistory ops gc js s) ∧ (runHistory ops gc js s).stack.sp = 0 := by
  intro js
  induction js with
  | nil => intro s _ h; exact ⟨h, by show s.stack.sp = 0; rw [h.2.1, he]⟩
  | cons j js ih =>
    intro s hall h
    have hj := hall j (by simp)
    have hrest : ∀ j' ∈ js, EntryOK cl j'.entry := fun j' hj' => hall j' (by simp [hj'])
    simp only [runHistory]
    split
    · rename_i s' hr
      exact ih s' hrest (balanced_of_verified cl gl s j.entry j.fuel s' h hj hr)
    · rename_i f s' hr
      exact ih s' hrest (failed_idle cl he gl s j.entry j.fuel f s' h hj hr)
    · rename_i s' hr
      exfalso
      unfold runEval at hr
      split at hr <;> try (cases hr)
      rename_i sp hp
      exact runLoop_none_not_paused ops gc _ _ _ _ hp
    · exact ih s hrest h

/-- the old formulation follows: on idle machines running verified entry code, `Balanced` holds -/
theorem balanced_sp {ops : HeapOps H} (cl : CodeLaws ops) (he : cl.e = 0) {gc : St H → St H} (gl : GcLaws cl gc)
    (s : St H) (entry fuel : Nat) (s' : St H) (hi : cl.HInv s.heap) (hcap : 0 < s.stack.cells.length)
    (hentry : EntryOK cl entry) (hsp : s.stack.sp = 0)
    (hr : runEval ops gc none fuel (prepare s entry) = .value s') : s'.stack.sp = 0 := by
  have := balanced_of_verified cl gl s entry fuel s' ⟨hi, by rw [hsp, he], by rw [hsp]; exact hcap⟩ hentry hr
  rw [this.2.1, he]

/-! ### non-vacuity: a concrete verified program (`Lemmas/StackWFToy.lean`): entry code
`PUSHIMM argc0; MOVIMM λ2 acc; CALL; HALT` calling `λ2 = ENTER; MOVIMM void acc; RET` -/

open Marwood.Vm.Toy in
example : Idle Toy.laws Toy.idle ∧ EntryOK Toy.laws 1 :=
  ⟨⟨trivial, rfl, by decide⟩, fun _ _ => Toy.entry1⟩

open Marwood.Vm.Toy in
/-- the evaluation really reaches HALT (seven instructions), so the theorem applies non-vacuously -/
example : ∃ s', runEval Toy.ops id none 20 (prepare Toy.idle 1) = .value s' ∧ s'.stack.sp = 0 := by
  refine ⟨_, rfl, ?_⟩
  decide +kernel

open Marwood.Vm.Toy in
example : (runHistory Toy.ops id [⟨1, 20⟩, ⟨1, 20⟩, ⟨9, 20⟩, ⟨1, 20⟩] Toy.idle).stack.sp = 0 := by
  decide +kernel

end Marwood.Proofs.C07
