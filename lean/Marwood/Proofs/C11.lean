import Marwood.Proofs.Tables
import Marwood.Lemmas.Parse
import Marwood.Lemmas.LexSpans
import Marwood.Lemmas.ParseTextScan
import Marwood.Lemmas.ParseTextShift
import Marwood.Lemmas.ParseTextNoPanic
import Marwood.Lemmas.ParseTextLoop
/-!
# C11 — reader discipline: total, exact spans, one datum per parse, incompleteness found

Property theorems only. Models: `Marwood.Lex` (lex.rs), `Marwood.Parse` (parse.rs after the repair
of the number-prefix arm). `fo : FloatOps` is what is not modelled about doubles; every statement
holds for every `fo`.
-/
namespace Marwood.Proofs.C11
open Marwood

/-! ### T11.1 — the scanner and the parser terminate -/

/-- the scanner's fuel (`length + 1`) is never exhausted: `scan` always answers with tokens or
    with one of the scanner's own errors -/
theorem scan_total (cs : Text) : ∃ r, scanFrom 0 cs = some r ∧ scan cs = r := by
  have h := scanFuel_total (cs.length + 1) 0 cs (by omega)
  unfold scan scanFrom
  cases hs : scanFuel (cs.length + 1) 0 cs with
  | none => exact absurd hs h
  | some r => exact ⟨r, rfl, rfl⟩

/-- the parser's fuel (`2·|tokens| + 2`) is never exhausted, for any token list whatsoever -/
theorem parse_total (fo : FloatOps) (text : Text) (ts : List Token) :
    parseF fo text (parseFuel ts) ts = some (parseTokens fo text ts) :=
  parseTokens_fuel fo text ts

/-- more fuel never changes the parser's answer -/
theorem parse_fuel_irrelevant (fo : FloatOps) (text : Text) (ts : List Token) (f : Nat)
    (hf : parseFuel ts ≤ f) : parseF fo text f ts = some (parseTokens fo text ts) :=
  parseF_mono fo text hf (parseTokens_fuel fo text ts)

/-! ### T11.2 — span discipline of the scanner, in the property's words -/

theorem Lexed.lower : ∀ {pos : Nat} {cs : Text} {ts : List Token}, Lexed pos cs ts →
    ∀ t ∈ ts, pos ≤ t.lo ∧ t.lo < t.hi := by
  intro pos cs ts h
  induction h with
  | done _ => intro t ht; simp at ht
  | @tok pos g body rest t ts _ hne hlo hhi _ ih =>
    intro b hb
    have hpos := byteLen_pos_of_ne_nil hne
    rcases List.mem_cons.mp hb with rfl | hb
    · omega
    · have := ih b hb; omega

theorem Lexed.pairwise : ∀ {pos : Nat} {cs : Text} {ts : List Token}, Lexed pos cs ts →
    ts.Pairwise (fun a b => a.hi ≤ b.lo) := by
  intro pos cs ts h
  induction h with
  | done _ => exact List.Pairwise.nil
  | @tok pos g body rest t ts _ _ _ _ hrest ih =>
    refine List.Pairwise.cons ?_ ih
    intro b hb
    exact (Lexed.lower hrest b hb).1

theorem Lexed.spans : ∀ {pos : Nat} {cs : Text} {ts : List Token}, Lexed pos cs ts →
    ∀ b ∈ ts, ∃ pre body post, cs = pre ++ body ++ post ∧ b.lo = pos + byteLen pre ∧
      b.hi = b.lo + byteLen body ∧ body ≠ [] := by
  intro pos cs ts h
  induction h with
  | done _ => intro b hb; simp at hb
  | @tok pos g body rest t ts hg hne hlo hhi _ ih =>
    intro b hb
    rcases List.mem_cons.mp hb with rfl | hb
    · exact ⟨g, body, rest, rfl, hlo, hhi, hne⟩
    · obtain ⟨pre, bd, post, he, h1, h2, h3⟩ := ih b hb
      refine ⟨g ++ body ++ pre, bd, post, by simp [he], ?_, h2, h3⟩
      rw [h1, hhi, hlo]; simp; omega

/-- text before the first token is gap text -/
theorem Lexed.leading : ∀ {pos : Nat} {cs : Text} {t : Token} {ts : List Token},
    Lexed pos cs (t :: ts) → ∃ g post, cs = g ++ post ∧ Gap g ∧ t.lo = pos + byteLen g := by
  intro pos cs t ts h
  cases h with
  | tok hg _ hlo _ _ => exact ⟨_, _, List.append_assoc _ _ _, hg, hlo⟩

/-- text between two consecutive tokens is gap text -/
theorem Lexed.between : ∀ {pos : Nat} {cs : Text} {ts : List Token}, Lexed pos cs ts →
    ∀ (i : Nat) (a b : Token), ts[i]? = some a → ts[i+1]? = some b →
      ∃ pre g post, cs = pre ++ g ++ post ∧ a.hi = pos + byteLen pre ∧ b.lo = a.hi + byteLen g ∧
        Gap g := by
  intro pos cs ts h
  induction h with
  | done _ => intro i a b ha; simp at ha
  | @tok pos g body rest t ts hg hne hlo hhi hrest ih =>
    intro i a b ha hb
    cases i with
    | zero =>
      simp only [List.getElem?_cons_zero, Option.some.injEq] at ha
      subst ha
      simp only [Nat.zero_add, List.getElem?_cons_succ] at hb
      cases ts with
      | nil => simp at hb
      | cons b' ts' =>
        simp only [List.getElem?_cons_zero, Option.some.injEq] at hb
        subst hb
        obtain ⟨g', post, he, hg', hlo'⟩ := Lexed.leading hrest
        refine ⟨g ++ body, g', post, by simp [he], ?_, hlo', hg'⟩
        rw [hhi, hlo]; simp; omega
    | succ i =>
      simp only [List.getElem?_cons_succ] at ha hb
      obtain ⟨pre, g', post, he, h1, h2, h3⟩ := ih i a b ha hb
      refine ⟨g ++ body ++ pre, g', post, by simp [he], ?_, h2, h3⟩
      rw [h1, hhi, hlo]; simp; omega

/-- text after the last token (the whole text when there is no token) is gap text -/
theorem Lexed.trailing : ∀ {pos : Nat} {cs : Text} {ts : List Token}, Lexed pos cs ts →
    ∃ pre g, cs = pre ++ g ∧ Gap g ∧
      (match ts.getLast? with | some a => a.hi = pos + byteLen pre | none => pre = []) := by
  intro pos cs ts h
  induction h with
  | done hg => exact ⟨[], _, rfl, hg, rfl⟩
  | @tok pos g body rest t ts hg hne hlo hhi hrest ih =>
    obtain ⟨pre, g', he, hg', hl⟩ := ih
    refine ⟨g ++ body ++ pre, g', by simp [he], hg', ?_⟩
    cases ts with
    | nil =>
      simp only [List.getLast?_nil] at hl
      subst hl
      simp [List.getLast?, hhi, hlo]; omega
    | cons x xs =>
      rw [List.getLast?_cons_cons]
      cases hx : (x :: xs).getLast? with
      | none => simp at hx
      | some a =>
        rw [hx] at hl
        simp only at hl ⊢
        rw [hl, hhi, hlo]; simp; omega

/-- T11.2 as one record -/
structure SpanDiscipline (cs : Text) (ts : List Token) : Prop where
  /-- every token is non-empty -/
  nonempty : ∀ t ∈ ts, t.lo < t.hi
  /-- every token lies within the text, both ends on character boundaries (byte lengths of
      prefixes of the text), and the slice between them is the non-empty token text -/
  boundaries : ∀ t ∈ ts, ∃ pre body post, cs = pre ++ body ++ post ∧ t.lo = byteLen pre ∧
      t.hi = byteLen (pre ++ body) ∧ t.hi ≤ byteLen cs ∧ sliceBytes t.lo t.hi cs = some body ∧ body ≠ []
  /-- tokens are strictly ordered and disjoint -/
  ordered : ts.Pairwise (fun a b => a.hi ≤ b.lo)
  /-- what precedes the first token is whitespace and comments -/
  leading : ∀ t, ts.head? = some t → ∃ g, takeBytes t.lo cs = some g ∧ Gap g
  /-- what separates consecutive tokens is whitespace and comments -/
  between : ∀ i a b, ts[i]? = some a → ts[i+1]? = some b →
      ∃ g, sliceBytes a.hi b.lo cs = some g ∧ Gap g
  /-- what follows the last token is whitespace and comments (the whole text if no token) -/
  trailing : match ts.getLast? with
      | some a => ∃ g, dropBytes a.hi cs = some g ∧ Gap g
      | none => Gap cs

theorem scan_discipline {cs : Text} {ts : List Token} (h : scan cs = .ok ts) :
    SpanDiscipline cs ts := by
  have hl := scan_lexed h
  refine ⟨fun t ht => (Lexed.lower hl t ht).2, ?_, Lexed.pairwise hl, ?_, ?_, ?_⟩
  · intro t ht
    obtain ⟨pre, body, post, he, h1, h2, h3⟩ := Lexed.spans hl t ht
    refine ⟨pre, body, post, he, by simpa using h1, by rw [h2, h1]; simp, ?_, ?_, h3⟩
    · rw [he, h2, h1]; simp <;> omega
    · rw [he, h2, h1]; simp only [Nat.zero_add]; exact sliceBytes_append _ _ _
  · intro t ht
    cases ts with
    | nil => simp at ht
    | cons x xs =>
      simp only [List.head?_cons, Option.some.injEq] at ht
      subst ht
      obtain ⟨g, post, he, hg, hlo⟩ := Lexed.leading hl
      refine ⟨g, ?_, hg⟩
      rw [he, hlo, Nat.zero_add]; exact takeBytes_append _ _
  · intro i a b ha hb
    obtain ⟨pre, g, post, he, h1, h2, h3⟩ := Lexed.between hl i a b ha hb
    refine ⟨g, ?_, h3⟩
    rw [he, h2, h1, Nat.zero_add]; exact sliceBytes_append _ _ _
  · obtain ⟨pre, g, he, hg, hlast⟩ := Lexed.trailing hl
    cases hx : ts.getLast? with
    | none => rw [hx] at hlast; simp only at hlast ⊢; subst hlast; simpa [he] using hg
    | some a =>
      rw [hx] at hlast
      simp only at hlast ⊢
      refine ⟨g, ?_, hg⟩
      rw [he, hlast, Nat.zero_add]; exact dropBytes_append _ _

/-! ### T11.3 — `parse` consumes exactly the tokens of one datum, whatever follows -/

theorem parse_one_datum (fo : FloatOps) (text : Text) (ts : List Token) (d : Datum)
    (rest : List Token) (h : parseTokens fo text ts = .ok (d, rest)) :
    ∃ pre, pre ≠ [] ∧ ts = pre ++ rest ∧
      ∀ rest', parseTokens fo text (pre ++ rest') = .ok (d, rest') := by
  have hf := parseTokens_fuel fo text ts
  rw [h] at hf
  obtain ⟨pre, hne, hts, hall, _⟩ := (consumes_all fo text _).1 _ _ _ hf
  exact ⟨pre, hne, hts, fun rest' => parseTokens_of_fuel fo text (hall rest')⟩

/-! ### T11.5 — a cut inside a datum is `Incomplete`; a complete datum never is -/

/-- every proper prefix of the tokens of a datum that parses is reported `Incomplete` -/
theorem parse_cut_incomplete (fo : FloatOps) (text : Text) (ts : List Token) (d : Datum)
    (rest : List Token) (h : parseTokens fo text ts = .ok (d, rest))
    (p q : List Token) (hcut : ts = p ++ q ++ rest) (hq : q ≠ []) :
    parseTokens fo text p = .err .incomplete := by
  have hf := parseTokens_fuel fo text ts
  rw [h] at hf
  obtain ⟨pre, _, hts, _, hpre⟩ := (consumes_all fo text _).1 _ _ _ hf
  have : pre = p ++ q := List.append_cancel_right (hts.symm.trans hcut)
  exact parseTokens_of_fuel fo text (hpre p q this hq)

/-- the tokens of a datum that parses, on their own, parse to that datum with nothing left:
    a complete datum is never reported `Incomplete` (nor anything else) -/
theorem parse_complete_not_incomplete (fo : FloatOps) (text : Text) (ts : List Token) (d : Datum)
    (rest : List Token) (h : parseTokens fo text ts = .ok (d, rest)) :
    ∃ pre, ts = pre ++ rest ∧ parseTokens fo text pre = .ok (d, []) ∧
      parseTokens fo text pre ≠ .err .incomplete := by
  obtain ⟨pre, _, hts, hall⟩ := parse_one_datum fo text ts d rest h
  have := hall []
  rw [List.append_nil] at this
  exact ⟨pre, hts, this, by rw [this]; simp⟩

/-- `Incomplete` is reported only when the tokens ran out: if `parse` says `Incomplete` on `ts`,
    no extension of `ts` by further tokens is needed to see an error other than `Incomplete`
    earlier — stated contrapositively: a result other than `Incomplete` on a prefix is final. -/
theorem parse_result_stable (fo : FloatOps) (text : Text) (p : List Token) (d : Datum)
    (r : List Token) (h : parseTokens fo text p = .ok (d, r)) (more : List Token) :
    parseTokens fo text (p ++ more) = .ok (d, r ++ more) := by
  obtain ⟨pre, _, hts, hall⟩ := parse_one_datum fo text p d r h
  rw [hts, List.append_assoc]
  exact hall (r ++ more)

/-! ### non-vacuity -/

/-- float operations are irrelevant for these instances -/
def noFloats : FloatOps where
  parseF64 _ _ := none
  bigRatToF64 _ _ := ⟨0⟩
  toExact _ := none
  toInexact _ := ⟨0⟩
  fmtExp _ := []
  fmtFix1 _ := []
  fmtShort _ := []
  fmtRadix _ _ := []

def sample : Text := "(a . (1 #\\x41)) ; c\n'b".toList

def sampleTokens : List Token := [⟨0,1,.leftParen⟩, ⟨1,2,.symbol⟩, ⟨3,4,.dot⟩, ⟨5,6,.leftParen⟩,
    ⟨6,7,.number⟩, ⟨8,13,.char⟩, ⟨13,14,.rightParen⟩, ⟨14,15,.rightParen⟩, ⟨20,21,.singleQuote⟩,
    ⟨21,22,.symbol⟩]

example : (scan sample).toOption = some sampleTokens := by decide

example : parseTokens noFloats sample sampleTokens =
    .ok (.pair (.sym ['a']) (.pair (.num (.fix 1)) (.pair (.char 'A') .nil)),
         [⟨20,21,.singleQuote⟩, ⟨21,22,.symbol⟩]) := by decide

example : parseTokens noFloats sample [⟨0,1,.leftParen⟩, ⟨1,2,.symbol⟩, ⟨3,4,.dot⟩] =
    .err .incomplete := by decide

/-! ### T11.4 — `parse_text` hands back the suffix at the next token; the read loop visits each
datum once and ends within `|tokens|` rounds

`Token.shift k t` is `t` with both ends of its span moved `k` bytes to the right.
`ParseText.readToksF fo text` is the read loop at the level of the specification: parse one datum
from the token list of the *whole* text, continue with the tokens that are left.
`ParseText.ReadsAs fo text ts ds fin`: `ts` is the concatenation of non-empty groups, one per datum
of `ds`, in order, each group parsing on its own to its datum with nothing left, followed by nothing
(`fin = none`) or by a token list on which `parse` fails with `fin`. -/

/-- the scanner at a token boundary: cut the text at the start of any token the scanner returned;
    the cut is on a character boundary, and scanning the suffix yields exactly that token and all
    later ones, spans shifted by the offset of the cut -/
theorem scan_suffix_at_token {text : Text} {ts pre : List Token} {t : Token} {rest : List Token}
    (h : scan text = .ok ts) (hts : ts = pre ++ t :: rest) :
    ∃ (p sfx : Text) (ts0 : List Token), text = p ++ sfx ∧ byteLen p = t.lo ∧
      dropBytes t.lo text = some sfx ∧ scan sfx = .ok ts0 ∧
      t :: rest = ts0.map (Token.shift t.lo) := by
  obtain ⟨p, sfx, ts0, he, hlo, hsc, hmap⟩ := ParseText.scan_suffix h hts
  exact ⟨p, sfx, ts0, he, hlo.symm, by rw [he, hlo]; exact dropBytes_append _ _, hsc, hmap⟩

/-- the start offset of the scanner only shifts the spans -/
theorem scan_offset_shift (k f pos : Nat) (cs : Text) :
    scanFuel f (pos + k) cs = ParseText.shiftRes k (scanFuel f pos cs) :=
  ParseText.scanFuel_shift k f pos cs

/-- T11.4 (a): whenever `parse_text` returns a datum, the text scanned, `parse` returned that datum
    and some remaining tokens `rest`; the remaining text is `none` iff `rest = []`, and otherwise it
    is exactly the suffix of the text that starts at the span start of the first token of `rest` -/
theorem parse_text_remaining (fo : FloatOps) (text : Text) (d : Datum) (r : Option Text)
    (h : parseText fo text = .ok (d, r)) :
    ∃ ts rest, scan text = .ok ts ∧ parseTokens fo text ts = .ok (d, rest) ∧
      (r = none ↔ rest = []) ∧
      ∀ t rest', rest = t :: rest' →
        ∃ p sfx, text = p ++ sfx ∧ byteLen p = t.lo ∧ dropBytes t.lo text = some sfx ∧
          r = some sfx := by
  cases hs : scan text with
  | error e => rw [ParseText.parseText_lexErr fo hs] at h; cases h
  | ok ts =>
    cases hp : parseTokens fo text ts with
    | err e => rw [ParseText.parseText_err fo hs hp] at h; cases h
    | panic m => rw [ParseText.parseText_panic fo hs hp] at h; cases h
    | ok v =>
      obtain ⟨d', rest⟩ := v
      cases rest with
      | nil =>
        rw [ParseText.parseText_last fo hs hp] at h
        cases h
        exact ⟨ts, [], rfl, hp, by simp, by intro t rest' h'; cases h'⟩
      | cons t rest =>
        obtain ⟨p, sfx, ts0, he, hlo, hdrop, hpt, _, _⟩ := ParseText.parseText_more fo hs hp
        rw [hpt] at h
        cases h
        refine ⟨ts, t :: rest, rfl, hp, by simp, ?_⟩
        intro t' rest' h'
        cases h'
        exact ⟨p, sfx, he, hlo.symm, hdrop, rfl⟩

/-- T11.4 (b): the remaining text `parse_text` returns re-scans to the remaining tokens, shifted
    by the number of bytes cut off, and these are strictly fewer than the tokens of the text -/
theorem parse_text_rescan (fo : FloatOps) (text : Text) (d : Datum) (sfx : Text)
    (h : parseText fo text = .ok (d, some sfx)) :
    ∃ (ts rest : List Token) (p : Text) (ts0 : List Token),
      scan text = .ok ts ∧ parseTokens fo text ts = .ok (d, rest) ∧ rest ≠ [] ∧
      text = p ++ sfx ∧ scan sfx = .ok ts0 ∧ rest = ts0.map (Token.shift (byteLen p)) ∧
      ts0.length = rest.length ∧ rest.length < ts.length := by
  cases hs : scan text with
  | error e => rw [ParseText.parseText_lexErr fo hs] at h; cases h
  | ok ts =>
    cases hp : parseTokens fo text ts with
    | err e => rw [ParseText.parseText_err fo hs hp] at h; cases h
    | panic m => rw [ParseText.parseText_panic fo hs hp] at h; cases h
    | ok v =>
      obtain ⟨d', rest⟩ := v
      cases rest with
      | nil => rw [ParseText.parseText_last fo hs hp] at h; cases h
      | cons t rest =>
        obtain ⟨p, sfx', ts0, he, _, _, hpt, hsc, hmap⟩ := ParseText.parseText_more fo hs hp
        rw [hpt] at h
        cases h
        refine ⟨ts, t :: rest, p, ts0, rfl, hp, by simp, he, hsc, hmap, ?_,
          ParseText.parseTokens_rest_lt fo hp⟩
        rw [hmap, List.length_map]

/-- the parser sees a suffix of the text with its own tokens exactly as it sees the whole text with
    the shifted tokens: same datum, same error, remaining tokens shifted -/
theorem parse_suffix_agrees (fo : FloatOps) (p sfx : Text) (ts0 : List Token) :
    parseTokens fo (p ++ sfx) (ts0.map (Token.shift (byteLen p))) =
      match parseTokens fo sfx ts0 with
      | .ok (d, rest) => .ok (d, rest.map (Token.shift (byteLen p)))
      | .err e => .err e
      | .panic m => .panic m := by
  rw [ParseText.parseTokens_suffix]
  cases parseTokens fo sfx ts0 with
  | ok v => obtain ⟨d, rest⟩ := v; rfl
  | err e => rfl
  | panic m => rfl

/-- T11.4 (c), one datum per round: the loop over the remaining *texts* (`readAllF`, the model of
    how `eval_text` is iterated) is, for every fuel, the loop over the remaining *tokens* of the one
    token list of the whole text -/
theorem read_loop_tokenwise (fo : FloatOps) (f : Nat) (text : Text) (ts : List Token)
    (h : scan text = .ok ts) : readAllF fo f text = ParseText.readToksF fo text f ts :=
  ParseText.readAll_eq_readToks fo f text ts h

/-- T11.4 (c), each datum once: whatever the loop returns, the tokens of the text are the
    concatenation of the token groups of the data read, in order, each group parsing on its own to
    its datum, followed by nothing or by the tokens on which `parse` reported the final error -/
theorem read_loop_each_datum_once (fo : FloatOps) (f : Nat) (text : Text) (ts : List Token)
    (h : scan text = .ok ts) (ds : List Datum) (fin : Option (PRes Unit))
    (hr : readAllF fo f text = some (ds, fin)) : ParseText.ReadsAs fo text ts ds fin := by
  rw [read_loop_tokenwise fo f text ts h] at hr
  exact ParseText.readToksF_readsAs fo text f ts ds fin hr

/-- T11.4 (c), termination: the loop ends after at most `max 1 |tokens|` rounds (every fuel that
    large gives the same answer, never `none`), having read at most `|tokens|` data -/
theorem read_loop_terminates (fo : FloatOps) (text : Text) (ts : List Token)
    (h : scan text = .ok ts) :
    ∃ ds fin, ds.length ≤ ts.length ∧
      ∀ f, 0 < f → ts.length ≤ f → readAllF fo f text = some (ds, fin) := by
  obtain ⟨ds, fin, hr, hlen⟩ :=
    ParseText.readToksF_total fo text (max 1 ts.length) ts (by omega) (by omega)
  refine ⟨ds, fin, hlen, fun f h0 hf => ?_⟩
  rw [read_loop_tokenwise fo f text ts h]
  exact ParseText.readToksF_mono fo text (by omega) hr

/-- when the text does not scan, the loop ends in its first round with the scanner's error -/
theorem read_loop_lex_error (fo : FloatOps) (f : Nat) (text : Text) (e : LexErr)
    (h : scan text = .error e) : readAllF fo (f + 1) text = some ([], some (.err (.lex e))) :=
  ParseText.readAllF_lexErr fo f h

/-! ### panic freedom of the parser model on scanner output

Every panic site of the parser model — `&text[lo..hi]` on a token span, `&span[2..]` in
`parse_char`, `&span[1..len-1]` and the `usize` subtraction in the string arm,
`chars().next().unwrap()` on a bracket, `panic!("unexpected number prefix")`, the radix assertion of
`from_str_radix`, the `i32` negation in `Ratio::new`, `&text[span.0..]` in `parse_text`, and the
model's own fuel — is unreachable when the tokens come from `scan` on the same text. -/

/-- T11.2, as the parser uses it: every token of the scanner's answer can be sliced out of the text
    (in bounds, both ends on character boundaries), the slice is non-empty and spelled as the
    token's type promises -/
theorem scan_tokens_sliceable {text : Text} {ts : List Token} (h : scan text = .ok ts) :
    ∀ t ∈ ts, ∃ body, tokSpan text t = .ok body ∧ body ≠ [] ∧ ParseText.BodyOK t.ty body :=
  fun t ht => ParseText.tokSpan_ok (ParseText.scan_bodies h t ht)

/-- **the parser model never panics on scanner output**: for every text that scans, `parse` run on
    the scanner's tokens — or on any token list drawn from them, e.g. what an earlier `parse` left —
    over that text has no panic outcome, with any fuel -/
theorem parse_never_panics_on_scan (fo : FloatOps) {text : Text} {ts : List Token}
    (h : scan text = .ok ts) (ts' : List Token) (hsub : ∀ x ∈ ts', x ∈ ts) (m : String) :
    parseTokens fo text ts' ≠ .panic m ∧ ∀ f, parseF fo text f ts' ≠ some (.panic m) :=
  have hall : ∀ x ∈ ts', ParseText.TokOK text x := fun x hx => ParseText.scan_bodies h x (hsub x hx)
  ⟨ParseText.parseTokens_noPanic fo hall m, fun f => (ParseText.parse_noPanic fo text f).1 ts' hall m⟩

/-- the instance for the scanner's own answer -/
theorem parse_scan_never_panics (fo : FloatOps) {text : Text} {ts : List Token}
    (h : scan text = .ok ts) (m : String) : parseTokens fo text ts ≠ .panic m :=
  (parse_never_panics_on_scan fo h ts (fun _ hx => hx) m).1

/-- `parse_text` has no panic outcome, for any text: it answers with a datum and the remaining
    text, or with an error -/
theorem parse_text_never_panics (fo : FloatOps) (text : Text) (m : String) :
    parseText fo text ≠ .panic m :=
  ParseText.parseText_noPanic fo text m

/-- the read loop never ends in a panic -/
theorem read_loop_never_panics (fo : FloatOps) (f : Nat) (text : Text) (ds : List Datum)
    (fin : Option (PRes Unit)) (h : readAllF fo f text = some (ds, fin)) (m : String) :
    fin ≠ some (.panic m) :=
  ParseText.readAllF_noPanic fo f text ds fin h m

/-! ### non-vacuity of T11.4 and of panic freedom (kernel-evaluated witnesses kept tiny: the
kernel re-evaluates the remaining text lazily, so rounds multiply the cost) -/

def sample2 : Text := "a #\\b \"c\"".toList

def sample2Tokens : List Token := [⟨0,1,.symbol⟩, ⟨2,5,.char⟩, ⟨6,9,.string⟩]

example : (scan sample2).toOption = some sample2Tokens := by decide

/-- the remaining text is the suffix at the second token (byte 2) … -/
example : parseText noFloats sample2 = .ok (.sym ['a'], some ("#\\b \"c\"".toList)) := by decide

/-- … and scanning it yields the remaining tokens, two bytes to the left -/
example : (scan ("#\\b \"c\"".toList)).toOption = some [⟨0,3,.char⟩, ⟨4,7,.string⟩] := by decide

example : sample2Tokens.tail =
    ([⟨0,3,.char⟩, ⟨4,7,.string⟩] : List Token).map (Token.shift 2) := by decide

/-- the loop reads the three data in three rounds (three tokens, fuel 3) and ends without an error;
    the character and the string exercise `&span[2..]` and `&span[1..len-1]` -/
example : readAllF noFloats 3 sample2 = some ([.sym ['a'], .char 'b', .str ['c']], none) := by
  decide

/-- a loop that ends with an error after one datum: two rounds for three + one tokens -/
example : readAllF noFloats 2 "(a) )".toList =
    some ([.pair (.sym ['a']) .nil], some (.err .unexpectedToken)) := by decide

/-- the number-prefix arm (`prefixStep`, radix 16) on scanner output -/
example : parseText noFloats "#x1".toList = .ok (.num (.fix 1), none) := by decide

/-- a text without tokens: one round, `Incomplete`, no datum -/
example : readAllF noFloats 1 " ".toList = some ([], some (.err .incomplete)) := by decide

/-- a token that is not the scanner's is sliced off a character boundary: the panic branch of the
    model is real, and `scan text = ok ts` is what excludes it -/
example : ∃ m, parseTokens noFloats ['é'] [⟨0,1,.symbol⟩] = .panic m := ⟨_, rfl⟩

end Marwood.Proofs.C11
