import Marwood.Proofs.Tables
import Marwood.Lemmas.Parse
import Marwood.Lemmas.LexSpans
/-!
# C11 — reader discipline: total, exact spans, one datum per parse, incompleteness found

Property theorems only. Models: `Marwood.Lex` (lex.rs), `Marwood.Parse` (parse.rs after the repair
of the number-prefix arm). `fo : FloatOps` is what is not modelled about doubles; every statement
holds for every `fo`.
-/
namespace Marwood.Proofs.C11
open Marwood

/-! ### T11.1 — the scanner and the parser terminate -/

/-- the scanner's fuel (`length + 1`) is never exhausted: `scan` always answers with tokens or
    with one of the scanner's own errors -/
theorem scan_total (cs : Text) : ∃ r, scanFrom 0 cs = some r ∧ scan cs = r := by
  have h := scanFuel_total (cs.length + 1) 0 cs (by omega)
  unfold scan scanFrom
  cases hs : scanFuel (cs.length + 1) 0 cs with
  | none => exact absurd hs h
  | some r => exact ⟨r, rfl, rfl⟩

/-- the parser's fuel (`2·|tokens| + 2`) is never exhausted, for any token list whatsoever -/
theorem parse_total (fo : FloatOps) (text : Text) (ts : List Token) :
    parseF fo text (parseFuel ts) ts = some (parseTokens fo text ts) :=
  parseTokens_fuel fo text ts

/-- more fuel never changes the parser's answer -/
theorem parse_fuel_irrelevant (fo : FloatOps) (text : Text) (ts : List Token) (f : Nat)
    (hf : parseFuel ts ≤ f) : parseF fo text f ts = some (parseTokens fo text ts) :=
  parseF_mono fo text hf (parseTokens_fuel fo text ts)

/-! ### T11.2 — span discipline of the scanner, in the property's words -/

theorem Lexed.lower : ∀ {pos : Nat} {cs : Text} {ts : List Token}, Lexed pos cs ts →
    ∀ t ∈ ts, pos ≤ t.lo ∧ t.lo < t.hi := by
  intro pos cs ts h
  induction h with
  | done _ => intro t ht; simp at ht
  | @tok pos g body rest t ts _ hne hlo hhi _ ih =>
    intro b hb
    have hpos := byteLen_pos_of_ne_nil hne
    rcases List.mem_cons.mp hb with rfl | hb
    · omega
    · have := ih b hb; omega

theorem Lexed.pairwise : ∀ {pos : Nat} {cs : Text} {ts : List Token}, Lexed pos cs ts →
    ts.Pairwise (fun a b => a.hi ≤ b.lo) := by
  intro pos cs ts h
  induction h with
  | done _ => exact List.Pairwise.nil
  | @tok pos g body rest t ts _ _ _ _ hrest ih =>
    refine List.Pairwise.cons ?_ ih
    intro b hb
    exact (Lexed.lower hrest b hb).1

theorem Lexed.spans : ∀ {pos : Nat} {cs : Text} {ts : List Token}, Lexed pos cs ts →
    ∀ b ∈ ts, ∃ pre body post, cs = pre ++ body ++ post ∧ b.lo = pos + byteLen pre ∧
      b.hi = b.lo + byteLen body ∧ body ≠ [] := by
  intro pos cs ts h
  induction h with
  | done _ => intro b hb; simp at hb
  | @tok pos g body rest t ts hg hne hlo hhi _ ih =>
    intro b hb
    rcases List.mem_cons.mp hb with rfl | hb
    · exact ⟨g, body, rest, rfl, hlo, hhi, hne⟩
    · obtain ⟨pre, bd, post, he, h1, h2, h3⟩ := ih b hb
      refine ⟨g ++ body ++ pre, bd, post, by simp [he], ?_, h2, h3⟩
      rw [h1, hhi, hlo]; simp; omega

/-- text before the first token is gap text -/
theorem Lexed.leading : ∀ {pos : Nat} {cs : Text} {t : Token} {ts : List Token},
    Lexed pos cs (t :: ts) → ∃ g post, cs = g ++ post ∧ Gap g ∧ t.lo = pos + byteLen g := by
  intro pos cs t ts h
  cases h with
  | tok hg _ hlo _ _ => exact ⟨_, _, List.append_assoc _ _ _, hg, hlo⟩

/-- text between two consecutive tokens is gap text -/
theorem Lexed.between : ∀ {pos : Nat} {cs : Text} {ts : List Token}, Lexed pos cs ts →
    ∀ (i : Nat) (a b : Token), ts[i]? = some a → ts[i+1]? = some b →
      ∃ pre g post, cs = pre ++ g ++ post ∧ a.hi = pos + byteLen pre ∧ b.lo = a.hi + byteLen g ∧
        Gap g := by
  intro pos cs ts h
  induction h with
  | done _ => intro i a b ha; simp at ha
  | @tok pos g body rest t ts hg hne hlo hhi hrest ih =>
    intro i a b ha hb
    cases i with
    | zero =>
      simp only [List.getElem?_cons_zero, Option.some.injEq] at ha
      subst ha
      simp only [Nat.zero_add, List.getElem?_cons_succ] at hb
      cases ts with
      | nil => simp at hb
      | cons b' ts' =>
        simp only [List.getElem?_cons_zero, Option.some.injEq] at hb
        subst hb
        obtain ⟨g', post, he, hg', hlo'⟩ := Lexed.leading hrest
        refine ⟨g ++ body, g', post, by simp [he], ?_, hlo', hg'⟩
        rw [hhi, hlo]; simp; omega
    | succ i =>
      simp only [List.getElem?_cons_succ] at ha hb
      obtain ⟨pre, g', post, he, h1, h2, h3⟩ := ih i a b ha hb
      refine ⟨g ++ body ++ pre, g', post, by simp [he], ?_, h2, h3⟩
      rw [h1, hhi, hlo]; simp; omega

/-- text after the last token (the whole text when there is no token) is gap text -/
theorem Lexed.trailing : ∀ {pos : Nat} {cs : Text} {ts : List Token}, Lexed pos cs ts →
    ∃ pre g, cs = pre ++ g ∧ Gap g ∧
      (match ts.getLast? with | some a => a.hi = pos + byteLen pre | none => pre = []) := by
  intro pos cs ts h
  induction h with
  | done hg => exact ⟨[], _, rfl, hg, rfl⟩
  | @tok pos g body rest t ts hg hne hlo hhi hrest ih =>
    obtain ⟨pre, g', he, hg', hl⟩ := ih
    refine ⟨g ++ body ++ pre, g', by simp [he], hg', ?_⟩
    cases ts with
    | nil =>
      simp only [List.getLast?_nil] at hl
      subst hl
      simp [List.getLast?, hhi, hlo]; omega
    | cons x xs =>
      rw [List.getLast?_cons_cons]
      cases hx : (x :: xs).getLast? with
      | none => simp at hx
      | some a =>
        rw [hx] at hl
        simp only at hl ⊢
        rw [hl, hhi, hlo]; simp; omega

/-- T11.2 as one record -/
structure SpanDiscipline (cs : Text) (ts : List Token) : Prop where
  /-- every token is non-empty -/
  nonempty : ∀ t ∈ ts, t.lo < t.hi
  /-- every token lies within the text, both ends on character boundaries (byte lengths of
      prefixes of the text), and the slice between them is the non-empty token text -/
  boundaries : ∀ t ∈ ts, ∃ pre body post, cs = pre ++ body ++ post ∧ t.lo = byteLen pre ∧
      t.hi = byteLen (pre ++ body) ∧ t.hi ≤ byteLen cs ∧ sliceBytes t.lo t.hi cs = some body ∧ body ≠ []
  /-- tokens are strictly ordered and disjoint -/
  ordered : ts.Pairwise (fun a b => a.hi ≤ b.lo)
  /-- what precedes the first token is whitespace and comments -/
  leading : ∀ t, ts.head? = some t → ∃ g, takeBytes t.lo cs = some g ∧ Gap g
  /-- what separates consecutive tokens is whitespace and comments -/
  between : ∀ i a b, ts[i]? = some a → ts[i+1]? = some b →
      ∃ g, sliceBytes a.hi b.lo cs = some g ∧ Gap g
  /-- what follows the last token is whitespace and comments (the whole text if no token) -/
  trailing : match ts.getLast? with
      | some a => ∃ g, dropBytes a.hi cs = some g ∧ Gap g
      | none => Gap cs

theorem scan_discipline {cs : Text} {ts : List Token} (h : scan cs = .ok ts) :
    SpanDiscipline cs ts := by
  have hl := scan_lexed h
  refine ⟨fun t ht => (Lexed.lower hl t ht).2, ?_, Lexed.pairwise hl, ?_, ?_, ?_⟩
  · intro t ht
    obtain ⟨pre, body, post, he, h1, h2, h3⟩ := Lexed.spans hl t ht
    refine ⟨pre, body, post, he, by simpa using h1, by rw [h2, h1]; simp, ?_, ?_, h3⟩
    · rw [he, h2, h1]; simp <;> omega
    · rw [he, h2, h1]; simp only [Nat.zero_add]; exact sliceBytes_append _ _ _
  · intro t ht
    cases ts with
    | nil => simp at ht
    | cons x xs =>
      simp only [List.head?_cons, Option.some.injEq] at ht
      subst ht
      obtain ⟨g, post, he, hg, hlo⟩ := Lexed.leading hl
      refine ⟨g, ?_, hg⟩
      rw [he, hlo, Nat.zero_add]; exact takeBytes_append _ _
  · intro i a b ha hb
    obtain ⟨pre, g, post, he, h1, h2, h3⟩ := Lexed.between hl i a b ha hb
    refine ⟨g, ?_, h3⟩
    rw [he, h2, h1, Nat.zero_add]; exact sliceBytes_append _ _ _
  · obtain ⟨pre, g, he, hg, hlast⟩ := Lexed.trailing hl
    cases hx : ts.getLast? with
    | none => rw [hx] at hlast; simp only at hlast ⊢; subst hlast; simpa [he] using hg
    | some a =>
      rw [hx] at hlast
      simp only at hlast ⊢
      refine ⟨g, ?_, hg⟩
      rw [he, hlast, Nat.zero_add]; exact dropBytes_append _ _

/-! ### T11.3 — `parse` consumes exactly the tokens of one datum, whatever follows -/

theorem parse_one_datum (fo : FloatOps) (text : Text) (ts : List Token) (d : Datum)
    (rest : List Token) (h : parseTokens fo text ts = .ok (d, rest)) :
    ∃ pre, pre ≠ [] ∧ ts = pre ++ rest ∧
      ∀ rest', parseTokens fo text (pre ++ rest') = .ok (d, rest') := by
  have hf := parseTokens_fuel fo text ts
  rw [h] at hf
  obtain ⟨pre, hne, hts, hall, _⟩ := (consumes_all fo text _).1 _ _ _ hf
  exact ⟨pre, hne, hts, fun rest' => parseTokens_of_fuel fo text (hall rest')⟩

/-! ### T11.5 — a cut inside a datum is `Incomplete`; a complete datum never is -/

/-- every proper prefix of the tokens of a datum that parses is reported `Incomplete` -/
theorem parse_cut_incomplete (fo : FloatOps) (text : Text) (ts : List Token) (d : Datum)
    (rest : List Token) (h : parseTokens fo text ts = .ok (d, rest))
    (p q : List Token) (hcut : ts = p ++ q ++ rest) (hq : q ≠ []) :
    parseTokens fo text p = .err .incomplete := by
  have hf := parseTokens_fuel fo text ts
  rw [h] at hf
  obtain ⟨pre, _, hts, _, hpre⟩ := (consumes_all fo text _).1 _ _ _ hf
  have : pre = p ++ q := List.append_cancel_right (hts.symm.trans hcut)
  exact parseTokens_of_fuel fo text (hpre p q this hq)

/-- the tokens of a datum that parses, on their own, parse to that datum with nothing left:
    a complete datum is never reported `Incomplete` (nor anything else) -/
theorem parse_complete_not_incomplete (fo : FloatOps) (text : Text) (ts : List Token) (d : Datum)
    (rest : List Token) (h : parseTokens fo text ts = .ok (d, rest)) :
    ∃ pre, ts = pre ++ rest ∧ parseTokens fo text pre = .ok (d, []) ∧
      parseTokens fo text pre ≠ .err .incomplete := by
  obtain ⟨pre, _, hts, hall⟩ := parse_one_datum fo text ts d rest h
  have := hall []
  rw [List.append_nil] at this
  exact ⟨pre, hts, this, by rw [this]; simp⟩

/-- `Incomplete` is reported only when the tokens ran out: if `parse` says `Incomplete` on `ts`,
    no extension of `ts` by further tokens is needed to see an error other than `Incomplete`
    earlier — stated contrapositively: a result other than `Incomplete` on a prefix is final. -/
theorem parse_result_stable (fo : FloatOps) (text : Text) (p : List Token) (d : Datum)
    (r : List Token) (h : parseTokens fo text p = .ok (d, r)) (more : List Token) :
    parseTokens fo text (p ++ more) = .ok (d, r ++ more) := by
  obtain ⟨pre, _, hts, hall⟩ := parse_one_datum fo text p d r h
  rw [hts, List.append_assoc]
  exact hall (r ++ more)

/-! ### non-vacuity -/

/-- float operations are irrelevant for these instances -/
def noFloats : FloatOps where
  parseF64 _ _ := none
  bigRatToF64 _ _ := ⟨0⟩
  toExact _ := none
  toInexact _ := ⟨0⟩
  fmtExp _ := []
  fmtFix1 _ := []
  fmtShort _ := []
  fmtRadix _ _ := []

def sample : Text := "(a . (1 #\\x41)) ; c\n'b".toList

def sampleTokens : List Token := [⟨0,1,.leftParen⟩, ⟨1,2,.symbol⟩, ⟨3,4,.dot⟩, ⟨5,6,.leftParen⟩,
    ⟨6,7,.number⟩, ⟨8,13,.char⟩, ⟨13,14,.rightParen⟩, ⟨14,15,.rightParen⟩, ⟨20,21,.singleQuote⟩,
    ⟨21,22,.symbol⟩]

example : (scan sample).toOption = some sampleTokens := by decide

example : parseTokens noFloats sample sampleTokens =
    .ok (.pair (.sym ['a']) (.pair (.num (.fix 1)) (.pair (.char 'A') .nil)),
         [⟨20,21,.singleQuote⟩, ⟨21,22,.symbol⟩]) := by decide

example : parseTokens noFloats sample [⟨0,1,.leftParen⟩, ⟨1,2,.symbol⟩, ⟨3,4,.dot⟩] =
    .err .incomplete := by decide

end Marwood.Proofs.C11
