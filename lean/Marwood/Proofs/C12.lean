import Marwood.Lemmas.PolicyGc
import Marwood.Lemmas.PolicyRefine
import Marwood.Lemmas.PolicyBound
import Marwood.Lemmas.PolicyAfter
import Marwood.Lemmas.PolicyCount
import Marwood.Lemmas.PolicyRun
import Marwood.Proofs.C07
import Marwood.Proofs.C03
import Marwood.Lemmas.MachineGarbage
import Marwood.Lemmas.PolicyAllocBound
import Marwood.Lemmas.PolicySessionOk
import Marwood.Lemmas.PrepareSession
/-!
# C12 — memory is bounded by live data: garbage of every kind is reclaimed

Models: `Marwood.Heap` (collector, `Heap.alloc`, `Heap.runGc`; shared with C03), `Marwood.Vm.Eval` (the
epilogues of an evaluation; shared with C07). Specifications: `Marwood.Spec.Reach` (reachability through
semantic references), `Marwood.Spec.HeapPolicy` (the growth policy on counters), `Marwood.Spec.Plain` (the
kind discipline).

* T12.1  `allocated_after_gc_iff_reachable` (any marker), `allocated_after_gc_iff_live`,
         `no_floating_garbage` (repaired marker, semantic references), `marker_follows_semantic_references`
         + the per-kind table `semantic_references_by_kind`; for the pinned marker the negation
         `unfixed_marker_retains_garbage`.
* T12.2  `wiped_stack_no_roots`, `success_epilogue_stack_no_roots`, `error_epilogue_stack_no_roots`,
         `failed_eval_stack_no_roots`, `successful_eval_stack_no_roots` (hypothesis `GcRegs`: the collector
         leaves stack and registers alone).
* T12.3  `capacity_bounded`, `capacity_bounded_prefix`, `capacity_bounded_closed_form`; refinement
         `alloc_refines_policy(_wf)`, `runGc_refines_policy`, `heap_run_capacity_bounded` (the bound for runs of
         the heap model itself), `used_after_gc_eq_live_count` (the policy's `live` is the number of live
         cells); why collection points are needed: `without_collection_points_unbounded`.
* T12.1 on the post-collection heap alone: `allocated_after_gc_iff_live_after`.
* finding (not a theorem about the collector, a fact about the root set):
         `undefined_global_binding_retains_symbol`.
* T12.1 **about executions of the concrete machine** (`machine ext force` of Vm/ConcreteHeap.lean):
         `no_floating_garbage_of_goodI`, `no_floating_garbage_machine`, `forced_gc_no_floating_garbage_machine`
         — `plainHeap`, `plainRoots` and the size facts are consequences of the invariant `GoodI` propagated from the
         initial state; the decoding discipline of code objects (`CodePlain`) is an invariant as well
         (`codePlain_reaches`: no core instruction and no collection creates or changes a code object), assumed of the
         initial state and of the unmodelled operations (`ExtCodePlain`).
* T12.3's parameter `A` **for the concrete machine** (`Lemmas/PolicyAllocBound.lean`): `instr_alloc_bound`,
         `instr_alloc_bound_core` (one instruction other than a generic builtin / `eval` / VPUSH / VARARG allocates at
         most `opAlloc op ≤ 3` cells; `opAlloc_table`), `vararg_alloc_bound`, `slice_alloc_bound` (at most 8192
         instructions allocate at most `8192 · 3 + E`, `E` = what the builtins called allocate) and
         `machine_slice_capacity_bounded` (T12.3 with that `A`); law assumed of the unmodelled operations:
         `ExtAllocOnly`.
* **C12's first sentence for the concrete machine, session level** (`Lemmas/PolicySession*.lean`): `cgc_is_gcPoint`
         (a collection of the machine is the policy's `gcPoint` with `live` = the number of cells reachable from the
         machine roots), `runLoop_is_paced`, `runEval_is_paced`, `runHistory_is_session` (every execution of the run loop,
         of an evaluation with its epilogues, of a whole history of evaluations consists of blocks of at most 8192
         instructions each closed by a collection), `session_is_heap_run` (a session is ONE `HRun`),
         `session_capacity_bounded_machine` (capacity ≤ max(initial, g(L + 8192·3 + E)) at every moment of every session),
         `eval_collection_points_ok`, `history_capacity_bounded_machine` (side conditions at the collection points
         discharged from the invariant of the state each evaluation starts in).
-/
namespace Marwood.Proofs.C12
open Marwood Marwood.Heap Marwood.Spec
open Marwood.Lemmas.GcSafety Marwood.Lemmas.HeapOps Marwood.Lemmas.PolicyGc Marwood.Lemmas.PolicyPlain
open Marwood.Lemmas.PolicyRefine Marwood.Lemmas.PolicyBound Marwood.Lemmas.PolicyAfter Marwood.Lemmas.PolicyWF
open Marwood.Lemmas.HeapWF Marwood.Lemmas.PolicyCount Marwood.Lemmas.PolicyRun

/-! ## T12.1 — no floating garbage -/

/-- **T12.1 (model level, any marker).** Immediately after `run_gc` — forced or triggered by the
utilisation test, with or without the growth step — a cell is allocated **iff** it is reachable from the
roots in the graph the marker follows, and no mark (`Used`) is left. `⊇` is C03's safety
(`runGc_preserves_reachable`); `⊆` is: the sweep frees every unmarked cell and `mark` marks only
reachable ones. -/
theorem allocated_after_gc_iff_reachable (fixed force : Bool) (h : Heap) (r : Roots) (h' : Heap)
    (hsz : h.gc.size = h.cells.size) (hnu : ∀ i : Nat, h.gc[i]? ≠ some GcState.used) (hs : Shape h)
    (hrun : Heap.runGc fixed force h r = .ok (.collected h')) (x : Nat) :
    (h'.NonFree x ↔ Reachable fixed h (r.refs fixed) x) ∧ h'.gc[x]? ≠ some GcState.used := by
  have gs := runGc_spec fixed force h r h' hsz hnu hs hrun
  exact ⟨gcSpec_nonFree_iff fixed h _ h' gs x, (gcSpec_state fixed h _ h' gs x).2⟩

/-- **kind by kind**: out of a heap cell obeying the kind discipline, the repaired marker follows
exactly the semantic references, in order. -/
theorem marker_follows_semantic_references (c : VCell) (hp : plainC c = true) :
    crefs true c = srefs c := crefs_eq c hp

/-- what each kind of object refers to (the right-hand sides are the specification `srefs`): a pair to
its car and cdr; a vector to what its elements refer to; a string, a number (fixnum, bignum, rational,
double — payload inside the cell) and a symbol to nothing; a closure to its code and its environment; an
environment to what its slots refer to, captured variables (`LexicalEnvPtr`) included; a continuation to
what its saved stack refers to (return addresses included), its code and its environment; a code object
to the operands of its instructions except jump offsets. -/
theorem semantic_references_by_kind (a d l e p s o n : Nat) (name : Text) (es stk : List VCell) :
    srefs (.pair a d) = [a, d] ∧
    srefs (.vector (.ptr a :: es)) = a :: srefsList es ∧
    srefs (.atom .string) = [] ∧ srefs (.atom .number) = [] ∧ srefs (.symbol name) = [] ∧
    srefs (.closure l e) = [l, e] ∧
    srefs (.lexEnv [.ptr a, .lexEnvPtr p s, .atom .number]) = [a, p] ∧
    srefs (.cont (.ip l o :: .envPtr e :: stk) l e) = l :: e :: (srefsList stk ++ [l, e]) ∧
    srefs (.lambda [.opcode .jnt, .ptr n, .opcode .movImmediate, .ptr a, .atom .acc, .opcode .ret] [] []) = [a] := by
  simp [srefs, srefsList, bcSem, Op.arity, Op.isJump]

/-- **T12.1 (semantic references).** For the repaired marker, on a heap and roots that obey the kind
discipline (`plainHeap`, `plainRoots`: checked on every real snapshot by the `policy-collect` stream):
after `run_gc` the allocated set **equals** the set `Spec.Live` of cells reachable from the running code,
the stack, the accumulator, the current environment and the global bindings through semantic references. -/
theorem allocated_after_gc_iff_live (force : Bool) (h : Heap) (r : Roots) (h' : Heap)
    (hsz : h.gc.size = h.cells.size) (hnu : ∀ i : Nat, h.gc[i]? ≠ some GcState.used) (hs : Shape h)
    (hph : plainHeap h = true) (hpr : plainRoots r = true)
    (hrun : Heap.runGc true force h r = .ok (.collected h')) (x : Nat) :
    h'.NonFree x ↔ Live h r x := by
  rw [(allocated_after_gc_iff_reachable true force h r h' hsz hnu hs hrun x).1]
  exact reachable_iff_live h r hsz hph hpr x

/-- the property's second sentence, literally: immediately after a collection no object unreachable from
the roots remains allocated -/
theorem no_floating_garbage (force : Bool) (h : Heap) (r : Roots) (h' : Heap)
    (hsz : h.gc.size = h.cells.size) (hnu : ∀ i : Nat, h.gc[i]? ≠ some GcState.used) (hs : Shape h)
    (hph : plainHeap h = true) (hpr : plainRoots r = true)
    (hrun : Heap.runGc true force h r = .ok (.collected h')) :
    ∀ x, ¬ Live h r x → ¬ h'.NonFree x :=
  fun x hn ha => hn ((allocated_after_gc_iff_live force h r h' hsz hnu hs hph hpr hrun x).mp ha)

/-! ### non-vacuity: C03's demo heap (built through the API: symbols, a pair, code with a jump, an
environment, a closure, one garbage string) satisfies every hypothesis, and the collection frees the string -/

example : plainHeap C03.demoHeap = true ∧ plainRoots C03.demoRoots = true := by decide

example : ∃ h', Heap.runGc true true C03.demoHeap C03.demoRoots = .ok (.collected h') ∧
    h'.NonFree 5 ∧ ¬ h'.NonFree 6 := by
  refine ⟨_, rfl, Or.inl (by decide), ?_⟩
  rintro (h | h) <;> revert h <;> decide

/-! ### the pinned marker: negation of T12.1 at a witness -/

/-- code whose only instruction is `JMP 1`, and one number at address 1 that nothing refers to -/
def retainWitness : Heap :=
  { chunk := 4
    cells := #[.lambda [.opcode .jmp, .ptr 1] [] [], .atom .number, .atom .undefined, .atom .undefined]
    gc := #[.allocated, .allocated, .free, .free]
    free := [2, 3]
    symtab := [] }

def retainRoots : Roots :=
  { globalSyms := [], globalSlots := [], stack := [.atom .undefined], acc := .atom .undefined, ipLam := 0,
    ep := 2 ^ 64 - 1 }

theorem retainWitness_dead : ¬ Live retainWitness retainRoots 1 := by
  have key : ∀ x, Live retainWitness retainRoots x → x = 0 := by
    intro x hx
    induction hx with
    | root hm hlt =>
      have : retainWitness.cells.size = 4 := rfl
      simp [sroots, retainRoots, srefsList, srefs] at hm
      omega
    | step _ hy _ ih =>
      subst ih
      simp [schildren, retainWitness, srefs, bcSem, srefsList, Op.arity, Op.isJump] at hy
  intro h
  have := key 1 h
  omega

/-- **negation of T12.1 for the pinned marker**: the jump offset `1` is marked as heap address 1, so the
dead number survives the collection; the repaired marker frees it. -/
theorem unfixed_marker_retains_garbage :
    (C03.collected (Heap.runGc false true retainWitness retainRoots)).NonFree 1 ∧
    ¬ Live retainWitness retainRoots 1 ∧
    ¬ (C03.collected (Heap.runGc true true retainWitness retainRoots)).NonFree 1 := by
  refine ⟨Or.inl (by decide), retainWitness_dead, ?_⟩
  rintro (h | h) <;> revert h <;> decide

/-! ## T12.2 — the stack is not a leak -/

/-- a wiped stack hands nothing to the marker, whatever prefix `stack[0..=sp]` is enumerated -/
theorem wiped_stack_no_roots (fixed : Bool) (n k : Nat) :
    vrefsList fixed ((List.replicate n VCell.undefined).take k) = [] := by
  rw [List.take_replicate]
  generalize min k n = m
  induction m with
  | zero => simp [vrefsList]
  | succ m ih => simp [List.replicate_succ, vrefsList, vrefs, ih]

/-- **T12.2 (success).** When the collection at the end of a successful evaluation runs (`onDone`: the
state `run_gc` sees after `stack.clear()`), the stack contributes no root: dead frames never retain
garbage. `ρ` is any rendering of machine cells as collector cells that renders `Undefined` as itself. -/
theorem success_epilogue_stack_no_roots {H : Type} (fixed : Bool) (ρ : Vm.VCell → VCell)
    (hρ : ρ .undefined = VCell.undefined) (s : Vm.St H) (k : Nat) :
    vrefsList fixed (((Vm.onDone s).stack.cells.map ρ).take k) = [] := by
  have : (Vm.onDone s).stack.cells.map ρ = List.replicate s.stack.cells.length VCell.undefined := by
    simp [Vm.onDone, Vm.Stack.clear, hρ]
  rw [this]; exact wiped_stack_no_roots fixed _ k

/-- **T12.2 (failure).** The same after the error epilogue (after the error-path `fix:`), and the
registers `acc`/`ep` hold nothing either. -/
theorem error_epilogue_stack_no_roots {H : Type} (fixed : Bool) (ρ : Vm.VCell → VCell)
    (hρ : ρ .undefined = VCell.undefined) (s : Vm.St H) (k : Nat) :
    vrefsList fixed (((Vm.onError s).stack.cells.map ρ).take k) = [] ∧
    vrefs fixed (ρ (Vm.onError s).acc) = [] ∧ (Vm.onError s).ep = Vm.usizeMax := by
  have : (Vm.onError s).stack.cells.map ρ = List.replicate s.stack.cells.length VCell.undefined := by
    simp [Vm.onError, hρ]
  rw [this]
  refine ⟨wiped_stack_no_roots fixed _ k, ?_, rfl⟩
  simp [Vm.onError, hρ, vrefs]

/-- T12.2 for every program: whatever fails, at whatever depth, the state a failed `run_count` returns
(C07's `failed_eval_resets`) has a stack that contributes no root. -/
theorem failed_eval_stack_no_roots {H : Type} (fixed : Bool) (ρ : Vm.VCell → VCell)
    (hρ : ρ .undefined = VCell.undefined) (ops : Vm.HeapOps H) (gc : Vm.St H → Vm.St H)
    (count : Option Nat) (fuel : Nat) (s : Vm.St H) (f : Vm.Fault) (s' : Vm.St H)
    (hf : Vm.runEval ops gc count fuel s = .failed f s') (hg : Vm.GcRegs gc) (k : Nat) :
    vrefsList fixed ((s'.stack.cells.map ρ).take k) = [] := by
  have hq := (C07.failed_eval_resets ops gc count fuel s f s' hf hg).1
  have hall : ∀ c ∈ s'.stack.cells, c = Vm.VCell.undefined := hq.2.2.2.2
  have : s'.stack.cells.map ρ = List.replicate s'.stack.cells.length VCell.undefined := by
    apply List.ext_getElem
    · simp
    · intro i h1 h2
      simp only [List.getElem_map, List.getElem_replicate]
      rw [hall _ (List.getElem_mem _), hρ]
  rw [this]; exact wiped_stack_no_roots fixed _ k

/-- T12.2 for every program, success: the state a successful `run_count` returns — after the wipe and the
final collection, which leaves stack and registers alone (`GcRegs`) — has a stack that contributes no
root to any later collection. -/
theorem successful_eval_stack_no_roots {H : Type} (fixed : Bool) (ρ : Vm.VCell → VCell)
    (hρ : ρ .undefined = VCell.undefined) (ops : Vm.HeapOps H) (gc : Vm.St H → Vm.St H)
    (count : Option Nat) (fuel : Nat) (s s' : Vm.St H)
    (hv : Vm.runEval ops gc count fuel s = .value s') (hg : Vm.GcRegs gc) (k : Nat) :
    vrefsList fixed ((s'.stack.cells.map ρ).take k) = [] := by
  unfold Vm.runEval at hv
  split at hv <;> try (cases hv)
  rename_i sd _
  rw [(hg _).1]
  exact success_epilogue_stack_no_roots fixed ρ hρ sd k

/-- `GcRegs` is satisfiable (the toy collector of C07's examples), and C07's toy failure instantiates
`failed_eval_stack_no_roots` -/
example : Vm.GcRegs (id : Vm.St Unit → Vm.St Unit) := fun _ => ⟨rfl, rfl, rfl, rfl, rfl, rfl⟩

example : ∃ f s', Vm.runEval C07.toyOps id none 10 C07.toyState = .failed f s' ∧
    vrefsList true ((s'.stack.cells.map fun c => if c = .undefined then VCell.undefined else VCell.ptr 3).take 3) = [] := by
  refine ⟨_, _, rfl, ?_⟩
  exact failed_eval_stack_no_roots true _ (by simp) C07.toyOps id none 10 C07.toyState _ _ rfl
    (fun _ => ⟨rfl, rfl, rfl, rfl, rfl, rfl⟩) 3

/-- non-vacuity: a state with live frames on the stack; after either epilogue nothing is left -/
example : vrefsList true ((C07.toyState.stack.cells.map fun _ => VCell.ptr 3).take 2) ≠ [] ∧
    vrefsList true (((Vm.onDone C07.toyState).stack.cells.map
      fun c => if c = .undefined then VCell.undefined else VCell.ptr 3).take 2) = [] := by
  constructor
  · decide
  · exact success_epilogue_stack_no_roots true _ (by simp) _ _

/-! ## T12.3 — the growth policy -/

open Marwood.Spec.HeapPolicy in
/-- **T12.3.** Start right after a collection point (`used0 ≤ L`, or less than ¾ in use) with a heap of
`k` chunks. For **every** sequence of allocations and collection points — of any length — in which at
most `A` cells are allocated between consecutive collection points and at most `L` cells are live at
each, the capacity never exceeds `bound = max(initial, grownSize chunk (max (L+A) (4A) (4L/3)))`. -/
theorem capacity_bounded (chunk k used0 A L : Nat) (ops : List HeapPolicy.Op)
    (hu : used0 ≤ L ∨ 4 * used0 < 3 * (k * chunk)) (hp : Paced A L 0 ops) :
    (run ⟨chunk, k * chunk, used0⟩ ops).capacity ≤ bound chunk (k * chunk) A L := by
  obtain ⟨a', hi⟩ := inv_run chunk (k * chunk) A L ops _ 0 (inv_init chunk k used0 A L hu) hp
  exact hi.cap

open Marwood.Spec.HeapPolicy in
theorem paced_take (A L : Nat) : ∀ (ops : List HeapPolicy.Op) (a n : Nat),
    Paced A L a ops → Paced A L a (ops.take n) := by
  intro ops
  induction ops with
  | nil => intro a n h; simp [Paced]
  | cons op ops ih =>
    intro a n h
    cases n with
    | zero => simp [Paced]
    | succ n =>
      cases op with
      | alloc => exact ⟨h.1, ih _ _ h.2⟩
      | gcPoint f l => exact ⟨h.1, ih _ _ h.2⟩

open Marwood.Spec.HeapPolicy in
/-- … at every moment of the run, not only at its end -/
theorem capacity_bounded_prefix (chunk k used0 A L : Nat) (ops : List HeapPolicy.Op)
    (hu : used0 ≤ L ∨ 4 * used0 < 3 * (k * chunk)) (hp : Paced A L 0 ops) (n : Nat) :
    (run ⟨chunk, k * chunk, used0⟩ (ops.take n)).capacity ≤ bound chunk (k * chunk) A L :=
  capacity_bounded chunk k used0 A L _ hu (paced_take A L ops 0 n hp)

open Marwood.Spec.HeapPolicy in
/-- the bound as a function of `L + A` only: `g(x) = 6·x + chunk` -/
theorem capacity_bounded_closed_form (chunk k used0 A L : Nat) (ops : List HeapPolicy.Op)
    (hu : used0 ≤ L ∨ 4 * used0 < 3 * (k * chunk)) (hp : Paced A L 0 ops) :
    (run ⟨chunk, k * chunk, used0⟩ ops).capacity ≤ max (k * chunk) (6 * (L + A) + chunk) :=
  Nat.le_trans (capacity_bounded chunk k used0 A L ops hu hp) (bound_le chunk (k * chunk) A L)

/-- **refinement**: `Heap::alloc` acts on `(capacity, used)` as the specification's `alloc` -/
theorem alloc_refines_policy (h h' : Heap) (p : Nat) (hsz : h.gc.size = h.cells.size) (hs : Shape h)
    (hle : h.free.length ≤ h.cells.size) (ha : h.alloc = .ok (h', p)) :
    proj h' = HeapPolicy.alloc (proj h) := alloc_refines h h' p hsz hs hle ha

/-- **refinement**: every outcome of `Vm::run_gc` acts on `(capacity, used)` as `gcPoint`: it is skipped
exactly when the specification does not collect, and a collection that leaves `live` cells in use ends in
`gcPoint force live`; fuel is never exhausted -/
theorem runGc_refines_policy (fixed force : Bool) (h : Heap) (r : Roots) (res : Heap.GcResult)
    (hsz : h.gc.size = h.cells.size) (hnu : ∀ i : Nat, h.gc[i]? ≠ some GcState.used) (hs : Shape h)
    (hrun : Heap.runGc fixed force h r = .ok res) :
    match res with
    | .skipped h' => h' = h ∧ HeapPolicy.collects force (proj h) = false
    | .collected h' => HeapPolicy.collects force (proj h) = true ∧
        proj h' = HeapPolicy.gcPoint force (proj h').used (proj h)
    | .fuelExhausted => False := runGc_refines fixed force h r res hsz hnu hs hrun

/-! ### non-vacuity and sharpness of T12.3 -/

open Marwood.Spec.HeapPolicy in
/-- a paced run that really grows: one chunk of 4, five allocations -/
example : Paced 5 0 0 (List.replicate 5 HeapPolicy.Op.alloc) ∧
    (run ⟨4, 1 * 4, 0⟩ (List.replicate 5 .alloc)).capacity = 8 ∧ bound 4 (1 * 4) 5 0 = 32 := by decide

open Marwood.Spec.HeapPolicy in
/-- the `4·A` term is real: a skipped collection point at 11/16 (< ¾), then six allocations, no live data
at all — the capacity reaches 24 > L + A = 6 -/
example : Paced 6 0 0 (.gcPoint false 0 :: List.replicate 6 HeapPolicy.Op.alloc) ∧
    (run ⟨4, 4 * 4, 11⟩ (.gcPoint false 0 :: List.replicate 6 .alloc)).capacity = 24 ∧
    bound 4 (4 * 4) 6 0 = 36 := by decide

open Marwood.Spec.HeapPolicy in
/-- a collection that leaves more than ¾ live grows the heap (the `4L/3` term) -/
example : (run ⟨4, 2 * 4, 8⟩ [.gcPoint false 7]).capacity = 12 ∧ Paced 0 7 0 [HeapPolicy.Op.gcPoint false 7] := by
  decide

open Marwood.Spec.HeapPolicy in
theorem allocN_used : ∀ (n : Nat) (s : PState), (allocN n s).used = s.used + n := by
  intro n
  induction n with
  | zero => intro s; rfl
  | succ n ih =>
    intro s
    have : (HeapPolicy.alloc s).used = s.used + 1 := by unfold HeapPolicy.alloc; split <;> rfl
    simp only [allocN, ih, this]; omega

open Marwood.Spec.HeapPolicy in
theorem allocN_used_le : ∀ (n : Nat) (s : PState) (k : Nat), 0 < s.chunk → 0 < k →
    s.capacity = k * s.chunk → s.used ≤ s.capacity → (allocN n s).used ≤ (allocN n s).capacity := by
  intro n
  induction n with
  | zero => intro s k _ _ _ h; exact h
  | succ n ih =>
    intro s k hc hk0 hk hu
    simp only [allocN]
    unfold HeapPolicy.alloc
    split
    · exact ih _ k hc hk0 hk (by simp only; omega)
    · rename_i hlt
      have hgt := grownSize_gt s.chunk k hc hk0
      rw [← hk] at hgt
      refine ih _ ((3 * (s.capacity / s.chunk) + 1) / 2) hc ?_ (by simp [Heap.grownSize]) (by simp only; omega)
      have : s.capacity / s.chunk = k := by rw [hk]; exact Nat.mul_div_cancel _ hc
      omega

open Marwood.Spec.HeapPolicy in
/-- **why every evaluation must end in a collection point** (the defect repaired by the `fix:` commit
"a failed evaluation … is a collection point"): allocations with no collection point in between push the
capacity beyond any bound — before the fix a sequence of failing evaluations was such a run. -/
theorem without_collection_points_unbounded (s : PState) (k : Nat) (hc : 0 < s.chunk) (hk0 : 0 < k)
    (hk : s.capacity = k * s.chunk) (hu : s.used ≤ s.capacity) (B : Nat) :
    ∃ n, B < (allocN n s).capacity := by
  refine ⟨B + 1, ?_⟩
  have h1 := allocN_used (B + 1) s
  have h2 := allocN_used_le (B + 1) s k hc hk0 hk hu
  omega

/-! ## the finding: a global binding retains its symbol although the variable was never defined -/

/-- one symbol cell; the global environment has a binding for it whose slot is `Undefined` (what
`GlobalEnvironment::get_binding` creates when compiled code merely *mentions* a global variable) -/
def mentionHeap : Heap :=
  { chunk := 4
    cells := #[.symbol ['t', 'y', 'p', 'o'], .atom .undefined, .atom .undefined, .atom .undefined]
    gc := #[.allocated, .free, .free, .free]
    free := [1, 2, 3]
    symtab := [(['t', 'y', 'p', 'o'], 0)] }

def mentionRoots : Roots :=
  { globalSyms := [0], globalSlots := [.atom .undefined], stack := [.atom .undefined], acc := .atom .undefined,
    ipLam := 2 ^ 64 - 1, ep := 2 ^ 64 - 1 }

/-- **finding C12-undefined-global-binding.** No slot, stack cell or register holds a value, and still the
collection keeps the symbol cell: binding *keys* are roots (`run_gc`: `globenv.iter_bindings()`), and a
binding is created for every global name compiled code mentions and never removed. One cell, one slot and
one table entry per distinct name, for ever — memory grows with the work done (names mentioned), not with
the live data. T12.1 is not contradicted (the cell *is* reachable from the roots); the root set is the leak. -/
theorem undefined_global_binding_retains_symbol :
    (C03.collected (Heap.runGc true true mentionHeap mentionRoots)).NonFree 0 ∧
    srefsList mentionRoots.globalSlots = [] ∧ srefsList mentionRoots.stack = [] ∧
    srefs mentionRoots.acc = [] := by
  refine ⟨Or.inl (by decide), by decide, by decide, by decide⟩

/-! ## statements on the post-collection heap, the meaning of `live`, and T12.3 for the heap model -/

/-- **T12.1 read on the post-collection heap alone.** On a well-formed plain heap with good roots: after
`run_gc` a cell of the *resulting* heap is allocated iff it is reachable, in the *resulting* heap, from the
roots through semantic references — the resulting heap contains no floating garbage. -/
theorem allocated_after_gc_iff_live_after (force : Bool) (h : Heap) (r : Roots) (h' : Heap)
    (wf : WFHeap true h) (hr : RootsOk h (r.refs true)) (hb : h'.cells.size ≤ 2 ^ 63)
    (hph : plainHeap h = true) (hpr : plainRoots r = true)
    (hrun : Heap.runGc true force h r = .ok (.collected h')) (x : Nat) :
    h'.NonFree x ↔ Live h' r x := by
  have gs := runGc_spec true force h r h' wf.sizes wf.no_used wf.shape hrun
  have wf' := runGc_wf true force h r h' wf hr hb hrun
  rw [gcSpec_nonFree_iff true h _ h' gs x, ← reachable_after_iff true h _ h' wf hr hb gs x]
  exact reachable_iff_live h' r wf'.sizes (plain_after h _ h' wf' gs hph) hpr x

/-- the refinement hypotheses follow from heap well-formedness -/
theorem alloc_refines_policy_wf (fixed : Bool) (h h' : Heap) (p : Nat) (wf : WFHeap fixed h)
    (ha : h.alloc = .ok (h', p)) : proj h' = HeapPolicy.alloc (proj h) :=
  alloc_refines h h' p wf.sizes wf.shape (wf_free_length_le fixed h wf.toWFCore) ha



open Classical in
/-- **the `live` argument of the policy is the number of live cells**: after `run_gc` the `used` counter
(`capacity − |free list|`, what the utilisation test and the growth decision read) equals the number of
cells reachable from the roots through semantic references. So `L` in T12.3 bounds live *data*. -/
theorem used_after_gc_eq_live_count (force : Bool) (h : Heap) (r : Roots) (h' : Heap)
    (wf : WFHeap true h) (hr : RootsOk h (r.refs true)) (hb : h'.cells.size ≤ 2 ^ 63)
    (hph : plainHeap h = true) (hpr : plainRoots r = true)
    (hrun : Heap.runGc true force h r = .ok (.collected h')) :
    (proj h').used = ((List.range h'.cells.size).filter fun x => decide (Live h' r x)).length := by
  have wf' := runGc_wf true force h r h' wf hr hb hrun
  show h'.cells.size - h'.free.length = _
  rw [used_eq_count_nonFree true h' wf'.toWFCore]
  congr 1
  apply List.filter_congr
  intro x _
  simp only [decide_eq_decide]
  exact allocated_after_gc_iff_live_after force h r h' wf hr hb hph hpr hrun x

/-- **T12.3 for the heap model** (re-export): any run of `Heap.alloc` / `Heap.runGc` / counter-preserving
steps paced by `A` and `L` keeps the number of cells below the bound -/
theorem heap_run_capacity_bounded (fixed : Bool) (h h' : Heap) (ops : List HeapPolicy.Op) (A L : Nat)
    (pre : Pre h) (hrn : HRun fixed h ops h')
    (hu : (proj h).used ≤ L ∨ 4 * (proj h).used < 3 * h.cells.size) (hp : HeapPolicy.Paced A L 0 ops) :
    h'.cells.size ≤ HeapPolicy.bound h.chunk h.cells.size A L :=
  hrun_capacity_bounded fixed h h' ops A L pre hrn hu hp



def h4 : Heap := C03.okOr (Heap.new 4)
def h4a : Heap := (C03.okOr h4.alloc).1

theorem pre_h4 : Pre h4 := by
  refine ⟨by decide, ?_, ⟨by decide, by decide, 1, by decide, by decide⟩, by decide⟩
  intro i
  by_cases hi : i < 4
  · have : i = 0 ∨ i = 1 ∨ i = 2 ∨ i = 3 := by omega
    rcases this with h | h | h | h <;> subst h <;> decide
  · have hs : h4.gc.size = 4 := by decide
    rw [Array.getElem?_eq_none (by omega)]
    simp

/-- non-vacuity of `HRun`/`heap_run_capacity_bounded`: a fresh 4-cell heap, one allocation -/
example : HRun true h4 [.alloc] h4a ∧ (proj h4a).used = 1 ∧ HeapPolicy.Paced 1 0 0 [HeapPolicy.Op.alloc] :=
  ⟨.alloc pre_h4 (p := 0) rfl (.done _), by decide, by decide⟩

/-! ## T12.1 as a theorem about executions of the concrete machine

The hypotheses `plainHeap` / `plainRoots` / sizes / no-marks / shape of `allocated_after_gc_iff_live` were
"checked per snapshot". For a state of the concrete machine they follow from the invariant `GoodI`
(Lemmas/MachineGarbage.lean), and `GoodI` holds in every reachable state (`goodI_reaches`). The one clause
`GoodI` does not carry is `CodePlain`: in a code object an operand cell is never an opcode. It is an invariant of
its own (`codePlain_reaches`: `run_one` and `run_gc` never create or change a code object — proved through the
generic `step_rel`), so it is assumed of the initial state and, as the law `ExtCodePlain`, of the unmodelled
operations (generic builtins, `eval`'s compiler, VPUSH). -/

section machine
open Marwood.Vm.Concrete Marwood.Lemmas.Sim Marwood.Lemmas.Good Marwood.Lemmas.MachineGarbage
open Marwood.Vm (St)

/-- **T12.1 on a machine state satisfying the invariant.** If `run_gc` collects in state `s`, then in the
state it returns a cell is allocated iff it was reachable from the machine's roots (`rootsOf s`: global
bindings, stack up to `sp`, `acc`, running code, current environment) through semantic references — and iff it
is so reachable in the *returned* heap: no floating garbage is left. -/
theorem no_floating_garbage_of_goodI (force : Bool) {s : St CHeap} (g : GoodI s) (cp : CodePlain s.heap)
    (sm : Small (cgc force s).heap) {h' : Heap}
    (hrun : Heap.runGc true force (toHeap s.heap) (rootsOf s) = .ok (.collected h')) (x : Nat) :
    ((toHeap (cgc force s).heap).NonFree x ↔ Live (toHeap s.heap) (rootsOf s) x) ∧
    ((toHeap (cgc force s).heap).NonFree x ↔ Live (toHeap (cgc force s).heap) (rootsOf (cgc force s)) x) := by
  have wf := g.hg.wf
  have hph := plainHeap_toHeap g.hg.plain cp
  have hpr := plainRoots_rootsOf (s := s) g.hg.plain
  have e : cgc force s = { s with heap := liftGc s.heap h' } := by simp only [cgc, hrun]
  have hb' : h'.cells.size ≤ 2 ^ 63 := by
    rw [e] at sm
    have : 2 * h'.cells.size ≤ 2 ^ 63 := by simpa [Small, liftGc] using sm
    omega
  have wf' := runGc_wf true force _ _ h' wf g.roots hb' hrun
  have gs := runGc_spec true force _ _ h' wf.sizes wf.no_used wf.shape hrun
  have L := lifted wf wf' gs
  have eh : toHeap (cgc force s).heap = h' := by rw [e]; exact L.erase
  have er : rootsOf (cgc force s) = rootsOf s := by rw [e]; rfl
  rw [eh, er]
  exact ⟨allocated_after_gc_iff_live force _ _ h' wf.sizes wf.no_used wf.shape hph hpr hrun x,
    allocated_after_gc_iff_live_after force _ _ h' wf g.roots hb' hph hpr hrun x⟩

/-- **T12.1 for every reachable state of the concrete machine.** Start in a state satisfying the invariant;
after any number of instructions and collections at any boundaries, whenever `run_gc` collects, the allocated
set of the state it returns equals the set of cells reachable from the machine roots through semantic references. -/
theorem no_floating_garbage_machine {ext : ExtOps} (force : Bool) (el : ExtLaws ext) (eg : ExtGood ext)
    {s0 : St CHeap} (g0 : GoodI s0) (sb : SizeBounded (machine ext force) s0)
    (sdl : StackDiscAlong (machine ext force) s0) (ecp : ExtCodePlain ext) (cp0 : CodePlain s0.heap)
    {s : St CHeap} (hr : Reaches (machine ext force) s0 s) {h' : Heap}
    (hrun : Heap.runGc true force (toHeap s.heap) (rootsOf s) = .ok (.collected h')) (x : Nat) :
    ((toHeap ((machine ext force).gc s).heap).NonFree x ↔ Live (toHeap s.heap) (rootsOf s) x) ∧
    ((toHeap ((machine ext force).gc s).heap).NonFree x ↔
      Live (toHeap ((machine ext force).gc s).heap) (rootsOf ((machine ext force).gc s)) x) :=
  no_floating_garbage_of_goodI force (goodI_reaches force el eg g0 sb sdl s hr)
    (codePlain_reaches force ecp cp0 s hr) (sb _ (.gc hr)) hrun x

/-- … and with the forcing hook (`force = true`: every collection point collects) the collection always
happens: immediately after `run_gc`, allocated = live, in every reachable state. -/
theorem forced_gc_no_floating_garbage_machine {ext : ExtOps} (el : ExtLaws ext) (eg : ExtGood ext)
    {s0 : St CHeap} (g0 : GoodI s0) (sb : SizeBounded (machine ext true) s0)
    (sdl : StackDiscAlong (machine ext true) s0) (ecp : ExtCodePlain ext) (cp0 : CodePlain s0.heap)
    {s : St CHeap} (hr : Reaches (machine ext true) s0 s) (x : Nat) :
    ((toHeap (cgc true s).heap).NonFree x ↔ Live (toHeap s.heap) (rootsOf s) x) ∧
    ((toHeap (cgc true s).heap).NonFree x ↔ Live (toHeap (cgc true s).heap) (rootsOf (cgc true s)) x) := by
  have g := goodI_reaches true el eg g0 sb sdl s hr
  obtain ⟨h', hrun⟩ := forced_gc_collects _ _ g.hg.wf g.roots
  exact no_floating_garbage_machine true el eg g0 sb sdl ecp cp0 hr hrun x

/-! ### non-vacuity (the program `HALT` of Lemmas/GoodDemo.lean, the parameter set `failingExt` of C13) -/

open Marwood.Lemmas.Good.Demo in
theorem sHalt_codePlain (o : Nat) : CodePlain (sHalt o).heap := by
  intro i l hc
  rcases hHalt_cell hc with ⟨_, h⟩ | h
  · cases h; decide
  · cases h

open Marwood.Proofs.C13 in
/-- `ExtCodePlain` is satisfiable (the parameter set whose builtins, compiler and VPUSH always fail) -/
theorem failingExt_codePlain : ExtCodePlain failingExt :=
  ⟨fun _ h => (by cases h), fun _ h => (by cases h), fun _ h => (by cases h)⟩

open Marwood.Lemmas.Good.Demo Marwood.Proofs.C13 in
example : GoodI (sHalt 0) ∧ SizeBounded (machine failingExt false) (sHalt 0) ∧
    StackDiscAlong (machine failingExt false) (sHalt 0) ∧ CodePlain (sHalt 0).heap ∧
    ExtLaws failingExt ∧ ExtGood failingExt ∧ ExtCodePlain failingExt :=
  ⟨sHalt_goodI 0, sHalt_sizeBounded _, sHalt_discAlong _, sHalt_codePlain 0, failingExt_laws, failingExt_good,
   failingExt_codePlain⟩

end machine

/-! ## T12.3's parameter `A` for the concrete machine: what one instruction, and one slice, allocate

`capacity_bounded` / `heap_run_capacity_bounded` take `A`, the number of cells allocated between two consecutive
collection points, as a parameter. For the concrete machine (`Vm/Machine.lean: step` over
`Vm/ConcreteHeap.lean: concreteOps ext`) it is now bounded by a theorem (`Lemmas/PolicyAllocBound.lean`, the graded
form of `step_rel` over all 16 opcodes): one instruction performs at most `opAlloc op + extra ext s op` steps
`Heap::alloc` — `opAlloc`: CONS 3, CLOSURE 2, ENTER 1, CALL / TCALL 2 (call/cc: continuation + boxed result;
`apply`: boxed result), VARARG 3, every other opcode 0; `extra`: the growth of `used` across the generic builtin /
`eval`'s compiler / VPUSH the instruction calls, `2 · argc` for VARARG's rest-argument list, `0` for every other
instruction — and otherwise only edits that leave `(capacity, used)` alone. The unmodelled operations are assumed
to allocate through `Heap::alloc` only and to keep the allocator invariant (`ExtAllocOnly`, like `ExtGood`). A slice
of at most 8192 instructions (`run_gc` runs every 8192 cycles, at a budget stop and at the end of an evaluation)
therefore allocates at most `8192 · 3 + E` cells, `E` = the sum of `extra` over the slice. -/

section allocbound
open Marwood.Vm Marwood.Vm.Concrete Marwood.Lemmas.Sim Marwood.Lemmas.PolicyAlloc

/-- **one instruction** of the concrete machine: the allocator invariant is kept and `used` grows by at most the
    constant of the opcode plus what the unmodelled operation called / the rest-argument list built allocates -/
theorem instr_alloc_bound {ext : ExtOps} (ea : ExtAllocOnly ext) {s s' : St CHeap} {b : Bool} (inv : HInv s.heap)
    (h : step (concreteOps ext) s = .ok (s', b)) :
    ∃ op s1, readOpcode (concreteOps ext) s = .ok (op, s1) ∧ HInv s'.heap ∧
      used s'.heap ≤ used s.heap + opAlloc op + extra ext s op :=
  step_alloc_bound ea inv h

/-- **one instruction other than a generic builtin / `eval` / VPUSH / VARARG allocates at most a constant**:
    `opAlloc op ≤ 3` cells -/
theorem instr_alloc_bound_core {ext : ExtOps} (ea : ExtAllocOnly ext) {s s' : St CHeap} {b : Bool} (inv : HInv s.heap)
    (h : step (concreteOps ext) s = .ok (s', b)) {op : Vm.Op} {s1 : St CHeap}
    (hro : readOpcode (concreteOps ext) s = .ok (op, s1)) (ne : NonExt (concreteOps ext) s op) :
    used s'.heap ≤ used s.heap + opAlloc op ∧ used s'.heap ≤ used s.heap + maxOpAlloc :=
  step_alloc_bound_core ea inv h hro ne

/-- the constants -/
theorem opAlloc_table : opAlloc .cons = 3 ∧ opAlloc .closureAcc = 2 ∧ opAlloc .enter = 1 ∧ opAlloc .callAcc = 2 ∧
    opAlloc .tcallAcc = 2 ∧ opAlloc .varArg = 3 ∧ opAlloc .mov = 0 ∧ opAlloc .movImm = 0 ∧ opAlloc .push = 0 ∧
    opAlloc .pushAcc = 0 ∧ opAlloc .pushImm = 0 ∧ opAlloc .jmp = 0 ∧ opAlloc .jnt = 0 ∧ opAlloc .ret = 0 ∧
    opAlloc .halt = 0 ∧ opAlloc .vpushAcc = 0 ∧ ∀ op, opAlloc op ≤ maxOpAlloc :=
  ⟨rfl, rfl, rfl, rfl, rfl, rfl, rfl, rfl, rfl, rfl, rfl, rfl, rfl, rfl, rfl, rfl, opAlloc_le⟩

/-- VARARG allocates at most `3 + 2 · argc` cells, `argc` the argument count of the frame -/
theorem vararg_alloc_bound {ext : ExtOps} (ea : ExtAllocOnly ext) {s s' s1 : St CHeap} {b : Bool} {n : Nat}
    (inv : HInv s.heap) (h : step (concreteOps ext) s = .ok (s', b))
    (hro : readOpcode (concreteOps ext) s = .ok (.varArg, s1)) (hn : s.stack.getOffset (-2) = .ok (.argc n)) :
    used s'.heap ≤ used s.heap + 3 + 2 * n := by
  obtain ⟨op', s1', hro', _, hu⟩ := step_alloc_bound ea inv h
  rw [hro] at hro'
  cases hro'
  have : extra ext s .varArg = 2 * n := by simp only [extra, extraOf, hn]
  rw [this] at hu
  exact hu

/-- **`A` for one slice**: `n ≤ 8192` instructions from `s` to `s'` with no collection in between allocate at most
    `8192 · 3 + E` cells, `E` = the cells allocated by the builtins called in the slice (plus `2 · argc` per
    VARARG); in the vocabulary of T12.3: the erased heap performs exactly `j ≤ 8192 · 3 + E` operations `.alloc` -/
theorem slice_alloc_bound {ext : ExtOps} (ea : ExtAllocOnly ext) {n E : Nat} {s s' : St CHeap} (inv : HInv s.heap)
    (sl : Slice ext n E s s') (hn : n ≤ 8192) :
    HInv s'.heap ∧ used s'.heap ≤ used s.heap + (8192 * maxOpAlloc + E) ∧
      ∃ j, j ≤ 8192 * maxOpAlloc + E ∧ Allocs s.heap s'.heap j :=
  Marwood.Lemmas.PolicyAlloc.slice_alloc_bound ea inv sl hn

/-- **T12.3 instantiated at the machine**: a slice of at most 8192 instructions, then a collection point, then
    any run of the heap model paced by `A = 8192 · 3 + E` and `L` (e.g. further slices, each allocating at most `A`,
    alternating with collection points that leave at most `L` cells live): the number of cells never exceeds the
    bound of T12.3 with that `A` — independent of the number of slices -/
theorem machine_slice_capacity_bounded {ext : ExtOps} (ea : ExtAllocOnly ext) {n E : Nat} {s s' : St CHeap}
    (inv : HInv s.heap) (sl : Slice ext n E s s') (hn : n ≤ 8192)
    {fixed f : Bool} {l L : Nat} {rest : List HeapPolicy.Op} {hf : Heap}
    (hrest : HRun fixed (toHeap s'.heap) (.gcPoint f l :: rest) hf)
    (hu : used s.heap ≤ L ∨ 4 * used s.heap < 3 * s.heap.cells.size)
    (hl : l ≤ L) (hp : HeapPolicy.Paced (8192 * maxOpAlloc + E) L 0 rest) :
    hf.cells.size ≤ HeapPolicy.bound s.heap.chunk s.heap.cells.size (8192 * maxOpAlloc + E) L := by
  obtain ⟨_, _, j, hj, aj⟩ := Marwood.Lemmas.PolicyAlloc.slice_alloc_bound ea inv sl hn
  have hr := aj fixed _ hf hrest
  have hpaced : HeapPolicy.Paced (8192 * maxOpAlloc + E) L 0 (List.replicate j .alloc ++ .gcPoint f l :: rest) :=
    paced_allocs _ _ j 0 _ (by omega) ⟨hl, hp⟩
  have hu' : (proj (toHeap s.heap)).used ≤ L ∨ 4 * (proj (toHeap s.heap)).used < 3 * (toHeap s.heap).cells.size := by
    rw [proj_toHeap]; simpa [toHeap] using hu
  have := hrun_capacity_bounded fixed (toHeap s.heap) hf _ _ L (pre_of_inv inv) hr hu' hpaced
  simpa [toHeap] using this

/-- **any number of slices**: a run of the heap model that consists of blocks "`j` allocations, then a collection
    point" — what the machine does slice after slice, `j ≤ 8192 · 3 + E` for each by `slice_alloc_bound` — with at
    most `A` allocations per block and at most `L` cells live at each collection point keeps the number of cells
    below the bound of T12.3, however many blocks there are -/
theorem session_capacity_bounded (fixed : Bool) {h hf : Heap} (bs : List (Nat × Bool × Nat)) (A L : Nat)
    (pre : Pre h) (hr : HRun fixed h (blocksOps bs) hf)
    (hu : (proj h).used ≤ L ∨ 4 * (proj h).used < 3 * h.cells.size) (hb : ∀ b ∈ bs, b.1 ≤ A ∧ b.2.2 ≤ L) :
    hf.cells.size ≤ HeapPolicy.bound h.chunk h.cells.size A L :=
  hrun_capacity_bounded fixed h hf _ A L pre hr hu (paced_blocks A L bs hb)

/-! ### non-vacuity -/

open Marwood.Proofs.C13 in
/-- `ExtAllocOnly` is satisfiable: by the parameter set whose unmodelled operations always fail, and by
    `allocExt`, whose generic builtins allocate a cell (`allocExt_allocOnly`) -/
theorem failingExt_allocOnly : ExtAllocOnly failingExt :=
  ⟨fun h => (by cases h), fun h => (by cases h), fun h => (by cases h)⟩

theorem allocExt_allocOnly : ExtAllocOnly allocExt := Marwood.Lemmas.PolicyAlloc.allocExt_allocOnly

open Marwood.Lemmas.Good.Demo Marwood.Lemmas.Good in
/-- a slice of the HALT demo program: one instruction, nothing allocated -/
example : HInv (sHalt 0).heap ∧ Slice allocExt 1 0 (sHalt 0) (sHalt 1) :=
  ⟨HInv.of_wf (sHalt_goodI 0).hg.wf, .cons (b := true) (op := .halt) (sx := sHalt 1) rfl rfl (.nil _)⟩

/-- a state about to execute CONS on an immediate number and a reference: two cells are allocated (the boxed
    number and the pair), within the constant 3 of the opcode -/
def hCons : CHeap :=
  { chunk := 4
    cells := #[.lambda { bc := [.opcode .cons], args := [], envmap := [] }, .val .undefined, .val .undefined,
      .val .undefined]
    gc := #[.allocated, .free, .free, .free]
    free := [1, 2, 3]
    symtab := [], globSyms := [], globals := #[] }

def sCons : St CHeap :=
  { heap := hCons, stack := { cells := [.undefined, .opaque "n1", .ptr 0, .undefined], sp := 2 }, acc := .undefined,
    ep := 0, ipL := 0, ipO := 0, bp := 0 }

theorem hCons_inv : HInv hCons := by
  have hs : hCons.gc.size = 4 := rfl
  refine ⟨by decide, ⟨by decide, by decide, 1, by decide, by decide⟩, ?_, by decide, ?_⟩
  · intro i
    by_cases hi : i < 4
    · have : i = 0 ∨ i = 1 ∨ i = 2 ∨ i = 3 := by omega
      rcases this with h | h | h | h <;> subst h <;> decide
    · rw [Array.getElem?_eq_none (by omega)]
      simp [hCons]; omega
  · intro i
    by_cases hi : i < 4
    · have : i = 0 ∨ i = 1 ∨ i = 2 ∨ i = 3 := by omega
      rcases this with h | h | h | h <;> subst h <;> decide
    · rw [Array.getElem?_eq_none (by omega)]
      simp

example : ∃ s', step (concreteOps allocExt) sCons = .ok (s', false) ∧ used s'.heap = used sCons.heap + 2 ∧
    NonExt (concreteOps allocExt) sCons .cons ∧ Slice allocExt 1 0 sCons s' :=
  ⟨_, rfl, by decide, ⟨by decide, by decide, fun _ h => by cases h⟩,
    .cons (b := false) (op := .cons) (sx := { sCons with ipO := 1 }) rfl rfl (.nil _)⟩

example := instr_alloc_bound_core allocExt_allocOnly (s := sCons) (op := .cons) (b := false) hCons_inv rfl rfl
  ⟨by decide, by decide, fun _ h => by cases h⟩

end allocbound

/-! ## C12's first sentence for the concrete machine: a whole session is one paced run

"The memory the VM uses is bounded by a function of the live data of the program, not of the work done." For the
modelled machine: `runLoop` (run.rs `run_count`) runs `run_gc` before instruction 8192, 16384, … of a `run_count`
call, at a budget stop, and at the end of both epilogues. Hence (`Lemmas/PolicySession.lean`, generic in the
machine; `Lemmas/PolicySessionMain.lean`) every execution — of the loop, of an evaluation, of a history of
evaluations — is a *session*: blocks of at most 8192 instructions, each closed by a collection `cgc force`. A
collection acts on `(capacity, used)` as `HeapPolicy.gcPoint force live` with `live` = the number of cells reachable
from the machine roots (`cgc_is_gcPoint`), a block as at most `8192 · 3 + E` operations `alloc` (`slice_alloc_bound`),
so a session is ONE run `HRun` of the heap model (`session_is_heap_run`) and T12.3 applies to it:
the capacity never exceeds `max(initial, g(L + 8192·3 + E))`, `g(x) = grownSize chunk (4·x) ≤ 6·x + chunk`, where
`L` bounds the cells reachable from the roots at the collection points and `E` the cells allocated in one block by
the unmodelled operations (generic builtins, `eval`'s compiler, VPUSH; rest-argument lists) — the two
program-dependent parameters. The number of instructions, evaluations and collections does not occur. -/

section session
open Marwood.Vm Marwood.Vm.Concrete Marwood.Lemmas.Sim Marwood.Lemmas.Good Marwood.Lemmas.PolicyAlloc
open Marwood.Lemmas.MachineGarbage Marwood.Lemmas.PolicySession
open Marwood.Lemmas.PolicySessionGc Marwood.Lemmas.PolicySessionMain Marwood.Lemmas.PolicySessionOk
open Marwood.Proofs.C07 (Job runHistory)

/-- **a collection of the concrete machine is a collection point of the policy specification.** In a state
    satisfying `GcOk` (invariant `GoodI`, decoding discipline `CodePlain`, at most `2^62` cells afterwards),
    `cgc force s` acts on `(chunk, capacity, used)` as `gcPoint force live` with `live = liveCount s`, the number of
    cells reachable from `rootsOf s` through semantic references; the allocator invariant holds afterwards; and in
    the vocabulary of `HRun` it is one step `.gcPoint force (liveCount s)` -/
theorem cgc_is_gcPoint {force : Bool} {s : St CHeap} (ok : GcOk force s) :
    proj (toHeap (cgc force s).heap) = HeapPolicy.gcPoint force (liveCount s) (proj (toHeap s.heap)) ∧
    HInv (cgc force s).heap ∧
    ∀ (ops : List HeapPolicy.Op) (hf : Heap), HRun true (toHeap (cgc force s).heap) ops hf →
      HRun true (toHeap s.heap) (.gcPoint force (liveCount s) :: ops) hf :=
  Marwood.Lemmas.PolicySessionGc.cgc_is_gcPoint ok

/-- `liveCount` counts cells of the heap: it never exceeds the capacity -/
theorem liveCount_le_capacity (s : St CHeap) : liveCount s ≤ s.heap.cells.size := liveCount_le_size s

/-- **the run loop is paced** — for every machine, from the definition of `runLoop` alone: closed blocks of at most
    8192 instructions, each followed by `gc`, then what `Tail` says about the result (paused: nothing open;
    done / error: an open block of fewer than 8192 instructions before the halting / failing one) -/
theorem runLoop_blocks_generic {S E : Type} (m : Machine S E) (count : Option Nat) (fuel : Nat) (s : S) :
    ∃ bs s1, Blocks m s bs s1 ∧ (∀ b ∈ bs, b.1 ≤ 8192) ∧ Tail m s1 (runLoop m count fuel 0 s) :=
  runLoop_blocks_start m count fuel s

/-- **`runLoop` of the concrete machine is paced** (any budget, any fuel, any value of the cycle counter) -/
theorem runLoop_is_paced (ext : ExtOps) (force : Bool) (count : Option Nat) (fuel c : Nat) (s : St CHeap) :
    ∃ cps s1, Sess ext force s cps s1 ∧ (∀ cp ∈ cps, cp.1 ≤ 8192) ∧ (∀ cp ∈ cps, CpFrom ext force s cp.2.2) ∧
      Reaches (machine ext force) s s1 ∧ OpenTail ext force s1 (runLoop (machine ext force) count fuel c s) :=
  Marwood.Lemmas.PolicySessionMain.runLoop_is_paced ext force count fuel c s

/-- **one evaluation (`run_count` with its epilogues) is a session** whose blocks have at most 8192 instructions;
    the collection points lie at reachable states or at the epilogue of one (`CpFrom`) -/
theorem runEval_is_paced (ext : ExtOps) (force : Bool) (count : Option Nat) (fuel : Nat) (s : St CHeap) :
    match runEval (concreteOps ext) (cgc force) count fuel s with
    | .value s' => ∃ cps, Sess ext force s cps s' ∧ (∀ cp ∈ cps, cp.1 ≤ 8192) ∧ ∀ cp ∈ cps, CpFrom ext force s cp.2.2
    | .failed _ s' => ∃ cps, Sess ext force s cps s' ∧ (∀ cp ∈ cps, cp.1 ≤ 8192) ∧ ∀ cp ∈ cps, CpFrom ext force s cp.2.2
    | .paused s' => ∃ cps, Sess ext force s cps s' ∧ (∀ cp ∈ cps, cp.1 ≤ 8192) ∧ ∀ cp ∈ cps, CpFrom ext force s cp.2.2
    | .fuel => True :=
  Marwood.Lemmas.PolicySessionMain.runEval_is_paced ext force count fuel s

/-- **a whole history of evaluations (C07's `runHistory`: successes and failures in any order) is ONE session** -/
theorem runHistory_is_session (ext : ExtOps) (force : Bool) : ∀ (js : List Job) (s : St CHeap),
    ∃ cps, Sess ext force s cps (runHistory (concreteOps ext) (cgc force) js s) ∧ ∀ cp ∈ cps, cp.1 ≤ 8192 := by
  intro js
  induction js with
  | nil => intro s; exact ⟨[], .nil s, by simp⟩
  | cons j js ih =>
    intro s
    have hp := runEval_is_paced ext force none j.fuel (prepare s j.entry)
    simp only [runHistory]
    have key : ∀ s', (∃ cps, Sess ext force (prepare s j.entry) cps s' ∧ (∀ cp ∈ cps, cp.1 ≤ 8192) ∧
        ∀ cp ∈ cps, CpFrom ext force (prepare s j.entry) cp.2.2) →
        ∃ cps, Sess ext force s cps (runHistory (concreteOps ext) (cgc force) js s') ∧ ∀ cp ∈ cps, cp.1 ≤ 8192 := by
      intro s' ⟨cps1, hs1, hn1, _⟩
      obtain ⟨cps2, hs2, hn2⟩ := ih s'
      refine ⟨cps1 ++ cps2, .edit (s1 := prepare s j.entry) rfl (hs1.append hs2), ?_⟩
      intro cp hcp
      rcases List.mem_append.mp hcp with h | h
      · exact hn1 cp h
      · exact hn2 cp h
    split <;> rename_i hr <;> rw [hr] at hp
    · exact key _ hp
    · exact key _ hp
    · exact key _ hp
    · exact ih s

/-- **a session is ONE run of the heap model**: block by block `jᵢ ≤ 3·nᵢ + Eᵢ` operations `alloc`, then
    `gcPoint force (liveCount cpᵢ)` -/
theorem session_is_heap_run {ext : ExtOps} {force : Bool} (ea : ExtAllocOnly ext) {s s' : St CHeap} {cps : List CP}
    (hs : Sess ext force s cps s') (inv : HInv s.heap) (ok : ∀ cp ∈ cps, GcOk force cp.2.2) :
    HInv s'.heap ∧ ∃ ps : List (Nat × Bool × Nat), All2 (BlockOf force) ps cps ∧
      ∀ (ops : List HeapPolicy.Op) (hf : Heap), HRun true (toHeap s'.heap) ops hf →
        HRun true (toHeap s.heap) (blocksOps ps ++ ops) hf :=
  sess_hrun ea hs inv ok

/-- **C12, first sentence, for every session of the concrete machine.** Let a session (closed blocks `cps`, then an
    open block of `n` instructions) start in a state with the allocator invariant, right after a collection point
    (`used ≤ L`, or less than ¾ in use). If every block has at most 8192 instructions (true of every execution of the
    run loop: `runLoop_is_paced`, `runEval_is_paced`, `runHistory_is_session`), the unmodelled operations called in
    any one block allocate at most `E` cells, and at every collection point at most `L` cells are reachable from the
    roots, then the heap has at most `bound chunk initial (8192·3 + E) L = max(initial, grownSize chunk (max (L+A) (4A)
    (4L/3)))` cells, `A = 8192·3 + E`; in closed form at most `max(initial, 6·(L + 8192·3 + E) + chunk)` — a function of
    `L` and `E` only: not of the number of blocks, instructions, evaluations or collections. -/
theorem session_capacity_bounded_machine {ext : ExtOps} {force : Bool} (ea : ExtAllocOnly ext) {s0 s1 s' : St CHeap}
    {cps : List CP} {n Et E L : Nat} (hs : Sess ext force s0 cps s1) (tail : Seg ext n Et s1 s')
    (inv : HInv s0.heap) (ok : ∀ cp ∈ cps, GcOk force cp.2.2)
    (hn : ∀ cp ∈ cps, cp.1 ≤ 8192) (hE : ∀ cp ∈ cps, cp.2.1 ≤ E) (hL : ∀ cp ∈ cps, liveCount cp.2.2 ≤ L)
    (hnt : n ≤ 8192) (hEt : Et ≤ E)
    (hu : used s0.heap ≤ L ∨ 4 * used s0.heap < 3 * s0.heap.cells.size) :
    s'.heap.cells.size ≤ HeapPolicy.bound s0.heap.chunk s0.heap.cells.size (8192 * 3 + E) L ∧
    s'.heap.cells.size ≤ max s0.heap.cells.size (6 * (L + (8192 * 3 + E)) + s0.heap.chunk) := by
  have h := sess_capacity_bounded ea hs tail inv ok hn hE hL hnt hEt hu
  exact ⟨h, Nat.le_trans h (bound_le _ _ _ _)⟩

/-- `CodePlain` after an uninterrupted evaluation -/
theorem codePlain_runEval {ext : ExtOps} (force : Bool) (ecp : ExtCodePlain ext) (fuel : Nat) {s : St CHeap}
    (cp : CodePlain s.heap) :
    match runEval (concreteOps ext) (cgc force) none fuel s with
    | .value s' => CodePlain s'.heap
    | .failed _ s' => CodePlain s'.heap
    | .paused _ => False
    | .fuel => True := by
  have em : (⟨vmStep (concreteOps ext), cgc force⟩ : Machine (St CHeap) Fault) = machine ext force := rfl
  obtain ⟨h1, h2⟩ := C07.runLoop_reaches ext force none fuel 0 s
  unfold runEval
  rw [em]
  cases hr : runLoop (machine ext force) none fuel 0 s with
  | paused s' => exact absurd hr (C07.runLoop_none_not_paused (concreteOps ext) (cgc force) fuel 0 s s')
  | fuel => trivial
  | done sd =>
    simp only
    exact codePlain_gc force (s := onDone sd) (codePlain_reaches force ecp cp sd (h2 sd hr))
  | error f sf =>
    simp only
    exact codePlain_gc force (s := onError sf) (codePlain_reaches force ecp cp sf (h1 f sf hr))

/-- **the side conditions at the collection points of one evaluation are consequences** of the bundled invariant
    `VmOkP` and `CodePlain` of the state it starts in, the laws of the unmodelled parts, and the physical size bound -/
theorem eval_collection_points_ok {ext : ExtOps} {ecl : ExtCodeLawsV ext} (force : Bool) (el : ExtLaws ext)
    (eg : ExtGood ext) (ep : ExtProc ext) (ecp : ExtCodePlain ext) {s0 : St CHeap} (h0 : VmOkP ext ecl s0)
    (cp0 : CodePlain s0.heap) (sb : EvalSizeBounded ext force s0) {x : St CHeap} (hx : CpFrom ext force s0 x) :
    GcOk force x :=
  gcOk_of_cpFrom force el eg ep ecp h0 cp0 sb hx

/-- every evaluation of the history starts — after `prepare_eval` pointed `ip` at its entry code — in a state
    satisfying the bundled invariant, and the heaps it produces have at most `2^62` cells -/
def JobsOk (ext : ExtOps) (ecl : ExtCodeLawsV ext) (force : Bool) : List Job → St CHeap → Prop
  | [], _ => True
  | j :: js, s => (VmOkP ext ecl (prepare s j.entry) ∧ EvalSizeBounded ext force (prepare s j.entry)) ∧
    match runEval (concreteOps ext) (cgc force) none j.fuel (prepare s j.entry) with
    | .value s' => JobsOk ext ecl force js s'
    | .failed _ s' => JobsOk ext ecl force js s'
    | .paused s' => JobsOk ext ecl force js s'
    | .fuel => JobsOk ext ecl force js s

/-- a history is a session all of whose collection points satisfy `GcOk` -/
theorem runHistory_session_ok {ext : ExtOps} {ecl : ExtCodeLawsV ext} (force : Bool) (el : ExtLaws ext)
    (eg : ExtGood ext) (ep : ExtProc ext) (ecp : ExtCodePlain ext) : ∀ (js : List Job) (s : St CHeap),
    CodePlain s.heap → JobsOk ext ecl force js s →
    ∃ cps, Sess ext force s cps (runHistory (concreteOps ext) (cgc force) js s) ∧ (∀ cp ∈ cps, cp.1 ≤ 8192) ∧
      ∀ cp ∈ cps, GcOk force cp.2.2 := by
  intro js
  induction js with
  | nil => intro s _ _; exact ⟨[], .nil s, by simp, by simp⟩
  | cons j js ih =>
    intro s cp jobs
    obtain ⟨⟨hv, hsb⟩, hrest⟩ := jobs
    have hp := runEval_is_paced ext force none j.fuel (prepare s j.entry)
    have hc := codePlain_runEval force ecp j.fuel (s := prepare s j.entry) cp
    simp only [runHistory]
    have key : ∀ s', CodePlain s'.heap → JobsOk ext ecl force js s' →
        (∃ cps, Sess ext force (prepare s j.entry) cps s' ∧ (∀ cp ∈ cps, cp.1 ≤ 8192) ∧
          ∀ cp ∈ cps, CpFrom ext force (prepare s j.entry) cp.2.2) →
        ∃ cps, Sess ext force s cps (runHistory (concreteOps ext) (cgc force) js s') ∧ (∀ cp ∈ cps, cp.1 ≤ 8192) ∧
          ∀ cp ∈ cps, GcOk force cp.2.2 := by
      intro s' cp' jobs' ⟨cps1, hs1, hn1, hf1⟩
      obtain ⟨cps2, hs2, hn2, hok2⟩ := ih s' cp' jobs'
      refine ⟨cps1 ++ cps2, .edit (s1 := prepare s j.entry) rfl (hs1.append hs2), ?_, ?_⟩
      · intro c hcp
        rcases List.mem_append.mp hcp with h | h
        · exact hn1 c h
        · exact hn2 c h
      · intro c hcp
        rcases List.mem_append.mp hcp with h | h
        · exact gcOk_of_cpFrom force el eg ep ecp hv cp hsb (hf1 c h)
        · exact hok2 c h
    split <;> rename_i hr <;> rw [hr] at hp hc hrest
    · exact key _ hc hrest hp
    · exact key _ hc hrest hp
    · exact absurd hc id
    · exact ih s cp hrest

/-- **C12, first sentence, for every history of evaluations of the concrete machine** (any number of evaluations,
    succeeding or failing, each of any length): there is a decomposition of the history into blocks of at most 8192
    instructions closed by collections such that, whenever `E` bounds the cells the unmodelled operations allocate
    in one block and `L` the cells reachable from the roots at the collection points, the heap of the final state
    has at most `max(initial, 6·(L + 8192·3 + E) + chunk)` cells.
    Hypotheses: the laws of the unmodelled parts (`ExtLaws`, `ExtGood`, `ExtProc`, `ExtCodePlain`, `ExtAllocOnly`),
    `HInv` and `CodePlain` of the initial heap, and `JobsOk`. -/
theorem history_capacity_bounded_machine {ext : ExtOps} {ecl : ExtCodeLawsV ext} (force : Bool) (el : ExtLaws ext)
    (eg : ExtGood ext) (ep : ExtProc ext) (ecp : ExtCodePlain ext) (ea : ExtAllocOnly ext) (js : List Job)
    (s0 : St CHeap) (inv : HInv s0.heap) (cp0 : CodePlain s0.heap) (jobs : JobsOk ext ecl force js s0) :
    ∃ cps, Sess ext force s0 cps (runHistory (concreteOps ext) (cgc force) js s0) ∧ (∀ cp ∈ cps, cp.1 ≤ 8192) ∧
      ∀ E L : Nat, (∀ cp ∈ cps, cp.2.1 ≤ E ∧ liveCount cp.2.2 ≤ L) →
        (used s0.heap ≤ L ∨ 4 * used s0.heap < 3 * s0.heap.cells.size) →
        (runHistory (concreteOps ext) (cgc force) js s0).heap.cells.size ≤
          max s0.heap.cells.size (6 * (L + (8192 * 3 + E)) + s0.heap.chunk) := by
  obtain ⟨cps, hs, hn, hok⟩ := runHistory_session_ok force el eg ep ecp js s0 cp0 jobs
  refine ⟨cps, hs, hn, ?_⟩
  intro E L hEL hu
  exact (session_capacity_bounded_machine ea hs (Seg.refl ext _) inv hok hn (fun c h => (hEL c h).1)
    (fun c h => (hEL c h).2) (by omega) (Nat.zero_le _) hu).2

/-! ### non-vacuity: the HALT demo program, evaluated twice -/

open Marwood.Lemmas.Good.Demo Marwood.Proofs.C13

/-- on the demo heap (1 of 4 cells in use) the utilisation-tested collector skips, whatever the roots -/
theorem hHalt_cgc (s : St CHeap) (hs : s.heap = hHalt) : cgc false s = s := by
  unfold cgc
  have : Heap.runGc true false (toHeap s.heap) (rootsOf s) = .ok (.skipped eHalt) := by
    rw [hs, toHeap_hHalt]; rfl
  rw [this]

theorem sHalt_evalSizeBounded : EvalSizeBounded failingExt false (sHalt 0) := by
  refine ⟨sHalt_sizeBounded _, ?_, ?_⟩
  · intro sd hr
    have hh : sd.heap = hHalt := by rcases sHalt_reaches failingExt hr with h | h <;> subst h <;> rfl
    rw [hHalt_cgc (onDone sd) hh]
    show 2 * sd.heap.cells.size ≤ 2 ^ 63
    rw [hh]; decide
  · intro sd hr
    have hh : sd.heap = hHalt := by rcases sHalt_reaches failingExt hr with h | h <;> subst h <;> rfl
    rw [hHalt_cgc (onError sd) hh]
    show 2 * sd.heap.cells.size ≤ 2 ^ 63
    rw [hh]; decide

theorem demo_eval : runEval (concreteOps failingExt) (cgc false) none 5 (sHalt 0) = .value (sHalt 1) := by
  have em : (⟨vmStep (concreteOps failingExt), cgc false⟩ : Machine (St CHeap) Fault) = machine failingExt false := rfl
  unfold runEval
  rw [em]
  have : runLoop (machine failingExt false) none 5 0 (sHalt 0) = .done (sHalt 1) := by
    simp only [runLoop]
    simp [sHalt_step0 failingExt false]
  rw [this]
  show EvalRes.value (cgc false (onDone (sHalt 1))) = _
  rw [hHalt_cgc _ rfl]
  rfl

theorem demo_jobsOk : JobsOk failingExt failingExt_codeLawsV false [⟨0, 5⟩, ⟨0, 5⟩] (sHalt 0) := by
  have hp0 : prepare (sHalt 0) 0 = sHalt 0 := rfl
  have hp1 : prepare (sHalt 1) 0 = sHalt 0 := rfl
  simp only [JobsOk, hp0, hp1, demo_eval]
  exact ⟨⟨sHalt_vmOkP _ _, sHalt_evalSizeBounded⟩, ⟨sHalt_vmOkP _ _, sHalt_evalSizeBounded⟩, trivial⟩

/-- every hypothesis of `history_capacity_bounded_machine` holds for the two-evaluation history of the demo
    program; its collection points see at most 4 reachable cells and no builtin allocates -/
example : ∃ cps, Sess failingExt false (sHalt 0) cps
      (runHistory (concreteOps failingExt) (cgc false) [⟨0, 5⟩, ⟨0, 5⟩] (sHalt 0)) ∧ (∀ cp ∈ cps, cp.1 ≤ 8192) ∧
    ∀ E L : Nat, (∀ cp ∈ cps, cp.2.1 ≤ E ∧ liveCount cp.2.2 ≤ L) →
      (used (sHalt 0).heap ≤ L ∨ 4 * used (sHalt 0).heap < 3 * (sHalt 0).heap.cells.size) →
      (runHistory (concreteOps failingExt) (cgc false) [⟨0, 5⟩, ⟨0, 5⟩] (sHalt 0)).heap.cells.size ≤
        max (sHalt 0).heap.cells.size (6 * (L + (8192 * 3 + E)) + (sHalt 0).heap.chunk) :=
  history_capacity_bounded_machine (ecl := failingExt_codeLawsV) false failingExt_laws failingExt_good failingExt_proc
    failingExt_codePlain failingExt_allocOnly _ _ (HInv.of_wf (sHalt_goodI 0).hg.wf) (sHalt_codePlain 0) demo_jobsOk

/-- `GcOk` holds of the demo state, and its collection is the policy's `gcPoint` with `live ≤ 4` -/
example : GcOk false (sHalt 0) ∧ liveCount (sHalt 0) ≤ 4 ∧
    proj (toHeap (cgc false (sHalt 0)).heap) =
      HeapPolicy.gcPoint false (liveCount (sHalt 0)) (proj (toHeap (sHalt 0).heap)) := by
  have ok : GcOk false (sHalt 0) := ⟨sHalt_goodI 0, sHalt_codePlain 0, by rw [hHalt_cgc _ rfl]; exact sHalt_small 0⟩
  exact ⟨ok, liveCount_le_size _, (cgc_is_gcPoint ok).1⟩

end session

/-! ### `JobsOk` discharged: histories with `prepare_eval` as a step of its own (Lemmas/Prepare*.lean)

`history_capacity_bounded_machine` asks `VmOkP` of every state in which a job starts (`JobsOk`), because
`runHistory` takes each entry lambda as given. `HistInstalls` (Lemmas/PrepareHistory.lean) is the history relation
in which the compiler and loader inside `prepare_eval` are steps: `Installs` (a form the compiler accepted:
allocator steps installing loadings of the compiler model's code objects, their data, symbols, global slots — the
allocation the finding `C12-undefined-global-binding` is about) or `InstallsGarbage` followed by the collection of
the `Err` arm (a rejected form). `prepare_vmOkP_idle` re-establishes the bundled invariant, the loader's allocations
(at most one per step) are part of the block in which the evaluation starts, a rejected form is a block of its
own. Hypotheses left: the laws of the unmodelled builtins, `VmOkP` and `CodePlain` of the INITIAL state (empty
stack), the physical size bounds `RecSized`. `E` now bounds, per block, the cells allocated by the unmodelled
builtins AND by the loader. -/
section installs
open Marwood.Vm Marwood.Vm.Concrete Marwood.Lemmas.Sim Marwood.Lemmas.Good Marwood.Lemmas.PolicyAlloc
open Marwood.Lemmas.MachineGarbage Marwood.Lemmas.PolicySession
open Marwood.Lemmas.PolicySessionGc Marwood.Lemmas.PolicySessionMain Marwood.Lemmas.PolicySessionOk

/-- **C12, first sentence, for every history of `eval` calls of the concrete machine, `prepare_eval` included.** -/
theorem history_capacity_bounded_installs {ext : ExtOps} (ecl : ExtCodeLawsV ext) (force : Bool) (el : ExtLaws ext)
    (eg : ExtGood ext) (ep : ExtProc ext) (ecp : ExtCodePlain ext) (ea : ExtAllocOnly ext) {s0 sf : St CHeap}
    {recs : List EvRec} (hist : HistInstalls ext force s0 recs sf)
    (h0 : VmOkP ext ecl s0) (hsp : s0.stack.sp = 0) (hcap : 0 < s0.stack.cells.length) (cp0 : CodePlain s0.heap)
    (sz : ∀ rc ∈ recs, RecSized ext force rc) :
    ∃ cps, Sess ext force s0 cps sf ∧ (∀ cp ∈ cps, cp.1 ≤ 8192) ∧
      ∀ E L : Nat, (∀ cp ∈ cps, cp.2.1 ≤ E ∧ liveCount cp.2.2 ≤ L) →
        (used s0.heap ≤ L ∨ 4 * used s0.heap < 3 * s0.heap.cells.size) →
        sf.heap.cells.size ≤ max s0.heap.cells.size (6 * (L + (8192 * 3 + E)) + s0.heap.chunk) := by
  have i0 : IdleOk s0 := h0.idleOk hsp hcap
  obtain ⟨cps, hs, hn, hok⟩ := histInstalls_session ecl force el eg ep ecp hist i0 cp0 sz
  refine ⟨cps, hs, hn, ?_⟩
  intro E L hEL hu
  exact (session_capacity_bounded_machine ea hs (Seg.refl ext _) (HInv.of_wf i0.good.hg.wf) hok hn
    (fun c h => (hEL c h).1) (fun c h => (hEL c h).2) (by omega) (Nat.zero_le _) hu).2

/-- every job of such a history starts in a state satisfying the bundled invariant (what `JobsOk` asked), and the
    machine is idle at the end -/
theorem history_jobs_ok_installs {ext : ExtOps} (ecl : ExtCodeLawsV ext) (force : Bool) (el : ExtLaws ext)
    (eg : ExtGood ext) (ep : ExtProc ext) {s0 sf : St CHeap} {recs : List EvRec}
    (hist : HistInstalls ext force s0 recs sf)
    (h0 : VmOkP ext ecl s0) (hsp : s0.stack.sp = 0) (hcap : 0 < s0.stack.cells.length)
    (sz : ∀ rc ∈ recs, RecSized ext force rc) :
    (∀ p r, EvRec.ran p r ∈ recs → VmOkP ext ecl p) ∧ IdleOk sf := by
  obtain ⟨a, _, c⟩ := histInstalls_ok (ecl := ecl) force el eg ep hist (h0.idleOk hsp hcap) sz
  exact ⟨fun p r h => (a p r h).1, c⟩

open Marwood.Lemmas.Good.Demo Marwood.Proofs.C13 in
/-- non-vacuity: on the demo machine, a history of two rejected forms that allocated nothing — every hypothesis holds -/
example : ∃ cps, Sess failingExt false (sHalt 0) cps (sHalt 0) ∧ (∀ cp ∈ cps, cp.1 ≤ 8192) ∧
    ∀ E L : Nat, (∀ cp ∈ cps, cp.2.1 ≤ E ∧ liveCount cp.2.2 ≤ L) →
      (used (sHalt 0).heap ≤ L ∨ 4 * used (sHalt 0).heap < 3 * (sHalt 0).heap.cells.size) →
      (sHalt 0).heap.cells.size ≤ max (sHalt 0).heap.cells.size (6 * (L + (8192 * 3 + E)) + (sHalt 0).heap.chunk) := by
  have hg : cgc false (sHalt 0) = sHalt 0 := hHalt_cgc _ rfl
  have h1 : HistInstalls failingExt false (sHalt 0) [.rejected (sHalt 0), .rejected (sHalt 0)] (sHalt 0) := by
    refine .rejected ⟨rfl, .refl _⟩ ?_
    rw [hg]
    refine .rejected ⟨rfl, .refl _⟩ ?_
    rw [hg]
    exact .nil _
  refine history_capacity_bounded_installs failingExt_codeLawsV false failingExt_laws failingExt_good failingExt_proc
    failingExt_codePlain failingExt_allocOnly h1 (sHalt_vmOkP _ _) rfl (by decide) (sHalt_codePlain 0) ?_
  intro rc hrc
  have : rc = .rejected (sHalt 0) := by
    simp only [List.mem_cons, List.not_mem_nil, or_false] at hrc
    rcases hrc with h | h <;> exact h
  subst this
  exact ⟨sHalt_small 0, by rw [hg]; exact sHalt_small 0⟩

end installs

end Marwood.Proofs.C12
