import Marwood.Lemmas.Stack
import Marwood.Proofs.C04
import Marwood.Lemmas.StackWFToy
/-!
# C05 — first-class continuations: capture, invocation, re-entry

Theorems about `builtinCallcc` (builtin/procedure.rs call_cc), `invokeCont` (the Continuation arm of
CALL/TCALL in run.rs), `Stack.capture` / `Stack.restore` (stack.rs) and `stepRet`, for every heap
and every machine state; the model is tied to run.rs by lock-step replay.
-/
namespace Marwood.Proofs.C05
open Marwood.Vm Marwood.Vm.Stack Marwood.Proofs.C04

variable {H : Type}

/-- the machine state a continuation stands for -/
structure Captures (c : Cont) (s : St H) (sp0 : Nat) : Prop where
  sp : c.stack.sp = sp0
  len : c.stack.cells.length = sp0 + 1
  cells : ∀ i, i ≤ sp0 → c.stack.cellAt i = s.stack.cellAt i
  ep : c.ep = s.ep
  ip : c.ipL = s.ipL ∧ c.ipO = s.ipO
  bp : c.bp = s.bp

theorem capture_spec (st : Stack) (h : st.sp < st.cells.length) :
    ∃ c, st.capture = .ok c ∧ c.sp = st.sp ∧ c.cells.length = st.sp + 1 ∧
      ∀ i, i ≤ st.sp → c.cellAt i = st.cellAt i := by
  unfold Stack.capture
  have : st.sp + 1 ≤ st.cells.length := by omega
  simp only [this, if_true]
  refine ⟨_, rfl, rfl, by simp; omega, ?_⟩
  intro i hi
  unfold Stack.cellAt
  simp only [List.getElem?_take]
  have : i < st.sp + 1 := by omega
  simp [this]

/-- T05.1 (capture): when `call/cc` runs — reached through CALL or TCALL with the receiver and
    `argc 1` on top of the stack, `ip` already past the calling instruction — the continuation
    object it creates holds exactly the stack below the two operands (`stack[0..=sp-2]`), the current
    `ep`, `bp`, and `ip` = the instruction after the call; the receiver is then called with the
    continuation as its single argument by re-executing the same CALL/TCALL. -/
theorem callcc_captures (ops : HeapOps H) (s : St H) (proc : VCell)
    (hcap : s.stack.sp < s.stack.cells.length) (hsp : 2 ≤ s.stack.sp)
    (htop : s.stack.cellAt s.stack.sp = .argc 1)
    (hproc : s.stack.cellAt (s.stack.sp - 1) = proc)
    (hp : ops.isProcedure s.heap (ops.deref s.heap proc) = true) (hip : 1 ≤ s.ipO) :
    ∃ c s' h k, ops.newCont s.heap c = (h, k) ∧ builtinCallcc ops s = .ok (s', proc) ∧
      Captures c s (s.stack.sp - 2) ∧
      s'.heap = h ∧ s'.stack.sp = s.stack.sp ∧
      s'.stack.cellAt (s.stack.sp - 1) = k ∧ s'.stack.cellAt s.stack.sp = .argc 1 ∧
      (∀ i, i + 2 ≤ s.stack.sp → s'.stack.cellAt i = s.stack.cellAt i) ∧
      s'.ipO + 1 = s.ipO ∧ s'.ipL = s.ipL ∧ s'.ep = s.ep ∧ s'.bp = s.bp := by
  unfold builtinCallcc
  have hpop1 : s.stack.pop = .ok (.argc 1, { s.stack with sp := s.stack.sp - 1 }) := by
    unfold Stack.pop
    have h0 : 0 < s.stack.sp := by omega
    simp only [h0, if_true]
    have : s.stack.cells[s.stack.sp]? = some (.argc 1) := by
      unfold Stack.cellAt at htop
      rw [List.getElem?_eq_getElem hcap] at htop ⊢
      simpa using htop
    rw [this]
  have hpop2 : Stack.pop { s.stack with sp := s.stack.sp - 1 }
      = .ok (proc, { s.stack with sp := s.stack.sp - 2 }) := by
    unfold Stack.pop
    have h0 : 0 < s.stack.sp - 1 := by omega
    simp only [h0, if_true]
    have hl : s.stack.sp - 1 < s.stack.cells.length := by omega
    have : s.stack.cells[s.stack.sp - 1]? = some proc := by
      unfold Stack.cellAt at hproc
      rw [List.getElem?_eq_getElem hl] at hproc ⊢
      simpa using hproc
    rw [this]
    have e : s.stack.sp - 1 - 1 = s.stack.sp - 2 := by omega
    simp [e]
  simp only [hpop1, Bind.bind, asArgc, ne_eq, not_true_eq_false, if_false, hpop2, hp,
    Bool.not_true, Bool.false_eq_true]
  obtain ⟨c, hc1, hc2, hc3, hc4⟩ := capture_spec { s.stack with sp := s.stack.sp - 2 } (by simp; omega)
  simp only [hc1, usub, hip, if_true]
  refine ⟨⟨c, s.ep, s.ipL, s.ipO, s.bp⟩, _, _, _, rfl, rfl, ?_, rfl, ?_, ?_, ?_, ?_, by simp; omega, rfl, rfl, rfl⟩
  · exact ⟨hc2, hc3, fun i hi => hc4 i hi, rfl, ⟨rfl, rfl⟩, rfl⟩
  · simp; omega
  · simp only [push_cellAt, push_sp]
    have n1 : ¬ (s.stack.sp - 1 = s.stack.sp - 2 + 1 + 1) := by omega
    have n2 : (s.stack.sp - 1 = s.stack.sp - 2 + 1) := by omega
    simp [n1, n2]
  · simp only [push_cellAt, push_sp]
    have n1 : (s.stack.sp = s.stack.sp - 2 + 1 + 1) := by omega
    simp [← n1]
  · intro i hi
    simp only [push_cellAt, push_sp]
    have n1 : ¬ (i = s.stack.sp - 2 + 1 + 1) := by omega
    have n2 : ¬ (i = s.stack.sp - 2 + 1) := by omega
    simp only [n1, n2, if_false]
    rfl

/-- T05.2 (invocation): in **any** later state — any depth, any later evaluation, whatever the
    heap has become — calling a continuation with `n ≥ 1` arguments restores the captured stack
    prefix and registers, delivers the last argument in the accumulator, and keeps the current heap
    (so variable and data mutations made since capture stay visible). -/
theorem invoke_restores (s : St H) (c : Cont) (n : Nat) (v : VCell)
    (hcap : s.stack.sp < s.stack.cells.length) (hn : 1 ≤ n) (hsp : 2 ≤ s.stack.sp)
    (htop : s.stack.cellAt s.stack.sp = .argc n)
    (hv : s.stack.cellAt (s.stack.sp - 1) = v)
    (hlen : c.stack.cells.length ≤ s.stack.cells.length) :
    ∃ s', invokeCont s c = .ok s' ∧ s'.stack.sp = c.stack.sp ∧
      (∀ i, i < c.stack.cells.length → s'.stack.cellAt i = c.stack.cellAt i) ∧
      s'.ep = c.ep ∧ s'.ipL = c.ipL ∧ s'.ipO = c.ipO ∧ s'.bp = c.bp ∧
      s'.acc = v ∧ s'.heap = s.heap := by
  unfold invokeCont
  have hpop1 : s.stack.pop = .ok (.argc n, { s.stack with sp := s.stack.sp - 1 }) := by
    unfold Stack.pop
    have h0 : 0 < s.stack.sp := by omega
    simp only [h0, if_true]
    have : s.stack.cells[s.stack.sp]? = some (.argc n) := by
      unfold Stack.cellAt at htop
      rw [List.getElem?_eq_getElem hcap] at htop ⊢
      simpa using htop
    rw [this]
  have hpop2 : Stack.pop { s.stack with sp := s.stack.sp - 1 }
      = .ok (v, { s.stack with sp := s.stack.sp - 1 - 1 }) := by
    unfold Stack.pop
    have h0 : 0 < s.stack.sp - 1 := by omega
    simp only [h0, if_true]
    have hl : s.stack.sp - 1 < s.stack.cells.length := by omega
    have : s.stack.cells[s.stack.sp - 1]? = some v := by
      unfold Stack.cellAt at hv
      rw [List.getElem?_eq_getElem hl] at hv ⊢
      simpa using hv
    rw [this]
  have hn0 : ¬ n = 0 := by omega
  simp only [hpop1, Bind.bind, asArgc, hn0, if_false, hpop2, restoreCont, Stack.restore, hlen, if_true]
  refine ⟨_, rfl, rfl, ?_, rfl, rfl, rfl, rfl, rfl, rfl⟩
  intro i hi
  unfold Stack.cellAt
  simp [List.getElem?_append_left hi]

/-- T05.2 + T05.4 (round trip): capture now, invoke whenever — the operands that had already been
    evaluated when `call/cc` was called (everything at or below `sp₀ = sp - 2`) have the values they
    had at capture time, and `sp`, `ep`, `ip`, `bp` are those of the capture. -/
theorem capture_then_invoke (s : St H) (c : Cont) (sp0 : Nat) (hc : Captures c s sp0)
    (later : St H) (n : Nat) (v : VCell)
    (hcap : later.stack.sp < later.stack.cells.length) (hn : 1 ≤ n) (hsp : 2 ≤ later.stack.sp)
    (htop : later.stack.cellAt later.stack.sp = .argc n)
    (hv : later.stack.cellAt (later.stack.sp - 1) = v)
    (hlen : sp0 + 1 ≤ later.stack.cells.length) :
    ∃ s', invokeCont later c = .ok s' ∧ s'.stack.sp = sp0 ∧
      (∀ i, i ≤ sp0 → s'.stack.cellAt i = s.stack.cellAt i) ∧
      s'.ep = s.ep ∧ s'.ipL = s.ipL ∧ s'.ipO = s.ipO ∧ s'.bp = s.bp ∧
      s'.acc = v ∧ s'.heap = later.heap := by
  obtain ⟨s', h1, h2, h3, h4, h5, h6, h7, h8, h9⟩ :=
    invoke_restores later c n v hcap hn hsp htop hv (by rw [hc.len]; exact hlen)
  refine ⟨s', h1, by rw [h2, hc.sp], ?_, by rw [h4, hc.ep], by rw [h5, hc.ip.1], by rw [h6, hc.ip.2],
    by rw [h7, hc.bp], h8, h9⟩
  intro i hi
  rw [h3 i (by rw [hc.len]; omega), hc.cells i hi]

/-- T05.3 (a receiver that returns normally): when the receiver's frame — built by the re-executed
    CALL and ENTER on top of `sp₀`: `k, argc 1, ep, ip, bp` at `sp₀+1 … sp₀+5` — executes RET, the
    machine is in the state invoking `k` produces: `sp = sp₀`, the saved `ep`/`ip`/`bp`. With the
    returned value in `acc` in both cases, the computation continues identically; this is why
    `call/cc` whose receiver returns behaves like an ordinary call, and why `(k v)` is "as if the
    call/cc expression had just returned `v`". -/
theorem ret_of_receiver_frame (s : St H) (sp0 e l o b : Nat)
    (hbp : s.bp = sp0 + 1) (hcap : sp0 + 5 < s.stack.cells.length)
    (hargc : s.stack.cellAt (sp0 + 2) = .argc 1)
    (hep : s.stack.cellAt (sp0 + 3) = .envPtr e)
    (hip : s.stack.cellAt (sp0 + 4) = .instrPtr l o)
    (hb : s.stack.cellAt (sp0 + 5) = .basePtr b) :
    ∃ s', stepRet s = .ok s' ∧ s'.stack.sp = sp0 ∧ s'.ep = e ∧ s'.ipL = l ∧ s'.ipO = o ∧ s'.bp = b ∧
      s'.acc = s.acc ∧ s'.stack.cells = s.stack.cells ∧ s'.heap = s.heap := by
  unfold stepRet
  have g1 : s.stack.get (s.bp + 1) = .ok (.argc 1) := by
    rw [get_of_lt _ _ (by omega), hbp, hargc]
  simp only [g1, Bind.bind, asArgc, usub]
  have h1 : 1 ≤ s.bp := by omega
  simp only [h1, if_true]
  have g2 : Stack.get { s.stack with sp := s.bp - 1 } (s.bp + 2) = .ok (.envPtr e) := by
    rw [get_of_lt _ _ (by simp; omega)]
    show Outcome.ok (s.stack.cellAt (s.bp + 2)) = _
    rw [hbp, hep]
  have g3 : Stack.get { s.stack with sp := s.bp - 1 } (s.bp + 3) = .ok (.instrPtr l o) := by
    rw [get_of_lt _ _ (by simp; omega)]
    show Outcome.ok (s.stack.cellAt (s.bp + 3)) = _
    rw [hbp, hip]
  have g4 : Stack.get { s.stack with sp := s.bp - 1 } (s.bp + 4) = .ok (.basePtr b) := by
    rw [get_of_lt _ _ (by simp; omega)]
    show Outcome.ok (s.stack.cellAt (s.bp + 4)) = _
    rw [hbp, hb]
  simp only [g2, g3, g4, asEp, asIp, asBp]
  exact ⟨_, rfl, by simp; omega, rfl, rfl, rfl, rfl, rfl, rfl, rfl⟩

/-! ### non-vacuity: a concrete capture / invoke round trip -/

def demoStack : Stack :=
  { cells := [.undefined, .opaque "a", .opaque "b", .builtin 7, .argc 1, .undefined, .undefined, .undefined],
    sp := 4 }

example : ∃ c, (Stack.capture { demoStack with sp := 2 }) = .ok c ∧ c.cells.length = 3 := ⟨_, rfl, rfl⟩

example :
    (match invokeCont (H := Unit)
        { heap := (), stack := { cells := [.undefined, .void, .void, .void, .void, .opaque "v", .argc 1, .undefined], sp := 6 },
          acc := .undefined, ep := 9, ipL := 9, ipO := 9, bp := 9 }
        { stack := { cells := [.undefined, .opaque "a", .opaque "b"], sp := 2 }, ep := 1, ipL := 2, ipO := 3, bp := 0 } with
     | .ok s' => (s'.stack.sp, s'.acc, s'.stack.cells.take 3, s'.ep, s'.ipL, s'.ipO, s'.bp)
     | _ => (0, .undefined, [], 0, 0, 0, 0))
    = (2, .opaque "v", [.undefined, .opaque "a", .opaque "b"], 1, 2, 3, 0) := by decide +kernel

/-! ## T05.3 without its hypothesis (WF-stack, `Lemmas/StackWF*.lean`)

`ret_of_receiver_frame` assumed that when the receiver's frame executes RET its header still holds
what the re-executed CALL and ENTER wrote. For code the bytecode verifier accepts this is a
theorem, under the heap laws `CodeLaws`. -/

/-- at RET in a WF state the header of the returning frame is intact: after arbitrary verified code
    has run in and above the frame `D` (nested calls, tail calls, builtins, re-dispatch; no
    continuation invoked, the frame itself not returned from), the cells `bp+2 … bp+4` are `D`'s
    saved `ep`, `ip`, `bp`. -/
theorem receiver_frame_header_intact {ops : HeapOps H} (cl : CodeLaws ops) {s0 s s1 : St H} {D : FDesc}
    {R : List FDesc} (hw0 : WFS cl s0 (D :: R)) (htr : Trace ops D.base s0 s)
    (hr : readOpcode ops s = .ok (.ret, s1)) (hb : FrameBase s D.base) :
    s.stack.cellAt (s.bp + 2) = D.sep ∧ s.stack.cellAt (s.bp + 3) = D.sip ∧
      s.stack.cellAt (s.bp + 4) = .basePtr D.sbp :=
  (frame_header_intact_at_tcall cl hw0 htr hr (.inl rfl) hb).2

/-- **T05.3, closed**: `sc` is the state `call/cc` leaves (T05.1): `ip` back on the CALL, the
    continuation `k` and `argc 1` on top of the stack, the receiver — a closure — in `acc`; the
    continuation object holds `stack[0..=sp-2]`, `ep`, `bp` and `ip` = the instruction after the
    CALL. If the receiver runs any verified code and then returns normally (its frame executes RET),
    the machine is in the register state invoking `k` produces (T05.2): `sp = sp-2`, the captured
    `ep`, `ip`, `bp`. No assumption about the frame header. -/
theorem receiver_return_is_invocation {ops : HeapOps H} (cl : CodeLaws ops) {sc sc1 s0 s s1 s' : St H}
    {K : List FDesc} {lam env : Nat} (hw : WFS cl sc K)
    (hrc : readOpcode ops sc = .ok (.callAcc, sc1))
    (hc : ops.callee sc.heap sc.acc = .closure lam env)
    (htop : sc.stack.cellAt sc.stack.sp = .argc 1)
    (hcall : step ops sc = .ok (s0, false))
    (htr : Trace ops (sc.stack.sp - 1) s0 s)
    (hr : readOpcode ops s = .ok (.ret, s1)) (hb : FrameBase s (sc.stack.sp - 1))
    (hs : step ops s = .ok (s', false)) :
    s'.stack.sp + 2 = sc.stack.sp ∧ s'.ep = sc.ep ∧ s'.ipL = sc.ipL ∧ s'.ipO = sc.ipO + 1 ∧
      s'.bp = sc.bp ∧ s'.stack.cells = s.stack.cells := by
  obtain ⟨m, hm, hw0⟩ := call_closure_desc hw hrc hc hcall
  rw [htop] at hm
  cases hm
  obtain ⟨hsp2, _⟩ : 2 ≤ sc.stack.sp ∧ True := by
    obtain ⟨t, st, ai, _⟩ := hw.instr hrc
    have chk := ai.chk
    cases st <;> simp only [Verify.checkOp] at chk <;> try (exact absurd chk Bool.false_ne_true)
    obtain ⟨m, h1, h2, _⟩ := ai.call_block
    rw [htop] at h1; cases h1
    exact ⟨h2, trivial⟩
  obtain ⟨h2, h3, h4⟩ := receiver_frame_header_intact cl (D := ⟨sc.stack.sp - 1, _, _, _⟩) hw0 htr hr hb
  simp only at h2 h3 h4
  have e1 := (readOpcode_ok hr).2
  unfold step at hs
  rw [hr] at hs
  simp only [outcome_bind_ok] at hs
  obtain ⟨s2, he, hs⟩ := bind_inv hs
  cases hs
  subst e1
  obtain ⟨n, ep, l, o, bp', r1, r2, r3, r4, r5, r6⟩ := stepRet_ok he
  simp only at r1 r2 r3 r4 r5 r6
  rw [h2] at r2; rw [h3] at r3; rw [h4] at r4
  cases r2; cases r3; cases r4
  obtain ⟨n2, hA2, hn2, hbase⟩ := hb
  rw [r1] at hA2; cases hA2
  subst r6
  refine ⟨?_, rfl, rfl, rfl, rfl, rfl⟩
  show s.bp - n + 2 = sc.stack.sp
  omega

/-- the hypotheses of `ret_of_receiver_frame`, as a theorem, when the receiver's frame still has
    its one argument -/
theorem ret_of_receiver_frame_verified {ops : HeapOps H} (cl : CodeLaws ops) {sc sc1 s0 s s1 : St H}
    {K : List FDesc} {lam env : Nat} (hw : WFS cl sc K)
    (hrc : readOpcode ops sc = .ok (.callAcc, sc1))
    (hc : ops.callee sc.heap sc.acc = .closure lam env)
    (htop : sc.stack.cellAt sc.stack.sp = .argc 1) (hsp : 2 ≤ sc.stack.sp)
    (hcall : step ops sc = .ok (s0, false))
    (htr : Trace ops (sc.stack.sp - 1) s0 s)
    (hr : readOpcode ops s = .ok (.ret, s1))
    (hbp : s.bp = sc.stack.sp - 2 + 1) (hargc : s.stack.cellAt (sc.stack.sp - 2 + 2) = .argc 1) :
    ∃ s', stepRet s = .ok s' ∧ s'.stack.sp = sc.stack.sp - 2 ∧ s'.ep = sc.ep ∧ s'.ipL = sc.ipL ∧
      s'.ipO = sc.ipO + 1 ∧ s'.bp = sc.bp ∧ s'.acc = s.acc ∧ s'.stack.cells = s.stack.cells ∧
      s'.heap = s.heap := by
  obtain ⟨m, hm, hw0⟩ := call_closure_desc hw hrc hc hcall
  rw [htop] at hm
  cases hm
  have hb : FrameBase s (sc.stack.sp - 1) :=
    ⟨1, by rw [hbp]; exact hargc, by omega, by omega⟩
  obtain ⟨P', hw'⟩ := htr.stable (cl := cl) [] ⟨sc.stack.sp - 1, _, _, _⟩ K rfl hw0
  have hcap := hw'.wf.cap
  have htop' : sc.stack.sp - 2 + 5 ≤ s.stack.sp := by
    have := hw'.wf.frames
    obtain ⟨t, st, ai, _⟩ := hw'.instr hr
    have chk := ai.chk
    cases st <;> simp only [Verify.checkOp] at chk <;> try (exact absurd chk Bool.false_ne_true)
    have hent : t.entry = false := by simpa using chk
    obtain ⟨_, _, _, _, _, _, hm, _⟩ := this.inv_frame ai.ht hent ai.hst (by simp)
    have := hm.lo_le
    omega
  obtain ⟨h2, h3, h4⟩ := receiver_frame_header_intact cl (D := ⟨sc.stack.sp - 1, _, _, _⟩) hw0 htr hr hb
  simp only at h2 h3 h4
  exact ret_of_receiver_frame s (sc.stack.sp - 2) sc.ep sc.ipL (sc.ipO + 1) sc.bp hbp (by omega) hargc
    (by have e : sc.stack.sp - 2 + 3 = s.bp + 2 := by omega
        rw [e]; exact h2)
    (by have e : sc.stack.sp - 2 + 4 = s.bp + 3 := by omega
        rw [e]; exact h3)
    (by have e : sc.stack.sp - 2 + 5 = s.bp + 4 := by omega
        rw [e]; exact h4)

/-! ### non-vacuity: entry code `PUSHIMM v; PUSHIMM argc1; MOVIMM c6 acc; CALL; HALT` — the stack
`call/cc` leaves for its receiver — with the receiver `c6 = closure of (ENTER; MOVIMM void acc; RET)`
(`Lemmas/StackWFToy.lean`): every hypothesis of `receiver_return_is_invocation` holds -/

section
open Marwood.Vm.Toy

example : ∃ K, WFS Toy.laws (nthR 3) K ∧
    readOpcode Toy.ops (nthR 3) = .ok (.callAcc, { nthR 3 with ipO := 8 }) ∧
    Toy.ops.callee (nthR 3).heap (nthR 3).acc = .closure 8 0 ∧
    (nthR 3).stack.cellAt (nthR 3).stack.sp = .argc 1 ∧
    step Toy.ops (nthR 3) = .ok (nthR 4, false) ∧
    Trace Toy.ops ((nthR 3).stack.sp - 1) (nthR 4) (nthR 6) ∧
    readOpcode Toy.ops (nthR 6) = .ok (.ret, { nthR 6 with ipO := 5 }) ∧
    FrameBase (nthR 6) ((nthR 3).stack.sp - 1) ∧
    step Toy.ops (nthR 6) = .ok (nthR 7, false) ∧
    (nthR 7).stack.sp + 2 = (nthR 3).stack.sp := by
  obtain ⟨K, hw⟩ := runK_wf 3 (prepare Toy.idle 7) (nthR 3) [] Toy.wf_start7 (by rfl)
  refine ⟨K, hw, by rfl, by rfl, by rfl, by rfl, ?_, by rfl, ⟨1, by rfl, by decide, by rfl⟩, by rfl, by rfl⟩
  exact .cons (toy_no_cont _) (s1 := nthR 5) (by rfl) (by decide)
    (.cons (toy_no_cont _) (s1 := nthR 6) (by rfl) (by decide) (.nil _))

end

/-! ## What is missing for the language-level statement (work package "scope refinement", C05 stretch)

The property says: invoking a continuation `k` with `v` — from anywhere, any number of times —
continues the computation *as if the original `call/cc` expression had just returned `v`*. The
theorems above are about machine states. A statement over a source-level semantics needs the
following pieces; (S) exist in spirit, (M) are the missing lemmas, in dependency order.

(S1) A CPS-style definitional semantics for the scope-skeleton language of C02
     (`Marwood.Scope.Expr`, interpreter `Marwood.Spec.Scope`) extended by `callcc (f : Expr)`:
     `evalK : Nat → Chain → Expr → Kont → M Val` with a defunctionalised continuation
     `Kont = List KFrame`, `KFrame ::= args (done : List Val) (todo : Exprs) (fn : Expr) ρ
     | fn (vs : List Val) ρ | body (rest : Exprs) ρ | defs x (rest : Defs) (body : Exprs) ρ
     | set site x ρ | loop … | each …`, a value `Val.cont (κ : Kont)`, and the two clauses
     `evalK ρ (callcc f) κ = evalK ρ f (fn-frame applying the result to [cont κ] :: κ)` and
     `applyK (cont κ') [v] κ = resume κ' v` (κ is dropped). In this semantics the property is the
     definition: `k v` *is* `resume κ v`, and a receiver that returns `v` normally also reaches
     `resume κ v`. For `callcc`-free terms `evalK ρ e [] = Spec.Scope.eval ρ e` (adequacy, routine).
(S2) `refinement_partial` (Proofs/C02.lean): variables of the model evaluator and of the scope-chain
     interpreter agree; its simulation relation (`β`, `StRel`, `ActRel`) is what the heap part of the
     relation below has to be.

(M1) `KRep κ s` — "machine state `s` (stack cells `0..=sp`, `ep`, `bp`, `ip`) represents the
     continuation `κ`" — by recursion on `κ` over the frame layout of `Vm.Compile`: an `args`
     frame is the block of already evaluated operands on the stack, a `fn`/`body`/`defs` frame is a
     return header `argc, ep, ip, bp` (the five cells `ret_of_receiver_frame` reads) whose `ip`
     points behind the `CALL` in the compiled code of the enclosing expression and whose `ep` is an
     activation environment related (`ActRel`) to the frame's chain `ρ`.
     Missing lemma `KRep_ext`: `KRep κ s` depends only on `stack[0..=s.sp]`, `ep`, `bp`, `ip` and the
     heap relation; it is stable along `Evolves` / `Ext` (T02.3 `location_survives`) and under a
     collection (C03: a continuation reachable from the roots keeps `ip.0`, `ep` and the referents
     of its stack copy alive — T05.5).
(M2) `step_frame` (the machine does not look above `sp`): two states that agree on `acc`, `ep`,
     `bp`, `ip`, heap and on the stack cells `≤ sp` take the same step and agree again in that
     sense. This turns "`capture_then_invoke` and `ret_of_receiver_frame_verified` reach states with
     the same `sp₀`, `ep`, `ip`, `bp`, `acc = v`" into "the rest of the run is the same"; today this
     is an informal sentence in the note of `ret_of_receiver_frame`.
(M3) `prefix_unwritten`: along a `Trace` of the receiver (as in `receiver_return_is_invocation`) no
     cell `≤ sp₀` is written, so at the receiver's `RET` the live prefix equals the captured one
     (`lib/props/c05.py` lists this as not separately proved). Follows from WF-stack preservation
     (`step_preserves`) plus a write-set lemma per instruction (`PUSH`, `MOV` to a stack operand,
     `ENTER`, `CALL`'s frame construction write only at indices `> bp` of the current frame).
(M4) `compile_callcc_site`: for the operand code `Vm.Compile` emits for `(call/cc f)` at a position
     with continuation `κ`: if `KRep κ s` holds with `sp₀ = s.sp - 2` when `builtinCallcc` runs, the
     continuation object `c` of `callcc_captures` satisfies `ContRep κ c` (:= `KRep κ` of the state
     `invoke_restores` rebuilds from `c`), using `Captures c s sp₀` and `KRep_ext`.
(M5) `compile_simulates` (one step of compiler correctness, the stage-2/3 ingredient of T01.3): if the
     code at `ip` is the compilation of `e` in a context related to `ρ`, and `KRep κ s`, then the
     machine run from `s` and `evalK ρ e κ` reach related outcomes; the `callcc` case is (M4) + the
     re-executed `CALL` of `callcc_captures`, the application of a `cont` value is
     `capture_then_invoke` + (M1) + (M2), a normally returning receiver is
     `ret_of_receiver_frame_verified` + (M3) + (M2); all other cases are the C02 simulation
     (`Lemmas/EnvRefineStep*.lean`) re-done on the instruction level instead of on `Vm.EnvRun`.

With (M1)–(M5) the language-level theorem for ONE `call/cc` site reads: for every program `P` of
the extended skeleton language, `run (compile P)` on the machine and `evalK` agree on the printed
outcomes and the read / write log, hence escape (`k` invoked inside the receiver's extent),
re-entry (`k` invoked after the receiver returned) and a stored `k` invoked from a later top-level
form all continue with `resume κ v`. None of (M1)–(M5) is proved; (M2) and (M3) are the cheapest
(statements about `Vm.step` only) and would already close the gap the note of `lib/props/c05.py`
names ("that the stack cells below the receiver's frame are unchanged at return time is not
separately proved"). -/

end Marwood.Proofs.C05
