import Marwood.Lemmas.Stack
import Marwood.Proofs.C04
import Marwood.Lemmas.StackWFToy
import Marwood.Lemmas.ContResumeToy
import Marwood.Lemmas.ContResumeCompile
import Marwood.Lemmas.ContResumeCap
import Marwood.Lemmas.StackWFBpLive
import Marwood.Lemmas.ContResumeMachine
import Marwood.Proofs.C13
import Marwood.Lemmas.EvalKReentry
import Marwood.Lemmas.EvalKAgreeTop
/-!
# C05 — first-class continuations: capture, invocation, re-entry

Theorems about `builtinCallcc` (builtin/procedure.rs call_cc), `invokeCont` (the Continuation arm of
CALL/TCALL in run.rs), `Stack.capture` / `Stack.restore` (stack.rs) and `stepRet`, for every heap
and every machine state; the model is tied to run.rs by lock-step replay.
-/
namespace Marwood.Proofs.C05
open Marwood.Vm Marwood.Vm.Stack Marwood.Proofs.C04

variable {H : Type}

/-- the machine state a continuation stands for -/
structure Captures (c : Cont) (s : St H) (sp0 : Nat) : Prop where
  sp : c.stack.sp = sp0
  len : c.stack.cells.length = sp0 + 1
  cells : ∀ i, i ≤ sp0 → c.stack.cellAt i = s.stack.cellAt i
  ep : c.ep = s.ep
  ip : c.ipL = s.ipL ∧ c.ipO = s.ipO
  bp : c.bp = s.bp

theorem capture_spec (st : Stack) (h : st.sp < st.cells.length) :
    ∃ c, st.capture = .ok c ∧ c.sp = st.sp ∧ c.cells.length = st.sp + 1 ∧
      ∀ i, i ≤ st.sp → c.cellAt i = st.cellAt i := by
  unfold Stack.capture
  have : st.sp + 1 ≤ st.cells.length := by omega
  simp only [this, if_true]
  refine ⟨_, rfl, rfl, by simp; omega, ?_⟩
  intro i hi
  unfold Stack.cellAt
  simp only [List.getElem?_take]
  have : i < st.sp + 1 := by omega
  simp [this]

/-- T05.1 (capture): when `call/cc` runs — reached through CALL or TCALL with the receiver and
    `argc 1` on top of the stack, `ip` already past the calling instruction — the continuation
    object it creates holds exactly the stack below the two operands (`stack[0..=sp-2]`), the current
    `ep`, `bp`, and `ip` = the instruction after the call; the receiver is then called with the
    continuation as its single argument by re-executing the same CALL/TCALL. -/
theorem callcc_captures (ops : HeapOps H) (s : St H) (proc : VCell)
    (hcap : s.stack.sp < s.stack.cells.length) (hsp : 2 ≤ s.stack.sp)
    (htop : s.stack.cellAt s.stack.sp = .argc 1)
    (hproc : s.stack.cellAt (s.stack.sp - 1) = proc)
    (hp : ops.isProcedure s.heap (ops.deref s.heap proc) = true) (hip : 1 ≤ s.ipO) :
    ∃ c s' h k, ops.newCont s.heap c = (h, k) ∧ builtinCallcc ops s = .ok (s', proc) ∧
      Captures c s (s.stack.sp - 2) ∧
      s'.heap = h ∧ s'.stack.sp = s.stack.sp ∧
      s'.stack.cellAt (s.stack.sp - 1) = k ∧ s'.stack.cellAt s.stack.sp = .argc 1 ∧
      (∀ i, i + 2 ≤ s.stack.sp → s'.stack.cellAt i = s.stack.cellAt i) ∧
      s'.ipO + 1 = s.ipO ∧ s'.ipL = s.ipL ∧ s'.ep = s.ep ∧ s'.bp = s.bp := by
  unfold builtinCallcc
  have hpop1 : s.stack.pop = .ok (.argc 1, { s.stack with sp := s.stack.sp - 1 }) := by
    unfold Stack.pop
    have h0 : 0 < s.stack.sp := by omega
    simp only [h0, if_true]
    have : s.stack.cells[s.stack.sp]? = some (.argc 1) := by
      unfold Stack.cellAt at htop
      rw [List.getElem?_eq_getElem hcap] at htop ⊢
      simpa using htop
    rw [this]
  have hpop2 : Stack.pop { s.stack with sp := s.stack.sp - 1 }
      = .ok (proc, { s.stack with sp := s.stack.sp - 2 }) := by
    unfold Stack.pop
    have h0 : 0 < s.stack.sp - 1 := by omega
    simp only [h0, if_true]
    have hl : s.stack.sp - 1 < s.stack.cells.length := by omega
    have : s.stack.cells[s.stack.sp - 1]? = some proc := by
      unfold Stack.cellAt at hproc
      rw [List.getElem?_eq_getElem hl] at hproc ⊢
      simpa using hproc
    rw [this]
    have e : s.stack.sp - 1 - 1 = s.stack.sp - 2 := by omega
    simp [e]
  simp only [hpop1, Bind.bind, asArgc, ne_eq, not_true_eq_false, if_false, hpop2, hp,
    Bool.not_true, Bool.false_eq_true]
  obtain ⟨c, hc1, hc2, hc3, hc4⟩ := capture_spec { s.stack with sp := s.stack.sp - 2 } (by simp; omega)
  simp only [hc1, usub, hip, if_true]
  refine ⟨⟨c, s.ep, s.ipL, s.ipO, s.bp⟩, _, _, _, rfl, rfl, ?_, rfl, ?_, ?_, ?_, ?_, by simp; omega, rfl, rfl, rfl⟩
  · exact ⟨hc2, hc3, fun i hi => hc4 i hi, rfl, ⟨rfl, rfl⟩, rfl⟩
  · simp; omega
  · simp only [push_cellAt, push_sp]
    have n1 : ¬ (s.stack.sp - 1 = s.stack.sp - 2 + 1 + 1) := by omega
    have n2 : (s.stack.sp - 1 = s.stack.sp - 2 + 1) := by omega
    simp [n1, n2]
  · simp only [push_cellAt, push_sp]
    have n1 : (s.stack.sp = s.stack.sp - 2 + 1 + 1) := by omega
    simp [← n1]
  · intro i hi
    simp only [push_cellAt, push_sp]
    have n1 : ¬ (i = s.stack.sp - 2 + 1 + 1) := by omega
    have n2 : ¬ (i = s.stack.sp - 2 + 1) := by omega
    simp only [n1, n2, if_false]
    rfl

/-- T05.2 (invocation): in **any** later state — any depth, any later evaluation, whatever the
    heap has become — calling a continuation with `n ≥ 1` arguments restores the captured stack
    prefix and registers, delivers the last argument in the accumulator, and keeps the current heap
    (so variable and data mutations made since capture stay visible). -/
theorem invoke_restores (s : St H) (c : Cont) (n : Nat) (v : VCell)
    (hcap : s.stack.sp < s.stack.cells.length) (hn : 1 ≤ n) (hsp : 2 ≤ s.stack.sp)
    (htop : s.stack.cellAt s.stack.sp = .argc n)
    (hv : s.stack.cellAt (s.stack.sp - 1) = v)
    (hlen : c.stack.cells.length ≤ s.stack.cells.length) :
    ∃ s', invokeCont s c = .ok s' ∧ s'.stack.sp = c.stack.sp ∧
      (∀ i, i < c.stack.cells.length → s'.stack.cellAt i = c.stack.cellAt i) ∧
      s'.ep = c.ep ∧ s'.ipL = c.ipL ∧ s'.ipO = c.ipO ∧ s'.bp = c.bp ∧
      s'.acc = v ∧ s'.heap = s.heap := by
  unfold invokeCont
  have hpop1 : s.stack.pop = .ok (.argc n, { s.stack with sp := s.stack.sp - 1 }) := by
    unfold Stack.pop
    have h0 : 0 < s.stack.sp := by omega
    simp only [h0, if_true]
    have : s.stack.cells[s.stack.sp]? = some (.argc n) := by
      unfold Stack.cellAt at htop
      rw [List.getElem?_eq_getElem hcap] at htop ⊢
      simpa using htop
    rw [this]
  have hpop2 : Stack.pop { s.stack with sp := s.stack.sp - 1 }
      = .ok (v, { s.stack with sp := s.stack.sp - 1 - 1 }) := by
    unfold Stack.pop
    have h0 : 0 < s.stack.sp - 1 := by omega
    simp only [h0, if_true]
    have hl : s.stack.sp - 1 < s.stack.cells.length := by omega
    have : s.stack.cells[s.stack.sp - 1]? = some v := by
      unfold Stack.cellAt at hv
      rw [List.getElem?_eq_getElem hl] at hv ⊢
      simpa using hv
    rw [this]
  have hn0 : ¬ n = 0 := by omega
  simp only [hpop1, Bind.bind, asArgc, hn0, if_false, hpop2, restoreCont, Stack.restore, hlen, if_true]
  refine ⟨_, rfl, rfl, ?_, rfl, rfl, rfl, rfl, rfl, rfl⟩
  intro i hi
  unfold Stack.cellAt
  simp [List.getElem?_append_left hi]

/-- T05.2 + T05.4 (round trip): capture now, invoke whenever — the operands that had already been
    evaluated when `call/cc` was called (everything at or below `sp₀ = sp - 2`) have the values they
    had at capture time, and `sp`, `ep`, `ip`, `bp` are those of the capture. -/
theorem capture_then_invoke (s : St H) (c : Cont) (sp0 : Nat) (hc : Captures c s sp0)
    (later : St H) (n : Nat) (v : VCell)
    (hcap : later.stack.sp < later.stack.cells.length) (hn : 1 ≤ n) (hsp : 2 ≤ later.stack.sp)
    (htop : later.stack.cellAt later.stack.sp = .argc n)
    (hv : later.stack.cellAt (later.stack.sp - 1) = v)
    (hlen : sp0 + 1 ≤ later.stack.cells.length) :
    ∃ s', invokeCont later c = .ok s' ∧ s'.stack.sp = sp0 ∧
      (∀ i, i ≤ sp0 → s'.stack.cellAt i = s.stack.cellAt i) ∧
      s'.ep = s.ep ∧ s'.ipL = s.ipL ∧ s'.ipO = s.ipO ∧ s'.bp = s.bp ∧
      s'.acc = v ∧ s'.heap = later.heap := by
  obtain ⟨s', h1, h2, h3, h4, h5, h6, h7, h8, h9⟩ :=
    invoke_restores later c n v hcap hn hsp htop hv (by rw [hc.len]; exact hlen)
  refine ⟨s', h1, by rw [h2, hc.sp], ?_, by rw [h4, hc.ep], by rw [h5, hc.ip.1], by rw [h6, hc.ip.2],
    by rw [h7, hc.bp], h8, h9⟩
  intro i hi
  rw [h3 i (by rw [hc.len]; omega), hc.cells i hi]

/-- T05.3 (a receiver that returns normally): when the receiver's frame — built by the re-executed
    CALL and ENTER on top of `sp₀`: `k, argc 1, ep, ip, bp` at `sp₀+1 … sp₀+5` — executes RET, the
    machine is in the state invoking `k` produces: `sp = sp₀`, the saved `ep`/`ip`/`bp`. With the
    returned value in `acc` in both cases, the computation continues identically; this is why
    `call/cc` whose receiver returns behaves like an ordinary call, and why `(k v)` is "as if the
    call/cc expression had just returned `v`". -/
theorem ret_of_receiver_frame (s : St H) (sp0 e l o b : Nat)
    (hbp : s.bp = sp0 + 1) (hcap : sp0 + 5 < s.stack.cells.length)
    (hargc : s.stack.cellAt (sp0 + 2) = .argc 1)
    (hep : s.stack.cellAt (sp0 + 3) = .envPtr e)
    (hip : s.stack.cellAt (sp0 + 4) = .instrPtr l o)
    (hb : s.stack.cellAt (sp0 + 5) = .basePtr b) :
    ∃ s', stepRet s = .ok s' ∧ s'.stack.sp = sp0 ∧ s'.ep = e ∧ s'.ipL = l ∧ s'.ipO = o ∧ s'.bp = b ∧
      s'.acc = s.acc ∧ s'.stack.cells = s.stack.cells ∧ s'.heap = s.heap := by
  unfold stepRet
  have g1 : s.stack.get (s.bp + 1) = .ok (.argc 1) := by
    rw [get_of_lt _ _ (by omega), hbp, hargc]
  simp only [g1, Bind.bind, asArgc, usub]
  have h1 : 1 ≤ s.bp := by omega
  simp only [h1, if_true]
  have g2 : Stack.get { s.stack with sp := s.bp - 1 } (s.bp + 2) = .ok (.envPtr e) := by
    rw [get_of_lt _ _ (by simp; omega)]
    show Outcome.ok (s.stack.cellAt (s.bp + 2)) = _
    rw [hbp, hep]
  have g3 : Stack.get { s.stack with sp := s.bp - 1 } (s.bp + 3) = .ok (.instrPtr l o) := by
    rw [get_of_lt _ _ (by simp; omega)]
    show Outcome.ok (s.stack.cellAt (s.bp + 3)) = _
    rw [hbp, hip]
  have g4 : Stack.get { s.stack with sp := s.bp - 1 } (s.bp + 4) = .ok (.basePtr b) := by
    rw [get_of_lt _ _ (by simp; omega)]
    show Outcome.ok (s.stack.cellAt (s.bp + 4)) = _
    rw [hbp, hb]
  simp only [g2, g3, g4, asEp, asIp, asBp]
  exact ⟨_, rfl, by simp; omega, rfl, rfl, rfl, rfl, rfl, rfl, rfl⟩

/-! ### non-vacuity: a concrete capture / invoke round trip -/

def demoStack : Stack :=
  { cells := [.undefined, .opaque "a", .opaque "b", .builtin 7, .argc 1, .undefined, .undefined, .undefined],
    sp := 4 }

example : ∃ c, (Stack.capture { demoStack with sp := 2 }) = .ok c ∧ c.cells.length = 3 := ⟨_, rfl, rfl⟩

example :
    (match invokeCont (H := Unit)
        { heap := (), stack := { cells := [.undefined, .void, .void, .void, .void, .opaque "v", .argc 1, .undefined], sp := 6 },
          acc := .undefined, ep := 9, ipL := 9, ipO := 9, bp := 9 }
        { stack := { cells := [.undefined, .opaque "a", .opaque "b"], sp := 2 }, ep := 1, ipL := 2, ipO := 3, bp := 0 } with
     | .ok s' => (s'.stack.sp, s'.acc, s'.stack.cells.take 3, s'.ep, s'.ipL, s'.ipO, s'.bp)
     | _ => (0, .undefined, [], 0, 0, 0, 0))
    = (2, .opaque "v", [.undefined, .opaque "a", .opaque "b"], 1, 2, 3, 0) := by decide +kernel

/-! ## T05.3 without its hypothesis (WF-stack, `Lemmas/StackWF*.lean`)

`ret_of_receiver_frame` assumed that when the receiver's frame executes RET its header still holds
what the re-executed CALL and ENTER wrote. For code the bytecode verifier accepts this is a
theorem, under the heap laws `CodeLaws`. -/

/-- at RET in a WF state the header of the returning frame is intact: after arbitrary verified code
    has run in and above the frame `D` (nested calls, tail calls, builtins, re-dispatch; no
    continuation invoked, the frame itself not returned from), the cells `bp+2 … bp+4` are `D`'s
    saved `ep`, `ip`, `bp`. -/
theorem receiver_frame_header_intact {ops : HeapOps H} (cl : CodeLaws ops) {s0 s s1 : St H} {D : FDesc}
    {R : List FDesc} (hw0 : WFS cl s0 (D :: R)) (htr : Trace ops D.base s0 s)
    (hr : readOpcode ops s = .ok (.ret, s1)) (hb : FrameBase s D.base) :
    s.stack.cellAt (s.bp + 2) = D.sep ∧ s.stack.cellAt (s.bp + 3) = D.sip ∧
      s.stack.cellAt (s.bp + 4) = .basePtr D.sbp :=
  (frame_header_intact_at_tcall cl hw0 htr hr (.inl rfl) hb).2

/-- **T05.3, closed**: `sc` is the state `call/cc` leaves (T05.1): `ip` back on the CALL, the
    continuation `k` and `argc 1` on top of the stack, the receiver — a closure — in `acc`; the
    continuation object holds `stack[0..=sp-2]`, `ep`, `bp` and `ip` = the instruction after the
    CALL. If the receiver runs any verified code and then returns normally (its frame executes RET),
    the machine is in the register state invoking `k` produces (T05.2): `sp = sp-2`, the captured
    `ep`, `ip`, `bp`. No assumption about the frame header. -/
theorem receiver_return_is_invocation {ops : HeapOps H} (cl : CodeLaws ops) {sc sc1 s0 s s1 s' : St H}
    {K : List FDesc} {lam env : Nat} (hw : WFS cl sc K)
    (hrc : readOpcode ops sc = .ok (.callAcc, sc1))
    (hc : ops.callee sc.heap sc.acc = .closure lam env)
    (htop : sc.stack.cellAt sc.stack.sp = .argc 1)
    (hcall : step ops sc = .ok (s0, false))
    (htr : Trace ops (sc.stack.sp - 1) s0 s)
    (hr : readOpcode ops s = .ok (.ret, s1)) (hb : FrameBase s (sc.stack.sp - 1))
    (hs : step ops s = .ok (s', false)) :
    s'.stack.sp + 2 = sc.stack.sp ∧ s'.ep = sc.ep ∧ s'.ipL = sc.ipL ∧ s'.ipO = sc.ipO + 1 ∧
      s'.bp = sc.bp ∧ s'.stack.cells = s.stack.cells := by
  obtain ⟨m, hm, hw0⟩ := call_closure_desc hw hrc hc hcall
  rw [htop] at hm
  cases hm
  obtain ⟨hsp2, _⟩ : 2 ≤ sc.stack.sp ∧ True := by
    obtain ⟨t, st, ai, _⟩ := hw.instr hrc
    have chk := ai.chk
    cases st <;> simp only [Verify.checkOp] at chk <;> try (exact absurd chk Bool.false_ne_true)
    obtain ⟨m, h1, h2, _⟩ := ai.call_block
    rw [htop] at h1; cases h1
    exact ⟨h2, trivial⟩
  obtain ⟨h2, h3, h4⟩ := receiver_frame_header_intact cl (D := ⟨sc.stack.sp - 1, _, _, _⟩) hw0 htr hr hb
  simp only at h2 h3 h4
  have e1 := (readOpcode_ok hr).2
  unfold step at hs
  rw [hr] at hs
  simp only [outcome_bind_ok] at hs
  obtain ⟨s2, he, hs⟩ := bind_inv hs
  cases hs
  subst e1
  obtain ⟨n, ep, l, o, bp', r1, r2, r3, r4, r5, r6⟩ := stepRet_ok he
  simp only at r1 r2 r3 r4 r5 r6
  rw [h2] at r2; rw [h3] at r3; rw [h4] at r4
  cases r2; cases r3; cases r4
  obtain ⟨n2, hA2, hn2, hbase⟩ := hb
  rw [r1] at hA2; cases hA2
  subst r6
  refine ⟨?_, rfl, rfl, rfl, rfl, rfl⟩
  show s.bp - n + 2 = sc.stack.sp
  omega

/-- the hypotheses of `ret_of_receiver_frame`, as a theorem, when the receiver's frame still has
    its one argument -/
theorem ret_of_receiver_frame_verified {ops : HeapOps H} (cl : CodeLaws ops) {sc sc1 s0 s s1 : St H}
    {K : List FDesc} {lam env : Nat} (hw : WFS cl sc K)
    (hrc : readOpcode ops sc = .ok (.callAcc, sc1))
    (hc : ops.callee sc.heap sc.acc = .closure lam env)
    (htop : sc.stack.cellAt sc.stack.sp = .argc 1) (hsp : 2 ≤ sc.stack.sp)
    (hcall : step ops sc = .ok (s0, false))
    (htr : Trace ops (sc.stack.sp - 1) s0 s)
    (hr : readOpcode ops s = .ok (.ret, s1))
    (hbp : s.bp = sc.stack.sp - 2 + 1) (hargc : s.stack.cellAt (sc.stack.sp - 2 + 2) = .argc 1) :
    ∃ s', stepRet s = .ok s' ∧ s'.stack.sp = sc.stack.sp - 2 ∧ s'.ep = sc.ep ∧ s'.ipL = sc.ipL ∧
      s'.ipO = sc.ipO + 1 ∧ s'.bp = sc.bp ∧ s'.acc = s.acc ∧ s'.stack.cells = s.stack.cells ∧
      s'.heap = s.heap := by
  obtain ⟨m, hm, hw0⟩ := call_closure_desc hw hrc hc hcall
  rw [htop] at hm
  cases hm
  have hb : FrameBase s (sc.stack.sp - 1) :=
    ⟨1, by rw [hbp]; exact hargc, by omega, by omega⟩
  obtain ⟨P', hw'⟩ := htr.stable (cl := cl) [] ⟨sc.stack.sp - 1, _, _, _⟩ K rfl hw0
  have hcap := hw'.wf.cap
  have htop' : sc.stack.sp - 2 + 5 ≤ s.stack.sp := by
    have := hw'.wf.frames
    obtain ⟨t, st, ai, _⟩ := hw'.instr hr
    have chk := ai.chk
    cases st <;> simp only [Verify.checkOp] at chk <;> try (exact absurd chk Bool.false_ne_true)
    have hent : t.entry = false := by simpa using chk
    obtain ⟨_, _, _, _, _, _, hm, _⟩ := this.inv_frame ai.ht hent ai.hst (by simp)
    have := hm.lo_le
    omega
  obtain ⟨h2, h3, h4⟩ := receiver_frame_header_intact cl (D := ⟨sc.stack.sp - 1, _, _, _⟩) hw0 htr hr hb
  simp only at h2 h3 h4
  exact ret_of_receiver_frame s (sc.stack.sp - 2) sc.ep sc.ipL (sc.ipO + 1) sc.bp hbp (by omega) hargc
    (by have e : sc.stack.sp - 2 + 3 = s.bp + 2 := by omega
        rw [e]; exact h2)
    (by have e : sc.stack.sp - 2 + 4 = s.bp + 3 := by omega
        rw [e]; exact h3)
    (by have e : sc.stack.sp - 2 + 5 = s.bp + 4 := by omega
        rw [e]; exact h4)

/-! ### non-vacuity: entry code `PUSHIMM v; PUSHIMM argc1; MOVIMM c6 acc; CALL; HALT` — the stack
`call/cc` leaves for its receiver — with the receiver `c6 = closure of (ENTER; MOVIMM void acc; RET)`
(`Lemmas/StackWFToy.lean`): every hypothesis of `receiver_return_is_invocation` holds -/

section
open Marwood.Vm.Toy

example : ∃ K, WFS Toy.laws (nthR 3) K ∧
    readOpcode Toy.ops (nthR 3) = .ok (.callAcc, { nthR 3 with ipO := 8 }) ∧
    Toy.ops.callee (nthR 3).heap (nthR 3).acc = .closure 8 0 ∧
    (nthR 3).stack.cellAt (nthR 3).stack.sp = .argc 1 ∧
    step Toy.ops (nthR 3) = .ok (nthR 4, false) ∧
    Trace Toy.ops ((nthR 3).stack.sp - 1) (nthR 4) (nthR 6) ∧
    readOpcode Toy.ops (nthR 6) = .ok (.ret, { nthR 6 with ipO := 5 }) ∧
    FrameBase (nthR 6) ((nthR 3).stack.sp - 1) ∧
    step Toy.ops (nthR 6) = .ok (nthR 7, false) ∧
    (nthR 7).stack.sp + 2 = (nthR 3).stack.sp := by
  obtain ⟨K, hw⟩ := runK_wf 3 (prepare Toy.idle 7) (nthR 3) [] Toy.wf_start7 (by rfl)
  refine ⟨K, hw, by rfl, by rfl, by rfl, by rfl, ?_, by rfl, ⟨1, by rfl, by decide, by rfl⟩, by rfl, by rfl⟩
  exact .cons (toy_no_cont _) (s1 := nthR 5) (by rfl) (by decide)
    (.cons (toy_no_cont _) (s1 := nthR 6) (by rfl) (by decide) (.nil _))

end

/-! ## The captured prefix is still the live prefix when the receiver returns (`prefix_unwritten`)

`Lemmas/ContResumeWrite.lean`: `step_below` is the write set of one instruction relative to the WF
frame chain; `Trace.prefix_unwritten` lifts it to executions. -/

/-- **the frame property of WF executions**: along a `Trace` from `s` to `s'` during which the frame
    `D` stays on the ghost frame list — any verified code runs in and above it: nested calls and
    returns, tail calls (which rewrite the *current* frame only), VARARG, `apply` / `eval` /
    `call/cc` re-dispatch, stack growth; no continuation invoked — the stack below `D.base` is
    untouched. -/
theorem prefix_unwritten {ops : HeapOps H} (cl : CodeLaws ops) {s s' : St H} {P R : List FDesc} {D : FDesc}
    (hw : WFS cl s (P ++ D :: R)) (htr : Trace ops D.base s s') :
    s'.stack.cells.take D.base = s.stack.cells.take D.base :=
  htr.prefix_take hw

/-! ## `Resume`: one reference state for "the call/cc expression has just returned `v`"

`capturedCont s0`, `Resume s0 v h`: `Lemmas/ContResume.lean`. `LiveEq`: `Lemmas/ContResumeRun.lean`. -/

/-- **T05.2 as one statement about `step`, against `Resume`**: `s0` is the state at the CALL/TCALL
    that dispatched to `call/cc` (T05.1, `callcc_step`: the continuation object created there is
    `capturedCont s0`). In ANY state `t` — any depth, any later evaluation, no relation to `s0`
    required — whose current instruction is a CALL or TCALL of that continuation with `n ≥ 1`
    arguments, one step yields a state that agrees with `Resume s0 v t.heap` ("the call/cc expression
    at `s0` has just returned `v`", `v` the last argument, heap as it is NOW) on all registers, the
    heap, and the live stack `cells.take (sp+1)`.

    `hfit` is the capacity hypothesis: the current stack has room for the captured prefix. It stands
    for the real-code fact that `Stack` never shrinks (`stack.rs`: only `grow`; `clear` and the error
    epilogue keep the capacity — seeded changes C05-2 / C07-1 break it and are caught by the deep
    re-entry scenarios), so a prefix captured from this VM's stack always fits; without it
    `restore_continuation` panics (`split_at_mut`), which the model reproduces. -/
theorem invoke_continues_as_if_returned (ops : HeapOps H) {s0 t t1 : St H} {op : Op} {n : Nat}
    (h0sp : 2 ≤ s0.stack.sp) (h0cap : s0.stack.sp < s0.stack.cells.length)
    (hr : readOpcode ops t = .ok (op, t1)) (hop : op = .callAcc ∨ op = .tcallAcc)
    (hk : ops.callee t.heap t.acc = .continuation (capturedCont s0))
    (hcap : t.stack.sp < t.stack.cells.length) (hsp : 2 ≤ t.stack.sp)
    (htop : t.stack.cellAt t.stack.sp = .argc n) (hn : 1 ≤ n)
    (hfit : s0.stack.sp - 2 + 1 ≤ t.stack.cells.length) :
    ∃ r, step ops t = .ok (r, false) ∧
      LiveEq r (Resume s0 (t.stack.cellAt (t.stack.sp - 1)) t.heap) ∧
      r.stack.sp < r.stack.cells.length := by
  have e1 := (readOpcode_ok hr).2
  have hclen : (capturedCont s0).stack.cells.length = s0.stack.sp - 2 + 1 := by
    simp only [capturedCont, List.length_take]; omega
  obtain ⟨r, hinv, q1, q2, q3, q4, q5, q6, q7, q8⟩ :=
    invoke_restores t1 (capturedCont s0) n (t.stack.cellAt (t.stack.sp - 1))
      (by subst e1; exact hcap) hn (by subst e1; exact hsp) (by subst e1; exact htop) (by subst e1; rfl)
      (by subst e1; rw [hclen]; exact hfit)
  obtain ⟨_, p2, _⟩ := invokeCont_ok hinv
  have hstep : step ops t = .ok (r, false) := by
    unfold step
    rw [hr]
    simp only [outcome_bind_ok]
    have hcal : ops.callee t1.heap t1.acc = .continuation (capturedCont s0) := by subst e1; exact hk
    rcases hop with rfl | rfl <;> dsimp only
    · unfold stepCall; rw [hcal]; dsimp only; rw [hinv]; rfl
    · unfold stepTCall; rw [hcal]; dsimp only; rw [hinv]; rfl
  have hsp' : r.stack.sp = s0.stack.sp - 2 := q1
  refine ⟨r, hstep, ⟨hsp', ?_, q7, q3, q4, q5, q6, by rw [q8]; subst e1; rfl⟩, by rw [hsp']; rw [hclen] at p2; omega⟩
  show r.stack.cells.take (r.stack.sp + 1) = s0.stack.cells.take (s0.stack.sp - 2 + 1)
  rw [hsp']
  refine take_of_cellAt (by rw [hclen] at p2; exact p2) (by omega) ?_
  intro i hi
  rw [q2 i (by rw [hclen]; exact hi)]
  unfold Stack.cellAt
  simp only [capturedCont, List.getElem?_take, hi, if_true]

/-- re-entry within one evaluation needs no capacity hypothesis: the model's stack never shrinks
    (`step_len_mono`, `Lemmas/ContResumeCap.lean`), so the prefix captured at `s0` fits the stack of
    every state `t` the run from `s0` reaches (`fits_later`). Across evaluations the epilogues of
    `Vm/Eval.lean` keep the capacity by definition; that the *real* ones do is what `hfit` stands for. -/
theorem invoke_within_run_continues_as_if_returned (ops : HeapOps H) {s0 t t1 : St H} {op : Op} {n k : Nat}
    {bl : Bool} (h0sp : 2 ≤ s0.stack.sp) (h0cap : s0.stack.sp < s0.stack.cells.length)
    (hrun : runN ops k s0 = .ok (t, bl))
    (hr : readOpcode ops t = .ok (op, t1)) (hop : op = .callAcc ∨ op = .tcallAcc)
    (hk : ops.callee t.heap t.acc = .continuation (capturedCont s0))
    (hcap : t.stack.sp < t.stack.cells.length) (hsp : 2 ≤ t.stack.sp)
    (htop : t.stack.cellAt t.stack.sp = .argc n) (hn : 1 ≤ n) :
    ∃ r, step ops t = .ok (r, false) ∧
      LiveEq r (Resume s0 (t.stack.cellAt (t.stack.sp - 1)) t.heap) ∧
      r.stack.sp < r.stack.cells.length :=
  invoke_continues_as_if_returned ops h0sp h0cap hr hop hk hcap hsp htop hn (fits_later h0cap h0sp hrun)

/-- a call/cc whose receiver returns normally: the state after the receiver's RET is — on registers,
    heap and live stack — `Resume s0 v h` with `v` the returned value and `h` the heap at return time.
    `s0`: at the CALL that dispatches to `call/cc`; `sc`: after `call/cc` ran (same CALL, `k` passed);
    `sr`: after the CALL of the receiver; `s`: the receiver's frame at its RET, reached by any verified
    code that invokes no continuation (`Trace`). This closes T05.3: registers and `sp`
    (`receiver_return_is_invocation`) *and* the stack cells below the receiver's frame
    (`prefix_unwritten`). -/
theorem receiver_return_is_resume {ops : HeapOps H} (cl : CodeLaws ops)
    {s0 s01 sc sc1 sr s s1 s' : St H} {K : List FDesc} {id lam env : Nat}
    (hw : WFS cl s0 K)
    (hr0 : readOpcode ops s0 = .ok (.callAcc, s01))
    (hc0 : ops.callee s0.heap s0.acc = .builtin id) (hk : ops.builtinKind s0.heap id = .callcc)
    (hs0 : step ops s0 = .ok (sc, false))
    (hrc : readOpcode ops sc = .ok (.callAcc, sc1))
    (hc : ops.callee sc.heap sc.acc = .closure lam env)
    (hcall : step ops sc = .ok (sr, false))
    (htr : Trace ops (s0.stack.sp - 1) sr s)
    (hr : readOpcode ops s = .ok (.ret, s1)) (hb : FrameBase s (s0.stack.sp - 1))
    (hs : step ops s = .ok (s', false)) :
    LiveEq s' (Resume s0 s.acc s.heap) := by
  obtain ⟨_, h2sp, htop0, hkp, ehk, hheap, csp, ck, ctop, cbelow, ccap, cipL, cipO, cep, cbp⟩ :=
    callcc_step hr0 (.inl rfl) hc0 hk hw.wf.cap hs0
  -- the state after call/cc is WF with the same frame list
  have hwsc : WFS cl sc K := by
    obtain ⟨t, st, ai, e1⟩ := hw.instr hr0
    have chk := ai.chk
    cases st <;> simp only [Verify.checkOp] at chk <;> try (exact absurd chk Bool.false_ne_true)
    have hs0' := hs0
    unfold step at hs0'
    rw [hr0] at hs0'
    simp only [outcome_bind_ok] at hs0'
    obtain ⟨s2, he, hs0'⟩ := bind_inv hs0'
    cases hs0'
    unfold stepCall at he
    have hcal : ops.callee s01.heap s01.acc = ops.callee s0.heap s0.acc := by subst e1; rfl
    rw [hcal, hc0] at he
    exact pres_builtin ai chk e1 he
  have htopc : sc.stack.cellAt sc.stack.sp = .argc 1 := by rw [csp]; exact ctop
  obtain ⟨r1, r2, r3, r4, r5, r6⟩ :=
    receiver_return_is_invocation cl hwsc hrc hc htopc hcall (by rw [csp]; exact htr) hr
      (by rw [csp]; exact hb) hs
  -- the receiver's frame and the trace
  obtain ⟨m, hm, hwsr⟩ := call_closure_desc hwsc hrc hc hcall
  rw [htopc] at hm; cases hm
  have hbase : sc.stack.sp - 1 = s0.stack.sp - 1 := by rw [csp]
  have hpre := htr.prefix_unwritten (cl := cl) [] ⟨sc.stack.sp - 1, _, _, _⟩ K hbase hwsr
  obtain ⟨P', hws⟩ := htr.stable (cl := cl) [] ⟨sc.stack.sp - 1, _, _, _⟩ K hbase hwsr
  have hDle := (hws.wf.frames.bases.1 ⟨sc.stack.sp - 1, .envPtr sc.ep, .instrPtr sc.ipL (sc.ipO + 1), sc.bp⟩
    (by simp)).2
  simp only at hDle
  have hscap := hws.wf.cap
  -- CALL of the receiver pushes two cells
  have hsr : ∀ i, i ≤ sc.stack.sp → sr.stack.cellAt i = sc.stack.cellAt i := by
    have e1 := (readOpcode_ok hrc).2
    have hcall' := hcall
    unfold step at hcall'
    rw [hrc] at hcall'
    simp only [outcome_bind_ok] at hcall'
    obtain ⟨s2, he, hcall'⟩ := bind_inv hcall'
    cases hcall'
    unfold stepCall at he
    have hcal : ops.callee sc1.heap sc1.acc = ops.callee sc.heap sc.acc := by subst e1; rfl
    rw [hcal, hc] at he
    dsimp only at he
    cases he
    subst e1
    intro i hi
    show ((sc.stack.push _).push _).cellAt i = _
    rw [push_below _ _ i (by simp only [Stack.push_sp]; omega), push_below _ _ i hi]
  -- RET keeps `acc` and the heap
  have hacc : s'.acc = s.acc ∧ s'.heap = s.heap := by
    have e1 := (readOpcode_ok hr).2
    have hs' := hs
    unfold step at hs'
    rw [hr] at hs'
    simp only [outcome_bind_ok] at hs'
    obtain ⟨s2, he, hs'⟩ := bind_inv hs'
    cases hs'
    obtain ⟨_, _, _, _, _, _, _, _, _, _, r⟩ := stepRet_ok he
    subst r
    subst e1
    exact ⟨rfl, rfl⟩
  have hsp' : s'.stack.sp = s0.stack.sp - 2 := by omega
  refine ⟨hsp', ?_, hacc.1, by rw [r2, cep]; rfl, by rw [r3, cipL]; rfl, by rw [r4, cipO]; rfl,
    by rw [r5, cbp]; rfl, hacc.2⟩
  show s'.stack.cells.take (s'.stack.sp + 1) = s0.stack.cells.take (s0.stack.sp - 2 + 1)
  rw [hsp', r6]
  refine take_of_cellAt (by omega) (by have := hw.wf.cap; omega) ?_
  intro i hi
  rw [hpre i (by omega), hsr i (by omega), cbelow i (by omega)]

/-- **"receiver returns `v`" and "`(k v)`" coincide**: with the hypotheses of
    `receiver_return_is_resume`, take ANY state `t` about to call the continuation captured at `s0`
    with last argument `v` = the value the receiver returned, in the heap the receiver left. The state
    after the receiver's RET and the state after `(k v)` agree on registers, heap and live stack —
    "a call/cc whose receiver returns normally behaves like an ordinary call" and "as if the call/cc
    expression had just returned `v`" are the same statement. -/
theorem receiver_return_equals_invocation {ops : HeapOps H} (cl : CodeLaws ops)
    {s0 s01 sc sc1 sr s s1 s' t t1 : St H} {K : List FDesc} {id lam env n : Nat} {op : Op}
    (hw : WFS cl s0 K)
    (hr0 : readOpcode ops s0 = .ok (.callAcc, s01))
    (hc0 : ops.callee s0.heap s0.acc = .builtin id) (hk : ops.builtinKind s0.heap id = .callcc)
    (hs0 : step ops s0 = .ok (sc, false))
    (hrc : readOpcode ops sc = .ok (.callAcc, sc1))
    (hc : ops.callee sc.heap sc.acc = .closure lam env)
    (hcall : step ops sc = .ok (sr, false))
    (htr : Trace ops (s0.stack.sp - 1) sr s)
    (hr : readOpcode ops s = .ok (.ret, s1)) (hb : FrameBase s (s0.stack.sp - 1))
    (hs : step ops s = .ok (s', false))
    (hrt : readOpcode ops t = .ok (op, t1)) (hop : op = .callAcc ∨ op = .tcallAcc)
    (hkt : ops.callee t.heap t.acc = .continuation (capturedCont s0))
    (hcap : t.stack.sp < t.stack.cells.length) (hsp : 2 ≤ t.stack.sp)
    (htop : t.stack.cellAt t.stack.sp = .argc n) (hn : 1 ≤ n)
    (hfit : s0.stack.sp - 2 + 1 ≤ t.stack.cells.length)
    (hv : t.stack.cellAt (t.stack.sp - 1) = s.acc) (hh : t.heap = s.heap) :
    ∃ r, step ops t = .ok (r, false) ∧ LiveEq s' r := by
  obtain ⟨_, h2sp, _⟩ := callcc_step hr0 (.inl rfl) hc0 hk hw.wf.cap hs0
  obtain ⟨r, hstep, hle, _⟩ :=
    invoke_continues_as_if_returned ops h2sp hw.wf.cap hrt hop hkt hcap hsp htop hn hfit
  rw [hv, hh] at hle
  exact ⟨r, hstep, (receiver_return_is_resume cl hw hr0 hc0 hk hs0 hrc hc hcall htr hr hb hs).trans hle.symm⟩

/-! ## The rest of the run after `(k v)` is the run from `Resume`

`step_live_congruence` (`Lemmas/ContResumeRun.lean`, from `step_stack` in `ContResumeStep.lean`):
`step` is a function of (live stack, registers, heap). Hence: -/

/-- **The property's first sentence as a theorem about executions of the machine model.** `s0` is
    the state at the CALL/TCALL that dispatched to `call/cc`; `t` is ANY later WF state (any depth, any
    later evaluation) about to call the continuation captured there with `n ≥ 1` arguments, last one
    `v`. Then `(k v)` abandons what `t` was doing, and everything the machine does afterwards — any
    number `m` of further instructions, through further calls, captures, invocations of this or other
    continuations, up to and including HALT — is, state by state up to stale cells above `sp`, what it
    does from `Resume s0 v t.heap`: "the call/cc expression at `s0` has just returned `v`".
    * "operands already evaluated at capture time keep their values": `Resume` has `s0`'s stack prefix;
    * "mutations made since capture stay visible": `Resume` has `t`'s heap (variables and data live
      in the heap, T02.2);
    * "any number of times": nothing is consumed — `hk` can hold again later in the same run.
    `SideOK` lists the side conditions of `step_live_congruence` along the two runs. -/
theorem invoke_run_continues {ops : HeapOps H} {cl : CodeLaws ops} (ll : LiveLaws cl)
    {s0 t t1 : St H} {Kt : List FDesc} {op : Op} {n : Nat}
    (h0sp : 2 ≤ s0.stack.sp) (h0cap : s0.stack.sp < s0.stack.cells.length)
    (hwt : WFS cl t Kt)
    (hr : readOpcode ops t = .ok (op, t1)) (hop : op = .callAcc ∨ op = .tcallAcc)
    (hk : ops.callee t.heap t.acc = .continuation (capturedCont s0))
    (hsp : 2 ≤ t.stack.sp) (htop : t.stack.cellAt t.stack.sp = .argc n) (hn : 1 ≤ n)
    (hfit : s0.stack.sp - 2 + 1 ≤ t.stack.cells.length) :
    ∃ r, step ops t = .ok (r, false) ∧
      ∀ (m : Nat) (r' : St H) (bl : Bool),
        SideOK ops m r (Resume s0 (t.stack.cellAt (t.stack.sp - 1)) t.heap) →
        runN ops m r = .ok (r', bl) →
        ∃ r'', runN ops m (Resume s0 (t.stack.cellAt (t.stack.sp - 1)) t.heap) = .ok (r'', bl) ∧
          LiveEq r' r'' := by
  obtain ⟨r, hstep, hle, hrcap⟩ :=
    invoke_continues_as_if_returned ops h0sp h0cap hr hop hk hwt.wf.cap hsp htop hn hfit
  obtain ⟨Kr, hwr, _⟩ := step_preserves hwt hstep
  refine ⟨r, hstep, ?_⟩
  intro m r' bl hside hrun
  exact runN_live_congruence ll m hwr hle (by show s0.stack.sp - 2 < s0.stack.cells.length; omega) hside hrun

/-- in particular: if the run after `(k v)` halts with value `a` in heap `h`, so does the run from
    "call/cc has just returned `v`" — same value, same heap -/
theorem invoke_run_same_result {ops : HeapOps H} {cl : CodeLaws ops} (ll : LiveLaws cl)
    {s0 t t1 : St H} {Kt : List FDesc} {op : Op} {n : Nat}
    (h0sp : 2 ≤ s0.stack.sp) (h0cap : s0.stack.sp < s0.stack.cells.length)
    (hwt : WFS cl t Kt)
    (hr : readOpcode ops t = .ok (op, t1)) (hop : op = .callAcc ∨ op = .tcallAcc)
    (hk : ops.callee t.heap t.acc = .continuation (capturedCont s0))
    (hsp : 2 ≤ t.stack.sp) (htop : t.stack.cellAt t.stack.sp = .argc n) (hn : 1 ≤ n)
    (hfit : s0.stack.sp - 2 + 1 ≤ t.stack.cells.length) :
    ∃ r, step ops t = .ok (r, false) ∧
      ∀ (m : Nat) (r' : St H),
        SideOK ops m r (Resume s0 (t.stack.cellAt (t.stack.sp - 1)) t.heap) →
        runN ops m r = .ok (r', true) →
        ∃ r'', runN ops m (Resume s0 (t.stack.cellAt (t.stack.sp - 1)) t.heap) = .ok (r'', true) ∧
          r''.acc = r'.acc ∧ r''.heap = r'.heap := by
  obtain ⟨r, hstep, hall⟩ := invoke_run_continues ll h0sp h0cap hwt hr hop hk hsp htop hn hfit
  refine ⟨r, hstep, ?_⟩
  intro m r' hside hrun
  obtain ⟨r'', h1, h2⟩ := hall m r' true hside hrun
  exact ⟨r'', h1, h2.acc.symm, h2.heap.symm⟩

/-! ### non-vacuity: a machine that really captures, returns, and is re-entered from a later evaluation

`Lemmas/ContResumeToy.lean`: first evaluation `(call/cc c6)` — entry code 20, receiver `c6` = closure
of `ENTER; MOVIMM void acc; RET`; states `nthA 0 … nthA 8` (`nthA 3` at the CALL of `call/cc`, `nthA 4`
after the capture, `nthA 5` in the receiver's prologue, `nthA 7` at its RET, `nthA 8` at HALT). Second
evaluation `(k "v")` — entry code 21, started from the halted machine; `nthB 3` at the CALL of `k`,
`nthB 4` after the invocation. -/

section
open Marwood.Vm.CToy

/-- every hypothesis of `receiver_return_is_resume` holds on the first evaluation, hence its conclusion -/
example : LiveEq (nthA 8) (Resume (nthA 3) .void (nthA 7).heap) := by
  obtain ⟨K, hw⟩ := wfA 3 (by omega)
  exact receiver_return_is_resume CToy.laws (s0 := nthA 3) (s01 := { nthA 3 with ipO := 8 }) (sc := nthA 4)
    (sc1 := { nthA 4 with ipO := 8 }) (sr := nthA 5) (s := nthA 7) (s1 := { nthA 7 with ipO := 5 })
    (s' := nthA 8) (id := 9) (lam := 8) (env := 0)
    hw (by rfl) (by rfl) (by rfl) (by rfl) (by rfl) (by rfl) (by rfl)
    (.cons (no_cont_A 5 (by omega)) (s1 := nthA 6) (by rfl) (by decide)
      (.cons (no_cont_A 6 (by omega)) (s1 := nthA 7) (by rfl) (by decide) (.nil _)))
    (by rfl) ⟨1, by rfl, by decide, by rfl⟩ (by rfl)

/-- the continuation stored by the first evaluation is the one `capturedCont` describes, and the CALL
    of it in the second evaluation lands on `Resume` -/
example : CToy.ops.callee (nthB 3).heap (nthB 3).acc = .continuation (capturedCont (nthA 3)) ∧
    step CToy.ops (nthB 3) = .ok (nthB 4, false) ∧
    LiveEq (nthB 4) (Resume (nthA 3) (.opaque "v") (nthB 3).heap) := by
  refine ⟨by rfl, by rfl, ?_⟩
  obtain ⟨r, h1, h2, _⟩ := invoke_continues_as_if_returned CToy.ops (s0 := nthA 3) (t := nthB 3)
    (t1 := { nthB 3 with ipO := 8 }) (op := .callAcc) (n := 1)
    (by decide) (by decide) (by rfl) (.inl rfl) (by rfl) (by decide) (by decide) (by rfl) (by decide) (by decide)
  have e : step CToy.ops (nthB 3) = .ok (nthB 4, false) := by rfl
  rw [e] at h1
  cases h1
  exact h2

/-- every hypothesis of `invoke_run_same_result` holds on the second evaluation (`m = 1`: the HALT that
    follows), hence: the run from "`(call/cc c6)` has just returned `"v"`" halts with value `"v"` -/
example : ∃ r'', runN CToy.ops 1 (Resume (nthA 3) (.opaque "v") (nthB 3).heap) = .ok (r'', true) ∧
    r''.acc = .opaque "v" := by
  obtain ⟨K, hw⟩ := wfB 3 (by omega)
  obtain ⟨r, h1, h2⟩ := invoke_run_same_result CToy.liveLaws (s0 := nthA 3) (t := nthB 3)
    (t1 := { nthB 3 with ipO := 8 }) (op := .callAcc) (n := 1)
    (by decide) (by decide) hw (by rfl) (.inl rfl) (by rfl) (by decide) (by rfl) (by decide) (by decide)
  have e : step CToy.ops (nthB 3) = .ok (nthB 4, false) := by rfl
  rw [e] at h1
  cases h1
  have hhalt : step CToy.ops (nthB 4) = .ok ({ nthB 4 with ipO := 9 }, true) := by rfl
  have hside : SideOK CToy.ops 1 (nthB 4)
      (Resume (nthA 3) ((nthB 3).stack.cellAt ((nthB 3).stack.sp - 1)) (nthB 3).heap) := by
    refine ⟨?_, ?_, ?_⟩
    · intro off h
      cases h
    · intro c hc
      cases hc
    · intro r1 r2 q _
      rw [hhalt] at q
      cases q
  obtain ⟨r'', g1, g2, _⟩ := h2 1 { nthB 4 with ipO := 9 } hside (by rfl)
  exact ⟨r'', g1, g2⟩

end

/-! ## The compile side: where `s0` sits in compiled code

`compile_callcc_site` (`Lemmas/ContResumeCompile.lean`; T01.4 `application_operand_order` for one
operand): the compiler model emits for `(call/cc e)` — under either name, in operand or tail position —
exactly `<code of e>; PUSH; PUSHIMM argc 1; <code of the operator>; CALL|TCALL`. So the state `s0` of
the theorems above is "at that CALL, the value of `e` and `argc 1` on top of what the enclosing
expressions have pushed", and `Resume s0 v h` is "behind that CALL, the two cells popped, `acc = v`":
the state in which the application `(call/cc e)` has evaluated to `v`. -/

open Marwood Marwood.Spec in
/-- non-vacuity: `(g x (call/cc f))` in tail position — `x` is evaluated and pushed before the capture
    (an operand "already evaluated at capture time"), the `call/cc` site is `MOV f; PUSH; PUSHIMM argc1;
    MOV call/cc; CALL`, then the pending application continues: `PUSH; PUSHIMM argc2; MOV g; TCALL` -/
example :
    (match compileExpr 10 {} ⟨[], []⟩ 1 true
      (Datum.ofList [.sym ['g'], .sym ['x'], Datum.ofList [.sym callccName, .sym ['f']]]) with
     | .ok (_, code) => code.map (fun (b : BC) => match b with | BC.op o => some o | _ => none)
     | .error _ => []) =
    [some .mov, none, none, some .pushAcc,
     some .mov, none, none, some .pushAcc, some .pushImm, none, some .mov, none, none, some .callAcc,
     some .pushAcc, some .pushImm, none, some .mov, none, none, some .tcallAcc] := by decide +kernel

/-! ## What is proved now, and what is still missing for the language-level statement

Proved (this file + `Lemmas/ContResume*.lean`), all about the machine model `Vm.step` that lock-step
replay ties to `run.rs`:
* (M3) `prefix_unwritten` — closed (`step_below`, `Trace.prefix_unwritten`), and with it T05.3 in full:
  `receiver_return_is_resume`, `receiver_return_equals_invocation`.
* (M2) `step_frame` — closed as `step_live_congruence` / `runN_live_congruence`, under the explicit
  side conditions `LiveLaws` (CLOSURE / ENTER read live cells), `BpLive` (a `BasePointerOffset` source
  operand is live — not implied by the bytecode verifier, which does not look at source offsets) and
  the capacity condition of `SideOK` (the stack never shrinks).
* The property's first sentence as ONE theorem about executions: `invoke_run_continues`,
  `invoke_run_same_result`, relative to the reference state `Resume s0 v h`.

Still missing:
* The CALL case only: for `call/cc` in *tail* position (TCALL) `capturedCont` / `callcc_step` /
  `invoke_continues_as_if_returned` hold as stated, but `receiver_return_is_resume` is stated for CALL
  (after a TCALL the receiver replaces the caller's frame and returns to the caller's caller; the state
  after its RET equals the state one instruction — the RET that follows the TCALL — after `Resume`).
* `hfit` is a theorem for re-entry within one evaluation (`invoke_within_run_continues_as_if_returned`,
  from `step_len_mono`); across evaluations it is a hypothesis. `SideOK`'s capacity clause (about the
  continuations invoked *later* in the two runs, relative to the capacity of the reference run, which
  starts with `s0`'s capacity — `LiveEq` ignores capacity, so the reference state may be padded) is a
  hypothesis at each invocation; discharging it needs a heap law that continuation objects are only
  created by `newCont` from the stack of this machine.
* (M4) `compile_callcc_site` gives the *shape* of the emitted code; the step from "this code sequence is
  in the code object at `ip`" to machine states (i.e. running `<code of e>` leaves the value of `e` in
  `acc` and the stack as it was — compiler correctness for `e`, T01.3 stage 2/3) is not proved, so
  "`Resume s0 v h` is the state in which the application has evaluated to `v`" is by the calling
  convention theorems (`builtin_call_pops`, `ret_of_receiver_frame`), not by a theorem over source terms.
* (M1), (M5): a CPS definitional semantics with `call/cc` and its simulation by the compiled code
  (`KRep`, `compile_simulates`). Not done; the language-level reading of the theorems above is still
  "the machine continues from `Resume`", not a statement over source terms. -/

/-! ## `BpLive` is a theorem; the theorems on the concrete machine

Since the bytecode verifier checks `BasePointerOffset` *source* operands (`Verify.bpSrcOk`: procedure code,
`off ≤ 0`), `BpLive` follows from WF-stack (`Lemmas/StackWFBpLive.lean: bpLive_of_wfs`): the side
conditions of `SideOK` shrink to `FitOK` (an invoked continuation's stack copy fits the capacity). -/

/-- `step` is a function of (live stack, registers, heap): no `BpLive` hypothesis -/
theorem step_live_congruence_verified {ops : HeapOps H} {cl : CodeLaws ops} (ll : LiveLaws cl)
    {s1 s2 r1 : St H} {K : List FDesc} {bl : Bool}
    (hw : WFS cl s1 K) (heq : LiveEq s1 s2) (hcap2 : s2.stack.sp < s2.stack.cells.length)
    (hfit : ∀ c, ops.callee s1.heap s1.acc = .continuation c → c.stack.cells.length ≤ s2.stack.cells.length)
    (hs : step ops s1 = .ok (r1, bl)) :
    ∃ r2, step ops s2 = .ok (r2, bl) ∧ LiveEq r1 r2 ∧ r2.stack.sp < r2.stack.cells.length :=
  step_live_congruence_wf ll hw heq hcap2 hfit hs

/-- `invoke_run_same_result` with `SideOK` reduced to the capacity condition `FitOK` -/
theorem invoke_run_same_result_verified {ops : HeapOps H} {cl : CodeLaws ops} (ll : LiveLaws cl)
    {s0 t t1 : St H} {Kt : List FDesc} {op : Op} {n : Nat}
    (h0sp : 2 ≤ s0.stack.sp) (h0cap : s0.stack.sp < s0.stack.cells.length)
    (hwt : WFS cl t Kt)
    (hr : readOpcode ops t = .ok (op, t1)) (hop : op = .callAcc ∨ op = .tcallAcc)
    (hk : ops.callee t.heap t.acc = .continuation (capturedCont s0))
    (hsp : 2 ≤ t.stack.sp) (htop : t.stack.cellAt t.stack.sp = .argc n) (hn : 1 ≤ n)
    (hfit : s0.stack.sp - 2 + 1 ≤ t.stack.cells.length) :
    ∃ r, step ops t = .ok (r, false) ∧
      ∀ (m : Nat) (r' : St H),
        FitOK ops m r (Resume s0 (t.stack.cellAt (t.stack.sp - 1)) t.heap) →
        runN ops m r = .ok (r', true) →
        ∃ r'', runN ops m (Resume s0 (t.stack.cellAt (t.stack.sp - 1)) t.heap) = .ok (r'', true) ∧
          r''.acc = r'.acc ∧ r''.heap = r'.heap := by
  obtain ⟨r, hstep, hall⟩ := invoke_run_same_result ll h0sp h0cap hwt hr hop hk hsp htop hn hfit
  obtain ⟨Kr, hwr, _⟩ := step_preserves hwt hstep
  exact ⟨r, hstep, fun m r' hf hrun => hall m r' (sideOK_of_fitOK m hwr hf) hrun⟩

section Concrete
open Marwood.Vm.Concrete

/-- **The property's first sentence on the concrete machine** (`gops ext`: `concreteOps ext` with the
    callee guard, see `Proofs/C04.lean` "On the concrete machine"): `CodeLaws`, `LiveLaws` and `BpLive`
    are theorems there. Hypotheses: `ExtCodeLaws ext`, WF-stack of `t` (`CInv t.heap` included), the shape
    of the invocation, and the capacity conditions (`hfit`, `FitOK`). -/
theorem invoke_run_same_result_concrete (ext : ExtOps) (ecl : ExtCodeLaws ext)
    {s0 t t1 : St CHeap} {Kt : List FDesc} {op : Op} {n : Nat}
    (h0sp : 2 ≤ s0.stack.sp) (h0cap : s0.stack.sp < s0.stack.cells.length)
    (hwt : WFS (concreteLaws ext ecl) t Kt)
    (hr : readOpcode (gops ext) t = .ok (op, t1)) (hop : op = .callAcc ∨ op = .tcallAcc)
    (hk : (gops ext).callee t.heap t.acc = .continuation (capturedCont s0))
    (hsp : 2 ≤ t.stack.sp) (htop : t.stack.cellAt t.stack.sp = .argc n) (hn : 1 ≤ n)
    (hfit : s0.stack.sp - 2 + 1 ≤ t.stack.cells.length) :
    ∃ r, step (gops ext) t = .ok (r, false) ∧
      ∀ (m : Nat) (r' : St CHeap),
        FitOK (gops ext) m r (Resume s0 (t.stack.cellAt (t.stack.sp - 1)) t.heap) →
        runN (gops ext) m r = .ok (r', true) →
        ∃ r'', runN (gops ext) m (Resume s0 (t.stack.cellAt (t.stack.sp - 1)) t.heap) = .ok (r'', true) ∧
          r''.acc = r'.acc ∧ r''.heap = r'.heap :=
  invoke_run_same_result_verified (concreteLiveLaws ext ecl) h0sp h0cap hwt hr hop hk hsp htop hn hfit

/-! ### on the REAL machine: `run_one` over `concreteOps ext`, no guard

`Lemmas/ContResumeMachine.lean`: on a state satisfying the bundled invariant `VmOkP` (heap-simulation invariant `GoodI`,
WF-stack over the value-typed verifier, and the two clauses `PInv` that make the callee guard a theorem) a successful
instruction of the real machine is the same instruction of the guarded machine `vops ext` and conversely
(`step_vops`, `step_vops_conv`); `LiveLaws` holds of the value-typed laws (`concreteLiveLawsV`); the invariants are
properties of the live part of a state (`GoodI.of_liveEq`, `PInv.of_liveEq`, `WFS.of_liveEq`). So the second run —
which starts from the CONSTRUCTED state `Resume s0 v t.heap`, not from a reachable one — is carried along the first
in lock step (`runN_live_congruence_machine`). Hypotheses: the laws of the unmodelled parts, `GoodI` / WF-stack /
`PInv` of the invoking state `t`, the shape of the invocation, the physical size bound along the run from `t`, and
the capacity conditions (`hfit`, `FitOK`: the stack never shrinks). -/

open Marwood.Lemmas.Good Marwood.Lemmas.Sim in
/-- **The property's first sentence on the real concrete machine**: everything the machine does after `(k v)` — any
    number `m` of further instructions of `run_one` over `concreteOps ext`, up to and including HALT — is, state by
    state up to stale cells above `sp`, what it does from "the `call/cc` expression at `s0` has just returned `v`". -/
theorem invoke_run_continues_machine (ext : ExtOps) (force : Bool) (el : ExtLaws ext) (eg : ExtGood ext)
    (ecl : ExtCodeLawsV ext) (ep : ExtProc ext)
    {s0 t t1 : St CHeap} {Kt : List FDesc} {op : Op} {n : Nat}
    (h0sp : 2 ≤ s0.stack.sp) (h0cap : s0.stack.sp < s0.stack.cells.length)
    (g : GoodI t) (hwt : WFS (concreteLawsV ext ecl) t Kt) (pt : PInv t)
    (sb : SizeBounded (machine ext force) t)
    (hr : readOpcode (concreteOps ext) t = .ok (op, t1)) (hop : op = .callAcc ∨ op = .tcallAcc)
    (hk : callee t.heap t.acc = .continuation (capturedCont s0))
    (hsp : 2 ≤ t.stack.sp) (htop : t.stack.cellAt t.stack.sp = .argc n) (hn : 1 ≤ n)
    (hfit : s0.stack.sp - 2 + 1 ≤ t.stack.cells.length) :
    ∃ r, step (concreteOps ext) t = .ok (r, false) ∧
      ∀ (m : Nat) (r' : St CHeap) (bl : Bool),
        FitOK (concreteOps ext) m r (Resume s0 (t.stack.cellAt (t.stack.sp - 1)) t.heap) →
        runN (concreteOps ext) m r = .ok (r', bl) →
        ∃ r'', runN (concreteOps ext) m (Resume s0 (t.stack.cellAt (t.stack.sp - 1)) t.heap) = .ok (r'', bl) ∧
          LiveEq r' r'' := by
  obtain ⟨r, hstep, hle, hrcap⟩ :=
    invoke_continues_as_if_returned (concreteOps ext) h0sp h0cap hr hop hk hwt.wf.cap hsp htop hn hfit
  have hv : VmOkP ext ecl t := ⟨⟨g, .inl ⟨Kt, hwt⟩⟩, pt⟩
  have hreach : Reaches (machine ext force) t r := by
    refine .next (.refl t) ?_
    show vmStep (concreteOps ext) t = .next r
    unfold vmStep; rw [hstep]
  have hvr : VmOkP ext ecl r := vmOkP_step el eg ep hv (sb t (.refl t)) hstep (sb r hreach)
  refine ⟨r, hstep, ?_⟩
  intro m r' bl hf hrun
  exact runN_live_congruence_machine force el eg ep sb m hreach hvr hle
    (by show s0.stack.sp - 2 < s0.stack.cells.length; omega) hf hrun

open Marwood.Lemmas.Good Marwood.Lemmas.Sim in
/-- in particular: if the run of the real machine after `(k v)` halts with value `a` in heap `h`, so does its run from
    "call/cc has just returned `v`" — same value, same heap -/
theorem invoke_run_same_result_machine (ext : ExtOps) (force : Bool) (el : ExtLaws ext) (eg : ExtGood ext)
    (ecl : ExtCodeLawsV ext) (ep : ExtProc ext)
    {s0 t t1 : St CHeap} {Kt : List FDesc} {op : Op} {n : Nat}
    (h0sp : 2 ≤ s0.stack.sp) (h0cap : s0.stack.sp < s0.stack.cells.length)
    (g : GoodI t) (hwt : WFS (concreteLawsV ext ecl) t Kt) (pt : PInv t)
    (sb : SizeBounded (machine ext force) t)
    (hr : readOpcode (concreteOps ext) t = .ok (op, t1)) (hop : op = .callAcc ∨ op = .tcallAcc)
    (hk : callee t.heap t.acc = .continuation (capturedCont s0))
    (hsp : 2 ≤ t.stack.sp) (htop : t.stack.cellAt t.stack.sp = .argc n) (hn : 1 ≤ n)
    (hfit : s0.stack.sp - 2 + 1 ≤ t.stack.cells.length) :
    ∃ r, step (concreteOps ext) t = .ok (r, false) ∧
      ∀ (m : Nat) (r' : St CHeap),
        FitOK (concreteOps ext) m r (Resume s0 (t.stack.cellAt (t.stack.sp - 1)) t.heap) →
        runN (concreteOps ext) m r = .ok (r', true) →
        ∃ r'', runN (concreteOps ext) m (Resume s0 (t.stack.cellAt (t.stack.sp - 1)) t.heap) = .ok (r'', true) ∧
          r''.acc = r'.acc ∧ r''.heap = r'.heap := by
  obtain ⟨r, hstep, hall⟩ := invoke_run_continues_machine ext force el eg ecl ep h0sp h0cap g hwt pt sb hr hop hk hsp
    htop hn hfit
  refine ⟨r, hstep, ?_⟩
  intro m r' hf hrun
  obtain ⟨r'', h1, h2⟩ := hall m r' true hf hrun
  exact ⟨r'', h1, h2.acc.symm, h2.heap.symm⟩

open Marwood.Lemmas.Good Marwood.Lemmas.Good.Demo Marwood.Proofs.C13 in
/-- non-vacuity of the run-level congruence on the real machine (every hypothesis discharged): the demo state of
    `Lemmas/VmOkDemo.lean` and a copy of it with a larger capacity and a stale cell above `sp` — a state that is not
    reachable — halt together, in live-equal states -/
example : ∃ r2, runN (concreteOps failingExt) 1
      { sHalt 0 with stack := { cells := [.undefined, .bool true], sp := 0 } } = .ok (r2, true) ∧
    LiveEq (sHalt 1) r2 :=
  runN_live_congruence_machine (ecl := failingExt_codeLawsV) false failingExt_laws failingExt_good failingExt_proc
    (sHalt_sizeBounded _) 1 (.refl _) (sHalt_vmOkP _ _) ⟨rfl, rfl, rfl, rfl, rfl, rfl, rfl, rfl⟩ (by decide)
    ⟨fun c hc => (by cases hc), fun _ _ _ _ => trivial⟩ rfl

end Concrete

/-! ## The property at the level of the LANGUAGE: `Spec.EvalK`

`Spec.EvalK` is a definitional interpreter for the language of `Spec.Eval` with first-class continuations, written in
defunctionalised continuation-passing style (a continuation = a list of frames; `call/cc` appends the current one to an
append-only table and hands the receiver a value denoting that entry; applying such a value drops the current
continuation). It is the specification random programs with `call/cc` are judged against (stream
`callcc-grammar-vs-cps-spec`). The clauses of the property are theorems about it (proofs: `Lemmas/EvalK*.lean`). -/
section CpsSpec
open Marwood.Spec.Eval Marwood.Spec.EvalK Marwood.Lemmas.EvalK Marwood.Lemmas.EvalKAgree

/-- more steps never change an outcome of the K machine -/
theorem runK_fuel_mono (n k : Nat) (s : State) (res : Outcome × St × Array Kont)
    (h : runK n s = some res) : runK (n + k) s = some res := runK_mono n k s res h

/-- a `call/cc` whose receiver returns normally behaves like an ordinary call: `(call/cc f)` in continuation `κ` is, after
    one step, the ordinary application of `f` to one argument IN THE SAME continuation `κ` and the same store — so
    whatever the receiver returns (it need not use its argument) is the value of the `call/cc` expression; and a normal
    return of `v` to `κ` is the same machine state as an invocation `(k v)` from any context `κany` -/
theorem callcc_normal_return (n : Nat) (f : Val) (κ : Kont) (σ : St) (ks : Array Kont) (hf : isProcedure f = true) :
    runK (n + 1) ⟨.app callccVal [f], κ, σ, ks⟩ = runK n ⟨.app f [contVal ks.size], κ, σ, ks.push κ⟩
    ∧ (ks.push κ)[ks.size]? = some κ
    ∧ ∀ (v : Val) (κany : Kont) (σ' : St) (ks' : Array Kont), ks'[ks.size]? = some κ →
        stepK ⟨.app (contVal ks.size) [v], κany, σ', ks'⟩ = .run ⟨.ret v, κ, σ', ks'⟩ :=
  ⟨Marwood.Lemmas.EvalK.callcc_is_ordinary_call n f κ σ ks hf, Marwood.Lemmas.EvalK.captured_is_current κ ks,
   fun v κany σ' ks' h => Marwood.Lemmas.EvalK.receiver_return_equals_invocation ks.size κ κany v σ' ks' h⟩

/-- invoking a continuation with `v` from ANY current continuation abandons it: the next state is `ret v` to the captured
    continuation on the current store -/
theorem throw_discards_context (i : Nat) (κ' : Kont) (args : List Val) (v : Val) (κ : Kont) (σ : St)
    (ks : Array Kont) (hi : ks[i]? = some κ') (hv : args.getLast? = some v) :
    stepK ⟨.app (contVal i) args, κ, σ, ks⟩ = .run ⟨.ret v, κ', σ, ks⟩ :=
  Marwood.Lemmas.EvalK.throw_discards_context i κ' args v κ σ ks hi hv

/-- … hence the whole rest of the run (any number of steps, the outcome, the final store) does not depend on the
    abandoned context, and is the run of the captured continuation receiving `v` -/
theorem throw_result_independent_of_context (n i : Nat) (κ' : Kont) (v : Val) (κ₁ κ₂ : Kont) (σ : St)
    (ks : Array Kont) (hi : ks[i]? = some κ') :
    runK (n + 1) ⟨.app (contVal i) [v], κ₁, σ, ks⟩ = runK (n + 1) ⟨.app (contVal i) [v], κ₂, σ, ks⟩
    ∧ runK (n + 1) ⟨.app (contVal i) [v], κ₁, σ, ks⟩ = runK n ⟨.ret v, κ', σ, ks⟩ :=
  Marwood.Lemmas.EvalK.throw_result_independent_of_context n i κ' v κ₁ κ₂ σ ks hi

/-- variable and data mutations made since the capture stay visible: the store after the throw is the store at the throw -/
theorem mutations_survive_throw (i : Nat) (args : List Val) (κ : Kont) (σ : St) (ks : Array Kont) (s' : State)
    (h : stepK ⟨.app (contVal i) args, κ, σ, ks⟩ = .run s') : s'.σ = σ ∧ s'.ks = ks :=
  Marwood.Lemmas.EvalK.mutations_survive_throw i args κ σ ks s' h

/-- operands already evaluated at capture time keep their values: the continuation captured while an operand was being
    evaluated is the operand frame holding the values `done` of the earlier operands; re-entering it with `v` goes on with
    the NEXT operand, `done` is not evaluated again -/
theorem operands_evaluated_before_capture_are_kept (i : Nat) (ρ : Env) (done : List Val) (e : Datum)
    (es : List Datum) (th : ArgsThen) (κ₀ κ : Kont) (v : Val) (σ : St) (ks : Array Kont)
    (hi : ks[i]? = some (.args ρ done (e :: es) th :: κ₀)) (n : Nat) :
    runK (n + 2) ⟨.app (contVal i) [v], κ, σ, ks⟩
      = runK n ⟨.ev e ρ, .args ρ (v :: done) es th :: κ₀, σ, ks⟩ :=
  (Marwood.Lemmas.EvalK.operands_evaluated_before_capture_are_kept i ρ done e es th κ₀ κ v σ ks hi).2 n

/-- any number of times, from any depth, inside or after the extent, from a later top-level evaluation: in every state
    reached later the same continuation value still denotes the same continuation -/
theorem reentry_any_number_of_times (i : Nat) (κ' : Kont) (n : Nat) (s s' : State)
    (h0 : s.ks[i]? = some κ') (hreach : iterK n (.run s) = .run s') (v : Val) (κnow : Kont) :
    stepK ⟨.app (contVal i) [v], κnow, s'.σ, s'.ks⟩ = .run ⟨.ret v, κ', s'.σ, s'.ks⟩ :=
  Marwood.Lemmas.EvalK.reentry_any_number_of_times i κ' n s s' h0 hreach v κnow

/-- `Spec.EvalK` is tied to `Spec.Eval` (the specification C01's theorems are about): the machine that does not
    recognise `call/cc` simulates `Spec.Eval` on EVERY form of its language, in any continuation -/
theorem evalK_machine_simulates_eval (n : Nat) (e : Datum) (ρ : Env) (σ : St) (κ : Kont) (ks : Array Kont) :
    (∀ v σ', (evalN n).eval e ρ σ = .ok v σ' → Reach (evalIn e ρ κ σ ks) (retTo v κ σ' ks)) ∧
    (∀ c σ', (evalN n).eval e ρ σ = .err c σ' → Reach (evalIn e ρ κ σ ks) (.halt (.err c) σ' ks)) :=
  eval_agrees n e ρ σ κ ks

/-- … and the two machines coincide on a run that applies neither `call/cc` nor a continuation value -/
theorem evalK_agrees_with_eval (n m : Nat) (d : Datum) (σ : St) (ks : Array Kont)
    (hq : Quiet m (topGo d [] σ ks)) :
    (∀ v σ', evalTop (evalN n) d σ = .ok v σ' → runNext false m (topGo d [] σ ks) = some (.value v, σ', ks) →
        runNext true m (topGo d [] σ ks) = some (.value v, σ', ks)) ∧
    (∀ c σ', evalTop (evalN n) d σ = .err c σ' → runNext false m (topGo d [] σ ks) = some (.err c, σ', ks) →
        runNext true m (topGo d [] σ ks) = some (.err c, σ', ks)) :=
  Marwood.Lemmas.EvalKAgree.evalK_agrees_with_eval n m d σ ks hq

/-! non-vacuity on tiny programs (kernel evaluation of a few dozen machine steps) -/
private def sym (s : List Char) : Datum := .sym s
private def nat (n : Int) : Datum := .num (.fix n)
private def L (xs : List Datum) : Datum := Datum.ofList xs
/-- `(call/cc (lambda (k) body…))` -/
private def ccLam (body : List Datum) : Datum := L [sym k_callcc, L (sym k_lambda :: L [sym ['k']] :: body)]

/-- escape: `(+ 1 (call/cc (lambda (k) (* 2 (k 5)))))` is 6 — the pending `(* 2 _)` is abandoned -/
example : resultsK 100 [L [sym ['+'], nat 1, ccLam [L [sym ['*'], nat 2, L [sym ['k'], nat 5]]]]]
    = [.ok (.num (.fix 6))] := by decide +kernel

/-- normal return: `(+ 1 (call/cc (lambda (k) 7)))` is 8 -/
example : resultsK 100 [L [sym ['+'], nat 1, ccLam [nat 7]]] = [.ok (.num (.fix 8))] := by decide +kernel

/-- re-entry from a later top-level form, an operand evaluated before the capture, a mutation made since:
    `(define kk 0) (define n 0) (define r (list (begin (set! n (+ n 1)) n) (call/cc (lambda (k) (set! kk k) 5))))`
    `r` ⇒ (1 5); `(begin (set! n 10) (kk 9))` re-runs the rest of the definition (its value: void); `r` ⇒ (1 9): the
    first operand was NOT evaluated again (it would be 11); `n` ⇒ 10: the assignment made before the throw is visible -/
example : resultsK 200
    [L [sym k_define, sym ['k', 'k'], nat 0],
     L [sym k_define, sym ['n'], nat 0],
     L [sym k_define, sym ['r'],
        L [sym ['l', 'i', 's', 't'],
           L [sym k_begin_, L [sym k_setBang, sym ['n'], L [sym ['+'], sym ['n'], nat 1]], sym ['n']],
           ccLam [L [sym k_setBang, sym ['k', 'k'], sym ['k']], nat 5]]],
     sym ['r'],
     L [sym k_begin_, L [sym k_setBang, sym ['n'], nat 10], L [sym ['k', 'k'], nat 9]],
     sym ['r'],
     sym ['n']]
    = [.ok .void, .ok .void, .ok .void,
       .ok (.pair (.num (.fix 1)) (.pair (.num (.fix 5)) .nil)),
       .ok .void,
       .ok (.pair (.num (.fix 1)) (.pair (.num (.fix 9)) .nil)),
       .ok (.num (.fix 10))] := by decide +kernel

end CpsSpec

end Marwood.Proofs.C05
