import Marwood.Lemmas.TransformSoundPlain
import Marwood.Lemmas.TransformFuel
import Marwood.Lemmas.TransformAccept
import Marwood.Lemmas.TransformEllClasses
import Marwood.Lemmas.TransformTermTheorem
import Marwood.Lemmas.TransformEllAcceptTmpl
import Marwood.Lemmas.TransformDriverSound
import Marwood.Lemmas.TransformDriverTerm
import Marwood.Gen.Prelude
/-!
# C17 — syntax-rules is sound where supported and always terminates

Model: `Marwood.Transform.Model` (transform.rs after fix ff58560). Specification:
`Marwood.Spec.Match` (R7RS 4.3.2, non-hygienic). Property theorems only; the lemmas live in
`Marwood/Lemmas/Transform*.lean`.

## T17.1 soundness
`T17_1` is the full statement. It is **false** for the pinned code (known finding
`C17-empty-ellipsis-before-tail`): `soundness_fails_at_witness` proves the negation at a concrete
transformer and use. What is proved:

* `soundness_noEllipsis_partial` — pattern class 1 (no ellipsis in any pattern or template of the
  transformer; literals, `_`, data, nested lists and a custom ellipsis name are covered): every
  expansion is R7RS's — some rule `i` matches per R7RS, no earlier rule matches per R7RS (so the
  matcher is complete there), and the expansion is the instantiation of rule `i`'s template.
* `rule_selection_partial` / `rule_selection_gapfree` — classes 2–5 (trailing ellipsis; ellipsis
  followed by a fixed tail, i.e. the `len() + 2` hand-off; sub-patterns under an ellipsis; literals,
  `_`, custom ellipsis): the rule that fires is R7RS's first matching rule, with the explicit
  decidable guard `GapFree` (`Spec.Match.zeroRepTail`) for the completeness half.
* `soundness_depthOne_partial` (general class `DepthOne`: ellipsis depth ≤ 1 anywhere in the patterns,
  templates made of groups `U ...` with `U` ellipsis-free) and its instances
  `soundness_trailingEllipsis_partial` (`(_ p1 … pn x ...)`, no guard needed),
  `soundness_ellipsisThenTail_partial` (`(_ p1 … pn x ... q1 … qm)`, guard `GapFree`),
  `soundness_subpatternEllipsis_partial` (`(_ p1 … pn P ... q1 … qm)`, guard `GapFree`): the expansion
  equals R7RS's instantiation (`expand` with the per-variable cursors against `Spec.Match.inst`), or
  the spec says `mismatch` (unequal counts, the excluded uses); `soundness_depthOne_exact_partial`
  states it with the explicit decidable hypothesis `CountsAgree`.
* `accepted_depthOne`: every transformer `try_new` accepts is in `DepthOne` (nested ellipses, depth 2,
  are rejected at definition: `definition_check_rejects_nested_ellipsis`), hence
  `soundness_gapfree_partial` / `soundness_gapfree_exact_partial`: T17.1 for EVERY accepted transformer
  and every use outside the known gap `GapFree` — the only excluded inputs are those of the known
  finding.

## T17.2 termination
* `patternMatch_terminates` — the matcher terminates on **every** input (any pattern, any ellipsis,
  any literals) with fuel `3·|expr| + 1`.
* `expand_diverges_without_definition_check` — the non-termination of the pinned `expand` on a
  template `(a ...)` whose `a` is not ellipsis-bound, for every fuel (the model of `expand` is the
  pinned loop); `definition_check_rejects_diverging_template`: fix ff58560 rejects that definition.
* `expand_terminates` / `transform_terminates` / `transform_terminates_driver_fuel` — for every
  transformer accepted by `try_new`, `expand` with `n` bindings does not run out of fuel
  `expandFuel T n = 2·(n+1)·|T|`, and `transform` does not run out of the driver's `useFuel`.
-/
namespace Marwood.Proofs.C17
open Marwood Marwood.Transform Marwood.Spec.Match

/-! ## Statements -/

/-- no rule of the transformer meets the `zeroRepTail` situation on this use (decidable) -/
def GapFree (c : Ctx) (rules : List Rule) (u : Datum) : Bool :=
  rules.all fun r => !zeroRepTailRule c r u

/-- T17.1 at full strength: for every transformer accepted by `try_new` and every use, an
    expansion is the one R7RS prescribes (errors are always allowed). -/
def T17_1 : Prop :=
  ∀ (f0 : Nat) (d : Datum) (t : Transform) (fuel : Nat) (u e : Datum),
    Transform.tryNew f0 d = .ok t → t.transform fuel u = .ok e →
    ∃ s : Setup, t.ellipsis = s.ell ∧ t.literals = s.lits ∧ Sound s.ctx (specRules t) u e

/-- the decidable class restriction of the proved part: the ellipsis occurs in no pattern and in no
    template (so all of them are proper lists without vectors, as `try_new` demands anyway) -/
def NoEllipsis (t : Transform) : Prop :=
  ∀ es, t.ellipsis = .sym es → ∀ r ∈ t.rules, plain es r.1.expr = true ∧ plain es r.2 = true

/-! ## T17.1, class 1 -/

theorem soundness_noEllipsis_partial (f0 : Nat) (d : Datum) (t : Transform) (fuel : Nat) (u e : Datum)
    (hdef : Transform.tryNew f0 d = .ok t) (hclass : NoEllipsis t)
    (huse : t.transform fuel u = .ok e) :
    ∃ s : Setup, t.ellipsis = s.ell ∧ t.literals = s.lits ∧ Sound s.ctx (specRules t) u e := by
  obtain ⟨s, hte, htl, hrules⟩ := Transform.tryNew_ok hdef
  refine ⟨s, hte, htl, ?_⟩
  unfold Transform.transform at huse
  split at huse
  · cases huse
  · have hcl := hclass s.es (by simpa [Setup.ell] using hte)
    exact transformRules_plain s fuel f0 t u hte htl t.rules e
      (fun r hr => ⟨hrules r hr, (hcl r hr).1, (hcl r hr).2⟩) huse

/-- `(define-syntax m (syntax-rules () ((_ a ... b) (a ... b)) ((_ c) (s c))))` -/
def gapDef' : Datum :=
  Datum.ofList [.sym ['d'], .sym ['m'], Datum.ofList [.sym ['s','y','n','t','a','x','-','r','u','l','e','s'], .nil,
    Datum.ofList [Datum.ofList [.sym ['_'], .sym ['a'], .sym ['.','.','.'], .sym ['b']],
                  Datum.ofList [.sym ['a'], .sym ['.','.','.'], .sym ['b']]],
    Datum.ofList [Datum.ofList [.sym ['_'], .sym ['c']], Datum.ofList [.sym ['s'], .sym ['c']]]]]

/-! ## T17.1, classes 2–5: which rule fires

For every transformer `try_new` accepts (its patterns are then `wfPattern`: proper, vector-free lists
that do not start with the ellipsis and contain it at most once — trailing ellipsis, ellipsis
followed by a fixed tail, sub-patterns under an ellipsis, with literals, `_`, data and a custom
ellipsis) the verdict of the matcher's state machine, including the
`pattern_iter.len() == expr_iter.len() + 2` hand-off, is R7RS's: the rule `transform` expands with
matches per R7RS, and every earlier rule does not match per R7RS or is in the excluded class
`zeroRepTail` (the known finding). This is the first two conjuncts of T17.1; the third
(`e = instantiate`) is proved for class 1 only and otherwise carried by the correspondence. -/

/-- **every transformer `try_new` accepts has well-formed patterns** (`check_pattern_support`:
    proper, vector-free; `Pattern::build`: no leading ellipsis, at most one per list) -/
theorem accepted_patterns_wellformed (f0 : Nat) (d : Datum) (t : Transform)
    (hdef : Transform.tryNew f0 d = .ok t) :
    ∃ s : Setup, t.ellipsis = s.ell ∧ t.literals = s.lits ∧
      ∀ r ∈ t.rules, wfPattern s.es r.1.expr = true := by
  obtain ⟨s, hte, htl, hrules⟩ := Transform.tryNew_ok hdef
  exact ⟨s, hte, htl, fun r hr => ruleOK_wfPattern s (hrules r hr)⟩

theorem rule_selection_partial (f0 : Nat) (d : Datum) (t : Transform) (fuel : Nat) (u e : Datum)
    (hdef : Transform.tryNew f0 d = .ok t)
    (huse : t.transform fuel u = .ok e) :
    ∃ s : Setup, t.ellipsis = s.ell ∧ t.literals = s.lits ∧ Selects s.ctx (specRules t) u := by
  obtain ⟨s, hte, htl, hwf⟩ := accepted_patterns_wellformed f0 d t hdef
  refine ⟨s, hte, htl, ?_⟩
  unfold Transform.transform at huse
  split at huse
  · cases huse
  · exact transformRules_selects s fuel t u hte htl t.rules e hwf huse

/-- with the guard, the selected rule is exactly R7RS's first matching rule -/
theorem rule_selection_gapfree (f0 : Nat) (d : Datum) (t : Transform) (fuel : Nat) (u e : Datum)
    (hdef : Transform.tryNew f0 d = .ok t)
    (huse : t.transform fuel u = .ok e) :
    ∃ s : Setup, t.ellipsis = s.ell ∧ t.literals = s.lits ∧
      (GapFree s.ctx (specRules t) u = true →
        ∃ i r, (specRules t)[i]? = some r ∧ (matchRule s.ctx r u).isSome = true ∧
          ∀ j : Nat, j < i → ∀ r', (specRules t)[j]? = some r' → matchRule s.ctx r' u = none) := by
  obtain ⟨s, hte, htl, i, r, hi, hm, hprev⟩ := rule_selection_partial f0 d t fuel u e hdef huse
  refine ⟨s, hte, htl, fun hg => ⟨i, r, hi, hm, fun j hj r' hr' => ?_⟩⟩
  rcases hprev j hj r' hr' with h | h
  · exact h
  · exfalso
    have hmem : r' ∈ specRules t := List.mem_of_getElem? hr'
    simp only [GapFree, List.all_eq_true] at hg
    have := hg r' hmem
    simp [h] at this

/-- hypotheses satisfiable non-trivially: `(syntax-rules () ((_ a ... b) (a ... b)) ((_ c) (s c)))`
    on `(m 1 2 3)` goes through the hand-off and expands with the first rule -/
example : ∃ t, Transform.tryNew 100 gapDef' = .ok t ∧
    t.transform 200 (Datum.ofList [.sym ['m'], .num (.fix 1), .num (.fix 2), .num (.fix 3)])
      = .ok (Datum.ofList [.num (.fix 1), .num (.fix 2), .num (.fix 3)]) ∧
    GapFree ⟨['.','.','.'], []⟩ (specRules t)
      (Datum.ofList [.sym ['m'], .num (.fix 1), .num (.fix 2), .num (.fix 3)]) = true :=
  ⟨_, rfl, rfl, rfl⟩

/-! ## The witness of the known finding -/

/-- `(define-syntax m (syntax-rules () ((_ a ... b) (a ... b)) ((_ c) (s c))))` -/
def gapDef : Datum :=
  Datum.ofList [.sym ['d'], .sym ['m'], Datum.ofList [.sym ['s','y','n','t','a','x','-','r','u','l','e','s'], .nil,
    Datum.ofList [Datum.ofList [.sym ['_'], .sym ['a'], .sym ['.','.','.'], .sym ['b']],
                  Datum.ofList [.sym ['a'], .sym ['.','.','.'], .sym ['b']]],
    Datum.ofList [Datum.ofList [.sym ['_'], .sym ['c']], Datum.ofList [.sym ['s'], .sym ['c']]]]]

/-- `(m 1)` -/
def gapUse : Datum := Datum.ofList [.sym ['m'], .num (.fix 1)]

/-- the pinned code accepts the definition and expands `(m 1)` to `(s 1)` (the second rule) -/
theorem gap_model :
    (Transform.tryNew (defFuel gapDef) gapDef >>= fun t => t.transform (useFuel gapDef gapUse) gapUse)
      = .ok (Datum.ofList [.sym ['s'], .num (.fix 1)]) := by
  decide

def gapCtx : Ctx := { ellipsis := ['.','.','.'], literals := [] }
def gapRule0 : Rule :=
  ⟨Datum.ofList [.sym ['_'], .sym ['a'], .sym ['.','.','.'], .sym ['b']],
   Datum.ofList [.sym ['a'], .sym ['.','.','.'], .sym ['b']]⟩

/-- R7RS: the first rule matches `(m 1)` with no item for `a`, and the expansion is `(1)` -/
theorem gap_spec :
    specExpand gapCtx [gapRule0, ⟨Datum.ofList [.sym ['_'], .sym ['c']], Datum.ofList [.sym ['s'], .sym ['c']]⟩] gapUse
      = .ok (Datum.ofList [.num (.fix 1)]) := by
  rfl

/-- the use is in the class the guard excludes -/
theorem gap_guard : GapFree gapCtx [gapRule0] gapUse = false := by decide

def gapRule1 : Rule := ⟨Datum.ofList [.sym ['_'], .sym ['c']], Datum.ofList [.sym ['s'], .sym ['c']]⟩

theorem gap_t_facts : ∃ t, Transform.tryNew (defFuel gapDef) gapDef = .ok t ∧
    t.ellipsis = .sym ['.','.','.'] ∧ t.literals = [] ∧ specRules t = [gapRule0, gapRule1] :=
  ⟨_, rfl, rfl, rfl, rfl⟩

/-- **The full statement T17.1 is false for the pinned code**: the transformer
    `(syntax-rules () ((_ a ... b) (a ... b)) ((_ c) (s c)))` is accepted and expands `(m 1)` to
    `(s 1)`, while R7RS prescribes `(1)` (first rule, no item for `a`). -/
theorem soundness_fails_at_witness : ¬ T17_1 := by
  intro H
  obtain ⟨t, ht, he, hl, hr⟩ := gap_t_facts
  have hm := gap_model
  rw [ht] at hm
  simp only [bind, Res.bind] at hm
  obtain ⟨s, hte, htl, i, r, b, hi, hmatch, hprev, hinst⟩ := H _ _ t _ _ _ ht hm
  have hctx : s.ctx = gapCtx := by
    obtain ⟨es, names, hne⟩ := s
    simp only [Setup.ell, Setup.lits] at hte htl
    rw [he] at hte; rw [hl] at htl
    cases hte
    have : names = [] := by cases names <;> simp at htl <;> rfl
    subst this
    rfl
  rw [hr] at hi hprev
  rw [hctx] at hmatch hprev hinst
  have h0 : matchRule gapCtx gapRule0 gapUse
      = some [(['a'], .many []), (['b'], .one (.num (.fix 1)))] := rfl
  match i, hi, hprev with
  | 0, hi, _ =>
    simp at hi; subst hi
    rw [h0] at hmatch
    cases hmatch
    have hc : instantiate gapCtx gapRule0.template [(['a'], .many []), (['b'], .one (.num (.fix 1)))]
        = .ok (Datum.ofList [.num (.fix 1)]) := rfl
    rw [hc] at hinst
    rcases hinst with h | h
    · have : Datum.ofList [Datum.num (.fix 1)] = Datum.ofList [.sym ['s'], .num (.fix 1)] := by
        injection h
      exact absurd this (by decide)
    · cases h
  | 1, _, hprev =>
    have := hprev 0 (by omega) gapRule0 rfl
    rw [h0] at this
    cases this
  | i + 2, hi, _ => simp at hi

/-! ## The hypotheses of `soundness_noEllipsis_partial` are satisfiable, non-trivially -/

/-- `(define-syntax m (syntax-rules (else) ((_ else (x) _) (x (x x))) ((_ y 5 z) (y z))))` -/
def plainDef : Datum :=
  Datum.ofList [.sym ['d'], .sym ['m'], Datum.ofList [.sym ['s','y','n','t','a','x','-','r','u','l','e','s'],
    Datum.ofList [.sym ['e','l','s','e']],
    Datum.ofList [Datum.ofList [.sym ['_'], .sym ['e','l','s','e'], Datum.ofList [.sym ['x']], .sym ['_']],
                  Datum.ofList [.sym ['x'], Datum.ofList [.sym ['x'], .sym ['x']]]],
    Datum.ofList [Datum.ofList [.sym ['_'], .sym ['y'], .num (.fix 5), .sym ['z']],
                  Datum.ofList [.sym ['y'], .sym ['z']]]]]

/-- `(m (a) 5 #t)`: the first rule does not match (no literal `else`), the second does -/
def plainUse : Datum :=
  Datum.ofList [.sym ['m'], Datum.ofList [.sym ['a']], .num (.fix 5), .bool true]

example : ∃ t, Transform.tryNew (defFuel plainDef) plainDef = .ok t ∧ NoEllipsis t ∧
    t.transform (useFuel plainDef plainUse) plainUse
      = .ok (Datum.ofList [Datum.ofList [.sym ['a']], .bool true]) := by
  refine ⟨_, rfl, ?_, rfl⟩
  intro es hes r hr
  have : es = ['.','.','.'] := by injection hes with h; exact h.symm
  subst this
  revert r
  decide

/-! ## T17.2 termination -/

/-- **`pattern_match` terminates on every input**: whatever the pattern, the ellipsis and the
    literals, fuel `3·|expr| + 1` suffices (every loop iteration consumes an item of the expression). -/
theorem patternMatch_terminates (ell : Datum) (lits : List Datum) (p e : Datum) (env : Bindings)
    (f : Nat) (h : 3 * dsize e + 1 ≤ f) : ∃ r, patternMatch ell lits f p e env = .ok r :=
  Marwood.Transform.patternMatch_terminates ell lits p e env f h

example : ∃ r, patternMatch defaultEllipsis [] 100
    (Datum.ofList [.sym ['a'], defaultEllipsis, .sym ['b']])
    (Datum.ofList [.num (.fix 1), .num (.fix 2), .num (.fix 3)]) [] = .ok r ∧ r.1 = true :=
  ⟨_, rfl, rfl⟩

/-- pattern `(_ a b ...)`: `a` is an ordinary variable, `b` an ellipsis variable -/
def loopPat : Pattern :=
  { expr := Datum.ofList [.sym ['_'], .sym ['a'], .sym ['b'], defaultEllipsis],
    variables := [.sym ['a'], .sym ['b']], expanded := [.sym ['b']],
    ellipsis := defaultEllipsis, literals := [] }

def loopEnv : PEnv := PEnv.new loopPat [(.sym ['a'], .num (.fix 1)), (.sym ['b'], .num (.fix 2))]

theorem expandLoop_spins : ∀ (f : Nat) (v : List Datum),
    expandLoop defaultEllipsis loopPat f (.sym ['a']) [defaultEllipsis] v loopEnv = .fuel := by
  intro f
  induction f with
  | zero => intro v; rfl
  | succ f ih =>
    intro v
    cases f with
    | zero => rfl
    | succ f =>
      have h := ih (v ++ [.num (.fix 1)])
      unfold expandLoop
      have he : expand defaultEllipsis loopPat (f + 1) (.sym ['a']) loopEnv
          = .ok (some (.num (.fix 1)), loopEnv) := rfl
      rw [he]
      simp only [peekIs, defaultEllipsis, cellEq_sym_left, decide_true, if_true]
      exact h

/-- **Non-termination of the pinned `expand`** (the loop itself is unchanged by the fix): on the
    template `(a ...)` with `a` not ellipsis-bound it never leaves its loop — the model runs out of
    fuel for every fuel. Before fix ff58560 `try_new` accepted this template. -/
theorem expand_diverges_without_definition_check (fuel : Nat) :
    expand defaultEllipsis loopPat fuel (Datum.ofList [.sym ['a'], defaultEllipsis]) loopEnv = .fuel := by
  cases fuel with
  | zero => rfl
  | succ f =>
    unfold expand
    simp only [Datum.ofList]
    exact expandLoop_spins f []

/-- `(define-syntax m (syntax-rules () ((_ a b ...) (a ...))))` -/
def loopDef : Datum :=
  Datum.ofList [.sym ['d'], .sym ['m'], Datum.ofList [.sym ['s','y','n','t','a','x','-','r','u','l','e','s'], .nil,
    Datum.ofList [Datum.ofList [.sym ['_'], .sym ['a'], .sym ['b'], defaultEllipsis],
                  Datum.ofList [.sym ['a'], defaultEllipsis]]]]

/-- since fix ff58560 the definition that made `expand` loop is rejected -/
theorem definition_check_rejects_diverging_template :
    Transform.tryNew (defFuel loopDef) loopDef = .err .syntax := by decide

/-! ## T17.1, classes with ellipsis -/

/-- class predicate of one rule: the pattern body is a proper list whose items satisfy `bodyPred`
    (one of `bodyTrailing`, `bodyVarTail`, `bodySubTail`), the template is in class `tP` for the
    ellipsis variables of the pattern -/
def classRule (bodyPred : Text → List Datum → Bool) (c : Ctx) (r : Pattern × Datum) : Bool :=
  match r.1.expr with
  | .pair _ body =>
    endsInNil body && bodyPred c.ellipsis (iterList body) && tP c.ellipsis (ellVars c body) r.2
  | _ => false

/-- class 2 of T17.1 (decidable): every pattern is `(_ p1 … pn x <ellipsis>)` -/
def TrailingEllipsis (t : Transform) : Bool := t.rules.all (classRule bodyTrailing (ctxOf t))
/-- class 3 (decidable): every pattern is `(_ p1 … pn x <ellipsis> q1 … qm)` -/
def EllipsisThenTail (t : Transform) : Bool := t.rules.all (classRule bodyVarTail (ctxOf t))
/-- class 4 (decidable): every pattern is `(_ p1 … pn P <ellipsis> q1 … qm)`, `P` a sub-pattern -/
def SubpatternEllipsis (t : Transform) : Bool := t.rules.all (classRule bodySubTail (ctxOf t))
/-- the general class (decidable): ellipsis depth ≤ 1 anywhere in the patterns (also inside nested
    lists), templates in class `tP` -/
def DepthOne (t : Transform) : Bool := t.rules.all (ruleD1 (ctxOf t))

theorem classRule_d1 (bodyPred : Text → List Datum → Bool)
    (hp : ∀ es items, bodyPred es items = true → bodySubTail es items = true)
    (c : Ctx) (r : Pattern × Datum) (h : classRule bodyPred c r = true) : ruleD1 c r = true := by
  unfold classRule at h
  unfold ruleD1
  split at h
  · rename_i kw body heq
    simp only [heq]
    simp only [Bool.and_eq_true] at h ⊢
    refine ⟨?_, h.2⟩
    have := nn_of_subTail c.ellipsis _ (hp _ _ h.1.2)
    rw [← endsInNil_ofList h.1.1] at this
    exact this
  · cases h

theorem subpatternEllipsis_depthOne {t : Transform} (h : SubpatternEllipsis t = true) : DepthOne t = true := by
  simp only [SubpatternEllipsis, DepthOne, List.all_eq_true] at h ⊢
  exact fun r hr => classRule_d1 _ (fun _ _ h => h) _ r (h r hr)

theorem ellipsisThenTail_depthOne {t : Transform} (h : EllipsisThenTail t = true) : DepthOne t = true := by
  simp only [EllipsisThenTail, DepthOne, List.all_eq_true] at h ⊢
  exact fun r hr => classRule_d1 _ (fun es items h => bodyVarTail_subTail es items h) _ r (h r hr)

theorem trailingEllipsis_depthOne {t : Transform} (h : TrailingEllipsis t = true) : DepthOne t = true := by
  simp only [TrailingEllipsis, DepthOne, List.all_eq_true] at h ⊢
  exact fun r hr => classRule_d1 _
    (fun es items h => bodyVarTail_subTail es items (bodyTrailing_varTail es items h)) _ r (h r hr)

/-- **T17.1 for ellipsis depth ≤ 1** (general class; literals, `_`, data, a custom ellipsis name,
    ellipses inside nested lists, several groups per template list): with the guard `GapFree` every
    expansion is R7RS's — some rule `i` matches per R7RS, no earlier rule matches per R7RS, and the
    expansion is the instantiation of rule `i`'s template, unless the specification answers
    `mismatch` (the ellipsis variables of one sub-template matched different numbers of items). -/
theorem soundness_depthOne_partial (f0 : Nat) (d : Datum) (t : Transform) (fuel : Nat) (u e : Datum)
    (hdef : Transform.tryNew f0 d = .ok t) (hclass : DepthOne t = true)
    (hgap : GapFree (ctxOf t) (specRules t) u = true)
    (huse : t.transform fuel u = .ok e) :
    ∃ s : Setup, t.ellipsis = s.ell ∧ t.literals = s.lits ∧ Sound s.ctx (specRules t) u e := by
  obtain ⟨s, hte, htl, hrules⟩ := Transform.tryNew_ok hdef
  refine ⟨s, hte, htl, ?_⟩
  have hctx := ctxOf_eq s t hte htl
  rw [hctx] at hgap
  simp only [DepthOne, hctx, List.all_eq_true] at hclass
  unfold Transform.transform at huse
  split at huse
  · cases huse
  · refine transformRules_d1 s fuel f0 t u hte htl t.rules e
      (fun r hr => ⟨hrules r hr, hclass r hr⟩) ?_ huse
    intro r hr
    simp only [GapFree, List.all_eq_true] at hgap
    have := hgap ⟨r.1.expr, r.2⟩ (by simp only [specRules, List.mem_map]; exact ⟨r, hr, rfl⟩)
    simpa using this


/-- **T17.1, class "sub-pattern under an ellipsis, then a fixed tail"** `(_ p1 … pn P <ell> q1 … qm)`
    (under `GapFree`) -/
theorem soundness_subpatternEllipsis_partial (f0 : Nat) (d : Datum) (t : Transform) (fuel : Nat) (u e : Datum)
    (hdef : Transform.tryNew f0 d = .ok t) (hclass : SubpatternEllipsis t = true)
    (hgap : GapFree (ctxOf t) (specRules t) u = true)
    (huse : t.transform fuel u = .ok e) :
    ∃ s : Setup, t.ellipsis = s.ell ∧ t.literals = s.lits ∧ Sound s.ctx (specRules t) u e :=
  soundness_depthOne_partial f0 d t fuel u e hdef (subpatternEllipsis_depthOne hclass) hgap huse

/-- **T17.1, class "ellipsis followed by a fixed tail"** `(_ p1 … pn x <ell> q1 … qm)`, the
    `len() + 2` hand-off (under `GapFree`) -/
theorem soundness_ellipsisThenTail_partial (f0 : Nat) (d : Datum) (t : Transform) (fuel : Nat) (u e : Datum)
    (hdef : Transform.tryNew f0 d = .ok t) (hclass : EllipsisThenTail t = true)
    (hgap : GapFree (ctxOf t) (specRules t) u = true)
    (huse : t.transform fuel u = .ok e) :
    ∃ s : Setup, t.ellipsis = s.ell ∧ t.literals = s.lits ∧ Sound s.ctx (specRules t) u e :=
  soundness_depthOne_partial f0 d t fuel u e hdef (ellipsisThenTail_depthOne hclass) hgap huse

/-- a transformer in the trailing class never meets the `zeroRepTail` situation -/
theorem trailingEllipsis_gapFree (s : Setup) {t : Transform} (hte : t.ellipsis = s.ell)
    (htl : t.literals = s.lits) (h : TrailingEllipsis t = true) (u : Datum) :
    GapFree (ctxOf t) (specRules t) u = true := by
  have hctx := ctxOf_eq s t hte htl
  simp only [TrailingEllipsis, hctx, List.all_eq_true] at h
  simp only [GapFree, hctx, List.all_eq_true, specRules, List.mem_map]
  rintro _ ⟨r, hr, rfl⟩
  have hc := h r hr
  unfold classRule at hc
  split at hc
  · rename_i kw body heq
    simp only [Bool.and_eq_true] at hc
    simp only [zeroRepTailRule, heq]
    cases u with
    | pair ukw urest =>
      simp only
      have := gp_trailing s _ hc.1.2 urest
      rw [← endsInNil_ofList hc.1.1] at this
      simp only [gp] at this
      simp [this]
    | _ => rfl
  · cases hc

/-- **T17.1, class "trailing ellipsis"** `(_ p1 … pn x <ell>)`: no guard needed — the matcher is
    complete on this class, so the rule that fires is R7RS's first matching rule and the expansion
    is its instantiation (or the use is one with unequal counts: `mismatch`). -/
theorem soundness_trailingEllipsis_partial (f0 : Nat) (d : Datum) (t : Transform) (fuel : Nat) (u e : Datum)
    (hdef : Transform.tryNew f0 d = .ok t) (hclass : TrailingEllipsis t = true)
    (huse : t.transform fuel u = .ok e) :
    ∃ s : Setup, t.ellipsis = s.ell ∧ t.literals = s.lits ∧ Sound s.ctx (specRules t) u e := by
  obtain ⟨s, hte, htl, _⟩ := Transform.tryNew_ok hdef
  exact soundness_depthOne_partial f0 d t fuel u e hdef (trailingEllipsis_depthOne hclass)
    (trailingEllipsis_gapFree s hte htl hclass u) huse

/-! ### the excluded uses as an explicit hypothesis -/

/-- the use is not one the property excludes: the specification does not answer `mismatch`
    (`Spec.Match.repBinds`: the ellipsis variables of one sub-template matched different numbers of
    items). Decidable. -/
def CountsAgree (c : Ctx) (rules : List Rule) (u : Datum) : Bool :=
  match specExpand c rules u with
  | .mismatch => false
  | _ => true

theorem sound_specExpand {c : Ctx} {rules : List Rule} {u e : Datum} (h : Sound c rules u e) :
    specExpand c rules u = .ok e ∨ specExpand c rules u = .mismatch := by
  obtain ⟨i, r, b, hi, hm, hprev, hinst⟩ := h
  induction rules generalizing i with
  | nil => simp at hi
  | cons r0 rules ih =>
    cases i with
    | zero =>
      simp only [List.getElem?_cons_zero, Option.some.injEq] at hi
      subst hi
      simp only [Spec.Match.specExpand, hm]
      rcases hinst with h | h <;> simp [h]
    | succ i =>
      have h0 := hprev 0 (by omega) r0 rfl
      simp only [Spec.Match.specExpand, h0]
      exact ih i (by simpa using hi) (fun j hj r' hr' => hprev (j + 1) (by omega) r' (by simpa using hr'))

/-- **T17.1 for ellipsis depth ≤ 1, exact form**: for a use whose ellipsis variables matched equal
    numbers of items (`CountsAgree`) and that avoids the known gap (`GapFree`), an expansion of the
    implementation IS the specification's expansion. -/
theorem soundness_depthOne_exact_partial (f0 : Nat) (d : Datum) (t : Transform) (fuel : Nat) (u e : Datum)
    (hdef : Transform.tryNew f0 d = .ok t) (hclass : DepthOne t = true)
    (hgap : GapFree (ctxOf t) (specRules t) u = true)
    (hcounts : CountsAgree (ctxOf t) (specRules t) u = true)
    (huse : t.transform fuel u = .ok e) :
    specExpand (ctxOf t) (specRules t) u = .ok e := by
  obtain ⟨s, hte, htl, hs⟩ := soundness_depthOne_partial f0 d t fuel u e hdef hclass hgap huse
  rw [ctxOf_eq s t hte htl] at hcounts ⊢
  rcases sound_specExpand hs with h | h
  · exact h
  · simp [CountsAgree, h] at hcounts


/-! ### the class hypotheses are satisfiable, non-trivially -/

def srSym : Datum := .sym ['s','y','n','t','a','x','-','r','u','l','e','s']
def n1 : Datum := .num (.fix 1)
def n2 : Datum := .num (.fix 2)
def n3 : Datum := .num (.fix 3)
def n4 : Datum := .num (.fix 4)
def n5 : Datum := .num (.fix 5)

/-- `(define-syntax m (syntax-rules () ((_ f x ...) (f (q x) ...))))` -/
def trailDef : Datum :=
  Datum.ofList [.sym ['d'], .sym ['m'], Datum.ofList [srSym, .nil,
    Datum.ofList [Datum.ofList [.sym ['_'], .sym ['f'], .sym ['x'], defaultEllipsis],
                  Datum.ofList [.sym ['f'], Datum.ofList [.sym ['q'], .sym ['x']], defaultEllipsis]]]]

/-- `(m g 1 2)` expands to `(g (q 1) (q 2))`; `(m g)` to `(g)` -/
example : ∃ t, Transform.tryNew (defFuel trailDef) trailDef = .ok t ∧ TrailingEllipsis t = true ∧
    t.transform 100 (Datum.ofList [.sym ['m'], .sym ['g'], n1, n2])
      = .ok (Datum.ofList [.sym ['g'], Datum.ofList [.sym ['q'], n1], Datum.ofList [.sym ['q'], n2]]) ∧
    t.transform 100 (Datum.ofList [.sym ['m'], .sym ['g']]) = .ok (Datum.ofList [.sym ['g']]) :=
  ⟨_, rfl, by decide +kernel, by decide +kernel, by decide +kernel⟩

/-- `(define-syntax m (syntax-rules () ((_ x ... y) (y x ...)) ((_) 0)))` -/
def tailDef : Datum :=
  Datum.ofList [.sym ['d'], .sym ['m'], Datum.ofList [srSym, .nil,
    Datum.ofList [Datum.ofList [.sym ['_'], .sym ['x'], defaultEllipsis, .sym ['y']],
                  Datum.ofList [.sym ['y'], .sym ['x'], defaultEllipsis]],
    Datum.ofList [Datum.ofList [.sym ['_']], .num (.fix 0)]]]

/-- `(m 1 2 3)` goes through the hand-off and expands to `(3 1 2)` -/
example : ∃ t, Transform.tryNew (defFuel tailDef) tailDef = .ok t ∧ EllipsisThenTail t = false ∧
    DepthOne t = true ∧
    GapFree (ctxOf t) (specRules t) (Datum.ofList [.sym ['m'], n1, n2, n3]) = true ∧
    CountsAgree (ctxOf t) (specRules t) (Datum.ofList [.sym ['m'], n1, n2, n3]) = true ∧
    t.transform 100 (Datum.ofList [.sym ['m'], n1, n2, n3]) = .ok (Datum.ofList [n3, n1, n2]) :=
  ⟨_, rfl, by decide +kernel, by decide +kernel, by decide +kernel, by decide +kernel, by decide +kernel⟩

/-- `(define-syntax m (syntax-rules () ((_ x ... y) (y x ...))))` -/
def tailDef1 : Datum :=
  Datum.ofList [.sym ['d'], .sym ['m'], Datum.ofList [srSym, .nil,
    Datum.ofList [Datum.ofList [.sym ['_'], .sym ['x'], defaultEllipsis, .sym ['y']],
                  Datum.ofList [.sym ['y'], .sym ['x'], defaultEllipsis]]]]

example : ∃ t, Transform.tryNew (defFuel tailDef1) tailDef1 = .ok t ∧ EllipsisThenTail t = true ∧
    GapFree (ctxOf t) (specRules t) (Datum.ofList [.sym ['m'], n1, n2, n3]) = true ∧
    t.transform 100 (Datum.ofList [.sym ['m'], n1, n2, n3]) = .ok (Datum.ofList [n3, n1, n2]) :=
  ⟨_, rfl, by decide +kernel, by decide +kernel, by decide +kernel⟩

/-- `(define-syntax m (syntax-rules () ((_ (a b) ... z) ((b ...) (a z) ...))))` -/
def subDef : Datum :=
  Datum.ofList [.sym ['d'], .sym ['m'], Datum.ofList [srSym, .nil,
    Datum.ofList [Datum.ofList [.sym ['_'], Datum.ofList [.sym ['a'], .sym ['b']], defaultEllipsis, .sym ['z']],
                  Datum.ofList [Datum.ofList [.sym ['b'], defaultEllipsis],
                                Datum.ofList [.sym ['a'], .sym ['z']], defaultEllipsis]]]]

/-- `(m (1 2) (3 4) 5)` expands to `((2 4) (1 5) (3 5))` -/
example : ∃ t, Transform.tryNew (defFuel subDef) subDef = .ok t ∧ SubpatternEllipsis t = true ∧
    GapFree (ctxOf t) (specRules t)
      (Datum.ofList [.sym ['m'], Datum.ofList [n1, n2], Datum.ofList [n3, n4], n5]) = true ∧
    t.transform 100 (Datum.ofList [.sym ['m'], Datum.ofList [n1, n2], Datum.ofList [n3, n4], n5])
      = .ok (Datum.ofList [Datum.ofList [n2, n4], Datum.ofList [n1, n5], Datum.ofList [n3, n5]]) :=
  ⟨_, rfl, by decide +kernel, by decide +kernel, by decide +kernel⟩

/-- `(define-syntax m (syntax-rules ::: (else) ((_ _ (k v) ::: else w) ((k :::) w (v :::)))))`:
    a custom ellipsis, a literal and `_` -/
def litDef : Datum :=
  Datum.ofList [.sym ['d'], .sym ['m'], Datum.ofList [srSym, .sym [':',':',':'],
    Datum.ofList [.sym ['e','l','s','e']],
    Datum.ofList [Datum.ofList [.sym ['_'], .sym ['_'], Datum.ofList [.sym ['k'], .sym ['v']], .sym [':',':',':'],
                                .sym ['e','l','s','e'], .sym ['w']],
                  Datum.ofList [Datum.ofList [.sym ['k'], .sym [':',':',':']], .sym ['w'],
                                Datum.ofList [.sym ['v'], .sym [':',':',':']]]]]]

/-- `(m 9 (1 2) (3 4) else 5)` expands to `((1 3) 5 (2 4))`; `...` is an ordinary identifier here -/
example : ∃ t, Transform.tryNew (defFuel litDef) litDef = .ok t ∧ SubpatternEllipsis t = true ∧
    GapFree (ctxOf t) (specRules t)
      (Datum.ofList [.sym ['m'], .num (.fix 9), Datum.ofList [n1, n2], Datum.ofList [n3, n4], .sym ['e','l','s','e'], n5]) = true ∧
    t.transform 100
      (Datum.ofList [.sym ['m'], .num (.fix 9), Datum.ofList [n1, n2], Datum.ofList [n3, n4], .sym ['e','l','s','e'], n5])
      = .ok (Datum.ofList [Datum.ofList [n1, n3], n5, Datum.ofList [n2, n4]]) :=
  ⟨_, rfl, by decide +kernel, by decide +kernel, by decide +kernel⟩

/-- `(define-syntax m (syntax-rules () ((_ (a ...) (b ...)) ((a b) ...))))`: ellipses inside nested
    lists — in `DepthOne` but in none of the three list classes -/
def zipDef : Datum :=
  Datum.ofList [.sym ['d'], .sym ['m'], Datum.ofList [srSym, .nil,
    Datum.ofList [Datum.ofList [.sym ['_'], Datum.ofList [.sym ['a'], defaultEllipsis],
                                Datum.ofList [.sym ['b'], defaultEllipsis]],
                  Datum.ofList [Datum.ofList [.sym ['a'], .sym ['b']], defaultEllipsis]]]]

/-- `(m (1 2) (3 4))` expands to `((1 3) (2 4))`; `(m (1 2) (3))` is an excluded use (the spec says
    `mismatch`; the implementation truncates to `((1 3))`) -/
example : ∃ t, Transform.tryNew (defFuel zipDef) zipDef = .ok t ∧ DepthOne t = true ∧
    SubpatternEllipsis t = false ∧
    GapFree (ctxOf t) (specRules t) (Datum.ofList [.sym ['m'], Datum.ofList [n1, n2], Datum.ofList [n3, n4]]) = true ∧
    CountsAgree (ctxOf t) (specRules t) (Datum.ofList [.sym ['m'], Datum.ofList [n1, n2], Datum.ofList [n3, n4]]) = true ∧
    t.transform 100 (Datum.ofList [.sym ['m'], Datum.ofList [n1, n2], Datum.ofList [n3, n4]])
      = .ok (Datum.ofList [Datum.ofList [n1, n3], Datum.ofList [n2, n4]]) ∧
    CountsAgree (ctxOf t) (specRules t) (Datum.ofList [.sym ['m'], Datum.ofList [n1, n2], Datum.ofList [n3]]) = false ∧
    t.transform 100 (Datum.ofList [.sym ['m'], Datum.ofList [n1, n2], Datum.ofList [n3]])
      = .ok (Datum.ofList [Datum.ofList [n1, n3]]) :=
  ⟨_, rfl, by decide +kernel, by decide +kernel, by decide +kernel, by decide +kernel, by decide +kernel, by decide +kernel, by decide +kernel⟩

/-! ## T17.2: `expand` and `transform` terminate for every accepted transformer -/

/-- **`expand` terminates for every transformer accepted by `try_new`**: for every rule, with
    `n` bindings in the environment, fuel `expandFuel T n = 2·(n+1)·|T|` is enough — `expand` never
    answers fuel-exhausted (contrast `expand_diverges_without_definition_check`). -/
theorem expand_terminates (f0 : Nat) (d : Datum) (t : Transform)
    (hdef : Transform.tryNew f0 d = .ok t) (r : Pattern × Datum) (hr : r ∈ t.rules)
    (B : Bindings) (fuel : Nat) (hf : expandFuel r.2 B.length ≤ fuel) :
    expand t.ellipsis r.1 fuel r.2 (PEnv.new r.1 B) ≠ .fuel := by
  obtain ⟨s, _, _, hall⟩ := accepted_build hdef
  obtain ⟨_, _, _, _, _, _, hsub⟩ := hall r hr
  exact expand_terminates_accepted f0 d t hdef r hr hsub B fuel hf

/-- **`transform` terminates for every accepted transformer and every use** with fuel
    `max (3·|u| + 1) (max over the rules of expandFuel template |u|)` -/
theorem transform_terminates (f0 : Nat) (d : Datum) (t : Transform)
    (hdef : Transform.tryNew f0 d = .ok t) (u : Datum) (fuel : Nat)
    (hf1 : 3 * dsize u + 1 ≤ fuel) (hf2 : ∀ r ∈ t.rules, expandFuel r.2 (dsize u) ≤ fuel) :
    t.transform fuel u ≠ .fuel := by
  obtain ⟨s, _, _, hall⟩ := accepted_build hdef
  refine transform_terminates_accepted f0 d t hdef (fun r hr => ?_) u fuel hf1 hf2
  obtain ⟨_, _, _, _, _, _, hsub⟩ := hall r hr
  exact hsub

/-- the fuel the driver runs uses with (`useFuel`) is enough -/
theorem transform_terminates_driver_fuel (f0 : Nat) (d : Datum) (t : Transform)
    (hdef : Transform.tryNew f0 d = .ok t) (u : Datum) : t.transform (useFuel d u) u ≠ .fuel := by
  obtain ⟨s, _, _, hall⟩ := accepted_build hdef
  refine transform_useFuel_terminates f0 d t hdef (fun r hr => ?_) u
  obtain ⟨_, _, _, _, _, _, hsub⟩ := hall r hr
  exact hsub

example : ∃ t, Transform.tryNew (defFuel subDef) subDef = .ok t ∧
    ∀ u, t.transform (useFuel subDef u) u ≠ .fuel :=
  ⟨_, rfl, fun u => transform_terminates_driver_fuel (defFuel subDef) subDef _ rfl u⟩

/-! ## T17.1 for every accepted transformer -/

/-- **every transformer `try_new` accepts is in the class `DepthOne`**: `check_pattern_support`
    rejects nested ellipses in patterns, `check_template_syntax` + `check_template_support` leave
    exactly the templates of class `tP` (fix ff58560) — so ellipsis depth 2 (class 6 of T17.1) is
    covered by the `err` disjunct of the property -/
theorem accepted_depthOne (f0 : Nat) (d : Datum) (t : Transform)
    (hdef : Transform.tryNew f0 d = .ok t) : DepthOne t = true := by
  obtain ⟨s, hte, htl, hall⟩ := accepted_d1 hdef
  simp only [DepthOne, ctxOf_eq s t hte htl, List.all_eq_true]
  exact fun r hr => (hall r hr).2

/-- **T17.1 for every transformer accepted by `try_new` and every use outside the known gap**:
    an expansion is R7RS's — rule `i` matches per R7RS, no earlier rule does, and the expansion is the
    instantiation of rule `i`'s template (or the spec answers `mismatch`: the excluded uses). The only
    hypothesis besides acceptance is the decidable guard `GapFree` of known finding
    `C17-empty-ellipsis-before-tail`; without it the statement is false (`soundness_fails_at_witness`). -/
theorem soundness_gapfree_partial (f0 : Nat) (d : Datum) (t : Transform) (fuel : Nat) (u e : Datum)
    (hdef : Transform.tryNew f0 d = .ok t)
    (hgap : GapFree (ctxOf t) (specRules t) u = true)
    (huse : t.transform fuel u = .ok e) :
    ∃ s : Setup, t.ellipsis = s.ell ∧ t.literals = s.lits ∧ Sound s.ctx (specRules t) u e :=
  soundness_depthOne_partial f0 d t fuel u e hdef (accepted_depthOne f0 d t hdef) hgap huse

/-- the same with the excluded uses as an explicit hypothesis: the implementation's expansion is the
    specification's expansion -/
theorem soundness_gapfree_exact_partial (f0 : Nat) (d : Datum) (t : Transform) (fuel : Nat) (u e : Datum)
    (hdef : Transform.tryNew f0 d = .ok t)
    (hgap : GapFree (ctxOf t) (specRules t) u = true)
    (hcounts : CountsAgree (ctxOf t) (specRules t) u = true)
    (huse : t.transform fuel u = .ok e) :
    specExpand (ctxOf t) (specRules t) u = .ok e :=
  soundness_depthOne_exact_partial f0 d t fuel u e hdef (accepted_depthOne f0 d t hdef) hgap hcounts huse

/-- `(define-syntax m (syntax-rules () ((_ (a b ...) ...) ((a b ...) ...))))`: ellipsis depth 2 -/
def nestedDef : Datum :=
  Datum.ofList [.sym ['d'], .sym ['m'], Datum.ofList [srSym, .nil,
    Datum.ofList [Datum.ofList [.sym ['_'], Datum.ofList [.sym ['a'], .sym ['b'], defaultEllipsis], defaultEllipsis],
                  Datum.ofList [Datum.ofList [.sym ['a'], .sym ['b'], defaultEllipsis], defaultEllipsis]]]]

/-- `(define-syntax m (syntax-rules () ((_ (a ...) ...) (a ... ...))))` -/
def nestedDef2 : Datum :=
  Datum.ofList [.sym ['d'], .sym ['m'], Datum.ofList [srSym, .nil,
    Datum.ofList [Datum.ofList [.sym ['_'], Datum.ofList [.sym ['a'], defaultEllipsis], defaultEllipsis],
                  Datum.ofList [.sym ['a'], defaultEllipsis, defaultEllipsis]]]]

/-- class 6 of T17.1 (nested ellipsis, depth 2) at two concrete definitions: rejected -/
theorem definition_check_rejects_nested_ellipsis :
    Transform.tryNew (defFuel nestedDef) nestedDef = .err .syntax ∧
    Transform.tryNew (defFuel nestedDef2) nestedDef2 = .err .syntax := by
  constructor <;> decide +kernel

/-- `soundness_gapfree_partial` applies non-trivially: the two-rule transformer of the known finding,
    on a use outside the gap -/
example : ∃ t, Transform.tryNew (defFuel gapDef) gapDef = .ok t ∧
    GapFree (ctxOf t) (specRules t) (Datum.ofList [.sym ['m'], n1, n2, n3]) = true ∧
    CountsAgree (ctxOf t) (specRules t) (Datum.ofList [.sym ['m'], n1, n2, n3]) = true ∧
    t.transform 100 (Datum.ofList [.sym ['m'], n1, n2, n3]) = .ok (Datum.ofList [n1, n2, n3]) ∧
    GapFree (ctxOf t) (specRules t) gapUse = false :=
  ⟨_, rfl, by decide +kernel, by decide +kernel, by decide +kernel, by decide +kernel⟩

/-! # T17.3 — the expansion driver (`Vm::transform`, compile.rs:78–165)

Model: `Marwood.Transform.Driver` (`expandForm M fuel d`; the macro table `M` stands for the global
slots holding a macro; fuel = nested expansions still allowed). Specification: `Spec.ExpandAll`
(`specExpandAll`: outermost first, operands as written, left to right, quoted data and binding
positions untouched, local bindings shadow keywords).

* T17.3a `driver_sound_partial`: for every table of transformers `try_new` accepted and every form that
  passes the decidable guard `Spec.ExpandAll.expandGuard` (every use visited is outside the known gap and
  outside the excluded uses — `GapFree` ∧ `CountsAgree` —, no macro keyword in a binding position, no
  `unquote`/`quasiquote` in the cdr chain of a template pair), an expansion the driver produces is the
  specification's. The full statement `T17_3a` is **false**: `driver_sound_fails_at_witness`
  (`(lambda (and x) x)` becomes `(lambda x x)`; finding `C17-driver-keyword-in-binding-position`).
* T17.3b `driver_outermost_first`: on a macro use the driver applies the transformer to the use as
  written and then transforms the expansion — whatever the operands are (seeded change C17b-2 expanded
  the operands first); `driver_operands_as_written` shows the difference at `(q1 (and 1 2))`.
* T17.3c `driver_exhaustion_has_chain` (fuel runs out only along `f + 1` nested expansions),
  `driver_fuel_mono`, `driver_terminates_iff` (on a use: out of fuel iff out of fuel on the expansion
  with one unit less), `driver_macro_free_terminates`, `driver_loops_on_self_expanding_macro`.
* T17.3d `driver_quote_unchanged`, `driver_quasiquote_mask`.
-/

open Marwood.Spec.ExpandAll

/-- every transformer of the table was accepted by `Transform::try_new` -/
def AcceptedTable (M : MacroTable) : Prop := ∀ p ∈ M, ∃ f0 d, Transform.tryNew f0 d = .ok p.2

theorem mem_of_lookup {M : MacroTable} {s : Text} {t : Transform} (h : M.lookup s = some t) :
    ∃ p ∈ M, p.2 = t := by
  induction M with
  | nil => cases h
  | cons q M ih =>
    rw [List.lookup_cons] at h
    cases hq : s == q.1 with
    | true => rw [hq] at h; cases h; exact ⟨q, List.mem_cons_self, rfl⟩
    | false =>
      rw [hq] at h
      obtain ⟨p, hp, rfl⟩ := ih h
      exact ⟨p, List.mem_cons_of_mem _ hp, rfl⟩

theorem installMacro_accepted {M : MacroTable} (h : AcceptedTable M) (form : Datum) :
    AcceptedTable (installMacro M form) := by
  unfold installMacro
  split
  · split
    · split
      · rename_i t heq
        split
        · intro p hp
          rcases List.mem_cons.mp hp with rfl | hp
          · exact ⟨_, _, heq⟩
          · exact h p hp
        · exact h
      · exact h
    · exact h
  · exact h

/-- **a table built by `define-syntax` forms holds accepted transformers only** -/
theorem tableOf_accepted (defs : List Datum) : AcceptedTable (tableOf defs) := by
  unfold tableOf
  suffices ∀ M, AcceptedTable M → AcceptedTable (defs.foldl installMacro M) from
    this [] (fun p hp => by cases hp)
  induction defs with
  | nil => intro M h; exact h
  | cons d ds ih => intro M h; exact ih _ (installMacro_accepted h d)

theorem le_sum_map_of_mem {α} (f : α → Nat) {l : List α} {a : α} (h : a ∈ l) : f a ≤ (l.map f).sum := by
  induction l with
  | nil => cases h
  | cons b l ih =>
    rw [List.map_cons, List.sum_cons]
    rcases List.mem_cons.mp h with rfl | h
    · omega
    · have := ih h; omega

/-- the fuel the driver model gives a transformer is enough: `Transform.transform` never answers
    "out of fuel" there (T17.2 through `transform_terminates`) -/
theorem useFuelT_sufficient (f0 : Nat) (d : Datum) (t : Transform)
    (hdef : Transform.tryNew f0 d = .ok t) (u : Datum) : t.transform (useFuelT t u) u ≠ .fuel := by
  refine transform_terminates f0 d t hdef u _ (by unfold useFuelT; omega) ?_
  intro r hr
  have := le_sum_map_of_mem (fun r : Pattern × Datum => 2 * (dsize u + 1) * dsize r.2) hr
  unfold useFuelT expandFuel
  omega

theorem accepted_terminate {M : MacroTable} (h : AcceptedTable M) : TransformersTerminate M := by
  intro s t hl u
  obtain ⟨p, hp, rfl⟩ := mem_of_lookup hl
  obtain ⟨f0, d, hd⟩ := h p hp
  exact useFuelT_sufficient f0 d _ hd u

/-- one step of the driver on a guarded use is R7RS's (T17.1: `soundness_gapfree_exact_partial`) -/
theorem accepted_stepSound {M : MacroTable} (h : AcceptedTable M) : StepSound M := by
  intro s t u e hl hok ht
  obtain ⟨p, hp, rfl⟩ := mem_of_lookup hl
  obtain ⟨f0, d, hd⟩ := h p hp
  simp only [useOK, Bool.and_eq_true] at hok
  refine soundness_gapfree_exact_partial f0 d _ _ u e hd hok.1 ?_ ht
  unfold CountsAgree
  exact hok.2

/-! ## T17.3a -/

/-- T17.3a at full strength: for every table of accepted transformers, an expansion the driver
    produces is the one R7RS prescribes (errors always allowed; `mismatch` = the excluded uses) -/
def T17_3a : Prop :=
  ∀ (M : MacroTable) (f : Nat) (d e : Datum), AcceptedTable M → expandForm M f d = .ok e →
    specExpandAll f (specTable M) d = .ok e ∨ specExpandAll f (specTable M) d = .mismatch

/-- **T17.3a for every guarded form**: the driver's expansion is the specification's. Hypotheses:
    the transformers were accepted by `try_new`; the decidable guard `expandGuard` (known findings
    `C17-empty-ellipsis-before-tail`, `C17-driver-keyword-in-binding-position`, `C01-dotted-unquote`,
    and the uses the property excludes). -/
theorem driver_sound_partial (M : MacroTable) (hacc : AcceptedTable M) (f : Nat) (d e : Datum)
    (hguard : expandGuard f (specTable M) d = true) (h : expandForm M f d = .ok e) :
    specExpandAll f (specTable M) d = .ok e :=
  expandForm_sound M (accepted_stepSound hacc) f d e hguard h

/-- `lambda`, `and`, `x`, `q1`, `lp`, `quote`, `if` -/
def lambdaS : Datum := .sym ['l','a','m','b','d','a']
def andS : Datum := .sym ['a','n','d']
def xS : Datum := .sym ['x']
def q1S : Datum := .sym ['q','1']
def lpS : Datum := .sym ['l','p']
def quoteS : Datum := .sym ['q','u','o','t','e']
def ifS : Datum := .sym ['i','f']
def dsS : Datum := .sym ['d','e','f','i','n','e','-','s','y','n','t','a','x']

/-- the table after the prelude's `(define-syntax and …)` -/
def andTable : MacroTable := tableOf [Gen.Prelude.macro5]

/-- `(lambda (and x) x)` -/
def kwFormalsForm : Datum := Datum.ofList [lambdaS, Datum.ofList [andS, xS], xS]

/-- the driver treats the formals `(and x)` as a use of `and`: `(lambda x x)` -/
theorem kwFormals_model :
    expandForm andTable 1 kwFormalsForm = .ok (Datum.ofList [lambdaS, xS, xS]) := by decide +kernel

/-- R7RS: formals are not expressions; the form is its own expansion -/
theorem kwFormals_spec :
    specExpandAll 1 (specTable andTable) kwFormalsForm = .ok kwFormalsForm := by decide +kernel

/-- the guard excludes the form -/
theorem kwFormals_guard : expandGuard 1 (specTable andTable) kwFormalsForm = false := by decide +kernel

/-- **The full statement T17.3a is false for the pinned code** (finding
    `C17-driver-keyword-in-binding-position`): with the prelude's `and`, `(lambda (and x) x)` is
    silently turned into the variadic `(lambda x x)`. -/
theorem driver_sound_fails_at_witness : ¬ T17_3a := by
  intro H
  have h := H andTable 1 kwFormalsForm _ (tableOf_accepted _) kwFormals_model
  rw [kwFormals_spec] at h
  rcases h with h | h
  · exact absurd (XRes.ok.inj h) (by decide)
  · cases h

/-- `driver_sound_partial` applies non-trivially: `(f (and 1 2) (quote (and)) (lambda (x) (and x)))`
    passes the guard and is expanded to `(f (if 1 2 #f) (quote (and)) (lambda (x) x))` -/
example : AcceptedTable andTable ∧
    expandGuard 2 (specTable andTable)
      (Datum.ofList [.sym ['f'], Datum.ofList [andS, n1, n2], Datum.ofList [quoteS, Datum.ofList [andS]],
        Datum.ofList [lambdaS, Datum.ofList [xS], Datum.ofList [andS, xS]]]) = true ∧
    expandForm andTable 2
      (Datum.ofList [.sym ['f'], Datum.ofList [andS, n1, n2], Datum.ofList [quoteS, Datum.ofList [andS]],
        Datum.ofList [lambdaS, Datum.ofList [xS], Datum.ofList [andS, xS]]])
      = .ok (Datum.ofList [.sym ['f'], Datum.ofList [ifS, n1, n2, .bool false],
          Datum.ofList [quoteS, Datum.ofList [andS]], Datum.ofList [lambdaS, Datum.ofList [xS], xS]]) :=
  ⟨tableOf_accepted _, by decide +kernel, by decide +kernel⟩

/-! ## T17.3b -/

/-- **the transformer sees the use as written**: on `(s . args)` with `s` bound to a macro (and not one
    of the words the driver tests first) the driver's answer is the transformer's answer on the
    UNEXPANDED form, handed to the driver again with one unit of fuel less — whatever `args` are,
    macro uses included. -/
theorem driver_outermost_first (M : MacroTable) (f : Nat) (s : Text) (args : Datum) (t : Transform)
    (hk : headKind (.sym s) = .other) (hl : M.lookup s = some t) :
    expandForm M (f + 1) (.pair (.sym s) args) =
      (t.transform (useFuelT t (.pair (.sym s) args)) (.pair (.sym s) args)).bind (expandForm M f) := by
  simp only [expandForm, walk, walkPair, hk, macroOf, hl, expandUse]

/-- in the lead's words: the expansion of the use equals the expansion of (`transform` applied to the
    unexpanded use) -/
theorem driver_expansion_of_use (M : MacroTable) (f : Nat) (s : Text) (args e : Datum) (t : Transform)
    (hk : headKind (.sym s) = .other) (hl : M.lookup s = some t)
    (ht : t.transform (useFuelT t (.pair (.sym s) args)) (.pair (.sym s) args) = .ok e) :
    expandForm M (f + 1) (.pair (.sym s) args) = expandForm M f e := by
  rw [driver_outermost_first M f s args t hk hl, ht]; rfl

/-- an error of the transformer is the driver's answer (`?`) -/
theorem driver_error_propagates (M : MacroTable) (f : Nat) (s : Text) (args : Datum) (t : Transform) (x : TErr)
    (hk : headKind (.sym s) = .other) (hl : M.lookup s = some t)
    (ht : t.transform (useFuelT t (.pair (.sym s) args)) (.pair (.sym s) args) = .err x) :
    expandForm M (f + 1) (.pair (.sym s) args) = .err x := by
  rw [driver_outermost_first M f s args t hk hl, ht]; rfl

/-- `(define-syntax q1 (syntax-rules () ((_ a) (quote a))))` -/
def q1Def : Datum :=
  Datum.ofList [dsS, q1S, Datum.ofList [srSym, .nil,
    Datum.ofList [Datum.ofList [.sym ['_'], .sym ['a']], Datum.ofList [quoteS, .sym ['a']]]]]

def q1Table : MacroTable := tableOf [Gen.Prelude.macro5, q1Def]

/-- **operands that are macro uses are data to the outer transformer**: `(q1 (and 1 2))` expands to
    `(quote (and 1 2))` although `(and 1 2)` alone expands to `(if 1 2 #f)` — a driver that expands
    operands first (seeded change C17b-2) answers `(quote (if 1 2 #f))` -/
theorem driver_operands_as_written :
    expandForm q1Table 2 (Datum.ofList [q1S, Datum.ofList [andS, n1, n2]])
      = .ok (Datum.ofList [quoteS, Datum.ofList [andS, n1, n2]]) ∧
    expandForm q1Table 2 (Datum.ofList [andS, n1, n2])
      = .ok (Datum.ofList [ifS, n1, n2, .bool false]) ∧
    specExpandAll 2 (specTable q1Table) (Datum.ofList [q1S, Datum.ofList [andS, n1, n2]])
      = .ok (Datum.ofList [quoteS, Datum.ofList [andS, n1, n2]]) := by
  refine ⟨by decide +kernel, by decide +kernel, by decide +kernel⟩

/-! ## T17.3c -/

/-- **the driver runs out of fuel only along a chain of expansions**: if `expandForm M f d` answers
    "out of fuel" there are `f + 1` nested expansions — a use occurring in `d` whose expansion contains
    a use whose expansion … (`ExpChain`); the walk between two expansions is structural recursion
    on the form and needs no fuel. -/
theorem driver_exhaustion_has_chain (M : MacroTable) (hacc : AcceptedTable M) (f : Nat) (d : Datum)
    (h : expandForm M f d = .fuel) : ExpChain M (f + 1) d :=
  expandForm_fuel_chain M (accepted_terminate hacc) f d h

/-- an answer other than "out of fuel" is the answer for every larger fuel -/
theorem driver_fuel_mono (M : MacroTable) (f : Nat) (d : Datum) (h : expandForm M f d ≠ .fuel) :
    ∀ k, expandForm M (f + k) d = expandForm M f d := by
  intro k
  induction k with
  | zero => rfl
  | succ k ih =>
    rw [← Nat.add_assoc, expandForm_mono M (f + k) d (by rw [ih]; exact h), ih]

/-- **on a macro use the driver terminates iff it terminates on the expansion** (one unit of fuel per
    expansion, nothing else) -/
theorem driver_terminates_iff (M : MacroTable) (hacc : AcceptedTable M) (f : Nat) (s : Text) (args : Datum)
    (t : Transform) (hk : headKind (.sym s) = .other) (hl : M.lookup s = some t) :
    expandForm M (f + 1) (.pair (.sym s) args) = .fuel ↔
      ∃ e, t.transform (useFuelT t (.pair (.sym s) args)) (.pair (.sym s) args) = .ok e ∧
        expandForm M f e = .fuel := by
  rw [driver_outermost_first M f s args t hk hl, Res.bind_eq_fuel]
  constructor
  · rintro (h | h)
    · exact absurd h (accepted_terminate hacc s t hl _)
    · exact h
  · exact fun h => .inr h

/-- a form that mentions no macro keyword is returned as it is, with no fuel at all -/
theorem driver_macro_free_terminates (M : MacroTable) (f : Nat) (d : Datum)
    (h : mentions (specTable M) d = false) : expandForm M f d = .ok d := by
  cases f <;> exact walk_noMention M _ d h

/-- `(define-syntax lp (syntax-rules () ((_) (lp))))` -/
def lpDef : Datum :=
  Datum.ofList [dsS, lpS, Datum.ofList [srSym, .nil,
    Datum.ofList [Datum.ofList [.sym ['_']], Datum.ofList [lpS]]]]

def lpTable : MacroTable := tableOf [lpDef]

def lpT : Transform :=
  match lpTable with
  | (_, t) :: _ => t
  | [] => default

theorem lp_facts : ∃ t, lpTable.lookup ['l','p'] = some t ∧
    t.transform (useFuelT t (Datum.ofList [lpS])) (Datum.ofList [lpS]) = .ok (Datum.ofList [lpS]) :=
  ⟨lpT, by decide +kernel, by decide +kernel⟩

/-- a macro that expands to itself exhausts every fuel (the driver loops exactly when the chain of
    expansions does) -/
theorem driver_loops_on_self_expanding_macro : ∀ f, expandForm lpTable f (Datum.ofList [lpS]) = .fuel := by
  obtain ⟨t, hl, ht⟩ := lp_facts
  intro f
  induction f with
  | zero =>
    show walk lpTable (fun _ => .fuel) (Datum.pair lpS .nil) = .fuel
    simp only [lpS, walk, walkPair, macroOf, hl, expandUse]
    have hk : headKind (Datum.sym ['l','p']) = .other := by decide
    simp only [hk]
    rw [show (Datum.sym ['l','p']).pair .nil = Datum.ofList [lpS] from rfl, ht]
    rfl
  | succ f ih =>
    have := driver_expansion_of_use lpTable f ['l','p'] .nil _ t (by decide) hl ht
    exact this.trans ih

example : ExpChain lpTable 3 (Datum.ofList [lpS]) :=
  driver_exhaustion_has_chain lpTable (tableOf_accepted _) 2 _ (driver_loops_on_self_expanding_macro 2)

/-! ## T17.3d -/

/-- quoted data and `define-syntax` forms are returned as they are, whatever they contain -/
theorem driver_quote_unchanged (M : MacroTable) (f : Nat) (x : Datum) :
    expandForm M f (.pair quoteS x) = .ok (.pair quoteS x) ∧
    expandForm M f (.pair dsS x) = .ok (.pair dsS x) := by
  cases f <;> exact ⟨rfl, rfl⟩

/-- **a quasiquote template keeps everything but the expressions under a depth-0 `unquote`**: the
    result is `(quasiquote tpl' . r)` and `tpl'`, with those expressions masked, is `tpl` masked -/
theorem driver_quasiquote_mask (M : MacroTable) (f : Nat) (tpl r e : Datum)
    (h : expandForm M f (.pair (.sym Transform.quasiquoteN) (.pair tpl r)) = .ok e) :
    ∃ tpl', e = .pair (.sym Transform.quasiquoteN) (.pair tpl' r) ∧ maskQQ 0 tpl' = maskQQ 0 tpl := by
  have key : ∀ re, walk M re (.pair (.sym Transform.quasiquoteN) (.pair tpl r)) = .ok e →
      ∃ tpl', e = .pair (.sym Transform.quasiquoteN) (.pair tpl' r) ∧ maskQQ 0 tpl' = maskQQ 0 tpl := by
    intro re h
    rw [walk, walkQQHead, walkPair_quasi M re (s := Transform.quasiquoteN) (by decide) rfl] at h
    obtain ⟨q, hq, h⟩ := Res.bind_eq_ok.mp h
    obtain ⟨t', ht, hq⟩ := Res.bind_eq_ok.mp hq
    cases hq; cases h
    exact ⟨t', rfl, (walkQQ_mask M re tpl).1 0 t' ht⟩
  cases f <;> exact key _ h

/-- `(quasiquote (1 (unquote (and 1 2)) (and 3 4) (quasiquote (unquote (and)))))`: only the level-0
    unquote is expanded -/
example :
    expandForm andTable 2 (Datum.ofList [.sym Transform.quasiquoteN, Datum.ofList [n1,
        Datum.ofList [.sym Transform.unquoteN, Datum.ofList [andS, n1, n2]], Datum.ofList [andS, n3, n4],
        Datum.ofList [.sym Transform.quasiquoteN, Datum.ofList [.sym Transform.unquoteN, Datum.ofList [andS]]]]])
      = .ok (Datum.ofList [.sym Transform.quasiquoteN, Datum.ofList [n1,
        Datum.ofList [.sym Transform.unquoteN, Datum.ofList [ifS, n1, n2, .bool false]], Datum.ofList [andS, n3, n4],
        Datum.ofList [.sym Transform.quasiquoteN, Datum.ofList [.sym Transform.unquoteN, Datum.ofList [andS]]]]]) := by
  decide +kernel

/-! ## the macro table across top-level forms -/

/-- a top-level `define-syntax` adds its macro for the LATER forms: `(q1 (and))` before the definition
    is a combination (its operand is expanded), after it a macro use (its operand is data) -/
example :
    expandSession andTable 2 [Datum.ofList [q1S, Datum.ofList [andS]], q1Def, Datum.ofList [q1S, Datum.ofList [andS]]]
      = [.ok (Datum.ofList [q1S, .bool true]), .ok q1Def, .ok (Datum.ofList [quoteS, Datum.ofList [andS]])] := by
  decide +kernel

/-! ## the prelude's macros: `cond` → `if` / `begin` → `lambda` -/

/-- the table a fresh `Vm` starts with: every `define-syntax` of `prelude.scm`, in file order -/
def preludeTable : MacroTable := tableOf (Gen.Prelude.macros.map (·.2))

def condS : Datum := .sym ['c','o','n','d']
def elseS : Datum := .sym ['e','l','s','e']

/-- `(cond ((and 1 2) 3) (else 4))` → `(if (if 1 2 #f) ((lambda () 3)) ((lambda () 4)))`: macros
    expanding to other macros, nested uses as operands — all hypotheses of `driver_sound_partial` hold -/
example : AcceptedTable preludeTable ∧
    expandGuard 6 (specTable preludeTable)
      (Datum.ofList [condS, Datum.ofList [Datum.ofList [andS, n1, n2], n3], Datum.ofList [elseS, n4]]) = true ∧
    expandForm preludeTable 6
      (Datum.ofList [condS, Datum.ofList [Datum.ofList [andS, n1, n2], n3], Datum.ofList [elseS, n4]])
      = .ok (Datum.ofList [ifS, Datum.ofList [ifS, n1, n2, .bool false],
          Datum.ofList [Datum.ofList [lambdaS, .nil, n3]], Datum.ofList [Datum.ofList [lambdaS, .nil, n4]]]) :=
  ⟨tableOf_accepted _, by decide +kernel, by decide +kernel⟩

end Marwood.Proofs.C17
