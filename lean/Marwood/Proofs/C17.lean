import Marwood.Lemmas.TransformSoundPlain
import Marwood.Lemmas.TransformFuel
import Marwood.Lemmas.TransformAccept
/-!
# C17 — syntax-rules is sound where supported and always terminates

Model: `Marwood.Transform.Model` (transform.rs after fix ff58560). Specification:
`Marwood.Spec.Match` (R7RS 4.3.2, non-hygienic). Property theorems only; the lemmas live in
`Marwood/Lemmas/Transform*.lean`.

## T17.1 soundness
`T17_1` is the full statement. It is **false** for the pinned code (known finding
`C17-empty-ellipsis-before-tail`): `soundness_fails_at_witness` proves the negation at a concrete
transformer and use. What is proved:

* `soundness_noEllipsis_partial` — pattern class 1 (no ellipsis in any pattern or template of the
  transformer; literals, `_`, data, nested lists and a custom ellipsis name are covered): every
  expansion is R7RS's — some rule `i` matches per R7RS, no earlier rule matches per R7RS (so the
  matcher is complete there), and the expansion is the instantiation of rule `i`'s template.
* `rule_selection_partial` / `rule_selection_gapfree` — classes 2–5 (trailing ellipsis; ellipsis
  followed by a fixed tail, i.e. the `len() + 2` hand-off; sub-patterns under an ellipsis; literals,
  `_`, custom ellipsis): the rule that fires is R7RS's first matching rule, with the explicit
  decidable guard `GapFree` (`Spec.Match.zeroRepTail`) for the completeness half.
* NOT proved: for templates that contain an ellipsis, that the expansion equals the instantiation
  (`expand` with the per-variable cursors against `Spec.Match.inst`); carried by the correspondence.

## T17.2 termination
* `patternMatch_terminates` — the matcher terminates on **every** input (any pattern, any ellipsis,
  any literals) with fuel `3·|expr| + 1`.
* `expand_diverges_without_definition_check` — the non-termination of the pinned `expand` on a
  template `(a ...)` whose `a` is not ellipsis-bound, for every fuel (the model of `expand` is the
  pinned loop); `definition_check_rejects_diverging_template`: fix ff58560 rejects that definition.
-/
namespace Marwood.Proofs.C17
open Marwood Marwood.Transform Marwood.Spec.Match

/-! ## Statements -/

/-- no rule of the transformer meets the `zeroRepTail` situation on this use (decidable) -/
def GapFree (c : Ctx) (rules : List Rule) (u : Datum) : Bool :=
  rules.all fun r => !zeroRepTailRule c r u

/-- T17.1 at full strength: for every transformer accepted by `try_new` and every use, an
    expansion is the one R7RS prescribes (errors are always allowed). -/
def T17_1 : Prop :=
  ∀ (f0 : Nat) (d : Datum) (t : Transform) (fuel : Nat) (u e : Datum),
    Transform.tryNew f0 d = .ok t → t.transform fuel u = .ok e →
    ∃ s : Setup, t.ellipsis = s.ell ∧ t.literals = s.lits ∧ Sound s.ctx (specRules t) u e

/-- the decidable class restriction of the proved part: the ellipsis occurs in no pattern and in no
    template (so all of them are proper lists without vectors, as `try_new` demands anyway) -/
def NoEllipsis (t : Transform) : Prop :=
  ∀ es, t.ellipsis = .sym es → ∀ r ∈ t.rules, plain es r.1.expr = true ∧ plain es r.2 = true

/-! ## T17.1, class 1 -/

theorem soundness_noEllipsis_partial (f0 : Nat) (d : Datum) (t : Transform) (fuel : Nat) (u e : Datum)
    (hdef : Transform.tryNew f0 d = .ok t) (hclass : NoEllipsis t)
    (huse : t.transform fuel u = .ok e) :
    ∃ s : Setup, t.ellipsis = s.ell ∧ t.literals = s.lits ∧ Sound s.ctx (specRules t) u e := by
  obtain ⟨s, hte, htl, hrules⟩ := Transform.tryNew_ok hdef
  refine ⟨s, hte, htl, ?_⟩
  unfold Transform.transform at huse
  split at huse
  · cases huse
  · have hcl := hclass s.es (by simpa [Setup.ell] using hte)
    exact transformRules_plain s fuel f0 t u hte htl t.rules e
      (fun r hr => ⟨hrules r hr, (hcl r hr).1, (hcl r hr).2⟩) huse

/-- `(define-syntax m (syntax-rules () ((_ a ... b) (a ... b)) ((_ c) (s c))))` -/
def gapDef' : Datum :=
  Datum.ofList [.sym ['d'], .sym ['m'], Datum.ofList [.sym ['s','y','n','t','a','x','-','r','u','l','e','s'], .nil,
    Datum.ofList [Datum.ofList [.sym ['_'], .sym ['a'], .sym ['.','.','.'], .sym ['b']],
                  Datum.ofList [.sym ['a'], .sym ['.','.','.'], .sym ['b']]],
    Datum.ofList [Datum.ofList [.sym ['_'], .sym ['c']], Datum.ofList [.sym ['s'], .sym ['c']]]]]

/-! ## T17.1, classes 2–5: which rule fires

For every transformer `try_new` accepts (its patterns are then `wfPattern`: proper, vector-free lists
that do not start with the ellipsis and contain it at most once — trailing ellipsis, ellipsis
followed by a fixed tail, sub-patterns under an ellipsis, with literals, `_`, data and a custom
ellipsis) the verdict of the matcher's state machine, including the
`pattern_iter.len() == expr_iter.len() + 2` hand-off, is R7RS's: the rule `transform` expands with
matches per R7RS, and every earlier rule does not match per R7RS or is in the excluded class
`zeroRepTail` (the known finding). This is the first two conjuncts of T17.1; the third
(`e = instantiate`) is proved for class 1 only and otherwise carried by the correspondence. -/

/-- **every transformer `try_new` accepts has well-formed patterns** (`check_pattern_support`:
    proper, vector-free; `Pattern::build`: no leading ellipsis, at most one per list) -/
theorem accepted_patterns_wellformed (f0 : Nat) (d : Datum) (t : Transform)
    (hdef : Transform.tryNew f0 d = .ok t) :
    ∃ s : Setup, t.ellipsis = s.ell ∧ t.literals = s.lits ∧
      ∀ r ∈ t.rules, wfPattern s.es r.1.expr = true := by
  obtain ⟨s, hte, htl, hrules⟩ := Transform.tryNew_ok hdef
  exact ⟨s, hte, htl, fun r hr => ruleOK_wfPattern s (hrules r hr)⟩

theorem rule_selection_partial (f0 : Nat) (d : Datum) (t : Transform) (fuel : Nat) (u e : Datum)
    (hdef : Transform.tryNew f0 d = .ok t)
    (huse : t.transform fuel u = .ok e) :
    ∃ s : Setup, t.ellipsis = s.ell ∧ t.literals = s.lits ∧ Selects s.ctx (specRules t) u := by
  obtain ⟨s, hte, htl, hwf⟩ := accepted_patterns_wellformed f0 d t hdef
  refine ⟨s, hte, htl, ?_⟩
  unfold Transform.transform at huse
  split at huse
  · cases huse
  · exact transformRules_selects s fuel t u hte htl t.rules e hwf huse

/-- with the guard, the selected rule is exactly R7RS's first matching rule -/
theorem rule_selection_gapfree (f0 : Nat) (d : Datum) (t : Transform) (fuel : Nat) (u e : Datum)
    (hdef : Transform.tryNew f0 d = .ok t)
    (huse : t.transform fuel u = .ok e) :
    ∃ s : Setup, t.ellipsis = s.ell ∧ t.literals = s.lits ∧
      (GapFree s.ctx (specRules t) u = true →
        ∃ i r, (specRules t)[i]? = some r ∧ (matchRule s.ctx r u).isSome = true ∧
          ∀ j : Nat, j < i → ∀ r', (specRules t)[j]? = some r' → matchRule s.ctx r' u = none) := by
  obtain ⟨s, hte, htl, i, r, hi, hm, hprev⟩ := rule_selection_partial f0 d t fuel u e hdef huse
  refine ⟨s, hte, htl, fun hg => ⟨i, r, hi, hm, fun j hj r' hr' => ?_⟩⟩
  rcases hprev j hj r' hr' with h | h
  · exact h
  · exfalso
    have hmem : r' ∈ specRules t := List.mem_of_getElem? hr'
    simp only [GapFree, List.all_eq_true] at hg
    have := hg r' hmem
    simp [h] at this

/-- hypotheses satisfiable non-trivially: `(syntax-rules () ((_ a ... b) (a ... b)) ((_ c) (s c)))`
    on `(m 1 2 3)` goes through the hand-off and expands with the first rule -/
example : ∃ t, Transform.tryNew 100 gapDef' = .ok t ∧
    t.transform 200 (Datum.ofList [.sym ['m'], .num (.fix 1), .num (.fix 2), .num (.fix 3)])
      = .ok (Datum.ofList [.num (.fix 1), .num (.fix 2), .num (.fix 3)]) ∧
    GapFree ⟨['.','.','.'], []⟩ (specRules t)
      (Datum.ofList [.sym ['m'], .num (.fix 1), .num (.fix 2), .num (.fix 3)]) = true :=
  ⟨_, rfl, rfl, rfl⟩

/-! ## The witness of the known finding -/

/-- `(define-syntax m (syntax-rules () ((_ a ... b) (a ... b)) ((_ c) (s c))))` -/
def gapDef : Datum :=
  Datum.ofList [.sym ['d'], .sym ['m'], Datum.ofList [.sym ['s','y','n','t','a','x','-','r','u','l','e','s'], .nil,
    Datum.ofList [Datum.ofList [.sym ['_'], .sym ['a'], .sym ['.','.','.'], .sym ['b']],
                  Datum.ofList [.sym ['a'], .sym ['.','.','.'], .sym ['b']]],
    Datum.ofList [Datum.ofList [.sym ['_'], .sym ['c']], Datum.ofList [.sym ['s'], .sym ['c']]]]]

/-- `(m 1)` -/
def gapUse : Datum := Datum.ofList [.sym ['m'], .num (.fix 1)]

/-- the pinned code accepts the definition and expands `(m 1)` to `(s 1)` (the second rule) -/
theorem gap_model :
    (Transform.tryNew (defFuel gapDef) gapDef >>= fun t => t.transform (useFuel gapDef gapUse) gapUse)
      = .ok (Datum.ofList [.sym ['s'], .num (.fix 1)]) := by
  decide

def gapCtx : Ctx := { ellipsis := ['.','.','.'], literals := [] }
def gapRule0 : Rule :=
  ⟨Datum.ofList [.sym ['_'], .sym ['a'], .sym ['.','.','.'], .sym ['b']],
   Datum.ofList [.sym ['a'], .sym ['.','.','.'], .sym ['b']]⟩

/-- R7RS: the first rule matches `(m 1)` with no item for `a`, and the expansion is `(1)` -/
theorem gap_spec :
    specExpand gapCtx [gapRule0, ⟨Datum.ofList [.sym ['_'], .sym ['c']], Datum.ofList [.sym ['s'], .sym ['c']]⟩] gapUse
      = .ok (Datum.ofList [.num (.fix 1)]) := by
  rfl

/-- the use is in the class the guard excludes -/
theorem gap_guard : GapFree gapCtx [gapRule0] gapUse = false := by decide

def gapRule1 : Rule := ⟨Datum.ofList [.sym ['_'], .sym ['c']], Datum.ofList [.sym ['s'], .sym ['c']]⟩

theorem gap_t_facts : ∃ t, Transform.tryNew (defFuel gapDef) gapDef = .ok t ∧
    t.ellipsis = .sym ['.','.','.'] ∧ t.literals = [] ∧ specRules t = [gapRule0, gapRule1] :=
  ⟨_, rfl, rfl, rfl, rfl⟩

/-- **The full statement T17.1 is false for the pinned code**: the transformer
    `(syntax-rules () ((_ a ... b) (a ... b)) ((_ c) (s c)))` is accepted and expands `(m 1)` to
    `(s 1)`, while R7RS prescribes `(1)` (first rule, no item for `a`). -/
theorem soundness_fails_at_witness : ¬ T17_1 := by
  intro H
  obtain ⟨t, ht, he, hl, hr⟩ := gap_t_facts
  have hm := gap_model
  rw [ht] at hm
  simp only [bind, Res.bind] at hm
  obtain ⟨s, hte, htl, i, r, b, hi, hmatch, hprev, hinst⟩ := H _ _ t _ _ _ ht hm
  have hctx : s.ctx = gapCtx := by
    obtain ⟨es, names, hne⟩ := s
    simp only [Setup.ell, Setup.lits] at hte htl
    rw [he] at hte; rw [hl] at htl
    cases hte
    have : names = [] := by cases names <;> simp at htl <;> rfl
    subst this
    rfl
  rw [hr] at hi hprev
  rw [hctx] at hmatch hprev hinst
  have h0 : matchRule gapCtx gapRule0 gapUse
      = some [(['a'], .many []), (['b'], .one (.num (.fix 1)))] := rfl
  match i, hi, hprev with
  | 0, hi, _ =>
    simp at hi; subst hi
    rw [h0] at hmatch
    cases hmatch
    have hc : instantiate gapCtx gapRule0.template [(['a'], .many []), (['b'], .one (.num (.fix 1)))]
        = .ok (Datum.ofList [.num (.fix 1)]) := rfl
    rw [hc] at hinst
    rcases hinst with h | h
    · have : Datum.ofList [Datum.num (.fix 1)] = Datum.ofList [.sym ['s'], .num (.fix 1)] := by
        injection h
      exact absurd this (by decide)
    · cases h
  | 1, _, hprev =>
    have := hprev 0 (by omega) gapRule0 rfl
    rw [h0] at this
    cases this
  | i + 2, hi, _ => simp at hi

/-! ## The hypotheses of `soundness_noEllipsis_partial` are satisfiable, non-trivially -/

/-- `(define-syntax m (syntax-rules (else) ((_ else (x) _) (x (x x))) ((_ y 5 z) (y z))))` -/
def plainDef : Datum :=
  Datum.ofList [.sym ['d'], .sym ['m'], Datum.ofList [.sym ['s','y','n','t','a','x','-','r','u','l','e','s'],
    Datum.ofList [.sym ['e','l','s','e']],
    Datum.ofList [Datum.ofList [.sym ['_'], .sym ['e','l','s','e'], Datum.ofList [.sym ['x']], .sym ['_']],
                  Datum.ofList [.sym ['x'], Datum.ofList [.sym ['x'], .sym ['x']]]],
    Datum.ofList [Datum.ofList [.sym ['_'], .sym ['y'], .num (.fix 5), .sym ['z']],
                  Datum.ofList [.sym ['y'], .sym ['z']]]]]

/-- `(m (a) 5 #t)`: the first rule does not match (no literal `else`), the second does -/
def plainUse : Datum :=
  Datum.ofList [.sym ['m'], Datum.ofList [.sym ['a']], .num (.fix 5), .bool true]

example : ∃ t, Transform.tryNew (defFuel plainDef) plainDef = .ok t ∧ NoEllipsis t ∧
    t.transform (useFuel plainDef plainUse) plainUse
      = .ok (Datum.ofList [Datum.ofList [.sym ['a']], .bool true]) := by
  refine ⟨_, rfl, ?_, rfl⟩
  intro es hes r hr
  have : es = ['.','.','.'] := by injection hes with h; exact h.symm
  subst this
  revert r
  decide

/-! ## T17.2 termination -/

/-- **`pattern_match` terminates on every input**: whatever the pattern, the ellipsis and the
    literals, fuel `3·|expr| + 1` suffices (every loop iteration consumes an item of the expression). -/
theorem patternMatch_terminates (ell : Datum) (lits : List Datum) (p e : Datum) (env : Bindings)
    (f : Nat) (h : 3 * dsize e + 1 ≤ f) : ∃ r, patternMatch ell lits f p e env = .ok r :=
  Marwood.Transform.patternMatch_terminates ell lits p e env f h

example : ∃ r, patternMatch defaultEllipsis [] 100
    (Datum.ofList [.sym ['a'], defaultEllipsis, .sym ['b']])
    (Datum.ofList [.num (.fix 1), .num (.fix 2), .num (.fix 3)]) [] = .ok r ∧ r.1 = true :=
  ⟨_, rfl, rfl⟩

/-- pattern `(_ a b ...)`: `a` is an ordinary variable, `b` an ellipsis variable -/
def loopPat : Pattern :=
  { expr := Datum.ofList [.sym ['_'], .sym ['a'], .sym ['b'], defaultEllipsis],
    variables := [.sym ['a'], .sym ['b']], expanded := [.sym ['b']],
    ellipsis := defaultEllipsis, literals := [] }

def loopEnv : PEnv := PEnv.new loopPat [(.sym ['a'], .num (.fix 1)), (.sym ['b'], .num (.fix 2))]

theorem expandLoop_spins : ∀ (f : Nat) (v : List Datum),
    expandLoop defaultEllipsis loopPat f (.sym ['a']) [defaultEllipsis] v loopEnv = .fuel := by
  intro f
  induction f with
  | zero => intro v; rfl
  | succ f ih =>
    intro v
    cases f with
    | zero => rfl
    | succ f =>
      have h := ih (v ++ [.num (.fix 1)])
      unfold expandLoop
      have he : expand defaultEllipsis loopPat (f + 1) (.sym ['a']) loopEnv
          = .ok (some (.num (.fix 1)), loopEnv) := rfl
      rw [he]
      simp only [peekIs, defaultEllipsis, cellEq_sym_left, decide_true, if_true]
      exact h

/-- **Non-termination of the pinned `expand`** (the loop itself is unchanged by the fix): on the
    template `(a ...)` with `a` not ellipsis-bound it never leaves its loop — the model runs out of
    fuel for every fuel. Before fix ff58560 `try_new` accepted this template. -/
theorem expand_diverges_without_definition_check (fuel : Nat) :
    expand defaultEllipsis loopPat fuel (Datum.ofList [.sym ['a'], defaultEllipsis]) loopEnv = .fuel := by
  cases fuel with
  | zero => rfl
  | succ f =>
    unfold expand
    simp only [Datum.ofList]
    exact expandLoop_spins f []

/-- `(define-syntax m (syntax-rules () ((_ a b ...) (a ...))))` -/
def loopDef : Datum :=
  Datum.ofList [.sym ['d'], .sym ['m'], Datum.ofList [.sym ['s','y','n','t','a','x','-','r','u','l','e','s'], .nil,
    Datum.ofList [Datum.ofList [.sym ['_'], .sym ['a'], .sym ['b'], defaultEllipsis],
                  Datum.ofList [.sym ['a'], defaultEllipsis]]]]

/-- since fix ff58560 the definition that made `expand` loop is rejected -/
theorem definition_check_rejects_diverging_template :
    Transform.tryNew (defFuel loopDef) loopDef = .err .syntax := by decide

end Marwood.Proofs.C17
