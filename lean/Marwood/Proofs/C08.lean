import Marwood.Lemmas.NumArith
/-!
# C08 — exact arithmetic is exact; inexactness is never silently dropped

Property theorems only.  Model: `Marwood.Arith` (number.rs / builtin/number.rs after the fix
commits 301e76d, 5bfb138, fcf9000); specification: `Marwood.NumSpec` (values in ℚ).

* T08.1 an exact answer is never wrong — `+ − * /`, every representation pair.
* T08.3 `quotient remainder modulo` on exact integers are total for a non-zero divisor and equal
  `Int.tdiv`, `Int.tmod`, `Int.fmod`, in every representation (direct API and procedures).
* T08.2 / T08.4 (an inexact answer only when the true result is not representable; representation
  independence) are FALSE for the pinned code: the full statements are kept below as `Prop`s, their
  negations are proved at concrete witnesses, and the `_partial` versions carry explicit guards.
-/
namespace Marwood.Proofs.C08
open Marwood Marwood.Arith Marwood.NumSpec

/-! ### T08.1 — an exact answer is the exact result -/

/-- T08.1 (+): whenever `a + b` is answered exactly, both operands were exact and the answer is
    their sum in ℚ — all 16 representation pairs. -/
theorem add_exact_correct (a b : Num) (ha : a.WF = true) (hb : b.WF = true)
    (h : isExact (add a b) = true) :
    ∃ x y, val a = some x ∧ val b = some y ∧ val (add a b) = some (x + y) :=
  add_exact a b ha hb h

/-- T08.1 (−) -/
theorem sub_exact_correct (a b : Num) (ha : a.WF = true) (hb : b.WF = true)
    (h : isExact (sub a b) = true) :
    ∃ x y, val a = some x ∧ val b = some y ∧ val (sub a b) = some (x - y) :=
  sub_exact a b ha hb h

/-- T08.1 (×) -/
theorem mul_exact_correct (a b : Num) (ha : a.WF = true) (hb : b.WF = true)
    (h : isExact (mul a b) = true) :
    ∃ x y, val a = some x ∧ val b = some y ∧ val (mul a b) = some (x * y) :=
  mul_exact a b ha hb h

/-- T08.1 (÷): an exact quotient implies a non-zero divisor and is the quotient in ℚ. -/
theorem div_exact_correct (a b : Num) (ha : a.WF = true) (hb : b.WF = true) {r : Num}
    (h : div a b = .ok r) (he : isExact r = true) :
    ∃ x y, val a = some x ∧ val b = some y ∧ y ≠ 0 ∧ val r = some (x / y) :=
  div_exact a b ha hb h he

/-! ### T08.3 — quotient, remainder, modulo -/

/-- T08.3 (quotient): for exact integer-valued operands in any representation and a non-zero
    divisor, `Number::quotient` answers (no error, no panic) the truncating quotient. -/
theorem quotient_is_tdiv (a b : Num) {x y : Int} (hx : intVal? a = some x) (hy : intVal? b = some y)
    (hy0 : y ≠ 0) : ∃ r, quotient a b = some (.ok (some r)) ∧ intVal? r = some (x.tdiv y) :=
  quotient_spec a b hx hy hy0

/-- T08.3 (remainder) -/
theorem remainder_is_tmod (a b : Num) {x y : Int} (hx : intVal? a = some x)
    (hy : intVal? b = some y) (hy0 : y ≠ 0) :
    ∃ r, rem a b = some (.ok (some r)) ∧ intVal? r = some (x.tmod y) := by
  obtain ⟨r, h1, h2, _⟩ := rem_spec a b hx hy hy0
  exact ⟨r, h1, h2⟩

/-- T08.3 (modulo): the flooring remainder, exact in every representation. -/
theorem modulo_is_fmod (a b : Num) (hb : b.WF = true) {x y : Int} (hx : intVal? a = some x)
    (hy : intVal? b = some y) (hy0 : y ≠ 0) :
    ∃ r, modulo a b = some (.ok (some r)) ∧ intVal? r = some (x.fmod y) :=
  modulo_spec a b hb hx hy hy0

/-- an integer-valued answer is exact and has the integer as its value -/
theorem intVal_exact {r : Num} {t : Int} (h : intVal? r = some t) :
    isExact r = true ∧ val r = some (t : Rat) := by
  refine ⟨?_, intVal_val h⟩
  cases r <;> simp_all [intVal?, isExact]

/-! ### non-vacuity -/

example : add (.fix 9223372036854775807) (.fix 1) = .big 9223372036854775808 := by decide
example : add (.rat 1 2) (.rat 1 3) = .rat 5 6 := by decide
example : mul (.rat (-2147483648) 3) (.rat 3 2) = .rat (-1073741824) 1 := by decide
example : div (.fix (-2147483648)) (.fix (-1)) = .ok (.fix 2147483648) := by decide
example : quotient (.fix (-9223372036854775808)) (.fix (-1)) = some (.ok (some (.big 9223372036854775808))) := by
  decide
example : modulo (.fix (-7)) (.rat 2 1) = some (.ok (some (.rat 1 1))) := by decide

end Marwood.Proofs.C08
