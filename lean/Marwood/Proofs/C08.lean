import Marwood.Lemmas.NumAccuracy
import Marwood.Lemmas.NumAccuracyMul
/-!
# C08 — exact arithmetic is exact; inexactness is never silently dropped

Property theorems only.  Model: `Marwood.Arith` (number.rs / builtin/number.rs after the fix
commits 301e76d, 5bfb138, fcf9000, 7762e0a); specification: `Marwood.NumSpec` (values in ℚ).

* T08.1 an exact answer is never wrong — `+ − * /`, every representation pair; the unary operations
  and `expt`.
* T08.3 `quotient remainder modulo` on exact integers are total for a non-zero divisor and equal
  `Int.tdiv`, `Int.tmod`, `Int.fmod`, in every representation (direct API and procedures).
* T08.2 (an inexact answer only when the true result is not representable) and T08.4
  (representation independence) hold at FULL strength, no representation guard, for
  `abs floor ceiling truncate numerator denominator expt` (expt after fix 7762e0a; the pre-fix
  function is kept as `Arith.Pinned.pow` with its witness `pinned_expt_rational`).
* The three facts about the rounding function `Fl.rnd` (monotone, exact on representable values,
  relative error ≤ 2⁻⁵³ in the normal range) are proved about the pure implementation; the inexact
  answers of `expt` are thereby within the property's error bound (`T08_2_expt_accuracy`).
* T08.2 / T08.4 are FALSE for `+ − * /` on the repaired tree as well: the float fall-backs of the
  binary operators are pinned by the project's own unit tests (`number::tests::{add,sub,mul,div}`
  assert the `Float` discriminant of e.g. `2147483648 + 50/1`, `BigInt(100) + 1/2`,
  `2147483647/1 + 1/1`, `2147483648 / BigInt(2)`), so they stay known findings: the full statements
  are kept below as `Prop`s, their negations are proved at concrete witnesses, and the `_partial`
  versions carry explicit guards.
-/
namespace Marwood.Proofs.C08
open Marwood Marwood.Arith Marwood.NumSpec

/-! ### T08.1 — an exact answer is the exact result -/

/-- T08.1 (+): whenever `a + b` is answered exactly, both operands were exact and the answer is
    their sum in ℚ — all 16 representation pairs. -/
theorem add_exact_correct (a b : Num) (ha : a.WF = true) (hb : b.WF = true)
    (h : isExact (add a b) = true) :
    ∃ x y, val a = some x ∧ val b = some y ∧ val (add a b) = some (x + y) :=
  add_exact a b (DenPos.of_wf ha) (DenPos.of_wf hb) h

/-- T08.1 (−) -/
theorem sub_exact_correct (a b : Num) (ha : a.WF = true) (hb : b.WF = true)
    (h : isExact (sub a b) = true) :
    ∃ x y, val a = some x ∧ val b = some y ∧ val (sub a b) = some (x - y) :=
  sub_exact a b (DenPos.of_wf ha) (DenPos.of_wf hb) h

/-- T08.1 (×) -/
theorem mul_exact_correct (a b : Num) (ha : a.WF = true) (hb : b.WF = true)
    (h : isExact (mul a b) = true) :
    ∃ x y, val a = some x ∧ val b = some y ∧ val (mul a b) = some (x * y) :=
  mul_exact a b (DenPos.of_wf ha) (DenPos.of_wf hb) h

/-- T08.1 (÷): an exact quotient implies a non-zero divisor and is the quotient in ℚ. -/
theorem div_exact_correct (a b : Num) (ha : a.WF = true) (hb : b.WF = true) {r : Num}
    (h : div a b = .ok r) (he : isExact r = true) :
    ∃ x y, val a = some x ∧ val b = some y ∧ y ≠ 0 ∧ val r = some (x / y) :=
  div_exact a b (DenPos.of_wf ha) (DenPos.of_wf hb) h he

/-! ### T08.3 — quotient, remainder, modulo -/

/-- T08.3 (quotient): for exact integer-valued operands in any representation and a non-zero
    divisor, `Number::quotient` answers (no error, no panic) the truncating quotient. -/
theorem quotient_is_tdiv (a b : Num) {x y : Int} (hx : intVal? a = some x) (hy : intVal? b = some y)
    (hy0 : y ≠ 0) : ∃ r, quotient a b = some (.ok (some r)) ∧ intVal? r = some (x.tdiv y) :=
  quotient_spec a b hx hy hy0

/-- T08.3 (remainder) -/
theorem remainder_is_tmod (a b : Num) {x y : Int} (hx : intVal? a = some x)
    (hy : intVal? b = some y) (hy0 : y ≠ 0) :
    ∃ r, rem a b = some (.ok (some r)) ∧ intVal? r = some (x.tmod y) := by
  obtain ⟨r, h1, h2, _⟩ := rem_spec a b hx hy hy0
  exact ⟨r, h1, h2⟩

/-- T08.3 (modulo): the flooring remainder, exact in every representation. -/
theorem modulo_is_fmod (a b : Num) (hb : b.WF = true) {x y : Int} (hx : intVal? a = some x)
    (hy : intVal? b = some y) (hy0 : y ≠ 0) :
    ∃ r, modulo a b = some (.ok (some r)) ∧ intVal? r = some (x.fmod y) :=
  modulo_spec a b hb hx hy hy0

/-- an integer-valued answer is exact and has the integer as its value -/
theorem intVal_exact {r : Num} {t : Int} (h : intVal? r = some t) :
    isExact r = true ∧ val r = some (t : Rat) := by
  refine ⟨?_, intVal_val h⟩
  cases r <;> simp_all [intVal?, isExact]

/-- T08.3 at the level of the procedures: `(quotient a b)`, `(remainder a b)`, `(modulo a b)` on
    exact integers answer an error for a zero divisor and otherwise exactly `tdiv`/`tmod`/`fmod` —
    never a panic. -/
theorem scm_integer_division (a b : Num) (hb : b.WF = true) {x y : Int}
    (hx : intVal? a = some x) (hy : intVal? b = some y) :
    (y = 0 → scmQuotient [a, b] = some (.err "syntax") ∧ scmRemainder [a, b] = some (.err "syntax")
      ∧ scmModulo [a, b] = some (.err "syntax")) ∧
    (y ≠ 0 → ∃ q r m, scmQuotient [a, b] = some (.ok q) ∧ intVal? q = some (x.tdiv y) ∧
      scmRemainder [a, b] = some (.ok r) ∧ intVal? r = some (x.tmod y) ∧
      scmModulo [a, b] = some (.ok m) ∧ intVal? m = some (x.fmod y)) := by
  constructor
  · intro h0
    exact ⟨(scmIntOp_spec quotient a b hx hy).1 h0, (scmIntOp_spec rem a b hx hy).1 h0,
      (scmIntOp_spec modulo a b hx hy).1 h0⟩
  · intro h0
    obtain ⟨q, hq, hqv⟩ := quotient_spec a b hx hy h0
    obtain ⟨r, hr, hrv, _⟩ := rem_spec a b hx hy h0
    obtain ⟨m, hm, hmv⟩ := modulo_spec a b hb hx hy h0
    exact ⟨q, r, m, (scmIntOp_spec quotient a b hx hy).2 h0 q hq, hqv,
      (scmIntOp_spec rem a b hx hy).2 h0 r hr, hrv,
      (scmIntOp_spec modulo a b hx hy).2 h0 m hm, hmv⟩

/-! ### T08.1 continued — unary operations and expt -/

/-- `floor`: always exact, the integer `k` with `k ≤ x < k + 1`. -/
theorem floor_correct (a : Num) (ha : a.WF = true) {r : Num} (h : floor a = some r) :
    ∃ (x : Rat) (k : Int), val a = some x ∧ val r = some (k : Rat) ∧ (k : Rat) ≤ x ∧ x < k + 1 :=
  floor_spec a ha h

/-- `ceiling`: always exact, the integer `k` with `k - 1 < x ≤ k`. -/
theorem ceiling_correct (a : Num) (ha : a.WF = true) {r : Num} (h : ceil a = some r) :
    ∃ (x : Rat) (k : Int), val a = some x ∧ val r = some (k : Rat) ∧ x ≤ (k : Rat) ∧ (k : Rat) - 1 < x :=
  ceil_spec a ha h

/-- `truncate`: always exact, rounds towards zero. -/
theorem truncate_correct (a : Num) (ha : a.WF = true) {r : Num} (h : truncate a = some r) :
    ∃ (x : Rat) (k : Int), val a = some x ∧ val r = some (k : Rat) ∧
      (0 ≤ x → (k : Rat) ≤ x ∧ x < k + 1) ∧ (x ≤ 0 → x ≤ (k : Rat) ∧ (k : Rat) - 1 < x) :=
  truncate_spec a ha h

/-- `abs`: an exact answer is the absolute value. -/
theorem abs_correct (a : Num) (ha : a.WF = true) {r : Num} (h : abs a = some r)
    (he : isExact r = true) : ∃ x, val a = some x ∧ val r = some (absR x) :=
  abs_spec a ha h he

/-- `numerator`, `denominator`: those of the value in lowest terms. -/
theorem numerator_denominator_correct (a : Num) (ha : a.WF = true) {r s : Num}
    (h1 : numerator a = some r) (h2 : denominator a = some s) :
    ∃ x : Rat, val a = some x ∧ val r = some (x.num : Rat) ∧ val s = some (x.den : Rat) :=
  numer_denom_spec a ha h1 h2

/-- `expt` with a non-negative integer exponent: an exact answer is the exact power. -/
theorem expt_exact_correct (a : Num) (ha : a.WF = true) (e : Nat) {r : Num} (h : pow a e = some r)
    (he : isExact r = true) : ∃ x, val a = some x ∧ val r = some (x ^ e) :=
  pow_spec a ha e h he

/-! ### T08.2 / T08.4 at full strength — abs floor ceiling truncate numerator denominator expt

No representation guard: the operand is any well-formed exact number (`fix`, `big`, `rat`). -/

/-- T08.2 (expt), full strength: `(expt a e)` is answered inexactly only when the exact power is
    not representable (not an integer and not a reduced ratio within i32). -/
theorem T08_2_expt (a : Num) (ha : a.WF = true) (e : Nat) {r : Num} (h : pow a e = some r)
    (he : isExact r = false) : ∃ x, val a = some x ∧ representable (x ^ e) = false :=
  pow_inexact_spec a ha e h he

/-- T08.1 + T08.2 (expt) in one statement: the answer is exact precisely when the exact power is
    representable. -/
theorem expt_exact_iff_representable (a : Num) (ha : a.WF = true) (e : Nat) {r : Num} {x : Rat}
    (hx : val a = some x) (h : pow a e = some r) : isExact r = representable (x ^ e) :=
  pow_exact_iff a ha e hx h

/-- T08.4 (expt), full strength: the same value carried by any two representations gives answers
    of equal exactness and equal value. -/
theorem T08_4_expt (a a' : Num) (ha : a.WF = true) (ha' : a'.WF = true) (hv : val a = val a')
    (e : Nat) {r r' : Num} (h : pow a e = some r) (h' : pow a' e = some r') :
    isExact r = isExact r' ∧ val r = val r' :=
  pow_indep a a' ha ha' hv e h h'

/-- T08.4 for the procedure `(expt x e)`, full strength, base *and* exponent in any
    representation: the same error class, or answers of equal exactness and equal value. -/
theorem T08_4_scm_expt (x x' e e' : Num) (hx : x.WF = true) (hx' : x'.WF = true)
    (he : e.WF = true) (he' : e'.WF = true) (hee : isExact e = true) (hee' : isExact e' = true)
    (hvx : val x = val x') (hve : val e = val e') {o o' : Outcome Num}
    (h : scmExpt [x, e] = some o) (h' : scmExpt [x', e'] = some o') : SameAnswer o o' :=
  scmExpt_indep x x' e e' hx hx' he he' hee hee' hvx hve h h'

/-- the witness of the former finding C08-expt-rational, before and after fix 7762e0a:
    `(expt <rational 65536/1> 2)` was `4294967296.0`, and is `4294967296`. -/
theorem pinned_expt_rational :
    Pinned.pow (.rat 65536 1) 2 = some (.flo ⟨0x41f0000000000000⟩) ∧
    pow (.rat 65536 1) 2 = some (.fix 4294967296) ∧ pow (.fix 65536) 2 = some (.fix 4294967296) := by
  decide +kernel

/-- T08.2 (abs), full strength: `abs` is answered inexactly only when the absolute value is not
    representable (`-2147483648/d`, `d > 1`). -/
theorem T08_2_abs (a : Num) (ha : a.WF = true) {r : Num} (h : abs a = some r)
    (he : isExact r = false) : ∃ x, val a = some x ∧ representable (absR x) = false :=
  abs_inexact_spec a ha h he

/-- T08.2 (floor ceiling truncate numerator denominator), full strength: never inexact. -/
theorem T08_2_integer_valued (a : Num) (hea : isExact a = true) {r : Num}
    (h : floor a = some r ∨ ceil a = some r ∨ truncate a = some r ∨ numerator a = some r ∨
      denominator a = some r) : isExact r = true := by
  rcases h with h | h | h | h | h
  · exact floor_exact h hea
  · exact ceil_exact h hea
  · exact truncate_exact h hea
  · exact numerator_exact h hea
  · exact denominator_exact h

/-- T08.4 (abs floor ceiling truncate), full strength: the answers to the same value in any two
    representations have equal exactness and equal value. -/
theorem T08_4_unary (a a' : Num) (ha : a.WF = true) (ha' : a'.WF = true) (hea : isExact a = true)
    (hea' : isExact a' = true) (hv : val a = val a') :
    (∀ r r', abs a = some r → abs a' = some r' → isExact r = isExact r' ∧ val r = val r') ∧
    (∀ r r', floor a = some r → floor a' = some r' → isExact r = isExact r' ∧ val r = val r') ∧
    (∀ r r', ceil a = some r → ceil a' = some r' → isExact r = isExact r' ∧ val r = val r') ∧
    (∀ r r', truncate a = some r → truncate a' = some r' →
      isExact r = isExact r' ∧ val r = val r') :=
  ⟨fun _ _ h h' => abs_indep a a' ha ha' hea hea' hv h h',
   fun _ _ h h' => floor_indep a a' ha ha' hea hea' hv h h',
   fun _ _ h h' => ceil_indep a a' ha ha' hea hea' hv h h',
   fun _ _ h h' => truncate_indep a a' ha ha' hea hea' hv h h'⟩

/-- T08.4 (numerator denominator), full strength. -/
theorem T08_4_numerator_denominator (a a' : Num) (ha : a.WF = true) (ha' : a'.WF = true)
    (hea : isExact a = true) (hea' : isExact a' = true) (hv : val a = val a') {r r' s s' : Num}
    (h1 : numerator a = some r) (h1' : numerator a' = some r') (h2 : denominator a = some s)
    (h2' : denominator a' = some s') :
    isExact r = true ∧ isExact r' = true ∧ val r = val r' ∧
    isExact s = true ∧ isExact s' = true ∧ val s = val s' :=
  numer_denom_indep a a' ha ha' hea hea' hv h1 h1' h2 h2'

/-! ### the rounding function (DESIGN §3.2): proved, not assumed

Every inexact answer of the model is `Fl.rnd` of an exact rational (directly for `expt`, through
`Fl.ofInt`, `Fl.ofRatio` and the four IEEE operations for the fall-backs of `+ − * /`).  The three
facts the design promised about `rnd` are theorems about the pure implementation in
`Num/F64.lean` (`Lemmas/NumRndCore.lean`, `NumRndBits.lean`, `NumRnd.lean`); no `RndLaws`
hypothesis remains. -/

/-- rounding is monotone (results are never NaN, so they are ordered in ℚ ∪ {−∞, +∞}) -/
theorem rnd_monotone {q q' : Rat} (h : q ≤ q') :
    ∃ a b, ext (.flo (Fl.rnd q)) = some a ∧ ext (.flo (Fl.rnd q')) = some b ∧ Ext.le a b = true :=
  Fl.rnd_mono h

/-- rounding is exact on representable values: the value of a finite double rounds to itself -/
theorem rnd_exact_on_doubles (f : F64) (q : Rat) (h : Fl.toRat? f = some q) :
    Fl.toRat? (Fl.rnd q) = some q :=
  Fl.rnd_exact f q h

/-- in the normal range (2⁻¹⁰²² ≤ |q| < 2¹⁰²³) the rounded value is finite and within 2⁻⁵³ relative -/
theorem rnd_relative_error (q : Rat) (hlo : (2 : Rat) ^ (-1022 : Int) ≤ |q|)
    (hhi : |q| < 2 ^ (1023 : Int)) :
    ∃ v, Fl.toRat? (Fl.rnd q) = some v ∧ |v - q| ≤ 2 ^ (-53 : Int) * |q| :=
  Fl.rnd_relerr q hlo hhi

/-- T08.2 (expt), second conjunct: an inexact power is the correctly rounded exact power — finite
    and within 2⁻⁵³ (a fortiori 2⁻⁵⁰) relative when the exact power is in the doubles' normal range. -/
theorem T08_2_expt_accuracy (a : Num) (ha : a.WF = true) (e : Nat) {r : Num} (h : pow a e = some r)
    (he : isExact r = false) {x : Rat} (hx : val a = some x)
    (hlo : (2 : Rat) ^ (-1022 : Int) ≤ |x ^ e|) (hhi : |x ^ e| < 2 ^ (1023 : Int)) :
    ∃ v, val r = some v ∧ |v - x ^ e| ≤ 2 ^ (-53 : Int) * |x ^ e| :=
  pow_inexact_accurate a ha e h he hx hlo hhi

/-- T08.2 (abs), second conjunct: the only inexact answers of `abs` (to `-2147483648/d`, `d > 1`)
    are finite and within 2⁻⁵³ relative — no range hypothesis, the value lies in [1, 2³¹]. -/
theorem T08_2_abs_accuracy (a : Num) (ha : a.WF = true) {r : Num} (h : abs a = some r)
    (he : isExact r = false) :
    ∃ x v, val a = some x ∧ val r = some v ∧ |v - absR x| ≤ 2 ^ (-53 : Int) * absR x :=
  abs_inexact_accurate a ha h he

/-- T08.2 (+), second conjunct — holds although the first conjunct does not: whenever a sum of
    exact operands (magnitudes below 2¹⁰⁰⁰, not both below 2⁻¹⁰²²) is answered inexactly, the
    answer is finite and within 2⁻⁵⁰·max(|x|, |y|, |x+y|) of the exact sum.  (Both operands are
    converted by `rnd`, the double sum is `rnd` of their exact sum: three roundings.) -/
theorem T08_2_add_accuracy (a b : Num) (ha : a.WF = true) (hb : b.WF = true)
    (hea : isExact a = true) (heb : isExact b = true) {x y : Rat} (hx : val a = some x)
    (hy : val b = some y) (hmx : |x| < 2 ^ (1000 : Int)) (hmy : |y| < 2 ^ (1000 : Int))
    (hM : (2 : Rat) ^ (-1022 : Int) ≤ max |x| (max |y| |x + y|))
    (he : isExact (add a b) = false) :
    ∃ v, val (add a b) = some v ∧ |v - (x + y)| ≤ 2 ^ (-50 : Int) * max |x| (max |y| |x + y|) :=
  add_inexact_accurate a b ha hb hea heb hx hy hmx hmy hM he

/-- T08.2 (−), second conjunct. -/
theorem T08_2_sub_accuracy (a b : Num) (ha : a.WF = true) (hb : b.WF = true)
    (hea : isExact a = true) (heb : isExact b = true) {x y : Rat} (hx : val a = some x)
    (hy : val b = some y) (hmx : |x| < 2 ^ (1000 : Int)) (hmy : |y| < 2 ^ (1000 : Int))
    (hM : (2 : Rat) ^ (-1022 : Int) ≤ max |x| (max |y| |x - y|))
    (he : isExact (sub a b) = false) :
    ∃ v, val (sub a b) = some v ∧ |v - (x - y)| ≤ 2 ^ (-50 : Int) * max |x| (max |y| |x - y|) :=
  sub_inexact_accurate a b ha hb hea heb hx hy hmx hmy hM he

/-- T08.2 (×), second conjunct — holds although the first conjunct does not: whenever a product of
    exact operands (|x|, |y| < 2¹⁰²³, |x·y| < 2¹⁰²²) is answered inexactly, the answer is finite and
    within 2⁻⁵⁰·max(|x|, |y|, |x·y|) of the exact product.  (Both operands are converted by `rnd`,
    the double product is `rnd` of their exact product: three roundings.  No lower bound is needed:
    a non-zero exact operand has magnitude ≥ 2⁻³¹, so only the last rounding can underflow, and its
    absolute error 2⁻¹⁰⁷⁵ is below 2⁻⁵³·max(|x|, |y|); a zero operand gives a zero answer.) -/
theorem T08_2_mul_accuracy (a b : Num) (ha : a.WF = true) (hb : b.WF = true)
    (hea : isExact a = true) (heb : isExact b = true) {x y : Rat} (hx : val a = some x)
    (hy : val b = some y) (hmx : |x| < 2 ^ (1023 : Int)) (hmy : |y| < 2 ^ (1023 : Int))
    (hmp : |x * y| < 2 ^ (1022 : Int)) (he : isExact (mul a b) = false) :
    ∃ v, val (mul a b) = some v ∧ |v - x * y| ≤ 2 ^ (-50 : Int) * max |x| (max |y| |x * y|) :=
  mul_inexact_accurate a b ha hb hea heb hx hy hmx hmy hmp he

/-- T08.2 (÷), second conjunct: whenever a quotient of exact operands (divisor non-zero,
    |x|, |y| < 2¹⁰²³, |x/y| < 2¹⁰²²) is answered inexactly, the answer is finite and within
    2⁻⁵⁰·max(|x|, |y|, |x/y|) of the exact quotient. -/
theorem T08_2_div_accuracy (a b : Num) (ha : a.WF = true) (hb : b.WF = true)
    (hea : isExact a = true) (heb : isExact b = true) {x y : Rat} (hx : val a = some x)
    (hy : val b = some y) (hy0 : y ≠ 0) (hmx : |x| < 2 ^ (1023 : Int)) (hmy : |y| < 2 ^ (1023 : Int))
    (hmq : |x / y| < 2 ^ (1022 : Int)) {r : Num} (h : div a b = .ok r) (he : isExact r = false) :
    ∃ v, val r = some v ∧ |v - x / y| ≤ 2 ^ (-50 : Int) * max |x| (max |y| |x / y|) :=
  div_inexact_accurate a b ha hb hea heb hx hy hy0 hmx hmy hmq h he

/-! ### T08.5 — variadic `+ * −` -/

/-- T08.5: the variadic procedures are folds of the binary operations, taken from the last
    argument to the first (the order in which the arguments leave the VM stack). -/
theorem variadic_are_folds (args : List Num) (a : Num) (rest : List Num) :
    scmPlus args = .ok (args.reverse.foldl add (.fix 0)) ∧
    scmTimes args = .ok (args.reverse.foldl mul (.fix 1)) ∧
    scmMinus [a] = .ok (mul (sub a (.fix 0)) (.fix (-1))) ∧
    (rest ≠ [] → scmMinus (a :: rest) = .ok (sub a (rest.reverse.foldl add (.fix 0)))) := by
  refine ⟨rfl, rfl, rfl, ?_⟩
  intro h
  cases rest with
  | nil => exact absurd rfl h
  | cons b r => rfl

/-- T08.5 + T08.1: an exactly answered `(+ a1 … an)` had only exact arguments and is their sum in ℚ. -/
theorem plus_exact_correct (args : List Num) (hw : ∀ a ∈ args, a.WF = true) {r : Num}
    (h : scmPlus args = .ok r) (he : isExact r = true) :
    ∃ xs : List Rat, List.Forall₂ (fun a v => isExact a = true ∧ val a = some v) args.reverse xs ∧
      val r = some (xs.foldl (· + ·) 0) := by
  simp only [scmPlus, Outcome.ok.injEq] at h; subst h
  obtain ⟨x, xs, hx, hf, hv⟩ := foldl_add_exact args.reverse (.fix 0) trivial
    (fun a ha => DenPos.of_wf (hw a (List.mem_reverse.mp ha))) he
  simp only [val_fix, Option.some.injEq] at hx
  refine ⟨xs, hf, ?_⟩
  rw [hv, ← hx]; simp

/-- T08.5 + T08.1 for `*`. -/
theorem times_exact_correct (args : List Num) (hw : ∀ a ∈ args, a.WF = true) {r : Num}
    (h : scmTimes args = .ok r) (he : isExact r = true) :
    ∃ xs : List Rat, List.Forall₂ (fun a v => isExact a = true ∧ val a = some v) args.reverse xs ∧
      val r = some (xs.foldl (· * ·) 1) := by
  simp only [scmTimes, Outcome.ok.injEq] at h; subst h
  obtain ⟨x, xs, hx, hf, hv⟩ := foldl_mul_exact args.reverse (.fix 1) trivial
    (fun a ha => DenPos.of_wf (hw a (List.mem_reverse.mp ha))) he
  simp only [val_fix, Option.some.injEq] at hx
  refine ⟨xs, hf, ?_⟩
  rw [hv, ← hx]; simp

/-! ### no panic -/

/-- The procedure `/` never panics; the direct operation never panics for a non-zero divisor. -/
theorem divide_never_panics (args : List Num) (s : String) : scmDivide args ≠ .panic s :=
  scmDivide_no_panic args s

theorem div_total (a b : Num) (hz : isZero b = false) : ∃ x, div a b = .ok x :=
  div_no_panic a b hz

/-! ### T08.2 / T08.4 for `+ − * /` — FALSE at full strength

The property demands that an inexact answer is given only when the exact result is not
representable, and that the answer does not depend on the representation of an operand.  Both fail
for the binary operators (known findings C08-wide-int-with-rational, C08-rational-overflow,
C08-div-wide, and their consequence C08-variadic-contagion).  They cannot be repaired without
editing the project's suite: `number::tests::{add, sub, mul, div}` assert the `Float` answer
(value *and* enum discriminant) for members of each class.  The full statements stay visible as
`Prop`s, their negations are proved at concrete witnesses, the `_partial` theorems carry explicit
guards. -/

/-- T08.2 (first conjunct), full strength, for a binary operation -/
def InexactOnlyWhenNeeded (op : Num → Num → Num) (spec : Rat → Rat → Rat) : Prop :=
  ∀ a b : Num, a.WF = true → b.WF = true → isExact a = true → isExact b = true →
    isExact (op a b) = false → ∀ x y, val a = some x → val b = some y →
      representable (spec x y) = false

/-- `(+ 1/2 2147483647/2)` answers `1073741824.0` although 1073741824 is an integer. -/
theorem not_T08_2_add : ¬ InexactOnlyWhenNeeded add (· + ·) := by
  intro h
  have := h (.rat 1 2) (.rat 2147483647 2) (by decide) (by decide) rfl rfl (by decide) _ _ rfl rfl
  revert this; decide +kernel

/-- `(* 4294967296 1/2)` answers `2147483648.0`. -/
theorem not_T08_2_mul : ¬ InexactOnlyWhenNeeded mul (· * ·) := by
  intro h
  have := h (.fix 4294967296) (.rat 1 2) (by decide) (by decide) rfl rfl (by decide) _ _ rfl rfl
  revert this; decide +kernel

/-- `(- 3000000000 1/1)` (an integer-valued rational) answers `2999999999.0`. -/
theorem not_T08_2_sub : ¬ InexactOnlyWhenNeeded sub (· - ·) := by
  intro h
  have := h (.fix 3000000000) (.rat 1 1) (by decide) (by decide) rfl rfl (by decide) _ _ rfl rfl
  revert this; decide +kernel

/-- `(/ 5000000000 5)` answers `1000000000.0`: the full statement for division is false. -/
theorem not_T08_2_div :
    ¬ (∀ a b : Num, a.WF = true → b.WF = true → ∀ r, div a b = .ok r → isExact r = false →
        ∀ x y, val a = some x → val b = some y → representable (x / y) = false) := by
  intro h
  have := h (.fix 5000000000) (.fix 5) (by decide) (by decide) _ rfl (by decide) _ _ rfl rfl
  revert this; decide +kernel

/-- T08.2_partial (+ − ×): between integer representations (`fix`, `big`) the answer is always
    exact, whatever the magnitudes — the bignum fall-back is complete. -/
theorem T08_2_partial_integers (a b : Num) (ha : intVal? a ≠ none) (hb : intVal? b ≠ none)
    (hra : isRatRep a = false) (hrb : isRatRep b = false) :
    isExact (add a b) = true ∧ isExact (sub a b) = true ∧ isExact (mul a b) = true := by
  cases a <;> cases b <;> simp_all [intVal?, isRatRep]
  all_goals (refine ⟨?_, ?_, ?_⟩ <;> simp only [add, sub, mul] <;> (try split) <;> rfl)

/-- T08.2_partial (÷): when both operands are integers within the i32 range (in `fix` or `big`
    representation) an inexact quotient is given only when the exact quotient is not
    representable (its reduced denominator is 2^31). -/
theorem T08_2_partial_div (a b : Num) {l r : Int} (hl : asI32 a = some l) (hr : asI32 b = some r)
    (hr0 : r ≠ 0) {x : Num} (h : div a b = .ok x) (he : isExact x = false) :
    representable ((l : Rat) / (r : Rat)) = false := by
  have hdiv : div a b = ratioOfI32 l r := by
    cases a <;> cases b <;> simp_all [div, asI32]
  rw [hdiv] at h
  unfold ratioOfI32 at h
  simp only [beq_iff_eq, hr0, if_false] at h
  rw [← Rat.divInt_eq_div]
  unfold representable
  split at h
  · cases h; simp [isExact] at he
  · rename_i h1
    split at h
    · cases h; simp [isExact] at he
    · rename_i h2
      simp only [Bool.and_eq_true, not_and, Bool.not_eq_true] at h1
      try simp only [beq_iff_eq] at h2
      simp only [Bool.or_eq_false_iff, beq_eq_false_iff_ne, ne_eq, Bool.and_eq_false_iff]
      refine ⟨?_, ?_⟩
      · intro hd; apply h2; exact_mod_cast hd
      · by_cases hn : inI32 (Rat.divInt l r).num = true
        · right; exact h1 hn
        · left; simpa using hn

/-- T08.4, full strength (representation independence of exactness), is false: the value 5 carried
    as a fixnum or as a bignum gives `11/2` or `5.5` when `1/2` is added. -/
theorem not_T08_4 :
    ¬ (∀ a a' b : Num, a.WF = true → a'.WF = true → b.WF = true → val a = val a' →
        isExact (add a b) = isExact (add a' b)) := by
  intro h
  have := h (.fix 5) (.big 5) (.rat 1 2) (by decide) (by decide) (by decide) rfl
  revert this; decide +kernel

/-- T08.4_partial: whenever both answers are exact they have the same value (a corollary of
    T08.1) — only the *exactness* depends on the representation, never the value of an exact answer. -/
theorem T08_4_partial_value (a a' b b' : Num) (ha : a.WF = true) (ha' : a'.WF = true)
    (hb : b.WF = true) (hb' : b'.WF = true) (hva : val a = val a') (hvb : val b = val b')
    (h1 : isExact (add a b) = true) (h2 : isExact (add a' b') = true) :
    val (add a b) = val (add a' b') := by
  obtain ⟨x, y, hx, hy, hv⟩ := add_exact a b (DenPos.of_wf ha) (DenPos.of_wf hb) h1
  obtain ⟨x', y', hx', hy', hv'⟩ := add_exact a' b' (DenPos.of_wf ha') (DenPos.of_wf hb') h2
  rw [hv, hv']
  rw [hva, hx'] at hx; rw [hvb, hy'] at hy
  cases hx; cases hy; rfl

/-- T08.4_partial for the integer operations: the answers of `quotient remainder modulo` depend
    only on the integer values of the operands, not on their representations. -/
theorem T08_4_partial_integer_ops (a a' b b' : Num) (hb : b.WF = true) (hb' : b'.WF = true)
    {x y : Int} (hx : intVal? a = some x) (hx' : intVal? a' = some x) (hy : intVal? b = some y)
    (hy' : intVal? b' = some y) (hy0 : y ≠ 0) :
    ∃ q q' r r' m m', quotient a b = some (.ok (some q)) ∧ quotient a' b' = some (.ok (some q')) ∧
      intVal? q = intVal? q' ∧ rem a b = some (.ok (some r)) ∧ rem a' b' = some (.ok (some r')) ∧
      intVal? r = intVal? r' ∧ modulo a b = some (.ok (some m)) ∧
      modulo a' b' = some (.ok (some m')) ∧ intVal? m = intVal? m' := by
  obtain ⟨q, h1, v1⟩ := quotient_spec a b hx hy hy0
  obtain ⟨q', h1', v1'⟩ := quotient_spec a' b' hx' hy' hy0
  obtain ⟨r, h2, v2, _⟩ := rem_spec a b hx hy hy0
  obtain ⟨r', h2', v2', _⟩ := rem_spec a' b' hx' hy' hy0
  obtain ⟨m, h3, v3⟩ := modulo_spec a b hb hx hy hy0
  obtain ⟨m', h3', v3'⟩ := modulo_spec a' b' hb' hx' hy' hy0
  exact ⟨q, q', r, r', m, m', h1, h1', by rw [v1, v1'], h2, h2', by rw [v2, v2'], h3, h3',
    by rw [v3, v3']⟩

/-! ### non-vacuity -/

example : add (.fix 9223372036854775807) (.fix 1) = .big 9223372036854775808 := by decide
example : add (.rat 1 2) (.rat 1 3) = .rat 5 6 := by decide
example : mul (.rat (-2147483648) 3) (.rat 3 2) = .rat (-1073741824) 1 := by decide
example : div (.fix (-2147483648)) (.fix (-1)) = .ok (.fix 2147483648) := by decide
example : quotient (.fix (-9223372036854775808)) (.fix (-1)) = some (.ok (some (.big 9223372036854775808))) := by
  decide
example : modulo (.fix (-7)) (.rat 2 1) = some (.ok (some (.rat 1 1))) := by decide
example : scmQuotient [.rat 7 1, .rat 2 1] = some (.ok (.fix 3)) := by decide
example : Arith.abs (.rat (-2147483648) 1) = some (.fix 2147483648) := by decide
example : ceil (.rat 2147483647 2) = some (.rat 1073741824 1) := by decide
example : pow (.fix 3037000500) 2 = some (.big 9223372037000250000) := by decide
example : scmPlus [.fix 1, .rat 1 2, .fix 3] = .ok (.rat 9 2) := by decide
-- the full-strength expt theorems speak about both kinds of answer
example : pow (.rat 1 2) 40 = some (.flo ⟨0x3d70000000000000⟩) := by decide +kernel
example : pow (.rat (-46341) 1) 2 = some (.fix 2147488281) := by decide
example : scmExpt [.rat 65536 1, .rat 2 1] = some (.ok (.fix 4294967296)) := by decide
example : Arith.abs (.rat (-2147483648) 3) = some (.flo ⟨0x41c5555555555555⟩) := by decide +kernel
-- the hypotheses of `T08_2_expt_accuracy` are satisfiable: `(expt 2147483647/2 2)` is inexact and its
-- exact value lies in the doubles' normal range
example : ∃ r, pow (.rat 2147483647 2) 2 = some r ∧ isExact r = false ∧
    (2 : Rat) ^ (-1022 : Int) ≤ |((2147483647 : Rat) / 2) ^ 2| ∧
    |((2147483647 : Rat) / 2) ^ 2| < 2 ^ (1023 : Int) := by
  refine ⟨_, rfl, rfl, ?_, ?_⟩
  · calc (2 : Rat) ^ (-1022 : Int) ≤ 2 ^ (0 : Int) := Fl.two_zpow_mono (by norm_num)
      _ ≤ _ := by norm_num
  · calc |((2147483647 : Rat) / 2) ^ 2| < 2 ^ (62 : Int) := by norm_num
      _ ≤ _ := Fl.two_zpow_mono (by norm_num)
-- the hypotheses of `T08_2_add_accuracy` are satisfiable: the witness of the finding itself
example : isExact (add (.rat 1 2) (.rat 2147483647 2)) = false := by decide +kernel
-- `T08_2_mul_accuracy` applies: `(* 2147483647/2 2147483647/3)` is answered by a double
example : mul (.rat 2147483647 2) (.rat 2147483647 3) = .flo ⟨0x43a5555555000000⟩ := by
  decide +kernel
example : ∃ v, val (mul (.rat 2147483647 2) (.rat 2147483647 3)) = some v ∧
    |v - (2147483647 / 2 : Rat) * (2147483647 / 3)| ≤ 2 ^ (-50 : Int) *
      max |(2147483647 / 2 : Rat)| (max |(2147483647 / 3 : Rat)|
        |(2147483647 / 2 : Rat) * (2147483647 / 3)|) := by
  have hb : ∀ q : Rat, |q| < 2 ^ (62 : Int) → |q| < 2 ^ (1022 : Int) ∧ |q| < 2 ^ (1023 : Int) :=
    fun q h => ⟨lt_of_lt_of_le h (Fl.two_zpow_mono (by norm_num)),
      lt_of_lt_of_le h (Fl.two_zpow_mono (by norm_num))⟩
  exact T08_2_mul_accuracy (.rat 2147483647 2) (.rat 2147483647 3) (by decide) (by decide) rfl rfl
    (by norm_num [val]) (by norm_num [val]) (hb _ (by norm_num)).2 (hb _ (by norm_num)).2
    (hb _ (by norm_num)).1 (by decide +kernel)
-- `T08_2_div_accuracy` applies: `(/ 1099511627777 3)` (the dividend a bignum) is answered by a double
example : div (.big 1099511627777) (.fix 3) = .ok (.flo ⟨0x4255555555556aab⟩) := by decide +kernel
example : ∃ v, val (.flo ⟨0x4255555555556aab⟩) = some v ∧
    |v - (1099511627777 : Rat) / 3| ≤ 2 ^ (-50 : Int) *
      max |(1099511627777 : Rat)| (max |(3 : Rat)| |(1099511627777 : Rat) / 3|) := by
  have hb : ∀ q : Rat, |q| < 2 ^ (62 : Int) → |q| < 2 ^ (1022 : Int) ∧ |q| < 2 ^ (1023 : Int) :=
    fun q h => ⟨lt_of_lt_of_le h (Fl.two_zpow_mono (by norm_num)),
      lt_of_lt_of_le h (Fl.two_zpow_mono (by norm_num))⟩
  exact T08_2_div_accuracy (.big 1099511627777) (.fix 3) (by decide) (by decide) rfl rfl
    (by norm_num [val]) (by norm_num [val]) (by norm_num) (hb _ (by norm_num)).2
    (hb _ (by norm_num)).2 (hb _ (by norm_num)).1 (by decide +kernel) rfl
-- the rounding facts speak about concrete doubles: 1/3 rounds to 0x3fd5555555555555
example : Fl.rnd (1 / 3) = ⟨0x3fd5555555555555⟩ := by decide +kernel
-- the guards of the `_partial` theorems are satisfiable on the boundary
example : div (.fix 1) (.fix (-2147483648)) = .ok (.flo ⟨0xbe00000000000000⟩) := by decide +kernel

end Marwood.Proofs.C08
