import Marwood.Lemmas.Store
import Marwood.Lemmas.StoreList
import Marwood.Lemmas.PreludeAgree
import Marwood.Lemmas.PreludeInterpAss
import Marwood.Lemmas.PreludeInterpMap
import Marwood.Lemmas.PreludeLength
import Marwood.Lemmas.TotalLength
import Marwood.Lemmas.EqualAgree
import Marwood.Lemmas.EqualViewMain
import Marwood.Lemmas.StoreMapPlan
import Marwood.Lemmas.TotalPrelude
/-!
# C14 — list and vector procedures match their specification and preserve identity

Property theorems only. Model: `Marwood.Store` (`list.rs`, `vector.rs`, `vm/vector.rs`, `compare.rs`,
`predicate.rs` after the `fix:` commits 7cdbaf6 8902a1e c831323 aeab62c 3a9d75e, and the Scheme
definitions of `prelude.scm`). Vocabulary: `Marwood/Spec/StoreViews.lean`
(`IsList`, `Spine`, `Chain`, `IsVec`, `IsIndex`, `Extends`, `OnlyCell`, `OnlyVec`, `Denotes`).

For every procedure: (a) the result on valid arguments, (b) `err` on invalid ones, (c) the frame
(`Extends` for procedures that only allocate, `OnlyCell`/`OnlyVec` for the mutators), (d) identity
(element *references* are preserved: an element is `ptr a` for the same address `a`, a vector slot
holds the very value that was stored).
-/
namespace Marwood.Proofs.C14
open Marwood Marwood.Store Marwood.Store.Outcome

/-! ## vectors -/

/-- (a)(d) `vector-ref` returns the value stored in slot `k` itself -/
theorem vectorRef_ok {s : Store} {v i : VCell} {id k : Nat} {xs : List VCell}
    (hv : IsVec s v id xs) (hi : IsIndex s i k) (hk : k < xs.length) :
    vectorRef s [v, i] = finish (.ok (s, xs[k])) := by
  simp only [vectorRef, popIndex_of_isIndex hi, popVector_of_isVec hv, vecGet_of_isVec hv, bind_ok,
    List.getElem?_eq_getElem hk]

/-- (b) an index ≥ length is an error -/
theorem vectorRef_err_range {s : Store} {v i : VCell} {id k : Nat} {xs : List VCell}
    (hv : IsVec s v id xs) (hi : IsIndex s i k) (hk : xs.length ≤ k) :
    vectorRef s [v, i] = .err .vindex := by
  simp only [vectorRef, popIndex_of_isIndex hi, popVector_of_isVec hv, vecGet_of_isVec hv, bind_ok,
    List.getElem?_eq_none hk]

/-- (b) a negative, too large or non-numeric index is an error -/
theorem vectorRef_err_index {s : Store} {v i : VCell} (hi : NotIndex s i) :
    ∃ e, vectorRef s [v, i] = .err e := by
  obtain ⟨e, he⟩ := popIndex_of_notIndex hi
  exact ⟨e, by simp only [vectorRef, he, bind_err]⟩

/-- (a)(c) `vector-set!` replaces slot `k` of the addressed vector and nothing else -/
theorem vectorSet_ok {s : Store} {v i x : VCell} {id k : Nat} {xs : List VCell}
    (hv : IsVec s v id xs) (hi : IsIndex s i k) (hk : k < xs.length) :
    ∃ s', vectorSet s [v, i, x] = .ok (s', .void) ∧ OnlyVec s s' id ∧
      s'.vecs[id]? = some (xs.set k x) := by
  obtain ⟨s', h1, h2, h3⟩ := vecSet_spec (isVec_lt hv) (xs.set k x)
  refine ⟨s', ?_, h2, h3⟩
  have hnot : ¬ (k ≥ xs.length) := by omega
  simp only [vectorSet, popIndex_of_isIndex hi, popVector_of_isVec hv, vecGet_of_isVec hv, bind_ok,
    if_neg hnot, h1]

theorem vectorSet_err_range {s : Store} {v i x : VCell} {id k : Nat} {xs : List VCell}
    (hv : IsVec s v id xs) (hi : IsIndex s i k) (hk : xs.length ≤ k) :
    vectorSet s [v, i, x] = .err .vindex := by
  have hge : k ≥ xs.length := hk
  simp only [vectorSet, popIndex_of_isIndex hi, popVector_of_isVec hv, vecGet_of_isVec hv, bind_ok,
    if_pos hge]

theorem vectorSet_err_index {s : Store} {v i x : VCell} (hi : NotIndex s i) :
    ∃ e, vectorSet s [v, i, x] = .err e := by
  obtain ⟨e, he⟩ := popIndex_of_notIndex hi
  exact ⟨e, by simp only [vectorSet, he, bind_err]⟩

/-- (d) what is stored is what is retrieved: `(vector-ref (vector-set! v k x) k)` is `x` itself -/
theorem vectorRef_vectorSet {s s' : Store} {v i x r : VCell} {id k : Nat} {xs : List VCell}
    (hv : IsVec s v id xs) (hi : IsIndex s i k) (hk : k < xs.length)
    (hset : vectorSet s [v, i, x] = .ok (s', r)) :
    vectorRef s' [v, i] = finish (.ok (s', x)) := by
  obtain ⟨s'', h1, h2, h3⟩ := vectorSet_ok (x := x) hv hi hk
  rw [h1] at hset
  cases hset
  have hv' : IsVec s' v id (xs.set k x) := ⟨by rw [h2.get]; exact hv.1, h3⟩
  have hk' : k < (xs.set k x).length := by simpa using hk
  rw [vectorRef_ok hv' (h2.isIndex hi) hk']
  simp

/-- (a)(c) `vector-fill!` makes every slot of the addressed vector hold `x` itself -/
theorem vectorFill_ok {s : Store} {v x : VCell} {id : Nat} {xs : List VCell}
    (hv : IsVec s v id xs) :
    ∃ s', vectorFill s [v, x] = .ok (s', .void) ∧ OnlyVec s s' id ∧
      s'.vecs[id]? = some (List.replicate xs.length x) := by
  obtain ⟨s', h1, h2, h3⟩ := vecSet_spec (isVec_lt hv) (List.replicate xs.length x)
  refine ⟨s', ?_, h2, h3⟩
  simp only [vectorFill, popVector_of_isVec hv, vecGet_of_isVec hv, bind_ok, h1]

theorem vectorLength_ok {s : Store} {v : VCell} {id : Nat} {xs : List VCell}
    (hv : IsVec s v id xs) : vectorLength s [v] = .ok (s, .num xs.length) := by
  simp only [vectorLength, popVector_of_isVec hv, vecGet_of_isVec hv, bind_ok]

/-- (b) every vector procedure rejects a non-vector -/
theorem popVector_err {s : Store} {v c : VCell} (hg : s.get v = .ok c) (hc : ∀ id, c ≠ .vec id) :
    popVector s v = .err .syntax := by
  unfold popVector
  simp only [hg, bind_ok]

theorem vectorLength_err {s : Store} {v c : VCell} (hg : s.get v = .ok c)
    (hc : ∀ id, c ≠ .vec id) : vectorLength s [v] = .err .syntax := by
  simp only [vectorLength, popVector_err hg hc, bind_err]

/-- (a)(c)(d) `(vector x …)` is a new vector whose slots hold the arguments themselves -/
theorem vector_ok (s : Store) (args : List VCell) :
    ∃ s' p, vector s args = .ok (s', .ptr p) ∧ IsVec s' (.ptr p) s.vecs.length args ∧
      Extends s s' := newVec_finish s args

theorem makeVector_ok {s : Store} {n fill : VCell} {k : Nat} (hn : IsIndex s n k)
    (hcap : k ≤ vecCapacity) :
    ∃ s' p, makeVector s [n, fill] = .ok (s', .ptr p) ∧
      IsVec s' (.ptr p) s.vecs.length (List.replicate k fill) ∧ Extends s s' := by
  obtain ⟨s', p, h1, h2, h3⟩ := newVec_finish s (List.replicate k fill)
  refine ⟨s', p, ?_, h2, h3⟩
  have hnot : ¬ (k > vecCapacity) := by omega
  simp only [makeVector, makeVector.go, hn.1, bind_ok, toUsize_natCast hn.2, orErr_some,
    if_neg hnot, h1]

theorem makeVector_err {s : Store} {n fill : VCell} (hn : NotIndex s n) :
    ∃ e, makeVector s [n, fill] = .err e := by
  obtain ⟨c, hc, hne⟩ := hn
  simp only [makeVector, makeVector.go, hc, bind_ok]
  cases c with
  | num m =>
    cases m with
    | ofNat k =>
      by_cases hk : k < usizeLimit
      · exact absurd rfl (hne k hk)
      · refine ⟨.syntax, ?_⟩
        show (orErr .syntax (if k < usizeLimit then some k else none) >>= _) = _
        rw [if_neg hk]; rfl
    | negSucc k => exact ⟨_, rfl⟩
  | _ => exact ⟨_, rfl⟩

/-- (a)(c)(d) `(vector-copy v start)`, `start ≤ length`: a new vector with the same element values -/
theorem vectorCopy_ok {s : Store} {v b : VCell} {id k : Nat} {xs : List VCell}
    (hv : IsVec s v id xs) (hb : IsIndex s b k) (hk : k ≤ xs.length) :
    ∃ s' p, vectorCopy s [v, b] = .ok (s', .ptr p) ∧
      IsVec s' (.ptr p) s.vecs.length (xs.drop k) ∧ Extends s s' := by
  obtain ⟨s', p, h1, h2, h3⟩ := newVec_finish s (xs.drop k)
  refine ⟨s', p, ?_, h2, h3⟩
  have hnot : ¬ (k > xs.length) := by omega
  have hcv : cloneVector xs (some k) none = xs.drop k := by
    unfold cloneVector
    simp only [Option.getD_some, Nat.min_eq_left hk]
    by_cases hge : k ≥ xs.length
    · have : k = xs.length := by omega
      subst this; simp
    · simp only [if_neg hge]
      rw [List.take_of_length_le (by simp)]
  simp only [vectorCopy, popIndex_of_isIndex hb, bind_ok, vectorCopy.go, popVector_of_isVec hv,
    vecGet_of_isVec hv, if_neg hnot, vectorCopy.chk2, vectorCopy.done, hcv, h1]

theorem vectorCopy_all {s : Store} {v : VCell} {id : Nat} {xs : List VCell}
    (hv : IsVec s v id xs) :
    ∃ s' p, vectorCopy s [v] = .ok (s', .ptr p) ∧
      IsVec s' (.ptr p) s.vecs.length xs ∧ Extends s s' := by
  obtain ⟨s', p, h1, h2, h3⟩ := newVec_finish s xs
  refine ⟨s', p, ?_, h2, h3⟩
  have hcv : cloneVector xs none none = xs := by
    unfold cloneVector
    simp only [Option.getD_none, Nat.zero_min]
    by_cases hge : 0 ≥ xs.length
    · have : xs = [] := List.eq_nil_of_length_eq_zero (by omega)
      subst this; simp
    · simp only [if_neg hge]; simp
  simp only [vectorCopy, vectorCopy.go, popVector_of_isVec hv, bind_ok,
    vecGet_of_isVec hv, vectorCopy.chk2, vectorCopy.done, hcv, h1]

/-- (b) a start index beyond the length is an error (start = length is the empty copy) -/
theorem vectorCopy_err_range {s : Store} {v b : VCell} {id k : Nat} {xs : List VCell}
    (hv : IsVec s v id xs) (hb : IsIndex s b k) (hk : xs.length < k) :
    vectorCopy s [v, b] = .err .vindex := by
  have : k > xs.length := hk
  simp only [vectorCopy, popIndex_of_isIndex hb, bind_ok, vectorCopy.go, popVector_of_isVec hv,
    vecGet_of_isVec hv, if_pos this]

/-- (a)(c)(d) `(vector-copy! to at from start end)` with `start ≤ end ≤ |from|` and
    `at + (end - start) ≤ |to|`: slot `at + j` of the target receives the *original* element
    `start + j` of the source — also when source and target are the same vector and the ranges
    overlap — and every other slot of the target, every other vector, every pair and every string is
    unchanged -/
theorem vectorCopyBang_ok {s : Store} {to at_ from_ b e : VCell} {tid fid a st en : Nat}
    {txs fxs : List VCell}
    (hto : IsVec s to tid txs) (hfrom : IsVec s from_ fid fxs) (hat : IsIndex s at_ a)
    (hb : IsIndex s b st) (he : IsIndex s e en)
    (h1 : st ≤ en) (h2 : en ≤ fxs.length) (h3 : a + (en - st) ≤ txs.length) :
    ∃ s' ys, vectorCopyBang s [to, at_, from_, b, e] = .ok (s', .void) ∧ OnlyVec s s' tid ∧
      s'.vecs[tid]? = some ys ∧ ys.length = txs.length ∧
      ∀ i, ys[i]? = if a ≤ i ∧ i < a + (en - st) then fxs[st + (i - a)]? else txs[i]? := by
  have := vectorCopyBang_go_ok (some st) (some en) hto hfrom hat h1 h2 h3
  simpa only [vectorCopyBang, popIndex_of_isIndex hb, popIndex_of_isIndex he, bind_ok,
    Option.getD_some] using this

/-- the same without `end` (= the length of the source) -/
theorem vectorCopyBang_ok_start {s : Store} {to at_ from_ b : VCell} {tid fid a st : Nat}
    {txs fxs : List VCell}
    (hto : IsVec s to tid txs) (hfrom : IsVec s from_ fid fxs) (hat : IsIndex s at_ a)
    (hb : IsIndex s b st) (h1 : st ≤ fxs.length) (h3 : a + (fxs.length - st) ≤ txs.length) :
    ∃ s' ys, vectorCopyBang s [to, at_, from_, b] = .ok (s', .void) ∧ OnlyVec s s' tid ∧
      s'.vecs[tid]? = some ys ∧ ys.length = txs.length ∧
      ∀ i, ys[i]? = if a ≤ i ∧ i < a + (fxs.length - st) then fxs[st + (i - a)]? else txs[i]? := by
  have := vectorCopyBang_go_ok (some st) none hto hfrom hat h1 (Nat.le_refl _) h3
  simpa only [vectorCopyBang, popIndex_of_isIndex hb, bind_ok, Option.getD_some,
    Option.getD_none] using this

/-- the same without `start` and `end` (the whole source) -/
theorem vectorCopyBang_ok_whole {s : Store} {to at_ from_ : VCell} {tid fid a : Nat}
    {txs fxs : List VCell}
    (hto : IsVec s to tid txs) (hfrom : IsVec s from_ fid fxs) (hat : IsIndex s at_ a)
    (h3 : a + fxs.length ≤ txs.length) :
    ∃ s' ys, vectorCopyBang s [to, at_, from_] = .ok (s', .void) ∧ OnlyVec s s' tid ∧
      s'.vecs[tid]? = some ys ∧ ys.length = txs.length ∧
      ∀ i, ys[i]? = if a ≤ i ∧ i < a + fxs.length then fxs[i - a]? else txs[i]? := by
  have := vectorCopyBang_go_ok none none hto hfrom hat (Nat.zero_le _) (Nat.le_refl _)
    (by simpa using h3)
  simpa only [vectorCopyBang, Option.getD_none, Nat.sub_zero, Nat.zero_add] using this

/-- (b) any violated range condition is an error, and nothing is written -/
theorem vectorCopyBang_err {s : Store} {to at_ from_ b e : VCell} {tid fid a st en : Nat}
    {txs fxs : List VCell}
    (hto : IsVec s to tid txs) (hfrom : IsVec s from_ fid fxs) (hat : IsIndex s at_ a)
    (hb : IsIndex s b st) (he : IsIndex s e en)
    (hbad : ¬ (st ≤ en ∧ en ≤ fxs.length ∧ a + (en - st) ≤ txs.length)) :
    ∃ err, vectorCopyBang s [to, at_, from_, b, e] = .err err := by
  have := vectorCopyBang_go_err (some st) (some en) hto hfrom hat (by simpa using hbad)
  simpa only [vectorCopyBang, popIndex_of_isIndex hb, popIndex_of_isIndex he, bind_ok] using this

/-! ## pairs and lists -/

theorem cons_ok (s : Store) (a d : VCell) :
    ∃ s' p pa pd, cons s [a, d] = .ok (s', .ptr p) ∧ s'.cells[p]? = some (.pair pa pd) ∧
      Denotes s' pa a ∧ Denotes s' pd d ∧ Extends s s' ∧ s.cells.length ≤ p ∧
      s'.vecs = s.vecs ∧ s'.strs = s.strs := by
  obtain ⟨wd, hd1, hd2, hd3, hd4, hd5, _⟩ := put_spec s d
  rcases hpd : s.put d with ⟨s1, dv⟩
  rw [hpd] at hd1 hd2 hd3 hd4 hd5
  simp only at hd1 hd2 hd3 hd4 hd5
  obtain ⟨wa, ha1, ha2, ha3, ha4, ha5, _⟩ := put_spec s1 a
  rcases hpa : s1.put a with ⟨s2, av⟩
  rw [hpa] at ha1 ha2 ha3 ha4 ha5
  simp only at ha1 ha2 ha3 ha4 ha5
  subst hd1 ha1
  refine ⟨(s2.alloc (.pair wa wd)).1, s2.cells.length, wa, wd, ?_, alloc_cell s2 _,
    Denotes.mono (alloc_extends s2 _) ha3,
    Denotes.mono ((ha2).trans (alloc_extends s2 _)) hd3,
    (hd2.trans ha2).trans (alloc_extends s2 _), ?_, ?_, ?_⟩
  · simp only [cons, consRaw, hpd, hpa, VCell.asPtr_ptr, bind_ok]
    rfl
  · exact Nat.le_trans hd2.len ha2.len
  · simp [ha4, hd4]
  · simp [ha5, hd5]

theorem setCar_ok {s : Store} {q a d : Nat} {x : VCell} (hx : x.isValue = true)
    (h : s.cells[q]? = some (.pair a d)) :
    ∃ s' w, setCar s [.ptr q, x] = .ok (s', .void) ∧ s'.cells[q]? = some (.pair w d) ∧
      Denotes s' w x ∧ OnlyCell s s' q := by
  obtain ⟨w, h1, h2, h3, h4, h5, _⟩ := put_spec s x
  rcases hp : s.put x with ⟨s1, o⟩
  rw [hp] at h1 h2 h3 h4 h5
  simp only at h1 h2 h3 h4 h5
  subst h1
  have hq1 : s1.cells[q]? = some (.pair a d) := h2.cell h
  obtain ⟨s', e1, e2, e3, e4, e5, e6⟩ := setCell_spec (lt_of_cell hq1) (.pair w d)
  refine ⟨s', w, ?_, e2, ?_, ⟨?_, fun i hi hne => ?_, by rw [e5, h4], by rw [e6, h5]⟩⟩
  · simp only [setCar, hp, get_ptr, hq1, ofOption_some, bind_ok, VCell.asPtr_ptr, e1]
  · rcases h3 with h3 | ⟨h3a, h3b⟩
    · exact Or.inl h3
    · refine Or.inr ⟨h3a, ?_⟩
      by_cases hwq : w = q
      · subst hwq; rw [hq1] at h3b; cases h3b; simp [VCell.isValue] at hx
      · rw [e4 w hwq]; exact h3b
  · rw [e3]; exact h2.len
  · rw [e4 i hne, h2.cells i hi]

theorem setCdr_ok {s : Store} {q a d : Nat} {x : VCell} (hx : x.isValue = true)
    (h : s.cells[q]? = some (.pair a d)) :
    ∃ s' w, setCdr s [.ptr q, x] = .ok (s', .void) ∧ s'.cells[q]? = some (.pair a w) ∧
      Denotes s' w x ∧ OnlyCell s s' q := by
  obtain ⟨w, h1, h2, h3, h4, h5, _⟩ := put_spec s x
  rcases hp : s.put x with ⟨s1, o⟩
  rw [hp] at h1 h2 h3 h4 h5
  simp only at h1 h2 h3 h4 h5
  subst h1
  have hq1 : s1.cells[q]? = some (.pair a d) := h2.cell h
  obtain ⟨s', e1, e2, e3, e4, e5, e6⟩ := setCell_spec (lt_of_cell hq1) (.pair a w)
  refine ⟨s', w, ?_, e2, ?_, ⟨?_, fun i hi hne => ?_, by rw [e5, h4], by rw [e6, h5]⟩⟩
  · simp only [setCdr, hp, get_ptr, hq1, ofOption_some, bind_ok, VCell.asPtr_ptr, e1]
  · rcases h3 with h3 | ⟨h3a, h3b⟩
    · exact Or.inl h3
    · refine Or.inr ⟨h3a, ?_⟩
      by_cases hwq : w = q
      · subst hwq; rw [hq1] at h3b; cases h3b; simp [VCell.isValue] at hx
      · rw [e4 w hwq]; exact h3b
  · rw [e3]; exact h2.len
  · rw [e4 i hne, h2.cells i hi]

/-- (b) `set-car!` / `set-cdr!` on a non-pair is an error and changes nothing observable -/
theorem setCar_err {s : Store} {p x c : VCell} (h : s.get p = .ok c) (hc : c.isPair = false) :
    ∃ e, setCar s [p, x] = .err e := by
  obtain ⟨w, h1, h2, _⟩ := put_spec s x
  rcases hp : s.put x with ⟨s1, o⟩
  rw [hp] at h2
  simp only [setCar, hp, h2.get h, bind_ok]
  cases c <;> first | exact ⟨_, rfl⟩ | simp [VCell.isPair] at hc

theorem setCdr_err {s : Store} {p x c : VCell} (h : s.get p = .ok c) (hc : c.isPair = false) :
    ∃ e, setCdr s [p, x] = .err e := by
  obtain ⟨w, h1, h2, _⟩ := put_spec s x
  rcases hp : s.put x with ⟨s1, o⟩
  rw [hp] at h2
  simp only [setCdr, hp, h2.get h, bind_ok]
  cases c <;> first | exact ⟨_, rfl⟩ | simp [VCell.isPair] at hc

/-- (a)(c)(d) `reverse` of a proper list: a new list with the same element references in reverse
    order; nothing that existed is changed; every pair of the result is new (a copy, not shared) -/
theorem reverse_ok {s : Store} {v : VCell} {as : List Nat} {fuel : Nat}
    (hl : IsList s v as) (hfuel : as.length < fuel) :
    ∃ s' r, reverse fuel s [v] = .ok (s', r) ∧ IsList s' r as.reverse ∧ Extends s s' ∧
      (as ≠ [] → ∃ p ls q, r = .ptr p ∧ Chain s' p ls q ∧ s'.cells[q]? = some .nil ∧
        ls.map Prod.snd = as.reverse ∧ FreshFrom s.cells.length ls) := by
  cases hl with
  | nil hg =>
    refine ⟨s, .nil, ?_, .nil rfl, Extends.refl s, fun h => absurd rfl h⟩
    simp [reverse, hg, VCell.isPair]
  | cons hg ht =>
    rename_i a d rest
    have hext := alloc_extends s .nil
    obtain ⟨s', r, ls, h1, h2, h3, h4, h5⟩ := reverseLoop_spec s.cells.length rest fuel
      (s.alloc .nil).1 a d s.cells.length s.cells.length [] (ht.mono hext) .nil
      (by intro x hx; cases hx) (by simp) (by simp at hfuel; omega)
    have hq : s'.cells[s.cells.length]? = some .nil := h5.cell (alloc_cell s .nil)
    have hlist : IsList s' (.ptr r) (a :: rest).reverse := by
      have := h2.isList hq
      rw [h3] at this
      simpa using this
    refine ⟨s', .ptr r, ?_, hlist, hext.trans h5, fun _ => ⟨r, ls, s.cells.length, rfl, h2, hq, ?_, h4⟩⟩
    · simp only [reverse, hg, bind_ok, VCell.isPair_pair, Bool.not_true, Bool.false_eq_true, if_false,
        put_nil]
      exact h1
    · simpa using h3

/-- (b) `reverse` of an improper list (or a non-list) is an error -/
theorem reverse_err {s : Store} {v c : VCell} {as : List Nat} {fuel : Nat}
    (hl : Spine s v as c) (hc : c.isNil = false) (hfuel : as.length < fuel) :
    ∃ e, reverse fuel s [v] = .err e := by
  cases hl with
  | done hg hp =>
    simp only [reverse, hg, bind_ok, hp, hc, Bool.not_false, if_true, Bool.false_eq_true, if_false]
    exact ⟨_, rfl⟩
  | cons hg ht =>
    rename_i a d rest
    have hext := alloc_extends s .nil
    obtain ⟨e, he⟩ := reverseLoop_err hc rest fuel (s.alloc .nil).1 a d s.cells.length
      (ht.mono hext) (by simp at hfuel; omega)
    refine ⟨e, ?_⟩
    simp only [reverse, hg, bind_ok, VCell.isPair_pair, Bool.not_true, Bool.false_eq_true, if_false,
        put_nil]
    exact he

/-- (a)(c)(d) `(list x …)`: a new proper list whose element references denote the arguments
    themselves (a reference argument is stored as it is) -/
theorem list_ok (s : Store) (args : List VCell) :
    ∃ s' p as, list s args = .ok (s', .ptr p) ∧ IsList s' (.ptr p) as ∧
      DenotesAll s' as args ∧ Extends s s' := by
  have hext := alloc_extends s .nil
  obtain ⟨s', p, as, e1, e2, e3, e4, _, _⟩ := listLoop_spec args.reverse (s.alloc .nil).1 s.cells.length
    [] [] (.nil (get_of_cell (alloc_cell s _))) .nil
  refine ⟨s', p, as, ?_, e2, by simpa using e3, hext.trans e4⟩
  simp only [list, put_nil, VCell.asPtr_ptr, bind_ok]
  simp only [Store.alloc] at e1
  rw [e1]; rfl

/-- (a)(c)(d) `vector->list`: a new proper list whose element references denote the slots' values -/
theorem vectorToList_ok {s : Store} {v : VCell} {id : Nat} {xs : List VCell}
    (hv : IsVec s v id xs) :
    ∃ s' p as, vectorToList s [v] = .ok (s', .ptr p) ∧ IsList s' (.ptr p) as ∧
      DenotesAll s' as xs ∧ Extends s s' := by
  have hext := alloc_extends s .nil
  obtain ⟨s', p, as, e1, e2, e3, e4, _⟩ := vecToListLoop_spec xs.reverse (s.alloc .nil).1 s.cells.length
    [] [] (.nil (get_of_cell (alloc_cell s _))) .nil
  refine ⟨s', p, as, ?_, e2, by simpa using e3, hext.trans e4⟩
  simp only [vectorToList, popVector_of_isVec hv, vecGet_of_isVec hv, bind_ok, put_nil]
  simp only [Store.alloc] at e1
  exact e1

/-- (a)(c)(d) `list->vector` of a proper list: a new vector whose slots hold the element
    references of the list themselves -/
theorem listToVector_ok {s : Store} {v : VCell} {as : List Nat} {fuel : Nat}
    (hl : IsList s v as) (hfuel : as.length + 1 < fuel) :
    ∃ s' p, listToVector fuel s [v] = .ok (s', .ptr p) ∧
      IsVec s' (.ptr p) s.vecs.length (as.map VCell.ptr) ∧ Extends s s' := by
  cases hl with
  | nil hg =>
    simp only [listToVector, hg, bind_ok]
    exact newVec_finish s []
  | cons hg ht =>
    rename_i a d rest
    obtain ⟨s', p, h1, h2, h3⟩ := newVec_finish s ((a :: rest).map VCell.ptr)
    refine ⟨s', p, ?_, h2, h3⟩
    simp only [listToVector, hg, bind_ok, VCell.isPair_pair, Bool.not_true, Bool.false_eq_true, if_false,
      collectCars_spec rest fuel a d [] ht.toSpine (by simp at hfuel; omega), List.nil_append,
      VCell.isNil_nil]
    exact h1

/-- (b) `list->vector` of an improper list or a non-list is an error (fix 3a9d75e) -/
theorem listToVector_err {s : Store} {v c : VCell} {as : List Nat} {fuel : Nat}
    (hl : Spine s v as c) (hc : c.isNil = false) (hfuel : as.length + 1 < fuel) :
    ∃ e, listToVector fuel s [v] = .err e := by
  cases hl with
  | done hg hp =>
    simp only [listToVector, hg, bind_ok, hp, hc, Bool.not_false, if_true, Bool.false_eq_true, if_false]
    exact ⟨_, rfl⟩
  | cons hg ht =>
    rename_i a d rest
    simp only [listToVector, hg, bind_ok, VCell.isPair_pair, Bool.not_true, Bool.false_eq_true, if_false,
      collectCars_spec rest fuel a d [] ht (by simp at hfuel; omega), hc, Bool.not_false, if_true]
    exact ⟨_, rfl⟩

/-- (a) `length` of a proper list (the prelude's definition after the repair of `C06-circular-length`:
    two cursors, `Store.length` / `Store.lengthCount`; one unit of fuel for the call of `length`, one per
    call of its local `count`, which advances two pairs) -/
theorem length_ok {s : Store} {v : VCell} {as : List Nat} (hl : IsList s v as) :
    ∀ fuel, as.length / 2 + 1 < fuel → length fuel s v = .ok (.num as.length) :=
  fun _ hfuel => length_spine_ok hl.toSpine hfuel

/-- (b) `length` of an improper list or a non-list is an error — the same `expected pair` error as
    before the repair -/
theorem length_err {s : Store} {v c : VCell} {as : List Nat} (hl : Spine s v as c)
    (hc : c.isNil = false) : ∀ fuel, as.length / 2 + 1 < fuel → length fuel s v = .err .pair :=
  fun _ hfuel => length_spine_err hl hc hfuel

/-- (b′) `length` of a circular list — the cdr chain of the argument (`THL.cellAt s c k`: the cell `k`
    cdr steps away) consists of pairs for ever — is that error too, never `diverge`, within
    `|cells| + 2` units of fuel, on every well-formed store -/
theorem length_cyclic_err {s : Store} (hs : s.WF) {v c : VCell} (hv : VCell.Valid s v) (hg : s.get v = .ok c)
    (hcyc : ∀ k, (THL.cellAt s c k).isPair = true) :
    ∀ fuel, s.cells.length + 2 ≤ fuel → length fuel s v = .err .pair :=
  fun _ hfuel => Marwood.Store.length_cyclic_err hs hv hg hcyc hfuel

/-- (a)(b)(b′) together, for every valid argument on every well-formed store: the number of pairs when
    the cdr chain reaches `()`, the error when it does not -/
theorem length_total {s : Store} (hs : s.WF) {v : VCell} (hv : VCell.Valid s v) :
    ∀ fuel, s.cells.length + 2 ≤ fuel →
      (ProperList s v ∧ ∃ n : Nat, length fuel s v = .ok (.num n)) ∨
      (¬ ProperList s v ∧ length fuel s v = .err .pair) :=
  fun _ hfuel => Marwood.Store.length_total hs hv hfuel

/-- (a) `list?` is `#t` exactly on proper lists (for every acyclic argument) -/
theorem isList_spec {s : Store} {v c : VCell} {as : List Nat} {fuel : Nat}
    (hl : Spine s v as c) (hfuel : as.length + 1 < fuel) :
    isList fuel s [v] = .ok (s, .bool c.isNil) := by
  cases hl with
  | done hg hp =>
    obtain ⟨f, rfl⟩ : ∃ f, fuel = f + 1 := ⟨fuel - 1, by simp at hfuel; omega⟩
    simp only [isList, hg, bind_ok, isListLoop, hp, Bool.not_false, if_true]
  | cons hg ht =>
    rename_i a d rest
    simp only [isList, hg, bind_ok, isListLoop_spec rest fuel a d ht (by simp at hfuel; omega)]

/-- (a)(d) `(list-tail l k)`, `k ≤` number of pairs: the k-th cdr itself -/
theorem listTail_ok {s : Store} {v i c : VCell} {as : List Nat} {k : Nat}
    (hl : Spine s v as c) (hlist : as ≠ [] ∨ c = .nil) (hi : IsIndex s i k) (hk : k ≤ as.length) :
    ∃ t, listTail s [v, i] = .ok (s, t) ∧ NthCdr s v k t ∧ Spine s t (as.drop k) c := by
  obtain ⟨t, h1, h2⟩ := hl.nthCdr k hk
  refine ⟨t, ?_, h1, h2⟩
  have hpre : ∃ c0, s.get v = .ok c0 ∧ (!c0.isPair && !c0.isNil) = false := by
    cases hl with
    | done hg hp =>
      rcases hlist with h | h
      · exact absurd rfl h
      · subst h; exact ⟨_, hg, rfl⟩
    | cons hg _ => exact ⟨_, hg, rfl⟩
  obtain ⟨c0, hg0, hc0⟩ := hpre
  simp only [listTail, popIndex_of_isIndex hi, bind_ok, hg0, hc0, Bool.false_eq_true, if_false,
    getListTail_ok h1]

/-- (b) `list-tail` beyond the end is an error -/
theorem listTail_err {s : Store} {v i c : VCell} {as : List Nat} {k : Nat}
    (hl : Spine s v as c) (hi : IsIndex s i k) (hk : as.length < k) :
    ∃ e, listTail s [v, i] = .err e := by
  obtain ⟨e, he⟩ := getListTail_err hl k hk
  obtain ⟨c0, hg0, _⟩ := hl.head
  simp only [listTail, popIndex_of_isIndex hi, bind_ok, hg0]
  by_cases h : (!c0.isPair && !c0.isNil) = true
  · rw [if_pos h]; exact ⟨_, rfl⟩
  · rw [if_neg h, he]; exact ⟨_, rfl⟩

theorem listTail_err_index {s : Store} {v i : VCell} (hi : NotIndex s i) :
    ∃ e, listTail s [v, i] = .err e := by
  obtain ⟨e, he⟩ := popIndex_of_notIndex hi
  exact ⟨e, by simp only [listTail, he, bind_err]⟩

/-- (a)(d) `(list-ref l k)`, `k <` number of pairs: the k-th element reference itself -/
theorem listRef_ok {s : Store} {v i c : VCell} {as : List Nat} {k : Nat}
    (hl : Spine s v as c) (hi : IsIndex s i k) (hk : k < as.length) :
    listRef s [v, i] = .ok (s, .ptr as[k]) := by
  obtain ⟨t, h1, h2⟩ := hl.nthCdr k (by omega)
  have hd : as.drop k = as[k] :: as.drop (k + 1) := by
    rw [List.drop_eq_getElem_cons hk]
  rw [hd] at h2
  have hpre : ∃ c0, s.get v = .ok c0 ∧ (!c0.isPair && !c0.isNil) = false := by
    cases hl with
    | done hg hp => simp at hk
    | cons hg _ => exact ⟨_, hg, rfl⟩
  obtain ⟨c0, hg0, hc0⟩ := hpre
  cases h2 with
  | cons hgt _ =>
    simp only [listRef, popIndex_of_isIndex hi, bind_ok, hg0, hc0, Bool.false_eq_true, if_false,
      getListTail_ok h1, hgt]

/-- (b) `list-ref` at or beyond the number of elements is an error -/
theorem listRef_err {s : Store} {v i c : VCell} {as : List Nat} {k : Nat}
    (hl : Spine s v as c) (hi : IsIndex s i k) (hk : as.length ≤ k) :
    ∃ e, listRef s [v, i] = .err e := by
  obtain ⟨c0, hg0, _⟩ := hl.head
  simp only [listRef, popIndex_of_isIndex hi, bind_ok, hg0]
  by_cases h : (!c0.isPair && !c0.isNil) = true
  · rw [if_pos h]; exact ⟨_, rfl⟩
  · rw [if_neg h]
    rcases Nat.lt_or_ge as.length k with hlt | hge
    · obtain ⟨e, he⟩ := getListTail_err hl k hlt
      rw [he]; exact ⟨_, rfl⟩
    · have hk' : k = as.length := by omega
      obtain ⟨t, h1, h2⟩ := hl.nthCdr k (by omega)
      rw [hk', List.drop_length] at h2
      rw [getListTail_ok h1]
      cases h2 with
      | done hgt hp =>
        simp only [bind_ok, hgt]
        rename_i c'
        cases c <;> first | exact ⟨_, rfl⟩ | simp [VCell.isPair] at hp

/-- `(eqv? x key)` for an immediate key: true iff the cell of `x` holds the same scalar -/
theorem eqv_key {s : Store} {k c : VCell} {a : Nat} (hk : k.isKeyScalar = true)
    (ha : s.cells[a]? = some c) : eqv s k (.ptr a) = .ok (decide (k = c)) := by
  have hp : k.isPtr = false := by cases k <;> simp [VCell.isKeyScalar] at hk <;> rfl
  simp only [eqv, hp, Bool.false_and, Bool.false_eq_true, if_false, derefArg, get_imm hp, bind_ok,
    get_of_cell ha, eqvCells_key hk]

/-- `(eq? x 'sym)`: the test is identity of the reference, given that symbols are interned (`hi`: no
    other cell holds the same name — the heap invariant `Interned` of C03/C18; since fix 77f2b17 two
    distinct symbol cells would be compared by name) -/
theorem eqv_symbol {s : Store} {q a : Nat} {n : Text} {c : VCell} (hq : s.cells[q]? = some (.sym n))
    (ha : s.cells[a]? = some c) (hi : c = .sym n → q = a) :
    eqv s (.ptr q) (.ptr a) = .ok (decide (q = a)) := by
  by_cases h : q = a
  · subst h; simp [eqv, VCell.isPtr]
  · have : (VCell.ptr q == VCell.ptr a) = false := by simp [h]
    simp only [eqv, VCell.isPtr, Bool.true_and, this, Bool.false_eq_true, if_false, derefArg,
      get_of_cell hq, get_of_cell ha, bind_ok, h, decide_false]
    cases c <;> try rfl
    rename_i m
    have hne : ¬ (n = m) := fun hnm => h (hi (by rw [hnm]))
    simp [eqvCells, hne]

theorem mem_spec {s : Store} {test : Store → VCell → VCell → Outcome Bool} {obj : VCell}
    {p : Nat → Bool} {v c : VCell} {as : List Nat} (hl : Spine s v as c)
    (ht : ∀ a ∈ as, test s (.ptr a) obj = .ok (p a)) :
    ∀ fuel, as.length < fuel →
    (∃ k, ∃ h : k < as.length, p as[k] = true ∧ (∀ j (hj : j < k), p (as[j]'(by omega)) = false) ∧
        ∃ r, mem test fuel s obj v = .ok r ∧ NthCdr s v k r) ∨
    ((∀ a ∈ as, p a = false) ∧
      ((c = .nil ∧ mem test fuel s obj v = .ok (.bool false)) ∨
       (c ≠ .nil ∧ ∃ e, mem test fuel s obj v = .err e))) := by
  induction hl with
  | done hg hp =>
    intro fuel hfuel
    obtain ⟨f, rfl⟩ : ∃ f, fuel = f + 1 := ⟨fuel - 1, by omega⟩
    rename_i v c
    refine Or.inr ⟨by simp, ?_⟩
    by_cases hc : c = .nil
    · subst hc
      exact Or.inl ⟨rfl, by simp only [mem, nullP_of_get hg, bind_ok, VCell.isNil_nil, if_true]⟩
    · refine Or.inr ⟨hc, ?_⟩
      have : c.isNil = false := by cases c <;> first | rfl | exact absurd rfl hc
      simp only [mem, nullP_of_get hg, bind_ok, this, Bool.false_eq_true, if_false, carV_err hg hp,
        bind_err]
      exact ⟨_, rfl⟩
  | cons hg _ ih =>
    intro fuel hfuel
    obtain ⟨f, rfl⟩ : ∃ f, fuel = f + 1 := ⟨fuel - 1, by omega⟩
    rename_i v a d as c _
    have hta := ht a (List.mem_cons_self ..)
    by_cases hpa : p a = true
    · refine Or.inl ⟨0, by simp, by simpa using hpa, by intro j hj; omega, v, ?_, .zero⟩
      simp only [mem, nullP_of_get hg, bind_ok, VCell.isNil, Bool.false_eq_true, if_false, carV_ok hg,
        hta, hpa, if_true]
    · have hpa' : p a = false := by simpa using hpa
      have hstep : mem test (f + 1) s obj v = mem test f s obj (.ptr d) := by
        simp only [mem, nullP_of_get hg, bind_ok, VCell.isNil, Bool.false_eq_true, if_false, carV_ok hg,
          hta, hpa', cdrV_ok hg]
      rcases ih (fun x hx => ht x (List.mem_cons_of_mem _ hx)) f (by simp at hfuel; omega) with
        ⟨k, hk, h1, h2, r, h3, h4⟩ | ⟨h1, h2⟩
      · refine Or.inl ⟨k + 1, by simpa using hk, by simpa using h1, ?_, r, by rw [hstep]; exact h3,
          .succ hg h4⟩
        intro j hj
        cases j with
        | zero => simpa using hpa'
        | succ j => simpa using h2 j (by omega)
      · refine Or.inr ⟨?_, ?_⟩
        · intro x hx
          rcases List.mem_cons.mp hx with rfl | hx
          · exact hpa'
          · exact h1 x hx
        · rw [hstep]; exact h2

theorem ass_spec {s : Store} {test : Store → VCell → VCell → Outcome Bool} {obj : VCell}
    {p : Nat → Bool} {v c : VCell} {as : List Nat} (hl : Spine s v as c)
    (ht : ∀ a ∈ as, EntryTest s test obj p a) :
    ∀ fuel, as.length < fuel →
    (∃ k, ∃ h : k < as.length, p as[k] = true ∧ (∀ j (hj : j < k), p (as[j]'(by omega)) = false) ∧
        ass test fuel s obj v = .ok (.ptr as[k])) ∨
    ((∀ a ∈ as, p a = false) ∧
      ((c = .nil ∧ ass test fuel s obj v = .ok (.bool false)) ∨
       (c ≠ .nil ∧ ∃ e, ass test fuel s obj v = .err e))) := by
  induction hl with
  | done hg hp =>
    intro fuel hfuel
    obtain ⟨f, rfl⟩ : ∃ f, fuel = f + 1 := ⟨fuel - 1, by omega⟩
    rename_i v c
    refine Or.inr ⟨by simp, ?_⟩
    by_cases hc : c = .nil
    · subst hc
      exact Or.inl ⟨rfl, by simp only [ass, nullP_of_get hg, bind_ok, VCell.isNil_nil, if_true]⟩
    · refine Or.inr ⟨hc, ?_⟩
      have : c.isNil = false := by cases c <;> first | rfl | exact absurd rfl hc
      simp only [ass, nullP_of_get hg, bind_ok, this, Bool.false_eq_true, if_false, carV_err hg hp,
        bind_err]
      exact ⟨_, rfl⟩
  | cons hg _ ih =>
    intro fuel hfuel
    obtain ⟨f, rfl⟩ : ∃ f, fuel = f + 1 := ⟨fuel - 1, by omega⟩
    rename_i v a d as c _
    obtain ⟨ce, hce, hmatch⟩ := ht a (List.mem_cons_self ..)
    -- the value of the `and` test at this entry
    have hhit : (do
        if (← pairP s (.ptr a)) then do
          let k ← carV s (.ptr a)
          test s k obj
        else .ok false : Outcome Bool) = .ok (p a) := by
      rw [pairP_of_get (get_of_cell hce)]
      cases ce with
      | pair k d' =>
        simp only at hmatch
        simp only [bind_ok, VCell.isPair_pair, if_true, carV_ok (get_of_cell hce), hmatch]
      | _ => simp only at hmatch; simp [VCell.isPair, hmatch]
    by_cases hpa : p a = true
    · refine Or.inl ⟨0, by simp, by simpa using hpa, by intro j hj; omega, ?_⟩
      simp only [ass, nullP_of_get hg, bind_ok, VCell.isNil, Bool.false_eq_true, if_false, carV_ok hg,
        hhit, hpa, if_true, List.getElem_cons_zero]
    · have hpa' : p a = false := by simpa using hpa
      have hstep : ass test (f + 1) s obj v = ass test f s obj (.ptr d) := by
        simp only [ass, nullP_of_get hg, bind_ok, VCell.isNil, Bool.false_eq_true, if_false, carV_ok hg,
          hhit, hpa', cdrV_ok hg]
      rcases ih (fun x hx => ht x (List.mem_cons_of_mem _ hx)) f (by simp at hfuel; omega) with
        ⟨k, hk, h1, h2, h3⟩ | ⟨h1, h2⟩
      · refine Or.inl ⟨k + 1, by simpa using hk, by simpa using h1, ?_, by rw [hstep]; simpa using h3⟩
        intro j hj
        cases j with
        | zero => simpa using hpa'
        | succ j => simpa using h2 j (by omega)
      · refine Or.inr ⟨?_, ?_⟩
        · intro x hx
          rcases List.mem_cons.mp hx with rfl | hx
          · exact hpa'
          · exact h1 x hx
        · rw [hstep]; exact h2

/-- (a)(c)(d) `(append l₁ … lₙ last)`, every `lᵢ` a proper list: a chain of *new* pairs carrying the
    element references of `l₁ … lₙ` in order, whose final cdr is the reference of `last` itself
    (the last argument is shared, not copied); nothing that existed is changed -/
theorem append_ok {s : Store} {init : List VCell} {last : VCell} {views : List (List Nat)}
    {fuel : Nat} (h : AllLists s init views) (hfuel : ∀ as ∈ views, as.length + 1 < fuel) :
    ∃ s' r w ls, append fuel s (init ++ [last]) = .ok (s', .ptr r) ∧ Chain s' r ls w ∧
      Denotes s' w last ∧ ls.map Prod.snd = views.flatten ∧ (∀ y ∈ ls, s.cells.length ≤ y.1) ∧
      Extends s s' := by
  obtain ⟨w, h1, h2, h3, _, _, _⟩ := put_spec s last
  rcases hp : s.put last with ⟨s0, t⟩
  rw [hp] at h1 h2 h3
  simp only at h1 h2 h3
  subst h1
  obtain ⟨s', r, ls, e1, e2, e3, e4, e5⟩ := appendLoop_spec (fuel := fuel) init.reverse views.reverse s0 w
    (h.reverse.mono h2) (fun x hx => hfuel x (by simpa using hx))
  refine ⟨s', r, w, ls, ?_, e2, h3.mono e5, by simpa using e3,
    fun y hy => Nat.le_trans h2.len (e4 y hy), h2.trans e5⟩
  simp only [append, List.reverse_append, List.reverse_cons, List.reverse_nil, List.nil_append,
    List.cons_append, hp]
  exact e1

/-- (b) `(append l last)` with `l` improper or not a list is an error -/
theorem append_err {s : Store} {l last c : VCell} {as : List Nat} {fuel : Nat}
    (hl : Spine s l as c) (hc : c.isNil = false) (hfuel : as.length + 1 < fuel) :
    ∃ e, append fuel s [l, last] = .err e := by
  obtain ⟨w, h1, h2, h3, _, _, _⟩ := put_spec s last
  rcases hp : s.put last with ⟨s0, t⟩
  rw [hp] at h1 h2 h3
  simp only at h1 h2 h3
  subst h1
  have hl0 := hl.mono h2
  have hne : c ≠ .nil := by intro h; subst h; simp at hc
  simp only [append, List.reverse_cons, List.reverse_nil, List.nil_append, List.cons_append, hp]
  cases hl0 with
  | done hg hp' =>
    simp only [appendLoop, hg, bind_ok]
    cases c <;> first | exact absurd rfl hne | exact ⟨_, rfl⟩ | simp [VCell.isPair] at hp'
  | cons hg ht =>
    rename_i a d rest
    obtain ⟨e, he⟩ := (cloneList_spec (a := a) (fuel := fuel) ht (by simp at hfuel; omega)).2 hne
    simp only [appendLoop, hg, bind_ok, he, bind_err]
    exact ⟨_, rfl⟩

/-- (a)(d) `car`/`cdr` return the stored references themselves; they never change the store -/
theorem car_ok {s : Store} {v : VCell} {a d : Nat} (h : s.get v = .ok (.pair a d)) :
    car s [v] = .ok (s, .ptr a) := Marwood.Store.car_ok h

theorem cdr_ok {s : Store} {v : VCell} {a d : Nat} (h : s.get v = .ok (.pair a d)) :
    cdr s [v] = .ok (s, .ptr d) := Marwood.Store.cdr_ok h

/-- (b) `car`/`cdr` of a non-pair is an error -/
theorem car_err {s : Store} {v c : VCell} (h : s.get v = .ok c) (hc : c.isPair = false) :
    car s [v] = .err .pair := Marwood.Store.car_err h hc

theorem cdr_err {s : Store} {v c : VCell} (h : s.get v = .ok c) (hc : c.isPair = false) :
    cdr s [v] = .err .pair := Marwood.Store.cdr_err h hc

/-- (d) `(car (cons a d))` is the reference that denotes `a`: the object itself -/
theorem car_cons (s : Store) (a d : VCell) :
    ∃ s' p pa, cons s [a, d] = .ok (s', .ptr p) ∧ car s' [.ptr p] = .ok (s', .ptr pa) ∧
      Denotes s' pa a := by
  obtain ⟨s', p, pa, pd, h1, h2, h3, _⟩ := cons_ok s a d
  exact ⟨s', p, pa, h1, Marwood.Store.car_ok (get_of_cell h2), h3⟩

/-- (d) a mutation through one alias is visible through every alias: after `(set-car! p x)` every
    reference to the pair `q` — from a list spine, a vector slot, another pair — reads the new car,
    because they all are the address `q` -/
theorem setCar_visible {s : Store} {q a d : Nat} {x : VCell} (hx : x.isValue = true)
    (h : s.cells[q]? = some (.pair a d)) :
    ∃ s' w, setCar s [.ptr q, x] = .ok (s', .void) ∧ car s' [.ptr q] = .ok (s', .ptr w) ∧
      Denotes s' w x := by
  obtain ⟨s', w, h1, h2, h3, _⟩ := setCar_ok hx h
  exact ⟨s', w, h1, Marwood.Store.car_ok (get_of_cell h2), h3⟩

/-! ## the hypotheses are satisfiable: a concrete store

`ptr 4` is the list `(1 2)`, `ptr 3` its tail `(2)`, `ptr 5` the vector `#((1 2) 5 (2))` whose
slots alias the list and its tail, `ptr 7` the improper list `(1 . 7)`, `ptr 9` the alist
`((1 . 2))`. -/

def exStore : Store :=
  { cells := [.num 1, .num 2, .nil, .pair 1 2, .pair 0 3, .vec 0, .num 7, .pair 0 6, .pair 0 1,
      .pair 8 2],
    vecs := [[.ptr 4, .num 5, .ptr 3], []],
    strs := [] }

theorem ex_list : IsList exStore (.ptr 4) [0, 1] := .cons rfl (.cons rfl (.nil rfl))
theorem ex_spine : Spine exStore (.ptr 4) [0, 1] .nil := ex_list.toSpine
theorem ex_improper : Spine exStore (.ptr 7) [0] (.num 7) := .cons rfl (.done rfl rfl)
theorem ex_vec : IsVec exStore (.ptr 5) 0 [.ptr 4, .num 5, .ptr 3] := ⟨rfl, rfl⟩
theorem ex_idx (k : Nat) (h : k < usizeLimit := by decide) : IsIndex exStore (.num k) k := ⟨rfl, h⟩
theorem ex_notIdx : NotIndex exStore (.num (-1)) :=
  ⟨_, rfl, fun k _ h => by cases h⟩

example := vectorRef_ok ex_vec (ex_idx 2) (by decide)
example := vectorRef_err_range ex_vec (ex_idx 3) (by decide)
example := vectorRef_err_index (v := .ptr 5) ex_notIdx
example := vectorSet_ok (x := .ptr 7) ex_vec (ex_idx 0) (by decide)
example := vectorSet_err_range (x := .nil) ex_vec (ex_idx 3) (by decide)
example := vectorSet_err_index (v := .ptr 5) (x := .nil) ex_notIdx
example := vectorRef_vectorSet (x := .ptr 7) (r := .void)
  (s' := { exStore with vecs := [[.ptr 7, .num 5, .ptr 3], []] }) ex_vec (ex_idx 0) (by decide) rfl
example := vectorFill_ok (x := .ptr 4) ex_vec
example := vectorLength_ok ex_vec
example := vectorLength_err (s := exStore) (v := .ptr 4) (c := .pair 0 3) rfl (fun _ h => by cases h)
example := vector_ok exStore [.ptr 4, .ptr 4]
example := makeVector_ok (fill := .ptr 4) (ex_idx 3) (by decide)
example := makeVector_err (fill := .ptr 4) ex_notIdx
example := vectorCopy_ok ex_vec (ex_idx 3) (by decide)
example := vectorCopy_all ex_vec
example := vectorCopy_err_range ex_vec (ex_idx 4) (by decide)
-- overlapping copy within one vector
example := vectorCopyBang_ok ex_vec ex_vec (ex_idx 1) (ex_idx 0) (ex_idx 2) (by decide) (by decide)
  (by decide)
example := vectorCopyBang_ok_start ex_vec ex_vec (ex_idx 0) (ex_idx 1) (by decide) (by decide)
example := vectorCopyBang_ok_whole ex_vec ex_vec (ex_idx 0) (by decide)
example := vectorCopyBang_err ex_vec ex_vec (ex_idx 2) (ex_idx 0) (ex_idx 2) (by decide)
example := cons_ok exStore (.ptr 4) (.num 3)
example := setCar_ok (s := exStore) (q := 3) (x := .ptr 4) rfl rfl
example := setCdr_ok (s := exStore) (q := 4) (x := .nil) rfl rfl
example := setCar_err (s := exStore) (p := .ptr 0) (x := .nil) (c := .num 1) rfl rfl
example := setCdr_err (s := exStore) (p := .nil) (x := .nil) (c := .nil) rfl rfl
example := reverse_ok (fuel := 5) ex_list (by decide)
example := reverse_err (fuel := 5) ex_improper rfl (by decide)
example := list_ok exStore [.ptr 4, .num 1, .ptr 4]
example := vectorToList_ok ex_vec
example := listToVector_ok (fuel := 5) ex_list (by decide)
example := listToVector_err (fuel := 5) ex_improper rfl (by decide)
example := length_ok ex_list 3 (by decide)
example := length_err ex_improper rfl 3 (by decide)
-- the one-element cycle `#0=(1 . #0#)`: every cell of the chain is the pair itself
def exCirc : Store := { cells := [.num 1, .pair 0 1], vecs := [], strs := [] }
theorem exCirc_wf : exCirc.WF := by
  constructor
  · intro c hc
    simp only [exCirc, List.mem_cons, List.mem_nil_iff, or_false] at hc
    rcases hc with rfl | rfl <;> simp [VCell.Valid, exCirc]
  · intro xs hxs; simp [exCirc] at hxs
theorem exCirc_chain : ∀ k, THL.cellAt exCirc (.pair 0 1) k = .pair 0 1
  | 0 => rfl
  | k+1 => by show THL.nx exCirc (THL.cellAt exCirc (.pair 0 1) k) = _; rw [exCirc_chain k]; rfl
example := length_cyclic_err exCirc_wf (v := .ptr 1) (by simp [VCell.Valid, exCirc]) rfl
  (fun k => by rw [exCirc_chain k]; rfl) 4 (by decide)
example : length 2 exCirc (.ptr 1) = .err .pair := rfl
example := isList_spec (fuel := 5) ex_improper (by decide)
example := listTail_ok ex_spine (Or.inr rfl) (ex_idx 2) (by decide)
example := listTail_err ex_spine (ex_idx 3) (by decide)
example := listTail_err_index (v := .ptr 4) ex_notIdx
example := listRef_ok ex_improper (ex_idx 0) (by decide)
example := listRef_err ex_improper (ex_idx 1) (by decide)
example := eqv_key (s := exStore) (k := .num 2) (a := 1) rfl rfl
example := append_ok (s := exStore) (last := .ptr 3) (fuel := 5)
  (AllLists.cons ex_list (AllLists.cons ex_list .nil)) (by simp)
example := append_err (last := .ptr 3) (fuel := 5) ex_improper rfl (by decide)
-- (memv 2 '(1 2)): the test is `eqv?` against the immediate key 2
example := mem_spec (test := eqTest) (obj := .num 2) (p := fun a => decide (a = 1)) ex_spine
  (by intro a ha; simp at ha; rcases ha with rfl | rfl <;> rfl) 3 (by decide)
-- (assv 1 '((1 . 2)))
example := ass_spec (s := exStore) (test := eqTest) (obj := .num 1) (p := fun _ => true)
  (v := .ptr 9) (as := [8]) (c := .nil) (.cons rfl (.done rfl rfl))
  (by intro a ha; simp at ha; subst ha; exact ⟨.pair 0 1, rfl, rfl⟩) 3 (by decide)

/-! ## the Scheme-defined procedures are the regenerated ones

`Gen.PreludeProcs.procs` is regenerated from `marwood/prelude.scm` on every run
(`translate/prelude_procs.py`); `Store.Prelude.sourceOf` records, as data, the top-level form each
model of `Store/Prelude.lean` (`length` / `lengthCount`, `mem`, `ass`, `anyNull`, `map1`, `map` / `mapAll`,
`forEach` / `forEachAll`;
`ListOps.list`) was transcribed from. The theorems below are closed (kernel evaluation of two small
terms): when a library procedure of the prelude changes, the one for that procedure no longer holds
and this module stops building; the operation-sequence correspondence then exhibits the behavioural
difference. The section after this one proves more: each model is the image of the regenerated form
under the interpretation function of `Store/PreludeInterp.lean`. -/

theorem prelude_source_caar : Gen.PreludeProcs.procs.lookup "caar" = some Store.Prelude.caarSrc :=
  Store.Prelude.agree_caar
theorem prelude_source_list : Gen.PreludeProcs.procs.lookup "list" = some Store.Prelude.listSrc :=
  Store.Prelude.agree_list
theorem prelude_source_length : Gen.PreludeProcs.procs.lookup "length" = some Store.Prelude.lengthSrc :=
  Store.Prelude.agree_length
theorem prelude_source_memq : Gen.PreludeProcs.procs.lookup "memq" = some Store.Prelude.memqSrc :=
  Store.Prelude.agree_memq
theorem prelude_source_memv : Gen.PreludeProcs.procs.lookup "memv" = some Store.Prelude.memvSrc :=
  Store.Prelude.agree_memv
theorem prelude_source_member : Gen.PreludeProcs.procs.lookup "member" = some Store.Prelude.memberSrc :=
  Store.Prelude.agree_member
theorem prelude_source_assq : Gen.PreludeProcs.procs.lookup "assq" = some Store.Prelude.assqSrc :=
  Store.Prelude.agree_assq
theorem prelude_source_assv : Gen.PreludeProcs.procs.lookup "assv" = some Store.Prelude.assvSrc :=
  Store.Prelude.agree_assv
theorem prelude_source_assoc : Gen.PreludeProcs.procs.lookup "assoc" = some Store.Prelude.assocSrc :=
  Store.Prelude.agree_assoc
theorem prelude_source_anyP : Gen.PreludeProcs.procs.lookup "any?" = some Store.Prelude.anyPSrc :=
  Store.Prelude.agree_anyP
theorem prelude_source_map1 : Gen.PreludeProcs.procs.lookup "map1" = some Store.Prelude.map1Src :=
  Store.Prelude.agree_map1
theorem prelude_source_map : Gen.PreludeProcs.procs.lookup "map" = some Store.Prelude.mapSrc :=
  Store.Prelude.agree_map
theorem prelude_source_forEach : Gen.PreludeProcs.procs.lookup "for-each" = some Store.Prelude.forEachSrc :=
  Store.Prelude.agree_forEach

/-- every regenerated procedure that has a model is the form the model was transcribed from -/
theorem prelude_sources_agree :
    ∀ p ∈ Gen.PreludeProcs.procs, Store.Prelude.modelled p.1 = true → Store.Prelude.sourceOf p.1 = some p.2 :=
  Store.Prelude.agree_all

/-- every modelled procedure is still defined by the prelude, by the recorded form -/
theorem prelude_modelled_defined : ∀ n ∈ Store.Prelude.modelledNames,
    Gen.PreludeProcs.procs.lookup n = Store.Prelude.sourceOf n ∧ (Store.Prelude.sourceOf n).isSome = true :=
  Store.Prelude.modelled_all_defined

/-- the three `mem…` procedures differ in the equivalence only, and so do the three `ass…` ones: the
    models `mem test` / `ass test` are one transcription instantiated three times -/
theorem prelude_mem_family :
    Store.Prelude.memvSrc = Store.Prelude.renameSyms [("memq", "memv"), ("eq?", "eqv?")] Store.Prelude.memqSrc ∧
    Store.Prelude.memberSrc = Store.Prelude.renameSyms [("memq", "member"), ("eq?", "equal?")] Store.Prelude.memqSrc ∧
    Store.Prelude.assvSrc = Store.Prelude.renameSyms [("assq", "assv"), ("eq?", "eqv?")] Store.Prelude.assqSrc ∧
    Store.Prelude.assocSrc = Store.Prelude.renameSyms [("assq", "assoc"), ("eq?", "equal?")] Store.Prelude.assqSrc :=
  Store.Prelude.mem_ass_family

/-! ## the hand transcriptions are the images of the regenerated definitions

`Store.Prelude.defs` is `Gen.PreludeProcs.procs` (regenerated) read by `Store.Prelude.parseDef`;
`Store.Prelude.interp P defs fuel name` is the meaning the explicitly defined interpretation function of
`Store/PreludeInterp.lean` gives to the global `name` (operands left to right, a test is true unless
`#f`, lexical resolution of the operator, one unit of fuel per call of a Scheme-defined procedure).
For every fuel, store and argument the hand-written model IS that image — the transcription is no
longer trusted; what is trusted instead is the 150-line interpretation function (its reading of
`if`, `cond`, `and`, `or`, `begin`, `letrec`, `apply`, `quote`) and the builtin table `prims`. -/

section PreludeImages
open Marwood.Store.Prelude
variable {efuel : Nat} {user : String → Option Callee}

theorem prelude_image_length (fuel : Nat) (s : Store) (l : VCell) :
    interp (prims efuel user) defs fuel "length" s [l] = liftV s (Store.length fuel s l) :=
  interp_length fuel s l

theorem prelude_image_memq (fuel : Nat) (s : Store) (obj l : VCell) :
    interp (prims efuel user) defs fuel "memq" s [obj, l] = liftV s (memq fuel s obj l) :=
  interp_memq fuel s obj l

theorem prelude_image_memv (fuel : Nat) (s : Store) (obj l : VCell) :
    interp (prims efuel user) defs fuel "memv" s [obj, l] = liftV s (memv fuel s obj l) :=
  interp_memv fuel s obj l

/-- `member`'s test is the builtin `equal?` run with the same fuel -/
theorem prelude_image_member (fuel : Nat) (s : Store) (obj l : VCell) :
    interp (prims fuel user) defs fuel "member" s [obj, l] = liftV s (member fuel s obj l) :=
  interp_member fuel s obj l

theorem prelude_image_assq (fuel : Nat) (s : Store) (obj l : VCell) :
    interp (prims efuel user) defs fuel "assq" s [obj, l] = liftV s (assq fuel s obj l) :=
  interp_assq fuel s obj l

theorem prelude_image_assv (fuel : Nat) (s : Store) (obj l : VCell) :
    interp (prims efuel user) defs fuel "assv" s [obj, l] = liftV s (assv fuel s obj l) :=
  interp_assv fuel s obj l

theorem prelude_image_assoc (fuel : Nat) (s : Store) (obj l : VCell) :
    interp (prims fuel user) defs fuel "assoc" s [obj, l] = liftV s (assoc fuel s obj l) :=
  interp_assoc fuel s obj l

/-- `(any? null? l)` -/
theorem prelude_image_anyNull (fuel : Nat) (s : Store) (l : VCell) :
    interp (prims efuel user) defs fuel "any?" s [.builtin "null?", l] =
      (do let b ← anyNull fuel s l; .ok (s, .bool b)) :=
  interp_anyNull fuel s l

/-- `map1` applied to a procedure value `gname` that the table resolves to the callee `g` -/
theorem prelude_image_map1 {gname : String} {g : Callee} (hP : prims efuel user gname = some g)
    (fuel : Nat) (s : Store) (xs : VCell) :
    interp (prims efuel user) defs fuel "map1" s [.builtin gname, xs] = map1 g fuel s xs :=
  interp_map1 hP fuel s xs

/-- `map` (one more unit of fuel than the model: the model starts at `map-all`); `lists` may be empty:
    both sides are then the arity error (`(define (map f xs . xss) …)` requires a list) -/
theorem prelude_image_map {gname : String} {g : Callee} (hP : prims efuel user gname = some g)
    (fuel : Nat) (s : Store) (lists : List VCell) :
    interp (prims efuel user) defs (fuel+1) "map" s (.builtin gname :: lists) = map g fuel s lists :=
  interp_map hP fuel s lists

theorem prelude_image_forEach {gname : String} {g : Callee} (hP : prims efuel user gname = some g)
    (fuel : Nat) (s : Store) (lists : List VCell) :
    interp (prims efuel user) defs (fuel+1) "for-each" s (.builtin gname :: lists) = forEach g fuel s lists :=
  interp_forEach hP fuel s lists

/-- the prelude's `caar` is `car ∘ car`, which is how `(caar alist)` is read inside `assq` … `assoc` -/
theorem prelude_image_caar (fuel : Nat) (s : Store) (x : VCell) :
    interp (prims efuel user) defs (fuel+1) "caar" s [x] = (do let (s, v) ← car s [x]; car s [v]) :=
  interp_caar fuel s x

/-- `(define (list . l) l)` is the `VARARG` list builder -/
theorem prelude_image_list (fuel : Nat) (s : Store) (args : List VCell) :
    interp (prims efuel user) defs (fuel+1) "list" s args = list s args :=
  interp_list fuel s args

/-- the hypothesis `hP` is satisfiable: a user-bound callee name, and the builtins themselves -/
example : prims 0 (fun n => if n == "g" then some cons else none) "g" = some cons := by simp [prims]
example : interp (prims 0 (fun _ => none)) defs 6 "map" Store.empty [.builtin "car"] =
    map car 5 Store.empty [] := prelude_image_map (by simp [prims]) 5 _ _
/-- `(map f)` / `(for-each f)` without a list: the arity error, with any fuel (they used to loop) -/
theorem map_without_list (g : Callee) (fuel : Nat) (s : Store) :
    map g fuel s [] = .err .arity ∧ forEach g fuel s [] = .err .arity := ⟨rfl, rfl⟩

end PreludeImages

/-! ### `equal?` after the repair dfd9e81 (`compare.rs`: a set of pairs of heap locations whose comparison has
begun is threaded through `equal_seen` / `compare_pair` / `compare_vector`; `Store.Pinned.equal` … are the
functions before it) -/

/-- **`equal?` is unchanged wherever it used to return.** If the pinned `equal` returns on `l`, `r` with
    some fuel `n` — it does on every acyclic structure: trees, lists, vectors, with or without sharing;
    it is out of fuel for every `n` exactly when the comparison runs round a cycle for ever — then the
    repaired one gives the same outcome (the same boolean, error class or panic site) with every fuel
    `f ≥ n`. (`Lemmas/EqualAgree.lean`: a pair of locations in the set is either done with `true`, or in
    progress further up and then the pinned function cannot return on it below.) -/
theorem equal_agrees_pinned {s : Store} {n : Nat} {l r : VCell} (h : Pinned.equal n s l r ≠ .diverge)
    {f : Nat} (hf : n ≤ f) : equal f s l r = Pinned.equal n s l r :=
  Marwood.Store.equal_agrees h hf

/-- the builtin: same answer as the pinned builtin's -/
theorem equalB_agrees_pinned {s : Store} {n : Nat} {a b : VCell} {v : Bool}
    (h : Pinned.equal n s b a = .ok v) {f : Nat} (hf : n ≤ f) :
    equalB f s [a, b] = .ok (s, .bool v) := by
  have := equal_agrees_pinned (s := s) (n := n) (l := b) (r := a) (by rw [h]; simp) hf
  simp only [equalB, this, h, bind_ok]

/-- the hypothesis is satisfiable: `(1 2)` against `(1 . 7)` and against itself in `exStore` -/
example : equalB 10 exStore [.ptr 7, .ptr 4] = .ok (exStore, .bool false) :=
  equalB_agrees_pinned (n := 4) rfl (by decide)
example : equalB 10 exStore [.ptr 5, .ptr 5] = .ok (exStore, .bool true) :=
  equalB_agrees_pinned (n := 1) rfl (by decide)

/-! ### `equal?` is structural equality of the abstract tree views (R7RS 6.1)

`View s v t` (`Spec/StoreTree.lean`): the value `v` unfolds in the store `s` into the address-free tree `t` — pairs
into `.pair`, vectors into `.vec`, strings into their characters, the scalars C14 quantifies over (booleans,
characters, `()`, exact integers, symbols by name) into leaves. It is an inductive relation, so it is defined
exactly on acyclic data (sharing allowed). `Tree.equiv` is `equal?` of R7RS on trees: the same shape, strings
with the same characters, leaves `eqv?`. No well-formedness hypothesis is needed: a view of both arguments
already says that everything the comparison reads is there. -/

/-- the view of a value is unique -/
theorem view_unique {s : Store} {v : VCell} {t t' : Tree} (h : View s v t) (h' : View s v t') : t = t' :=
  View.det t h h'

/-- the leaf relation of `Tree.equiv` **is** the model's `eqv?` on two scalar cells … -/
theorem leaf_eqv_is_eqvCells (s : Store) (a b : Atom) : eqvCells s a.toCell b.toCell = .ok (Atom.eqv a b) :=
  eqvCells_atom s a b

/-- … and for the kinds C14 quantifies over (symbols, booleans, `()`, characters, exact integers) it is
    equality of the scalar -/
theorem leaf_eqv_iff (a b : Atom) : Atom.eqv a b = true ↔ a = b := Atom.eqv_iff a b

/-- `equal?` on trees (same shape, strings by content, leaves `eqv?`) is equality of trees -/
theorem tree_equiv_iff (t u : Tree) : Tree.equiv t u = true ↔ t = u := Tree.equiv_iff t u

/-- **`equal?` returns what R7RS specifies**, R7RS form: on two values with views `tl`, `tr` the answer is
    `equal?` of the trees; `2 * size` of the left view is enough fuel -/
theorem equal_same_view_equiv {s : Store} {l r : VCell} {tl tr : Tree} (hl : View s l tl) (hr : View s r tr)
    {fuel : Nat} (hf : 2 * tl.size ≤ fuel) : equal fuel s l r = .ok (tl.equiv tr) :=
  equal_view hl hr hf

/-- **`equal?` is structural equality of the abstract views**: `#t` iff the two values unfold into the same tree -/
theorem equal_iff_same_view {s : Store} {l r : VCell} {tl tr : Tree} (hl : View s l tl) (hr : View s r tr)
    {fuel : Nat} (hf : 2 * tl.size ≤ fuel) : equal fuel s l r = .ok (decide (tl = tr)) := by
  rw [equal_view hl hr hf, Tree.equiv_eq_decide]

/-- the same with the fuel that depends on the store only (`equalFuel s = |cells|² · (maxVecLen + 5) + 1`, the
    bound of `equal_total`), on a store of the shape of a real heap and two values: a DAG with sharing unfolds
    into a tree that may be exponentially larger than the store, the fuel (a nesting depth) does not follow it -/
theorem equal_iff_same_view_total {s : Store} (hsh : s.Shaped) {l r : VCell} {tl tr : Tree}
    (hlv : l.isValue = true) (hrv : r.isValue = true) (hl : View s l tl) (hr : View s r tr) {fuel : Nat}
    (hf : equalFuel s ≤ fuel) : equal fuel s l r = .ok (decide (tl = tr)) := by
  rw [equal_view_total hsh hlv hrv hl hr hf, Tree.equiv_eq_decide]

/-- the builtin (`(equal? a b)` compares `left = b`, `right = a`) -/
theorem equalB_iff_same_view {s : Store} {a b : VCell} {ta tb : Tree} (ha : View s a ta) (hb : View s b tb)
    {fuel : Nat} (hf : 2 * tb.size ≤ fuel) : equalB fuel s [a, b] = .ok (s, .bool (decide (tb = ta))) := by
  simp only [equalB, equal_iff_same_view hb ha hf, bind_ok]

/-- a view exists only of acyclic data: the pinned `equal?` (no visited set) returns on it too, with the same
    answer — the repair changed nothing there -/
theorem pinned_equal_iff_same_view {s : Store} {l r : VCell} {tl tr : Tree} (hl : View s l tl) (hr : View s r tr)
    {fuel : Nat} (hf : 2 * tl.size ≤ fuel) : Pinned.equal fuel s l r = .ok (decide (tl = tr)) := by
  rw [(pinned_view s fuel).1 l r tl tr hl hr hf, Tree.equiv_eq_decide]

/-- **`member`** (`(member obj l)`: the prelude's `memq` text with `equal?`, run with the same fuel) on a list
    whose elements have the views `tv a`: the first sublist whose car unfolds into the same tree as `obj`; `#f`
    when no element does and the list is proper (an error when it is not) -/
theorem member_view {s : Store} {obj v c : VCell} {as : List Nat} {tk : Tree} {tv : Nat → Tree}
    (hl : Spine s v as c) (hk : View s obj tk) (hv : ∀ a ∈ as, View s (.ptr a) (tv a)) :
    ∀ fuel, as.length < fuel → 2 * tk.size ≤ fuel →
    (∃ k, ∃ h : k < as.length, tv as[k] = tk ∧ (∀ j (hj : j < k), tv (as[j]'(by omega)) ≠ tk) ∧
        ∃ r, member fuel s obj v = .ok r ∧ NthCdr s v k r) ∨
    ((∀ a ∈ as, tv a ≠ tk) ∧
      ((c = .nil ∧ member fuel s obj v = .ok (.bool false)) ∨
       (c ≠ .nil ∧ ∃ e, member fuel s obj v = .err e))) := by
  intro fuel h1 h2
  have hne : ∀ t, tk.equiv t = false → t ≠ tk := by
    intro t h e; rw [e, Tree.equiv_refl] at h; cases h
  have ht : ∀ a ∈ as, equalTest fuel s (.ptr a) obj = .ok ((fun a => tk.equiv (tv a)) a) :=
    fun a ha => equal_view hk (hv a ha) h2
  rcases mem_spec (test := equalTest fuel) (p := fun a => tk.equiv (tv a)) hl ht fuel h1 with
    ⟨k, hk', e1, e2, r, e3, e4⟩ | ⟨e1, e2⟩
  · exact .inl ⟨k, hk', ((Tree.equiv_iff _ _).mp e1).symm, fun j hj => hne _ (e2 j hj), r, e3, e4⟩
  · exact .inr ⟨fun a ha => hne _ (e1 a ha), e2⟩

/-- **`assoc`** on an association list whose entries have the keys `kv a` (`EntryKey`: the view of the car of
    an entry that is a pair, `none` for an entry that is not — skipped): the first entry — the entry itself, not
    a copy — whose key unfolds into the same tree as `obj`; `#f` when there is none and the list is proper -/
theorem assoc_view {s : Store} {obj v c : VCell} {as : List Nat} {tk : Tree} {kv : Nat → Option Tree}
    (hl : Spine s v as c) (hk : View s obj tk) (hv : ∀ a ∈ as, EntryKey s a (kv a)) :
    ∀ fuel, as.length < fuel → 2 * tk.size ≤ fuel →
    (∃ k, ∃ h : k < as.length, kv as[k] = some tk ∧ (∀ j (hj : j < k), kv (as[j]'(by omega)) ≠ some tk) ∧
        assoc fuel s obj v = .ok (.ptr as[k])) ∨
    ((∀ a ∈ as, kv a ≠ some tk) ∧
      ((c = .nil ∧ assoc fuel s obj v = .ok (.bool false)) ∨
       (c ≠ .nil ∧ ∃ e, assoc fuel s obj v = .err e))) := by
  intro fuel h1 h2
  let p : Nat → Bool := fun a => match kv a with | some t => tk.equiv t | none => false
  have hp_true : ∀ a, p a = true → kv a = some tk := by
    intro a h
    simp only [p] at h
    cases hk' : kv a with
    | none => rw [hk'] at h; cases h
    | some t => rw [hk'] at h; rw [(Tree.equiv_iff _ _).mp h]
  have hp_false : ∀ a, p a = false → kv a ≠ some tk := by
    intro a h e
    simp only [p, e, Tree.equiv_refl] at h
    cases h
  have ht : ∀ a ∈ as, EntryTest s (equalTest fuel) obj p a := by
    intro a ha
    cases hka : kv a with
    | none =>
      have he := hv a ha
      rw [hka] at he
      cases he with
      | skip hc hnp =>
        rename_i c0
        refine ⟨c0, hc, ?_⟩
        have : p a = false := by simp only [p, hka]
        cases c0 <;> first | exact this | simp [VCell.isPair] at hnp
    | some t =>
      have he := hv a ha
      rw [hka] at he
      cases he with
      | pair hc hview =>
        refine ⟨_, hc, ?_⟩
        have : p a = tk.equiv t := by simp only [p, hka]
        simp only [this]
        exact equal_view hk hview h2
  rcases ass_spec (test := equalTest fuel) (p := p) hl ht fuel h1 with ⟨k, hk', e1, e2, e3⟩ | ⟨e1, e2⟩
  · exact .inl ⟨k, hk', hp_true _ e1, fun j hj => hp_false _ (e2 j hj), e3⟩
  · exact .inr ⟨fun a ha => hp_false _ (e1 a ha), e2⟩

/-! #### the hypotheses are satisfiable: one datum built two ways

`(1 #(2 "ab") x)` twice in one store: `ptr 8` with every vector slot a reference to a boxed scalar, `ptr 15` with
an immediate in slot 0, another string object with the same characters, other pairs (the symbol `x` is interned:
one cell); `ptr 18` is `(1 #(2) x)`. -/

def exTreeStore : Store :=
  { cells := [.num 1, .num 2, .str 0, .vec 0, .sym ['x'], .nil, .pair 4 5, .pair 3 6, .pair 0 7,
      .num 1, .str 1, .vec 1, .nil, .pair 4 12, .pair 11 13, .pair 9 14,
      .vec 2, .pair 16 13, .pair 9 17],
    vecs := [[.ptr 1, .ptr 2], [.num 2, .ptr 10], [.num 2]],
    strs := [['a', 'b'], ['a', 'b']] }

def exTail : Tree := .pair (.leaf (.sym ['x'])) (.leaf .nil)
def exTree : Tree := .pair (.leaf (.num 1)) (.pair (.vec [.leaf (.num 2), .str ['a', 'b']]) exTail)
def exTree' : Tree := .pair (.leaf (.num 1)) (.pair (.vec [.leaf (.num 2)]) exTail)

theorem ex_view1 : View exTreeStore (.ptr 8) exTree :=
  .pair rfl (.atom (a := .num 1) rfl)
    (.pair rfl (.vec rfl rfl (.cons (.atom (a := .num 2) rfl) (.cons (.str rfl rfl) .nil)))
      (.pair rfl (.atom (a := .sym ['x']) rfl) (.atom (a := .nil) rfl)))

theorem ex_view2 : View exTreeStore (.ptr 15) exTree :=
  .pair rfl (.atom (a := .num 1) rfl)
    (.pair rfl (.vec rfl rfl (.cons (.atom (a := .num 2) rfl) (.cons (.str rfl rfl) .nil)))
      (.pair rfl (.atom (a := .sym ['x']) rfl) (.atom (a := .nil) rfl)))

theorem ex_view3 : View exTreeStore (.ptr 18) exTree' :=
  .pair rfl (.atom (a := .num 1) rfl)
    (.pair rfl (.vec rfl rfl (.cons (.atom (a := .num 2) rfl) .nil))
      (.pair rfl (.atom (a := .sym ['x']) rfl) (.atom (a := .nil) rfl)))

theorem exTree_size : 2 * exTree.size = 22 := by simp [exTree, exTail, Tree.size, Tree.sizeAll]

/-- built two ways, `equal?`; against the shorter vector, not -/
example : equal 22 exTreeStore (.ptr 8) (.ptr 15) = .ok true := by
  rw [equal_iff_same_view ex_view1 ex_view2 (by rw [exTree_size]; exact Nat.le_refl _)]; simp
example : equal 22 exTreeStore (.ptr 8) (.ptr 18) = .ok false := by
  rw [equal_same_view_equiv ex_view1 ex_view3 (by rw [exTree_size]; exact Nat.le_refl _)]
  simp [exTree, exTree', Tree.equiv, Tree.equivAll, Atom.eqv]
example := equalB_iff_same_view (fuel := 22) ex_view2 ex_view1 (by rw [exTree_size]; exact Nat.le_refl _)
example := view_unique ex_view1 ex_view1

/-! ## `map` and `for-each` (Scheme definitions of `prelude.scm`, parametric in the procedure argument)

The procedure argument is a store transformer `g : Callee`, as in the model (`Store.map g`,
`Store.forEach g`).  Vocabulary (`Lemmas/StoreMapDefs.lean`):

* `SpineOff M s l as c` — the stack value `l` denotes a list with element references `as` and final
  non-pair cell `c` (`Spine s l as c`) none of whose spine cells is at an address in `M`;
  `AllSpinesOff M s lists views` — position by position; `views.map (·, .nil)`: proper lists.
* `Keeps M s s'` — of the heap cells that existed in `s` only those in `M` differ in `s'`.
* `MapCallee g M I tuples` — the law of the callee on this run: `I` is a store invariant of the
  caller's choice that survives allocation (`grow`); in a store satisfying `I` the callee returns on
  each of the argument tuples it is given, writes (of what existed) only inside `M`, and
  re-establishes `I` (`call`).  `M` lies below the heap size at the call of `map` and off the spines
  of the input lists (that is `SpineOff M`): the callee may `set-car!` an *element*, fill a vector,
  allocate — it may not redirect the lists being traversed, nor pairs it cannot know (the lists
  `map` builds for itself are allocated later, hence outside `M`).
* `columnsN m views` — the `m` argument tuples: the j-th holds the j-th element reference of every
  list, in the order of the lists (`map_tuples_get`).
* `MapRun g s tuples s' ys` — the calls, as a fold over j: `g` is applied to `tuples[0]`,
  `tuples[1]`, … in this order, the store it returns is the store the next call starts from, up to
  pairs `map` allocates in between (`Extends`), and the j-th call returns `ys[j]`.
  The arguments are `argsOf tuples`: the element references themselves (`VCell.ptr a` for the very
  address `a` stored in the list's pair — pointers, not copies), clause (d).
-/

/-- (a)(c)(d) `(map g l₁ … lₖ)`, `k ≥ 1`, proper lists with element references `views`, `m` the
    length of the shortest: for `fuel ≥ m + k + 2` the answer is `ok (s', r)` where the `m` calls
    happened in list order on the tuples of j-th element references (`MapRun`, `ys.length = m`:
    R7RS — the shortest list ends the iteration), `r` is a proper list all of whose pairs (and its
    final `()` cell) were allocated during this call (`SpineOff (· < |s.cells|)`: FRESH, shares no
    pair with any input) whose j-th element reference denotes the value the j-th call returned
    (`DenotesAll s' rs ys`), and the input lists are the same lists in `s'` (frame), of the cells
    that existed only those in `M` differ, and the invariant holds again. -/
theorem map_spec {g : Callee} {M : Nat → Prop} {I : Store → Prop} {s : Store} {l : VCell}
    {rest : List VCell} {views : List (List Nat)} {m fuel : Nat}
    (hl : AllSpinesOff M s (l :: rest) (views.map fun as => (as, VCell.nil)))
    (hM : ∀ i, M i → i < s.cells.length)
    (hmin : ∀ as ∈ views, m ≤ as.length) (hex : ∃ as ∈ views, as.length = m)
    (hI : I s) (hg : MapCallee g M I (argsOf (columnsN m views)))
    (hfuel : m + (l :: rest).length + 2 ≤ fuel) :
    ∃ s' r ys rs, map g fuel s (l :: rest) = .ok (s', r) ∧
      MapRun g s (argsOf (columnsN m views)) s' ys ∧ ys.length = m ∧
      SpineOff (· < s.cells.length) s' r rs .nil ∧ IsList s' r rs ∧ DenotesAll s' rs ys ∧
      AllSpinesOff M s' (l :: rest) (views.map fun as => (as, VCell.nil)) ∧ Keeps M s s' ∧ I s' := by
  have hp : Plan (views.map fun as => (as, VCell.nil)) (columnsN m views) true := by
    have := plan_ok (m := m) (views := views.map fun as => (as, VCell.nil))
      (fun v hv => by
        obtain ⟨as, ha, rfl⟩ := List.mem_map.mp hv
        exact hmin as ha)
      (by
        obtain ⟨as, ha, hlen⟩ := hex
        exact ⟨(as, .nil), List.mem_map.mpr ⟨as, ha, rfl⟩, hlen, rfl⟩)
    rwa [firsts_proper] at this
  have hlen : (columnsN m views).length = m := columnsN_length hmin
  obtain ⟨s', r, ys, rs, e, run, fr, hden, hfrm, hk, hI'⟩ :=
    (map_plan hl hM hI hg hp (by rw [hlen]; exact hfuel)).1 rfl
  refine ⟨s', r, ys, rs, e, run, ?_, fr, fr.isList, hden, hfrm, hk, hI'⟩
  rw [run.length]; simp [argsOf, hlen]

/-- (b) `(for-each g l₁ … lₖ)`: the same calls in the same order — first element to last, the order
    R7RS guarantees for `for-each` —, the unspecified value, the same frame -/
theorem forEach_spec {g : Callee} {M : Nat → Prop} {I : Store → Prop} {s : Store} {l : VCell}
    {rest : List VCell} {views : List (List Nat)} {m fuel : Nat}
    (hl : AllSpinesOff M s (l :: rest) (views.map fun as => (as, VCell.nil)))
    (hM : ∀ i, M i → i < s.cells.length)
    (hmin : ∀ as ∈ views, m ≤ as.length) (hex : ∃ as ∈ views, as.length = m)
    (hI : I s) (hg : MapCallee g M I (argsOf (columnsN m views)))
    (hfuel : m + (l :: rest).length + 2 ≤ fuel) :
    ∃ s' ys, forEach g fuel s (l :: rest) = .ok (s', .void) ∧
      MapRun g s (argsOf (columnsN m views)) s' ys ∧ ys.length = m ∧
      AllSpinesOff M s' (l :: rest) (views.map fun as => (as, VCell.nil)) ∧ Keeps M s s' ∧ I s' := by
  have hp : Plan (views.map fun as => (as, VCell.nil)) (columnsN m views) true := by
    have := plan_ok (m := m) (views := views.map fun as => (as, VCell.nil))
      (fun v hv => by
        obtain ⟨as, ha, rfl⟩ := List.mem_map.mp hv
        exact hmin as ha)
      (by
        obtain ⟨as, ha, hlen⟩ := hex
        exact ⟨(as, .nil), List.mem_map.mpr ⟨as, ha, rfl⟩, hlen, rfl⟩)
    rwa [firsts_proper] at this
  have hlen : (columnsN m views).length = m := columnsN_length hmin
  obtain ⟨s', ys, e, run, hfrm, hk, hI'⟩ :=
    (forEach_plan hl hM hI hg hp (by rw [hlen]; exact hfuel)).1 rfl
  refine ⟨s', ys, e, run, ?_, hfrm, hk, hI'⟩
  rw [run.length]; simp [argsOf, hlen]

/-- the tuples: `m` of them, the j-th is the list of the j-th element references -/
theorem map_tuples_length {m : Nat} {views : List (List Nat)} (hmin : ∀ as ∈ views, m ≤ as.length) :
    (columnsN m views).length = m := columnsN_length hmin

theorem map_tuples_get {m j : Nat} {views : List (List Nat)} (hmin : ∀ as ∈ views, m ≤ as.length)
    (hj : j < m) : (columnsN m views)[j]? = some (views.map fun as => as[j]?.getD 0) :=
  columnsN_get hmin hj

/-- (d) identity: the j-th call receives, for every list, the reference `ptr a` where `a` is the
    address stored in the car of that list's j-th pair — the object itself, never a copy; so a
    mutation the callee performs through its argument is visible through the list, and `eq?` on
    the argument and the element is true -/
theorem map_args_identity {m j : Nat} {views : List (List Nat)}
    (hmin : ∀ as ∈ views, m ≤ as.length) (hj : j < m) :
    (argsOf (columnsN m views))[j]? = some (views.map fun as => VCell.ptr (as[j]?.getD 0)) := by
  simp only [argsOf, List.getElem?_map, columnsN_get hmin hj, Option.map_some, List.map_map]
  rfl

/-- one list: `g` is applied to each element reference in turn -/
theorem map_tuples_single (as : List Nat) : columnsN as.length [as] = as.map fun a => [a] :=
  columnsN_single as

/-- (a)–(d) for a callee that only allocates (`car`, `cdr`, `cons`, `list`, `vector`, … :
    `g t args = ok (u, y) → Extends t u`), in the vocabulary of the other list theorems: proper lists
    `IsList`, frame `Extends s s'` — nothing that existed is changed at all. -/
theorem map_spec_pure {g : Callee} {I : Store → Prop} {s : Store} {l : VCell} {rest : List VCell}
    {views : List (List Nat)} {m fuel : Nat}
    (hl : AllLists s (l :: rest) views) (hv : ∀ x ∈ l :: rest, x.isValue = true)
    (hmin : ∀ as ∈ views, m ≤ as.length) (hex : ∃ as ∈ views, as.length = m)
    (hpure : ∀ t args u y, g t args = .ok (u, y) → Extends t u)
    (hI : I s) (hg : MapCallee g (fun _ => False) I (argsOf (columnsN m views)))
    (hfuel : m + (l :: rest).length + 2 ≤ fuel) :
    ∃ s' r ys rs, map g fuel s (l :: rest) = .ok (s', r) ∧
      MapRun g s (argsOf (columnsN m views)) s' ys ∧ ys.length = m ∧
      SpineOff (· < s.cells.length) s' r rs .nil ∧ IsList s' r rs ∧ DenotesAll s' rs ys ∧
      AllLists s' (l :: rest) views ∧ Extends s s' ∧ I s' := by
  obtain ⟨s', r, ys, rs, e, run, hlen, fr, hil, hden, _, _, hI'⟩ :=
    map_spec (hl.allSpinesOff hv) (fun _ h => h.elim) hmin hex hI hg hfuel
  have hx := run.extends hpure
  exact ⟨s', r, ys, rs, e, run, hlen, fr, hil, hden, hl.mono hx, hx, hI'⟩

theorem forEach_spec_pure {g : Callee} {I : Store → Prop} {s : Store} {l : VCell}
    {rest : List VCell} {views : List (List Nat)} {m fuel : Nat}
    (hl : AllLists s (l :: rest) views) (hv : ∀ x ∈ l :: rest, x.isValue = true)
    (hmin : ∀ as ∈ views, m ≤ as.length) (hex : ∃ as ∈ views, as.length = m)
    (hpure : ∀ t args u y, g t args = .ok (u, y) → Extends t u)
    (hI : I s) (hg : MapCallee g (fun _ => False) I (argsOf (columnsN m views)))
    (hfuel : m + (l :: rest).length + 2 ≤ fuel) :
    ∃ s' ys, forEach g fuel s (l :: rest) = .ok (s', .void) ∧
      MapRun g s (argsOf (columnsN m views)) s' ys ∧ ys.length = m ∧
      AllLists s' (l :: rest) views ∧ Extends s s' ∧ I s' := by
  obtain ⟨s', ys, e, run, hlen, _, _, hI'⟩ :=
    forEach_spec (hl.allSpinesOff hv) (fun _ h => h.elim) hmin hex hI hg hfuel
  have hx := run.extends hpure
  exact ⟨s', ys, e, run, hlen, hl.mono hx, hx, hI'⟩

/-- (c) an improper input: when every shortest list (length `m`) ends in a non-pair other than
    `()` — the improper tail is reached before any list ends — `map` and `for-each` answer the
    `expected pair` error of `car` (not a value, not a panic), whatever the law-abiding callee did on
    the `m` tuples before the tail.  (When some list of length `m` is proper, `any? null?` stops the
    walk first and the improper tail is never looked at: that case is `map_plan` with `plan_ok`; the
    Rust VM agrees: `(map cons '((1 . 2) . 5) '(7))` is `(((1 . 2) . 7))`, with `'(7 8)` an error.) -/
theorem map_improper_err {g : Callee} {M : Nat → Prop} {I : Store → Prop} {s : Store} {l : VCell}
    {rest : List VCell} {views : List (List Nat × VCell)} {m fuel : Nat}
    (hl : AllSpinesOff M s (l :: rest) views) (hM : ∀ i, M i → i < s.cells.length)
    (hall : ∀ v ∈ views, m < v.1.length ∨ (v.1.length = m ∧ v.2.isNil = false))
    (hex : ∃ v ∈ views, v.1.length = m)
    (hI : I s) (hg : MapCallee g M I (argsOf (columnsN m (firsts views))))
    (hfuel : m + (l :: rest).length + 2 ≤ fuel) :
    map g fuel s (l :: rest) = .err .pair ∧ forEach g fuel s (l :: rest) = .err .pair := by
  have hp := plan_err hall hex
  have hlen : (columnsN m (firsts views)).length = m := columnsN_length (by
    intro as ha
    obtain ⟨v, hv, rfl⟩ := List.mem_map.mp ha
    rcases hall v hv with h | ⟨h, _⟩ <;> omega)
  exact ⟨(map_plan hl hM hI hg hp (by rw [hlen]; exact hfuel)).2 rfl,
    (forEach_plan hl hM hI hg hp (by rw [hlen]; exact hfuel)).2 rfl⟩

/-- (b)(c) the order of the calls is observable: if the callee obeys its law on the first tuples
    `pre` and fails on the next one (an error, a panic, or no return — in every store satisfying the
    invariant), that failure is the answer of `map` and of `for-each`: the calls before it happened
    first, no later element is touched, and an improper tail further on is not reported instead. -/
theorem map_callee_failure {g : Callee} {M : Nat → Prop} {I : Store → Prop} {s : Store} {l : VCell}
    {rest : List VCell} {views : List (List Nat × VCell)} {tuples : List (List Nat)} {b : Bool}
    {fuel : Nat} {pre : List (List Nat)} {t : List Nat} {post : List (List Nat)}
    (hl : AllSpinesOff M s (l :: rest) views) (hM : ∀ i, M i → i < s.cells.length)
    (hI : I s) (hp : Plan views tuples b) (hs : tuples = pre ++ t :: post)
    (hg : MapCallee g M I (argsOf pre))
    (hfail : ∀ st, I st → ∀ x, g st (t.map VCell.ptr) ≠ .ok x)
    (hfuel : tuples.length + (l :: rest).length + 2 ≤ fuel) :
    ∃ st, I st ∧ SameFailure (g st (t.map VCell.ptr)) (map g fuel s (l :: rest)) ∧
      SameFailure (g st (t.map VCell.ptr)) (forEach g fuel s (l :: rest)) :=
  map_callee_fails hl hM hI hp hs hg hfail hfuel

/-- well-formedness: a callee that obeys `CalleeLaw` (C06: no panic, hands back a well-formed store
    that only grew and a valid value) makes `map` hand back a well-formed store and a valid result -/
theorem map_spec_wf {g : Callee} (hg : CalleeLaw g) {fuel : Nat} {s : Store} (hs : s.WF)
    {lists : List VCell} (ha : ∀ v ∈ lists, VCell.Valid s v) {s' : Store} {r : VCell}
    (h : map g fuel s lists = .ok (s', r)) : s'.WF ∧ VCell.Valid s' r :=
  let p := (map_sat hg fuel hs ha).2 _ h
  ⟨p.1, p.2.2⟩

/-! ### the hypotheses are satisfiable: `car`, `cons`, and an improper list on `exStore`

`ptr 9` is `((1 . 2))`, `ptr 4` is `(1 2)`, `ptr 3` is `(2)`, `ptr 7` is `(1 . 7)`. -/

theorem ex_alist : IsList exStore (.ptr 9) [8] := .cons rfl (.nil rfl)

/-- `(map car '((1 . 2)))` -/
example := map_spec_pure (g := car) (I := Extends exStore) (s := exStore) (m := 1) (fuel := 4)
  (.cons ex_alist .nil) (by simp [VCell.isValue]) (by simp) ⟨[8], by simp, rfl⟩ car_extends
  (Extends.refl _)
  (mapCallee_car (s0 := exStore) (by
    intro args h
    simp [argsOf, columnsN] at h
    exact ⟨8, 0, 1, h, rfl⟩))
  (by decide)

/-- `(map cons '(1 2) '(2))` and `(for-each cons '(1 2) '(2))`: one call, on the first elements -/
example := map_spec_pure (g := cons) (I := fun _ => True) (s := exStore) (m := 1) (fuel := 5)
  (.cons ex_list (.cons (.cons rfl (.nil rfl) : IsList exStore (.ptr 3) [1]) .nil))
  (by simp [VCell.isValue]) (by simp) ⟨[1], by simp, rfl⟩ cons_extends trivial
  (mapCallee_cons (by intro args h; simp [argsOf, columnsN] at h; subst h; rfl)) (by decide)
example := forEach_spec_pure (g := cons) (I := fun _ => True) (s := exStore) (m := 1) (fuel := 5)
  (.cons ex_list (.cons (.cons rfl (.nil rfl) : IsList exStore (.ptr 3) [1]) .nil))
  (by simp [VCell.isValue]) (by simp) ⟨[1], by simp, rfl⟩ cons_extends trivial
  (mapCallee_cons (by intro args h; simp [argsOf, columnsN] at h; subst h; rfl)) (by decide)

/-- `(map cons '(1 . 7) '(1 2))`: one call, then the improper tail -/
example := map_improper_err (g := cons) (M := fun _ => False) (I := fun _ => True) (s := exStore)
  (m := 1) (fuel := 5) (views := [([0], .num 7), ([0, 1], .nil)])
  (.cons (ex_improper.spineOff rfl) (.cons (ex_spine.spineOff rfl) .nil)) (fun _ h => h.elim)
  (by simp [VCell.isNil]) ⟨([0], .num 7), by simp, rfl⟩ trivial
  (mapCallee_cons (by intro args h; simp [argsOf, columnsN, firsts] at h; subst h; rfl))
  (by decide)

/-- a callee that writes: `(lambda (p) (set-car! p 9))`; it may write the element `ptr 8` (the pair
    `(1 . 2)`), which is not on the spine of `((1 . 2))` -/
def exSetCar9 : Callee := fun s args => setCar s (args ++ [.num 9])

theorem onlyCell_keeps {s s' : Store} {q : Nat} (h : OnlyCell s s' q) : Keeps (· = q) s s' :=
  ⟨h.len, fun i hi hne => h.cells i hi hne⟩

theorem mapCallee_exSetCar9 :
    MapCallee exSetCar9 (· = 8) (fun t => ∃ a d, t.cells[8]? = some (.pair a d)) [[.ptr 8]] := by
  refine ⟨fun t t' ⟨a, d, h⟩ he => ⟨a, d, he.cell h⟩, fun t args ⟨a, d, h⟩ hm => ?_⟩
  simp only [List.mem_singleton] at hm
  subst hm
  obtain ⟨s', w, h1, h2, _, h4⟩ := setCar_ok (x := .num 9) rfl h
  exact ⟨s', .void, h1, onlyCell_keeps h4, w, d, h2⟩

/-- `(for-each (lambda (p) (set-car! p 9)) '((1 . 2)))`: the list is still `((… . 2))` with the same
    element, only cell 8 may differ -/
example := forEach_spec (g := exSetCar9) (M := (· = 8))
  (I := fun t => ∃ a d, t.cells[8]? = some (.pair a d)) (s := exStore) (l := .ptr 9) (rest := [])
  (views := [[8]]) (m := 1) (fuel := 4)
  (.cons (.cons (by decide) rfl (.done (by decide) rfl rfl)) .nil)
  (by intro i h; subst h; decide) (by simp) ⟨[8], by simp, rfl⟩ ⟨0, 1, rfl⟩
  mapCallee_exSetCar9 (by decide)

/-- the model itself on these inputs (kernel evaluation of tiny runs) -/
example : map cons 5 exStore [.ptr 7, .ptr 4] = .err .pair := rfl
example : ∃ s', forEach car 4 exStore [.ptr 9] = .ok (s', .void) := ⟨_, rfl⟩

end Marwood.Proofs.C14
