import Marwood.Lemmas.NumCmp
/-!
# C09 — numeric comparison is one consistent total order across representations

Property theorems only.  Model: `Marwood.Cmp` (`PartialEq`/`PartialOrd for Number` after fix
63fa66b, `num_comp`, `min`, `max`, `zero? positive? negative?`); specification:
`Marwood.NumSpec.ext : Num → Option Ext`, the value in ℚ ∪ {−∞, +∞} (`none` exactly for NaN; a
double is converted exactly), with the order `Ext.lt`.

Every theorem is for all well-formed numbers in all four representations; "not NaN" is the
hypothesis `ext a = some x`.  After the fix there is no guard left: T09.1/T09.2 hold on all 16
representation pairs, so none of the statements is `_partial`.
-/
namespace Marwood.Proofs.C09
open Marwood Marwood.Cmp Marwood.NumSpec

/-- T09.1: `=` holds exactly when the values are equal. -/
theorem eq_iff_value_eq (a b : Num) (ha : a.WF = true) (hb : b.WF = true) {x y : Ext}
    (hx : ext a = some x) (hy : ext b = some y) : Cmp.eq a b = true ↔ x = y :=
  eq_spec a b ha hb hx hy

/-- T09.2: `partial_cmp` is the three-way comparison of the values; `<`, `>`, `<=`, `>=` are the
    corresponding relations on values. -/
theorem cmp_is_value_cmp (a b : Num) (ha : a.WF = true) (hb : b.WF = true) {x y : Ext}
    (hx : ext a = some x) (hy : ext b = some y) :
    partialCmp a b = some (cmpExt x y) ∧ Cmp.lt a b = Ext.lt x y ∧ Cmp.gt a b = Ext.lt y x ∧
      Cmp.le a b = Ext.le x y ∧ Cmp.ge a b = Ext.le y x :=
  ⟨partialCmp_spec a b ha hb hx hy, lt_spec a b ha hb hx hy, gt_spec a b ha hb hx hy,
    le_spec a b ha hb hx hy, ge_spec a b ha hb hx hy⟩

/-- trichotomy: exactly one of `<`, `=`, `>` holds. -/
theorem trichotomy (a b : Num) (ha : a.WF = true) (hb : b.WF = true) {x y : Ext}
    (hx : ext a = some x) (hy : ext b = some y) :
    (Cmp.lt a b = true ∧ Cmp.eq a b = false ∧ Cmp.gt a b = false) ∨
    (Cmp.lt a b = false ∧ Cmp.eq a b = true ∧ Cmp.gt a b = false) ∨
    (Cmp.lt a b = false ∧ Cmp.eq a b = false ∧ Cmp.gt a b = true) := by
  rw [lt_spec a b ha hb hx hy, gt_spec a b ha hb hx hy, eq_spec' a b ha hb hx hy]
  rcases Ext.trichotomy x y with h | h | h
  · left
    refine ⟨h, ?_, Ext.lt_asymm h⟩
    simp only [beq_eq_false_iff_ne, ne_eq]
    intro he; subst he; rw [Ext.lt_irrefl] at h; cases h
  · right; left; subst h; exact ⟨Ext.lt_irrefl _, by simp, Ext.lt_irrefl _⟩
  · right; right
    refine ⟨Ext.lt_asymm h, ?_, h⟩
    simp only [beq_eq_false_iff_ne, ne_eq]
    intro he; subst he; rw [Ext.lt_irrefl] at h; cases h

/-- mutual consistency: `<=` is `<` or `=`, `>=` is `>` or `=`, and `a < b` is `b > a`. -/
theorem relations_consistent (a b : Num) (ha : a.WF = true) (hb : b.WF = true) {x y : Ext}
    (hx : ext a = some x) (hy : ext b = some y) :
    Cmp.le a b = (Cmp.eq a b || Cmp.lt a b) ∧ Cmp.ge a b = (Cmp.eq a b || Cmp.gt a b) ∧
      Cmp.lt a b = Cmp.gt b a := by
  rw [le_spec a b ha hb hx hy, ge_spec a b ha hb hx hy, lt_spec a b ha hb hx hy,
    gt_spec a b ha hb hx hy, gt_spec b a hb ha hy hx, eq_spec' a b ha hb hx hy]
  refine ⟨rfl, ?_, rfl⟩
  unfold Ext.le
  have : (y == x) = (x == y) := by
    by_cases h : x = y
    · subst h; rfl
    · have h' : ¬ y = x := fun e => h e.symm
      simp [h, h']
  rw [this]

/-- `<` is transitive across representations. -/
theorem lt_trans (a b c : Num) (ha : a.WF = true) (hb : b.WF = true) (hc : c.WF = true)
    {x y z : Ext} (hx : ext a = some x) (hy : ext b = some y) (hz : ext c = some z)
    (h1 : Cmp.lt a b = true) (h2 : Cmp.lt b c = true) : Cmp.lt a c = true := by
  rw [lt_spec a b ha hb hx hy] at h1
  rw [lt_spec b c hb hc hy hz] at h2
  rw [lt_spec a c ha hc hx hz]
  exact Ext.lt_trans h1 h2

/-- `=` is transitive across representations. -/
theorem eq_trans (a b c : Num) (ha : a.WF = true) (hb : b.WF = true) (hc : c.WF = true)
    {x y z : Ext} (hx : ext a = some x) (hy : ext b = some y) (hz : ext c = some z)
    (h1 : Cmp.eq a b = true) (h2 : Cmp.eq b c = true) : Cmp.eq a c = true := by
  rw [eq_spec a b ha hb hx hy] at h1
  rw [eq_spec b c hb hc hy hz] at h2
  rw [eq_spec a c ha hc hx hz]
  exact h1.trans h2

/-- T09.3: the variadic procedures are the conjunction over adjacent argument pairs (whatever the
    relation and the arguments, NaN included) … -/
theorem variadic_is_adjacent_conjunction (comp : Num → Num → Bool) (a : Num) (rest : List Num) :
    numComp comp (a :: rest) = .ok (adjAll comp (a :: rest)) :=
  numComp_adj comp a rest

/-- … and for non-NaN arguments that conjunction is the chain of the relation on the values. -/
theorem variadic_value_chain (a : Num) (rest : List Num) (xs : List Ext)
    (hw : ∀ c ∈ a :: rest, c.WF = true)
    (hv : List.Forall₂ (fun c x => ext c = some x) (a :: rest) xs) :
    scmEq (a :: rest) = .ok (chain (· == ·) xs) ∧
    scmLt (a :: rest) = .ok (chain Ext.lt xs) ∧
    scmGt (a :: rest) = .ok (chain (fun p q => Ext.lt q p) xs) ∧
    scmLe (a :: rest) = .ok (chain Ext.le xs) ∧
    scmGe (a :: rest) = .ok (chain (fun p q => Ext.le q p) xs) := by
  unfold scmEq scmLt scmGt scmLe scmGe
  simp only [numComp_adj]
  refine ⟨?_, ?_, ?_, ?_, ?_⟩
  · rw [adjAll_chain Cmp.eq (· == ·) (fun p q x y h1 h2 h3 h4 => eq_spec' p q h1 h2 h3 h4) _ _ hw hv]
  · rw [adjAll_chain Cmp.lt Ext.lt (fun p q x y h1 h2 h3 h4 => lt_spec p q h1 h2 h3 h4) _ _ hw hv]
  · rw [adjAll_chain Cmp.gt (fun p q => Ext.lt q p)
      (fun p q x y h1 h2 h3 h4 => gt_spec p q h1 h2 h3 h4) _ _ hw hv]
  · rw [adjAll_chain Cmp.le Ext.le (fun p q x y h1 h2 h3 h4 => le_spec p q h1 h2 h3 h4) _ _ hw hv]
  · rw [adjAll_chain Cmp.ge (fun p q => Ext.le q p)
      (fun p q x y h1 h2 h3 h4 => ge_spec p q h1 h2 h3 h4) _ _ hw hv]

/-- T09.4 (sign predicates): `zero? positive? negative?` compare the value with 0. -/
theorem sign_predicates (a : Num) (ha : a.WF = true) {x : Ext} (hx : ext a = some x) :
    (isZero a = true ↔ x = .fin 0) ∧ isPositive a = Ext.lt (.fin 0) x ∧
      isNegative a = Ext.lt x (.fin 0) := by
  have h0 : ext (.fix 0) = some (.fin 0) := by simp [ext, val]
  have hw : (Num.fix 0).WF = true := by decide
  exact ⟨eq_spec a (.fix 0) ha hw hx h0, gt_spec a (.fix 0) ha hw hx h0,
    lt_spec a (.fix 0) ha hw hx h0⟩

/-- T09.4 (min): `min` returns one of its arguments, and no argument is smaller. -/
theorem min_is_least (args : List Num) (e : Num → Ext) (hw : ∀ a ∈ args, a.WF = true)
    (he : ∀ a ∈ args, ext a = some (e a)) (hlen : 2 ≤ args.length) :
    ∃ m, scmMin args = .ok m ∧ m ∈ args ∧ ∀ a ∈ args, Ext.lt (e a) (e m) = false := by
  unfold scmMin
  cases hr : args.reverse with
  | nil => simp at hr; subst hr; simp at hlen
  | cons y r =>
    cases r with
    | nil =>
      have := congrArg List.length hr
      simp at this; omega
    | cons x r' =>
      have hmem : ∀ a, a ∈ y :: x :: r' ↔ a ∈ args := by
        intro a; rw [← hr]; exact List.mem_reverse
      obtain ⟨h1, h2⟩ := minLoop_spec e y (x :: r') (fun a ha => hw a ((hmem a).mp ha))
        (fun a ha => he a ((hmem a).mp ha))
      exact ⟨_, rfl, (hmem _).mp h1, fun a ha => h2 a ((hmem a).mpr ha)⟩

/-- T09.4 (max) -/
theorem max_is_greatest (args : List Num) (e : Num → Ext) (hw : ∀ a ∈ args, a.WF = true)
    (he : ∀ a ∈ args, ext a = some (e a)) (hlen : 2 ≤ args.length) :
    ∃ m, scmMax args = .ok m ∧ m ∈ args ∧ ∀ a ∈ args, Ext.lt (e m) (e a) = false := by
  unfold scmMax
  cases hr : args.reverse with
  | nil => simp at hr; subst hr; simp at hlen
  | cons y r =>
    cases r with
    | nil =>
      have := congrArg List.length hr
      simp at this; omega
    | cons x r' =>
      have hmem : ∀ a, a ∈ y :: x :: r' ↔ a ∈ args := by
        intro a; rw [← hr]; exact List.mem_reverse
      obtain ⟨h1, h2⟩ := maxLoop_spec e y (x :: r') (fun a ha => hw a ((hmem a).mp ha))
        (fun a ha => he a ((hmem a).mp ha))
      exact ⟨_, rfl, (hmem _).mp h1, fun a ha => h2 a ((hmem a).mpr ha)⟩

/-! ### non-vacuity: the boundary cases the pinned tree got wrong -/
set_option exponentiation.threshold 2000

-- an integer beyond 32 bits against a rational
example : Cmp.lt (.fix (-3000000000)) (.rat 1 2) = true := by decide +kernel
-- 2^53 + 1 against the double 2^53 (bit pattern 4340000000000000)
example : Cmp.eq (.fix 9007199254740993) (.flo ⟨0x4340000000000000⟩) = false := by decide +kernel
example : Cmp.gt (.fix 9007199254740993) (.flo ⟨0x4340000000000000⟩) = true := by decide +kernel
-- 1/3 against its nearest double
example : Cmp.eq (.rat 1 3) (.flo ⟨0x3fd5555555555555⟩) = false := by decide +kernel
-- ±0.0, ±inf
example : Cmp.eq (.flo ⟨0x8000000000000000⟩) (.rat 0 1) = true := by decide +kernel
example : Cmp.lt (.flo ⟨0xfff0000000000000⟩) (.big (-(10 ^ 30))) = true := by decide +kernel
example : scmLt [.fix 1, .rat 3 2, .flo ⟨0x4000000000000000⟩, .big 3] = .ok true := by decide +kernel
example : scmMin [.fix 9007199254740993, .flo ⟨0x4340000000000000⟩] = .ok (.flo ⟨0x4340000000000000⟩) := by
  decide +kernel

end Marwood.Proofs.C09
