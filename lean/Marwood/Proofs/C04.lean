import Marwood.Lemmas.TCall
import Marwood.Lemmas.CompileTail
import Marwood.Lemmas.StackWFToy
import Marwood.Lemmas.ConcreteLawsBpLive
import Marwood.Lemmas.StackDiscOfWFS
import Marwood.Lemmas.ProcInvMain
import Marwood.Lemmas.CompileVerifies
import Marwood.Lemmas.CompileVerifiesLoads
import Marwood.Lemmas.CompileVerifiesCInv
/-!
# C04 — calls in tail position run in constant stack space (instruction level)

Theorems about `Marwood.Vm.stepTCall` / `stepEnter` (the model of TCALL and ENTER in run.rs,
tied to the code by lock-step replay), for every heap and every state satisfying the frame
layout `args…, argc, ep, ip, bp` that CALL/ENTER establish.
-/
namespace Marwood.Proofs.C04
open Marwood.Vm Marwood.Vm.Stack

variable {H : Type}

@[simp] theorem bind_ok {α β : Type} (a : α) (f : α → Outcome β) : (Outcome.ok a >>= f) = f a := rfl

/-- The stack at a TCALL executed inside a frame: the frame header sits at `bp+1 … bp+4`
    (`argc fa`, saved `ep`, saved `ip`, saved `bp`), the `n` operands of the tail call and their
    count are the topmost cells, above the header. -/
structure AtTCall (s : St H) (fa n : Nat) (E I : VCell) (B : Nat) : Prop where
  cap : s.stack.sp < s.stack.cells.length
  fargc : s.stack.cellAt (s.bp + 1) = .argc fa
  sep : s.stack.cellAt (s.bp + 2) = E
  sip : s.stack.cellAt (s.bp + 3) = I
  sbp : s.stack.cellAt (s.bp + 4) = .basePtr B
  top : s.stack.cellAt s.stack.sp = .argc n
  room : s.bp + 4 + n < s.stack.sp
  base : fa ≤ s.bp

/-- What the frame looks like when TCALL has finished (before the callee's ENTER):
    it starts where the replaced frame started, holds the new operands, and still carries the
    replaced frame's saved `ep` / `ip`; `bp` is the replaced frame's saved `bp`. -/
structure Replaced (s s' : St H) (fa n : Nat) (E I : VCell) (B lam : Nat) : Prop where
  sp : s'.stack.sp = s.bp - fa + n + 3
  cap : s'.stack.sp < s'.stack.cells.length
  args : ∀ j, j < n → s'.stack.cellAt (s.bp - fa + 1 + j) = s.stack.cellAt (s.stack.sp - n + j)
  argc : s'.stack.cellAt (s.bp - fa + n + 1) = .argc n
  sep : s'.stack.cellAt (s.bp - fa + n + 2) = E
  sip : s'.stack.cellAt (s.bp - fa + n + 3) = I
  below : ∀ i, i + fa ≤ s.bp → s'.stack.cellAt i = s.stack.cellAt i
  bp : s'.bp = B
  ip : s'.ipL = lam ∧ s'.ipO = 0
  rest : s'.heap = s.heap ∧ s'.ep = s.ep ∧ s'.acc = s.acc

/-- T04.1 (both branches): a tail call to a closure rewrites the current frame in place. -/
theorem tcall_replaces_frame (ops : HeapOps H) (s : St H) (fa n : Nat) (E I : VCell) (B lam env : Nat)
    (hc : ops.callee s.heap s.acc = .closure lam env) (hf : AtTCall s fa n E I B) :
    ∃ s', stepTCall ops s = .ok s' ∧ Replaced s s' fa n E I B lam := by
  have hcap := hf.cap
  unfold stepTCall
  rw [hc]
  simp only
  have hg0 : s.stack.getOffset 0 = .ok (.argc n) := by
    have := getOffset_neg s.stack 0 (Nat.zero_le _) hcap
    simpa [hf.top] using this
  have hg1 : s.stack.get (s.bp + 1) = .ok (.argc fa) := by
    rw [get_of_lt _ _ (by have := hf.room; omega), hf.fargc]
  have hg2 : s.stack.get (s.bp + 2) = .ok E := by
    rw [get_of_lt _ _ (by have := hf.room; omega), hf.sep]
  have hg3 : s.stack.get (s.bp + 3) = .ok I := by
    rw [get_of_lt _ _ (by have := hf.room; omega), hf.sip]
  have hg4 : s.stack.get (s.bp + 4) = .ok (.basePtr B) := by
    rw [get_of_lt _ _ (by have := hf.room; omega), hf.sbp]
  simp only [hg0, hg1, hg4, bind_ok, asArgc, asBp, Bind.bind]
  by_cases heq : n = fa
  · -- equal argument counts: copy in place
    subst heq
    simp only [if_true]
    obtain ⟨st', h1, h2, h3, h4, h5⟩ :=
      tcallCopySame_spec n 0 s.bp s.stack hcap (by have := hf.base; omega) (by have := hf.room; omega)
    simp only [h1, hg4]
    refine ⟨_, rfl, ?_⟩
    have hroom := hf.room
    have hbase := hf.base
    refine ⟨by simp; omega, by simp; omega, ?_, ?_, ?_, ?_, ?_, rfl, ⟨rfl, rfl⟩, ⟨rfl, rfl, rfl⟩⟩
    · intro j hj
      have := h4 (n - 1 - j) (by omega)
      simp only [Nat.sub_zero] at this
      have e1 : s.bp - (n - 1 - j) = s.bp - n + 1 + j := by omega
      have e2 : s.stack.sp - 1 - (n - 1 - j) = s.stack.sp - n + j := by omega
      rw [e1, e2] at this
      exact this
    · have := h5 (s.bp + 1) (.inr (by omega))
      have e : s.bp - n + n + 1 = s.bp + 1 := by omega
      simp only [e]; rw [show (Stack.cellAt { cells := st'.cells, sp := s.bp + 3 } (s.bp + 1)) = st'.cellAt (s.bp + 1) from rfl, this, hf.fargc]
    · have := h5 (s.bp + 2) (.inr (by omega))
      have e : s.bp - n + n + 2 = s.bp + 2 := by omega
      simp only [e]; rw [show (Stack.cellAt { cells := st'.cells, sp := s.bp + 3 } (s.bp + 2)) = st'.cellAt (s.bp + 2) from rfl, this, hf.sep]
    · have := h5 (s.bp + 3) (.inr (by omega))
      have e : s.bp - n + n + 3 = s.bp + 3 := by omega
      simp only [e]; rw [show (Stack.cellAt { cells := st'.cells, sp := s.bp + 3 } (s.bp + 3)) = st'.cellAt (s.bp + 3) from rfl, this, hf.sip]
    · intro i hi
      exact h5 i (.inl (by omega))
  · -- different argument counts: rebuild the frame from its base
    simp only [heq, if_false, hg2, hg3, hg4]
    have hbase := hf.base
    have hroom := hf.room
    simp only [usub, hbase, if_true]
    obtain ⟨st', h1, h2, h3, h4, h5, h6⟩ :=
      tcallCopyDiff_spec n s.stack.sp { s.stack with sp := s.bp - fa } hcap (by simp; omega)
    simp only at h1 h2 h4 h5 h6
    simp only [h1]
    refine ⟨_, rfl, ?_⟩
    refine ⟨by simp [h2], push_sp_lt _ _, ?_, ?_, ?_, ?_, ?_, rfl, ⟨rfl, rfl⟩, ⟨rfl, rfl, rfl⟩⟩
    · intro j hj
      simp only [push_cellAt, push_sp, h2]
      have n1 : ¬ (s.bp - fa + 1 + j = s.bp - fa + n + 1 + 1 + 1) := by omega
      have n2 : ¬ (s.bp - fa + 1 + j = s.bp - fa + n + 1 + 1) := by omega
      have n3 : ¬ (s.bp - fa + 1 + j = s.bp - fa + n + 1) := by omega
      simp only [n1, n2, n3, if_false]
      exact h4 j hj
    · simp only [push_cellAt, push_sp, h2]
      have n1 : ¬ (s.bp - fa + n + 1 = s.bp - fa + n + 1 + 1 + 1) := by omega
      have n2 : ¬ (s.bp - fa + n + 1 = s.bp - fa + n + 1 + 1) := by omega
      simp [n1, n2]
    · simp only [push_cellAt, push_sp, h2]
      have n1 : ¬ (s.bp - fa + n + 2 = s.bp - fa + n + 1 + 1 + 1) := by omega
      have n2 : (s.bp - fa + n + 2 = s.bp - fa + n + 1 + 1) := by omega
      simp [n1, n2]
    · simp only [push_cellAt, push_sp, h2]
      have n1 : (s.bp - fa + n + 3 = s.bp - fa + n + 1 + 1 + 1) := by omega
      simp [n1]
    · intro i hi
      simp only [push_cellAt, push_sp, h2]
      have n1 : ¬ (i = s.bp - fa + n + 1 + 1 + 1) := by omega
      have n2 : ¬ (i = s.bp - fa + n + 1 + 1) := by omega
      have n3 : ¬ (i = s.bp - fa + n + 1) := by omega
      simp only [n1, n2, n3, if_false]
      exact h5 i (by omega)


/-- ENTER on a frame as TCALL (or CALL) left it: pushes the saved `bp` and makes the last operand
    the new frame base. -/
theorem enter_completes_frame (ops : HeapOps H) (s : St H) (n lam env : Nat) (h' : H) (e' : Nat)
    (hc : ops.callee s.heap s.acc = .closure lam env)
    (hi : ops.lambdaInfo s.heap lam = some ⟨n⟩)
    (hcap : s.stack.sp < s.stack.cells.length) (hsp : 3 ≤ s.stack.sp)
    (hargc : s.stack.cellAt (s.stack.sp - 2) = .argc n)
    (hact : ∀ st bp, ops.makeActivation s.heap lam env bp st = .ok (h', e')) :
    ∃ s', stepEnter ops s = .ok s' ∧ s'.stack.sp = s.stack.sp + 1 ∧ s'.bp + 3 = s.stack.sp ∧
      s'.stack.cellAt (s.stack.sp + 1) = .basePtr s.bp ∧
      (∀ i, i ≤ s.stack.sp → s'.stack.cellAt i = s.stack.cellAt i) ∧
      s'.stack.sp < s'.stack.cells.length ∧
      s'.ep = e' ∧ s'.ipL = s.ipL ∧ s'.ipO = s.ipO ∧ s'.acc = s.acc := by
  unfold stepEnter
  rw [hc]
  simp only [bind_ok, Bind.bind, hi]
  have e : (-2 : Int) = -((2 : Nat) : Int) := by omega
  rw [e, getOffset_neg s.stack 2 (by omega) hcap, hargc]
  simp only [asArgc, ne_eq, not_true_eq_false, if_false, usub, push_sp]
  have h4 : 4 ≤ s.stack.sp + 1 := by omega
  simp only [h4, if_true, hact]
  refine ⟨_, rfl, by simp, by simp; omega, ?_, ?_, push_sp_lt _ _, rfl, rfl, rfl, rfl⟩
  · simp [push_cellAt]
  · intro i hi'
    simp only [push_cellAt]
    have : ¬ (i = s.stack.sp + 1) := by omega
    simp [this]

/-- the part of a frame that must survive a loop: where it starts and whom it returns to -/
structure FrameId (s : St H) (base : Nat) (E I : VCell) (B : Nat) : Prop where
  argc : ∃ n, s.stack.cellAt (s.bp + 1) = .argc n ∧ s.bp + 1 = base + n
  sep : s.stack.cellAt (s.bp + 2) = E
  sip : s.stack.cellAt (s.bp + 3) = I
  sbp : s.stack.cellAt (s.bp + 4) = .basePtr B

/-- T04.1 + ENTER = one iteration of a tail-recursive loop (self or mutual, equal or different
    arity): the callee's frame starts at the same stack index as the frame it replaces, returns to
    the same caller, leaves everything below untouched, and the stack pointer on entry is
    `base + arity + 3` — a function of the callee's arity only, not of how many tail calls came
    before. -/
theorem tail_call_iteration (ops : HeapOps H) (s : St H) (fa n : Nat) (E I : VCell)
    (B lam env base : Nat) (h' : H) (e' : Nat)
    (hc : ops.callee s.heap s.acc = .closure lam env)
    (hi : ops.lambdaInfo s.heap lam = some ⟨n⟩)
    (hf : AtTCall s fa n E I B) (hbase : s.bp + 1 = base + fa)
    (hact : ∀ st bp, ops.makeActivation s.heap lam env bp st = .ok (h', e')) :
    ∃ s1 s2, stepTCall ops s = .ok s1 ∧ stepEnter ops s1 = .ok s2 ∧
      FrameId s2 base E I B ∧ s2.stack.sp = base + n + 3 ∧
      (∀ i, i < base → s2.stack.cellAt i = s.stack.cellAt i) ∧
      (∀ j, j < n → s2.stack.cellAt (base + j) = s.stack.cellAt (s.stack.sp - n + j)) := by
  obtain ⟨s1, h1, r⟩ := tcall_replaces_frame ops s fa n E I B lam env hc hf
  have hb : s.bp - fa + 1 = base := by have := hf.base; omega
  have hsp1 : s1.stack.sp = base + n + 2 := by rw [r.sp]; omega
  have hc1 : ops.callee s1.heap s1.acc = .closure lam env := by rw [r.rest.1, r.rest.2.2]; exact hc
  have hi1 : ops.lambdaInfo s1.heap lam = some ⟨n⟩ := by rw [r.rest.1]; exact hi
  have hargc1 : s1.stack.cellAt (s1.stack.sp - 2) = .argc n := by
    have := r.argc
    have e : s.bp - fa + n + 1 = s1.stack.sp - 2 := by omega
    rw [e] at this; exact this
  obtain ⟨s2, h2, q1, q2, q3, q4, q5, _⟩ :=
    enter_completes_frame ops s1 n lam env h' e' hc1 hi1 r.cap (by omega) hargc1
      (by intro st bp; rw [r.rest.1]; exact hact st bp)
  have hbp2 : s2.bp = base + n - 1 := by omega
  refine ⟨s1, s2, h1, h2, ?_, by omega, ?_, ?_⟩
  · refine ⟨⟨n, ?_, by omega⟩, ?_, ?_, ?_⟩
    · have := q4 (s2.bp + 1) (by omega)
      rw [this]
      have e : s2.bp + 1 = s.bp - fa + n + 1 := by omega
      rw [e]; exact r.argc
    · have := q4 (s2.bp + 2) (by omega)
      rw [this]
      have e : s2.bp + 2 = s.bp - fa + n + 2 := by omega
      rw [e]; exact r.sep
    · have := q4 (s2.bp + 3) (by omega)
      rw [this]
      have e : s2.bp + 3 = s.bp - fa + n + 3 := by omega
      rw [e]; exact r.sip
    · have e : s2.bp + 4 = s1.stack.sp + 1 := by omega
      rw [e, q3, r.bp]
  · intro i hi'
    rw [q4 i (by omega)]
    exact r.below i (by have := hf.base; omega)
  · intro j hj
    rw [q4 (base + j) (by omega)]
    have := r.args j hj
    have e : s.bp - fa + 1 + j = base + j := by omega
    rw [e] at this; exact this

theorem pop_spec (st st' : Stack) (v : VCell) (h : st.pop = .ok (v, st')) :
    st'.sp + 1 = st.sp ∧ st'.cells = st.cells ∧ v = st.cellAt st.sp := by
  unfold Stack.pop at h
  split at h
  · split at h
    · rename_i hp v' hv
      cases h
      refine ⟨by simp; omega, rfl, ?_⟩
      unfold Stack.cellAt; rw [hv]; rfl
    · cases h
  · cases h

theorem popN_spec : ∀ (k : Nat) (st st' : Stack) (vs : List VCell),
    popN k st = .ok (vs, st') → st'.sp + k = st.sp ∧ st'.cells = st.cells ∧ vs.length = k := by
  intro k
  induction k with
  | zero => intro st st' vs h; simp [popN] at h; rcases h with ⟨rfl, rfl⟩; simp
  | succ k ih =>
    intro st st' vs h
    simp only [popN, Bind.bind] at h
    cases hp : st.pop with
    | ok r =>
      obtain ⟨v, st1⟩ := r
      rw [hp] at h; simp only at h
      have p1 := pop_spec _ _ _ hp
      cases hq : popN k st1 with
      | ok r2 =>
        obtain ⟨vs2, st2⟩ := r2
        rw [hq] at h; simp only at h
        have p2 := ih _ _ _ hq
        cases h
        refine ⟨by omega, by rw [p2.2.1, p1.2.1], by simp [p2.2.2]⟩
      | err e => rw [hq] at h; cases h
      | panic m => rw [hq] at h; cases h
    | err e => rw [hp] at h; cases h
    | panic m => rw [hp] at h; cases h

/-- T04.1, builtin target: a (tail) call of an ordinary builtin consumes the argument count and
    exactly that many operands and pushes nothing: no stack growth, whatever the builtin does. -/
theorem builtin_call_pops (ops : HeapOps H) (s : St H) (id : Nat) (s' : St H) (v : VCell)
    (hr : builtinGeneric ops id s = .ok (s', v)) :
    ∃ n, s.stack.cellAt s.stack.sp = .argc n ∧ s'.stack.sp + n + 1 = s.stack.sp ∧
      s'.stack.cells = s.stack.cells := by
  unfold builtinGeneric at hr
  simp only [Bind.bind] at hr
  cases hp : s.stack.pop with
  | ok r =>
    obtain ⟨a, st1⟩ := r
    rw [hp] at hr; simp only at hr
    have p1 := pop_spec _ _ _ hp
    cases a with
    | argc n =>
      simp only [asArgc] at hr
      cases hq : popN n st1 with
      | ok r2 =>
        obtain ⟨vs, st2⟩ := r2
        rw [hq] at hr; simp only at hr
        have p2 := popN_spec _ _ _ _ hq
        cases hb : ops.builtinEval s.heap id vs with
        | ok hv =>
          rw [hb] at hr; simp only at hr
          cases hr
          exact ⟨n, p1.2.2.symm, by simp; omega, by simp [p2.2.1, p1.2.1]⟩
        | err e => rw [hb] at hr; cases hr
        | panic m => rw [hb] at hr; cases hr
      | err e => rw [hq] at hr; cases hr
      | panic m => rw [hq] at hr; cases hr
    | _ => simp [asArgc] at hr
  | err e => rw [hp] at hr; cases hr
  | panic m => rw [hp] at hr; cases hr

/-! ### T04.2: the compiler emits TCALL exactly for the calls in tail position (R7RS 3.5, core forms) -/

open Marwood Marwood.Spec in
/-- For every expression the compiler accepts, in every binding context, at every code offset: the
    call instructions it emits are, in order, `TCALL` for exactly the calls that
    `Spec.tailCalls` (R7RS 3.5) marks as tail calls and `CALL` for all others. -/
theorem compile_tail_calls (fuel : Nat) (st : CState) (c : Ctx) (base : Nat) (tail : Bool) (e : Datum)
    (st' : CState) (code : List BC) (h : compileExpr fuel st c base tail e = .ok (st', code)) :
    callOps code = tailCalls fuel tail e :=
  (tailOK_all fuel).expr st c base tail e st' code h

open Marwood Marwood.Spec in
/-- lambda bodies: only the last body expression is compiled in tail position -/
theorem compile_body_tail_calls : ∀ (fuel : Nat) (st : CState) (c : Ctx) (base : Nat) (body : Datum)
    (st' : CState) (code : List BC), compileBody fuel st c base body = .ok (st', code) →
    callOps code = bodyCalls fuel body := by
  intro fuel
  induction fuel with
  | zero => intro st c base body st' code h; simp [compileBody] at h
  | succ fuel ih =>
    intro st c base body st' code h
    cases body with
    | pair x rest =>
      simp only [compileBody] at h
      cases h1 : compileExpr fuel st c base rest.isNil x with
      | error e => simp [h1] at h
      | ok r1 =>
        obtain ⟨st1, code1⟩ := r1
        simp only [h1] at h
        cases h2 : compileBody fuel st1 c (base + code1.length) rest with
        | error e => simp [h2] at h
        | ok r2 =>
          obtain ⟨st2, code2⟩ := r2
          simp only [h2] at h
          cases h
          simp [bodyCalls, compile_tail_calls _ _ _ _ _ _ _ _ h1, ih _ _ _ _ _ _ h2]
    | _ => simp only [compileBody] at h; cases h; simp [bodyCalls]

open Marwood Marwood.Spec in
/-- a call in tail position ends in TCALL, a call anywhere else in CALL -/
theorem application_call_op (fuel : Nat) (st : CState) (c : Ctx) (base : Nat) (tail : Bool)
    (proc rest : Datum) (st' : CState) (code : List BC)
    (hn : ∀ kw ∈ specialForms, proc.isSymStr kw = false)
    (h : compileExpr (fuel + 1) st c base tail (.pair proc rest) = .ok (st', code)) :
    code.getLast? = some (.op (if tail then .tcallAcc else .callAcc)) := by
  unfold compileExpr at h
  have k1 := hn ['d','e','f','i','n','e'] (by simp [specialForms])
  have k2 := hn ['d','e','f','i','n','e','-','s','y','n','t','a','x'] (by simp [specialForms])
  have k3 := hn ['l','a','m','b','d','a'] (by simp [specialForms])
  have k4 := hn ['λ'] (by simp [specialForms])
  have k5 := hn ['q','u','a','s','i','q','u','o','t','e'] (by simp [specialForms])
  have k6 := hn ['q','u','o','t','e'] (by simp [specialForms])
  have k7 := hn ['i','f'] (by simp [specialForms])
  have k8 := hn ['s','e','t','!'] (by simp [specialForms])
  simp only [k1, k2, k3, k4, k5, k6, k7, k8, Bool.false_eq_true, if_false, Bool.or_self] at h
  cases h1 : compileArgs fuel st c base rest with
  | error e => simp [h1] at h
  | ok r1 =>
    obtain ⟨st1, code1, n⟩ := r1
    simp only [h1] at h
    cases h2 : compileExpr fuel st1 c (base + code1.length + 2) false proc with
    | error e => simp [h2] at h
    | ok r2 =>
      obtain ⟨st2, pcode⟩ := r2
      simp only [h2] at h
      cases h
      rw [show (code1 ++ [BC.op Op.pushImm, BC.argc n] ++ pcode
                ++ [BC.op (if tail = true then Op.tcallAcc else Op.callAcc)])
            = (code1 ++ [BC.op Op.pushImm, BC.argc n] ++ pcode)
                ++ [BC.op (if tail = true then Op.tcallAcc else Op.callAcc)] from rfl]
      exact List.getLast?_concat

/-! ### non-vacuity -/

open Marwood Marwood.Spec in
example :
    (match compileExpr 10 {} ⟨[], []⟩ 1 true
      (Datum.ofList [.sym ['i','f'], .sym ['p'],
        Datum.ofList [.sym ['f'], Datum.ofList [.sym ['g']]],
        Datum.ofList [.sym ['h']]]) with
     | .ok (_, code) => callOps code
     | .error _ => []) = [false, true, true] := by decide +kernel

/-! ## T04.5: loops of tail calls run in constant stack, for ARBITRARY verified bodies
(WF-stack, `Lemmas/StackWF*.lean`)

The hypothesis the one-iteration theorem `tail_call_iteration` left open — that the code between
ENTER and the next TCALL leaves the frame header intact — is discharged for all code the bytecode
verifier accepts, under the heap laws `CodeLaws`. -/

/-- at every TCALL (and RET) executed in the frame that starts at `D.base`, after arbitrary verified
    code has run since the frame was created (nested calls that return, tail calls in nested frames,
    builtins, `apply`/`eval`/`call/cc` re-dispatch; no continuation invoked, the frame itself not
    returned from), the header cells `bp+2 … bp+4` are the ones the CALL/ENTER that created the
    frame wrote: the description `D` of the frame is unchanged. -/
theorem frame_header_intact_at_tcall {ops : HeapOps H} (cl : CodeLaws ops) {s t t1 : St H} {D : FDesc}
    {R : List FDesc} {op : Op} (hw : WFS cl s (D :: R)) (htr : Trace ops D.base s t)
    (hr : readOpcode ops t = .ok (op, t1)) (hop : op = .ret ∨ op = .tcallAcc)
    (hb : FrameBase t D.base) :
    WFS cl t (D :: R) ∧ t.stack.cellAt (t.bp + 2) = D.sep ∧ t.stack.cellAt (t.bp + 3) = D.sip ∧
      t.stack.cellAt (t.bp + 4) = .basePtr D.sbp := by
  obtain ⟨P', hw'⟩ := htr.stable [] D R rfl hw
  obtain ⟨hP, h2, h3, h4⟩ := header_of_base hw' hr hop hb
  subst hP
  exact ⟨hw', h2, h3, h4⟩

/-- the callee's prologue: `ENTER`, or `VARARG; ENTER` -/
inductive Prologue (ops : HeapOps H) : St H → St H → Prop
  | enter {u u1 s' : St H} : readOpcode ops u = .ok (.enter, u1) → step ops u = .ok (s', false) →
      Prologue ops u s'
  | vararg {u u1 v v1 s' : St H} : readOpcode ops u = .ok (.varArg, u1) → step ops u = .ok (v, false) →
      readOpcode ops v = .ok (.enter, v1) → step ops v = .ok (s', false) → Prologue ops u s'

/-- `n` iterations of a loop of tail calls in the frame that starts at `base`: an arbitrary body
    (a `Trace` that never returns from the frame), then a TCALL of a closure executed in that frame,
    then the callee's prologue — `n` times. Self- or mutual recursion, any arities. -/
inductive TailLoop (ops : HeapOps H) (base : Nat) : Nat → St H → St H → Prop
  | zero (s : St H) : TailLoop ops base 0 s s
  | succ {n : Nat} {s t t1 u s' s'' : St H} {lam env : Nat} :
      Trace ops base s t → readOpcode ops t = .ok (.tcallAcc, t1) → FrameBase t base →
      ops.callee t.heap t.acc = .closure lam env → step ops t = .ok (u, false) → Prologue ops u s' →
      TailLoop ops base n s' s'' → TailLoop ops base (n + 1) s s''

/-- a state at the head of a procedure body in the frame that starts at `base`: no temporaries -/
def AtHead (s : St H) (base : Nat) : Prop := s.stack.sp = s.bp + 4 ∧ FrameBase s base

/-- **T04.5**: by induction on the number of iterations — after any number of tail calls the
    machine is again at a procedure head in the *same* frame slot: same list of frames (`D :: R`,
    so the same return address, saved `ep` and `bp`, and the same number of frames), the frame
    starts at the same index. -/
theorem tail_loop_same_frame {ops : HeapOps H} (cl : CodeLaws ops) {D : FDesc} {R : List FDesc} :
    ∀ {n : Nat} {s s' : St H}, TailLoop ops D.base n s s' → WFS cl s (D :: R) → AtHead s D.base →
      WFS cl s' (D :: R) ∧ AtHead s' D.base := by
  intro n s s' hl
  induction hl with
  | zero s => intro hw hh; exact ⟨hw, hh⟩
  | @succ n s t t1 u s1 s2 lam env htr hr hb hc hst hpro _ ih =>
    intro hw _
    obtain ⟨hwt, _⟩ := frame_header_intact_at_tcall cl hw htr hr (.inr rfl) hb
    have hwu := tcall_closure_desc hwt hr hc hst
    cases hpro with
    | enter he hse =>
      obtain ⟨hw1, hsp, hfb⟩ := enter_desc hwu he hse
      exact ih hw1 ⟨hsp, hfb⟩
    | vararg hv hsv he hse =>
      have hwv := vararg_desc hwu hv hsv
      obtain ⟨hw1, hsp, hfb⟩ := enter_desc hwv he hse
      exact ih hw1 ⟨hsp, hfb⟩

/-- hence `sp` at every entry of the loop head is a function of where the frame starts and of the
    head's arity only — not of the number of iterations: the high-water mark of an `n`-iteration
    loop is independent of `n`. -/
theorem tail_loop_sp {ops : HeapOps H} (cl : CodeLaws ops) {D : FDesc} {R : List FDesc} {n : Nat}
    {s s' : St H} (hl : TailLoop ops D.base n s s') (hw : WFS cl s (D :: R)) (hh : AtHead s D.base) :
    ∃ arity, s'.stack.cellAt (s'.bp + 1) = .argc arity ∧ s'.stack.sp = D.base + arity + 3 := by
  obtain ⟨_, hsp, ar, hA, hle, hb⟩ := tail_loop_same_frame cl hl hw hh
  exact ⟨ar, hA, by omega⟩

/-! ### non-vacuity: `λ3 = ENTER; PUSHIMM argc0; MOVIMM c5 acc; TCALL; RET` (`c5` the closure of
`λ3`) called from entry code (`Lemmas/StackWFToy.lean`): every hypothesis of the loop theorem is
satisfied by this concrete verified program, for two iterations of the loop -/

section
open Marwood.Vm.Toy

theorem toy_no_cont (s : St Unit) : ∀ c, Toy.ops.callee s.heap s.acc ≠ .continuation c := by
  intro c h
  simp only [Toy.ops] at h
  split at h <;> cases h

/-- the frame of `λ3` starts at stack index 1 and returns into the entry code -/
def toyD : FDesc := ⟨1, .envPtr usizeMax, .instrPtr 4 6, 0⟩

/-- the WF invariant at the loop head (state 4: after `PUSHIMM; MOVIMM; CALL; ENTER`), with the
    frame description the CALL created — by `call_closure_desc` / `enter_desc` from the verified
    initial state -/
theorem toy_head_wf : ∃ R, WFS Toy.laws (nth 4) (toyD :: R) := by
  have h0 := Toy.wf_start4
  obtain ⟨K2, w2⟩ := runK_wf 2 (prepare Toy.idle 4) (nth 2) [] h0 (by rfl)
  obtain ⟨m, hm, w3⟩ := call_closure_desc (lam := 3) (env := 0) w2 (s1 := { nth 2 with ipO := 6 }) (by rfl)
    (by rfl) (s' := nth 3) (by rfl)
  have em : m = 0 := by
    have : (nth 2).stack.cellAt (nth 2).stack.sp = .argc 0 := by rfl
    rw [this] at hm; cases hm; rfl
  subst em
  exact ⟨K2, (enter_desc (D := toyD) (R := K2) w3 (s1 := { nth 3 with ipO := 1 }) (by rfl) (s' := nth 4) (by rfl)).1⟩

theorem toy_iteration (k : Nat) (hk : k = 4 ∨ k = 8) {n : Nat} {s'' : St Unit}
    (rest : TailLoop Toy.ops 1 n (nth (k + 4)) s'') : TailLoop Toy.ops 1 (n + 1) (nth k) s'' := by
  rcases hk with rfl | rfl
  · exact TailLoop.succ (t := nth 6) (t1 := { nth 6 with ipO := 7 }) (u := nth 7) (lam := 3) (env := 0)
      (.cons (toy_no_cont _) (s1 := nth 5) (by rfl) (by decide)
        (.cons (toy_no_cont _) (s1 := nth 6) (by rfl) (by decide) (.nil _)))
      (by rfl) ⟨0, by rfl, by decide, by rfl⟩ (by rfl) (by rfl)
      (.enter (u1 := { nth 7 with ipO := 1 }) (by rfl) (by rfl)) rest
  · exact TailLoop.succ (t := nth 10) (t1 := { nth 10 with ipO := 7 }) (u := nth 11) (lam := 3) (env := 0)
      (.cons (toy_no_cont _) (s1 := nth 9) (by rfl) (by decide)
        (.cons (toy_no_cont _) (s1 := nth 10) (by rfl) (by decide) (.nil _)))
      (by rfl) ⟨0, by rfl, by decide, by rfl⟩ (by rfl) (by rfl)
      (.enter (u1 := { nth 11 with ipO := 1 }) (by rfl) (by rfl)) rest

/-- two iterations of the loop, and the theorem's conclusion for them: still the frame `toyD`, still
    at `sp = 4` -/
example : TailLoop Toy.ops toyD.base 2 (nth 4) (nth 12) ∧
    ∃ R, (WFS Toy.laws (nth 12) (toyD :: R) ∧ AtHead (nth 12) toyD.base) := by
  have hl : TailLoop Toy.ops toyD.base 2 (nth 4) (nth 12) :=
    toy_iteration 4 (.inl rfl) (toy_iteration 8 (.inr rfl) (.zero _))
  obtain ⟨R, hw⟩ := toy_head_wf
  exact ⟨hl, R, tail_loop_same_frame Toy.laws hl hw ⟨by rfl, 0, by rfl, by decide, by rfl⟩⟩

example : (runK 4 (prepare Toy.idle 4)).map (·.stack.sp) = some 4 ∧
    (runK 8 (prepare Toy.idle 4)).map (·.stack.sp) = some 4 ∧
    (runK 400 (prepare Toy.idle 4)).map (·.stack.sp) = some 4 := by decide +kernel

end

/-! ## On the concrete machine: the heap laws are theorems

`Lemmas/ConcreteLaws*.lean`: over the concrete heap (`Vm/ConcreteHeap.lean`: the C03 heap model; lambdas
are heap cells holding their bytecode) `CodeLaws` is the theorem `concreteLaws ext ecl`, `GcLaws` for the
real collector the theorem `cgc_gcLaws`, `LiveLaws` the theorem `concreteLiveLaws`. What remains:
* `CInv s.heap` of the **initial** state — every lambda cell passes the bytecode verifier (the
  `bytecode-verifier` stream checks it on every real lambda on every run), is not on the free list, has no
  `IofArgument` source; continuation cells hold WF snapshots; three size facts about the 2-bit map;
* `ExtCodeLaws ext` — builtins / `eval`'s compiler / VPUSH (parameters of the concrete model) keep that;
* the machine is `gops ext`: `concreteOps ext` whose `callee` answers `other` when a closure / bare-lambda
  callee does not designate a lambda cell holding procedure code. In a `CalleeOk` state its `step` is
  `concreteOps ext`'s (`step_gops`); `CalleeOk` is checked at every executed CALL / TCALL / ENTER by the
  `bytecode-verifier` stream. (Without it `CodeLaws.callee_closure` / `callee_lambda` are false for
  `concreteOps`: the entry lambda of an evaluation is a heap cell too.) -/

section Concrete
open Marwood.Vm.Concrete

/-- WF-stack is invariant under one instruction **of the concrete machine** in a `CalleeOk` state -/
theorem step_preserves_concrete (ext : ExtOps) (ecl : ExtCodeLaws ext) {s s' : St CHeap} {K : List FDesc}
    (hok : CalleeOk s) (hw : WFS (concreteLaws ext ecl) s K)
    (hs : step (concreteOps ext) s = .ok (s', false)) :
    ∃ K', WFS (concreteLaws ext ecl) s' K' ∧ KStep (gops ext) s s' K K' := by
  rw [← step_gops ext hok] at hs
  exact step_preserves hw hs

/-- HALT of the concrete machine in a WF state: `sp` is back at the entry stack pointer 0 -/
theorem step_halt_concrete (ext : ExtOps) (ecl : ExtCodeLaws ext) {s s' : St CHeap} {K : List FDesc}
    (hok : CalleeOk s) (hw : WFS (concreteLaws ext ecl) s K)
    (hs : step (concreteOps ext) s = .ok (s', true)) : s'.stack = s.stack ∧ s.stack.sp = 0 := by
  rw [← step_gops ext hok] at hs
  exact step_halt hw hs

/-- **T04.5 on the concrete machine**: loops of tail calls with arbitrary verified bodies run in the same
    frame slot; `sp` at the loop head depends on the frame's base and the head's arity only.
    Hypotheses: `ExtCodeLaws ext` and WF-stack of the FIRST state (`CInv` of its heap included). -/
theorem tail_loop_sp_concrete (ext : ExtOps) (ecl : ExtCodeLaws ext) {D : FDesc} {R : List FDesc} {n : Nat}
    {s s' : St CHeap} (hl : TailLoop (gops ext) D.base n s s')
    (hw : WFS (concreteLaws ext ecl) s (D :: R)) (hh : AtHead s D.base) :
    ∃ arity, s'.stack.cellAt (s'.bp + 1) = .argc arity ∧ s'.stack.sp = D.base + arity + 3 :=
  tail_loop_sp (concreteLaws ext ecl) hl hw hh

/-! ### on the REAL machine: no guard, no per-step `CalleeOk`

`Lemmas/StackDiscOfWFS.lean`: on a state satisfying the heap-simulation invariant `GoodI`, a successful instruction
of `concreteOps ext` is the same instruction of the guarded machine `vops ext` the generic WF-stack theorems run on
(`step_vops`), and `VmOk = GoodI ∧ WFS` is preserved (`vmOk_step`). So a loop of tail calls **of the real
machine** is a loop of tail calls of `vops ext`, and T04.5 applies. Hypotheses: the laws of the unmodelled parts,
`GoodI` and WF-stack (value-typed verifier) of the FIRST state, the size bound and the callee guard at call sites
along the run (`CalleeOkAlong`, oracle `callee-ok` of the `bytecode-verifier` stream). -/

open Marwood.Lemmas.Good Marwood.Lemmas.Sim in
/-- one successful instruction of the real machine, seen on the guarded machine, with the invariants -/
theorem step_to_vops {ext : ExtOps} {ecl : ExtCodeLawsV ext} (force : Bool) (el : ExtLaws ext) (eg : ExtGood ext)
    {s0 s s' : St CHeap} (sb : SizeBounded (machine ext force) s0) (ca : CalleeOkAlong (machine ext force) s0)
    (hr : Reaches (machine ext force) s0 s) (h : VmOk ext ecl s)
    (hs : step (concreteOps ext) s = .ok (s', false)) :
    step (vops ext) s = .ok (s', false) ∧ Reaches (machine ext force) s0 s' ∧ VmOk ext ecl s' := by
  have hr' : Reaches (machine ext force) s0 s' := by
    refine .next hr ?_
    show vmStep (concreteOps ext) s = .next s'
    unfold vmStep; rw [hs]
  exact ⟨step_vops eg h.1 (ca s hr) hs (sb s' hr'), hr', vmOk_step el eg h (ca s hr) (sb s hr) hs (sb s' hr')⟩

open Marwood.Lemmas.Good Marwood.Lemmas.Sim in
theorem trace_to_vops {ext : ExtOps} {ecl : ExtCodeLawsV ext} (force : Bool) (el : ExtLaws ext) (eg : ExtGood ext)
    {s0 : St CHeap} (sb : SizeBounded (machine ext force) s0) (ca : CalleeOkAlong (machine ext force) s0)
    {base : Nat} {s t : St CHeap} (htr : Trace (concreteOps ext) base s t) :
    Reaches (machine ext force) s0 s → VmOk ext ecl s →
      Trace (vops ext) base s t ∧ Reaches (machine ext force) s0 t ∧ VmOk ext ecl t := by
  induction htr with
  | nil s => intro hr h; exact ⟨.nil s, hr, h⟩
  | @cons s s1 t hnc hst hsp _ ih =>
    intro hr h
    obtain ⟨hv, hr1, h1⟩ := step_to_vops force el eg sb ca hr h hst
    obtain ⟨t1, t2, t3⟩ := ih hr1 h1
    refine ⟨.cons ?_ hv hsp t1, t2, t3⟩
    intro c hc
    exact hnc c (gcallee_cont hc)

open Marwood.Lemmas.Good Marwood.Lemmas.Sim in
theorem tailLoop_to_vops {ext : ExtOps} {ecl : ExtCodeLawsV ext} (force : Bool) (el : ExtLaws ext) (eg : ExtGood ext)
    {s0 : St CHeap} (sb : SizeBounded (machine ext force) s0) (ca : CalleeOkAlong (machine ext force) s0)
    {base n : Nat} {s s' : St CHeap} (hl : TailLoop (concreteOps ext) base n s s') :
    Reaches (machine ext force) s0 s → VmOk ext ecl s → TailLoop (vops ext) base n s s' := by
  induction hl with
  | zero s => intro _ _; exact .zero s
  | @succ n s t t1 u s1 s2 lam env htr hro hb hc hst hpro _ ih =>
    intro hr h
    obtain ⟨tr, hrt, ht⟩ := trace_to_vops force el eg sb ca htr hr h
    obtain ⟨hv, hru, hu⟩ := step_to_vops force el eg sb ca hrt ht hst
    have hsite : CalleeSite t := .inr (.inl (readOpcode_inv hro).2)
    have hcv : (vops ext).callee t.heap t.acc = .closure lam env := by
      show gcallee t.heap t.acc = _
      rw [ca t hrt hsite]; exact hc
    cases hpro with
    | @enter u1 _ he hse =>
      obtain ⟨hv2, hr2, h2⟩ := step_to_vops force el eg sb ca hru hu hse
      exact .succ tr hro hb hcv hv (.enter he hv2) (ih hr2 h2)
    | @vararg u1 v v1 _ hva hsv he hse =>
      obtain ⟨hv2, hr2, h2⟩ := step_to_vops force el eg sb ca hru hu hsv
      obtain ⟨hv3, hr3, h3⟩ := step_to_vops force el eg sb ca hr2 h2 hse
      exact .succ tr hro hb hcv hv (.vararg hva hv2 he hv3) (ih hr3 h3)

open Marwood.Lemmas.Good Marwood.Lemmas.Sim in
/-- **T04.5 on the real machine** (`run_one` over `concreteOps ext`, no guard): loops of tail calls with arbitrary
    verified bodies run in the same frame slot; `sp` at the loop head depends on the frame's base and the head's
    arity only. -/
theorem tail_loop_sp_machine (ext : ExtOps) (force : Bool) (el : ExtLaws ext) (eg : ExtGood ext)
    (ecl : ExtCodeLawsV ext) {D : FDesc} {R : List FDesc} {n : Nat} {s s' : St CHeap}
    (hl : TailLoop (concreteOps ext) D.base n s s') (g : GoodI s)
    (hw : WFS (concreteLawsV ext ecl) s (D :: R)) (hh : AtHead s D.base)
    (sb : SizeBounded (machine ext force) s) (ca : CalleeOkAlong (machine ext force) s) :
    ∃ arity, s'.stack.cellAt (s'.bp + 1) = .argc arity ∧ s'.stack.sp = D.base + arity + 3 :=
  tail_loop_sp (concreteLawsV ext ecl)
    (tailLoop_to_vops force el eg sb ca hl (.refl s) ⟨g, .inl ⟨_, hw⟩⟩) hw hh

/-- one instruction of the real machine preserves WF-stack over the value-typed verifier (and `GoodI`) -/
theorem step_preserves_machine (ext : ExtOps) (el : Marwood.Lemmas.Sim.ExtLaws ext)
    (eg : Marwood.Lemmas.Good.ExtGood ext) (ecl : ExtCodeLawsV ext)
    {s s' : St CHeap} {K : List FDesc} (g : Marwood.Lemmas.Good.GoodI s) (hw : WFS (concreteLawsV ext ecl) s K)
    (hc : Marwood.Lemmas.Good.CalleeSite s → CalleeOk s) (sm : Marwood.Lemmas.Good.Small s.heap)
    (hs : step (concreteOps ext) s = .ok (s', false)) (sm' : Marwood.Lemmas.Good.Small s'.heap) :
    Marwood.Lemmas.Good.GoodI s' ∧ ∃ K', WFS (concreteLawsV ext ecl) s' K' ∧ KStep (vops ext) s s' K K' :=
  ⟨(Marwood.Lemmas.Good.vmOk_step el eg ⟨g, .inl ⟨K, hw⟩⟩ hc sm hs sm').1,
    step_preserves hw (Marwood.Lemmas.Good.step_vops eg g hc hs sm')⟩

/-! ### on the REAL machine, without `CalleeOkAlong`

`Lemmas/ProcInvMain.lean`: the callee guard passes in every reachable state, because the two clauses `PInv` — every
closure cell's lambda is procedure code, no value points to entry code — are an invariant of the real machine
(`vmOkP_reaches`, `calleeOkAlong_of_vmOk`). -/

open Marwood.Lemmas.Good Marwood.Lemmas.Sim in
/-- **T04.5 on the real machine, closed**: hypotheses are the laws of the unmodelled parts, `GoodI`, WF-stack (value-typed
    verifier) and `PInv` of the FIRST state, and the size bound. -/
theorem tail_loop_sp_closed (ext : ExtOps) (force : Bool) (el : ExtLaws ext) (eg : ExtGood ext)
    (ecl : ExtCodeLawsV ext) (ep : ExtProc ext) {D : FDesc} {R : List FDesc} {n : Nat} {s s' : St CHeap}
    (hl : TailLoop (concreteOps ext) D.base n s s') (g : GoodI s)
    (hw : WFS (concreteLawsV ext ecl) s (D :: R)) (p0 : PInv s) (hh : AtHead s D.base)
    (sb : SizeBounded (machine ext force) s) :
    ∃ arity, s'.stack.cellAt (s'.bp + 1) = .argc arity ∧ s'.stack.sp = D.base + arity + 3 :=
  tail_loop_sp_machine ext force el eg ecl hl g hw hh sb
    (calleeOkAlong_of_vmOk force el eg ep ⟨g, .inl ⟨_, hw⟩⟩ p0 sb)

open Marwood.Lemmas.Good in
/-- one instruction of the real machine preserves `GoodI`, WF-stack over the value-typed verifier and `PInv`; no
    side condition on the callee -/
theorem step_preserves_closed (ext : ExtOps) (el : Marwood.Lemmas.Sim.ExtLaws ext)
    (eg : ExtGood ext) (ecl : ExtCodeLawsV ext) (ep : ExtProc ext)
    {s s' : St CHeap} {K : List FDesc} (g : GoodI s) (hw : WFS (concreteLawsV ext ecl) s K) (p : PInv s)
    (sm : Small s.heap) (hs : step (concreteOps ext) s = .ok (s', false)) (sm' : Small s'.heap) :
    GoodI s' ∧ PInv s' ∧ ∃ K', WFS (concreteLawsV ext ecl) s' K' ∧ KStep (vops ext) s s' K K' := by
  have hc : CalleeSite s → CalleeOk s := fun _ => calleeOk_of_pinv g p
  have h := step_preserves_machine ext el eg ecl g hw hc sm hs sm'
  exact ⟨h.1, (vmOkP_step el eg ep (ecl := ecl) ⟨⟨g, .inl ⟨K, hw⟩⟩, p⟩ sm hs sm').2, h.2⟩

end Concrete

/-! ## T04.6: the compiler model emits only code the bytecode verifier accepts

The machine-level theorems above (and those of C03/C05/C07/C13) start from "every lambda cell of the heap passes
the verifier" (`CInv.lamVer`). For the code objects of the **compiler model** this is now a theorem: for every
datum and every fuel, whatever `compileTop` returns — the top-level lambda `ENTER <expr, tail> RET` and every
code object `[VARARG] ENTER <body> RET` in the table, for all forms the model handles (define in both shapes,
lambda incl. rest parameters and internal definitions, if with one or two arms, set!, quote, quasiquote with
unquote, nested quasiquote and vector templates, applications with CALL / TCALL) — is accepted by `verify`, in
the canonical loading `encodeLam` and in every other loading the verifier cannot tell apart (`Enc`), with the
same abstract stack at every offset. Proof: `Lemmas/CompileBlk.lean` (the compiler emits structured code,
induction on the fuel), `Lemmas/VerifyBlk.lean` + `VerifyProc.lean` (the forward pass runs through structured
code), `Lemmas/VerifyInfer.lean` (the forward pass only returns assignments that pass the local check — for ALL
bytecode, not only compiled code). The driver command `vcompile` evaluates `Vm.verifyCompiled` on the forms of
the compiled-code comparison stream: the theorem says its answer is never `reject`. -/
section T04_6
open Marwood Marwood.Vm.Verify

/-- **T04.6** every code object the compiler model produces verifies (canonical loading) -/
theorem compile_verifies (e : Datum) (fuel : Nat) (st : CState) (lam : LambdaM)
    (h : compileTop e fuel = .ok (st, lam)) :
    (verifyLam (encodeLam lam)).isSome = true ∧ ∀ l ∈ st.lambdas, (verifyLam (encodeLam l)).isSome = true :=
  compileTop_verifies h

/-- … in every loading (`Enc`: any global slot, any environment slot, any data cell for a quoted datum, any
    address for a code object), as procedure code -/
theorem compile_verifies_loaded (e : Datum) (fuel : Nat) (st : CState) (lam : LambdaM)
    (h : compileTop e fuel = .ok (st, lam)) (l : LambdaM) (hl : l = lam ∨ l ∈ st.lambdas)
    (cells : List VCell) (he : EncList l.bc cells) :
    ∃ t, verifyLam cells = some t ∧ t.entry = false ∧ t.bc = cells :=
  compileTop_verifies_loaded h l hl cells he

/-- the verdict depends only on what the loading preserves: all loadings of a compiled code object get the
    same typing `tm` and the same maximal number of temporaries `k` -/
theorem verify_encode_irrelevant (e : Datum) (fuel : Nat) (st : CState) (lam : LambdaM)
    (h : compileTop e fuel = .ok (st, lam)) (l : LambdaM) (hl : l = lam ∨ l ∈ st.lambdas) :
    ∃ tm k, ∀ cells, EncList l.bc cells → verify cells = .ok (⟨false, cells, tm⟩, k) :=
  compileTop_verdict_irrelevant h l hl

/-- `compile_runnable`: procedure code for the table and the top-level lambda, entry code
    (`PUSHIMM argc0; MOVIMM λ acc; CALL; HALT`) for the entry lambda -/
theorem compile_runnable_verifies (e : Datum) (fuel : Nat) (st : CState) (lam ent : LambdaM)
    (h : compileRunnable e fuel = .ok (st, lam, ent)) :
    (∀ l, (l = lam ∨ l ∈ st.lambdas) → ∃ t, verifyLam (encodeLam l) = some t ∧ t.entry = false) ∧
    ∃ t, verifyLam (encodeLam ent) = some t ∧ t.entry = true :=
  compileRunnable_verifies h

/-- entry code in every loading -/
theorem entry_code_verifies (id : Nat) (cells : List VCell) (he : EncList (entryCode id) cells) :
    ∃ t, verifyLam cells = some t ∧ t.entry = true :=
  entry_verifyLam he

/-- what the driver answers to `vcompile` is never `reject` -/
theorem vcompile_never_rejects (e : Datum) (fuel : Nat) (r : Except Reject Nat)
    (h : verifyCompiled e fuel = .ok r) : ∃ n, r = .ok n :=
  verifyCompiled_ok h

/-- non-vacuity: `(lambda (x . r) (define y (g x)) (if x (f y) `(,x #(1 ,y))))` — a variadic lambda with an
    internal definition, an `if`, a tail call, a non-tail call, a quasiquote with a vector template. The
    compiler model accepts it, the table holds one code object whose calls are CALL, TCALL, CALL (`vector`),
    and everything verifies. -/
example :
    (match compileTop
      (Datum.ofList [.sym ['l','a','m','b','d','a'], .pair (.sym ['x']) (.sym ['r']),
        Datum.ofList [.sym ['d','e','f','i','n','e'], .sym ['y'], Datum.ofList [.sym ['g'], .sym ['x']]],
        Datum.ofList [.sym ['i','f'], .sym ['x'],
          Datum.ofList [.sym ['f'], .sym ['y']],
          Datum.ofList [.sym ['q','u','a','s','i','q','u','o','t','e'],
            Datum.ofList [Datum.ofList [.sym ['u','n','q','u','o','t','e'], .sym ['x']],
              .vec (Datum.ofList [.num (.fix 1), Datum.ofList [.sym ['u','n','q','u','o','t','e'], .sym ['y']]])]]]]) 60 with
     | .ok (st, lam) =>
       (st.lambdas.map (fun l => (l.isVararg, callOps l.bc)), (verifyLam (encodeLam lam)).isSome,
        st.lambdas.all (fun l => (verifyLam (encodeLam l)).isSome))
     | .error _ => ([], false, false)) = ([(true, [false, true, false])], true, true) := by decide +kernel

/-- the loading relation of the compiler-correctness proofs (C01 T01.3, `CodeAt2`) is such a loading, once
    quoted data are known to be loaded as data cells: a lambda of the heap that `CodeAt2`-holds a code object
    of the compiler model passes the verifier -/
theorem compiled_code_loaded_by_codeAt2_verifies {H : Type} {ops : HeapOps H} {e : Datum} {fuel : Nat}
    {st : CState} {lam : LambdaM} (hc : compileTop e fuel = .ok (st, lam)) {m : LambdaM}
    (hm : m = lam ∨ m ∈ st.lambdas) {D : Marwood.Lemmas.CompileCorrect2.RepData2 ops} {h : H}
    {S : Array Marwood.Spec.Eval.Cell} {l : Nat} {cells : List VCell}
    (hcode : Marwood.Lemmas.CompileCorrect2.CodeAt2 D m.envmap h S l 0 m.bc) (hlen : cells.length = m.bc.length)
    (hcells : ∀ i : Nat, i < cells.length → ops.fetch h l i = cells[i]?)
    (hdata : ∀ (i : Nat) d v, m.bc[i]? = some (.datum d) → ops.fetch h l i = some v → dataCell v = true) :
    ∃ t, verifyLam cells = some t ∧ t.entry = false ∧ t.bc = cells :=
  codeAt2_verifies hc hm hcode hlen hcells hdata

open Marwood.Vm.Concrete Marwood.Lemmas.Good in
/-- the four code clauses of the machine invariants (`CInv.lamVer`, `CInv.noIofArg`, `CInv.lamArgs`, `LamOk`)
    for every lambda object that is a loading of a code object `compile_runnable` produces (table, top-level
    lambda, entry lambda) -/
theorem compiled_lambda_clauses {e : Datum} {fuel : Nat} {cl : CLambda} (h : CompiledFor e fuel cl) :
    (verifyLam cl.bc).isSome = true ∧ (∀ x ∈ cl.envmap, ∀ n, x.2 ≠ Concrete.Source.iofArg n) ∧
      argNeed cl.bc ≤ cl.args.length ∧ LamOk cl :=
  compiledFor_ok h

open Marwood.Vm.Concrete Marwood.Lemmas.Good in
/-- the code half of "`prepare_eval` re-establishes the invariant": a heap that differs from a `CInv` heap by
    allocated lambda cells holding loaded output of the compiler model (`GrowsL`: the allocation facts of `put`
    are hypotheses) satisfies `CInv` again, keeps all old code, and keeps `LamAll` -/
theorem compiled_install_keeps_cinv {V : VCell → Prop} {e : Datum} {fuel : Nat} {h h' : CHeap}
    (inv : CInvG V h) (g : GrowsL (CompiledFor e fuel) h h') :
    CInvG V h' ∧ (∀ l bc, codeC h l = some bc → codeC h' l = some bc) ∧ (LamAll h → LamAll h') :=
  compiled_install inv g

open Marwood.Vm.Concrete in
/-- non-vacuity of `CompiledFor`: the canonical loading of the top-level lambda of `(f)` -/
example : ∃ cl, CompiledFor (Datum.ofList [.sym ['f']]) 20 cl := by
  have h : (match compileRunnable (Datum.ofList [.sym ['f']]) 20 with | .ok _ => true | .error _ => false) = true := by
    decide +kernel
  cases h' : compileRunnable (Datum.ofList [.sym ['f']]) 20 with
  | error err => rw [h'] at h; cases h
  | ok r =>
    obtain ⟨st, lam, ent⟩ := r
    refine ⟨⟨encodeLam lam, [], List.replicate lam.envmap.length (.undefined, .internal)⟩, st, lam, ent, lam, h', .inl rfl,
      ⟨encList_encode _, fun y hy n hn => ?_, List.length_replicate⟩⟩
    rw [(List.mem_replicate.mp hy).2] at hn
    cases hn

end T04_6

end Marwood.Proofs.C04
