import Marwood.Lemmas.TCall
import Marwood.Lemmas.CompileTail
/-!
# C04 — calls in tail position run in constant stack space (instruction level)

Theorems about `Marwood.Vm.stepTCall` / `stepEnter` (the model of TCALL and ENTER in run.rs,
tied to the code by lock-step replay), for every heap and every state satisfying the frame
layout `args…, argc, ep, ip, bp` that CALL/ENTER establish.
-/
namespace Marwood.Proofs.C04
open Marwood.Vm Marwood.Vm.Stack

variable {H : Type}

@[simp] theorem bind_ok {α β : Type} (a : α) (f : α → Outcome β) : (Outcome.ok a >>= f) = f a := rfl

/-- The stack at a TCALL executed inside a frame: the frame header sits at `bp+1 … bp+4`
    (`argc fa`, saved `ep`, saved `ip`, saved `bp`), the `n` operands of the tail call and their
    count are the topmost cells, above the header. -/
structure AtTCall (s : St H) (fa n : Nat) (E I : VCell) (B : Nat) : Prop where
  cap : s.stack.sp < s.stack.cells.length
  fargc : s.stack.cellAt (s.bp + 1) = .argc fa
  sep : s.stack.cellAt (s.bp + 2) = E
  sip : s.stack.cellAt (s.bp + 3) = I
  sbp : s.stack.cellAt (s.bp + 4) = .basePtr B
  top : s.stack.cellAt s.stack.sp = .argc n
  room : s.bp + 4 + n < s.stack.sp
  base : fa ≤ s.bp

/-- What the frame looks like when TCALL has finished (before the callee's ENTER):
    it starts where the replaced frame started, holds the new operands, and still carries the
    replaced frame's saved `ep` / `ip`; `bp` is the replaced frame's saved `bp`. -/
structure Replaced (s s' : St H) (fa n : Nat) (E I : VCell) (B lam : Nat) : Prop where
  sp : s'.stack.sp = s.bp - fa + n + 3
  cap : s'.stack.sp < s'.stack.cells.length
  args : ∀ j, j < n → s'.stack.cellAt (s.bp - fa + 1 + j) = s.stack.cellAt (s.stack.sp - n + j)
  argc : s'.stack.cellAt (s.bp - fa + n + 1) = .argc n
  sep : s'.stack.cellAt (s.bp - fa + n + 2) = E
  sip : s'.stack.cellAt (s.bp - fa + n + 3) = I
  below : ∀ i, i + fa ≤ s.bp → s'.stack.cellAt i = s.stack.cellAt i
  bp : s'.bp = B
  ip : s'.ipL = lam ∧ s'.ipO = 0
  rest : s'.heap = s.heap ∧ s'.ep = s.ep ∧ s'.acc = s.acc

/-- T04.1 (both branches): a tail call to a closure rewrites the current frame in place. -/
theorem tcall_replaces_frame (ops : HeapOps H) (s : St H) (fa n : Nat) (E I : VCell) (B lam env : Nat)
    (hc : ops.callee s.heap s.acc = .closure lam env) (hf : AtTCall s fa n E I B) :
    ∃ s', stepTCall ops s = .ok s' ∧ Replaced s s' fa n E I B lam := by
  have hcap := hf.cap
  unfold stepTCall
  rw [hc]
  simp only
  have hg0 : s.stack.getOffset 0 = .ok (.argc n) := by
    have := getOffset_neg s.stack 0 (Nat.zero_le _) hcap
    simpa [hf.top] using this
  have hg1 : s.stack.get (s.bp + 1) = .ok (.argc fa) := by
    rw [get_of_lt _ _ (by have := hf.room; omega), hf.fargc]
  have hg2 : s.stack.get (s.bp + 2) = .ok E := by
    rw [get_of_lt _ _ (by have := hf.room; omega), hf.sep]
  have hg3 : s.stack.get (s.bp + 3) = .ok I := by
    rw [get_of_lt _ _ (by have := hf.room; omega), hf.sip]
  have hg4 : s.stack.get (s.bp + 4) = .ok (.basePtr B) := by
    rw [get_of_lt _ _ (by have := hf.room; omega), hf.sbp]
  simp only [hg0, hg1, hg4, bind_ok, asArgc, asBp, Bind.bind]
  by_cases heq : n = fa
  · -- equal argument counts: copy in place
    subst heq
    simp only [if_true]
    obtain ⟨st', h1, h2, h3, h4, h5⟩ :=
      tcallCopySame_spec n 0 s.bp s.stack hcap (by have := hf.base; omega) (by have := hf.room; omega)
    simp only [h1, hg4]
    refine ⟨_, rfl, ?_⟩
    have hroom := hf.room
    have hbase := hf.base
    refine ⟨by simp; omega, by simp; omega, ?_, ?_, ?_, ?_, ?_, rfl, ⟨rfl, rfl⟩, ⟨rfl, rfl, rfl⟩⟩
    · intro j hj
      have := h4 (n - 1 - j) (by omega)
      simp only [Nat.sub_zero] at this
      have e1 : s.bp - (n - 1 - j) = s.bp - n + 1 + j := by omega
      have e2 : s.stack.sp - 1 - (n - 1 - j) = s.stack.sp - n + j := by omega
      rw [e1, e2] at this
      exact this
    · have := h5 (s.bp + 1) (.inr (by omega))
      have e : s.bp - n + n + 1 = s.bp + 1 := by omega
      simp only [e]; rw [show (Stack.cellAt { cells := st'.cells, sp := s.bp + 3 } (s.bp + 1)) = st'.cellAt (s.bp + 1) from rfl, this, hf.fargc]
    · have := h5 (s.bp + 2) (.inr (by omega))
      have e : s.bp - n + n + 2 = s.bp + 2 := by omega
      simp only [e]; rw [show (Stack.cellAt { cells := st'.cells, sp := s.bp + 3 } (s.bp + 2)) = st'.cellAt (s.bp + 2) from rfl, this, hf.sep]
    · have := h5 (s.bp + 3) (.inr (by omega))
      have e : s.bp - n + n + 3 = s.bp + 3 := by omega
      simp only [e]; rw [show (Stack.cellAt { cells := st'.cells, sp := s.bp + 3 } (s.bp + 3)) = st'.cellAt (s.bp + 3) from rfl, this, hf.sip]
    · intro i hi
      exact h5 i (.inl (by omega))
  · -- different argument counts: rebuild the frame from its base
    simp only [heq, if_false, hg2, hg3, hg4]
    have hbase := hf.base
    have hroom := hf.room
    simp only [usub, hbase, if_true]
    obtain ⟨st', h1, h2, h3, h4, h5, h6⟩ :=
      tcallCopyDiff_spec n s.stack.sp { s.stack with sp := s.bp - fa } hcap (by simp; omega)
    simp only at h1 h2 h4 h5 h6
    simp only [h1]
    refine ⟨_, rfl, ?_⟩
    refine ⟨by simp [h2], push_sp_lt _ _, ?_, ?_, ?_, ?_, ?_, rfl, ⟨rfl, rfl⟩, ⟨rfl, rfl, rfl⟩⟩
    · intro j hj
      simp only [push_cellAt, push_sp, h2]
      have n1 : ¬ (s.bp - fa + 1 + j = s.bp - fa + n + 1 + 1 + 1) := by omega
      have n2 : ¬ (s.bp - fa + 1 + j = s.bp - fa + n + 1 + 1) := by omega
      have n3 : ¬ (s.bp - fa + 1 + j = s.bp - fa + n + 1) := by omega
      simp only [n1, n2, n3, if_false]
      exact h4 j hj
    · simp only [push_cellAt, push_sp, h2]
      have n1 : ¬ (s.bp - fa + n + 1 = s.bp - fa + n + 1 + 1 + 1) := by omega
      have n2 : ¬ (s.bp - fa + n + 1 = s.bp - fa + n + 1 + 1) := by omega
      simp [n1, n2]
    · simp only [push_cellAt, push_sp, h2]
      have n1 : ¬ (s.bp - fa + n + 2 = s.bp - fa + n + 1 + 1 + 1) := by omega
      have n2 : (s.bp - fa + n + 2 = s.bp - fa + n + 1 + 1) := by omega
      simp [n1, n2]
    · simp only [push_cellAt, push_sp, h2]
      have n1 : (s.bp - fa + n + 3 = s.bp - fa + n + 1 + 1 + 1) := by omega
      simp [n1]
    · intro i hi
      simp only [push_cellAt, push_sp, h2]
      have n1 : ¬ (i = s.bp - fa + n + 1 + 1 + 1) := by omega
      have n2 : ¬ (i = s.bp - fa + n + 1 + 1) := by omega
      have n3 : ¬ (i = s.bp - fa + n + 1) := by omega
      simp only [n1, n2, n3, if_false]
      exact h5 i (by omega)


/-- ENTER on a frame as TCALL (or CALL) left it: pushes the saved `bp` and makes the last operand
    the new frame base. -/
theorem enter_completes_frame (ops : HeapOps H) (s : St H) (n lam env : Nat) (h' : H) (e' : Nat)
    (hc : ops.callee s.heap s.acc = .closure lam env)
    (hi : ops.lambdaInfo s.heap lam = some ⟨n⟩)
    (hcap : s.stack.sp < s.stack.cells.length) (hsp : 3 ≤ s.stack.sp)
    (hargc : s.stack.cellAt (s.stack.sp - 2) = .argc n)
    (hact : ∀ st bp, ops.makeActivation s.heap lam env bp st = .ok (h', e')) :
    ∃ s', stepEnter ops s = .ok s' ∧ s'.stack.sp = s.stack.sp + 1 ∧ s'.bp + 3 = s.stack.sp ∧
      s'.stack.cellAt (s.stack.sp + 1) = .basePtr s.bp ∧
      (∀ i, i ≤ s.stack.sp → s'.stack.cellAt i = s.stack.cellAt i) ∧
      s'.stack.sp < s'.stack.cells.length ∧
      s'.ep = e' ∧ s'.ipL = s.ipL ∧ s'.ipO = s.ipO ∧ s'.acc = s.acc := by
  unfold stepEnter
  rw [hc]
  simp only [bind_ok, Bind.bind, hi]
  have e : (-2 : Int) = -((2 : Nat) : Int) := by omega
  rw [e, getOffset_neg s.stack 2 (by omega) hcap, hargc]
  simp only [asArgc, ne_eq, not_true_eq_false, if_false, usub, push_sp]
  have h4 : 4 ≤ s.stack.sp + 1 := by omega
  simp only [h4, if_true, hact]
  refine ⟨_, rfl, by simp, by simp; omega, ?_, ?_, push_sp_lt _ _, rfl, rfl, rfl, rfl⟩
  · simp [push_cellAt]
  · intro i hi'
    simp only [push_cellAt]
    have : ¬ (i = s.stack.sp + 1) := by omega
    simp [this]

/-- the part of a frame that must survive a loop: where it starts and whom it returns to -/
structure FrameId (s : St H) (base : Nat) (E I : VCell) (B : Nat) : Prop where
  argc : ∃ n, s.stack.cellAt (s.bp + 1) = .argc n ∧ s.bp + 1 = base + n
  sep : s.stack.cellAt (s.bp + 2) = E
  sip : s.stack.cellAt (s.bp + 3) = I
  sbp : s.stack.cellAt (s.bp + 4) = .basePtr B

/-- T04.1 + ENTER = one iteration of a tail-recursive loop (self or mutual, equal or different
    arity): the callee's frame starts at the same stack index as the frame it replaces, returns to
    the same caller, leaves everything below untouched, and the stack pointer on entry is
    `base + arity + 3` — a function of the callee's arity only, not of how many tail calls came
    before. -/
theorem tail_call_iteration (ops : HeapOps H) (s : St H) (fa n : Nat) (E I : VCell)
    (B lam env base : Nat) (h' : H) (e' : Nat)
    (hc : ops.callee s.heap s.acc = .closure lam env)
    (hi : ops.lambdaInfo s.heap lam = some ⟨n⟩)
    (hf : AtTCall s fa n E I B) (hbase : s.bp + 1 = base + fa)
    (hact : ∀ st bp, ops.makeActivation s.heap lam env bp st = .ok (h', e')) :
    ∃ s1 s2, stepTCall ops s = .ok s1 ∧ stepEnter ops s1 = .ok s2 ∧
      FrameId s2 base E I B ∧ s2.stack.sp = base + n + 3 ∧
      (∀ i, i < base → s2.stack.cellAt i = s.stack.cellAt i) ∧
      (∀ j, j < n → s2.stack.cellAt (base + j) = s.stack.cellAt (s.stack.sp - n + j)) := by
  obtain ⟨s1, h1, r⟩ := tcall_replaces_frame ops s fa n E I B lam env hc hf
  have hb : s.bp - fa + 1 = base := by have := hf.base; omega
  have hsp1 : s1.stack.sp = base + n + 2 := by rw [r.sp]; omega
  have hc1 : ops.callee s1.heap s1.acc = .closure lam env := by rw [r.rest.1, r.rest.2.2]; exact hc
  have hi1 : ops.lambdaInfo s1.heap lam = some ⟨n⟩ := by rw [r.rest.1]; exact hi
  have hargc1 : s1.stack.cellAt (s1.stack.sp - 2) = .argc n := by
    have := r.argc
    have e : s.bp - fa + n + 1 = s1.stack.sp - 2 := by omega
    rw [e] at this; exact this
  obtain ⟨s2, h2, q1, q2, q3, q4, q5, _⟩ :=
    enter_completes_frame ops s1 n lam env h' e' hc1 hi1 r.cap (by omega) hargc1
      (by intro st bp; rw [r.rest.1]; exact hact st bp)
  have hbp2 : s2.bp = base + n - 1 := by omega
  refine ⟨s1, s2, h1, h2, ?_, by omega, ?_, ?_⟩
  · refine ⟨⟨n, ?_, by omega⟩, ?_, ?_, ?_⟩
    · have := q4 (s2.bp + 1) (by omega)
      rw [this]
      have e : s2.bp + 1 = s.bp - fa + n + 1 := by omega
      rw [e]; exact r.argc
    · have := q4 (s2.bp + 2) (by omega)
      rw [this]
      have e : s2.bp + 2 = s.bp - fa + n + 2 := by omega
      rw [e]; exact r.sep
    · have := q4 (s2.bp + 3) (by omega)
      rw [this]
      have e : s2.bp + 3 = s.bp - fa + n + 3 := by omega
      rw [e]; exact r.sip
    · have e : s2.bp + 4 = s1.stack.sp + 1 := by omega
      rw [e, q3, r.bp]
  · intro i hi'
    rw [q4 i (by omega)]
    exact r.below i (by have := hf.base; omega)
  · intro j hj
    rw [q4 (base + j) (by omega)]
    have := r.args j hj
    have e : s.bp - fa + 1 + j = base + j := by omega
    rw [e] at this; exact this

theorem pop_spec (st st' : Stack) (v : VCell) (h : st.pop = .ok (v, st')) :
    st'.sp + 1 = st.sp ∧ st'.cells = st.cells ∧ v = st.cellAt st.sp := by
  unfold Stack.pop at h
  split at h
  · split at h
    · rename_i hp v' hv
      cases h
      refine ⟨by simp; omega, rfl, ?_⟩
      unfold Stack.cellAt; rw [hv]; rfl
    · cases h
  · cases h

theorem popN_spec : ∀ (k : Nat) (st st' : Stack) (vs : List VCell),
    popN k st = .ok (vs, st') → st'.sp + k = st.sp ∧ st'.cells = st.cells ∧ vs.length = k := by
  intro k
  induction k with
  | zero => intro st st' vs h; simp [popN] at h; rcases h with ⟨rfl, rfl⟩; simp
  | succ k ih =>
    intro st st' vs h
    simp only [popN, Bind.bind] at h
    cases hp : st.pop with
    | ok r =>
      obtain ⟨v, st1⟩ := r
      rw [hp] at h; simp only at h
      have p1 := pop_spec _ _ _ hp
      cases hq : popN k st1 with
      | ok r2 =>
        obtain ⟨vs2, st2⟩ := r2
        rw [hq] at h; simp only at h
        have p2 := ih _ _ _ hq
        cases h
        refine ⟨by omega, by rw [p2.2.1, p1.2.1], by simp [p2.2.2]⟩
      | err e => rw [hq] at h; cases h
      | panic m => rw [hq] at h; cases h
    | err e => rw [hp] at h; cases h
    | panic m => rw [hp] at h; cases h

/-- T04.1, builtin target: a (tail) call of an ordinary builtin consumes the argument count and
    exactly that many operands and pushes nothing: no stack growth, whatever the builtin does. -/
theorem builtin_call_pops (ops : HeapOps H) (s : St H) (id : Nat) (s' : St H) (v : VCell)
    (hr : builtinGeneric ops id s = .ok (s', v)) :
    ∃ n, s.stack.cellAt s.stack.sp = .argc n ∧ s'.stack.sp + n + 1 = s.stack.sp ∧
      s'.stack.cells = s.stack.cells := by
  unfold builtinGeneric at hr
  simp only [Bind.bind] at hr
  cases hp : s.stack.pop with
  | ok r =>
    obtain ⟨a, st1⟩ := r
    rw [hp] at hr; simp only at hr
    have p1 := pop_spec _ _ _ hp
    cases a with
    | argc n =>
      simp only [asArgc] at hr
      cases hq : popN n st1 with
      | ok r2 =>
        obtain ⟨vs, st2⟩ := r2
        rw [hq] at hr; simp only at hr
        have p2 := popN_spec _ _ _ _ hq
        cases hb : ops.builtinEval s.heap id vs with
        | ok hv =>
          rw [hb] at hr; simp only at hr
          cases hr
          exact ⟨n, p1.2.2.symm, by simp; omega, by simp [p2.2.1, p1.2.1]⟩
        | err e => rw [hb] at hr; cases hr
        | panic m => rw [hb] at hr; cases hr
      | err e => rw [hq] at hr; cases hr
      | panic m => rw [hq] at hr; cases hr
    | _ => simp [asArgc] at hr
  | err e => rw [hp] at hr; cases hr
  | panic m => rw [hp] at hr; cases hr

/-! ### T04.2: the compiler emits TCALL exactly for the calls in tail position (R7RS 3.5, core forms) -/

open Marwood Marwood.Spec in
/-- For every expression the compiler accepts, in every binding context, at every code offset: the
    call instructions it emits are, in order, `TCALL` for exactly the calls that
    `Spec.tailCalls` (R7RS 3.5) marks as tail calls and `CALL` for all others. -/
theorem compile_tail_calls (fuel : Nat) (st : CState) (c : Ctx) (base : Nat) (tail : Bool) (e : Datum)
    (st' : CState) (code : List BC) (h : compileExpr fuel st c base tail e = .ok (st', code)) :
    callOps code = tailCalls fuel tail e :=
  (tailOK_all fuel).expr st c base tail e st' code h

open Marwood Marwood.Spec in
/-- lambda bodies: only the last body expression is compiled in tail position -/
theorem compile_body_tail_calls : ∀ (fuel : Nat) (st : CState) (c : Ctx) (base : Nat) (body : Datum)
    (st' : CState) (code : List BC), compileBody fuel st c base body = .ok (st', code) →
    callOps code = bodyCalls fuel body := by
  intro fuel
  induction fuel with
  | zero => intro st c base body st' code h; simp [compileBody] at h
  | succ fuel ih =>
    intro st c base body st' code h
    cases body with
    | pair x rest =>
      simp only [compileBody] at h
      cases h1 : compileExpr fuel st c base rest.isNil x with
      | error e => simp [h1] at h
      | ok r1 =>
        obtain ⟨st1, code1⟩ := r1
        simp only [h1] at h
        cases h2 : compileBody fuel st1 c (base + code1.length) rest with
        | error e => simp [h2] at h
        | ok r2 =>
          obtain ⟨st2, code2⟩ := r2
          simp only [h2] at h
          cases h
          simp [bodyCalls, compile_tail_calls _ _ _ _ _ _ _ _ h1, ih _ _ _ _ _ _ h2]
    | _ => simp only [compileBody] at h; cases h; simp [bodyCalls]

open Marwood Marwood.Spec in
/-- a call in tail position ends in TCALL, a call anywhere else in CALL -/
theorem application_call_op (fuel : Nat) (st : CState) (c : Ctx) (base : Nat) (tail : Bool)
    (proc rest : Datum) (st' : CState) (code : List BC)
    (hn : ∀ kw ∈ specialForms, proc.isSymStr kw = false)
    (h : compileExpr (fuel + 1) st c base tail (.pair proc rest) = .ok (st', code)) :
    code.getLast? = some (.op (if tail then .tcallAcc else .callAcc)) := by
  unfold compileExpr at h
  have k1 := hn ['d','e','f','i','n','e'] (by simp [specialForms])
  have k2 := hn ['d','e','f','i','n','e','-','s','y','n','t','a','x'] (by simp [specialForms])
  have k3 := hn ['l','a','m','b','d','a'] (by simp [specialForms])
  have k4 := hn ['λ'] (by simp [specialForms])
  have k5 := hn ['q','u','a','s','i','q','u','o','t','e'] (by simp [specialForms])
  have k6 := hn ['q','u','o','t','e'] (by simp [specialForms])
  have k7 := hn ['i','f'] (by simp [specialForms])
  have k8 := hn ['s','e','t','!'] (by simp [specialForms])
  simp only [k1, k2, k3, k4, k5, k6, k7, k8, Bool.false_eq_true, if_false, Bool.or_self] at h
  cases h1 : compileArgs fuel st c base rest with
  | error e => simp [h1] at h
  | ok r1 =>
    obtain ⟨st1, code1, n⟩ := r1
    simp only [h1] at h
    cases h2 : compileExpr fuel st1 c (base + code1.length + 2) false proc with
    | error e => simp [h2] at h
    | ok r2 =>
      obtain ⟨st2, pcode⟩ := r2
      simp only [h2] at h
      cases h
      rw [show (code1 ++ [BC.op Op.pushImm, BC.argc n] ++ pcode
                ++ [BC.op (if tail = true then Op.tcallAcc else Op.callAcc)])
            = (code1 ++ [BC.op Op.pushImm, BC.argc n] ++ pcode)
                ++ [BC.op (if tail = true then Op.tcallAcc else Op.callAcc)] from rfl]
      exact List.getLast?_concat

/-! ### non-vacuity -/

open Marwood Marwood.Spec in
example :
    (match compileExpr 10 {} ⟨[], []⟩ 1 true
      (Datum.ofList [.sym ['i','f'], .sym ['p'],
        Datum.ofList [.sym ['f'], Datum.ofList [.sym ['g']]],
        Datum.ofList [.sym ['h']]]) with
     | .ok (_, code) => callOps code
     | .error _ => []) = [false, true, true] := by decide +kernel

end Marwood.Proofs.C04
