import Marwood.Lemmas.Brackets
import Marwood.Lemmas.LexSpans
/-!
# C20 — the REPL highlighter marks exactly the matching bracket and nothing else

Property theorems only. Model: `Marwood.Highlight` (syntax.rs after the `#(` fix), scanner model
`Marwood.Lex`; specification: `Marwood.Spec.Brackets` (stack discipline).
-/
namespace Marwood.Proofs.C20
open Marwood Marwood.Spec

/-! ### helper facts local to the statements -/

theorem countIdx_lt (h w : TokType → Bool) : ∀ (l : List TokType) (n r : Nat),
    countIdx h w n l = some r → r < l.length := by
  intro l
  induction l with
  | nil => intro n r hr; simp [countIdx] at hr
  | cons t ts ih =>
    intro n r hr
    simp only [countIdx] at hr
    by_cases hw : w t = true
    · simp only [hw, if_true] at hr
      by_cases h0 : (if h t = true then n + 1 else n) = 0
      · simp only [h0, if_true] at hr; cases hr; simp
      · simp only [h0, if_false] at hr
        cases hx : countIdx h w ((if h t = true then n + 1 else n) - 1) ts with
        | none => simp [hx] at hr
        | some v => simp [hx] at hr; subst hr; have := ih _ _ hx; simp; omega
    · simp only [hw, Bool.false_eq_true, if_false] at hr
      cases hx : countIdx h w (if h t = true then n + 1 else n) ts with
      | none => simp [hx] at hr
      | some v => simp [hx] at hr; subst hr; have := ih _ _ hx; simp; omega

theorem countScan_mem_want (h w : TokType → Bool) : ∀ (ts : List Token) (n : Nat) (b : Token),
    countScan h w n ts = some b → b ∈ ts ∧ w b.ty = true := by
  intro ts
  induction ts with
  | nil => intro n b hb; simp [countScan] at hb
  | cons t ts ih =>
    intro n b hb
    simp only [countScan] at hb
    by_cases hw : w t.ty = true
    · simp only [hw, if_true] at hb
      by_cases h0 : (if h t.ty = true then n + 1 else n) = 0
      · simp only [h0, if_true] at hb; cases hb; exact ⟨by simp, hw⟩
      · simp only [h0, if_false] at hb
        have := ih _ _ hb; exact ⟨List.mem_cons_of_mem _ this.1, this.2⟩
    · simp only [hw, Bool.false_eq_true, if_false] at hb
      have := ih _ _ hb; exact ⟨List.mem_cons_of_mem _ this.1, this.2⟩

theorem findTokenAtIndexFrom_spec (i : Nat) : ∀ (ts : List Token) (k0 k : Nat) (t : Token),
    findTokenAtIndexFrom i k0 ts = some (k, t) →
      k0 ≤ k ∧ ts[k - k0]? = some t ∧ t.lo ≤ i ∧ i < t.hi := by
  intro ts
  induction ts with
  | nil => intro k0 k t h; simp [findTokenAtIndexFrom] at h
  | cons x xs ih =>
    intro k0 k t h
    simp only [findTokenAtIndexFrom] at h
    split at h
    · rename_i hc
      cases h
      simp at hc
      simp [hc.1, hc.2]
    · have := ih _ _ _ h
      refine ⟨by omega, ?_, this.2.2⟩
      have e : k - k0 = (k - (k0 + 1)) + 1 := by omega
      rw [e]; simpa using this.2.1

theorem findTokenAtCursor_spec {ts : List Token} {i k : Nat} {t : Token}
    (h : findTokenAtCursor ts i = some (k, t)) :
    ts[k]? = some t ∧ t.lo ≤ i ∧ i ≤ t.hi := by
  unfold findTokenAtCursor findTokenAtIndex at h
  split at h
  · rename_i p hp
    cases h
    have := findTokenAtIndexFrom_spec _ _ _ _ _ hp
    exact ⟨by simpa using this.2.1, this.2.2.1, by omega⟩
  · split at h
    · have := findTokenAtIndexFrom_spec _ _ _ _ _ h
      exact ⟨by simpa using this.2.1, by omega, by omega⟩
    · cases h

/-- every token of a lexed text sits on prefix-sum offsets -/
theorem Lexed.span_of_mem : ∀ {pos : Nat} {cs : Text} {ts : List Token}, Lexed pos cs ts →
    ∀ b ∈ ts, ∃ pre body post, cs = pre ++ body ++ post ∧ b.lo = pos + byteLen pre ∧
      b.hi = b.lo + byteLen body ∧ body ≠ [] := by
  intro pos cs ts h
  induction h with
  | done _ => intro b hb; simp at hb
  | @tok pos g body rest t ts hg hne hlo hhi _ ih =>
    intro b hb
    rcases List.mem_cons.mp hb with rfl | hb
    · exact ⟨g, body, rest, rfl, hlo, hhi, hne⟩
    · obtain ⟨pre, bd, post, he, h1, h2, h3⟩ := ih b hb
      refine ⟨g ++ body ++ pre, bd, post, by simp [he], ?_, h2, h3⟩
      rw [h1, hhi, hlo]; simp; omega

theorem slices_of_span {cs pre body post : Text} {b : Token} (he : cs = pre ++ body ++ post)
    (hlo : b.lo = byteLen pre) (hhi : b.hi = b.lo + byteLen body) :
    takeBytes b.lo cs = some pre ∧ sliceBytes b.lo b.hi cs = some body ∧
      dropBytes b.hi cs = some post := by
  subst he
  refine ⟨?_, ?_, ?_⟩
  · rw [hlo, List.append_assoc]; exact takeBytes_append _ _
  · rw [hhi, hlo]; exact sliceBytes_append _ _ _
  · have : b.hi = byteLen (pre ++ body) := by rw [hhi, hlo]; simp
    rw [this]; exact dropBytes_append _ _

/-! ### property theorems -/

/-- T20.2a: from an opening bracket at index `k` the forward counting scan returns the token at
    the stack-discipline partner of `k`. -/
theorem countScan_forward_eq_partner (ts : List Token) (k : Nat) (t : Token)
    (hk : ts[k]? = some t) (ho : t.ty.isOpen = true) :
    countScan TokType.isOpen TokType.isClose 0 (ts.drop (k+1))
      = (partner (ts.map (·.ty)) k).bind (fun j => ts[j]?) := by
  have hklt : k < ts.length := by
    rcases List.getElem?_eq_some_iff.mp hk with ⟨h, _⟩; exact h
  have hsplit : ts.map (·.ty) = (ts.take k).map (·.ty) ++ t.ty :: (ts.drop (k+1)).map (·.ty) := by
    rw [← List.map_cons (f := fun x : Token => x.ty), ← List.map_append]
    congr 1
    have : ts.drop k = t :: ts.drop (k+1) := by
      rw [List.drop_eq_getElem_cons hklt]
      have := List.getElem?_eq_some_iff.mp hk
      rw [this.2]
    rw [← this, List.take_append_drop]
  have hlen : ((ts.take k).map (·.ty)).length = k := by simp; omega
  rw [countScan_eq_countIdx]
  unfold partner
  have hty : (ts.map (·.ty))[k]? = some t.ty := by simp [hk]
  rw [hty]
  simp only [ho, if_true]
  unfold pairs
  rw [hsplit, pairsGo_append, hlen, Nat.zero_add]
  simp only [pairsGo, ho, if_true]
  rw [List.find?_append]
  have hnone : List.find? (fun p => p.1 == k) (pairsGo 0 [] ((ts.take k).map (·.ty))) = none := by
    rw [List.find?_eq_none]
    intro p hp
    have := (pairsGo_bounds _ _ _ _ hp).2
    rcases this with h | h
    · simp at h
    · rw [hlen] at h; simp; omega
  rw [hnone, Option.none_or]
  have hv : ValidStack (k+1) (k :: stackAfter 0 [] ((ts.take k).map (·.ty))) := by
    have := stackAfter_valid ((ts.take k).map (·.ty)) 0 [] ⟨List.Pairwise.nil, by simp⟩
    rw [hlen, Nat.zero_add] at this
    exact this.push
  have := pairsGo_find_fst ((ts.drop (k+1)).map (·.ty)) (k+1) _ 0 (by simp) hv
  simp only [List.getElem_cons_zero] at this
  rw [this]
  cases hc : countIdx TokType.isOpen TokType.isClose 0 ((ts.drop (k+1)).map (·.ty)) with
  | none => simp
  | some r => simp [List.getElem?_drop]

/-- T20.2b: from a closing bracket at index `k` the backward counting scan returns the token at
    the stack-discipline partner of `k`. -/
theorem countScan_backward_eq_partner (ts : List Token) (k : Nat) (t : Token)
    (hk : ts[k]? = some t) (hcl : t.ty.isClose = true) :
    countScan TokType.isClose TokType.isOpen 0 (ts.take k).reverse
      = (partner (ts.map (·.ty)) k).bind (fun j => ts[j]?) := by
  have hklt : k < ts.length := by
    rcases List.getElem?_eq_some_iff.mp hk with ⟨h, _⟩; exact h
  have hno : t.ty.isOpen = false := by
    cases h : t.ty <;> simp_all [TokType.isOpen, TokType.isClose]
  have hsplit : ts.map (·.ty) = (ts.take k).map (·.ty) ++ t.ty :: (ts.drop (k+1)).map (·.ty) := by
    rw [← List.map_cons (f := fun x : Token => x.ty), ← List.map_append]
    congr 1
    have : ts.drop k = t :: ts.drop (k+1) := by
      rw [List.drop_eq_getElem_cons hklt]
      have := List.getElem?_eq_some_iff.mp hk
      rw [this.2]
    rw [← this, List.take_append_drop]
  have hlen : ((ts.take k).map (·.ty)).length = k := by simp; omega
  rw [countScan_eq_countIdx]
  unfold partner
  have hty : (ts.map (·.ty))[k]? = some t.ty := by simp [hk]
  rw [hty]
  simp only [hno, hcl, if_true, Bool.false_eq_true, if_false]
  unfold pairs
  rw [hsplit, pairsGo_append, hlen, Nat.zero_add]
  simp only [pairsGo, hno, hcl, if_true, Bool.false_eq_true, if_false]
  rw [List.find?_append]
  have hnone : List.find? (fun p => p.2 == k) (pairsGo 0 [] ((ts.take k).map (·.ty))) = none := by
    rw [List.find?_eq_none]
    intro p hp
    have := (pairsGo_bounds _ _ _ _ hp).1
    rw [hlen] at this; simp; omega
  rw [hnone, Option.none_or]
  have hback := countIdx_backward ((ts.take k).map (·.ty)) 0
  rw [hlen] at hback
  have hrev : ((ts.take k).reverse.map (·.ty)) = ((ts.take k).map (·.ty)).reverse := by
    simp [List.map_reverse]
  rw [hrev]
  cases hS : stackAfter 0 [] ((ts.take k).map (·.ty)) with
  | nil =>
    rw [hS] at hback
    have hnone2 : List.find? (fun p => p.2 == k)
        (pairsGo (k+1) [] ((ts.drop (k+1)).map (·.ty))) = none := by
      rw [List.find?_eq_none]
      intro p hp
      have := (pairsGo_bounds _ _ _ _ hp).1
      simp; omega
    simp only [hnone2, Option.map_none, Option.bind_none]
    cases hc : countIdx TokType.isClose TokType.isOpen 0 ((ts.take k).map (·.ty)).reverse with
    | none => simp
    | some r => rw [hc] at hback; simp at hback
  | cons o S' =>
    rw [hS] at hback
    simp only [List.find?_cons_of_pos, beq_self_eq_true, Option.map_some, Option.bind_some]
    cases hc : countIdx TokType.isClose TokType.isOpen 0 ((ts.take k).map (·.ty)).reverse with
    | none => rw [hc] at hback; simp at hback
    | some r =>
      rw [hc] at hback
      simp at hback
      have hr := countIdx_lt _ _ _ _ _ hc
      simp at hr
      have hrk : r < k := by omega
      simp only [Option.bind_some]
      rw [List.getElem?_reverse (by simp; omega)]
      simp only [List.length_take]
      rw [List.getElem?_take_of_lt (by omega)]
      congr 1
      omega

/-- T20.2: `find_matching_bracket` is the stack-discipline partner, for every token list and
    every cursor token. -/
theorem findMatchingBracket_eq_partner (ts : List Token) (k : Nat) (t : Token)
    (hk : ts[k]? = some t) :
    findMatchingBracket ts k t = (partner (ts.map (·.ty)) k).bind (fun j => ts[j]?) := by
  unfold findMatchingBracket
  by_cases hc : t.ty.isClose = true
  · simp only [hc, if_true]; exact countScan_backward_eq_partner ts k t hk hc
  · by_cases ho : t.ty.isOpen = true
    · simp only [hc, ho, if_true, Bool.false_eq_true, if_false]
      exact countScan_forward_eq_partner ts k t hk ho
    · simp only [hc, ho, Bool.false_eq_true, if_false]
      unfold partner
      have hty : (ts.map (·.ty))[k]? = some t.ty := by simp [hk]
      rw [hty]; simp [hc, ho]

/-- T20.2 + T20.5: for every text and cursor the model highlighter returns (never panics) exactly
    what the specification prescribes. -/
theorem highlight_eq_spec (cs : Text) (i : Nat) : highlight cs i = some (Spec.highlight cs i) := by
  unfold highlight Spec.highlight Spec.cursorToken
  cases hs : scan cs with
  | error e => rfl
  | ok ts =>
    simp only
    cases hc : findTokenAtCursor ts i with
    | none => rfl
    | some kt =>
      obtain ⟨k, t⟩ := kt
      simp only
      have hk := (findTokenAtCursor_spec hc).1
      rw [findMatchingBracket_eq_partner ts k t hk]
      cases hp : partner (ts.map (·.ty)) k with
      | none => rfl
      | some j =>
        simp only [Option.bind_some]
        cases hb : ts[j]? with
        | none => rfl
        | some b =>
          simp only
          have hmem : b ∈ ts := List.mem_of_getElem? hb
          obtain ⟨pre, body, post, he, hlo, hhi, _⟩ := Lexed.span_of_mem (scan_lexed hs) b hmem
          have := slices_of_span he (by simpa using hlo) hhi
          rw [this.1, this.2.1, this.2.2]

/-- T20.5: neither slicing step can panic, whatever the text and cursor (including cursors past
    the end or inside a multi-byte character). -/
theorem highlight_no_panic (cs : Text) (i : Nat) : highlight cs i ≠ none := by
  rw [highlight_eq_spec]; simp

/-- T20.1: the result is the text itself, or the text with exactly one escape pair wrapped around
    the text of one bracket token. -/
theorem highlight_shape (cs : Text) (i : Nat) (r : Text) (h : highlight cs i = some r) :
    r = cs ∨ ∃ pre t post ts b, scan cs = .ok ts ∧ b ∈ ts ∧
      (b.ty.isOpen = true ∨ b.ty.isClose = true) ∧
      cs = pre ++ t ++ post ∧ b.lo = byteLen pre ∧ b.hi = b.lo + byteLen t ∧ t ≠ [] ∧
      r = pre ++ escOn ++ t ++ escOff ++ post := by
  unfold highlight at h
  cases hs : scan cs with
  | error e => rw [hs] at h; simp at h; exact .inl h.symm
  | ok ts =>
    rw [hs] at h
    simp only at h
    cases hc : findTokenAtCursor ts i with
    | none => rw [hc] at h; simp at h; exact .inl h.symm
    | some kt =>
      obtain ⟨k, t⟩ := kt
      rw [hc] at h
      simp only at h
      cases hm : findMatchingBracket ts k t with
      | none => rw [hm] at h; simp at h; exact .inl h.symm
      | some b =>
        rw [hm] at h
        simp only at h
        have hbw : b ∈ ts ∧ (b.ty.isOpen = true ∨ b.ty.isClose = true) := by
          unfold findMatchingBracket at hm
          split at hm
          · have := countScan_mem_want _ _ _ _ _ hm
            exact ⟨List.mem_of_mem_take (List.mem_reverse.mp this.1), .inl this.2⟩
          · split at hm
            · have := countScan_mem_want _ _ _ _ _ hm
              exact ⟨List.mem_of_mem_drop this.1, .inr this.2⟩
            · cases hm
        obtain ⟨pre, body, post, he, hlo, hhi, hne⟩ := Lexed.span_of_mem (scan_lexed hs) b hbw.1
        have hsl := slices_of_span he (by simpa using hlo) hhi
        rw [hsl.1, hsl.2.1, hsl.2.2] at h
        simp at h
        exact .inr ⟨pre, body, post, ts, b, rfl, hbw.1, hbw.2, he, by simpa using hlo, hhi, hne,
          by rw [← h]; simp⟩

/-- T20.4: `highlight_check` answers true only when a `(`/`)`-class token lies within one position
    of the cursor. -/
theorem highlightCheck_bracket_near (cs : Text) (i : Nat) (h : highlightCheck cs i = true) :
    ∃ ts t, scan cs = .ok ts ∧ t ∈ ts ∧ (t.ty = .leftParen ∨ t.ty = .rightParen) ∧
      t.lo ≤ i ∧ i ≤ t.hi + 1 := by
  unfold highlightCheck at h
  cases hs : scan cs with
  | error e => rw [hs] at h; simp at h
  | ok ts =>
    rw [hs] at h
    simp only at h
    cases hc : findTokenAtCursor ts (i - 1) with
    | none => rw [hc] at h; simp at h
    | some kt =>
      obtain ⟨k, t⟩ := kt
      rw [hc] at h
      simp only at h
      have := findTokenAtCursor_spec hc
      refine ⟨ts, t, rfl, List.mem_of_getElem? this.1, by simpa using h, by omega, by omega⟩

/-! ### non-vacuity: the statements above have interesting instances -/

example : highlight "(a #(b) c)".toList 0 = some "(a #(b) c\x1b[4m)\x1b[0m".toList := by decide
example : highlight "(a #(b) c)".toList 4 = some "(a #(b\x1b[4m)\x1b[0m c)".toList := by decide
example : highlight "(a #(b) c)".toList 7 = some "(a \x1b[4m#(\x1b[0mb) c)".toList := by decide
example : highlightCheck "(a)".toList 1 = true := by decide

end Marwood.Proofs.C20
