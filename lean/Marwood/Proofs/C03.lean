import Marwood.Lemmas.HeapWFOps
import Marwood.Heap.Check
import Marwood.Lemmas.SimObs
import Marwood.Proofs.C13
import Marwood.Lemmas.VpushAcc
/-!
# C03 — garbage collection never reclaims a live object (and what the unobservability proof needs)

Model: `Marwood.Heap` (`Heap`, `Gc`), specification: `Marwood.Spec.Reach`.
`fixed = true` is the marker after the `fix:` commit (JMP/JNT operands skipped), `fixed = false` the
pinned one; theorems that hold for both are stated for an arbitrary flag.

* T03.1  `mark_computes_reachable`, `mark_fuel_adequate`
* T03.2  `runGc_preserves_reachable`, `runGc_preserves_observation` (the form the machine-level
         simulation consumes; root sufficiency is its hypothesis `hobs`)
* T03.3  `new_wf`, `alloc_preserves_wf`, `put_preserves_wf`, `maybePut_preserves_wf`, `free_preserves_wf`,
         `grow_preserves_wf`, `mark_preserves_wfcore`, `runGc_preserves_wf` — for the unfixed marker the negation is
         `unfixed_marker_breaks_wf`, `unfixed_marker_allocates_cell_twice`
* T03.5  (unobservability for every program and schedule): `gc_unobservable_partial`,
         `gc_unobservable_value_partial` at the end of this file — closed up to the explicit hypotheses
         `ExtLaws` (Lemmas/SimBuiltin.lean) and `Safe` (Lemmas/SimMain.lean); see META.note of lib/props/c03.py.
-/
namespace Marwood.Proofs.C03
open Marwood Marwood.Heap Marwood.Spec
open Marwood.Lemmas.GcMark Marwood.Lemmas.GcSweep Marwood.Lemmas.HeapOps Marwood.Lemmas.GcSafety
open Marwood.Lemmas.HeapWF Marwood.Lemmas.HeapWFOps

/-! ## T03.1 -/

/-- **T03.1** `Heap::mark` applied to a list of roots terminates (fuel `|roots| + Σ|refs| + 1` suffices)
and sets to `Used` exactly the cells reachable from the roots in the marker's graph; it changes
nothing else. -/
theorem mark_computes_reachable (fixed : Bool) (h : Heap) (roots : List Nat)
    (hnu : ∀ i : Nat, h.gc[i]? ≠ some GcState.used) :
    ∃ h', h.mark fixed roots = some h' ∧
      (∀ x : Nat, h'.gc[x]? = some GcState.used ↔ Reach (h.children fixed) h.gc.size roots x) ∧
      (∀ x : Nat, h'.gc[x]? ≠ some GcState.used → h'.gc[x]? = h.gc[x]?) ∧
      h'.cells = h.cells ∧ h'.free = h.free ∧ h'.symtab = h.symtab ∧ h'.chunk = h.chunk := by
  obtain ⟨h', hm⟩ := mark_total fixed h roots
  have ms := mark_spec fixed h roots h' hnu hm
  refine ⟨h', hm, ms.used_iff, ?_, ms.cells, ms.free, ms.symtab, ms.chunk⟩
  intro x hx
  rcases ms.frame x with h1 | ⟨h1, _⟩
  · exact h1
  · exact absurd h1 hx

/-- **T03.1 (fuel)** the worklist never runs out of fuel, whatever the heap contains -/
theorem mark_fuel_adequate (fixed : Bool) (h : Heap) (roots : List Nat) :
    ∃ h', h.mark fixed roots = some h' := mark_total fixed h roots

/-- `run_gc` never reports exhausted fuel -/
theorem runGc_fuel_adequate (fixed force : Bool) (h : Heap) (r : Roots) :
    Heap.runGc fixed force h r ≠ .ok .fuelExhausted := runGc_never_fuel fixed force h r

/-! ## T03.2 -/

/-- **T03.2** after `run_gc` every cell reachable from the roots is allocated, has the content it
had, and — when it is a symbol — its name is still interned at that very cell. -/
theorem runGc_preserves_reachable (fixed force : Bool) (h : Heap) (r : Roots) (h' : Heap)
    (hsz : h.gc.size = h.cells.size) (hnu : ∀ i : Nat, h.gc[i]? ≠ some GcState.used) (hs : Shape h)
    (hrun : Heap.runGc fixed force h r = .ok (.collected h')) :
    ∀ x, Reachable fixed h (r.refs fixed) x →
      h'.gc[x]? = some GcState.allocated ∧ h'.cells[x]? = h.cells[x]? ∧
      (Interned h → h.NonFree x → ∀ name, h.cells[x]? = some (.symbol name) → h'.symLookup name = some x) := by
  intro x hx
  have gs := runGc_spec fixed force h r h' hsz hnu hs hrun
  refine ⟨gs.gc_reach x hx, gs.cells_reach x hx, ?_⟩
  intro hint hnf name hc
  have hl := (hint name x).mpr ⟨hc, hnf⟩
  rw [gs.sym name]
  split
  · rename_i hex
    obtain ⟨j, hj1, hj2, hj3⟩ := hex
    have := (hint name j).mpr ⟨hj3, Or.inl hj1⟩
    rw [hl] at this; cases this
    exact absurd hx hj2
  · exact hl

/-- a skipped collection changes nothing -/
theorem runGc_skipped_id (fixed force : Bool) (h : Heap) (r : Roots) (h' : Heap)
    (hrun : Heap.runGc fixed force h r = .ok (.skipped h')) : h' = h := by
  rcases runGc_inv fixed force h r _ hrun with h1 | ⟨h1, _⟩ | ⟨_, _, _, h1, _⟩
  · cases h1; rfl
  · cases h1
  · cases h1

/-- **T03.2, in the form the unobservability argument consumes.** Let `obs` be anything the machine
computes from the heap (the content read by one instruction, the datum `get_as_cell` builds, an
`eq?` answer …) and suppose it looks only at reachable cells (`hobs`: *root sufficiency* — this is the
premise to be discharged by the machine model, instruction by instruction). Then a collection at
this point does not change it. -/
theorem runGc_preserves_observation {α : Type} (fixed force : Bool) (h : Heap) (r : Roots) (h' : Heap)
    (obs : Heap → α)
    (hobs : ∀ h₁ h₂ : Heap, (∀ x, Reachable fixed h (r.refs fixed) x → h₂.cells[x]? = h₁.cells[x]?) → obs h₂ = obs h₁)
    (hsz : h.gc.size = h.cells.size) (hnu : ∀ i : Nat, h.gc[i]? ≠ some GcState.used) (hs : Shape h)
    (hrun : Heap.runGc fixed force h r = .ok (.collected h')) : obs h' = obs h :=
  hobs h h' fun x hx => (runGc_preserves_reachable fixed force h r h' hsz hnu hs hrun x hx).2.1

/-! ## T03.3 (repaired marker) -/

theorem new_wf (chunk : Nat) (h : Heap) (hpos : 0 < chunk) (hb : chunk ≤ 2 ^ 63)
    (hn : Heap.new chunk = .ok h) : WFHeap true h :=
  Marwood.Lemmas.HeapWFOps.new_wf true chunk h hpos hb hn

theorem alloc_preserves_wf (h h' : Heap) (p : Nat) (wf : WFHeap true h)
    (hb : Heap.grownSize h.chunk h.cells.size ≤ 2 ^ 63) (ha : h.alloc = .ok (h', p)) :
    WFHeap true h' ∧ AllocFacts h h' p := alloc_wf true h h' p wf hb ha

theorem put_preserves_wf (h h' : Heap) (c v : VCell) (wf : WFHeap true h) (hrefs : RefsOk true h c)
    (hb : Heap.grownSize h.chunk h.cells.size ≤ 2 ^ 63) (hput : h.put c = .ok (h', v)) :
    WFHeap true h' ∧ ((∃ q, c = .ptr q ∧ v = c ∧ h' = h) ∨ PutFacts h h' c v) :=
  put_wf true h h' c v wf hrefs hb hput

theorem maybePut_preserves_wf (h h' : Heap) (c v : VCell) (wf : WFHeap true h) (hrefs : RefsOk true h c)
    (hb : Heap.grownSize h.chunk h.cells.size ≤ 2 ^ 63) (hput : h.maybePut c = .ok (h', v)) :
    WFHeap true h' ∧ ((v = c ∧ h' = h) ∨ PutFacts h h' c v) :=
  maybePut_wf true h h' c v wf hrefs hb hput

theorem free_preserves_wf (h h' : Heap) (p : Nat) (wf : WFHeap true h)
    (hp : h.gc[p]? = some GcState.allocated)
    (hunref : ∀ i, i ≠ p → h.NonFree i → p ∉ h.children true i)
    (hfree : h.free' p = .ok h') : WFHeap true h' := free_wf true h h' p wf hp hunref hfree

theorem grow_preserves_wf (h h' : Heap) (wf : WFHeap true h) (hb : Heap.grownSize h.chunk h.cells.size ≤ 2 ^ 63)
    (hg : h.grow = .ok h') : WFHeap true h' := by
  obtain ⟨g, hg', gs, hsg⟩ := grow_spec h wf.sizes wf.shape
  rw [hg] at hg'; cases hg'
  exact grow_wf true h h' wf gs hsg (by rw [gs.csize]; exact hb)

theorem mark_preserves_wfcore (h h1 : Heap) (roots : List Nat) (wf : WFHeap true h)
    (hr : RootsOk h roots) (hm : h.mark true roots = some h1) :
    WFCore true h1 ∧ (∀ i : Nat, h1.NonFree i ↔ h.NonFree i) ∧
      (∀ i : Nat, h1.gc[i]? = some GcState.used ↔ Reachable true h roots i) :=
  mark_wfcore true h h1 roots wf hr hm

/-- **T03.3** `run_gc` (mark from the machine roots, sweep, optional growth) preserves `WFHeap`:
state `Free` ⇔ on the free list, no duplicates on the free list, symbol table ⇔ allocated symbol
cells, allocated cells refer only to allocated cells. -/
theorem runGc_preserves_wf (force : Bool) (h : Heap) (r : Roots) (h' : Heap)
    (wf : WFHeap true h) (hr : RootsOk h (r.refs true)) (hb : h'.cells.size ≤ 2 ^ 63)
    (hrun : Heap.runGc true force h r = .ok (.collected h')) : WFHeap true h' :=
  runGc_wf true force h r h' wf hr hb hrun

/-! ## non-trivial instances -/

/-- a heap built through the API: two symbols, a pair of them, a closure over a lambda whose bytecode
jumps (offset 5) and an environment; roots: the closure. -/
def demoOps : Res (Heap × List VCell) := do
  let h ← Heap.new 8
  let (h, a) ← h.put (.symbol ['a'])
  let (h, b) ← h.put (.symbol ['b'])
  let (h, p) ← h.put (.pair 0 1)
  let (h, l) ← h.put (.lambda [.opcode .jnt, .ptr 5, .opcode .movImmediate, .ptr 2, .atom .acc, .opcode .ret] [] [])
  let (h, e) ← h.put (.lexEnv [.ptr 2, .atom .number])
  let (h, k) ← h.put (.closure 3 4)
  let (h, _) ← h.put (.atom .string)            -- garbage
  pure (h, [a, b, p, l, e, k])

def demoHeap : Heap := match demoOps with | .ok (h, _) => h | .error _ => default
def demoRoots : Roots :=
  { globalSyms := [], globalSlots := [], stack := [.atom .undefined, .ptr 5], acc := .atom .undefined,
    ipLam := 2 ^ 64 - 1, ep := 2 ^ 64 - 1 }

/-- the demo heap satisfies every hypothesis used above (checked by the executable counterpart of the
invariants; the propositional `WFHeap` for API-built heaps follows from `new_wf`/`put_preserves_wf`) -/
example : Check.wfCheck true demoHeap demoRoots = none := by decide

example : ∃ h', Heap.runGc true true demoHeap demoRoots = .ok (.collected h') ∧
    h'.gc[5]? = some GcState.allocated ∧ h'.gc[0]? = some GcState.allocated ∧
    h'.gc[6]? = some GcState.free ∧ h'.symLookup ['a'] = some 0 := by
  refine ⟨_, rfl, ?_, ?_, ?_, ?_⟩ <;> decide

/-- hypotheses of T03.1/T03.2 hold for the demo heap (sizes, no marks, shape) -/
example : demoHeap.gc.size = demoHeap.cells.size ∧ Shape demoHeap ∧
    (∀ i : Nat, demoHeap.gc[i]? ≠ some GcState.used) := by
  refine ⟨by decide, ⟨by decide, by decide, 1, by decide, by decide⟩, ?_⟩
  intro i
  by_cases hi : i < 8
  · have : i = 0 ∨ i = 1 ∨ i = 2 ∨ i = 3 ∨ i = 4 ∨ i = 5 ∨ i = 6 ∨ i = 7 := by omega
    rcases this with h | h | h | h | h | h | h | h <;> subst h <;> decide
  · have hs : demoHeap.gc.size = 8 := by decide
    rw [Array.getElem?_eq_none (by omega)]
    simp

def okOr {α} [Inhabited α] : Res α → α
  | .ok a => a
  | .error _ => default

def hA : Heap := okOr (Heap.new 8)
def hB : Heap := (okOr (hA.put (.symbol ['a']))).1
def hC : Heap := (okOr (hB.put (.pair 0 0))).1

/-- `WFHeap` is inhabited by heaps with live structure: a fresh heap after two `put`s -/
example : WFHeap true hC ∧ hC.NonFree 0 ∧ hC.NonFree 1 ∧ hC.symLookup ['a'] = some 0 := by
  have h0 : Heap.new 8 = .ok hA := rfl
  have wf0 := new_wf 8 _ (by decide) (by decide) h0
  have h1 : hA.put (.symbol ['a']) = .ok (hB, .ptr 0) := rfl
  obtain ⟨wf1, _⟩ := put_preserves_wf _ _ _ _ wf0 (by intro y hy; cases hy) (by decide) h1
  have h2 : hB.put (.pair 0 0) = .ok (hC, .ptr 1) := rfl
  obtain ⟨wf2, _⟩ := put_preserves_wf _ _ _ _ wf1
    (by intro y hy
        have : y = 0 := by simpa [crefs] using hy
        subst this; left; left; decide) (by decide) h2
  exact ⟨wf2, by left; decide, by left; decide, by decide⟩

/-! ## the pinned marker: negation of T03.3 at a witness -/

/-- one code object whose bytecode is `JMP 5` and one number; cell 5 is free -/
def witness : Heap :=
  { chunk := 8
    cells := #[.lambda [.opcode .jmp, .ptr 5] [] [], .atom .number, .atom .undefined, .atom .undefined,
               .atom .undefined, .atom .undefined, .atom .undefined, .atom .undefined]
    gc := #[.allocated, .allocated, .free, .free, .free, .free, .free, .free]
    free := [2, 3, 4, 5, 6, 7]
    symtab := [] }

def witnessRoots : Roots :=
  { globalSyms := [], globalSlots := [], stack := [.atom .undefined, .ptr 1], acc := .atom .undefined, ipLam := 0,
    ep := 2 ^ 64 - 1 }

def noRoots : Roots :=
  { globalSyms := [], globalSlots := [], stack := [.atom .undefined, .ptr 1], acc := .atom .undefined,
    ipLam := 2 ^ 64 - 1, ep := 2 ^ 64 - 1 }

/-- the witness is a well-formed heap in the semantic sense (the jump offset is not a reference) -/
theorem witness_ok : Check.wfCheck true witness witnessRoots = none := by decide

def collected (r : Res Heap.GcResult) : Heap :=
  match r with
  | .ok (.collected h) => h
  | _ => default

/-- **negation of T03.3 for the pinned marker**: one collection of the witness with the unfixed child
function leaves cell 5 `Allocated` *and* on the free list -/
theorem unfixed_marker_breaks_wf :
    ¬ WFHeap false (collected (Heap.runGc false true witness witnessRoots)) := by
  intro wf
  have h1 : (5 : Nat) ∈ (collected (Heap.runGc false true witness witnessRoots)).free := by decide
  have h2 := (wf.free_iff 5).mp h1
  revert h2
  decide

/-- with the repaired marker the same collection keeps the invariant (executable check) -/
theorem fixed_marker_keeps_wf :
    Check.wfCheck true (collected (Heap.runGc true true witness witnessRoots)) witnessRoots = none := by decide

/-- allocate `n` cells, collecting the addresses -/
def allocN : Nat → Heap → List Nat
  | 0, _ => []
  | n+1, h => match h.alloc with
    | .ok (h', p) => p :: allocN n h'
    | .error _ => []

/-- **the double allocation**: collect (code object live), drop the code object, collect again, then
allocate: with the pinned marker cell 5 is handed out twice -/
theorem unfixed_marker_allocates_cell_twice :
    (allocN 8 (collected (Heap.runGc false true
      (collected (Heap.runGc false true witness witnessRoots)) noRoots))).count 5 = 2 := by decide

theorem fixed_marker_allocates_each_cell_once :
    allocN 7 (collected (Heap.runGc true true
      (collected (Heap.runGc true true witness witnessRoots)) noRoots)) = [0, 2, 3, 4, 5, 6, 7] := by decide

/-! ## T03.5 — collections at any set of instruction boundaries are unobservable

Machine: `Marwood.Vm.Concrete.machine ext force` — `run_one` (Vm/Machine.lean) over the concrete heap
(Vm/ConcreteHeap.lean), collector = `Heap.runGc` of this file's model through the erasure. Relation:
`Sim φ` (Lemmas/SimDefs.lean), a partial injection on addresses relating everything reachable.
Ingredients: (a) `cgc_sim` (Lemmas/SimGc.lean) from T03.2 / T03.3 above; (b) one lemma per opcode
(Lemmas/SimStep{A..F}.lean, SimBuiltin.lean, symbol interning in SimSym.lean), assembled by `step_sim`;
(c) `readObs_rel`, `eq_agree` (Lemmas/SimObs.lean).
-/
section Unobservable
open Marwood.Vm Marwood.Vm.Concrete Marwood.Lemmas.Sim Marwood.Proofs.C13

variable {S E : Type}

/-- run `n` instructions with a collection in front of instruction `i` whenever `sched i` -/
def runSched (m : Machine S E) (sched : Nat → Bool) : Nat → Nat → S → Res S E
  | 0, _, s => .paused s
  | n+1, i, s =>
    match m.step (if sched i then m.gc s else s) with
    | .halt s' => .done s'
    | .fail e s' => .error e s'
    | .next s' => runSched m sched n (i + 1) s'

/-- for every machine whose collector is transparent for `R`: any schedule of collections is related to
    the collection-free run -/
theorem runSched_pureN (m : Machine S E) (R : S → S → Prop) (hT : GcTransparent m R) (sched : Nat → Bool) :
    ∀ (n i : Nat) (s t : S), R s t → ResRel R (runSched m sched n i s) (pureN m n t) := by
  intro n
  induction n with
  | zero => intro i s t h; exact .paused h
  | succ n ih =>
    intro i s t h
    simp only [runSched, pureN]
    have h' : R (if sched i then m.gc s else s) t := by
      split
      · exact hT.gc_left _ _ h
      · exact h
    have hs := hT.step _ _ h'
    generalize m.step (if sched i then m.gc s else s) = r1 at hs
    generalize m.step t = r2 at hs
    cases hs with
    | halt h2 => exact .done h2
    | fail h2 => exact .error h2
    | next h2 => exact ih (i + 1) _ _ h2

/-- **T03.5 (partial: `ExtLaws`, `Safe`)** On the concrete machine, for every safe state (it is `Sim`-related
    to itself by `sim_refl`), every schedule of collections at instruction boundaries and every instruction
    count: the scheduled run and the collection-free run end with the same status (still running / HALT /
    the same failure) in `Sim`-related states. -/
theorem gc_unobservable_partial (ext : ExtOps) (force : Bool) (o : ExtLaws ext) (sched : Nat → Bool) (n : Nat)
    (s0 : St CHeap) (h0 : Safe (machine ext force) s0) :
    ResRel (Lemmas.Sim.R (machine ext force)) (runSched (machine ext force) sched n 0 s0)
      (pureN (machine ext force) n s0) :=
  runSched_pureN _ _ (gcTransparent_concrete_partial ext force o) sched n 0 s0 s0 (R_refl _ h0)

/-- … and the value is the same: if the collection-free run reaches HALT, so does the scheduled run, and
    the datum read out of `acc` (any fuel) is equal. -/
theorem gc_unobservable_value_partial (ext : ExtOps) (force : Bool) (o : ExtLaws ext) (sched : Nat → Bool)
    (n : Nat) (s0 t' : St CHeap) (h0 : Safe (machine ext force) s0)
    (hk : pureN (machine ext force) n s0 = .done t') :
    ∃ s', runSched (machine ext force) sched n 0 s0 = .done s' ∧
      ∀ fuel, resultObs fuel s' = resultObs fuel t' := by
  have h := gc_unobservable_partial ext force o sched n s0 h0
  rw [hk] at h
  generalize runSched (machine ext force) sched n 0 s0 = r at h
  cases h with
  | done hr =>
    rename_i s'
    refine ⟨s', rfl, ?_⟩
    intro fuel
    obtain ⟨⟨φ, hs⟩, ss, st⟩ := hr
    exact resultObs_sim hs ss.good.size st.good.size fuel

/-! ### non-vacuity: two concrete states related by a non-identity injection -/

def hS : CHeap :=
  { chunk := 4, cells := #[.val (.pair 1 1), .val (.opaque "n5"), .val .undefined, .val .undefined]
    gc := #[.allocated, .allocated, .free, .free], free := [2, 3], symtab := [], globSyms := [], globals := #[] }

def hT : CHeap :=
  { chunk := 4, cells := #[.val .undefined, .val .undefined, .val (.pair 3 3), .val (.opaque "n5")]
    gc := #[.free, .free, .allocated, .allocated], free := [1, 0], symtab := [], globSyms := [], globals := #[] }

def stOf (h : CHeap) (a : Nat) : St CHeap :=
  { heap := h, stack := { cells := [.undefined, .undefined], sp := 0 }, acc := .ptr a,
    ep := usizeMax, ipL := usizeMax, ipO := 0, bp := 0 }

def phi : Inj := fun a => if a = 0 then some 2 else if a = 1 then some 3 else none

theorem four_cases {i : Nat} (hi : i < 4) : i = 0 ∨ i = 1 ∨ i = 2 ∨ i = 3 := by omega

theorem hS_inv : HInv hS := by
  refine ⟨by decide, ⟨by decide, by decide, 1, by decide, by decide⟩, ?_, by decide, ?_⟩
  · intro i
    by_cases hi : i < 4
    · rcases four_cases hi with h | h | h | h <;> subst h <;> decide
    · have h1 : hS.gc[i]? = none := Array.getElem?_eq_none (by simp [hS]; omega)
      rw [h1]; simp [hS]; omega
  · intro i
    by_cases hi : i < 4
    · rcases four_cases hi with h | h | h | h <;> subst h <;> decide
    · have h1 : hS.gc[i]? = none := Array.getElem?_eq_none (by simp [hS]; omega)
      rw [h1]; simp

theorem hT_inv : HInv hT := by
  refine ⟨by decide, ⟨by decide, by decide, 1, by decide, by decide⟩, ?_, by decide, ?_⟩
  · intro i
    by_cases hi : i < 4
    · rcases four_cases hi with h | h | h | h <;> subst h <;> decide
    · have h1 : hT.gc[i]? = none := Array.getElem?_eq_none (by simp [hT]; omega)
      rw [h1]; simp [hT]; omega
  · intro i
    by_cases hi : i < 4
    · rcases four_cases hi with h | h | h | h <;> subst h <;> decide
    · have h1 : hT.gc[i]? = none := Array.getElem?_eq_none (by simp [hT]; omega)
      rw [h1]; simp

/-- the same list `(5 . 5)`-shaped structure at addresses 0,1 on the left and 2,3 on the right -/
theorem demo_sim : Sim phi (stOf hS 0) (stOf hT 2) := by
  have hsent : AddrRel phi usizeMax usizeMax := .inr ⟨rfl, by decide⟩
  refine ⟨⟨?_, ?_, .nil, .nil, hS_inv, hT_inv⟩, ?_, .ptr (.inl rfl), hsent, hsent, rfl, rfl⟩
  · intro a a' b h1 h2
    unfold phi at h1 h2
    by_cases e0 : a = 0 <;> by_cases e1 : a = 1 <;> by_cases f0 : a' = 0 <;> by_cases f1 : a' = 1 <;>
      simp_all <;> omega
  · intro a b hab
    unfold phi at hab
    by_cases e0 : a = 0
    · subst e0
      simp at hab; subst hab
      exact ⟨_, _, rfl, rfl, .val (.pair (.inl rfl) (.inl rfl)), by decide, by decide⟩
    · by_cases e1 : a = 1
      · subst e1
        simp at hab; subst hab
        exact ⟨_, _, rfl, rfl, .val (.atom rfl), by decide, by decide⟩
      · simp [e0, e1] at hab
  · refine ⟨rfl, rfl, ?_⟩
    intro i hi v v' h1 h2
    have : i = 0 := by simpa [stOf] using hi
    subst this
    simp [stOf] at h1 h2
    subst h1 h2
    exact .atom rfl

/-- the observation through the two heaps is the same datum -/
example : resultObs 3 (stOf hS 0) = resultObs 3 (stOf hT 2) :=
  resultObs_sim demo_sim (by show (4 : Nat) ≤ 2 ^ 63; decide) (by show (4 : Nat) ≤ 2 ^ 63; decide) 3

example : resultObs 3 (stOf hS 0) = .pair (.atom (.opaque "n5")) (.atom (.opaque "n5")) := by rfl

/-- allocation on the two sides hands out different addresses (3 vs 0): `φ` is extended, not equal -/
example : (cput hS (.val .nil)).2 = 2 ∧ (cput hT (.val .nil)).2 = 1 := by decide

/-! ### non-vacuity of `Safe` (and of the whole hypothesis set of T03.5) -/

open Marwood.Lemmas.HeapWF in
/-- a heap holding one code object `HALT` -/
def hHalt : CHeap :=
  { chunk := 4, cells := #[.lambda { bc := [.opcode .halt], args := [], envmap := [] }, .val .undefined, .val .undefined,
      .val .undefined]
    gc := #[.allocated, .free, .free, .free], free := [1, 2, 3], symtab := [], globSyms := [], globals := #[] }

def sHalt (o : Nat) : St CHeap :=
  { heap := hHalt, stack := { cells := [.undefined], sp := 0 }, acc := .undefined, ep := usizeMax, ipL := 0, ipO := o,
    bp := 0 }

/-- its erasure, literally -/
def eHalt : Heap :=
  { chunk := 4, cells := #[.lambda [.opcode .halt] [] [], .atom .undefined, .atom .undefined, .atom .undefined]
    gc := #[.allocated, .free, .free, .free], free := [1, 2, 3], symtab := [] }

theorem toHeap_hHalt : toHeap hHalt = eHalt := by
  simp [toHeap, hHalt, eHalt, eraseC, eraseV, eraseOp]

theorem hHalt_gc (i : Nat) : eHalt.gc[i]? =
    if i = 0 then some GcState.allocated else if i < 4 then some GcState.free else none := by
  by_cases hi : i < 4
  · rcases four_cases hi with h | h | h | h <;> subst h <;> decide
  · have h1 : eHalt.gc[i]? = none := Array.getElem?_eq_none (by simp [eHalt]; omega)
    rw [h1]
    have : i ≠ 0 := by omega
    simp [this, hi]

theorem hHalt_cells (i : Nat) : eHalt.cells[i]? =
    if i = 0 then some (Heap.VCell.lambda [.opcode .halt] [] []) else if i < 4 then some Heap.VCell.undefined else none := by
  by_cases hi : i < 4
  · rcases four_cases hi with h | h | h | h <;> subst h <;> rfl
  · have h1 : eHalt.cells[i]? = none := Array.getElem?_eq_none (by simp [eHalt]; omega)
    rw [h1]
    have : i ≠ 0 := by omega
    simp [this, hi]

theorem hHalt_nonFree (i : Nat) : eHalt.NonFree i ↔ i = 0 := by
  unfold Heap.NonFree
  rw [hHalt_gc]
  by_cases h0 : i = 0
  · simp [h0]
  · by_cases h4 : i < 4 <;> simp [h0, h4]

theorem eHalt_wf : WFHeap true eHalt := by
  refine ⟨⟨by decide, ⟨by decide, by decide, 1, by decide, by decide⟩, by decide, ?_, by decide, ?_, ?_, ?_⟩, ?_⟩
  · intro i
    rw [hHalt_gc]
    by_cases h0 : i = 0
    · subst h0; decide
    · by_cases h4 : i < 4
      · have : i = 1 ∨ i = 2 ∨ i = 3 := by omega
        rcases this with h | h | h <;> subst h <;> decide
      · simp [h0, h4, eHalt]; omega
  · intro i hi
    rw [hHalt_gc] at hi
    rw [hHalt_cells]
    by_cases h0 : i = 0
    · simp [h0] at hi
    · by_cases h4 : i < 4
      · simp [h0, h4]
      · simp [h0, h4] at hi
  · intro name i
    have e : eHalt.symLookup name = none := rfl
    rw [e]
    unfold Heap.AllocSym
    rw [hHalt_nonFree, hHalt_cells]
    constructor
    · intro h; cases h
    · rintro ⟨h1, h2⟩; subst h2; simp at h1
  · intro i hi y hy
    rw [hHalt_nonFree] at hi
    subst hi
    have : eHalt.children true 0 = [] := rfl
    rw [this] at hy; cases hy
  · intro i
    rw [hHalt_gc]
    by_cases h0 : i = 0
    · simp [h0]
    · by_cases h4 : i < 4 <;> simp [h0, h4]

theorem sHalt_good (o : Nat) (ho : o = 0 ∨ o = 1) : Good (sHalt o) := by
  have hl : lambdaAt hHalt 0 = some { bc := [.opcode .halt], args := [], envmap := [] } := rfl
  refine ⟨by show (4 : Nat) ≤ 2 ^ 63; decide, ⟨?_, ?_, ?_⟩, by show WFHeap true (toHeap hHalt); rw [toHeap_hHalt]; exact eHalt_wf, ?_, ?_, ?_, ?_⟩
  · intro i v hv
    have hi : i < 4 := by have := lt_of_get_some hv; simpa [sHalt, hHalt] using this
    rcases four_cases hi with h | h | h | h <;> subst h <;> simp [sHalt, hHalt] at hv <;> subst hv <;> rfl
  · intro v hv; simp [sHalt, hHalt] at hv
  · intro i c hc
    have hi : i < 4 := by have := lt_of_get_some hc; simpa [sHalt, hHalt] using this
    rcases four_cases hi with h | h | h | h <;> subst h <;> simp [sHalt, hHalt] at hc
  · show RootsOk (toHeap hHalt) _
    rw [toHeap_hHalt]
    intro y hy
    have : (rootsOf (sHalt o)).refs true = [0, usizeMax] := by
      simp [rootsOf, sHalt, Roots.refs, hHalt, eraseV, vrefsList, vrefs]
    rw [this] at hy
    rcases List.mem_cons.mp hy with h | h
    · subst h; exact .inl ((hHalt_nonFree 0).mpr rfl)
    · have : y = usizeMax := by simpa using h
      subst this; exact .inr (by unfold Heap.Sentinel usizeMax; decide)
  · intro i l hc p hp a
    have hi : i < 4 := by have := lt_of_get_some hc; simpa [sHalt, hHalt] using this
    rcases four_cases hi with h | h | h | h <;> subst h <;> simp [sHalt, hHalt] at hc
    subst hc; cases hp
  · intro l off h1 h2
    have : l = { bc := [.opcode .halt], args := [], envmap := [] } := by
      have h1' : lambdaAt hHalt 0 = some l := h1
      rw [hl] at h1'; cases h1'; rfl
    subst this
    rcases ho with h | h <;> subst h <;> simp [sHalt] at h2
  · intro l h1 h2
    have : l = { bc := [.opcode .halt], args := [], envmap := [] } := by
      have h1' : lambdaAt hHalt 0 = some l := h1
      rw [hl] at h1'; cases h1'; rfl
    subst this
    rcases ho with h | h <;> subst h <;> simp [sHalt] at h2

theorem sHalt_step0 (ext : ExtOps) (force : Bool) : (machine ext force).step (sHalt 0) = .halt (sHalt 1) := rfl
theorem sHalt_step1 (ext : ExtOps) (force : Bool) :
    (machine ext force).step (sHalt 1) = .fail (.err .invalidBytecode) (sHalt 1) := rfl
theorem sHalt_gc (ext : ExtOps) (o : Nat) : (machine ext false).gc (sHalt o) = sHalt o := by
  show cgc false (sHalt o) = sHalt o
  unfold cgc
  have : Heap.runGc true false (toHeap (sHalt o).heap) (rootsOf (sHalt o)) = .ok (.skipped eHalt) := by
    show Heap.runGc true false (toHeap hHalt) _ = _
    rw [toHeap_hHalt]; rfl
  rw [this]

/-- **`Safe` is satisfiable**: the one-instruction program `HALT` on a well-formed heap -/
theorem sHalt_safe (ext : ExtOps) : Safe (machine ext false) (sHalt 0) := by
  have key : ∀ s', Reaches (machine ext false) (sHalt 0) s' → s' = sHalt 0 ∨ s' = sHalt 1 := by
    intro s' hr
    induction hr with
    | refl => exact .inl rfl
    | next _ e ih =>
      rcases ih with h | h <;> subst h
      · rw [sHalt_step0] at e; cases e
      · rw [sHalt_step1] at e; cases e
    | halt _ e ih =>
      rcases ih with h | h <;> subst h
      · rw [sHalt_step0] at e; cases e; exact .inr rfl
      · rw [sHalt_step1] at e; cases e
    | gc _ ih =>
      rcases ih with h | h <;> subst h
      · exact .inl (sHalt_gc ext 0)
      · exact .inr (sHalt_gc ext 1)
  intro s' hr
  rcases key s' hr with h | h <;> subst h
  · exact sHalt_good 0 (.inl rfl)
  · exact sHalt_good 1 (.inr rfl)

/-- T03.5 instantiated: every schedule of (utilisation-tested) collections around `HALT` -/
example (sched : Nat → Bool) : ∃ s', runSched (machine failingExt false) sched 1 0 (sHalt 0) = .done s' ∧
    ∀ fuel, resultObs fuel s' = resultObs fuel (sHalt 1) :=
  gc_unobservable_value_partial failingExt false failingExt_laws sched 1 (sHalt 0) (sHalt 1)
    (sHalt_safe failingExt) rfl

end Unobservable

/-! ## T03.5 without `Safe`: hypothesis on the initial state

`Safe` is discharged by the invariant theorems of `Lemmas/Good*.lean` (see the section of the same name in
Proofs/C13.lean for the list of what remains: `ExtLaws`, `ExtGood`, `SizeBounded`, `StackDiscAlong`, and
`GoodI` of the initial state). -/
section UnobservableInv
open Marwood.Vm Marwood.Vm.Concrete Marwood.Lemmas.Sim Marwood.Lemmas.Good Marwood.Proofs.C13

/-- `run_one` preserves the heap invariant of T03.3 **on the machine**: `WFHeap` of the erased heap and the
    allocatedness of the roots (with the disciplines that make it inductive), for all 16 opcodes -/
theorem run_one_preserves_wf (ext : ExtOps) (el : ExtLaws ext) (eg : ExtGood ext) (s s' : St CHeap) (b : Bool)
    (g : GoodI s) (sm : Small s.heap) (sd : StackDisc s) (hs : step (concreteOps ext) s = .ok (s', b))
    (sm' : Small s'.heap) :
    GoodI s' ∧ WFHeap true (toHeap s'.heap) ∧ RootsOk (toHeap s'.heap) ((rootsOf s').refs true) :=
  let g' := good_step el eg g sm sd hs sm'
  ⟨g', g'.hg.wf, g'.roots⟩

/-- … and so does a collection at any boundary -/
theorem run_gc_preserves_good (force : Bool) (s : St CHeap) (g : GoodI s) (sm : Small (cgc force s).heap) :
    GoodI (cgc force s) := good_gc force g sm

/-- **T03.5.** On the concrete machine, from a state satisfying the invariant: every schedule of collections at
    instruction boundaries and the collection-free run end with the same status (running / HALT / the same
    failure) in `Sim`-related states. -/
theorem gc_unobservable (ext : ExtOps) (force : Bool) (o : ExtLaws ext) (eg : ExtGood ext) (sched : Nat → Bool)
    (n : Nat) (s0 : St CHeap) (g0 : GoodI s0) (sb : SizeBounded (machine ext force) s0)
    (sd : StackDiscAlong (machine ext force) s0) :
    ResRel (Lemmas.Sim.R (machine ext force)) (runSched (machine ext force) sched n 0 s0)
      (pureN (machine ext force) n s0) :=
  gc_unobservable_partial ext force o sched n s0 (safe_of_good force o eg g0 sb sd)

/-- … and the value is the same -/
theorem gc_unobservable_value (ext : ExtOps) (force : Bool) (o : ExtLaws ext) (eg : ExtGood ext)
    (sched : Nat → Bool) (n : Nat) (s0 t' : St CHeap) (g0 : GoodI s0)
    (sb : SizeBounded (machine ext force) s0) (sd : StackDiscAlong (machine ext force) s0)
    (hk : pureN (machine ext force) n s0 = .done t') :
    ∃ s', runSched (machine ext force) sched n 0 s0 = .done s' ∧
      ∀ fuel, resultObs fuel s' = resultObs fuel t' :=
  gc_unobservable_value_partial ext force o sched n s0 t' (safe_of_good force o eg g0 sb sd) hk

/-- the hypothesis is one about the VM between evaluations: an idle good machine after `prepare_eval` -/
theorem gc_unobservable_value_eval (ext : ExtOps) (force : Bool) (o : ExtLaws ext) (eg : ExtGood ext)
    (comp : CHeap → Vm.VCell → Outcome (CHeap × Vm.VCell)) (cg : CompGood comp)
    (s : St CHeap) (g : GoodI s) (hacc : s.acc = .undefined) (hep : Heap.Sentinel s.ep)
    (hst : ∀ c ∈ s.stack.cells, c = Vm.VCell.undefined) (d : Vm.VCell) (hd : addrFree d = true)
    (s0 : St CHeap) (hp : prepareEval comp s d = .ok s0)
    (sched : Nat → Bool) (n : Nat) (t' : St CHeap)
    (sb : SizeBounded (machine ext force) s0) (sd : StackDiscAlong (machine ext force) s0)
    (hk : pureN (machine ext force) n s0 = .done t') :
    ∃ s', runSched (machine ext force) sched n 0 s0 = .done s' ∧
      ∀ fuel, resultObs fuel s' = resultObs fuel t' :=
  gc_unobservable_value ext force o eg sched n s0 t'
    (prepare_goodI cg g hacc hep hst hd hp (sb s0 (.refl s0))) sb sd hk

/-! ### non-vacuity (Lemmas/GoodDemo.lean: the program `HALT`) -/

open Marwood.Lemmas.Good.Demo in
example (sched : Nat → Bool) : ∃ s', runSched (machine failingExt false) sched 1 0 (Demo.sHalt 0) = .done s' ∧
    ∀ fuel, resultObs fuel s' = resultObs fuel (Demo.sHalt 1) :=
  gc_unobservable_value failingExt false failingExt_laws failingExt_good sched 1 (Demo.sHalt 0) (Demo.sHalt 1)
    (sHalt_goodI 0) (sHalt_sizeBounded _) (sHalt_discAlong _) rfl

open Marwood.Lemmas.Good.Demo in
/-- the invariant is preserved by the one instruction of that program, through the theorem -/
example : GoodI (Demo.sHalt 1) :=
  (run_one_preserves_wf failingExt failingExt_laws failingExt_good (Demo.sHalt 0) (Demo.sHalt 1) true
    (sHalt_goodI 0) (sHalt_small 0) (sHalt_disc 0 (.inl rfl)) rfl (sHalt_small 1)).1

/-! ### T03.5 without `StackDiscAlong` (see the section of the same name in Proofs/C13.lean) -/

/-- **T03.5 from the bundled invariant of the initial state**: `VmOk = GoodI ∧ WFS` (heap-simulation invariant
    and WF-stack over the value-typed verifier), the laws of the unmodelled parts, the size bound, and the callee
    guard at call sites. No `StackDiscAlong`. -/
theorem gc_unobservable_wf (ext : ExtOps) (force : Bool) (o : ExtLaws ext) (eg : ExtGood ext)
    (ecl : ExtCodeLawsV ext) (sched : Nat → Bool) (n : Nat) (s0 : St CHeap) (h0 : VmOk ext ecl s0)
    (sb : SizeBounded (machine ext force) s0) (ca : CalleeOkAlong (machine ext force) s0) :
    ResRel (Lemmas.Sim.R (machine ext force)) (runSched (machine ext force) sched n 0 s0)
      (pureN (machine ext force) n s0) :=
  gc_unobservable ext force o eg sched n s0 h0.1 sb (stackDiscAlong_of_wfs force o eg h0 sb ca)

/-- … and the value is the same -/
theorem gc_unobservable_value_wf (ext : ExtOps) (force : Bool) (o : ExtLaws ext) (eg : ExtGood ext)
    (ecl : ExtCodeLawsV ext) (sched : Nat → Bool) (n : Nat) (s0 t' : St CHeap) (h0 : VmOk ext ecl s0)
    (sb : SizeBounded (machine ext force) s0) (ca : CalleeOkAlong (machine ext force) s0)
    (hk : pureN (machine ext force) n s0 = .done t') :
    ∃ s', runSched (machine ext force) sched n 0 s0 = .done s' ∧
      ∀ fuel, resultObs fuel s' = resultObs fuel t' :=
  gc_unobservable_value ext force o eg sched n s0 t' h0.1 sb (stackDiscAlong_of_wfs force o eg h0 sb ca) hk

/-- `run_one` preserves the bundled invariant **on the real machine** (heap invariant of T03.3 included) -/
theorem run_one_preserves_vmOk (ext : ExtOps) (el : ExtLaws ext) (eg : ExtGood ext) (ecl : ExtCodeLawsV ext)
    (s s' : St CHeap) (b : Bool) (h : VmOk ext ecl s) (hc : CalleeSite s → CalleeOk s) (sm : Small s.heap)
    (hs : step (concreteOps ext) s = .ok (s', b)) (sm' : Small s'.heap) :
    VmOk ext ecl s' ∧ WFHeap true (toHeap s'.heap) ∧ RootsOk (toHeap s'.heap) ((rootsOf s').refs true) :=
  let h' := vmOk_step el eg h hc sm hs sm'
  ⟨h', h'.1.hg.wf, h'.1.roots⟩

open Marwood.Lemmas.Good.Demo in
/-- non-vacuity -/
example (sched : Nat → Bool) : ∃ s', runSched (machine failingExt false) sched 1 0 (Demo.sHalt 0) = .done s' ∧
    ∀ fuel, resultObs fuel s' = resultObs fuel (Demo.sHalt 1) :=
  gc_unobservable_value_wf failingExt false failingExt_laws failingExt_good failingExt_codeLawsV sched 1
    (Demo.sHalt 0) (Demo.sHalt 1) (sHalt_vmOk _ _) (sHalt_sizeBounded _) (sHalt_calleeOkAlong _) rfl

/-! ### T03.5 without `CalleeOkAlong` (see the section of the same name in Proofs/C13.lean)

The callee guard at call sites is a theorem (`Lemmas/ProcInvMain.lean: calleeOkAlong_of_vmOk`): the two clauses
`PInv` — every closure cell's lambda is procedure code, no value points to entry code — are an invariant of the real
machine and of the collector. -/

/-- **T03.5, closed**: `VmOk` and `PInv` of the initial state, the laws of the unmodelled parts, the size bound -/
theorem gc_unobservable_closed (ext : ExtOps) (force : Bool) (o : ExtLaws ext) (eg : ExtGood ext)
    (ecl : ExtCodeLawsV ext) (ep : ExtProc ext) (sched : Nat → Bool) (n : Nat) (s0 : St CHeap) (h0 : VmOk ext ecl s0)
    (p0 : PInv s0) (sb : SizeBounded (machine ext force) s0) :
    ResRel (Lemmas.Sim.R (machine ext force)) (runSched (machine ext force) sched n 0 s0)
      (pureN (machine ext force) n s0) :=
  gc_unobservable_wf ext force o eg ecl sched n s0 h0 sb (calleeOkAlong_of_vmOk force o eg ep h0 p0 sb)

/-- … and the value is the same -/
theorem gc_unobservable_value_closed (ext : ExtOps) (force : Bool) (o : ExtLaws ext) (eg : ExtGood ext)
    (ecl : ExtCodeLawsV ext) (ep : ExtProc ext) (sched : Nat → Bool) (n : Nat) (s0 t' : St CHeap)
    (h0 : VmOk ext ecl s0) (p0 : PInv s0) (sb : SizeBounded (machine ext force) s0)
    (hk : pureN (machine ext force) n s0 = .done t') :
    ∃ s', runSched (machine ext force) sched n 0 s0 = .done s' ∧
      ∀ fuel, resultObs fuel s' = resultObs fuel t' :=
  gc_unobservable_value_wf ext force o eg ecl sched n s0 t' h0 sb (calleeOkAlong_of_vmOk force o eg ep h0 p0 sb) hk

/-- `run_one` and `run_gc` preserve the bundled invariant `VmOk ∧ PInv` **on the real machine**, with no side
    condition on the callee (heap invariant of T03.3 included) -/
theorem run_one_preserves_vmOkP (ext : ExtOps) (el : ExtLaws ext) (eg : ExtGood ext) (ecl : ExtCodeLawsV ext)
    (ep : ExtProc ext) (s s' : St CHeap) (b : Bool) (h : VmOkP ext ecl s) (sm : Small s.heap)
    (hs : step (concreteOps ext) s = .ok (s', b)) (sm' : Small s'.heap) :
    VmOkP ext ecl s' ∧ WFHeap true (toHeap s'.heap) ∧ RootsOk (toHeap s'.heap) ((rootsOf s').refs true) :=
  let h' := vmOkP_step el eg ep h sm hs sm'
  ⟨h', h'.1.1.hg.wf, h'.1.1.roots⟩

theorem run_gc_preserves_vmOkP (ext : ExtOps) (ecl : ExtCodeLawsV ext) (force : Bool) (s : St CHeap)
    (h : VmOkP ext ecl s) (sm' : Small (cgc force s).heap) : VmOkP ext ecl (cgc force s) :=
  vmOkP_gc force h sm'

open Marwood.Lemmas.Good.Demo in
/-- non-vacuity -/
example (sched : Nat → Bool) : ∃ s', runSched (machine failingExt false) sched 1 0 (Demo.sHalt 0) = .done s' ∧
    ∀ fuel, resultObs fuel s' = resultObs fuel (Demo.sHalt 1) :=
  gc_unobservable_value_closed failingExt false failingExt_laws failingExt_good failingExt_codeLawsV failingExt_proc
    sched 1 (Demo.sHalt 0) (Demo.sHalt 1) (sHalt_vmOk _ _) (sHalt_pinv 0) (sHalt_sizeBounded _) rfl

end UnobservableInv

/-! ## VPUSH leaves the reference to the vector in `%acc` (fix 43d0413)

`(define v `#(,(list 1 2)))` followed by a few collections printed `#(#<undefined>)`: VPUSH replaced the pointer
popped from the stack by the DEREFERENCED vector in `%acc`; MOV then stored that inline `Vector(Rc)` in a global
slot, which `run_gc` does not follow (global slots are marked only when they are pointers). The by-value heap model
renders a dereferenced vector as the address-free atom `.opaque "v"` — it has no elements, so no statement of this
file could see them die: the invariant `Plain` accepts that atom as a value. The executable discipline
`noInlineVecB` (Vm/InlineCheck.lean: no dereferenced vector in `%acc`, a stack slot, a global slot or a heap
cell) is evaluated on every real state of the `safe-side-conditions` stream instead. -/
section Vpush
open Marwood.Vm Marwood.Vm.Concrete Marwood.Lemmas.Good

/-- **after VPUSH `%acc` is the popped stack cell, a pointer to an allocated vector cell** — not an inline
    container. Hypotheses: the invariant `GoodI`, the executable discipline `noInlineVecB` on the state before the
    step, and the law of the unmodelled `vector.push` (it succeeds only on a vector). -/
theorem vpush_acc_is_pointer (ext : ExtOps) (vl : VecPushLaw ext) (s s' : St CHeap) (b : Bool) (g : GoodI s)
    (ni : noInlineVecB s = true) (hop : opAt s .vpushAcc) (hs : step (concreteOps ext) s = .ok (s', b)) :
    ∃ p es, s'.acc = .ptr p ∧ s.stack.cells[s.stack.sp]? = some (.ptr p) ∧
      s.heap.cells[p]? = some (.vector es) ∧ NF s.heap p ∧ isInlineVec s'.acc = false ∧
      s'.stack = { s.stack with sp := s.stack.sp - 1 } :=
  let ⟨p, es, h1, h2, h3, h4, h5⟩ := vpush_acc_ptr vl g ni hop hs
  ⟨p, es, h1, h2, h3, h4, h5, (vpush_acc_popped hop hs).2.2.1⟩

/-- the same from the bundled machine invariant `VmOk` -/
theorem vpush_acc_is_pointer_vmOk (ext : ExtOps) (ecl : ExtCodeLawsV ext) (vl : VecPushLaw ext) (s s' : St CHeap)
    (b : Bool) (h : VmOk ext ecl s) (ni : noInlineVecB s = true) (hop : opAt s .vpushAcc)
    (hs : step (concreteOps ext) s = .ok (s', b)) :
    ∃ p es, s'.acc = .ptr p ∧ s.stack.cells[s.stack.sp]? = some (.ptr p) ∧
      s.heap.cells[p]? = some (.vector es) ∧ NF s.heap p ∧ isInlineVec s'.acc = false ∧
      s'.stack = { s.stack with sp := s.stack.sp - 1 } :=
  vpush_acc_is_pointer ext vl s s' b h.1 ni hop hs

/-- with no hypothesis at all: `%acc` after VPUSH is the cell that was on top of the live stack -/
theorem vpush_acc_is_popped_cell (ext : ExtOps) (s s' : St CHeap) (b : Bool) (hop : opAt s .vpushAcc)
    (hs : step (concreteOps ext) s = .ok (s', b)) :
    0 < s.stack.sp ∧ s.stack.cells[s.stack.sp]? = some s'.acc ∧ s'.stack = { s.stack with sp := s.stack.sp - 1 } :=
  let h := vpush_acc_popped hop hs
  ⟨h.1, h.2.1, h.2.2.1⟩

open VpushWitness in
/-- **pinned counter-witness**: the VPUSH arm as it was before the fix (`stepVpushPinned`), on a four-cell heap
    with the code `VPUSH; HALT`, an empty vector at cell 1 and `Ptr 1` on top of the stack: the state satisfies
    the discipline, the old arm succeeds and leaves the INLINE vector in `%acc` (not `Ptr 1`), the discipline
    fails on its successor; the model's arm (the repaired code) keeps `Ptr 1` and the discipline. -/
theorem vpush_acc_inline_pinned :
    noInlineVecB s0 = true ∧
    accAfter (stepVpushPinned (concreteOps extPush) { s0 with ipO := 1 }) = some (.opaque "v") ∧
    checkAfter (stepVpushPinned (concreteOps extPush) { s0 with ipO := 1 }) = some false ∧
    accAfter (step (concreteOps extPush) s0) = some (.ptr 1) ∧
    checkAfter (step (concreteOps extPush) s0) = some true :=
  vpush_pinned_inline

/-- the law of the unmodelled push is satisfiable -/
example : VecPushLaw VpushWitness.extPush := VpushWitness.extPush_law


end Vpush

end Marwood.Proofs.C03
