import Marwood.Heap.Gc
namespace Marwood.Proofs.C03
end Marwood.Proofs.C03
