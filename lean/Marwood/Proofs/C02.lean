import Marwood.Lemmas.EnvNest
import Marwood.Lemmas.EnvRuntime
import Marwood.Lemmas.EnvOneLevel
/-!
# C02 — lexical scoping: innermost binding wins, closures share mutable locations

* `static_resolution`, `static_resolution_global` (T02.1): for a syntactic nest of lambda forms of
  any depth, a name referenced in the innermost body compiles to an environment slot iff some
  level binds it; the chain of `IofEnvironment` links from that slot runs through exactly the
  levels that do not bind the name and ends at the `Argument` / `InternalDefinition` entry of the
  level the specification's `resolve` selects. Holds for every order in which the `HashSet`s of
  free and internally defined symbols are iterated (`ord`).
* `free_handed_down` (key lemma): the free-symbol analysis hands every name down through the
  intermediate levels (quasiquote-free grammar; `find_free_symbols_in_proc` returns early on
  `quasiquote`, which is outside the scope-skeleton language).
-/
namespace Marwood.Proofs.C02
open Marwood.Scope Marwood.Spec.Scope Marwood.Vm.Env

/-- `resolve` stops at the innermost frame that binds the name -/
theorem resolve_innermost (x : Name) (fr : Frame) (ρ : Chain) (l : Loc) (h : fr.find? x = some l) :
    resolve x (fr :: ρ) = some l := by
  simp [resolve, h]

/-- a frame that does not bind the name is transparent -/
theorem resolve_skip (x : Name) (fr : Frame) (ρ : Chain) (h : fr.find? x = none) :
    resolve x (fr :: ρ) = resolve x ρ := by
  simp [resolve, h]

theorem find?_isSome_iff (x : Name) (fr : Frame) : (fr.find? x).isSome ↔ x ∈ fr.names := by
  induction fr with
  | nil => simp [Frame.find?, Frame.names]
  | cons p fr ih =>
    obtain ⟨y, l⟩ := p
    simp only [Frame.find?, Frame.names, List.map_cons, List.mem_cons]
    split
    · next h => simp [h]
    · next h =>
      have : ¬ x = y := fun hh => h hh.symm
      simp only [this, false_or]
      exact ih

/-- the level the interpreter's `resolve` stops at is the static `resolveIdx` of the binder sets -/
theorem resolveLevel_eq_resolveIdx (x : Name) (ρ : Chain) :
    resolveLevel x ρ = resolveIdx x (ρ.map Frame.names) := by
  induction ρ with
  | nil => rfl
  | cons fr ρ ih =>
    simp only [resolveLevel, List.map_cons, resolveIdx]
    cases h : fr.find? x with
    | some l =>
      have : x ∈ fr.names := (find?_isSome_iff x fr).mp (by simp [h])
      simp [this]
    | none =>
      have : x ∉ fr.names := fun hh => by
        have := (find?_isSome_iff x fr).mpr hh
        simp [h] at this
      simp [this, ih]

/-- whatever order the `HashSet`s of one lambda form are iterated in -/
def SameSets (ord : Node → Level) : Prop :=
  ∀ n, (ord n).args = n.level.args ∧ (∀ x, x ∈ (ord n).internal ↔ x ∈ n.level.internal) ∧
    (∀ x, x ∈ (ord n).free ↔ x ∈ n.level.free)

theorem SameSets.binders {ord : Node → Level} (h : SameSets ord) (n : Node) (x : Name) :
    x ∈ (ord n).binders ↔ x ∈ n.level.binders := by
  obtain ⟨h1, h2, _⟩ := h n
  simp [Level.binders, h1, h2]

theorem isNest_prefix (a b : List Node) (h : IsNest (a ++ b)) : IsNest a := by
  induction a with
  | nil => trivial
  | cons n a ih =>
    cases a with
    | nil => trivial
    | cons m a' => exact ⟨h.1, ih h.2⟩

/-- **T02.1, unbound case.** A name no enclosing lambda form binds is compiled as a global
    reference, at any depth. -/
theorem static_resolution_global (ord : Node → Level) (hord : SameSets ord) (nodes : List Node) (x : Name)
    (h : ∀ m ∈ nodes, x ∉ m.level.binders) :
    resolveIdx x ((nodes.map ord).map Level.binders) = none ∧
    bindingLocation (ctxOf (nodes.map ord)) x = .global := by
  have h' : ∀ l ∈ nodes.map ord, x ∉ l.binders := by
    intro l hl
    rw [List.mem_map] at hl
    obtain ⟨n, hn, rfl⟩ := hl
    exact fun hh => h n hn ((hord.binders n x).mp hh)
  refine ⟨resolveIdx_none _ x h', ?_⟩
  obtain ⟨h1, h2⟩ := unbound_global _ x h'
  simp [bindingLocation, slotOf_eq_entryOf, h1, h2]

/-- **T02.1, bound case.** `inner ++ n :: outer` is a syntactic nest of lambda forms, innermost
    first; `x` is referenced (read, assigned or defined) in the innermost body, the forms `inner`
    do not bind it and `n` does. Then `resolve` selects level `inner.length`, the reference
    compiles to an environment slot `s`, and following the `IofEnvironment` links from `s` through
    `inner.length` levels ends at slot `t` of `n`'s map, which is the first entry for `x` there and
    is `n`'s own `Argument` or `InternalDefinition` entry. -/
theorem static_resolution (ord : Node → Level) (hord : SameSets ord)
    (inner : List Node) (n : Node) (outer : List Node) (x : Name)
    (hnest : IsNest (inner ++ n :: outer))
    (href : ∀ h ∈ (inner ++ [n]).head?, x ∈ h.refs)
    (hinner : ∀ m ∈ inner, x ∉ m.level.binders) (hn : x ∈ n.level.binders) :
    resolveIdx x (((inner ++ n :: outer).map ord).map Level.binders) = some inner.length ∧
    ∃ s t src, bindingLocation (ctxOf ((inner ++ n :: outer).map ord)) x = .env s ∧
      follow ((inner ++ n :: outer).map ord) s = some (inner.length, t, src) ∧
      entryOf (ctxOf ((n :: outer).map ord)).envmap x = some (t, src) ∧
      BinderEntry (ord n) x src := by
  have hfree : ∀ m ∈ inner, x ∈ m.level.free := by
    apply free_through_nest inner (isNest_prefix _ _ hnest) x hinner
    intro h hh
    cases inner with
    | nil => simp at hh
    | cons i inner' =>
      simp only [List.head?_cons, Option.mem_def, Option.some.injEq] at hh
      subst hh
      have := href i (by simp)
      rcases refs_free_or_bound i x this with hf | hb
      · exact hf
      · exact absurd hb (hinner i (by simp))
  have hinner' : ∀ l ∈ inner.map ord, x ∉ l.binders ∧ x ∈ l.free := by
    intro l hl
    rw [List.mem_map] at hl
    obtain ⟨m, hm, rfl⟩ := hl
    exact ⟨fun hh => hinner m hm ((hord.binders m x).mp hh), ((hord m).2.2 x).mpr (hfree m hm)⟩
  have hn' : x ∈ (ord n).binders := (hord.binders n x).mpr hn
  have e : (inner ++ n :: outer).map ord = inner.map ord ++ ord n :: outer.map ord := by simp
  rw [e]
  constructor
  · have := resolveIdx_nest (inner.map ord) (ord n) (outer.map ord) x (fun l hl => (hinner' l hl).1) hn'
    simpa using this
  · have := chain_to_binder (inner.map ord) (ord n) (outer.map ord) x hinner' hn'
    simpa using this

/-- the hypotheses of `static_resolution` are satisfiable: `(lambda (a) (lambda b (lambda () (rd 1 a))))`,
    the reference to `a` two levels below its binder, across a level that binds something else -/
example : ∃ s t, bindingLocation (ctxOf ([⟨false, [], none, .nil, .cons (.ref 1 0) .nil⟩,
      ⟨false, [], some 1, .nil, .cons (.lam [] none .nil (.cons (.ref 1 0) .nil)) .nil⟩,
      ⟨false, [0], none, .nil, .cons (.lam [] (some 1) .nil (.cons (.lam [] none .nil (.cons (.ref 1 0) .nil)) .nil)) .nil⟩].map
        Node.level)) 0 = .env s ∧
    follow ([⟨false, [], none, .nil, .cons (.ref 1 0) .nil⟩,
      ⟨false, [], some 1, .nil, .cons (.lam [] none .nil (.cons (.ref 1 0) .nil)) .nil⟩,
      ⟨false, [0], none, .nil, .cons (.lam [] (some 1) .nil (.cons (.lam [] none .nil (.cons (.ref 1 0) .nil)) .nil)) .nil⟩].map
        Node.level) s = some (2, t, .argument 0) := ⟨0, 0, by decide, by decide⟩

/-! ## T02.3: sharing and separation of locations at run time -/

variable {α : Type}

/-- **T02.3, sharing.** Two closures created by CLOSURE in the same activation (environment `ep`)
    — at heaps `h` and `h'`, anything allowed by `Evolves` happening in between — whose maps take
    `x` from the same slot `k` of the creating lambda's map: in every later heap both closure
    environments denote, for `x`, the one location slot `k` denoted in the creating activation. -/
theorem closures_share_location (h h1 h' h2 : Envs α) (ep c1 c2 : Nat) (args1 args2 : List α)
    (em1 em2 : Envmap)
    (hb1 : buildClosureEnvironment h ep args1 em1 = .ok (h1, c1)) (hev : Evolves h1 h')
    (hb2 : buildClosureEnvironment h' ep args2 em2 = .ok (h2, c2))
    (s1 s2 : Nat) (x : Name) (k : Nat)
    (he1 : em1[s1]? = some (x, .iofEnv k)) (he2 : em2[s2]? = some (x, .iofEnv k))
    (r : Nat × Nat) (ht : target h ep k = .ok r) :
    target h2 c1 s1 = .ok r ∧ target h2 c2 s2 = .ok r := by
  have e01 := buildClosureEnvironment_evolves h h1 ep c1 args1 em1 hb1
  have e12 := buildClosureEnvironment_evolves h' h2 ep c2 args2 em2 hb2
  obtain ⟨_, a1, ha1, hg1⟩ := closure_captures h h1 ep c1 args1 em1 hb1 s1 x k he1 r ht
  have t1 : target h1 c1 s1 = .ok r := by rw [target_eq h1 c1 s1 a1 _ ha1 hg1]
  have ht' : target h' ep k = .ok r := target_stable (e01.trans hev) ep k r ht
  obtain ⟨_, a2, ha2, hg2⟩ := closure_captures h' h2 ep c2 args2 em2 hb2 s2 x k he2 r ht'
  exact ⟨target_stable (hev.trans e12) c1 s1 r t1, by rw [target_eq h2 c2 s2 a2 _ ha2 hg2]⟩

/-- **T02.3, an activation keeps the closure's pointers.** ENTER clones the closure environment:
    for a captured variable the activation's slot denotes the location the closure's slot points
    to. With `closures_share_location`: every activation of every closure created in one
    activation reads and writes `x` at the same location. -/
theorem activation_keeps_location (g g1 : Envs α) (c a : Nat) (args : List α) (em : Envmap)
    (hb : buildLexicalEnvironment g c args em = .ok (g1, a))
    (s : Nat) (x : Name) (k : Nat) (he : em[s]? = some (x, .iofEnv k))
    (carr : Array (Slot α)) (hc : g.envs[c]? = some carr) (p q : Nat) (hp : carr[s]? = some (.ptr p q)) :
    target g1 a s = .ok (p, q) := by
  obtain ⟨_, arr, v, harr, hv, hact⟩ := activation_slots g g1 c a args em hb s x _ he carr hc _ hp
  simp only [activationSlot, Except.ok.injEq] at hact
  subst hact
  rw [target_eq g1 a s arr _ harr hv]

/-- **T02.3, separation.** Two activations (two ENTERs, of the same or of different closures) get
    two different environments; a parameter of each lives in its own activation's environment. -/
theorem activations_separate (g g1 g' g2 : Envs α) (c c' a1 a2 : Nat) (args args' : List α) (em em' : Envmap)
    (hb1 : buildLexicalEnvironment g c args em = .ok (g1, a1)) (hev : Evolves g1 g')
    (hb2 : buildLexicalEnvironment g' c' args' em' = .ok (g2, a2))
    (s s' : Nat) (x : Name) (n n' : Nat)
    (he : em[s]? = some (x, .argument n)) (he' : em'[s']? = some (x, .argument n'))
    (carr carr' : Array (Slot α)) (hc : g.envs[c]? = some carr) (hc' : g'.envs[c']? = some carr')
    (old old' : Slot α) (ho : carr[s]? = some old) (ho' : carr'[s']? = some old') :
    a1 ≠ a2 ∧ target g2 a1 s = .ok (a1, s) ∧ target g2 a2 s' = .ok (a2, s') := by
  obtain ⟨rfl, arr, v, harr, hv, hact⟩ := activation_slots g g1 c a1 args em hb1 s x _ he carr hc old ho
  obtain ⟨rfl, arr', v', harr', hv', hact'⟩ := activation_slots g' g2 c' a2 args' em' hb2 s' x _ he' carr' hc' old' ho'
  have e12 := buildLexicalEnvironment_evolves g' g2 c' _ args' em' hb2
  have hlt : g.envs.size < g1.envs.size := by
    rcases Nat.lt_or_ge g.envs.size g1.envs.size with h | h
    · exact h
    · simp [Array.getElem?_eq_none h] at harr
  have hne : g.envs.size ≠ g'.envs.size := Nat.ne_of_lt (Nat.lt_of_lt_of_le hlt hev.1)
  have hval : ∀ w, activationSlot c args s old (.argument n) = .ok w → ∃ u, w = .val u := by
    intro w hw
    simp only [activationSlot] at hw
    split at hw
    · cases hw; exact ⟨_, rfl⟩
    · cases hw
  have hval' : ∀ w, activationSlot c' args' s' old' (.argument n') = .ok w → ∃ u, w = .val u := by
    intro w hw
    simp only [activationSlot] at hw
    split at hw
    · cases hw; exact ⟨_, rfl⟩
    · cases hw
  obtain ⟨u, rfl⟩ := hval v hact
  obtain ⟨u', rfl⟩ := hval' v' hact'
  refine ⟨hne, ?_, by rw [target_eq g2 _ s' arr' _ harr' hv']⟩
  apply target_stable (hev.trans e12)
  rw [target_eq g1 _ s arr _ harr hv]

/-- **T02.3, the binding outlives its creator.** Nothing a later CLOSURE, ENTER or assignment does
    removes an environment or changes which location a slot denotes (environments are heap
    cells, not stack frames; that the collector keeps them is C03). -/
theorem location_survives {h h' : Envs α} (hev : Evolves h h') (e s : Nat) (r : Nat × Nat)
    (ht : target h e s = .ok r) : target h' e s = .ok r := target_stable hev e s r ht

/-- **T02.2, one level of indirection.** The invariant "every `LexicalEnvPtr` points at a slot that
    holds a value, not a pointer" holds of the empty heap and is preserved by CLOSURE, ENTER and
    assignment — the only operations that create or modify lexical environments; and under it an
    assignment changes no slot's kind. -/
theorem one_level_invariant :
    OneLevel ({} : Envs α) ∧
    (∀ (h h1 : Envs α) (ep c : Nat) (args : List α) (em : Envmap), OneLevel h →
      buildClosureEnvironment h ep args em = .ok (h1, c) → OneLevel h1 ∧ Evolves h h1) ∧
    (∀ (h h1 : Envs α) (cenv a : Nat) (args : List α) (em : Envmap), OneLevel h →
      buildLexicalEnvironment h cenv args em = .ok (h1, a) → OneLevel h1 ∧ Evolves h h1) ∧
    (∀ (h h' : Envs α) (ep s : Nat) (v : α), OneLevel h →
      store h ep s v = .ok h' → OneLevel h' ∧ Evolves h h') :=
  ⟨OneLevel.empty,
   fun h h1 ep c args em ho hb => ⟨buildClosureEnvironment_oneLevel h h1 ho ep c args em hb,
                                   buildClosureEnvironment_evolves h h1 ep c args em hb⟩,
   fun h h1 cenv a args em ho hb => ⟨buildLexicalEnvironment_oneLevel h h1 ho cenv a args em hb,
                                     buildLexicalEnvironment_evolves h h1 cenv a args em hb⟩,
   fun h h' ep s v ho hs => ⟨store_oneLevel h h' ho ep s v hs, store_evolves_of_oneLevel h h' ho ep s v hs⟩⟩

/-- **T02.3, one mutable location.** An assignment through any slot operand is seen by a load
    through every slot operand that denotes the same location — the creating activation, its
    closures' activations, at any later time. -/
theorem shared_location_write_read (h h' : Envs α) (hone : OneLevel h) (ep s : Nat) (v : α)
    (hs : store h ep s v = .ok h') (e t : Nat) (ht : target h ep s = .ok (e, t))
    (ep2 s2 : Nat) (ht2 : target h ep2 s2 = .ok (e, t)) : load h' ep2 s2 = .ok (.val v) :=
  load_after_store_of_oneLevel h h' hone ep s v hs e t ht ep2 s2 ht2

/-- the hypotheses of the run-time theorems are satisfiable: an activation with `x` in slot 0,
    two closures capturing it, one activated; a write through the activation is read through the
    other closure's slot -/
example :
    let h0 : Envs Nat := ⟨#[#[.val 7]]⟩
    (do let (h1, c1) ← buildClosureEnvironment h0 0 [] [(0, .iofEnv 0)]
        let (h2, c2) ← buildClosureEnvironment h1 0 [] [(5, .argument 0), (0, .iofEnv 0)]
        let (h3, a2) ← buildLexicalEnvironment h2 c2 [9] [(5, .argument 0), (0, .iofEnv 0)]
        let h4 ← store h3 a2 1 42
        let t1 ← target h4 c1 0
        let t2 ← target h4 a2 1
        let v ← load h4 c1 0
        pure (c1, c2, a2, t1, t2, match v with | .val n => n | _ => 0)) =
      (.ok (1, 2, 3, (0, 0), (0, 0), 42) : Except Fault _) := by
  rfl

end Marwood.Proofs.C02
