import Marwood.Lemmas.EnvNest
import Marwood.Lemmas.EnvRuntime
import Marwood.Lemmas.EnvOneLevel
import Marwood.Lemmas.EnvRefineBinder
import Marwood.Lemmas.EnvRefineReach
import Marwood.Lemmas.EnvRefineSpec
/-!
# C02 — lexical scoping: innermost binding wins, closures share mutable locations

* `static_resolution`, `static_resolution_global` (T02.1): for a syntactic nest of lambda forms of
  any depth, a name referenced in the innermost body compiles to an environment slot iff some
  level binds it; the chain of `IofEnvironment` links from that slot runs through exactly the
  levels that do not bind the name and ends at the `Argument` / `InternalDefinition` entry of the
  level the specification's `resolve` selects. Holds for every order in which the `HashSet`s of
  free and internally defined symbols are iterated (`ord`).
* `free_handed_down` (key lemma): the free-symbol analysis hands every name down through the
  intermediate levels (quasiquote-free grammar; `find_free_symbols_in_proc` returns early on
  `quasiquote`, which is outside the scope-skeleton language).
-/
namespace Marwood.Proofs.C02
open Marwood.Scope Marwood.Spec.Scope Marwood.Vm.Env

/-- `resolve` stops at the innermost frame that binds the name -/
theorem resolve_innermost (x : Name) (fr : Frame) (ρ : Chain) (l : Loc) (h : fr.find? x = some l) :
    resolve x (fr :: ρ) = some l := by
  simp [resolve, h]

/-- a frame that does not bind the name is transparent -/
theorem resolve_skip (x : Name) (fr : Frame) (ρ : Chain) (h : fr.find? x = none) :
    resolve x (fr :: ρ) = resolve x ρ := by
  simp [resolve, h]

theorem find?_isSome_iff (x : Name) (fr : Frame) : (fr.find? x).isSome ↔ x ∈ fr.names := by
  induction fr with
  | nil => simp [Frame.find?, Frame.names]
  | cons p fr ih =>
    obtain ⟨y, l⟩ := p
    simp only [Frame.find?, Frame.names, List.map_cons, List.mem_cons]
    split
    · next h => simp [h]
    · next h =>
      have : ¬ x = y := fun hh => h hh.symm
      simp only [this, false_or]
      exact ih

/-- the level the interpreter's `resolve` stops at is the static `resolveIdx` of the binder sets -/
theorem resolveLevel_eq_resolveIdx (x : Name) (ρ : Chain) :
    resolveLevel x ρ = resolveIdx x (ρ.map Frame.names) := by
  induction ρ with
  | nil => rfl
  | cons fr ρ ih =>
    simp only [resolveLevel, List.map_cons, resolveIdx]
    cases h : fr.find? x with
    | some l =>
      have : x ∈ fr.names := (find?_isSome_iff x fr).mp (by simp [h])
      simp [this]
    | none =>
      have : x ∉ fr.names := fun hh => by
        have := (find?_isSome_iff x fr).mpr hh
        simp [h] at this
      simp [this, ih]

/-- whatever order the `HashSet`s of one lambda form are iterated in -/
def SameSets (ord : Node → Level) : Prop :=
  ∀ n, (ord n).args = n.level.args ∧ (∀ x, x ∈ (ord n).internal ↔ x ∈ n.level.internal) ∧
    (∀ x, x ∈ (ord n).free ↔ x ∈ n.level.free)

theorem SameSets.binders {ord : Node → Level} (h : SameSets ord) (n : Node) (x : Name) :
    x ∈ (ord n).binders ↔ x ∈ n.level.binders := by
  obtain ⟨h1, h2, _⟩ := h n
  simp [Level.binders, h1, h2]

theorem isNest_prefix (a b : List Node) (h : IsNest (a ++ b)) : IsNest a := by
  induction a with
  | nil => trivial
  | cons n a ih =>
    cases a with
    | nil => trivial
    | cons m a' => exact ⟨h.1, ih h.2⟩

/-- **T02.1, unbound case.** A name no enclosing lambda form binds is compiled as a global
    reference, at any depth. -/
theorem static_resolution_global (ord : Node → Level) (hord : SameSets ord) (nodes : List Node) (x : Name)
    (h : ∀ m ∈ nodes, x ∉ m.level.binders) :
    resolveIdx x ((nodes.map ord).map Level.binders) = none ∧
    bindingLocation (ctxOf (nodes.map ord)) x = .global := by
  have h' : ∀ l ∈ nodes.map ord, x ∉ l.binders := by
    intro l hl
    rw [List.mem_map] at hl
    obtain ⟨n, hn, rfl⟩ := hl
    exact fun hh => h n hn ((hord.binders n x).mp hh)
  refine ⟨resolveIdx_none _ x h', ?_⟩
  obtain ⟨h1, h2⟩ := unbound_global _ x h'
  simp [bindingLocation, slotOf_eq_entryOf, h1, h2]

/-- **T02.1, bound case.** `inner ++ n :: outer` is a syntactic nest of lambda forms, innermost
    first; `x` is referenced (read, assigned or defined) in the innermost body, the forms `inner`
    do not bind it and `n` does. Then `resolve` selects level `inner.length`, the reference
    compiles to an environment slot `s`, and following the `IofEnvironment` links from `s` through
    `inner.length` levels ends at slot `t` of `n`'s map, which is the first entry for `x` there and
    is `n`'s own `Argument` or `InternalDefinition` entry. -/
theorem static_resolution (ord : Node → Level) (hord : SameSets ord)
    (inner : List Node) (n : Node) (outer : List Node) (x : Name)
    (hnest : IsNest (inner ++ n :: outer))
    (href : ∀ h ∈ (inner ++ [n]).head?, x ∈ h.refs)
    (hinner : ∀ m ∈ inner, x ∉ m.level.binders) (hn : x ∈ n.level.binders) :
    resolveIdx x (((inner ++ n :: outer).map ord).map Level.binders) = some inner.length ∧
    ∃ s t src, bindingLocation (ctxOf ((inner ++ n :: outer).map ord)) x = .env s ∧
      follow ((inner ++ n :: outer).map ord) s = some (inner.length, t, src) ∧
      entryOf (ctxOf ((n :: outer).map ord)).envmap x = some (t, src) ∧
      BinderEntry (ord n) x src := by
  have hfree : ∀ m ∈ inner, x ∈ m.level.free := by
    apply free_through_nest inner (isNest_prefix _ _ hnest) x hinner
    intro h hh
    cases inner with
    | nil => simp at hh
    | cons i inner' =>
      simp only [List.head?_cons, Option.mem_def, Option.some.injEq] at hh
      subst hh
      have := href i (by simp)
      rcases refs_free_or_bound i x this with hf | hb
      · exact hf
      · exact absurd hb (hinner i (by simp))
  have hinner' : ∀ l ∈ inner.map ord, x ∉ l.binders ∧ x ∈ l.free := by
    intro l hl
    rw [List.mem_map] at hl
    obtain ⟨m, hm, rfl⟩ := hl
    exact ⟨fun hh => hinner m hm ((hord.binders m x).mp hh), ((hord m).2.2 x).mpr (hfree m hm)⟩
  have hn' : x ∈ (ord n).binders := (hord.binders n x).mpr hn
  have e : (inner ++ n :: outer).map ord = inner.map ord ++ ord n :: outer.map ord := by simp
  rw [e]
  constructor
  · have := resolveIdx_nest (inner.map ord) (ord n) (outer.map ord) x (fun l hl => (hinner' l hl).1) hn'
    simpa using this
  · have := chain_to_binder (inner.map ord) (ord n) (outer.map ord) x hinner' hn'
    simpa using this

/-- the hypotheses of `static_resolution` are satisfiable: `(lambda (a) (lambda b (lambda () (rd 1 a))))`,
    the reference to `a` two levels below its binder, across a level that binds something else -/
example : ∃ s t, bindingLocation (ctxOf ([⟨false, [], none, .nil, .cons (.ref 1 0) .nil⟩,
      ⟨false, [], some 1, .nil, .cons (.lam [] none .nil (.cons (.ref 1 0) .nil)) .nil⟩,
      ⟨false, [0], none, .nil, .cons (.lam [] (some 1) .nil (.cons (.lam [] none .nil (.cons (.ref 1 0) .nil)) .nil)) .nil⟩].map
        Node.level)) 0 = .env s ∧
    follow ([⟨false, [], none, .nil, .cons (.ref 1 0) .nil⟩,
      ⟨false, [], some 1, .nil, .cons (.lam [] none .nil (.cons (.ref 1 0) .nil)) .nil⟩,
      ⟨false, [0], none, .nil, .cons (.lam [] (some 1) .nil (.cons (.lam [] none .nil (.cons (.ref 1 0) .nil)) .nil)) .nil⟩].map
        Node.level) s = some (2, t, .argument 0) := ⟨0, 0, by decide, by decide⟩

/-! ## T02.3: sharing and separation of locations at run time -/

variable {α : Type}

/-- **T02.3, sharing.** Two closures created by CLOSURE in the same activation (environment `ep`)
    — at heaps `h` and `h'`, anything allowed by `Evolves` happening in between — whose maps take
    `x` from the same slot `k` of the creating lambda's map: in every later heap both closure
    environments denote, for `x`, the one location slot `k` denoted in the creating activation. -/
theorem closures_share_location (h h1 h' h2 : Envs α) (ep c1 c2 : Nat) (args1 args2 : List α)
    (em1 em2 : Envmap)
    (hb1 : buildClosureEnvironment h ep args1 em1 = .ok (h1, c1)) (hev : Evolves h1 h')
    (hb2 : buildClosureEnvironment h' ep args2 em2 = .ok (h2, c2))
    (s1 s2 : Nat) (x : Name) (k : Nat)
    (he1 : em1[s1]? = some (x, .iofEnv k)) (he2 : em2[s2]? = some (x, .iofEnv k))
    (r : Nat × Nat) (ht : target h ep k = .ok r) :
    target h2 c1 s1 = .ok r ∧ target h2 c2 s2 = .ok r := by
  have e01 := buildClosureEnvironment_evolves h h1 ep c1 args1 em1 hb1
  have e12 := buildClosureEnvironment_evolves h' h2 ep c2 args2 em2 hb2
  obtain ⟨_, a1, ha1, hg1⟩ := closure_captures h h1 ep c1 args1 em1 hb1 s1 x k he1 r ht
  have t1 : target h1 c1 s1 = .ok r := by rw [target_eq h1 c1 s1 a1 _ ha1 hg1]
  have ht' : target h' ep k = .ok r := target_stable (e01.trans hev) ep k r ht
  obtain ⟨_, a2, ha2, hg2⟩ := closure_captures h' h2 ep c2 args2 em2 hb2 s2 x k he2 r ht'
  exact ⟨target_stable (hev.trans e12) c1 s1 r t1, by rw [target_eq h2 c2 s2 a2 _ ha2 hg2]⟩

/-- **T02.3, an activation keeps the closure's pointers.** ENTER clones the closure environment:
    for a captured variable the activation's slot denotes the location the closure's slot points
    to. With `closures_share_location`: every activation of every closure created in one
    activation reads and writes `x` at the same location. -/
theorem activation_keeps_location (g g1 : Envs α) (c a : Nat) (args : List α) (em : Envmap)
    (hb : buildLexicalEnvironment g c args em = .ok (g1, a))
    (s : Nat) (x : Name) (k : Nat) (he : em[s]? = some (x, .iofEnv k))
    (carr : Array (Slot α)) (hc : g.envs[c]? = some carr) (p q : Nat) (hp : carr[s]? = some (.ptr p q)) :
    target g1 a s = .ok (p, q) := by
  obtain ⟨_, arr, v, harr, hv, hact⟩ := activation_slots g g1 c a args em hb s x _ he carr hc _ hp
  simp only [activationSlot, Except.ok.injEq] at hact
  subst hact
  rw [target_eq g1 a s arr _ harr hv]

/-- **T02.3, separation.** Two activations (two ENTERs, of the same or of different closures) get
    two different environments; a parameter of each lives in its own activation's environment. -/
theorem activations_separate (g g1 g' g2 : Envs α) (c c' a1 a2 : Nat) (args args' : List α) (em em' : Envmap)
    (hb1 : buildLexicalEnvironment g c args em = .ok (g1, a1)) (hev : Evolves g1 g')
    (hb2 : buildLexicalEnvironment g' c' args' em' = .ok (g2, a2))
    (s s' : Nat) (x : Name) (n n' : Nat)
    (he : em[s]? = some (x, .argument n)) (he' : em'[s']? = some (x, .argument n'))
    (carr carr' : Array (Slot α)) (hc : g.envs[c]? = some carr) (hc' : g'.envs[c']? = some carr')
    (old old' : Slot α) (ho : carr[s]? = some old) (ho' : carr'[s']? = some old') :
    a1 ≠ a2 ∧ target g2 a1 s = .ok (a1, s) ∧ target g2 a2 s' = .ok (a2, s') := by
  obtain ⟨rfl, arr, v, harr, hv, hact⟩ := activation_slots g g1 c a1 args em hb1 s x _ he carr hc old ho
  obtain ⟨rfl, arr', v', harr', hv', hact'⟩ := activation_slots g' g2 c' a2 args' em' hb2 s' x _ he' carr' hc' old' ho'
  have e12 := buildLexicalEnvironment_evolves g' g2 c' _ args' em' hb2
  have hlt : g.envs.size < g1.envs.size := by
    rcases Nat.lt_or_ge g.envs.size g1.envs.size with h | h
    · exact h
    · simp [Array.getElem?_eq_none h] at harr
  have hne : g.envs.size ≠ g'.envs.size := Nat.ne_of_lt (Nat.lt_of_lt_of_le hlt hev.1)
  have hval : ∀ w, activationSlot c args s old (.argument n) = .ok w → ∃ u, w = .val u := by
    intro w hw
    simp only [activationSlot] at hw
    split at hw
    · cases hw; exact ⟨_, rfl⟩
    · cases hw
  have hval' : ∀ w, activationSlot c' args' s' old' (.argument n') = .ok w → ∃ u, w = .val u := by
    intro w hw
    simp only [activationSlot] at hw
    split at hw
    · cases hw; exact ⟨_, rfl⟩
    · cases hw
  obtain ⟨u, rfl⟩ := hval v hact
  obtain ⟨u', rfl⟩ := hval' v' hact'
  refine ⟨hne, ?_, by rw [target_eq g2 _ s' arr' _ harr' hv']⟩
  apply target_stable (hev.trans e12)
  rw [target_eq g1 _ s arr _ harr hv]

/-- **T02.3, the binding outlives its creator.** Nothing a later CLOSURE, ENTER or assignment does
    removes an environment or changes which location a slot denotes (environments are heap
    cells, not stack frames; that the collector keeps them is C03). -/
theorem location_survives {h h' : Envs α} (hev : Evolves h h') (e s : Nat) (r : Nat × Nat)
    (ht : target h e s = .ok r) : target h' e s = .ok r := target_stable hev e s r ht

/-- **T02.2, one level of indirection.** The invariant "every `LexicalEnvPtr` points at a slot that
    holds a value, not a pointer" holds of the empty heap and is preserved by CLOSURE, ENTER and
    assignment — the only operations that create or modify lexical environments; and under it an
    assignment changes no slot's kind. -/
theorem one_level_invariant :
    OneLevel ({} : Envs α) ∧
    (∀ (h h1 : Envs α) (ep c : Nat) (args : List α) (em : Envmap), OneLevel h →
      buildClosureEnvironment h ep args em = .ok (h1, c) → OneLevel h1 ∧ Evolves h h1) ∧
    (∀ (h h1 : Envs α) (cenv a : Nat) (args : List α) (em : Envmap), OneLevel h →
      buildLexicalEnvironment h cenv args em = .ok (h1, a) → OneLevel h1 ∧ Evolves h h1) ∧
    (∀ (h h' : Envs α) (ep s : Nat) (v : α), OneLevel h →
      store h ep s v = .ok h' → OneLevel h' ∧ Evolves h h') :=
  ⟨OneLevel.empty,
   fun h h1 ep c args em ho hb => ⟨buildClosureEnvironment_oneLevel h h1 ho ep c args em hb,
                                   buildClosureEnvironment_evolves h h1 ep c args em hb⟩,
   fun h h1 cenv a args em ho hb => ⟨buildLexicalEnvironment_oneLevel h h1 ho cenv a args em hb,
                                     buildLexicalEnvironment_evolves h h1 cenv a args em hb⟩,
   fun h h' ep s v ho hs => ⟨store_oneLevel h h' ho ep s v hs, store_evolves_of_oneLevel h h' ho ep s v hs⟩⟩

/-- **T02.3, one mutable location.** An assignment through any slot operand is seen by a load
    through every slot operand that denotes the same location — the creating activation, its
    closures' activations, at any later time. -/
theorem shared_location_write_read (h h' : Envs α) (hone : OneLevel h) (ep s : Nat) (v : α)
    (hs : store h ep s v = .ok h') (e t : Nat) (ht : target h ep s = .ok (e, t))
    (ep2 s2 : Nat) (ht2 : target h ep2 s2 = .ok (e, t)) : load h' ep2 s2 = .ok (.val v) :=
  load_after_store_of_oneLevel h h' hone ep s v hs e t ht ep2 s2 ht2

/-- the hypotheses of the run-time theorems are satisfiable: an activation with `x` in slot 0,
    two closures capturing it, one activated; a write through the activation is read through the
    other closure's slot -/
example :
    let h0 : Envs Nat := ⟨#[#[.val 7]]⟩
    (do let (h1, c1) ← buildClosureEnvironment h0 0 [] [(0, .iofEnv 0)]
        let (h2, c2) ← buildClosureEnvironment h1 0 [] [(5, .argument 0), (0, .iofEnv 0)]
        let (h3, a2) ← buildLexicalEnvironment h2 c2 [9] [(5, .argument 0), (0, .iofEnv 0)]
        let h4 ← store h3 a2 1 42
        let t1 ← target h4 c1 0
        let t2 ← target h4 a2 1
        let v ← load h4 c1 0
        pure (c1, c2, a2, t1, t2, match v with | .val n => n | _ => 0)) =
      (.ok (1, 2, 3, (0, 0), (0, 0), 42) : Except Fault _) := by
  rfl

/-! ## T02.4: the model evaluator refines the specification interpreter

`Vm.EnvRun` resolves variables only through the compiler model's environment maps, the CLOSURE / ENTER
environments and slot pointers; `Spec.Scope` through the scope chain and a location store. The
theorems below relate them for EVERY program of the scope-skeleton language (any nesting depth, any
names, rest parameters, internal definitions plain and sugared, `begin`, loops, `each`).

The simulation relation (`Lemmas/EnvRefineRel.lean`): a partial injection `β` from specification
locations to value slots `(env, slot)`; every frame of a scope chain is the image, index by index, of
the ONE environment ENTER created together with it (`ChainOK`); a model closure's captured entries
are pointers to the `β`-images of the locations its specification twin's chain resolves the names
to (`CloFacts`); stored values, logged values and globals are related pointwise.

Fuel: a `begin` costs the model two levels of fuel (it is the call of a parameterless lambda), so
specification fuel `f` is matched by any model fuel `g ≥ 2 f`.

What is excluded (`faulty`): sessions in which some form of the SPECIFICATION run ends with `unbound`
(a read of a location before its initialisation, or a reference / assignment to an undefined
global) or with `fuel`. On the first two the model — and the real VM — genuinely behave differently
(`refinement_fails_uninitialised`, `refinement_fails_assign_undefined`). -/

open Marwood.Vm.EnvRefine

/-- **T02.4, the full statement**: what an observer sees of the two runs from the empty state — the
    printed outcome of every top-level form and the printed read / write log — is the same. -/
def Refines (f g : Nat) (p : Program) : Prop :=
  (Vm.EnvRun.run g p {}).1.map obsResM = (Spec.Scope.run f p {}).1.map obsResS ∧
  (Vm.EnvRun.run g p {}).2.log.map (fun q => (q.1, obsM q.2)) =
    (Spec.Scope.run f p {}).2.log.map (fun ev => (ev.site, obsS ev.val))

/-- **T02.4 with the simulation relation explicit.** The final states are related by some `β`
    (`StRel`: every mapped location is a live store cell whose slot exists, holds no pointer and holds
    a related value; `β` injective; globals, counter and log related; one level of indirection), and
    the outcomes are related form by form. -/
theorem refinement_relation_partial (f g : Nat) (hg : 2 * f ≤ g) (p : Program)
    (hok : (Spec.Scope.run f p {}).1.any faulty = false) :
    ∃ β, StRel β (Spec.Scope.run f p {}).2 (Vm.EnvRun.run g p {}).2 ∧
      Forall2 (ResRel β (Vm.EnvRun.run g p {}).2.envs) (Spec.Scope.run f p {}).1 (Vm.EnvRun.run g p {}).1 := by
  obtain ⟨β, _, r, hres⟩ := sim_run f g hg p _ _ _ StRel.init hok
  exact ⟨β, r, hres⟩

/-- **T02.4.** For every program, every specification fuel `f` and every model fuel `g ≥ 2 f`: unless
    the specification run hits `unbound` or runs out of fuel, the model evaluator yields the same
    outcomes and the same read / write log as the scope-chain interpreter. -/
theorem refinement_partial (f g : Nat) (hg : 2 * f ≤ g) (p : Program)
    (hok : (Spec.Scope.run f p {}).1.any faulty = false) : Refines f g p := by
  obtain ⟨β, r, hres⟩ := refinement_relation_partial f g hg p hok
  refine ⟨hres.map_eq fun a b h => h.obs, ?_⟩
  exact Forall2.map_eq r.log fun ev q h => by
    obtain ⟨h1, h2⟩ := h
    simp [h1, h2.obs]

/-- **T02.2, second half** (the environment a `LexicalEnvPtr` leads to is the activation environment
    of the binder). In an activation related to the chain `ρ` — the relation `sim_enter` establishes
    at every ENTER and `sims` carries through every evaluation step — the operand compiled for `x`
    denotes slot `i` of environment `e`, where `e = acts[j]` is the environment ENTER created for the
    activation whose frame `ρ[j]` is the one `resolve` stops at, and `i` is the position of the binding
    in that frame. -/
theorem pointer_leads_to_binder_activation {β : LocMap} {h : Envs MVal} {N ctx ep ρ acts}
    (a : ActRel β h N ctx ep ρ acts) (x : Name) (s : Nat) (hs : slotOf ctx.envmap x = some s) :
    ∃ (ae j : Nat) (fr : Frame) (i : Nat) (l : Loc) (e : Nat), ep = some ae ∧ resolveLevel x ρ = some j ∧
      ρ[j]? = some fr ∧ fr[i]? = some (x, l) ∧ fr.find? x = some l ∧ acts[j]? = some e ∧
      target h ae s = .ok (e, i) :=
  a.binder_activation x s hs

/-- the same for the pointers stored in a closure environment -/
theorem closure_pointer_leads_to_binder_activation {β : LocMap} {h : Envs MVal} {fvs octx ctx cenv ρ acts carr}
    (c : CloFacts β h fvs octx ctx cenv ρ acts carr) (s : Nat) (x : Name) (k : Nat)
    (he : ctx.envmap[s]? = some (x, Source.iofEnv k)) :
    ∃ (j : Nat) (fr : Frame) (i : Nat) (l : Loc) (e : Nat), resolveLevel x ρ = some j ∧ ρ[j]? = some fr ∧
      fr[i]? = some (x, l) ∧ fr.find? x = some l ∧ acts[j]? = some e ∧ carr[s]? = some (Slot.ptr e i) :=
  c.binder_activation s x k he

/-- ENTER establishes the relation: the new activation environment is the image of the new frame
    (`bindParams` + `allocDefs`), slot by slot, and the activation is related to the extended chain -/
theorem enter_establishes_relation {β : LocMap} {s : SSt} {t : MSt} {octx cenv ρ acts carr} (r : StRel β s t)
    (sugar : Bool) (ps : List Name) (rst : Option Name) (ds : Defs) (body : Exprs)
    (c : CloFacts β t.envs (fvLam sugar ps rst ds body) octx (compileLam octx sugar ps rst ds body) cenv ρ acts carr)
    (vals : List SVal) (margs : List MVal) (hrel : Forall2 (VRel β t.envs) vals margs)
    (hm : margs.length = (ps ++ rst.toList).length) :
    ∃ (arr : Array (Slot MVal)) (β' : LocMap),
      buildLexicalEnvironment t.envs cenv margs (compileLam octx sugar ps rst ds body).envmap =
        .ok ((t.envs.push arr).1, t.envs.envs.size) ∧
      Ext β t.envs β' (t.envs.push arr).1 ∧
      StRel β' { s with store := s.store ++ vals.toArray ++ (ds.names.map fun _ => Spec.Scope.Val.undef).toArray }
        { t with envs := (t.envs.push arr).1 } ∧
      ActRel β' (t.envs.push arr).1 (needOf sugar ps rst ds body) (compileLam octx sugar ps rst ds body)
        (some t.envs.envs.size)
        ((frameAt (ps ++ rst.toList) s.store.size ++ frameAt ds.names (s.store.size + vals.length)) :: ρ)
        (t.envs.envs.size :: acts) :=
  sim_enter r sugar ps rst ds body c vals margs hrel hm

/-! ### the excluded sessions are genuinely different -/

/-- `((lambda () (define v5 (rd 1 v5)) (rd 2 v5)))`: an internal definition read before its
    initialisation -/
def uninitialisedRead : Program :=
  [.expr (.call (.lam [] none (.cons 5 false (.ref 1 5) .nil) (.cons (.ref 2 5) .nil)) .nil)]

/-- `(set! v7 (wr 1 (tick)))  (rd 2 v7)`: assignment to a global that was never defined -/
def assignUndefined : Program := [.expr (.set 1 7 .fresh), .expr (.ref 2 7)]

/-- the specification reports `unbound`; the model (like the real VM: `#<undefined>`, no error)
    reads the uninitialised slot -/
theorem refinement_fails_uninitialised : ¬ Refines 5 10 uninitialisedRead := by
  intro h
  exact absurd h.1 (by decide)

/-- the specification reports `unbound` twice; the model (like the real VM) lets `set!` define the
    global and then reads it -/
theorem refinement_fails_assign_undefined : ¬ Refines 5 10 assignUndefined := by
  intro h
  exact absurd h.1 (by decide)

example : (Spec.Scope.run 5 uninitialisedRead {}).1.any faulty = true := by decide
example : (Spec.Scope.run 5 assignUndefined {}).1.any faulty = true := by decide

/-! ### the hypotheses are satisfiable: depth 3, shadowing, a shared counter, two activations

```
(define mk (lambda (a)                                   ; a: the counter of this activation
  (define inc (lambda () (set! a (wr 1 (tick))) (rd 2 a)))              ; closure 1 over a
  (define get (lambda (b) (lambda (a) (rd 3 a) (rd 4 b))))              ; depth 3; the inner a shadows
  (lambda (c) ((rd 6 inc)) (rd 5 a) (((rd 7 get) (tick)) (tick)))))      ; closure 2 over a
(define k1 ((rd 8 mk) (tick)))   (define k2 ((rd 8 mk) (tick)))
((rd 9 k1) (tick))   ((rd 9 k2) (tick))   ((rd 9 k1) (tick))
``` -/
def demo : Program :=
  [ .define 10 (.lam [0] none
      (.cons 3 false (.lam [] none .nil (.cons (.set 1 0 .fresh) (.cons (.ref 2 0) .nil)))
        (.cons 4 false (.lam [1] none .nil (.cons (.lam [0] none .nil (.cons (.ref 3 0) (.cons (.ref 4 1) .nil))) .nil))
          .nil))
      (.cons (.lam [2] none .nil
        (.cons (.call (.ref 6 3) .nil) (.cons (.ref 5 0)
          (.cons (.call (.call (.ref 7 4) (.cons .fresh .nil)) (.cons .fresh .nil)) .nil)))) .nil)),
    .define 11 (.call (.ref 8 10) (.cons .fresh .nil)),
    .define 12 (.call (.ref 8 10) (.cons .fresh .nil)),
    .expr (.call (.ref 9 11) (.cons .fresh .nil)),
    .expr (.call (.ref 9 12) (.cons .fresh .nil)),
    .expr (.call (.ref 9 11) (.cons .fresh .nil)) ]

theorem demo_not_faulty : (Spec.Scope.run 12 demo {}).1.any faulty = false := by decide +kernel

example : Refines 12 24 demo := refinement_partial 12 24 (by omega) demo demo_not_faulty

/-- what the specification run of `demo` logs, with locations: sites 1, 2 (closure `inc`) and 5
    (closure 2) hit ONE location per activation of `mk` (1 for `k1`, 5 for `k2`), the value written
    through `inc` is read through the other closure and survives until the next call of `k1`
    (4, then 12), and site 3 reads the innermost `a` (locations 11, 14, 17), never the counter -/
example : (Spec.Scope.run 12 demo {}).2.log.reverse.map (fun ev => (ev.site, ev.loc, obsS ev.val)) =
    [(8, 0, .proc), (8, 0, .proc),
     (9, 4, .proc), (6, 2, .proc), (1, 1, .int 4), (2, 1, .int 4), (5, 1, .int 4), (7, 3, .proc), (3, 11, .int 5), (4, 10, .int 6),
     (9, 8, .proc), (6, 6, .proc), (1, 5, .int 8), (2, 5, .int 8), (5, 5, .int 8), (7, 7, .proc), (3, 14, .int 9), (4, 13, .int 10),
     (9, 4, .proc), (6, 2, .proc), (1, 1, .int 12), (2, 1, .int 12), (5, 1, .int 12), (7, 3, .proc), (3, 17, .int 13), (4, 16, .int 14)] := by
  decide +kernel

/-- and the model evaluator, which knows no names at run time, logs the same sites and values -/
example : (Vm.EnvRun.run 24 demo {}).2.log.reverse.map (fun q => (q.1, obsM q.2)) =
    [(8, .proc), (8, .proc),
     (9, .proc), (6, .proc), (1, .int 4), (2, .int 4), (5, .int 4), (7, .proc), (3, .int 5), (4, .int 6),
     (9, .proc), (6, .proc), (1, .int 8), (2, .int 8), (5, .int 8), (7, .proc), (3, .int 9), (4, .int 10),
     (9, .proc), (6, .proc), (1, .int 12), (2, .int 12), (5, .int 12), (7, .proc), (3, .int 13), (4, .int 14)] := by
  decide +kernel

/-! ### T02.2, first half, in every reachable state (no hypothesis on the program) -/

/-- Every state a session of the model evaluator reaches from the empty state — any program, any
    fuel, whatever errors occur on the way — has one level of indirection: every `LexicalEnvPtr`
    points at a slot that holds a value. (The evaluator changes environments only through
    `buildClosureEnvironment`, `buildLexicalEnvironment` and `store`; `one_level_invariant` says these
    keep the invariant; `keepsAll` is the induction over the evaluator.) -/
theorem reachable_one_level (g : Nat) (p : Program) : OneLevel (Vm.EnvRun.run g p {}).2.envs :=
  (run_keeps g p {} OneLevel.empty).1

/-- …and between any two points of a session no environment is removed, no pointer slot changes and
    no value slot becomes a pointer -/
theorem session_evolves (g : Nat) (p q : Program) :
    Evolves (Vm.EnvRun.run g p {}).2.envs (Vm.EnvRun.run g q (Vm.EnvRun.run g p {}).2).2.envs :=
  (run_keeps g q _ (reachable_one_level g p)).2

/-! ### the four clauses of the property, on the specification interpreter

`refinement_partial` makes them statements about what the model evaluator computes. -/

/-- **Closures share one mutable location per activation**, part 1: a closure carries the chain of
    the activation that created it (so all closures created in one activation carry the same chain) -/
theorem spec_closure_carries_chain (f : Nat) (ρ : Chain) (ps : List Name) (r : Option Name) (ds : Defs)
    (body : Exprs) (s : SSt) :
    exec (Spec.Scope.eval (f + 1) ρ (.lam ps r ds body)) s = (.ok (.clo ps r ds body ρ), s) := rfl

/-- part 2: an application evaluates the body in the closure's chain extended by ONE new frame -/
theorem spec_apply_extends_chain (f : Nat) (ps : List Name) (r : Option Name) (ds : Defs) (body : Exprs)
    (env : Chain) (vs : List SVal) :
    Spec.Scope.apply (f + 1) (.clo ps r ds body env) vs = (do
      let fr ← bindParams ps r vs
      let fr' ← allocDefs ds
      Spec.Scope.evalDefs f ((fr ++ fr') :: env) ds
      Spec.Scope.evalBody f ((fr ++ fr') :: env) body) := rfl

/-- part 3: whatever frames two such applications push, a name neither of them rebinds denotes the
    same location in both — the one the shared chain resolves it to -/
theorem spec_closures_share_location (x : Name) (fr1 fr2 : Frame) (ρ : Chain)
    (h1 : fr1.find? x = none) (h2 : fr2.find? x = none) :
    resolve x (fr1 :: ρ) = resolve x ρ ∧ resolve x (fr2 :: ρ) = resolve x ρ :=
  ⟨resolve_skip x fr1 ρ h1, resolve_skip x fr2 ρ h2⟩

/-- **Separate activations get separate locations**: the frame of a new activation consists of the
    next free locations of the store (none of them handed out before) … -/
theorem spec_activation_gets_fresh_locations (ps : List Name) (r : Option Name) (ds : Defs) (vs vals : List SVal)
    (s : SSt) (hp : paramVals ps r vs = some vals) :
    exec (bindParams ps r vs >>= fun fr => allocDefs ds >>= fun fr' => pure (fr ++ fr')) s =
      (.ok (frameAt (ps ++ r.toList) s.store.size ++ frameAt ds.names (s.store.size + vals.length)),
       { s with store := s.store ++ vals.toArray ++ (ds.names.map fun _ => Spec.Scope.Val.undef).toArray }) ∧
    ∀ (i : Nat) (q : Name × Loc),
      (frameAt (ps ++ r.toList) s.store.size ++ frameAt ds.names (s.store.size + vals.length))[i]? = some q →
      q.2 = s.store.size + i := by
  have hb := exec_bindParams ps r vs s
  rw [hp] at hb
  simp only at hb
  have hvl := paramVals_length ps r vs vals hp
  refine ⟨?_, ?_⟩
  · rw [exec_bind_ok _ _ _ _ _ hb, exec_bind_ok _ _ _ _ _ (exec_allocDefs ds _)]
    simp [exec_pure]
  intro i q hq
  rw [hvl, ← frameAt_append, frameAt_getElem] at hq
  exact hq.2

/-- … and (**bindings outlive their creator**) no step of the interpreter ever shortens the store:
    a location, once allocated, stays allocated for the rest of the session, whether or not the
    activation that created it has returned; so the next activation's locations lie beyond it. -/
theorem spec_store_never_shrinks (f : Nat) (ρ : Chain) (e : Expr) (s : SSt) :
    s.store.size ≤ (exec (Spec.Scope.eval f ρ e) s).2.store.size :=
  (growsAll f).eval ρ e s

theorem spec_apply_never_shrinks (f : Nat) (fv : SVal) (vs : List SVal) (s : SSt) :
    s.store.size ≤ (exec (Spec.Scope.apply f fv vs) s).2.store.size :=
  (growsAll f).apply fv vs s

/-- **C02 in one statement.** For every program of the scope-skeleton language, what the model
    evaluator computes through environment maps, closure / activation environments and slot
    pointers is what the scope-chain interpreter computes (same outcomes, same read / write log) —
    and in that interpreter the innermost binding wins, all closures created in one activation share
    one mutable location per captured name with that activation, separate activations get separate
    locations, and a binding outlives the procedure activation that created it. -/
theorem lexical_scoping_partial (f g : Nat) (hg : 2 * f ≤ g) (p : Program)
    (hok : (Spec.Scope.run f p {}).1.any faulty = false) :
    Refines f g p ∧
    -- the innermost binding wins
    (∀ (x : Name) (fr : Frame) (ρ : Chain) (l : Loc), fr.find? x = some l → resolve x (fr :: ρ) = some l) ∧
    (∀ (x : Name) (fr : Frame) (ρ : Chain), fr.find? x = none → resolve x (fr :: ρ) = resolve x ρ) ∧
    -- closures created in one activation share one location per captured name with that activation
    (∀ (f : Nat) (ρ : Chain) (ps : List Name) (r : Option Name) (ds : Defs) (body : Exprs) (s : SSt),
      exec (Spec.Scope.eval (f + 1) ρ (.lam ps r ds body)) s = (.ok (.clo ps r ds body ρ), s)) ∧
    (∀ (x : Name) (fr1 fr2 : Frame) (ρ : Chain), fr1.find? x = none → fr2.find? x = none →
      resolve x (fr1 :: ρ) = resolve x (fr2 :: ρ)) ∧
    -- separate activations get separate locations: an activation's frame is made of the next free ones
    (∀ (ps : List Name) (r : Option Name) (ds : Defs) (vs vals : List SVal) (s : SSt),
      paramVals ps r vs = some vals → ∀ (i : Nat) (q : Name × Loc),
      (frameAt (ps ++ r.toList) s.store.size ++ frameAt ds.names (s.store.size + vals.length))[i]? = some q →
      q.2 = s.store.size + i) ∧
    -- a binding outlives its creator: no location is ever released
    (∀ (f : Nat) (fv : SVal) (vs : List SVal) (s : SSt),
      s.store.size ≤ (exec (Spec.Scope.apply f fv vs) s).2.store.size) :=
  ⟨refinement_partial f g hg p hok,
   resolve_innermost, resolve_skip,
   spec_closure_carries_chain,
   fun x fr1 fr2 ρ h1 h2 => (resolve_skip x fr1 ρ h1).trans (resolve_skip x fr2 ρ h2).symm,
   fun ps r ds vs vals s hp => (spec_activation_gets_fresh_locations ps r ds vs vals s hp).2,
   spec_apply_never_shrinks⟩

example : Refines 12 24 demo := (lexical_scoping_partial 12 24 (by omega) demo demo_not_faulty).1

end Marwood.Proofs.C02
