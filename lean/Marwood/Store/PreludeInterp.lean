import Marwood.Store.Prelude
import Marwood.Datum
/-!
# A small interpretation function for the library procedures of `prelude.scm`

`Store/Prelude.lean` transcribes the Scheme-defined procedures by hand. This file defines, explicitly
and once, what a top-level `(define …)` form of the subset of Scheme those procedures are written in
*means* over the store model, so that `Lemmas/PreludeInterp.lean` can prove each hand transcription
equal to the image of the **regenerated** datum (`Gen.PreludeProcs.procs`):

* `parseDef : Datum → Option Def` reads a definition into a first-order syntax tree `Expr`
  (variables, constants — integers, booleans, `'()`, a quoted symbol —, `if`, two-armed `and` / `or`,
  `cond` as nested `if`, calls with one, two or three operands, `apply`, a one-binding `letrec` of a
  `lambda` with fixed formals, `begin`); anything else is `none`.
  `(caar x)` is read as `(car (car x))`, the body of the prelude's own `caar`
  (`Store.Prelude.agree_caar` pins that definition).
* `evalE` evaluates an `Expr`: operands left to right (`compile.rs`), a test is true unless it is `#f`,
  a call resolves its operator as parameter (a procedure *value*), `letrec`-bound local procedure,
  Scheme-defined global, builtin — in that order (lexical scoping). Procedure values are
  `VCell.builtin name`, resolved through the table `P` (the builtins, and whatever the caller binds
  a name to — this is how the callee parameter `g` of `map` / `for-each` enters).
* `interp` closes the recursion with the models' fuel convention: a call of a Scheme-defined global
  or local procedure at level `l + 1` evaluates the body at level `l`; at level 0 it diverges.

Core Lean only.
-/
namespace Marwood.Store.Prelude
open Marwood Marwood.Store Marwood.Store.Outcome

inductive Expr
  | var (x : String)
  | const (v : VCell)
  | ite (c t e : Expr)
  | and2 (a b : Expr)
  | or2 (a b : Expr)
  | call1 (f : String) (a : Expr)
  | call2 (f : String) (a b : Expr)
  | call3 (f : String) (a b c : Expr)
  | apply (f : Expr) (lst : Expr)
  | letrec1 (name : String) (formals : List String) (fbody body : Expr)
  | seq (a b : Expr)
deriving DecidableEq, Repr, Inhabited

structure Def where
  name : String
  formals : List String
  rest : Option String
  body : Expr
deriving DecidableEq, Repr, Inhabited

/-! ## reading a definition -/

def symName : Datum → Option String
  | .sym x => some (String.ofList x)
  | _ => none

/-- `(x …)`: a proper list of symbols (the formals of a `letrec`-bound `lambda`) -/
def symList : Datum → Option (List String)
  | .nil => some []
  | .pair (.sym x) more => do some (String.ofList x :: (← symList more))
  | _ => none

/- the expressions; `cond` clauses and `begin` bodies are read by the two helpers (mutual structural
   recursion over the datum) -/
mutual
def parseExpr : Datum → Option Expr
  | .sym x => some (.var (String.ofList x))
  | .bool b => some (.const (.bool b))
  | .num (.fix n) => some (.const (.num n))
  | .pair (.sym f) rest =>
    let f := String.ofList f
    if f == "quote" then
      match rest with
      | .pair .nil .nil => some (.const .nil)
      | .pair (.sym x) .nil => some (.const (.sym x))
      | _ => none
    else if f == "if" then
      match rest with
      | .pair c (.pair t (.pair e .nil)) => do
        some (.ite (← parseExpr c) (← parseExpr t) (← parseExpr e))
      | _ => none
    else if f == "and" then
      match rest with
      | .pair a (.pair b .nil) => do some (.and2 (← parseExpr a) (← parseExpr b))
      | _ => none
    else if f == "or" then
      match rest with
      | .pair a (.pair b .nil) => do some (.or2 (← parseExpr a) (← parseExpr b))
      | _ => none
    else if f == "cond" then parseClauses rest
    else if f == "begin" then parseSeq rest
    else if f == "apply" then
      match rest with
      | .pair g (.pair l .nil) => do some (.apply (← parseExpr g) (← parseExpr l))
      | _ => none
    else if f == "letrec" then
      match rest with
      | .pair (.pair (.pair (.sym name)
            (.pair (.pair (.sym lam) (.pair formals (.pair fbody .nil))) .nil)) .nil)
          (.pair body .nil) =>
        if String.ofList lam == "lambda" then do
          some (.letrec1 (String.ofList name) (← symList formals) (← parseExpr fbody) (← parseExpr body))
        else none
      | _ => none
    else if f == "caar" then
      match rest with
      | .pair a .nil => do some (.call1 "car" (.call1 "car" (← parseExpr a)))
      | _ => none
    else
      match rest with
      | .pair a .nil => do some (.call1 f (← parseExpr a))
      | .pair a (.pair b .nil) => do some (.call2 f (← parseExpr a) (← parseExpr b))
      | .pair a (.pair b (.pair c .nil)) => do some (.call3 f (← parseExpr a) (← parseExpr b) (← parseExpr c))
      | _ => none
  | _ => none

/-- `(cond (test expr) … (else expr))` as nested `if`; a `cond` without `else` is not in the subset -/
def parseClauses : Datum → Option Expr
  | .pair (.pair (.sym e) (.pair x .nil)) .nil =>
    if String.ofList e == "else" then parseExpr x else none
  | .pair (.pair t (.pair x .nil)) more => do
    some (.ite (← parseExpr t) (← parseExpr x) (← parseClauses more))
  | _ => none

def parseSeq : Datum → Option Expr
  | .pair x .nil => parseExpr x
  | .pair x more => do some (.seq (← parseExpr x) (← parseSeq more))
  | _ => none
end

/-- `(name formal … [. rest])` -/
def parseFormals : Datum → Option (List String × Option String)
  | .nil => some ([], none)
  | .sym r => some ([], some (String.ofList r))
  | .pair (.sym x) more => do
    let (xs, r) ← parseFormals more
    some (String.ofList x :: xs, r)
  | _ => none

/-- `(define (name . formals) body)` with a single body expression -/
def parseDef : Datum → Option Def
  | .pair (.sym d) (.pair (.pair (.sym name) formals) (.pair body .nil)) =>
    if String.ofList d == "define" then do
      let (xs, r) ← parseFormals formals
      some ⟨String.ofList name, xs, r, ← parseExpr body⟩
    else none
  | _ => none

/-! ## evaluation -/

/-- a `letrec`-bound local procedure: its formals, its body, the values it closed over -/
structure LFn where
  name : String
  formals : List String
  body : Expr
  env : List (String × VCell)
deriving Inhabited

/-- what a call of a Scheme-defined procedure does one level down -/
structure Handlers where
  global : String → Option Callee
  localFn : LFn → Callee

/-- a test is true unless its value is `#f` (`JNT` dereferences the accumulator) -/
def truthy (s : Store) (v : VCell) : Outcome Bool := do
  match (← s.get v) with
  | .bool false => .ok false
  | _ => .ok true

/-- applying a procedure *value* -/
def applyVal (P : String → Option Callee) (v : VCell) (s : Store) (args : List VCell) : Res :=
  match v with
  | .builtin n =>
    match P n with
    | some g => g s args
    | none => .err .notProc
  | _ => .err .notProc

/-- the operator of a call: parameter, local procedure, Scheme-defined global, builtin -/
def callNamed (P : String → Option Callee) (H : Handlers) (venv : List (String × VCell)) (lenv : List LFn)
    (f : String) (s : Store) (args : List VCell) : Res :=
  match venv.lookup f with
  | some v => applyVal P v s args
  | none =>
    match lenv.find? (·.name == f) with
    | some lf => H.localFn lf s args
    | none =>
      match H.global f with
      | some g => g s args
      | none =>
        match P f with
        | some g => g s args
        | none => .err .unbound

def evalE (P : String → Option Callee) (H : Handlers) (lvl : Nat) :
    Expr → List (String × VCell) → List LFn → Store → Res
  | .var x, venv, _, s =>
    match venv.lookup x with
    | some v => .ok (s, v)
    | none =>
      if x == "void" then .ok (s, .void)          -- the global bound by `(define void (set! void 0))`
      else if (P x).isSome then .ok (s, .builtin x)
      else .err .unbound
  | .const v, _, _, s => .ok (s, v)
  | .ite c t e, venv, lenv, s => do
    let (s, v) ← evalE P H lvl c venv lenv s
    if (← truthy s v) then evalE P H lvl t venv lenv s else evalE P H lvl e venv lenv s
  | .and2 a b, venv, lenv, s => do
    let (s, v) ← evalE P H lvl a venv lenv s
    if (← truthy s v) then evalE P H lvl b venv lenv s else .ok (s, v)
  | .or2 a b, venv, lenv, s => do
    let (s, v) ← evalE P H lvl a venv lenv s
    if (← truthy s v) then .ok (s, v) else evalE P H lvl b venv lenv s
  | .call1 f a, venv, lenv, s => do
    let (s, x) ← evalE P H lvl a venv lenv s
    callNamed P H venv lenv f s [x]
  | .call2 f a b, venv, lenv, s => do
    let (s, x) ← evalE P H lvl a venv lenv s
    let (s, y) ← evalE P H lvl b venv lenv s
    callNamed P H venv lenv f s [x, y]
  | .call3 f a b c, venv, lenv, s => do
    let (s, x) ← evalE P H lvl a venv lenv s
    let (s, y) ← evalE P H lvl b venv lenv s
    let (s, z) ← evalE P H lvl c venv lenv s
    callNamed P H venv lenv f s [x, y, z]
  | .apply f l, venv, lenv, s => do
    let (s, fv) ← evalE P H lvl f venv lenv s
    let (s, lv) ← evalE P H lvl l venv lenv s
    let args ← listElems lvl s lv
    applyVal P fv s args
  | .letrec1 name formals fbody body, venv, lenv, s =>
    evalE P H lvl body venv (⟨name, formals, fbody, venv⟩ :: lenv) s
  | .seq a b, venv, lenv, s => do
    let (s, _) ← evalE P H lvl a venv lenv s
    evalE P H lvl b venv lenv s

/-- bind the formals; the rest parameter gets the list `VARARG` builds (`ListOps.list`) -/
def bindArgs (d : Def) (s : Store) (args : List VCell) : Outcome (Store × List (String × VCell)) :=
  match d.rest with
  | none =>
    if args.length = d.formals.length then .ok (s, d.formals.zip args) else .err .arity
  | some r =>
    if args.length < d.formals.length then .err .arity
    else do
      let (s, l) ← list s (args.drop d.formals.length)
      .ok (s, (r, l) :: d.formals.zip (args.take d.formals.length))

/-- the handlers at each level: one unit of fuel per call of a Scheme-defined procedure -/
def handlers (P : String → Option Callee) (defs : List Def) : Nat → Handlers
  | 0 =>
    { global := fun n => (defs.find? (·.name == n)).map fun _ => fun _ _ => .diverge,
      localFn := fun _ _ _ => .diverge }
  | l+1 =>
    { global := fun n => (defs.find? (·.name == n)).map fun d => fun s args => do
        let (s, venv) ← bindArgs d s args
        evalE P (handlers P defs l) l d.body venv [] s,
      localFn := fun lf s args =>
        if args.length = lf.formals.length then
          evalE P (handlers P defs l) l lf.body (lf.formals.zip args ++ lf.env) [lf] s
        else .err .arity }

/-- the Scheme-defined global `name` at fuel `lvl` -/
def interp (P : String → Option Callee) (defs : List Def) (lvl : Nat) (name : String) : Callee :=
  match (handlers P defs lvl).global name with
  | some g => g
  | none => fun _ _ => .err .unbound

/-! ## the builtins the library procedures call -/

/-- `(+ a b)` on exact integers (the only uses are `(+ n 1)` and `(+ n 2)` in `length`) -/
def plusB (s : Store) : List VCell → Res
  | [a, b] => do
    match (← s.get a), (← s.get b) with
    | .num x, .num y => .ok (s, .num (x + y))
    | _, _ => .err .syntax
  | _ => .err .arity

/-- the builtin table; `efuel` is the fuel of the builtin `equal?`; `user` binds further procedure
    names (the callee parameter of `map` / `for-each`) -/
def prims (efuel : Nat) (user : String → Option Callee) (n : String) : Option Callee :=
  if n == "null?" then some isNullB
  else if n == "pair?" then some isPairB
  else if n == "car" then some car
  else if n == "cdr" then some cdr
  else if n == "cons" then some cons
  else if n == "eq?" then some eqvB
  else if n == "eqv?" then some eqvB
  else if n == "equal?" then some (equalB efuel)
  else if n == "+" then some plusB
  else user n

end Marwood.Store.Prelude
