import Marwood.Datum
/-!
# The Scheme text the models of `Store/Prelude.lean` were transcribed from, as data

NOT regenerated. For every library procedure of `marwood/prelude.scm` that has a hand-written model
(`Store/Prelude.lean`; `ListOps.list` for `list`) `sourceOf` gives the top-level form the model was
written against, in a compact notation that can be read against the Scheme text quoted above each
model (`S` symbol, `L` proper list, `LT` dotted list, `N` exact integer, `B` boolean, `T` string,
`C` character by code point).

`translate/prelude_procs.py` regenerates `Gen.PreludeProcs.procs` from the prelude on every run, and
`Lemmas/PreludeAgree.lean` proves `Gen.PreludeProcs.procs.lookup n = sourceOf n` for every modelled
`n` — so a change to one of these procedures in `prelude.scm` breaks a proof (it used to trip a hash
check only; the hash check of `lib/props/c14.py` stays as a second line of defence).
After a deliberate change of the prelude: re-transcribe the model, then update the datum here
(`python3 translate/prelude_procs.py --snapshot` prints this file's definitions for the current prelude).

Core Lean only.
-/
namespace Marwood.Store.Prelude
open Marwood

def S (x : String) : Datum := .sym x.toList
def T (x : String) : Datum := .str x.toList
def L (xs : List Datum) : Datum := Datum.ofList xs
def LT (xs : List Datum) (t : Datum) : Datum := Datum.ofListTail xs t
def N (n : Int) : Datum := .num (.fix n)
def B (b : Bool) : Datum := .bool b
def C (n : Nat) : Datum := .char (Char.ofNat n)

/-- model: inlined in `Store.ass` (`(caar alist)` = two `carV`) -/
def caarSrc : Datum :=
  L [S "define", L [S "caar", S "obj"], L [S "car", L [S "car", S "obj"]]]

/-- model: `Store.list` (the `VARARG` rest-list builder) -/
def listSrc : Datum :=
  L [S "define", LT [S "list"] (S "l"), S "l"]

/-- model: `Store.length` / `Store.lengthCount` (the `letrec`-bound `count`) -/
def lengthSrc : Datum :=
  L [S "define", L [S "length", S "list"], L [S "letrec", L [L [S "count", L [S "lambda", L [S "fast", S "slow", S "n"], L [S "cond", L [L [S "null?", S "fast"], S "n"], L [L [S "null?", L [S "cdr", S "fast"]], L [S "+", S "n", N 1]], L [L [S "eq?", L [S "cdr", L [S "cdr", S "fast"]], L [S "cdr", S "slow"]], L [S "cdr", L [S "quote", S "circular-list"]]], L [S "else", L [S "count", L [S "cdr", L [S "cdr", S "fast"]], L [S "cdr", S "slow"], L [S "+", S "n", N 2]]]]]]], L [S "count", S "list", S "list", N 0]]]

/-- model: `Store.memq` = `mem eqTest` -/
def memqSrc : Datum :=
  L [S "define", L [S "memq", S "obj", S "list"], L [S "cond", L [L [S "null?", S "list"], B false], L [L [S "eq?", L [S "car", S "list"], S "obj"], S "list"], L [S "else", L [S "memq", S "obj", L [S "cdr", S "list"]]]]]

/-- model: `Store.memv` = `mem eqTest` (marwood's `eqv?` is `eq?`) -/
def memvSrc : Datum :=
  L [S "define", L [S "memv", S "obj", S "list"], L [S "cond", L [L [S "null?", S "list"], B false], L [L [S "eqv?", L [S "car", S "list"], S "obj"], S "list"], L [S "else", L [S "memv", S "obj", L [S "cdr", S "list"]]]]]

/-- model: `Store.member` = `mem (equalTest fuel)` -/
def memberSrc : Datum :=
  L [S "define", L [S "member", S "obj", S "list"], L [S "cond", L [L [S "null?", S "list"], B false], L [L [S "equal?", L [S "car", S "list"], S "obj"], S "list"], L [S "else", L [S "member", S "obj", L [S "cdr", S "list"]]]]]

/-- model: `Store.assq` = `ass eqTest` -/
def assqSrc : Datum :=
  L [S "define", L [S "assq", S "obj", S "alist"], L [S "cond", L [L [S "null?", S "alist"], B false], L [L [S "and", L [S "pair?", L [S "car", S "alist"]], L [S "eq?", L [S "caar", S "alist"], S "obj"]], L [S "car", S "alist"]], L [S "else", L [S "assq", S "obj", L [S "cdr", S "alist"]]]]]

/-- model: `Store.assv` = `ass eqTest` -/
def assvSrc : Datum :=
  L [S "define", L [S "assv", S "obj", S "alist"], L [S "cond", L [L [S "null?", S "alist"], B false], L [L [S "and", L [S "pair?", L [S "car", S "alist"]], L [S "eqv?", L [S "caar", S "alist"], S "obj"]], L [S "car", S "alist"]], L [S "else", L [S "assv", S "obj", L [S "cdr", S "alist"]]]]]

/-- model: `Store.assoc` = `ass (equalTest fuel)` -/
def assocSrc : Datum :=
  L [S "define", L [S "assoc", S "obj", S "alist"], L [S "cond", L [L [S "null?", S "alist"], B false], L [L [S "and", L [S "pair?", L [S "car", S "alist"]], L [S "equal?", L [S "caar", S "alist"], S "obj"]], L [S "car", S "alist"]], L [S "else", L [S "assoc", S "obj", L [S "cdr", S "alist"]]]]]

/-- model: `Store.anyNull` (instantiated at `proc = null?`) -/
def anyPSrc : Datum :=
  L [S "define", L [S "any?", S "proc", S "list"], L [S "and", L [S "pair?", S "list"], L [S "or", L [S "proc", L [S "car", S "list"]], L [S "any?", S "proc", L [S "cdr", S "list"]]]]]

/-- model: `Store.map1` -/
def map1Src : Datum :=
  L [S "define", L [S "map1", S "f", S "xs"], L [S "if", L [S "null?", S "xs"], L [S "quote", L []], L [S "cons", L [S "f", L [S "car", S "xs"]], L [S "map1", S "f", L [S "cdr", S "xs"]]]]]

/-- model: `Store.map` / `Store.mapAll` -/
def mapSrc : Datum :=
  L [S "define", LT [S "map", S "f", S "xs"] (S "xss"), L [S "letrec", L [L [S "map-all", L [S "lambda", L [S "xss"], L [S "if", L [S "any?", S "null?", S "xss"], L [S "quote", L []], L [S "cons", L [S "apply", S "f", L [S "map1", S "car", S "xss"]], L [S "map-all", L [S "map1", S "cdr", S "xss"]]]]]]], L [S "map-all", L [S "cons", S "xs", S "xss"]]]]

/-- model: `Store.forEach` / `Store.forEachAll` -/
def forEachSrc : Datum :=
  L [S "define", LT [S "for-each", S "f", S "xs"] (S "xss"), L [S "letrec", L [L [S "for-each-all", L [S "lambda", L [S "xss"], L [S "if", L [S "any?", S "null?", S "xss"], S "void", L [S "begin", L [S "apply", S "f", L [S "map1", S "car", S "xss"]], L [S "for-each-all", L [S "map1", S "cdr", S "xss"]], S "void"]]]]], L [S "for-each-all", L [S "cons", S "xs", S "xss"]]]]

def sourceOf : String → Option Datum
  | "caar" => some caarSrc
  | "list" => some listSrc
  | "length" => some lengthSrc
  | "memq" => some memqSrc
  | "memv" => some memvSrc
  | "member" => some memberSrc
  | "assq" => some assqSrc
  | "assv" => some assvSrc
  | "assoc" => some assocSrc
  | "any?" => some anyPSrc
  | "map1" => some map1Src
  | "map" => some mapSrc
  | "for-each" => some forEachSrc
  | _ => none

/-- the procedures that have a model -/
def modelledNames : List String :=
  ["caar", "list", "length", "memq", "memv", "member", "assq", "assv", "assoc", "any?", "map1", "map", "for-each"]

def modelled (n : String) : Bool := modelledNames.contains n

end Marwood.Store.Prelude
