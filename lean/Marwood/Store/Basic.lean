import Marwood.Text
/-!
# Store model: the part of `Vm` the list/vector/string builtins see

* `VCell` mirrors `vm/vcell.rs` restricted to data values. A value that travels on the VM stack, sits in
  the accumulator or in a vector slot is either an immediate scalar or `ptr a` (a heap index).
* `Store.cells` is the heap (`heap.rs`): a pair is stored *by value* in its cell as `pair car cdr`
  where `car`/`cdr` are heap indices, so the identity of a pair is the index of its cell.
  Allocation appends (the free list and the collector are the business of C03/C12; nothing here
  observes addresses).
* `Rc<Vector>` and `Rc<RefCell<String>>` payloads live in the side tables `vecs` / `strs`; the heap
  cell holds `vec id` / `str id`, so identity of a vector/string is its id and mutation through one
  alias is visible through all.
* Outcomes are `ok | err | panic | diverge`; `diverge` is what a fuel-indexed loop answers when the
  fuel runs out (the Rust loop would not return).

Core Lean only (the driver links this file).
-/
namespace Marwood.Store
open Marwood

/-- coarse classes of `marwood::error::Error` as raised by the builtins modelled here -/
inductive Err
  | arity          -- InvalidNumArgs
  | pair           -- ExpectedPairButFound
  | type           -- ExpectedType (as_ptr / as_car / as_char on the wrong variant)
  | syntax         -- InvalidSyntax (most argument errors)
  | vindex         -- InvalidVectorIndex
  | sindex         -- InvalidStringIndex
  | unbound        -- VariableNotBound (driver only: reference to a pool slot that was never defined)
  | notProc        -- InvalidProcedure
deriving DecidableEq, Repr, Inhabited

inductive Outcome (α : Type) where
  | ok (a : α)
  | err (e : Err)
  | panic (site : String)
  | diverge
deriving Repr, Inhabited

namespace Outcome

@[inline] def bind {α β : Type} (x : Outcome α) (f : α → Outcome β) : Outcome β :=
  match x with
  | ok a => f a
  | err e => err e
  | panic s => panic s
  | diverge => diverge

instance : Monad Outcome where
  pure := ok
  bind := bind

@[simp] theorem pure_eq {α} (a : α) : (pure a : Outcome α) = ok a := rfl
@[simp] theorem bind_ok {α β} (a : α) (f : α → Outcome β) : (ok a >>= f) = f a := rfl
@[simp] theorem bind_err {α β} (e : Err) (f : α → Outcome β) : (err e >>= f) = err e := rfl
@[simp] theorem bind_panic {α β} (m : String) (f : α → Outcome β) : (panic m >>= f) = panic m := rfl
@[simp] theorem bind_diverge {α β} (f : α → Outcome β) : (diverge >>= f) = diverge := rfl

def isErr {α} : Outcome α → Bool
  | err _ => true
  | _ => false

def isOk {α} : Outcome α → Bool
  | ok _ => true
  | _ => false

/-- `Option::unwrap` / `expect` / indexing: `none` is a panic at `site` -/
def ofOption {α} (site : String) : Option α → Outcome α
  | some a => ok a
  | none => panic site

/-- `ok_or_else(err)` -/
def orErr {α} (e : Err) : Option α → Outcome α
  | some a => ok a
  | none => err e

@[simp] theorem ofOption_some {α} (m : String) (a : α) : ofOption m (some a) = ok a := rfl
@[simp] theorem orErr_some {α} (e : Err) (a : α) : orErr e (some a) = ok a := rfl
@[simp] theorem orErr_none {α} (e : Err) : orErr e (none : Option α) = err e := rfl

end Outcome
open Outcome

/-- checked `usize` subtraction (`a - b` panics in a debug build when `b > a`) -/
def usub (site : String) (a b : Nat) : Outcome Nat :=
  if b ≤ a then .ok (a - b) else .panic site

inductive VCell
  | bool (b : Bool)
  | char (c : Char)
  | nil
  | num (n : Int)            -- exact integers only (Fixnum / BigInt); other numbers are not generated
  | sym (s : Text)
  | void
  | undef
  | pair (car cdr : Nat)
  | str (id : Nat)
  | vec (id : Nat)
  | ptr (a : Nat)
  | builtin (name : String)  -- a `BuiltInProc` (only as the procedure argument of map / for-each)
deriving DecidableEq, Repr, Inhabited

namespace VCell

def isPair : VCell → Bool | pair _ _ => true | _ => false
def isNil : VCell → Bool | nil => true | _ => false
def isPtr : VCell → Bool | ptr _ => true | _ => false

/-- `as_car`: the car *reference* of a pair cell -/
def asCar : VCell → Outcome VCell
  | pair a _ => .ok (ptr a)
  | _ => .err .type

def asCdr : VCell → Outcome VCell
  | pair _ d => .ok (ptr d)
  | _ => .err .type

def asPtr : VCell → Outcome Nat
  | ptr a => .ok a
  | _ => .err .type

@[simp] theorem asCar_pair (a d : Nat) : (pair a d).asCar = .ok (ptr a) := rfl
@[simp] theorem asCdr_pair (a d : Nat) : (pair a d).asCdr = .ok (ptr d) := rfl
@[simp] theorem asPtr_ptr (a : Nat) : (ptr a).asPtr = .ok a := rfl
@[simp] theorem isPair_pair (a d : Nat) : (pair a d).isPair = true := rfl
@[simp] theorem isNil_nil : nil.isNil = true := rfl

end VCell

structure Store where
  cells : List VCell
  vecs : List (List VCell)
  strs : List Text
deriving Repr, Inhabited, DecidableEq

namespace Store

def empty : Store := ⟨[], [], []⟩

/-- `heap.get(vcell)`: one level of dereference; `get_at_index` panics when out of bounds -/
def get (s : Store) : VCell → Outcome VCell
  | .ptr a => ofOption "heap index out of bounds" s.cells[a]?
  | v => .ok v

/-- `heap.alloc()` + store: the new cell's index is the old heap length -/
def alloc (s : Store) (c : VCell) : Store × Nat :=
  ({ s with cells := s.cells ++ [c] }, s.cells.length)

/-- position of the interned symbol in the heap (the symbol table maps name ↦ index) -/
def findSym (s : Store) (name : Text) : Option Nat :=
  let i := s.cells.idxOf (VCell.sym name)
  if i < s.cells.length then some i else none

/-- `heap.put` -/
def put (s : Store) (v : VCell) : Store × VCell :=
  match v with
  | .ptr _ => (s, v)
  | .sym name =>
    match s.findSym name with
    | some a => (s, .ptr a)
    | none => let (s', a) := s.alloc v; (s', .ptr a)
  | c => let (s', a) := s.alloc c; (s', .ptr a)

/-- `heap.maybe_put`: immediates stay immediate -/
def maybePut (s : Store) (v : VCell) : Store × VCell :=
  match v with
  | .num _ | .bool _ | .char _ | .nil | .void | .undef => (s, v)
  | v => s.put v

/-- `*heap.get_at_index_mut(a) = c` -/
def setCell (s : Store) (a : Nat) (c : VCell) : Outcome Store :=
  if a < s.cells.length then .ok { s with cells := s.cells.set a c }
  else .panic "heap index out of bounds"

/-- `VCell::vector(v)`: a fresh `Rc<Vector>` -/
def newVec (s : Store) (xs : List VCell) : Store × VCell :=
  ({ s with vecs := s.vecs ++ [xs] }, .vec s.vecs.length)

/-- `VCell::string(t)`: a fresh `Rc<RefCell<String>>` -/
def newStr (s : Store) (t : Text) : Store × VCell :=
  ({ s with strs := s.strs ++ [t] }, .str s.strs.length)

/-- contents of the vector payload `id` (`None` cannot happen for an id obtained from a cell of a
    well-formed store; the callers turn it into a panic) -/
def vecGet (s : Store) (id : Nat) : Outcome (List VCell) :=
  ofOption "dangling vector id" s.vecs[id]?

def vecSet (s : Store) (id : Nat) (xs : List VCell) : Outcome Store :=
  if id < s.vecs.length then .ok { s with vecs := s.vecs.set id xs } else .panic "dangling vector id"

def strGet (s : Store) (id : Nat) : Outcome Text :=
  ofOption "dangling string id" s.strs[id]?

def strSet (s : Store) (id : Nat) (t : Text) : Outcome Store :=
  if id < s.strs.length then .ok { s with strs := s.strs.set id t } else .panic "dangling string id"

end Store

/-- what `CALL`/`TCALL` do with a builtin's result (`run.rs`): pointers pass, everything else goes
    through `maybe_put`, so aggregate results become heap references -/
def finish (r : Outcome (Store × VCell)) : Outcome (Store × VCell) := do
  let (s, v) ← r
  match v with
  | .ptr a => .ok (s, .ptr a)
  | v => .ok (s.maybePut v)

/-- the result type of every builtin -/
abbrev Res := Outcome (Store × VCell)

/-! ## typed argument poppers (`builtin/mod.rs`) -/

/-- `pop_index` / `Number::to_usize` on an exact integer (usize is 64 bit) -/
def usizeLimit : Nat := 18446744073709551616

def toUsize : Int → Option Nat
  | .ofNat k => if k < usizeLimit then some k else none
  | .negSucc _ => none

def popIndex (s : Store) (v : VCell) : Outcome Nat := do
  match (← s.get v) with
  | .num n => orErr .syntax (toUsize n)
  | _ => .err .syntax

def popVector (s : Store) (v : VCell) : Outcome Nat := do
  match (← s.get v) with
  | .vec id => .ok id
  | _ => .err .syntax

def popString (s : Store) (v : VCell) : Outcome Nat := do
  match (← s.get v) with
  | .str id => .ok id
  | _ => .err .syntax

def popChar (s : Store) (v : VCell) : Outcome Char := do
  match (← s.get v) with
  | .char c => .ok c
  | _ => .err .syntax

end Marwood.Store
