import Marwood.Store.Compare
/-!
# Library procedures written in Scheme (`marwood/prelude.scm`, from `(define (list . l) l)` to the end)

Each definition is a fuel-indexed shallow embedding that follows the Scheme text clause by clause;
the Scheme text of every definition is quoted above its model, and `lib/props/c14.py` checks on
every run that the text in `/repo/marwood/prelude.scm` still hashes to what was modelled here.
Procedure calls inside the Scheme bodies go to the builtin models (`car`, `cdr`, `cons`, `null?`,
`pair?`, `eq?`, `eqv?`, `equal?`); arguments are evaluated left to right (`compile.rs`).
`fuel` bounds the recursion depth (one unit per Scheme-level call).
-/
namespace Marwood.Store
open Outcome

/-- `(null? x)` as a Scheme test -/
def nullP (s : Store) (x : VCell) : Outcome Bool := do .ok (← s.get x).isNil
/-- `(pair? x)` -/
def pairP (s : Store) (x : VCell) : Outcome Bool := do .ok (← s.get x).isPair

/-- `(car x)` / `(cdr x)` inside a Scheme body: the builtins do not change the store -/
def carV (s : Store) (x : VCell) : Outcome VCell := do let (_, v) ← car s [x]; .ok v
def cdrV (s : Store) (x : VCell) : Outcome VCell := do let (_, v) ← cdr s [x]; .ok v

/-- `(+ n 1)` on an exact integer -/
def add1 (s : Store) (v : VCell) : Outcome VCell := do
  match (← s.get v) with
  | .num n => .ok (.num (n + 1))
  | _ => .err .syntax

/-- `(+ n 2)` on an exact integer -/
def add2 (s : Store) (v : VCell) : Outcome VCell := do
  match (← s.get v) with
  | .num n => .ok (.num (n + 2))
  | _ => .err .syntax

/-- `(eq? x y)` / `(eqv? x y)` as a Scheme test: `eqv(left = y, right = x)` -/
def eqTest (s : Store) (x y : VCell) : Outcome Bool := eqv s y x
def equalTest (fuel : Nat) (s : Store) (x y : VCell) : Outcome Bool := equal fuel s y x

/-- the quoted symbol `'circular-list` (an immediate here: it is only ever handed to `cdr`, which rejects it) -/
def circularListSym : VCell := .sym "circular-list".toList

/-
; length walks the list with two cursors: `slow` advances one pair for every
; two pairs of `fast`. The cursors can only meet on a circular list, which is
; reported like any other argument that is not a proper list.
(define (length list)
  (letrec
   ((count
     (lambda (fast slow n)
       (cond
         ((null? fast) n)
         ((null? (cdr fast)) (+ n 1))
         ((eq? (cdr (cdr fast)) (cdr slow)) (cdr 'circular-list))
         (else (count (cdr (cdr fast)) (cdr slow) (+ n 2)))))))
    (count list list 0)))
(fix 08d0569 in /repo; the definition before it is `Pinned.length` below.)
`(cdr fast)`, `(cdr (cdr fast))` and `(cdr slow)` are evaluated twice by the Scheme text (test and
operands); `cdr` reads the store and nothing in between writes it, so the model names each value once
(`Lemmas/PreludeInterp.lean` proves the model equal to the image of the text as it stands).
One unit of fuel for the call of `length`, one per call of `count`.
-/
def lengthCount : Nat → Store → VCell → VCell → VCell → Outcome VCell
  | 0, _, _, _, _ => .diverge
  | f+1, s, fast, slow, n => do
    if (← nullP s fast) then .ok n
    else do
      let d ← cdrV s fast
      if (← nullP s d) then add1 s n
      else do
        let dd ← cdrV s d
        let sd ← cdrV s slow
        if (← eqTest s dd sd) then cdrV s circularListSym
        else do
          let n' ← add2 s n
          lengthCount f s dd sd n'

def length : Nat → Store → VCell → Outcome VCell
  | 0, _, _ => .diverge
  | f+1, s, l => lengthCount f s l l (.num 0)

namespace Pinned
/-
The definition of `length` before the repair (pinned tree; kept for the C06 witness
`length_circular_diverges`):
(define (length list)
    (cond
      ((null? list) 0)
      (else (+ (length (cdr list)) 1))))
-/
def length : Nat → Store → VCell → Outcome VCell
  | 0, _, _ => .diverge
  | f+1, s, l => do
    if (← nullP s l) then .ok (.num 0)
    else do
      let d ← cdrV s l
      let n ← length f s d
      add1 s n
end Pinned

/-
(define (memq obj list)
    (cond
      ((null? list) #f)
      ((eq? (car list) obj) list)
      (else (memq obj (cdr list)))))
memv: the same text with eqv?; member: the same text with equal?
-/
def mem (test : Store → VCell → VCell → Outcome Bool) : Nat → Store → VCell → VCell → Outcome VCell
  | 0, _, _, _ => .diverge
  | f+1, s, obj, l => do
    if (← nullP s l) then .ok (.bool false)
    else do
      let a ← carV s l
      if (← test s a obj) then .ok l
      else do
        let d ← cdrV s l
        mem test f s obj d

def memq (fuel : Nat) (s : Store) (obj l : VCell) : Outcome VCell := mem eqTest fuel s obj l
def memv (fuel : Nat) (s : Store) (obj l : VCell) : Outcome VCell := mem eqTest fuel s obj l
def member (fuel : Nat) (s : Store) (obj l : VCell) : Outcome VCell :=
  mem (equalTest fuel) fuel s obj l

/-
(define (assq obj alist)
    (cond
    ((null? alist) #f)
    ((and (pair? (car alist))
          (eq? (caar alist) obj)) (car alist))
    (else (assq obj (cdr alist)))))
assv: eqv?; assoc: equal?.   (define (caar obj) (car (car obj)))
-/
def ass (test : Store → VCell → VCell → Outcome Bool) : Nat → Store → VCell → VCell → Outcome VCell
  | 0, _, _, _ => .diverge
  | f+1, s, obj, al => do
    if (← nullP s al) then .ok (.bool false)
    else do
      let e ← carV s al
      let hit ← (do
        if (← pairP s e) then do
          let e' ← carV s al       -- (caar alist) = (car (car alist))
          let k ← carV s e'
          test s k obj
        else .ok false : Outcome Bool)
      if hit then carV s al
      else do
        let d ← cdrV s al
        ass test f s obj d

def assq (fuel : Nat) (s : Store) (obj l : VCell) : Outcome VCell := ass eqTest fuel s obj l
def assv (fuel : Nat) (s : Store) (obj l : VCell) : Outcome VCell := ass eqTest fuel s obj l
def assoc (fuel : Nat) (s : Store) (obj l : VCell) : Outcome VCell :=
  ass (equalTest fuel) fuel s obj l

/-- a callee: what applying a procedure value to arguments does to the store -/
abbrev Callee := Store → List VCell → Res

/-
(define (any? proc list)
    (and (pair? list)
        (or (proc (car list))
             (any? proc (cdr list)))))
instantiated at proc = null? (its only use in map / for-each)
-/
def anyNull : Nat → Store → VCell → Outcome Bool
  | 0, _, _ => .diverge
  | f+1, s, l => do
    if !(← pairP s l) then .ok false
    else do
      let a ← carV s l
      if (← nullP s a) then .ok true
      else do
        let d ← cdrV s l
        anyNull f s d

/-
(define (map1 f xs)
  (if (null? xs)
      '()
      (cons (f (car xs)) (map1 f (cdr xs)))))
-/
def map1 (g : Callee) : Nat → Store → VCell → Res
  | 0, _, _ => .diverge
  | f+1, s, xs => do
    if (← nullP s xs) then .ok (s, .nil)
    else do
      let a ← carV s xs
      let (s, y) ← g s [a]
      let d ← cdrV s xs
      let (s, r) ← map1 g f s d
      cons s [y, r]

/-- `(apply f args)`: the elements of the argument list are pushed as they are (car references) -/
def listElems : Nat → Store → VCell → Outcome (List VCell)
  | 0, _, _ => .diverge
  | f+1, s, l => do
    match (← s.get l) with
    | .pair a d => do .ok (.ptr a :: (← listElems f s (.ptr d)))
    | .nil => .ok []
    | _ => .err .syntax

/-
(define (map f xs . xss)
  (letrec
   ((map-all
     (lambda (xss)
       (if (any? null? xss)
           '()
           (cons (apply f (map1 car xss))
                 (map-all (map1 cdr xss)))))))
    (map-all (cons xs xss))))
(fix 71c917c in /repo — at least one list is required; before it the formals were `(f . xss)` and
`(map f)` never reached the base case of `map-all`.)
-/
def mapAll (g : Callee) : Nat → Store → VCell → Res
  | 0, _, _ => .diverge
  | f+1, s, xss => do
    if (← anyNull f s xss) then .ok (s, .nil)
    else do
      let (s, cars) ← map1 car f s xss
      let args ← listElems f s cars
      let (s, y) ← g s args
      let (s, cdrs) ← map1 cdr f s xss
      let (s, r) ← mapAll g f s cdrs
      cons s [y, r]

/-- `lists` are the arguments after `f`: the first is `xs`, `VARARG` collects the others into `xss`,
    the body conses `xs` back in front; no list at all is the arity error of the closure -/
def map (g : Callee) (fuel : Nat) (s : Store) : List VCell → Res
  | [] => .err .arity
  | xs :: rest => do
    let (s, r) ← list s rest
    let (s, xss) ← cons s [xs, r]
    mapAll g fuel s xss

/-
(define (for-each f xs . xss)
  (letrec
   ((for-each-all
     (lambda (xss)
       (if (any? null? xss)
           void
           (begin (apply f (map1 car xss))
                  (for-each-all (map1 cdr xss)) void)))))
    (for-each-all (cons xs xss))))
`void` is the global bound by `(define void (set! void 0))`, whose value is `VCell::Void`.
-/
def forEachAll (g : Callee) : Nat → Store → VCell → Res
  | 0, _, _ => .diverge
  | f+1, s, xss => do
    if (← anyNull f s xss) then .ok (s, .void)
    else do
      let (s, cars) ← map1 car f s xss
      let args ← listElems f s cars
      let (s, _) ← g s args
      let (s, cdrs) ← map1 cdr f s xss
      let (s, _) ← forEachAll g f s cdrs
      .ok (s, .void)

def forEach (g : Callee) (fuel : Nat) (s : Store) : List VCell → Res
  | [] => .err .arity
  | xs :: rest => do
    let (s, r) ← list s rest
    let (s, xss) ← cons s [xs, r]
    forEachAll g fuel s xss

end Marwood.Store
