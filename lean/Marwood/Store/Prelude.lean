import Marwood.Store.Compare
/-!
# Library procedures written in Scheme (`marwood/prelude.scm` lines 143–258)

Each definition is a fuel-indexed shallow embedding that follows the Scheme text clause by clause;
the Scheme text of every definition is quoted above its model, and `lib/props/c14.py` checks on
every run that the text in `/repo/marwood/prelude.scm` still hashes to what was modelled here.
Procedure calls inside the Scheme bodies go to the builtin models (`car`, `cdr`, `cons`, `null?`,
`pair?`, `eq?`, `eqv?`, `equal?`); arguments are evaluated left to right (`compile.rs`).
`fuel` bounds the recursion depth (one unit per Scheme-level call).
-/
namespace Marwood.Store
open Outcome

/-- `(null? x)` as a Scheme test -/
def nullP (s : Store) (x : VCell) : Outcome Bool := do .ok (← s.get x).isNil
/-- `(pair? x)` -/
def pairP (s : Store) (x : VCell) : Outcome Bool := do .ok (← s.get x).isPair

/-- `(car x)` / `(cdr x)` inside a Scheme body: the builtins do not change the store -/
def carV (s : Store) (x : VCell) : Outcome VCell := do let (_, v) ← car s [x]; .ok v
def cdrV (s : Store) (x : VCell) : Outcome VCell := do let (_, v) ← cdr s [x]; .ok v

/-- `(+ n 1)` on an exact integer -/
def add1 (s : Store) (v : VCell) : Outcome VCell := do
  match (← s.get v) with
  | .num n => .ok (.num (n + 1))
  | _ => .err .syntax

/-
(define (length list)
    (cond
      ((null? list) 0)
      (else (+ (length (cdr list)) 1))))
-/
def length : Nat → Store → VCell → Outcome VCell
  | 0, _, _ => .diverge
  | f+1, s, l => do
    if (← nullP s l) then .ok (.num 0)
    else do
      let d ← cdrV s l
      let n ← length f s d
      add1 s n

/-
(define (memq obj list)
    (cond
      ((null? list) #f)
      ((eq? (car list) obj) list)
      (else (memq obj (cdr list)))))
memv: the same text with eqv?; member: the same text with equal?
-/
def mem (test : Store → VCell → VCell → Outcome Bool) : Nat → Store → VCell → VCell → Outcome VCell
  | 0, _, _, _ => .diverge
  | f+1, s, obj, l => do
    if (← nullP s l) then .ok (.bool false)
    else do
      let a ← carV s l
      if (← test s a obj) then .ok l
      else do
        let d ← cdrV s l
        mem test f s obj d

/-- `(eq? x y)` / `(eqv? x y)` as a Scheme test: `eqv(left = y, right = x)` -/
def eqTest (s : Store) (x y : VCell) : Outcome Bool := eqv s y x
def equalTest (fuel : Nat) (s : Store) (x y : VCell) : Outcome Bool := equal fuel s y x

def memq (fuel : Nat) (s : Store) (obj l : VCell) : Outcome VCell := mem eqTest fuel s obj l
def memv (fuel : Nat) (s : Store) (obj l : VCell) : Outcome VCell := mem eqTest fuel s obj l
def member (fuel : Nat) (s : Store) (obj l : VCell) : Outcome VCell :=
  mem (equalTest fuel) fuel s obj l

/-
(define (assq obj alist)
    (cond
    ((null? alist) #f)
    ((and (pair? (car alist))
          (eq? (caar alist) obj)) (car alist))
    (else (assq obj (cdr alist)))))
assv: eqv?; assoc: equal?.   (define (caar obj) (car (car obj)))
-/
def ass (test : Store → VCell → VCell → Outcome Bool) : Nat → Store → VCell → VCell → Outcome VCell
  | 0, _, _, _ => .diverge
  | f+1, s, obj, al => do
    if (← nullP s al) then .ok (.bool false)
    else do
      let e ← carV s al
      let hit ← (do
        if (← pairP s e) then do
          let e' ← carV s al       -- (caar alist) = (car (car alist))
          let k ← carV s e'
          test s k obj
        else .ok false : Outcome Bool)
      if hit then carV s al
      else do
        let d ← cdrV s al
        ass test f s obj d

def assq (fuel : Nat) (s : Store) (obj l : VCell) : Outcome VCell := ass eqTest fuel s obj l
def assv (fuel : Nat) (s : Store) (obj l : VCell) : Outcome VCell := ass eqTest fuel s obj l
def assoc (fuel : Nat) (s : Store) (obj l : VCell) : Outcome VCell :=
  ass (equalTest fuel) fuel s obj l

/-- a callee: what applying a procedure value to arguments does to the store -/
abbrev Callee := Store → List VCell → Res

/-
(define (any? proc list)
    (and (pair? list)
        (or (proc (car list))
             (any? proc (cdr list)))))
instantiated at proc = null? (its only use in map / for-each)
-/
def anyNull : Nat → Store → VCell → Outcome Bool
  | 0, _, _ => .diverge
  | f+1, s, l => do
    if !(← pairP s l) then .ok false
    else do
      let a ← carV s l
      if (← nullP s a) then .ok true
      else do
        let d ← cdrV s l
        anyNull f s d

/-
(define (map1 f xs)
  (if (null? xs)
      '()
      (cons (f (car xs)) (map1 f (cdr xs)))))
-/
def map1 (g : Callee) : Nat → Store → VCell → Res
  | 0, _, _ => .diverge
  | f+1, s, xs => do
    if (← nullP s xs) then .ok (s, .nil)
    else do
      let a ← carV s xs
      let (s, y) ← g s [a]
      let d ← cdrV s xs
      let (s, r) ← map1 g f s d
      cons s [y, r]

/-- `(apply f args)`: the elements of the argument list are pushed as they are (car references) -/
def listElems : Nat → Store → VCell → Outcome (List VCell)
  | 0, _, _ => .diverge
  | f+1, s, l => do
    match (← s.get l) with
    | .pair a d => do .ok (.ptr a :: (← listElems f s (.ptr d)))
    | .nil => .ok []
    | _ => .err .syntax

/-
(define (map f . xss)
  (letrec
   ((map-all
     (lambda (xss)
       (if (any? null? xss)
           '()
           (cons (apply f (map1 car xss))
                 (map-all (map1 cdr xss)))))))
    (map-all xss)))
-/
def mapAll (g : Callee) : Nat → Store → VCell → Res
  | 0, _, _ => .diverge
  | f+1, s, xss => do
    if (← anyNull f s xss) then .ok (s, .nil)
    else do
      let (s, cars) ← map1 car f s xss
      let args ← listElems f s cars
      let (s, y) ← g s args
      let (s, cdrs) ← map1 cdr f s xss
      let (s, r) ← mapAll g f s cdrs
      cons s [y, r]

def map (g : Callee) (fuel : Nat) (s : Store) (lists : List VCell) : Res := do
  let (s, xss) ← list s lists
  mapAll g fuel s xss

/-
(define (for-each f . xss)
  (letrec
   ((for-each-all
     (lambda (xss)
       (if (any? null? xss)
           void
           (begin (apply f (map1 car xss))
                  (for-each-all (map1 cdr xss)) void)))))
    (for-each-all xss)))
`void` is the global bound by `(define void (set! void 0))`, whose value is `VCell::Void`.
-/
def forEachAll (g : Callee) : Nat → Store → VCell → Res
  | 0, _, _ => .diverge
  | f+1, s, xss => do
    if (← anyNull f s xss) then .ok (s, .void)
    else do
      let (s, cars) ← map1 car f s xss
      let args ← listElems f s cars
      let (s, _) ← g s args
      let (s, cdrs) ← map1 cdr f s xss
      let (s, _) ← forEachAll g f s cdrs
      .ok (s, .void)

def forEach (g : Callee) (fuel : Nat) (s : Store) (lists : List VCell) : Res := do
  let (s, xss) ← list s lists
  forEachAll g fuel s xss

end Marwood.Store
