import Marwood.Store.ListOps
/-!
# `vm/builtin/vector.rs` and `vm/vector.rs` (after the `fix:` commits 7cdbaf6, 8902a1e, c831323,
aeab62c, 3a9d75e)

A vector slot holds whatever the caller pushed: an immediate or a heap reference.
-/
namespace Marwood.Store
open Outcome

def vector (s : Store) (args : List VCell) : Res :=
  finish (.ok (s.newVec args))

/-- `vec![fill; len]` panics with "capacity overflow" when `len * size_of::<VCell>()` exceeds
    `isize::MAX`; below that bound an allocation failure aborts the process (not modelled) -/
def vecCapacity : Nat := 9223372036854775807 / 24

def makeVector (s : Store) (args : List VCell) : Res :=
  match args with
  | [n] => go n (.num 0)
  | [n, fill] => go n fill
  | _ => .err .arity
where
  go (n fill : VCell) : Res := do
    match (← s.get n) with
    | .num k =>
      let len ← orErr .syntax (toUsize k)
      if len > vecCapacity then .panic "capacity overflow"
      else finish (.ok (s.newVec (List.replicate len fill)))
    | _ => .err .syntax

def vectorLength (s : Store) : List VCell → Res
  | [v] => do
    let id ← popVector s v
    let xs ← s.vecGet id
    .ok (s, .num xs.length)
  | _ => .err .arity

def vectorRef (s : Store) : List VCell → Res
  | [v, i] => do
    let idx ← popIndex s i
    let id ← popVector s v
    let xs ← s.vecGet id
    match xs[idx]? with
    | some x => finish (.ok (s, x))
    | none => .err .vindex
  | _ => .err .arity

def vectorSet (s : Store) : List VCell → Res
  | [v, i, x] => do
    let idx ← popIndex s i
    let id ← popVector s v
    let xs ← s.vecGet id
    if idx ≥ xs.length then .err .vindex
    else do
      let s ← s.vecSet id (xs.set idx x)
      .ok (s, .void)
  | _ => .err .arity

def vectorFill (s : Store) : List VCell → Res
  | [v, x] => do
    let id ← popVector s v
    let xs ← s.vecGet id
    let s ← s.vecSet id (List.replicate xs.length x)
    .ok (s, .void)
  | _ => .err .arity

/-- the `for idx in (0..len).rev()` loop of `vector->list`; `xs` = the elements, last first -/
def vecToListLoop : Store → List VCell → VCell → Outcome (Store × VCell)
  | s, [], tail => .ok (s, tail)
  | s, x :: rest, tail => do
    let (s, c) := s.put x
    let cp ← c.asPtr
    let tp ← tail.asPtr
    let (s, tail) := s.put (.pair cp tp)
    vecToListLoop s rest tail

def vectorToList (s : Store) : List VCell → Res
  | [v] => do
    let id ← popVector s v
    let xs ← s.vecGet id
    let (s, t) := s.put .nil
    vecToListLoop s xs.reverse t
  | _ => .err .arity

/-- the `while list.is_pair()` loop of `list->vector`; returns the collected car references and
    the first non-pair cell -/
def collectCars : Nat → Store → VCell → List VCell → Outcome (List VCell × VCell)
  | 0, _, _, _ => .diverge
  | f+1, s, l, acc =>
    if l.isPair then do
      let a ← l.asCar
      let l' ← s.get (← l.asCdr)
      collectCars f s l' (acc ++ [a])
    else .ok (acc, l)

def listToVector (fuel : Nat) (s : Store) : List VCell → Res
  | [x] => do
    let l ← s.get x
    if !l.isPair then
      if l.isNil then finish (.ok (s.newVec [])) else .err .pair
    else do
      let (xs, last) ← collectCars fuel s l []
      if !last.isNil then .err .syntax
      else finish (.ok (s.newVec xs))
  | _ => .err .arity

/-- `Vector::clone_vector(start, end)` — `end` is *inclusive* (pinned by tests/vector.rs) -/
def cloneVector (xs : List VCell) (start end_ : Option Nat) : List VCell :=
  let st := min (start.getD 0) xs.length
  let en := match end_ with
    | some e => if e < xs.length then e + 1 else xs.length
    | none => xs.length
  if st ≥ en then [] else (xs.drop st).take (en - st)

def vectorCopy (s : Store) (args : List VCell) : Res :=
  match args with
  | [v] => go v none none
  | [v, st] => do go v (some (← popIndex s st)) none
  | [v, st, en] => do
    let e ← popIndex s en
    let b ← popIndex s st
    go v (some b) (some e)
  | _ => .err .arity
where
  go (v : VCell) (start end_ : Option Nat) : Res := do
    let id ← popVector s v
    let xs ← s.vecGet id
    match start, end_ with
    | some st, _ => if st > xs.length then .err .vindex else chk2 xs start end_
    | none, _ => chk2 xs start end_
  chk2 (xs : List VCell) (start end_ : Option Nat) : Res :=
    match start, end_ with
    | _, some en =>
      if en > xs.length then .err .vindex
      else match start with
        | some st => if st > en then .err .syntax else done xs start end_
        | none => done xs start end_
    | _, none => done xs start end_
  done (xs : List VCell) (start end_ : Option Nat) : Res :=
    finish (.ok (s.newVec (cloneVector xs start end_)))

/-- write `vals` into `xs` from index `at_` on (`to_vector.put(at + k, val)`; `Vector::put`
    ignores an out-of-range index) -/
def putRange : List VCell → Nat → List VCell → List VCell
  | xs, _, [] => xs
  | xs, at_, v :: vals => putRange (if at_ < xs.length then xs.set at_ v else xs) (at_ + 1) vals

/-- `(Some(x), _) if x > n` -/
def optExceeds (o : Option Nat) (n : Nat) : Bool :=
  match o with
  | some x => decide (x > n)
  | none => false

/-- `(Some(start), Some(end)) if start > end` -/
def optInverted (a b : Option Nat) : Bool :=
  match a, b with
  | some x, some y => decide (x > y)
  | _, _ => false

def vectorCopyBang (s : Store) (args : List VCell) : Res :=
  match args with
  | [to, at_, from_] => go to at_ from_ none none
  | [to, at_, from_, st] => do go to at_ from_ (some (← popIndex s st)) none
  | [to, at_, from_, st, en] => do
    let e ← popIndex s en
    let b ← popIndex s st
    go to at_ from_ (some b) (some e)
  | _ => .err .arity
where
  go (to at_ from_ : VCell) (start end_ : Option Nat) : Res := do
    let fid ← popVector s from_
    let at' ← popIndex s at_
    let tid ← popVector s to
    let fxs ← s.vecGet fid
    let txs ← s.vecGet tid
    if at' > txs.length then .err .vindex
    else if optExceeds start fxs.length then .err .vindex
    else if optExceeds end_ fxs.length then .err .vindex
    else if optInverted start end_ then .err .syntax
    else do
      let st := start.getD 0
      let en := end_.getD fxs.length
      let n ← usub "vector-copy!: end - start" en st
      let room ← usub "vector-copy!: len - at" txs.length at'
      if n > room then .err .syntax
      else do
        -- the whole source range is read before anything is written
        let vals := (fxs.drop st).take n
        let s ← s.vecSet tid (putRange txs at' vals)
        .ok (s, .void)

end Marwood.Store
