import Marwood.Store.Basic
/-!
# `vm/builtin/list.rs` and `list?` of `predicate.rs`

Each builtin is `Store → args → Res`; `args` are the values the caller pushed, in source order
(`pop_argc` becomes the arity pattern; the Rust code pops them last-to-first, and the models read
them in the same order so that the first failing check is the same).
Loops take fuel; the Rust loop does not return on a circular list, the model answers `diverge`.
-/
namespace Marwood.Store
open Outcome

def car (s : Store) : List VCell → Res
  | [x] => do
    match (← s.get x) with
    | .pair a _ => .ok (s, .ptr a)
    | _ => .err .pair
  | _ => .err .arity

def cdr (s : Store) : List VCell → Res
  | [x] => do
    match (← s.get x) with
    | .pair _ d => .ok (s, .ptr d)
    | _ => .err .pair
  | _ => .err .arity

/-- `cons` returns the pair *by value*; `finish` allocates its cell -/
def consRaw (s : Store) : List VCell → Res
  | [a, d] => do
    let (s, dv) := s.put d
    let dp ← dv.asPtr
    let (s, av) := s.put a
    let ap ← av.asPtr
    .ok (s, .pair ap dp)
  | _ => .err .arity

def cons (s : Store) (args : List VCell) : Res := finish (consRaw s args)

def setCar (s : Store) : List VCell → Res
  | [p, obj] => do
    let (s, o) := s.put obj
    match (← s.get p) with
    | .pair _ d => do
      let op ← o.asPtr
      let pp ← p.asPtr
      let s ← s.setCell pp (.pair op d)
      .ok (s, .void)
    | _ => .err .syntax
  | _ => .err .arity

def setCdr (s : Store) : List VCell → Res
  | [p, obj] => do
    let (s, o) := s.put obj
    match (← s.get p) with
    | .pair a _ => do
      let op ← o.asPtr
      let pp ← p.asPtr
      let s ← s.setCell pp (.pair a op)
      .ok (s, .void)
    | _ => .err .syntax
  | _ => .err .arity

/-- the loop of `clone_list`; `rest` is the current (dereferenced) pair cell, `nilp` the shared nil
    cell, `head`/`tail` the first/last pair of the copy (`nil` before the first iteration) -/
def cloneLoop : Nat → Store → VCell → Nat → VCell → VCell → Outcome (Store × VCell × VCell)
  | 0, _, _, _, _, _ => .diverge
  | f+1, s, rest, nilp, head, tail => do
    let carp ← (← rest.asCar).asPtr
    let (s, pair) := s.put (.pair carp nilp)
    let head := if head.isNil then pair else head
    let (s, tail) ← (if tail.isNil then (.ok (s, pair) : Outcome (Store × VCell)) else do
      let last ← s.get tail
      let lc ← (← last.asCar).asPtr
      let pp ← pair.asPtr
      let tp ← tail.asPtr
      let s ← s.setCell tp (.pair lc pp)
      .ok (s, pair))
    let rest' ← s.get (← rest.asCdr)
    if rest'.isPair then cloneLoop f s rest' nilp head tail
    else if rest'.isNil then .ok (s, head, tail)
    else .err .syntax

/-- `clone_list(vm, list)`: `(head, tail)` of a fresh copy of the spine -/
def cloneList (fuel : Nat) (s : Store) (list : VCell) : Outcome (Store × VCell × VCell) :=
  if !list.isPair then .err .pair else do
    let (s, nilv) := s.put .nil
    let nilp ← nilv.asPtr
    cloneLoop fuel s list nilp .nil .nil

/-- the `for` loop of `append`; `rest` = the arguments still on the stack, top first -/
def appendLoop (fuel : Nat) : Store → List VCell → VCell → Res
  | s, [], tail => .ok (s, tail)
  | s, x :: rest, tail => do
    let l ← s.get x
    match l with
    | .nil => appendLoop fuel s rest tail
    | .pair _ _ => do
      let (s, head, subTail) ← cloneList fuel s l
      let sp ← s.get subTail
      let c ← (← sp.asCar).asPtr
      let stp ← subTail.asPtr
      let tp ← tail.asPtr
      let s ← s.setCell stp (.pair c tp)
      appendLoop fuel s rest head
    | _ => .err .pair

def append (fuel : Nat) (s : Store) (args : List VCell) : Res :=
  match args.reverse with
  | [] => .ok (s, .nil)
  | last :: rest =>
    let (s, t) := s.put last
    appendLoop fuel s rest t

def reverseLoop : Nat → Store → VCell → VCell → Res
  | 0, _, _, _ => .diverge
  | f+1, s, rest, tail => do
    let c ← (← rest.asCar).asPtr
    let t ← tail.asPtr
    let (s, tail) := s.put (.pair c t)
    let rest' ← s.get (← rest.asCdr)
    if rest'.isPair then reverseLoop f s rest' tail
    else if rest'.isNil then .ok (s, tail)
    else .err .syntax

def reverse (fuel : Nat) (s : Store) : List VCell → Res
  | [x] => do
    let l ← s.get x
    if !l.isPair then
      if l.isNil then .ok (s, l) else .err .pair
    else
      let (s, t) := s.put .nil
      reverseLoop fuel s l t
  | _ => .err .arity

/-- `get_list_tail(vm, list, idx)` -/
def getListTail (s : Store) : VCell → Nat → Outcome VCell
  | rest, 0 => .ok rest
  | rest, k+1 => do
    let node ← s.get rest
    if (!node.isPair && k != 0) || node.isNil then .err .syntax
    else getListTail s (← node.asCdr) k

def listRef (s : Store) : List VCell → Res
  | [l, i] => do
    let idx ← popIndex s i
    let list ← s.get l
    if !list.isPair && !list.isNil then .err .pair else do
      let tail ← getListTail s l idx
      match (← s.get tail) with
      | .pair a _ => .ok (s, .ptr a)
      | _ => .err .syntax
  | _ => .err .arity

def listTail (s : Store) : List VCell → Res
  | [l, i] => do
    let idx ← popIndex s i
    let list ← s.get l
    if !list.isPair && !list.isNil then .err .pair else do
      let t ← getListTail s l idx
      .ok (s, t)
  | _ => .err .arity

def isListLoop : Nat → Store → VCell → Outcome Bool
  | 0, _, _ => .diverge
  | f+1, s, rest =>
    if !rest.isPair then .ok rest.isNil
    else do isListLoop f s (← s.get (← rest.asCdr))

/-- `list?` -/
def isList (fuel : Nat) (s : Store) : List VCell → Res
  | [x] => do
    let b ← isListLoop fuel s (← s.get x)
    .ok (s, .bool b)
  | _ => .err .arity

/-- the `VARARG` instruction building the rest-argument list: this *is* `(define (list . l) l)` -/
def listLoop : Store → List VCell → Nat → Outcome (Store × Nat)
  | s, [], acc => .ok (s, acc)
  | s, x :: rest, acc => do
    let (s, a) := s.put x
    let ap ← a.asPtr
    let (s, p) := s.put (.pair ap acc)
    let pp ← p.asPtr
    listLoop s rest pp

def list (s : Store) (args : List VCell) : Res := do
  let (s, n) := s.put .nil
  let np ← n.asPtr
  let (s, p) ← listLoop s args.reverse np
  .ok (s, .ptr p)

end Marwood.Store
