import Marwood.Store.VectorOps
/-!
# `vm/compare.rs` (after the `fix:` commits 77f2b17 and dfd9e81): `eqv` and `equal`, and the
predicates of `predicate.rs` that the prelude uses

`equal` (dfd9e81) threads a set of pairs of heap locations — the pairs and vectors whose comparison has
begun — through `equal_seen` / `compare_pair` / `compare_vector` and answers `#t` for a pair of
locations it meets again, so it terminates on circular structure (`Lemmas/EqualTotal.lean`); the
functions before that repair are kept as `Pinned.equal` … (they diverge on circular structure,
`Proofs/C06.equal_circular_diverges`; where they terminate the repaired ones give the same answer,
`Lemmas/EqualAgree.lean`).
-/
namespace Marwood.Store
open Outcome

/-- `match left { Ptr(p) => heap.get_at_index(p), _ => left }` -/
def derefArg (s : Store) (v : VCell) : Outcome VCell := s.get v

/-- the `match (left, right)` of `Vm::eqv` on dereferenced cells -/
def eqvCells (s : Store) : VCell → VCell → Outcome Bool
  | .bool a, .bool b => .ok (a == b)
  | .num a, .num b => .ok (a == b)
  | .nil, .nil => .ok true
  | .pair a d, .pair a' d' => .ok (a == a' && d == d')     -- `left == right` on the cell contents
  | .char a, .char b => .ok (a == b)
  | .sym a, .sym b => .ok (a == b)                         -- two symbol cells: by name (fix 77f2b17)
  | .str i, .str j => do                                   -- `Rc<RefCell<String>>: PartialEq` compares contents
    let a ← s.strGet i
    let b ← s.strGet j
    .ok (a == b)
  | _, _ => .ok false

def eqv (s : Store) (l r : VCell) : Outcome Bool :=
  if l.isPtr && r.isPtr && l == r then .ok true
  else do
    let l' ← derefArg s l
    let r' ← derefArg s r
    eqvCells s l' r'

/-! ## `equal` before the repair dfd9e81 -/
namespace Pinned
mutual
/-- `Vm::equal` as pinned -/
def equal : Nat → Store → VCell → VCell → Outcome Bool
  | 0, _, _, _ => .diverge
  | f+1, s, l, r => do
    if (← eqv s l r) then .ok true
    else do
      let l' ← derefArg s l
      let r' ← derefArg s r
      match l', r' with
      | .pair _ _, .pair _ _ => comparePair f s l' r'
      | .vec i, .vec j => do
        let xs ← s.vecGet i
        let ys ← s.vecGet j
        if xs.length != ys.length then .ok false else compareVector f s xs ys
      | .str i, .str j => do
        let a ← s.strGet i
        let b ← s.strGet j
        .ok (a == b)
      | _, _ => eqv s l' r'

/-- `Vm::compare_pair`: walks both spines, `equal` on the cars -/
def comparePair : Nat → Store → VCell → VCell → Outcome Bool
  | 0, _, _, _ => .diverge
  | f+1, s, l, r =>
    if !l.isPair || !r.isPair then equal f s l r          -- structural on the final cdrs (fix 77f2b17)
    else do
      let lcar ← l.asCar
      let rcar ← r.asCar
      if !(← equal f s lcar rcar) then .ok false
      else do
        let l' ← s.get (← l.asCdr)
        let r' ← s.get (← r.asCdr)
        comparePair f s l' r'

/-- the loop of `Vm::compare_vector` (lengths already known to be equal) -/
def compareVector : Nat → Store → List VCell → List VCell → Outcome Bool
  | 0, _, _, _ => .diverge
  | _+1, _, [], _ => .ok true
  | _+1, _, _ :: _, [] => .panic "compare_vector: unwrap on None"
  | f+1, s, x :: xs, y :: ys => do
    if !(← equal f s x y) then .ok false
    else compareVector f s xs ys
end
end Pinned

/-! ## `equal` after the repair -/

/-- the `HashSet<(usize, usize)>` of `equal_seen`: pairs of heap locations whose comparison has begun.
    Only `insert` is ever applied to it, so a list with a membership test carries all that is observable. -/
abbrev Seen := List (Nat × Nat)

/-- `seen.insert((a, b))`: `none` when the pair of locations was already there (`insert` answers
    `false`), otherwise the extended set -/
def Seen.visit (seen : Seen) (a b : Nat) : Option Seen :=
  if seen.contains (a, b) then none else some ((a, b) :: seen)

/-- `if let Some(locations) = locations { seen.insert(locations) }` where `locations` is `Some` exactly
    when both arguments of `equal_seen` were references -/
def Seen.record (seen : Seen) : VCell → VCell → Option Seen
  | .ptr a, .ptr b => seen.visit a b
  | _, _ => some seen

mutual
/-- `Vm::equal_seen`; the second component is `seen` as the call leaves it -/
def equalSeen : Nat → Store → Seen → VCell → VCell → Outcome (Bool × Seen)
  | 0, _, _, _, _ => .diverge
  | f+1, s, seen, l, r => do
    if (← eqv s l r) then .ok (true, seen)
    else do
      let l' ← derefArg s l
      let r' ← derefArg s r
      match l', r' with
      | .pair _ _, .pair _ _ =>
        match seen.record l r with
        | none => .ok (true, seen)                          -- met again: settled elsewhere
        | some seen' => comparePairSeen f s seen' l' r'
      | .vec i, .vec j =>
        match seen.record l r with
        | none => .ok (true, seen)
        | some seen' => do
          let xs ← s.vecGet i
          let ys ← s.vecGet j
          if xs.length != ys.length then .ok (false, seen') else compareVectorSeen f s seen' xs ys
      | .str i, .str j => do
        let a ← s.strGet i
        let b ← s.strGet j
        .ok (a == b, seen)
      | _, _ => do .ok (← eqv s l' r', seen)

/-- `Vm::compare_pair`: walks both spines, `equal_seen` on the cars; the locations of the two next
    pairs are recorded before the loop goes round -/
def comparePairSeen : Nat → Store → Seen → VCell → VCell → Outcome (Bool × Seen)
  | 0, _, _, _, _ => .diverge
  | f+1, s, seen, l, r =>
    if !l.isPair || !r.isPair then equalSeen f s seen l r
    else do
      let lcar ← l.asCar
      let rcar ← r.asCar
      let (b, seen1) ← equalSeen f s seen lcar rcar
      if !b then .ok (false, seen1)
      else do
        let lcdr ← l.asCdr
        let rcdr ← r.asCdr
        let l' ← s.get lcdr
        let r' ← s.get rcdr
        if l'.isPair && r'.isPair then
          match seen1.visit (← lcdr.asPtr) (← rcdr.asPtr) with
          | none => .ok (true, seen1)
          | some seen2 => comparePairSeen f s seen2 l' r'
        else comparePairSeen f s seen1 l' r'

/-- the loop of `Vm::compare_vector` (lengths already known to be equal) -/
def compareVectorSeen : Nat → Store → Seen → List VCell → List VCell → Outcome (Bool × Seen)
  | 0, _, _, _, _ => .diverge
  | _+1, _, seen, [], _ => .ok (true, seen)
  | _+1, _, _, _ :: _, [] => .panic "compare_vector: unwrap on None"
  | f+1, s, seen, x :: xs, y :: ys => do
    let (b, seen1) ← equalSeen f s seen x y
    if !b then .ok (false, seen1)
    else compareVectorSeen f s seen1 xs ys
end

/-- `Vm::equal`: `equal_seen` with a fresh set -/
def equal (fuel : Nat) (s : Store) (l r : VCell) : Outcome Bool := do
  let (b, _) ← equalSeen fuel s [] l r
  .ok b

/-- fuel (= nesting of model calls) that `equal` never exhausts, whatever the store holds
    (`Lemmas/EqualTotal.equal_total`): every call level either records a new pair of locations — there
    are `|cells|²` of them — or is one of at most `maxVecLen + 5` levels between two such records -/
def maxVecLen (s : Store) : Nat := s.vecs.foldl (fun n v => max n v.length) 0

def equalFuel (s : Store) : Nat := s.cells.length * s.cells.length * (maxVecLen s + 5) + 1

/-- `eq?`, `eqv?` (both call `Vm::eqv`; the arguments are popped right-to-left) -/
def eqvB (s : Store) : List VCell → Res
  | [a, b] => do .ok (s, .bool (← eqv s b a))
  | _ => .err .arity

def equalB (fuel : Nat) (s : Store) : List VCell → Res
  | [a, b] => do .ok (s, .bool (← equal fuel s b a))
  | _ => .err .arity

def isNullB (s : Store) : List VCell → Res
  | [x] => do .ok (s, .bool (← s.get x).isNil)
  | _ => .err .arity

def isPairB (s : Store) : List VCell → Res
  | [x] => do .ok (s, .bool (← s.get x).isPair)
  | _ => .err .arity

end Marwood.Store
