import Marwood.Store.VectorOps
/-!
# `vm/compare.rs` (after the `fix:` commit 77f2b17): `eqv` and `equal`, and the predicates of
`predicate.rs` that the prelude uses
-/
namespace Marwood.Store
open Outcome

/-- `match left { Ptr(p) => heap.get_at_index(p), _ => left }` -/
def derefArg (s : Store) (v : VCell) : Outcome VCell := s.get v

/-- the `match (left, right)` of `Vm::eqv` on dereferenced cells -/
def eqvCells (s : Store) : VCell → VCell → Outcome Bool
  | .bool a, .bool b => .ok (a == b)
  | .num a, .num b => .ok (a == b)
  | .nil, .nil => .ok true
  | .pair a d, .pair a' d' => .ok (a == a' && d == d')     -- `left == right` on the cell contents
  | .char a, .char b => .ok (a == b)
  | .sym a, .sym b => .ok (a == b)                         -- two symbol cells: by name (fix 77f2b17)
  | .str i, .str j => do                                   -- `Rc<RefCell<String>>: PartialEq` compares contents
    let a ← s.strGet i
    let b ← s.strGet j
    .ok (a == b)
  | _, _ => .ok false

def eqv (s : Store) (l r : VCell) : Outcome Bool :=
  if l.isPtr && r.isPtr && l == r then .ok true
  else do
    let l' ← derefArg s l
    let r' ← derefArg s r
    eqvCells s l' r'

mutual
/-- `Vm::equal` -/
def equal : Nat → Store → VCell → VCell → Outcome Bool
  | 0, _, _, _ => .diverge
  | f+1, s, l, r => do
    if (← eqv s l r) then .ok true
    else do
      let l' ← derefArg s l
      let r' ← derefArg s r
      match l', r' with
      | .pair _ _, .pair _ _ => comparePair f s l' r'
      | .vec i, .vec j => do
        let xs ← s.vecGet i
        let ys ← s.vecGet j
        if xs.length != ys.length then .ok false else compareVector f s xs ys
      | .str i, .str j => do
        let a ← s.strGet i
        let b ← s.strGet j
        .ok (a == b)
      | _, _ => eqv s l' r'

/-- `Vm::compare_pair`: walks both spines, `equal` on the cars -/
def comparePair : Nat → Store → VCell → VCell → Outcome Bool
  | 0, _, _, _ => .diverge
  | f+1, s, l, r =>
    if !l.isPair || !r.isPair then equal f s l r          -- structural on the final cdrs (fix 77f2b17)
    else do
      let lcar ← l.asCar
      let rcar ← r.asCar
      if !(← equal f s lcar rcar) then .ok false
      else do
        let l' ← s.get (← l.asCdr)
        let r' ← s.get (← r.asCdr)
        comparePair f s l' r'

/-- the loop of `Vm::compare_vector` (lengths already known to be equal) -/
def compareVector : Nat → Store → List VCell → List VCell → Outcome Bool
  | 0, _, _, _ => .diverge
  | _+1, _, [], _ => .ok true
  | _+1, _, _ :: _, [] => .panic "compare_vector: unwrap on None"
  | f+1, s, x :: xs, y :: ys => do
    if !(← equal f s x y) then .ok false
    else compareVector f s xs ys
end

/-- `eq?`, `eqv?` (both call `Vm::eqv`; the arguments are popped right-to-left) -/
def eqvB (s : Store) : List VCell → Res
  | [a, b] => do .ok (s, .bool (← eqv s b a))
  | _ => .err .arity

def equalB (fuel : Nat) (s : Store) : List VCell → Res
  | [a, b] => do .ok (s, .bool (← equal fuel s b a))
  | _ => .err .arity

def isNullB (s : Store) : List VCell → Res
  | [x] => do .ok (s, .bool (← s.get x).isNil)
  | _ => .err .arity

def isPairB (s : Store) : List VCell → Res
  | [x] => do .ok (s, .bool (← s.get x).isPair)
  | _ => .err .arity

end Marwood.Store
