import Marwood.Store.VectorOps
/-!
# `vm/builtin/string.rs` (after the `fix:` commits 3a9d75e, 9789244, 7523142, 4bf1665)

A Rust `String` is a `Text` (`List Char`); every index computation of string.rs is kept as the
*byte-offset* computation it is: `char_indices().nth(i)` yields the byte length of the prefix,
`&s[a..b]` and `replace_range(a..b, …)` slice at byte offsets and panic when an offset is not a
character boundary (`Marwood.Text.takeBytes/dropBytes/sliceBytes` return `none`).
The first half of the file works on string *contents*; the second half wraps them as builtins over
the store (a string has an identity `id`, its contents live in `strs[id]`).

Case mapping (`to_lowercase`, `to_uppercase`) and the Unicode character classes enter through a
`CaseTable` parameter: abstract in the theorems, an oracle table sent by the harness in the driver
(the Unicode tables of Rust's `std` themselves stay trusted).
Two different lower-casings exist in string.rs since fix fbafd01, and both are modelled:
* `string-foldcase` and the five `string-ci…?` comparisons fold every character on its own
  (`s.chars().flat_map(char::to_lowercase)`): `strLower`, context free.
* `string-downcase` calls `str::to_lowercase`, which maps every character through
  `char::to_lowercase` except capital sigma U+03A3: by the Final_Sigma rule of Unicode it becomes
  the final form `ς` U+03C2 iff it is preceded - skipping Case_Ignorable characters - by a Cased
  character and not followed - skipping Case_Ignorable characters - by a Cased one, and `σ` U+03C3
  otherwise (`map_uppercase_sigma` / `case_ignorable_then_cased` in library/alloc/src/str.rs):
  `strLowerCtx`. The two predicates are the fields `cased` and `caseIgnorable` of the table. std
  skips first and tests `is_cased` only on the first character that is not Case_Ignorable, so the
  value of `cased` on a Case_Ignorable character is never consulted (the harness sends `false` there).
  `str::to_lowercase` also has a fast path for an ASCII prefix (`to_ascii_lowercase`); like the
  per-character mapping it is covered by the oracle table (on ASCII the two agree in `std`).
U+03A3, U+03C3, U+03C2 are generated in every position (alone, doubled, word-initial, -medial,
-final, next to Case_Ignorable and to uncased characters).
Ordering of `&str` is bytewise in Rust, which for valid UTF-8 is the lexicographic order of the
code points; the model compares code points (`cmpText`).
-/
namespace Marwood.Store
open Marwood Outcome

/-! ## contents -/

/-- `s.char_indices().nth(idx)`: byte offset of character `idx` and the character -/
def nthOffset : Text → Nat → Nat → Option (Nat × Char)
  | [], _, _ => none
  | c :: _, 0, off => some (off, c)
  | c :: cs, n+1, off => nthOffset cs n (off + c.utf8Size)

/-- `char_offset(s, idx)` -/
def charOffset (cs : Text) (idx : Nat) : Outcome Nat :=
  orErr .sindex ((nthOffset cs idx 0).map fun p => p.1)

/-- `char_offset_inclusive(s, idx)`: byte offset just after character `idx` -/
def charOffsetInclusive (cs : Text) (idx : Nat) : Outcome Nat :=
  orErr .sindex ((nthOffset cs idx 0).map fun p => p.1 + p.2.utf8Size)

/-- `char_substring_offset(s, start, end)` -/
def charSubstringOffset (cs : Text) (start end_ : Option Nat) : Outcome (Nat × Nat) :=
  let len := cs.length
  if optExceeds start len then .err .sindex
  else if optExceeds end_ len then .err .sindex
  else if optSame start end_ then .ok (0, 0)
  else if optInverted start end_ then .err .syntax
  else if start == some len then .ok (0, 0)
  else do
    let st ← (match start with
      | some st => charOffset cs st
      | none => .ok 0)
    let en ← (match end_ with
      | some e => do
        let e1 ← usub "char_substring_offset: end - 1" e 1
        charOffsetInclusive cs e1
      | none => .ok (byteLen cs))
    .ok (st, en)
where
  /-- `if let (Some(start), Some(end)) = … { if start == end { … } }` -/
  optSame (a b : Option Nat) : Bool :=
    match a, b with
    | some x, some y => x == y
    | _, _ => false

/-- `&s[a..b]` -/
def strSlice (cs : Text) (a b : Nat) : Outcome Text :=
  ofOption "byte index is not a char boundary / out of range" (sliceBytes a b cs)

/-- `s.replace_range(a..b, new)` -/
def replaceRange (cs : Text) (a b : Nat) (new : Text) : Outcome Text :=
  if a ≤ b then
    match takeBytes a cs, dropBytes b cs with
    | some pre, some post => .ok (pre ++ new ++ post)
    | _, _ => .panic "replace_range: not a char boundary / out of range"
  else .panic "replace_range: start > end"

/-- the substring selected by `(start, end)` as `string-copy` / `string->list` compute it -/
def substringC (cs : Text) (start end_ : Option Nat) : Outcome Text := do
  let (a, b) ← charSubstringOffset cs start end_
  strSlice cs a b

/-- `string-ref` on contents -/
def stringRefC (cs : Text) (idx : Nat) : Outcome Char :=
  orErr .sindex cs[idx]?

/-- `string-set!` on contents -/
def stringSetC (cs : Text) (idx : Nat) (c : Char) : Outcome Text := do
  let (a, b) ← orErr .sindex ((nthOffset cs idx 0).map fun p => (p.1, p.1 + p.2.utf8Size))
  replaceRange cs a b [c]

/-- the `count` of `string-fill!`: `(Some(start), Some(end)) if end >= start => end - start`,
    `(Some(start), None) => len.saturating_sub(start)`, `_ => len` -/
def fillCount (len : Nat) (start end_ : Option Nat) : Nat :=
  match start, end_ with
  | some st, some e => if e ≥ st then e - st else len
  | some st, none => len - st
  | _, _ => len

/-- `string-fill!` on contents -/
def stringFillC (cs : Text) (c : Char) (start end_ : Option Nat) : Outcome Text := do
  let (a, b) ← charSubstringOffset cs start end_
  replaceRange cs a b (List.replicate (fillCount cs.length start end_) c)

/-- code-point lexicographic order (`Ord for str`) -/
def cmpText : Text → Text → Ordering
  | [], [] => .eq
  | [], _ :: _ => .lt
  | _ :: _, [] => .gt
  | a :: as, b :: bs =>
    if a.val < b.val then .lt else if b.val < a.val then .gt else cmpText as bs

inductive CmpOp | eq | lt | gt | le | ge
deriving DecidableEq, Repr

def CmpOp.holds : CmpOp → Ordering → Bool
  | .eq, o => o == .eq
  | .lt, o => o == .lt
  | .gt, o => o == .gt
  | .le, o => o != .gt
  | .ge, o => o != .lt

structure CaseTable where
  lower : Char → List Char
  upper : Char → List Char
  alphabetic : Char → Bool
  numeric : Char → Bool
  whitespace : Char → Bool
  isLower : Char → Bool
  isUpper : Char → Bool
  /-- `char::is_cased` (Unicode `Cased`), where `str::to_lowercase` consults it: on characters that
      are not Case_Ignorable -/
  cased : Char → Bool
  /-- `char::is_case_ignorable` (Unicode `Case_Ignorable`) -/
  caseIgnorable : Char → Bool

/-- `s.chars().flat_map(char::to_lowercase)` (`foldcase` of string.rs: `string-foldcase`, `string-ci…?`)
    and `str::to_uppercase`: every character on its own -/
def strLower (T : CaseTable) (cs : Text) : Text := cs.flatMap T.lower
def strUpper (T : CaseTable) (cs : Text) : Text := cs.flatMap T.upper

/-! ### `str::to_lowercase` (`string-downcase`): per character, except capital sigma -/

def capSigma : Char := 'Σ'
def smallSigma : Char := 'σ'
def finalSigma : Char := 'ς'

/-- `case_ignorable_then_cased(iter)`:
    `match iter.skip_while(|&c| c.is_case_ignorable()).next() { Some(c) => c.is_cased(), None => false }` -/
def ignorableThenCased (T : CaseTable) : List Char → Bool
  | [] => false
  | c :: cs => if T.caseIgnorable c then ignorableThenCased T cs else T.cased c

/-- `map_uppercase_sigma(from, i)`: `before` = `from[..i].chars().rev()` (nearest character first),
    `after` = the characters behind the sigma -/
def sigmaImage (T : CaseTable) (before after : List Char) : Char :=
  if ignorableThenCased T before && !ignorableThenCased T after then finalSigma else smallSigma

/-- what one character contributes to `str::to_lowercase` -/
def lowerCtxPiece (T : CaseTable) (before : List Char) (c : Char) (after : List Char) : List Char :=
  if c = capSigma then [sigmaImage T before after] else T.lower c

/-- the loop of `str::to_lowercase`; `before` = the characters already consumed, last first -/
def lowerCtxGo (T : CaseTable) : List Char → List Char → Text
  | _, [] => []
  | before, c :: cs => lowerCtxPiece T before c cs ++ lowerCtxGo T (c :: before) cs

/-- `str::to_lowercase` -/
def strLowerCtx (T : CaseTable) (cs : Text) : Text := lowerCtxGo T [] cs

/-- the loop of `string_comp` / `char_comp`: `xs` = the remaining arguments, last first; `y` the
    argument to their right; every adjacent pair is tested, nothing short-circuits -/
def compLoop {α : Type} (comp : α → α → Bool) : List α → α → Bool → Bool
  | [], _, r => r
  | x :: xs, y, r => compLoop comp xs x (if comp x y then r else false)

/-! ## builtins -/

/-- pop every argument as a string (last argument first, as the Rust loops do) -/
def popStrings (s : Store) : List VCell → Outcome (List Text)
  | [] => .ok []
  | v :: vs => do
    let id ← popString s v
    let t ← s.strGet id
    let rest ← popStrings s vs
    .ok (t :: rest)

def popChars (s : Store) : List VCell → Outcome (List Char)
  | [] => .ok []
  | v :: vs => do
    let c ← popChar s v
    let rest ← popChars s vs
    .ok (c :: rest)

def newStrRes (s : Store) (t : Text) : Res := finish (.ok (s.newStr t))

def stringAppend (s : Store) (args : List VCell) : Res := do
  -- popped last to first, each inserted at the front
  let ts ← popStrings s args.reverse
  newStrRes s (ts.foldl (fun out t => t ++ out) [])

def stringLength (s : Store) : List VCell → Res
  | [v] => do
    let id ← popString s v
    let t ← s.strGet id
    .ok (s, .num t.length)
  | _ => .err .arity

def stringCase (f : Text → Text) (s : Store) : List VCell → Res
  | [v] => do
    let id ← popString s v
    let t ← s.strGet id
    newStrRes s (f t)
  | _ => .err .arity

def stringRef (s : Store) : List VCell → Res
  | [v, i] => do
    let idx ← popIndex s i
    let id ← popString s v
    let t ← s.strGet id
    let c ← stringRefC t idx
    .ok (s, .char c)
  | _ => .err .arity

/-- decode the optional `start`/`end` arguments (popped `end` first) -/
def popRange (s : Store) : List VCell → Outcome (Option Nat × Option Nat)
  | [] => .ok (none, none)
  | [st] => do .ok (some (← popIndex s st), none)
  | [st, en] => do
    let e ← popIndex s en
    let b ← popIndex s st
    .ok (some b, some e)
  | _ => .err .arity

def charListLoop : Store → List Char → VCell → Outcome (Store × VCell)
  | s, [], tail => .ok (s, tail)
  | s, c :: rest, tail => do
    let (s, cv) := s.put (.char c)
    let cp ← cv.asPtr
    let tp ← tail.asPtr
    let (s, tail) := s.put (.pair cp tp)
    charListLoop s rest tail

def stringToList (s : Store) : List VCell → Res
  | v :: range => do
    let (start, end_) ← popRange s range
    let id ← popString s v
    let t ← s.strGet id
    let sub ← substringC t start end_
    let (s, l) := s.put .nil
    charListLoop s sub.reverse l
  | [] => .err .arity

def stringCopy (s : Store) : List VCell → Res
  | v :: range => do
    let (start, end_) ← popRange s range
    let id ← popString s v
    let t ← s.strGet id
    let sub ← substringC t start end_
    newStrRes s sub
  | [] => .err .arity

def stringToVector (s : Store) : List VCell → Res
  | [v] => do
    let id ← popString s v
    let t ← s.strGet id
    finish (.ok (s.newVec (t.map VCell.char)))
  | _ => .err .arity

/-- `vm.heap.get(v.get(it).unwrap()).as_char()?` for every slot -/
def slotsToChars (s : Store) : List VCell → Outcome (List Char)
  | [] => .ok []
  | x :: xs => do
    match (← s.get x) with
    | .char c => do .ok (c :: (← slotsToChars s xs))
    | _ => .err .type

def vectorToString (s : Store) : List VCell → Res
  | [v] => do
    let id ← popVector s v
    let xs ← s.vecGet id
    let cs ← slotsToChars s xs
    newStrRes s cs
  | _ => .err .arity

/-- the `while rest.is_pair()` loop of `list->string` -/
def collectChars : Nat → Store → VCell → List Char → Outcome (List Char × VCell)
  | 0, _, _, _ => .diverge
  | f+1, s, l, acc =>
    if l.isPair then do
      match (← s.get (← l.asCar)) with
      | .char c => do
        let l' ← s.get (← l.asCdr)
        collectChars f s l' (acc ++ [c])
      | _ => .err .syntax
    else .ok (acc, l)

def listToString (fuel : Nat) (s : Store) : List VCell → Res
  | [x] => do
    let l ← s.get x
    if !l.isPair && !l.isNil then .err .pair
    else do
      let (cs, last) ← collectChars fuel s l []
      if !last.isNil then .err .syntax
      else newStrRes s cs
  | _ => .err .arity

def stringFill (s : Store) : List VCell → Res
  | v :: c :: range => do
    let (start, end_) ← popRange s range
    let ch ← popChar s c
    let id ← popString s v
    let t ← s.strGet id
    let t' ← stringFillC t ch start end_
    let s ← s.strSet id t'
    .ok (s, .void)
  | _ => .err .arity

def stringSet (s : Store) : List VCell → Res
  | [v, i, c] => do
    let ch ← popChar s c
    let idx ← popIndex s i
    let id ← popString s v
    let t ← s.strGet id
    let t' ← stringSetC t idx ch
    let s ← s.strSet id t'
    .ok (s, .void)
  | _ => .err .arity

/-- `repeat_n(c, size).collect::<String>()` reserves `size` bytes up front: beyond `isize::MAX`
    that is a "capacity overflow" panic, below it an allocation failure aborts (not modelled) -/
def strCapacity : Nat := 9223372036854775807

/-- `pop_usize` -/
def popUsize (s : Store) (v : VCell) : Outcome Nat := do
  match (← s.get v) with
  | .num n => orErr .syntax (toUsize n)
  | _ => .err .syntax

def makeString (s : Store) (args : List VCell) : Res :=
  match args with
  | [k] => go k (Char.ofNat 0)
  | [k, c] => do go k (← popChar s c)
  | _ => .err .arity
where
  go (k : VCell) (c : Char) : Res := do
    let size ← popUsize s k
    if size > strCapacity then .panic "capacity overflow"
    else newStrRes s (List.replicate size c)

def stringB (s : Store) (args : List VCell) : Res := do
  let cs ← popChars s args.reverse
  newStrRes s cs.reverse

def stringComp (f : Text → Text) (op : CmpOp) (s : Store) (args : List VCell) : Res :=
  match args.reverse with
  | [] => .err .arity
  | last :: rest => do
    let y ← (do let id ← popString s last; s.strGet id)
    let xs ← popStrings s rest
    .ok (s, .bool (compLoop (fun x y => op.holds (cmpText (f x) (f y))) xs y true))

end Marwood.Store
