import Marwood.Store.StringOps
/-!
# `vm/builtin/char.rs` (after the `fix:` commit 6d88db4)
-/
namespace Marwood.Store
open Marwood Outcome

/-- `char::to_ascii_uppercase` / `to_ascii_lowercase` -/
def asciiUpper (c : Char) : Char :=
  if 97 ≤ c.toNat ∧ c.toNat ≤ 122 then Char.ofNat (c.toNat - 32) else c
def asciiLower (c : Char) : Char :=
  if 65 ≤ c.toNat ∧ c.toNat ≤ 90 then Char.ofNat (c.toNat + 32) else c

def isAscii (c : Char) : Bool := c.toNat < 128

/-- `char-upcase` -/
def charUpcase (T : CaseTable) (c : Char) : Char :=
  if isAscii c then asciiUpper c
  else match T.upper c with
    | [u] => u
    | _ => c

/-- `char-downcase`, `char-foldcase` and the `foldcase` helper of the `char-ci` predicates -/
def charFoldcase (T : CaseTable) (c : Char) : Char :=
  if isAscii c then asciiLower c
  else match T.lower c with
    | [l] => l
    | _ => c

/-- `pop_integer` followed by `to_u32` and `char::from_u32` -/
def integerToChar (s : Store) : List VCell → Res
  | [v] => do
    match (← s.get v) with
    | .num n =>
      match n with
      | .ofNat k =>
        if k ≤ 4294967295 then                    -- `to_u32`
          if h : k.isValidChar then .ok (s, .char (Char.ofNatAux k h)) else .err .syntax
        else .err .syntax
      | .negSucc _ => .err .syntax
    | _ => .err .syntax
  | _ => .err .arity

def charToInteger (s : Store) : List VCell → Res
  | [v] => do
    let c ← popChar s v
    .ok (s, .num c.toNat)
  | _ => .err .arity

def charPred (p : Char → Bool) (s : Store) : List VCell → Res
  | [v] => do
    let c ← popChar s v
    .ok (s, .bool (p c))
  | _ => .err .arity

def charMap (f : Char → Char) (s : Store) : List VCell → Res
  | [v] => do
    let c ← popChar s v
    .ok (s, .char (f c))
  | _ => .err .arity

/-- `char_comp`: n-ary, every adjacent pair is tested -/
def charComp (f : Char → Char) (op : CmpOp) (s : Store) (args : List VCell) : Res :=
  match args.reverse with
  | [] => .err .arity
  | last :: rest => do
    let y ← popChar s last
    let xs ← popChars s rest
    .ok (s, .bool (compLoop (fun x y => op.holds (compare (f x).val (f y).val)) xs y true))

end Marwood.Store
