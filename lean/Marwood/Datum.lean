import Marwood.Text
import Marwood.Num.Rep
/-!
# Model of `marwood::cell::Cell`

`vec elems` carries its elements as a `pair`/`nil` spine (`elems` is a proper list built from
`Datum.pair`), which keeps `Datum` a plain (non-nested) inductive type so that structural
recursion and induction work directly. `Datum.vecOfList` / `Datum.listElems` convert.
Strings and symbols are `Text` (`List Char`).
-/
namespace Marwood

inductive Datum
  | bool (b : Bool)
  | char (c : Char)
  | nil
  | num (n : Num)
  | pair (car : Datum) (cdr : Datum)
  | str (s : Text)
  | sym (s : Text)
  | vec (elems : Datum)
  | continuation
  | macro_
  | procedure (desc : Option Text)
  | undefined
  | void
deriving DecidableEq, Repr, Inhabited

namespace Datum

/-- `Cell::new_list` / `construct_list(iter, None)` -/
def ofList : List Datum → Datum
  | [] => .nil
  | x :: xs => .pair x (ofList xs)

/-- `Cell::new_improper_list(iter, cdr)`; with an empty `iter` the Rust code returns `Nil`…
    see `Cell::construct_list`: the fold starts from `last_cdr.unwrap_or(Nil)`. -/
def ofListTail : List Datum → Datum → Datum
  | [], t => t
  | x :: xs, t => .pair x (ofListTail xs t)

/-- elements along the cdr spine (stops at the first non-pair) -/
def listElems : Datum → List Datum
  | .pair a d => a :: listElems d
  | _ => []

/-- the final cdr of the spine -/
def listTail : Datum → Datum
  | .pair _ d => listTail d
  | t => t

def vecOfList (xs : List Datum) : Datum := .vec (ofList xs)

def isPair : Datum → Bool | .pair _ _ => true | _ => false
def isNil : Datum → Bool | .nil => true | _ => false

theorem listElems_ofList (xs : List Datum) : listElems (ofList xs) = xs := by
  induction xs with
  | nil => rfl
  | cons x xs ih => simp [ofList, listElems, ih]

end Datum
end Marwood
