import Marwood.Lex
import Marwood.Datum
import Marwood.Num.Text
/-!
# Model of `marwood/src/parse.rs`

`parse`, `parse_list`, `parse_improper_list_tail`, `parse_vector`, `parse_char`, `parse_string`,
`parse_number` (after the repair that rejects a non-number token after a number prefix),
`parse_text`, and the datum-by-datum iteration of `Vm::eval_text` / the REPL and wasm read loops.
Outcomes are three-valued; every slice, `unwrap` and `usize` subtraction is a checked operation.
Error *classes* only (the payload strings of the Rust enum are message text).
Core Lean only.
-/
namespace Marwood

inductive ParseErr
  | incomplete
  | unexpectedToken
  | expectedOneTokenAfterDot
  | expectedTokenBeforeDot
  | expectedListTerminator
  | expectedVectorTerminator
  | syntaxError
  | unknownChar
  | lex (e : LexErr)
deriving DecidableEq, Repr

abbrev PRes (α : Type) := Res ParseErr α

/-- `Token::span(text)` = `&text[lo..hi]` -/
def tokSpan (text : Text) (t : Token) : PRes Text :=
  match sliceBytes t.lo t.hi text with
  | some s => .ok s
  | none => .panic "slice"

/-! ## `parse_char` -/

/-- `char::from_u32` -/
def charOfNat? (n : Nat) : Option Char :=
  if h : n.isValidChar then some (Char.ofNatAux n h) else none

/-- `char::named_to_char` -/
def namedToChar (s : Text) : Option Char :=
  if s = "alarm".toList then some (Char.ofNat 0x7)
  else if s = "backspace".toList then some (Char.ofNat 0x8)
  else if s = "delete".toList then some (Char.ofNat 0x7f)
  else if s = "escape".toList then some (Char.ofNat 0x1b)
  else if s = "null".toList then some (Char.ofNat 0x0)
  else if s = "return".toList then some (Char.ofNat 0xd)
  else if s = "tab".toList then some (Char.ofNat 0x9)
  else if s = "space".toList then some ' '
  else if s = "newline".toList then some '\n'
  else none

def u32Max : Nat := 4294967295

/-- `parse_char` on the token's span -/
def parseCharSpan (span : Text) : PRes Datum :=
  match dropBytes 2 span with
  | none => .panic "slice"
  | some s =>
    match s with
    | [c] => .ok (.char c)
    | _ =>
      match s with
      | 'x' :: hex =>
        if hex.all isAsciiHex then
          -- `u32::from_str_radix(hex, 16)`: empty, or overflow of u32, is an error
          match parseNat 16 hex with
          | none => .err .unknownChar
          | some v =>
            if v ≤ u32Max then
              match charOfNat? v with
              | some c => .ok (.char c)
              | none => .err .unknownChar
            else .err .unknownChar
        else
          match namedToChar s with
          | some c => .ok (.char c)
          | none => .err .unknownChar
      | _ =>
        match namedToChar s with
        | some c => .ok (.char c)
        | none => .err .unknownChar

/-! ## `parse_string` -/

/-- the slice handed to `parse_string`: `""` for the span `""`, else `&span[1..span.len() - 1]` -/
def stringInner (span : Text) : PRes Text :=
  if span = ['"', '"'] then .ok []
  else if byteLen span = 0 then .panic "attempt to subtract with overflow"
  else match sliceBytes 1 (byteLen span - 1) span with
    | some s => .ok s
    | none => .panic "slice"

/-- the character a one-letter escape stands for (`Some(c) => *c` for everything else) -/
def escapeChar (c : Char) : Char :=
  if c = 'a' then Char.ofNat 0x7
  else if c = 'b' then Char.ofNat 0x8
  else if c = 'e' then Char.ofNat 0x1b
  else if c = 't' then '\t'
  else if c = 'n' then '\n'
  else if c = 'r' then '\r'
  else if c = 'v' then Char.ofNat 0xb
  else if c = 'f' then Char.ofNat 0xc
  else c

/-- scanner state of `parse_string` -/
inductive StrSt
  | norm
  | esc
  | hex (acc : Nat)

/-- the loop of `parse_string` as a state machine over the characters -/
def unescapeGo : StrSt → Text → Except ParseErr Text
  | .norm, [] => .ok []
  | .esc, [] => .error .incomplete
  | .hex _, [] => .error .syntaxError
  | .norm, c :: cs =>
    if c = '\\' then unescapeGo .esc cs
    else match unescapeGo .norm cs with
      | .ok r => .ok (c :: r)
      | .error e => .error e
  | .esc, c :: cs =>
    if c = 'x' then unescapeGo (.hex 0) cs
    else match unescapeGo .norm cs with
      | .ok r => .ok (escapeChar c :: r)
      | .error e => .error e
  | .hex acc, c :: cs =>
    if c = ';' then
      match charOfNat? acc with
      | none => .error .syntaxError
      | some ch =>
        match unescapeGo .norm cs with
        | .ok r => .ok (ch :: r)
        | .error e => .error e
    else if isAsciiHex c then
      match digitVal c with
      | none => .error .syntaxError
      | some d =>
        if acc * 16 + d ≤ u32Max then unescapeGo (.hex (acc * 16 + d)) cs
        else .error .syntaxError
    else .error .syntaxError

/-- `parse_string` -/
def parseString (inner : Text) : PRes Datum :=
  match unescapeGo .norm inner with
  | .ok s => .ok (.str s)
  | .error e => .err e

/-! ## `parse_number` -/

/-- one iteration of the `while token.token_type == NumberPrefix` loop: the new exactness and
    radix, `none` = the `panic!("unexpected number prefix")` arm -/
def prefixStep (sp : Text) (ex : Exactness) (radix : Nat) : Option (Exactness × Nat) :=
  if sp = ['#', 'e'] then some (.exact, radix)
  else if sp = ['#', 'i'] then some (.inexact, radix)
  else if sp = ['#', 'd'] then some (ex, 10)
  else if sp = ['#', 'b'] then some (ex, 2)
  else if sp = ['#', 'o'] then some (ex, 8)
  else if sp = ['#', 'x'] then some (ex, 16)
  else none

/-- what follows the prefix loop: the token must spell a number (scanner types `Number` or
    `Symbol`); a spelling that is not a number becomes a symbol -/
def numberFinal (fo : FloatOps) (text : Text) (ex : Exactness) (radix : Nat) (t : Token)
    (ts : List Token) : PRes (Datum × List Token) :=
  match tokSpan text t with
  | .panic m => .panic m
  | .err e => .err e
  | .ok sp =>
    if t.ty = .number ∨ t.ty = .symbol then
      match parseWithExactness fo sp ex radix with
      | .ok n => .ok (.num n, ts)
      | .err () => .ok (.sym sp, ts)
      | .panic m => .panic m
    else .err .unexpectedToken

/-- `parse_number`: `t` is the current token, `ts` what the cursor still holds -/
def parseNumberTok (fo : FloatOps) (text : Text) :
    Exactness → Nat → Token → List Token → PRes (Datum × List Token)
  | ex, radix, t, ts =>
    if t.ty = .numberPrefix then
      match tokSpan text t with
      | .panic m => .panic m
      | .err e => .err e
      | .ok sp =>
        match prefixStep sp ex radix with
        | none => .panic "unexpected number prefix"
        | some (ex', radix') =>
          match ts with
          | [] => .err .incomplete
          | t' :: ts' => parseNumberTok fo text ex' radix' t' ts'
    else numberFinal fo text ex radix t ts

/-! ## the datum parser -/

def quoteForm (name : String) (d : Datum) : Datum :=
  .pair (.sym name.toList) (.pair d .nil)

/-- `start_token.span(text).chars().next().unwrap()` -/
def firstChar (text : Text) (t : Token) : PRes Char :=
  match tokSpan text t with
  | .ok (c :: _) => .ok c
  | .ok [] => .panic "unwrap"
  | .err e => .err e
  | .panic m => .panic m

def closes (o c : Char) : Bool :=
  (o == '(' && c == ')') || (o == '[' && c == ']') || (o == '{' && c == '}')

/-- `Cell::new_improper_list(list, cdr)` (`construct_list`: an empty `list` yields `Nil`) -/
def newImproperList (xs : List Datum) (t : Datum) : Datum :=
  match xs with
  | [] => .nil
  | _ => Datum.ofListTail xs t

/-- `Ok(list![name, parse(text, cur)?])` applied to the outcome of the inner `parse` -/
def wrapRes (name : String) :
    Option (PRes (Datum × List Token)) → Option (PRes (Datum × List Token))
  | none => none
  | some (.ok (d, rest)) => some (.ok (quoteForm name d, rest))
  | some (.err e) => some (.err e)
  | some (.panic m) => some (.panic m)

/-- the arms of the `match token.token_type` of `parse` -/
inductive TokKind
  | wrap (name : String)
  | list
  | vector
  | atom

def tokKind : TokType → TokKind
  | .singleQuote => .wrap "quote"
  | .quasiquote => .wrap "quasiquote"
  | .unquote => .wrap "unquote"
  | .leftParen => .list
  | .hashParen => .vector
  | _ => .atom

/-- the arms of `parse` that do not call `parse` again; `ts` is what the cursor holds after `t` -/
def parseAtom (fo : FloatOps) (text : Text) (t : Token) (ts : List Token) :
    PRes (Datum × List Token) :=
  match t.ty with
  | .rightParen => .err .unexpectedToken
  | .true_ => .ok (.bool true, ts)
  | .false_ => .ok (.bool false, ts)
  | .char =>
    (match tokSpan text t with
      | .ok sp => (match parseCharSpan sp with
          | .ok d => .ok (d, ts) | .err e => .err e | .panic m => .panic m)
      | .err e => .err e
      | .panic m => .panic m)
  | .string =>
    (match tokSpan text t with
      | .ok sp => (match stringInner sp with
          | .ok inner => (match parseString inner with
              | .ok d => .ok (d, ts) | .err e => .err e | .panic m => .panic m)
          | .err e => .err e
          | .panic m => .panic m)
      | .err e => .err e
      | .panic m => .panic m)
  | .symbol =>
    (match tokSpan text t with
      | .ok sp => .ok (.sym sp, ts)
      | .err e => .err e
      | .panic m => .panic m)
  | .numberPrefix => parseNumberTok fo text .unspecified 10 t ts
  | .number => parseNumberTok fo text .unspecified 10 t ts
  | _ =>
    -- `Dot` (and the `WhiteSpace` type the scanner never produces)
    (match tokSpan text t with
      | .ok _ => .err .unexpectedToken
      | .err e => .err e
      | .panic m => .panic m)

/-- the `RightParen` arm of `parse_list` -/
def closeList (text : Text) (start t : Token) (acc : List Datum) (ts : List Token) :
    PRes (Datum × List Token) :=
  match firstChar text start with
  | .ok o => (match firstChar text t with
      | .ok c => if closes o c then .ok (Datum.ofList acc, ts) else .err .expectedListTerminator
      | .err e => .err e
      | .panic m => .panic m)
  | .err e => .err e
  | .panic m => .panic m

/-- the `RightParen` arm of `parse_vector` -/
def closeVector (text : Text) (t : Token) (acc : List Datum) (ts : List Token) :
    PRes (Datum × List Token) :=
  match firstChar text t with
  | .ok c => if c = ')' then .ok (Datum.vecOfList acc, ts) else .err .expectedVectorTerminator
  | .err e => .err e
  | .panic m => .panic m

mutual
/-- `parse`; fuel-indexed (`none` = out of fuel, shown impossible for the fuel `parseTokens` uses) -/
def parseF (fo : FloatOps) (text : Text) : Nat → List Token → Option (PRes (Datum × List Token))
  | 0, _ => none
  | _+1, [] => some (.err .incomplete)
  | f+1, t :: ts =>
    match tokKind t.ty with
    | .wrap name => wrapRes name (parseF fo text f ts)
    | .list => listF fo text f t [] ts
    | .vector => vectorF fo text f [] ts
    | .atom => some (parseAtom fo text t ts)

/-- the loop of `parse_list`; `acc` is `list` -/
def listF (fo : FloatOps) (text : Text) :
    Nat → Token → List Datum → List Token → Option (PRes (Datum × List Token))
  | 0, _, _, _ => none
  | _+1, _, _, [] => some (.err .incomplete)
  | f+1, start, acc, t :: ts =>
    if t.ty = .rightParen then some (closeList text start t acc ts)
    else if t.ty = .dot then tailF fo text f acc ts
    else
      match parseF fo text f (t :: ts) with
      | none => none
      | some (.ok (d, rest)) => listF fo text f start (acc ++ [d]) rest
      | some (.err e) => some (.err e)
      | some (.panic m) => some (.panic m)

/-- `parse_improper_list_tail` -/
def tailF (fo : FloatOps) (text : Text) :
    Nat → List Datum → List Token → Option (PRes (Datum × List Token))
  | 0, _, _ => none
  | f+1, acc, ts =>
    if acc.isEmpty then some (.err .expectedTokenBeforeDot)
    else match ts with
      | [] => some (.err .incomplete)
      | t :: ts' =>
        if t.ty = .dot ∨ t.ty = .rightParen then some (.err .expectedOneTokenAfterDot)
        else match parseF fo text f (t :: ts') with
          | none => none
          | some (.ok (d, rest)) =>
            (match rest with
              | [] => some (.err .incomplete)
              | c :: rest' =>
                if c.ty = .rightParen then some (.ok (newImproperList acc d, rest'))
                else some (.err .expectedOneTokenAfterDot))
          | some (.err e) => some (.err e)
          | some (.panic m) => some (.panic m)

/-- the loop of `parse_vector` -/
def vectorF (fo : FloatOps) (text : Text) :
    Nat → List Datum → List Token → Option (PRes (Datum × List Token))
  | 0, _, _ => none
  | _+1, _, [] => some (.err .incomplete)
  | f+1, acc, t :: ts =>
    if t.ty = .rightParen then some (closeVector text t acc ts)
    else if t.ty = .dot then some (.err .unexpectedToken)
    else
      match parseF fo text f (t :: ts) with
      | none => none
      | some (.ok (d, rest)) => vectorF fo text f (acc ++ [d]) rest
      | some (.err e) => some (.err e)
      | some (.panic m) => some (.panic m)
end

/-- fuel that always suffices (`Proofs/C11: parseF_total`) -/
def parseFuel (ts : List Token) : Nat := 2 * ts.length + 2

/-- `parse::parse(text, &mut cur)` on the tokens the cursor holds; the `none` branch is unreachable -/
def parseTokens (fo : FloatOps) (text : Text) (ts : List Token) : PRes (Datum × List Token) :=
  match parseF fo text (parseFuel ts) ts with
  | some r => r
  | none => .panic "fuel"

/-- `parse::parse_text`: the datum and the remaining text (`&text[span.0..]` of the next token) -/
def parseText (fo : FloatOps) (text : Text) : PRes (Datum × Option Text) :=
  match scan text with
  | .error e => .err (.lex e)
  | .ok ts =>
    match parseTokens fo text ts with
    | .err e => .err e
    | .panic m => .panic m
    | .ok (d, []) => .ok (d, none)
    | .ok (d, t :: _) =>
      match dropBytes t.lo text with
      | some r => .ok (d, some r)
      | none => .panic "slice"

/-- Reading a text datum by datum, the way `Vm::eval_text` is iterated by its callers: the data
    read, and how the iteration ended (`none` = text exhausted). `fuel` bounds the rounds. -/
def readAllF (fo : FloatOps) : Nat → Text → Option (List Datum × Option (PRes Unit))
  | 0, _ => none
  | f+1, text =>
    match parseText fo text with
    | .err e => some ([], some (.err e))
    | .panic m => some ([], some (.panic m))
    | .ok (d, none) => some ([d], none)
    | .ok (d, some rest) =>
      match readAllF fo f rest with
      | none => none
      | some (ds, fin) => some (d :: ds, fin)

end Marwood
