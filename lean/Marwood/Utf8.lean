import Marwood.Text
/-!
# UTF-8 (RFC 3629): the bytes behind a `Text`

A Rust `String` is its UTF-8 byte sequence; the models work with `Text = List Char` and with
*byte offsets* that are prefix sums of `Char.utf8Size`. This file supplies the encoding itself so
that statements about bytes (bytewise ordering of `str`, byte offsets, byte slices) can be made and
proved (`Lemmas/Utf8Order.lean`) instead of being taken on trust.

Bytes are natural numbers; `Lemmas/Utf8Order.lean` shows every one is `< 256` (`encode_byte_lt`) and
that the definition is, byte for byte, Lean's own `String.utf8EncodeChar` (`encode_eq_core`).
Core Lean only.
-/
namespace Marwood.Utf8

/-- RFC 3629 §3, by scalar value range:

    0000 0000 – 0000 007F   0xxxxxxx
    0000 0080 – 0000 07FF   110xxxxx 10xxxxxx
    0000 0800 – 0000 FFFF   1110xxxx 10xxxxxx 10xxxxxx
    0001 0000 – 0010 FFFF   11110xxx 10xxxxxx 10xxxxxx 10xxxxxx   -/
def encodeNat (v : Nat) : List Nat :=
  if v ≤ 0x7F then [v]
  else if v ≤ 0x7FF then [0xC0 + v / 64 % 32, 0x80 + v % 64]
  else if v ≤ 0xFFFF then [0xE0 + v / 4096 % 16, 0x80 + v / 64 % 64, 0x80 + v % 64]
  else [0xF0 + v / 262144 % 8, 0x80 + v / 4096 % 64, 0x80 + v / 64 % 64, 0x80 + v % 64]

/-- the UTF-8 bytes of a scalar value (surrogates are not `Char`s) -/
def encode (c : Char) : List Nat := encodeNat c.val.toNat

/-- `str::as_bytes` -/
def encodeText (s : Text) : List Nat := s.flatMap encode

@[simp] theorem encodeText_nil : encodeText [] = [] := rfl
@[simp] theorem encodeText_cons (c : Char) (s : Text) :
    encodeText (c :: s) = encode c ++ encodeText s := rfl

/-- `<[u8] as Ord>::cmp`, which is `<str as Ord>::cmp`: the first differing byte decides, a proper
    prefix is smaller -/
def cmpBytes : List Nat → List Nat → Ordering
  | [], [] => .eq
  | [], _ :: _ => .lt
  | _ :: _, [] => .gt
  | x :: xs, y :: ys => if x < y then .lt else if y < x then .gt else cmpBytes xs ys

/-- lexicographic comparison of two texts by scalar value -/
def cmpPoints : Text → Text → Ordering
  | [], [] => .eq
  | [], _ :: _ => .lt
  | _ :: _, [] => .gt
  | a :: as, b :: bs => if a.val < b.val then .lt else if b.val < a.val then .gt else cmpPoints as bs

/-- `u8::is_utf8_char_boundary` on a byte: not a continuation byte `10xxxxxx` -/
def isLeadByte (b : Nat) : Bool := b < 0x80 || 0xC0 ≤ b

/-- `str::is_char_boundary(i)` on the bytes: `i = 0`, `i = len`, or the byte at `i` is not a
    continuation byte -/
def isCharBoundary (bytes : List Nat) (i : Nat) : Bool :=
  i == 0 || (match bytes[i]? with
    | some b => isLeadByte b
    | none => i == bytes.length)

end Marwood.Utf8
