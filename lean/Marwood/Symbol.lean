import Marwood.Parse
import Marwood.Print
import Marwood.Heap.Heap
/-!
# Model of `string->symbol` / `symbol->string` (`marwood/src/vm/builtin/symbol.rs:13-34`)

A symbol is stored under its *spelling* (what the reader saw, or what `string->symbol` built); its
*name* is what `symbol->string` returns: the spelling run through `parse::parse_string`
(`unescapeGo` of `Parse.lean`), i.e. with `\x<hex>;` and the one-letter escapes decoded.

`string->symbol` (after commit "fix: string->symbol writes a backslash as \x5c; …") maps every
character of its argument: a backslash always to `\x5c;`; the first character to itself when it is an
initial identifier character, a later one to itself when it is a subsequent identifier character;
everything else to `\x<lowercase hex>;`. `pinned = true` selects the behaviour before the repair
(backslash kept verbatim — it is an initial identifier character for the scanner).
Core Lean only.
-/
namespace Marwood

/-- `format!("\\x{:x};", c as u32)` -/
def symEscape (c : Char) : Text := '\\' :: 'x' :: (hexOf c ++ [';'])

/-- one iteration of the `.map(|(idx, c)| …)` closure; `first` is `idx == 0` -/
def encodeSymChar (pinned : Bool) (first : Bool) (c : Char) : Text :=
  if !pinned && c = '\\' then symEscape c
  else if first && isInitialIdentifier c then [c]
  else if !first && isSubsequentIdentifier c then [c]
  else symEscape c

def encodeSymTail (pinned : Bool) : Text → Text
  | [] => []
  | c :: cs => encodeSymChar pinned false c ++ encodeSymTail pinned cs

/-- the spelling `string->symbol` builds for a string -/
def stringToSymbolP (pinned : Bool) : Text → Text
  | [] => []
  | c :: cs => encodeSymChar pinned true c ++ encodeSymTail pinned cs

/-- `string->symbol` on the tree as it is (repaired) -/
def stringToSymbol (s : Text) : Text := stringToSymbolP false s

/-- `symbol->string`: `parse::parse_string(sym.as_str())?` -/
def symbolToString (y : Text) : Except ParseErr Text := unescapeGo .norm y

/-- `(string->symbol (symbol->string y))` -/
def reencode (y : Text) : Except ParseErr Text :=
  match symbolToString y with
  | .ok s => .ok (stringToSymbol s)
  | .error e => .error e

/-- a spelling every character of which stands for itself in both directions: the first is an initial
identifier character, the others subsequent identifier characters, none is a backslash -/
def plainTail : Text → Bool
  | [] => true
  | c :: cs => isSubsequentIdentifier c && c != '\\' && plainTail cs

def plainIdent : Text → Bool
  | [] => false
  | c :: cs => isInitialIdentifier c && c != '\\' && plainTail cs

/-- `Vm::eqv` (`vm/compare.rs:26-58`, which backs `eq?`) on two heap pointers that hold symbols: equal
addresses, or else the dereferenced cells are both symbols with the same spelling; `none` when one of
the cells is not a symbol (the other arms of `eqv` are not modelled here) -/
def Heap.Heap.eqvSym (h : Heap.Heap) (p q : Nat) : Option Bool :=
  if p = q then some true else
  match h.cells[p]?, h.cells[q]? with
  | some (.symbol a), some (.symbol b) => some (decide (a = b))
  | _, _ => none

end Marwood
