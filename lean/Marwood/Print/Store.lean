import Marwood.Datum
import Marwood.Num.Text
/-!
# Datum ⇄ heap conversion (`marwood/src/vm/heap.rs:153-200` `put_cell` / `maybe_put_cell`,
`heap.rs:266-326` `get_as_cell`) over an abstract store

The store is the abstract machine's view of the heap (DESIGN §3.2 `AM`): a finite map from addresses to
cells with *fresh allocation* (address = number of cells so far), no free list and no collection.
What is kept from `heap.rs`: which values are boxed and which travel unboxed (`maybe_put_cell` returns
numbers, booleans, characters, nil, void, undefined unboxed; `put_cell` boxes them), symbols are
interned (`put` of a symbol returns the cell that already holds that spelling), pairs hold two
addresses, vectors hold values (unboxed scalars or addresses), and the shape of the loop in
`get_as_cell` that rebuilds a list along the cdr spine (`Nil` ends a proper list, any other non-pair
cell is the tail of an improper one). Procedures, macros and continuations have no heap form:
`maybe_put_cell` panics on them. `get_as_cell` is recursive on the heap graph; the model is
fuel-indexed and the round-trip theorem supplies the fuel.
Core Lean only.
-/
namespace Marwood.PStore
open Marwood

/-- a `VCell` as a value: an unboxed scalar or a heap pointer -/
inductive SVal
  | imm (d : Datum)
  | ptr (p : Nat)
deriving DecidableEq, Repr, Inhabited

/-- the content of a heap cell -/
inductive SCell
  | val (d : Datum)            -- a boxed scalar (`put` of a non-pointer value)
  | pair (car cdr : Nat)
  | str (s : Text)
  | sym (s : Text)
  | vec (es : List SVal)
deriving DecidableEq, Repr, Inhabited

structure Store where
  cells : List SCell
deriving Repr, Inhabited

abbrev R (α : Type) := Res Unit α

def Store.empty : Store := ⟨[]⟩

/-- fresh allocation -/
def Store.alloc (st : Store) (c : SCell) : Store × Nat := (⟨st.cells ++ [c]⟩, st.cells.length)

/-- the symbol table: the address of the cell holding spelling `s` -/
def findSym (s : Text) : List SCell → Nat → Option Nat
  | [], _ => none
  | c :: cs, i => if c = .sym s then some i else findSym s cs (i + 1)

/-- `Heap::put` of a cell that is not a pointer: symbols are interned -/
def Store.put (st : Store) (c : SCell) : Store × Nat :=
  match c with
  | .sym s =>
    (match findSym s st.cells 0 with
      | some p => (st, p)
      | none => st.alloc c)
  | c => st.alloc c

/-- the arms of `maybe_put_cell` that return an unboxed value -/
def isScalar : Datum → Bool
  | .undefined | .void | .nil | .num _ | .bool _ | .char _ => true
  | _ => false

mutual
/-- `Heap::put_cell`: always a pointer -/
def putCell (st : Store) : Datum → R (Store × Nat)
  | .pair a d =>
    match putCell st a with
    | .ok (st1, pa) =>
      (match putCell st1 d with
        | .ok (st2, pd) => .ok (st2.put (.pair pa pd))
        | .err e => .err e
        | .panic m => .panic m)
    | .err e => .err e
    | .panic m => .panic m
  | .vec e =>
    match putElems st e with
    | .ok (st1, vs) => .ok (st1.put (.vec vs))
    | .err e => .err e
    | .panic m => .panic m
  | .str s => .ok (st.put (.str s))
  | .sym s => .ok (st.put (.sym s))
  | .undefined => .ok (st.put (.val .undefined))
  | .void => .ok (st.put (.val .void))
  | .nil => .ok (st.put (.val .nil))
  | .num n => .ok (st.put (.val (.num n)))
  | .bool b => .ok (st.put (.val (.bool b)))
  | .char c => .ok (st.put (.val (.char c)))
  | .continuation => .panic "unexpected continuation"
  | .macro_ => .panic "unexpected macro"
  | .procedure _ => .panic "unexpected lambda"
/-- the loop of the `Vector` arm: `maybe_put_cell` of each element of the spine -/
def putElems (st : Store) : Datum → R (Store × List SVal)
  | .pair x rest =>
    match maybePutCell st x with
    | .ok (st1, v) =>
      (match putElems st1 rest with
        | .ok (st2, vs) => .ok (st2, v :: vs)
        | .err e => .err e
        | .panic m => .panic m)
    | .err e => .err e
    | .panic m => .panic m
  | _ => .ok (st, [])
/-- `Heap::maybe_put_cell` -/
def maybePutCell (st : Store) : Datum → R (Store × SVal)
  | .pair a d =>
    match putCell st a with
    | .ok (st1, pa) =>
      (match putCell st1 d with
        | .ok (st2, pd) => let r := st2.put (.pair pa pd); .ok (r.1, .ptr r.2)
        | .err e => .err e
        | .panic m => .panic m)
    | .err e => .err e
    | .panic m => .panic m
  | .vec e =>
    match putElems st e with
    | .ok (st1, vs) => let r := st1.put (.vec vs); .ok (r.1, .ptr r.2)
    | .err e => .err e
    | .panic m => .panic m
  | .str s => let r := st.put (.str s); .ok (r.1, .ptr r.2)
  | .sym s => let r := st.put (.sym s); .ok (r.1, .ptr r.2)
  | .undefined => .ok (st, .imm .undefined)
  | .void => .ok (st, .imm .void)
  | .nil => .ok (st, .imm .nil)
  | .num n => .ok (st, .imm (.num n))
  | .bool b => .ok (st, .imm (.bool b))
  | .char c => .ok (st, .imm (.char c))
  | .continuation => .panic "unexpected continuation"
  | .macro_ => .panic "unexpected macro"
  | .procedure _ => .panic "unexpected lambda"
end

/-- `Cell::new_improper_list(v, cdr)` for a non-empty `v` -/
def improper (xs : List Datum) (t : Datum) : Datum := Datum.ofListTail xs t

/-- what the cell the cdr points at means for the loop of the `Pair` arm of `get_as_cell` -/
inductive SpineKind
  | next (a d : Nat)   -- `pair if pair.is_pair()`: continue along the spine
  | stop               -- `VCell::Nil`: a proper list ends
  | tail               -- anything else: the tail of an improper list

def spineKind : SCell → SpineKind
  | .pair a d => .next a d
  | .val .nil => .stop
  | _ => .tail

mutual
/-- `get_as_cell(&VCell::Ptr(p))` -/
def getPtr (st : Store) : Nat → Nat → R Datum
  | 0, _ => .panic "fuel"
  | f+1, p =>
    match st.cells[p]? with
    | none => .panic "heap index out of bounds"
    | some c => getCell st f c
/-- `get_as_cell` of the content of a cell -/
def getCell (st : Store) : Nat → SCell → R Datum
  | 0, _ => .panic "fuel"
  | _+1, .val d => .ok d
  | _+1, .str s => .ok (.str s)
  | _+1, .sym s => .ok (.sym s)
  | f+1, .vec es =>
    (match getVals st f es with
      | .ok xs => .ok (Datum.vecOfList xs)
      | .err e => .err e
      | .panic m => .panic m)
  | f+1, .pair a d => getSpine st f a d []
/-- `get_as_cell` of a value held by a vector -/
def getVal (st : Store) : Nat → SVal → R Datum
  | 0, _ => .panic "fuel"
  | _+1, .imm d => .ok d
  | f+1, .ptr p => getPtr st f p
/-- the elements of a vector -/
def getVals (st : Store) : Nat → List SVal → R (List Datum)
  | 0, _ => .panic "fuel"
  | _+1, [] => .ok []
  | f+1, v :: vs =>
    match getVal st f v with
    | .ok x =>
      (match getVals st f vs with
        | .ok xs => .ok (x :: xs)
        | .err e => .err e
        | .panic m => .panic m)
    | .err e => .err e
    | .panic m => .panic m
/-- the loop of the `Pair` arm: `rest = Pair(a, d)`, `acc` is `v` -/
def getSpine (st : Store) : Nat → Nat → Nat → List Datum → R Datum
  | 0, _, _, _ => .panic "fuel"
  | f+1, a, d, acc =>
    match getPtr st f a with
    | .ok x =>
      (match st.cells[d]? with
        | none => .panic "heap index out of bounds"
        | some c =>
          (match spineKind c with
            | .next a' d' => getSpine st f a' d' (acc ++ [x])
            | .stop => .ok (Datum.ofList (acc ++ [x]))
            | .tail =>
              (match getCell st f c with
                | .ok t => .ok (improper (acc ++ [x]) t)
                | .err e => .err e
                | .panic m => .panic m)))
    | .err e => .err e
    | .panic m => .panic m
end

/-- size of a datum: fuel that suffices to read it back -/
def dsize : Datum → Nat
  | .pair a d => dsize a + dsize d + 1
  | .vec e => dsize e + 1
  | _ => 1

/-- `check_constant` (`vm/compile.rs`, added by the repair "quoting a datum that contains a procedure,
macro or continuation … is an error"): does the datum contain a value without a constant form? -/
def hasOpaque : Datum → Bool
  | .procedure _ => true
  | .macro_ => true
  | .continuation => true
  | .pair a d => hasOpaque a || hasOpaque d
  | .vec e => hasOpaque e
  | _ => false

/-- what `Vm::eval` of `(quote d)` returns: `compile_quote` rejects a datum without a constant form
(`InvalidSyntax`), otherwise allocates it with `maybe_put_cell` and emits `MOV_IMMEDIATE <value> ACC`;
the result of the run is `get_as_cell` of the accumulator -/
def evalQuote (d : Datum) : R Datum :=
  if hasOpaque d then .err ()
  else
    match maybePutCell Store.empty d with
    | .ok (st, v) => getVal st (4 * dsize d + 4) v
    | .err e => .err e
    | .panic m => .panic m

end Marwood.PStore
