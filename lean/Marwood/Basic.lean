def hello := "world"
