import Marwood.Spec.Store
import Marwood.Store.CharOps
/-!
# Reference semantics of the string and character procedures (C15)

A string is a mutable array of Unicode scalar values (`List Char` addressed by position); there are
no bytes here. Ranges are `0 ≤ start ≤ end ≤ length`. Comparison predicates are n-ary conjunctions
over adjacent arguments of the code-point lexicographic order; the `-ci` variants compare the images
under the case folding of the `CaseTable` parameter (strings: `string-foldcase`, characters:
`char-foldcase`). Executable oracle `c15s` of the driver. Core Lean only.
-/
namespace Marwood.Spec
open Marwood
open Marwood.Store (Outcome Err CaseTable CmpOp cmpText)
open Marwood.Store.Outcome

/-- simple case mapping of a single character: the one-character image, else the character -/
def simpleUpper (T : CaseTable) (c : Char) : Char :=
  match T.upper c with
  | [u] => u
  | _ => c

def simpleLower (T : CaseTable) (c : Char) : Char :=
  match T.lower c with
  | [l] => l
  | _ => c

def charOf : RVal → Outcome Char
  | .char c => .ok c
  | _ => .err .syntax

/-- optional `[start [end]]` arguments against a length -/
def rangeOf (len : Nat) : List RVal → Outcome (Nat × Nat)
  | [] => .ok (0, len)
  | [b] => do
    let b ← indexOf b
    if b ≤ len then .ok (b, len) else .err .sindex
  | [b, e] => do
    let b ← indexOf b
    let e ← indexOf e
    if b ≤ e ∧ e ≤ len then .ok (b, e) else .err .sindex
  | _ => .err .arity

/-- adjacent pairs all satisfy `r` -/
def chainHolds {α : Type} (r : α → α → Bool) : List α → Bool
  | [] => true
  | [_] => true
  | x :: y :: rest => r x y && chainHolds r (y :: rest)

def rStringLength (st : RStore) : List RVal → RRes
  | [v] => do
    let (_, t) ← st.strOf v
    .ok (st, .num t.length)
  | _ => .err .arity

def rStringRef (st : RStore) : List RVal → RRes
  | [v, k] => do
    let (_, t) ← st.strOf v
    let k ← indexOf k
    match t[k]? with
    | some c => .ok (st, .char c)
    | none => .err .sindex
  | _ => .err .arity

def rStringSet (st : RStore) : List RVal → RRes
  | [v, k, c] => do
    let (l, t) ← st.strOf v
    let k ← indexOf k
    let c ← charOf c
    if k < t.length then .ok ({ st with strs := st.strs.set l (t.set k c) }, .void)
    else .err .sindex
  | _ => .err .arity

def rStringCopy (st : RStore) : List RVal → RRes
  | v :: range => do
    let (_, t) ← st.strOf v
    let (b, e) ← rangeOf t.length range
    .ok (st.newStr ((t.drop b).take (e - b)))
  | [] => .err .arity

def rStringToList (st : RStore) : List RVal → RRes
  | v :: range => do
    let (_, t) ← st.strOf v
    let (b, e) ← rangeOf t.length range
    .ok (st.mkList (((t.drop b).take (e - b)).map RVal.char) .nil)
  | [] => .err .arity

def rStringFill (st : RStore) : List RVal → RRes
  | v :: c :: range => do
    let (l, t) ← st.strOf v
    let c ← charOf c
    let (b, e) ← rangeOf t.length range
    .ok ({ st with strs := st.strs.set l (t.take b ++ List.replicate (e - b) c ++ t.drop e) }, .void)
  | _ => .err .arity

def rStringToVector (st : RStore) : List RVal → RRes
  | [v] => do
    let (_, t) ← st.strOf v
    .ok (st.newVec (t.map RVal.char))
  | _ => .err .arity

def rVectorToString (st : RStore) : List RVal → RRes
  | [v] => do
    let (_, xs) ← st.vecOf v
    let cs ← xs.mapM charOf
    .ok (st.newStr cs)
  | _ => .err .arity

def rListToString (st : RStore) : List RVal → RRes
  | [l] => do
    let xs ← st.properList l
    let cs ← xs.mapM charOf
    .ok (st.newStr cs)
  | _ => .err .arity

def rString (st : RStore) (args : List RVal) : RRes := do
  let cs ← args.mapM charOf
  .ok (st.newStr cs)

def rMakeString (st : RStore) : List RVal → RRes
  | [k] => do .ok (st.newStr (List.replicate (← indexOf k) (Char.ofNat 0)))
  | [k, c] => do
    let c ← charOf c
    .ok (st.newStr (List.replicate (← indexOf k) c))
  | _ => .err .arity

def rStringAppend (st : RStore) (args : List RVal) : RRes := do
  let ts ← args.mapM fun v => do let (_, t) ← st.strOf v; .ok t
  .ok (st.newStr ts.flatten)

def rStringCmp (f : Text → Text) (op : CmpOp) (st : RStore) (args : List RVal) : RRes := do
  if args.isEmpty then .err .arity else
  let ts ← args.mapM fun v => do let (_, t) ← st.strOf v; .ok t
  .ok (st, .bool (chainHolds (fun x y => op.holds (cmpText (f x) (f y))) ts))

def rStringCase (f : Text → Text) (st : RStore) : List RVal → RRes
  | [v] => do
    let (_, t) ← st.strOf v
    .ok (st.newStr (f t))
  | _ => .err .arity

def rCharToInteger (st : RStore) : List RVal → RRes
  | [c] => do .ok (st, .num (← charOf c).toNat)
  | _ => .err .arity

/-- valid exactly for Unicode scalar values: `0 … 0xD7FF` and `0xE000 … 0x10FFFF` -/
def rIntegerToChar (st : RStore) : List RVal → RRes
  | [.num n] =>
    if h : 0 ≤ n ∧ n.toNat.isValidChar then .ok (st, .char (Char.ofNatAux n.toNat h.2))
    else .err .syntax
  | [_] => .err .syntax
  | _ => .err .arity

def rCharPred (p : Char → Bool) (st : RStore) : List RVal → RRes
  | [c] => do .ok (st, .bool (p (← charOf c)))
  | _ => .err .arity

def rCharMap (f : Char → Char) (st : RStore) : List RVal → RRes
  | [c] => do .ok (st, .char (f (← charOf c)))
  | _ => .err .arity

def rCharCmp (f : Char → Char) (op : CmpOp) (st : RStore) (args : List RVal) : RRes := do
  if args.isEmpty then .err .arity else
  let cs ← args.mapM charOf
  .ok (st, .bool (chainHolds (fun x y => op.holds (compare (f x).val (f y).val)) cs))

end Marwood.Spec
