import Marwood.Heap.Gc
/-!
# Specification: the heap growth policy on two counters (`vm/heap.rs:44-70`, `vm/run.rs:499-536`)

The policy state is `(chunk, capacity, used)`. Two things change it:

* `alloc` — `Heap::alloc`: pop the free list; when it is empty (`used = capacity`) `grow` first, to
  `Heap.grownSize chunk capacity = ⌈1.5 · capacity/chunk⌉ · chunk` cells.
* `gcPoint force live` — one call of `Vm::run_gc` (every 8192 cycles, at a budget stop, at the end of an
  evaluation): nothing when `used/capacity < 3/4` (unless forced); otherwise collect, after which `live`
  cells are in use, then `grow` iff `live/capacity > 3/4`.

The arithmetic is *the same terms* as in the heap model (`Heap.grownSize`, `Heap.utilAtLeast34`,
`Heap.utilAbove34`), so that `Lemmas/PolicyRefine` can state that `Heap.alloc` / `Heap.runGc` project
onto these operations.
-/
namespace Marwood.Spec.HeapPolicy
open Marwood.Heap

structure PState where
  chunk : Nat
  capacity : Nat
  used : Nat
  deriving DecidableEq, Repr, Inhabited

def alloc (s : PState) : PState :=
  if s.used < s.capacity then { s with used := s.used + 1 }
  else { s with capacity := Heap.grownSize s.chunk s.capacity, used := s.used + 1 }

/-- does `run_gc` collect at this point? -/
def collects (force : Bool) (s : PState) : Bool := force || Heap.utilAtLeast34 s.used s.capacity

def gcPoint (force : Bool) (live : Nat) (s : PState) : PState :=
  if collects force s then
    if Heap.utilAbove34 live s.capacity then
      { s with capacity := Heap.grownSize s.chunk s.capacity, used := live }
    else { s with used := live }
  else s

inductive Op
  | alloc
  | gcPoint (force : Bool) (live : Nat)
  deriving DecidableEq, Repr, Inhabited

def step (s : PState) : Op → PState
  | .alloc => alloc s
  | .gcPoint force live => gcPoint force live s

def run (s : PState) : List Op → PState
  | [] => s
  | op :: ops => run (step s op) ops

/-- `k` consecutive allocations -/
def allocN : Nat → PState → PState
  | 0, s => s
  | k+1, s => allocN k (alloc s)

/-- the premises of the bound: at most `A` allocations between consecutive collection points (`a` = those
already made since the last one), at most `L` cells live at each collection point -/
def Paced (A L : Nat) : Nat → List Op → Prop
  | _, [] => True
  | a, .alloc :: ops => a < A ∧ Paced A L (a + 1) ops
  | _, .gcPoint _ live :: ops => live ≤ L ∧ Paced A L 0 ops

instance pacedDec (A L : Nat) : ∀ (a : Nat) (ops : List Op), Decidable (Paced A L a ops)
  | _, [] => isTrue trivial
  | a, .alloc :: ops => by
    unfold Paced; exact @instDecidableAnd _ _ _ (pacedDec A L (a + 1) ops)
  | _, .gcPoint _ _ :: ops => by
    unfold Paced; exact @instDecidableAnd _ _ _ (pacedDec A L 0 ops)

/-- the capacity above which the policy never grows again: an allocation grows only at `used = capacity`,
which needs `capacity ≤ L + A` (after a collection) or `capacity < 4·A` (after a skipped one, which had
`used < ¾·capacity`); a collection grows only when `¾·capacity < live ≤ L` -/
def threshold (A L : Nat) : Nat := max (L + A) (max (4 * A) ((4 * L) / 3))

/-- **the bound** of T12.3: the initial capacity, or one growth step from the threshold -/
def bound (chunk cap0 A L : Nat) : Nat := max cap0 (Heap.grownSize chunk (threshold A L))

end Marwood.Spec.HeapPolicy
