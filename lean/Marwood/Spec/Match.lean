import Marwood.Transform.Basic
/-!
# Specification: the R7RS `syntax-rules` matcher and template instantiation (R7RS 4.3.2)

Non-hygienic (identifiers are compared by name; the property is "up to the renaming hygiene would
add"), structurally recursive on the pattern / template, bindings are *trees of matches*
(`MTree.one d` for a variable outside any ellipsis, `MTree.many ts` one level of ellipsis).
Independent of `transform.rs`: dotted patterns and templates, vector patterns and templates, nested
ellipses, several consecutive ellipses in a template, `(... ...)` escapes and the
"literal takes precedence over ellipsis / underscore" rule are all specified here although the Rust
code rejects or does not know most of them.

Data are compared "in the sense of `equal?`": this is *marwood's* `equal?`, i.e. `Cell ==`
(`Transform.cellEq`, numbers compared numerically); whether that is R7RS's `equal?` on numbers is
C09's business, not C17's.
Core Lean only.
-/
namespace Marwood.Spec.Match
open Marwood
open Marwood.Transform (cellEq)

/-- a tree of matches -/
inductive MTree where
  | one (d : Datum)
  | many (ts : List MTree)
deriving Repr, Inhabited

abbrev Binds := List (Text × MTree)

structure Ctx where
  ellipsis : Text
  literals : List Text
deriving Repr, Inhabited, DecidableEq

namespace Ctx
def isLit (c : Ctx) (s : Text) : Bool := c.literals.contains s
/-- `s` acts as the ellipsis (a literal of the same name takes precedence) -/
def isEll (c : Ctx) (s : Text) : Bool := s == c.ellipsis && !c.isLit s
def isEllD (c : Ctx) : Datum → Bool
  | .sym s => c.isEll s
  | _ => false
/-- `s` is a pattern variable -/
def isVar (c : Ctx) (s : Text) : Bool := !c.isLit s && !c.isEll s && s != ['_']
end Ctx

/-- number of pairs along the spine -/
def spineLen : Datum → Nat
  | .pair _ d => spineLen d + 1
  | _ => 0

def takeSpine : Nat → Datum → List Datum
  | n+1, .pair a d => a :: takeSpine n d
  | _, _ => []

def dropSpine : Nat → Datum → Datum
  | n+1, .pair _ d => dropSpine n d
  | _, d => d

/-- the pattern variables of a pattern, left to right -/
def patVars (c : Ctx) : Datum → List Text
  | .sym s => if c.isVar s then [s] else []
  | .pair a d => patVars c a ++ patVars c d
  | .vec e => patVars c e
  | _ => []

/-- the matches of one ellipsis sub-pattern collected per variable: every variable of the
    sub-pattern gets a `many`, also when there were no items -/
def collect (vars : List Text) (bs : List Binds) : Binds :=
  vars.map fun v => (v, MTree.many (bs.filterMap fun b => b.lookup v))

/-- `specMatch c P E`: the bindings if form `E` matches pattern `P`. A list pattern
    `(P1 … Pk Pe <ellipsis> Pm+1 … Pn [. Px])` is walked along its spine: matching the rest of a
    list pattern against the rest of a form is matching a (list) pattern against a form. -/
def specMatch (c : Ctx) : Datum → Datum → Option Binds
  | .sym s, e =>
    if c.isLit s then (if cellEq (.sym s) e then some [] else none)
    else if c.isEll s then none            -- an ellipsis that follows nothing is not a pattern
    else if s == ['_'] then some []
    else some [(s, .one e)]
  | .pair p (.pair q rest), e =>
    if c.isEllD q then
      -- `p <ellipsis> rest`: the form needs at least as many pairs as `rest` has; all items
      -- before those match `p`
      let m := spineLen rest
      let n := spineLen e
      if n < m then none
      else
        match (takeSpine (n - m) e).mapM (fun x => specMatch c p x) with
        | none => none
        | some bs =>
          match specMatch c rest (dropSpine (n - m) e) with
          | none => none
          | some tb => some (collect (patVars c p) bs ++ tb)
    else
      match e with
      | .pair e1 er =>
        match specMatch c p e1 with
        | none => none
        | some b1 =>
          match specMatch c (.pair q rest) er with
          | none => none
          | some b2 => some (b1 ++ b2)
      | _ => none
  | .pair p rest, e =>
    match e with
    | .pair e1 er =>
      match specMatch c p e1 with
      | none => none
      | some b1 =>
        match specMatch c rest er with
        | none => none
        | some b2 => some (b1 ++ b2)
    | _ => none
  | .vec ps, e =>
    match e with
    | .vec es => specMatch c ps es
    | _ => none
  | d, e => if cellEq d e then some [] else none

/-- The class of uses behind known finding `C17-empty-ellipsis-before-tail`: walking pattern `P`
    against form `E` the way `specMatch` does, some `Pe <ellipsis> Pm+1 … Pn` with a non-empty fixed
    tail (`n > m`) meets exactly as many items as the tail needs, so R7RS gives `Pe` zero items.
    The pinned matcher always gives `Pe` the first item and then declines. Decidable guard of the
    `_partial` theorems and predicate of the finding. -/
def zeroRepTail (c : Ctx) : Datum → Datum → Bool
  | .pair p (.pair q rest), e =>
    if c.isEllD q then
      let m := spineLen rest
      let n := spineLen e
      if n < m then false
      else
        (decide (1 ≤ m) && n == m)
          || (takeSpine (n - m) e).any (fun x => zeroRepTail c p x)
          || zeroRepTail c rest (dropSpine (n - m) e)
    else
      match e with
      | .pair e1 er => zeroRepTail c p e1 || zeroRepTail c (.pair q rest) er
      | _ => false
  | .pair p rest, e =>
    match e with
    | .pair e1 er => zeroRepTail c p e1 || zeroRepTail c rest er
    | _ => false
  | _, _ => false

/-! ## Template instantiation -/

inductive IRes (α : Type) where
  | ok (a : α)
  /-- ellipsis variables of one sub-template matched different numbers of items: the uses the
      property excludes -/
  | mismatch
  /-- the template cannot be built as specified (R7RS: "it is an error") -/
  | malformed
deriving Repr, Inhabited

namespace IRes
@[inline] def bind {α β : Type} (x : IRes α) (f : α → IRes β) : IRes β :=
  match x with
  | ok a => f a
  | mismatch => mismatch
  | malformed => malformed
instance : Monad IRes where
  pure := ok
  bind := bind
end IRes

def tmplSyms : Datum → List Text
  | .sym s => [s]
  | .pair a d => tmplSyms a ++ tmplSyms d
  | .vec e => tmplSyms e
  | _ => []

/-- the bindings of the successive iterations of a sub-template whose symbols are `syms`:
    the variables bound to a `many` advance together -/
def repBinds (syms : List Text) (b : Binds) : IRes (List Binds) :=
  let ms : List (Text × List MTree) := syms.eraseDups.filterMap fun v =>
    match b.lookup v with
    | some (.many ts) => some (v, ts)
    | _ => none
  match ms with
  | [] => .malformed
  | (_, ts0) :: _ =>
    let n := ts0.length
    if ms.all (fun m => m.2.length == n) then
      .ok ((List.range n).map fun i => (ms.filterMap fun m => m.2[i]?.map fun t => (m.1, t)) ++ b)
    else .mismatch

def mapMI {α β : Type} (f : α → IRes β) : List α → IRes (List β)
  | [] => .ok []
  | x :: xs =>
    match f x with
    | .ok y =>
      match mapMI f xs with
      | .ok ys => .ok (y :: ys)
      | .mismatch => .mismatch
      | .malformed => .malformed
    | .mismatch => .mismatch
    | .malformed => .malformed

/-- a sub-template followed by `k` ellipses -/
def instRep (f : Binds → IRes Datum) (syms : List Text) : Nat → Binds → IRes (List Datum)
  | 0, b =>
    match f b with
    | .ok d => .ok [d]
    | .mismatch => .mismatch
    | .malformed => .malformed
  | k+1, b =>
    match repBinds syms b with
    | .ok bs =>
      match mapMI (instRep f syms k) bs with
      | .ok rs => .ok rs.flatten
      | .mismatch => .mismatch
      | .malformed => .malformed
    | .mismatch => .mismatch
    | .malformed => .malformed

/-- number of ellipses at the front of a spine -/
def leadEll (c : Ctx) : Datum → Nat
  | .pair q rest => if c.isEllD q then leadEll c rest + 1 else 0
  | _ => 0

def appendSpine : List Datum → Datum → Datum
  | [], t => t
  | x :: xs, t => .pair x (appendSpine xs t)

/-- `inst c esc skip T b`: instantiate template `T`.
    `esc` = inside `(<ellipsis> <template>)`, where the ellipsis is an ordinary identifier;
    `skip` = `T` is the rest of a list template whose leading ellipses belong to the element before
    (a list template is walked along its spine). -/
def inst (c : Ctx) (esc skip : Bool) : Datum → Binds → IRes Datum
  | .sym s, b =>
    match b.lookup s with
    | some (.one d) => .ok d
    | some (.many _) => .malformed            -- used with too few ellipses
    | none => if !esc && c.isEll s then .malformed else .ok (.sym s)
  | .pair x rest, b =>
    if !esc && c.isEllD x then
      if skip then inst c esc true rest b
      else
        -- `(<ellipsis> <template>)`
        match rest with
        | .pair t .nil => inst c true false t b
        | _ => .malformed
    else
      let k := if esc then 0 else leadEll c rest
      if k == 0 then
        match inst c esc false x b with
        | .ok h =>
          match inst c esc false rest b with
          | .ok t => .ok (.pair h t)
          | .mismatch => .mismatch
          | .malformed => .malformed
        | .mismatch => .mismatch
        | .malformed => .malformed
      else
        match instRep (fun b' => inst c esc false x b') (tmplSyms x) k b with
        | .ok hs =>
          match inst c esc true rest b with
          | .ok t => .ok (appendSpine hs t)
          | .mismatch => .mismatch
          | .malformed => .malformed
        | .mismatch => .mismatch
        | .malformed => .malformed
  | .vec e, b =>
    match inst c esc false e b with
    | .ok r => .ok (.vec r)
    | .mismatch => .mismatch
    | .malformed => .malformed
  | d, _ => .ok d

def instantiate (c : Ctx) (template : Datum) (b : Binds) : IRes Datum := inst c false false template b

/-! ## A transformer -/

structure Rule where
  pattern : Datum
  template : Datum
deriving Repr, Inhabited, DecidableEq

structure Rules where
  ctx : Ctx
  rules : List Rule
deriving Repr, Inhabited, DecidableEq

/-- match a use against a rule's pattern; the keyword position of the pattern is not involved -/
def matchRule (c : Ctx) (r : Rule) (use : Datum) : Option Binds :=
  match r.pattern, use with
  | .pair _ prest, .pair _ urest => specMatch c prest urest
  | _, _ => none

/-- some rule of the transformer meets the `zeroRepTail` situation on this use -/
def zeroRepTailRule (c : Ctx) (r : Rule) (use : Datum) : Bool :=
  match r.pattern, use with
  | .pair _ prest, .pair _ urest => zeroRepTail c prest urest
  | _, _ => false

inductive SRes where
  | ok (d : Datum)
  | noMatch
  | mismatch
  | malformed
deriving Repr, Inhabited

/-- R7RS: the first rule whose pattern matches is instantiated -/
def specExpand (c : Ctx) : List Rule → Datum → SRes
  | [], _ => .noMatch
  | r :: rs, use =>
    match matchRule c r use with
    | some b =>
      match instantiate c r.template b with
      | .ok d => .ok d
      | .mismatch => .mismatch
      | .malformed => .malformed
    | none => specExpand c rs use

/-- symbol name of a datum -/
def symName : Datum → Option Text
  | .sym s => some s
  | _ => none

def listElems : Datum → List Datum
  | .pair a d => a :: listElems d
  | _ => []

/-- read `(define-syntax kw (syntax-rules [ellipsis] (literal …) (pattern template) …))`;
    as lenient as the implementation's destructuring (extra elements of a rule are ignored) -/
def parseDef (d : Datum) : Option Rules :=
  match listElems d with
  | [_, .sym _, sr] =>
    match sr with
    | .pair (.sym h) rest =>
      if h != ['s','y','n','t','a','x','-','r','u','l','e','s'] then none
      else
        let (ell, rest) : Text × Datum := match rest with
          | .pair (.sym e) r => (e, r)
          | r => (['.', '.', '.'], r)
        match rest with
        | .pair lits rules =>
          match (listElems lits).mapM symName with
          | none => none
          | some ls =>
            let rs := (listElems rules).mapM fun r =>
              match r with
              | .pair p (.pair t _) => some (Rule.mk p t)
              | _ => none
            rs.map fun rs => { ctx := { ellipsis := ell, literals := ls }, rules := rs }
        | _ => none
    | _ => none
  | _ => none

end Marwood.Spec.Match
