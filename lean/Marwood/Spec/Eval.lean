import Marwood.Datum
/-!
# Specification: a definitional interpreter for the grammar of property C01

R7RS meaning of the core special forms (`lambda define set! if quote quasiquote/unquote`), of the
derived forms the prelude ships (`let let* letrec` named `let` `begin cond case and or when unless
delay`/`force`) — defined **natively**, not through the prelude's macros — and of procedure
application: operands left to right, then the operator (the order the property fixes), fixed and
variadic arity, `apply`, `eval`, `map`/`for-each`, a small set of primitive procedures on small exact
integers, booleans, characters, symbols, strings, lists and vectors.

* global environment keyed by name (`St.globals`); lexical variables, pairs, vectors and promises live
  in a store (`St.store`) addressed by location, so that sharing and mutation through aliases are
  first class; closures are values (parameters, body, captured environment name ↦ location);
* fuel-indexed by *nesting depth* through open recursion: `evalN (n+1)` evaluates one level of a form
  and calls `evalN n` for sub-evaluations and applications (`Rec`); `timeout` when fuel runs out;
* failures are the error classes of the wire protocol; the state reached before the failure is kept
  (completed effects persist, as in the implementation);
* where R7RS leaves a value unspecified (`define`, `set!`, one-armed `if`, `when`/`unless`, `cond`/`case`
  without a matching clause, `for-each`, `display`) the value is `void`, the implementation's choice.

Core Lean only.
-/
namespace Marwood.Spec.Eval
open Marwood

inductive ErrClass
  | unbound | arity | type | notProcedure | syntax | range | user | internal
deriving DecidableEq, Repr, Inhabited

abbrev Loc := Nat
/-- lexical environment: name ↦ location of the variable's cell, innermost binding first -/
abbrev Env := List (Text × Loc)

inductive Prim
  | add | sub | mul | numEq | lt | gt | le | ge | car | cdr | cons | list | nullP | pairP | length | append | reverse | cadr | cddr | caar | cdar | setCar | setCdr | listP | eqP | eqvP | equalP | not | vector | vectorRef | vectorSet | vectorLength | makeVector | vectorToList | listToVector | vectorP | symbolP | stringP | charP | integerP | numberP | booleanP | procedureP | stringLength | stringEq | charToInteger | charEq | zeroP | abs | min | max | memv | memq | assv | assq | listTail | display | write | apply | eval | force | map | forEach | error
deriving DecidableEq, Repr, Inhabited

inductive Val
  | bool (b : Bool) | char (c : Char) | nil | int (n : Int) | str (s : Text) | sym (s : Text)
  | pair (l : Loc) | vec (l : Loc) | promise (l : Loc)
  | prim (p : Prim)
  | closure (params : List Text) (rest : Option Text) (body : List Datum) (env : Env)
  | void | undef
deriving DecidableEq, Repr, Inhabited

inductive Cell
  | var (v : Val)
  | pair (a d : Val)
  | vec (xs : List Val)
  /-- `done = true`: `v` is the value; `done = false`: `v` is the thunk -/
  | promise (done : Bool) (v : Val)
deriving DecidableEq, Repr, Inhabited

structure St where
  globals : List (Text × Val)
  store : Array Cell
  /-- output log: `(true, d)` = `write`, `(false, d)` = `display` of the datum `d` -/
  out : List (Bool × Datum)
deriving Repr, Inhabited

inductive Res (α : Type)
  | ok (a : α) (st : St)
  | err (e : ErrClass) (st : St)
  | timeout
deriving Repr, Inhabited

/-- state + failure + fuel exhaustion -/
def M (α : Type) : Type := St → Res α

namespace M
@[inline] def pure' {α : Type} (a : α) : M α := fun st => .ok a st
@[inline] def bind' {α β : Type} (x : M α) (f : α → M β) : M β := fun st =>
  match x st with
  | .ok a st' => f a st'
  | .err e st' => .err e st'
  | .timeout => .timeout
end M

instance : Monad M where
  pure := M.pure'
  bind := M.bind'

def throw {α : Type} (e : ErrClass) : M α := fun st => .err e st
def timeoutM {α : Type} : M α := fun _ => .timeout

/-! ## Keywords (character lists: string literals do not reduce in the kernel) -/
def k_lambda : Text := ['l', 'a', 'm', 'b', 'd', 'a']
def k_define : Text := ['d', 'e', 'f', 'i', 'n', 'e']
def k_setBang : Text := ['s', 'e', 't', '!']
def k_if_ : Text := ['i', 'f']
def k_quote : Text := ['q', 'u', 'o', 't', 'e']
def k_quasiquote : Text := ['q', 'u', 'a', 's', 'i', 'q', 'u', 'o', 't', 'e']
def k_unquote : Text := ['u', 'n', 'q', 'u', 'o', 't', 'e']
def k_let_ : Text := ['l', 'e', 't']
def k_letStar : Text := ['l', 'e', 't', '*']
def k_letrec : Text := ['l', 'e', 't', 'r', 'e', 'c']
def k_begin_ : Text := ['b', 'e', 'g', 'i', 'n']
def k_cond : Text := ['c', 'o', 'n', 'd']
def k_case_ : Text := ['c', 'a', 's', 'e']
def k_and_ : Text := ['a', 'n', 'd']
def k_or_ : Text := ['o', 'r']
def k_when_ : Text := ['w', 'h', 'e', 'n']
def k_unless_ : Text := ['u', 'n', 'l', 'e', 's', 's']
def k_delay : Text := ['d', 'e', 'l', 'a', 'y']
def k_else_ : Text := ['e', 'l', 's', 'e']
def k_arrow : Text := ['=', '>']

inductive Kw
  | lambda | define | setBang | if_ | quote | quasiquote | unquote | let_ | letStar | letrec | begin_
  | cond | case_ | and_ | or_ | when_ | unless_ | delay
deriving DecidableEq, Repr, Inhabited

def kwTable : List (Text × Kw) :=
  [(k_lambda, .lambda), (k_define, .define), (k_setBang, .setBang), (k_if_, .if_), (k_quote, .quote),
   (k_quasiquote, .quasiquote), (k_unquote, .unquote), (k_let_, .let_), (k_letStar, .letStar),
   (k_letrec, .letrec), (k_begin_, .begin_), (k_cond, .cond), (k_case_, .case_), (k_and_, .and_),
   (k_or_, .or_), (k_when_, .when_), (k_unless_, .unless_), (k_delay, .delay)]

/-- the syntactic keyword a head symbol denotes (keywords are reserved: the grammar never rebinds them) -/
def kwOf (s : Text) : Option Kw := kwTable.lookup s

/-- the symbols the implementation refuses to bind (`is_primitive_symbol`) -/
def reserved (s : Text) : Bool :=
  s == k_define || s == k_lambda || s == k_if_ || s == k_quasiquote || s == k_quote || s == k_setBang
    || s == k_unquote

/-- the names under which the primitive procedures are bound in the initial global environment -/
def primTable : List (Text × Prim) :=
  [(['+'], .add),
   (['-'], .sub),
   (['*'], .mul),
   (['='], .numEq),
   (['<'], .lt),
   (['>'], .gt),
   (['<', '='], .le),
   (['>', '='], .ge),
   (['c', 'a', 'r'], .car),
   (['c', 'd', 'r'], .cdr),
   (['c', 'o', 'n', 's'], .cons),
   (['l', 'i', 's', 't'], .list),
   (['n', 'u', 'l', 'l', '?'], .nullP),
   (['p', 'a', 'i', 'r', '?'], .pairP),
   (['l', 'e', 'n', 'g', 't', 'h'], .length),
   (['a', 'p', 'p', 'e', 'n', 'd'], .append),
   (['r', 'e', 'v', 'e', 'r', 's', 'e'], .reverse),
   (['c', 'a', 'd', 'r'], .cadr),
   (['c', 'd', 'd', 'r'], .cddr),
   (['c', 'a', 'a', 'r'], .caar),
   (['c', 'd', 'a', 'r'], .cdar),
   (['s', 'e', 't', '-', 'c', 'a', 'r', '!'], .setCar),
   (['s', 'e', 't', '-', 'c', 'd', 'r', '!'], .setCdr),
   (['l', 'i', 's', 't', '?'], .listP),
   (['e', 'q', '?'], .eqP),
   (['e', 'q', 'v', '?'], .eqvP),
   (['e', 'q', 'u', 'a', 'l', '?'], .equalP),
   (['n', 'o', 't'], .not),
   (['v', 'e', 'c', 't', 'o', 'r'], .vector),
   (['v', 'e', 'c', 't', 'o', 'r', '-', 'r', 'e', 'f'], .vectorRef),
   (['v', 'e', 'c', 't', 'o', 'r', '-', 's', 'e', 't', '!'], .vectorSet),
   (['v', 'e', 'c', 't', 'o', 'r', '-', 'l', 'e', 'n', 'g', 't', 'h'], .vectorLength),
   (['m', 'a', 'k', 'e', '-', 'v', 'e', 'c', 't', 'o', 'r'], .makeVector),
   (['v', 'e', 'c', 't', 'o', 'r', '-', '>', 'l', 'i', 's', 't'], .vectorToList),
   (['l', 'i', 's', 't', '-', '>', 'v', 'e', 'c', 't', 'o', 'r'], .listToVector),
   (['v', 'e', 'c', 't', 'o', 'r', '?'], .vectorP),
   (['s', 'y', 'm', 'b', 'o', 'l', '?'], .symbolP),
   (['s', 't', 'r', 'i', 'n', 'g', '?'], .stringP),
   (['c', 'h', 'a', 'r', '?'], .charP),
   (['i', 'n', 't', 'e', 'g', 'e', 'r', '?'], .integerP),
   (['n', 'u', 'm', 'b', 'e', 'r', '?'], .numberP),
   (['b', 'o', 'o', 'l', 'e', 'a', 'n', '?'], .booleanP),
   (['p', 'r', 'o', 'c', 'e', 'd', 'u', 'r', 'e', '?'], .procedureP),
   (['s', 't', 'r', 'i', 'n', 'g', '-', 'l', 'e', 'n', 'g', 't', 'h'], .stringLength),
   (['s', 't', 'r', 'i', 'n', 'g', '=', '?'], .stringEq),
   (['c', 'h', 'a', 'r', '-', '>', 'i', 'n', 't', 'e', 'g', 'e', 'r'], .charToInteger),
   (['c', 'h', 'a', 'r', '=', '?'], .charEq),
   (['z', 'e', 'r', 'o', '?'], .zeroP),
   (['a', 'b', 's'], .abs),
   (['m', 'i', 'n'], .min),
   (['m', 'a', 'x'], .max),
   (['m', 'e', 'm', 'v'], .memv),
   (['m', 'e', 'm', 'q'], .memq),
   (['a', 's', 's', 'v'], .assv),
   (['a', 's', 's', 'q'], .assq),
   (['l', 'i', 's', 't', '-', 't', 'a', 'i', 'l'], .listTail),
   (['d', 'i', 's', 'p', 'l', 'a', 'y'], .display),
   (['w', 'r', 'i', 't', 'e'], .write),
   (['a', 'p', 'p', 'l', 'y'], .apply),
   (['e', 'v', 'a', 'l'], .eval),
   (['f', 'o', 'r', 'c', 'e'], .force),
   (['m', 'a', 'p'], .map),
   (['f', 'o', 'r', '-', 'e', 'a', 'c', 'h'], .forEach),
   (['e', 'r', 'r', 'o', 'r'], .error)]

def initGlobals : List (Text × Val) := primTable.map fun (n, p) => (n, Val.prim p)

def initSt : St := { globals := initGlobals, store := #[], out := [] }

/-! ## Store and global environment -/

def allocCell (c : Cell) : M Loc := fun st => .ok st.store.size { st with store := st.store.push c }

def readCell (l : Loc) : M Cell := fun st =>
  match st.store[l]? with
  | some c => .ok c st
  | none => .err .internal st

def writeCell (l : Loc) (c : Cell) : M Unit := fun st =>
  if l < st.store.size then .ok () { st with store := st.store.setIfInBounds l c } else .err .internal st

def getStore : M (Array Cell) := fun st => .ok st.store st

/-- update or append -/
def insertG (s : Text) (v : Val) : List (Text × Val) → List (Text × Val)
  | [] => [(s, v)]
  | (k, w) :: r => if k == s then (k, v) :: r else (k, w) :: insertG s v r

def getGlobal (s : Text) : M Val := fun st =>
  match st.globals.lookup s with
  | some v => .ok v st
  | none => .err .unbound st

def putGlobal (s : Text) (v : Val) : M Unit := fun st =>
  .ok () { st with globals := insertG s v st.globals }

/-- `set!` on a global: R7RS requires the variable to be bound -/
def setGlobal (s : Text) (v : Val) : M Unit := fun st =>
  match st.globals.lookup s with
  | some _ => .ok () { st with globals := insertG s v st.globals }
  | none => .err .unbound st

def emit (w : Bool) (d : Datum) : M Unit := fun st => .ok () { st with out := st.out ++ [(w, d)] }

def readVar (l : Loc) : M Val := do
  match ← readCell l with
  | .var v => pure v
  | _ => throw .internal

def readPair (v : Val) : M (Val × Val) :=
  match v with
  | .pair l => do
    match ← readCell l with
    | .pair a d => pure (a, d)
    | _ => throw .internal
  | _ => throw .type

def readVec (v : Val) : M (Loc × List Val) :=
  match v with
  | .vec l => do
    match ← readCell l with
    | .vec xs => pure (l, xs)
    | _ => throw .internal
  | _ => throw .type

def cons (a d : Val) : M Val := do
  let l ← allocCell (.pair a d)
  pure (.pair l)

def allocList : List Val → M Val
  | [] => pure .nil
  | v :: vs => do
    let t ← allocList vs
    cons v t

/-- list with a given final cdr -/
def allocListTail : List Val → Val → M Val
  | [], t => pure t
  | v :: vs, t => do
    let r ← allocListTail vs t
    cons v r

def allocVec (xs : List Val) : M Val := do
  let l ← allocCell (.vec xs)
  pure (.vec l)

/-- the elements of a proper list held in the store (`none`: improper or cyclic);
    `fuel` bounds the number of pairs followed -/
def listOfVal : Nat → Array Cell → Val → Option (List Val)
  | _, _, .nil => some []
  | fuel+1, st, .pair l =>
    match st[l]? with
    | some (.pair a d) => (listOfVal fuel st d).map (a :: ·)
    | _ => none
  | _, _, _ => none

def getList (v : Val) : M (List Val) := do
  let st ← getStore
  match listOfVal (st.size + 1) st v with
  | some xs => pure xs
  | none => throw .type

/-! ## Data: quoting (datum → value) and externalising (value → datum) -/

def intOfNum : Num → Option Int
  | .fix n => some n
  | .big n => some n
  | _ => none

def numOfInt (n : Int) : Num := if inI64 n then .fix n else .big n

mutual
/-- the value of a quoted datum; pairs and vectors are allocated -/
def quoteVal : Datum → M Val
  | .bool b => pure (.bool b)
  | .char c => pure (.char c)
  | .nil => pure .nil
  | .num n => match intOfNum n with
    | some i => pure (.int i)
    | none => throw .syntax          -- outside the grammar (inexact / rational)
  | .str s => pure (.str s)
  | .sym s => pure (.sym s)
  | .pair a d => do
    let a' ← quoteVal a
    let d' ← quoteVal d
    cons a' d'
  | .vec e => do
    let xs ← quoteElems e
    allocVec xs
  | .void => pure .void
  | .undefined => pure .undef
  | _ => throw .syntax               -- procedure / macro / continuation objects are not data
def quoteElems : Datum → M (List Val)
  | .pair a d => do
    let a' ← quoteVal a
    let d' ← quoteElems d
    pure (a' :: d')
  | _ => pure []
end

/-- the external representation of a value (`fuel` bounds the nesting; shared structure is unfolded,
    cycles are cut with `#<undefined>`) -/
def valToDatum : Nat → Array Cell → Val → Datum
  | _, _, .bool b => .bool b
  | _, _, .char c => .char c
  | _, _, .nil => .nil
  | _, _, .int n => .num (numOfInt n)
  | _, _, .str s => .str s
  | _, _, .sym s => .sym s
  | _, _, .prim _ => .procedure none
  | _, _, .closure _ _ _ _ => .procedure none
  | _, _, .void => .void
  | _, _, .undef => .undefined
  | 0, _, _ => .undefined
  | fuel+1, st, .pair l =>
    match st[l]? with
    | some (.pair a d) => .pair (valToDatum fuel st a) (valToDatum fuel st d)
    | _ => .undefined
  | fuel+1, st, .vec l =>
    match st[l]? with
    | some (.vec xs) => .vec (Datum.ofList (xs.map (valToDatum fuel st)))
    | _ => .undefined
  | fuel+1, st, .promise l =>
    -- the implementation's promises are lists `((done? . value-or-thunk))`
    match st[l]? with
    | some (.promise done v) => .pair (.pair (.bool done) (valToDatum fuel st v)) .nil
    | _ => .undefined

def externalise (v : Val) : M Datum := do
  let st ← getStore
  pure (valToDatum (st.size + 1) st v)

/-! ## Equivalence predicates -/

/-- `eqv?` (and `eq?`: the grammar applies `eq?` only where R7RS makes the two coincide) -/
def eqv : Val → Val → Bool
  | .bool a, .bool b => a == b
  | .char a, .char b => a == b
  | .nil, .nil => true
  | .int a, .int b => a == b
  | .sym a, .sym b => a == b
  | .pair a, .pair b => a == b
  | .vec a, .vec b => a == b
  | .promise a, .promise b => a == b
  | .prim a, .prim b => a == b
  | .void, .void => true
  | _, _ => false

/-- `eqv?` between a value and a datum of a `case` clause -/
def eqvDatum : Val → Datum → Bool
  | .bool a, .bool b => a == b
  | .char a, .char b => a == b
  | .nil, .nil => true
  | .int a, .num n => intOfNum n == some a
  | .sym a, .sym b => a == b
  | _, _ => false

/-- `equal?` -/
def equalVal : Nat → Array Cell → Val → Val → Bool
  | 0, _, a, b => eqv a b
  | fuel+1, st, .pair a, .pair b =>
    match st[a]?, st[b]? with
    | some (.pair a1 d1), some (.pair a2 d2) => equalVal fuel st a1 a2 && equalVal fuel st d1 d2
    | _, _ => false
  | fuel+1, st, .vec a, .vec b =>
    match st[a]?, st[b]? with
    | some (.vec xs), some (.vec ys) =>
      xs.length == ys.length && (xs.zip ys).all fun (x, y) => equalVal fuel st x y
    | _, _ => false
  | _, _, .str a, .str b => a == b
  | _, _, a, b => eqv a b

def truthy : Val → Bool
  | .bool false => false
  | _ => true

/-! ## Syntax helpers -/

/-- the elements of a proper list datum -/
def properList : Datum → Option (List Datum)
  | .nil => some []
  | .pair a d => (properList d).map (a :: ·)
  | _ => none

/-- `(x y …)`, `(x y … . r)` or `r` -/
def parseFormals : Datum → Option (List Text × Option Text)
  | .nil => some ([], none)
  | .sym r => if reserved r then none else some ([], some r)
  | .pair (.sym p) rest =>
    if reserved p then none else (parseFormals rest).map fun (ps, r) => (p :: ps, r)
  | _ => none

/-- `((x e) …)` -/
def parseBindings : Datum → Option (List (Text × Datum))
  | .nil => some []
  | .pair (.pair (.sym x) (.pair e .nil)) rest =>
    if reserved x then none else (parseBindings rest).map ((x, e) :: ·)
  | _ => none

/-- the name a definition form defines -/
def definedName : Datum → Option Text
  | .pair (.sym k) (.pair (.sym x) _) => if k == k_define then some x else none
  | .pair (.sym k) (.pair (.pair (.sym f) _) _) => if k == k_define then some f else none
  | _ => none

def isDefine : Datum → Bool
  | .pair (.sym k) _ => k == k_define
  | _ => false

/-- names of the definitions a body starts with -/
def leadingDefs : List Datum → List Text
  | [] => []
  | d :: ds => if isDefine d then
      (match definedName d with | some x => x :: leadingDefs ds | none => leadingDefs ds)
    else []

/-- the sub-evaluator handed to one level of evaluation (open recursion over the fuel) -/
structure Rec where
  eval : Datum → Env → M Val
  apply : Val → List Val → M Val

/-! ## One level of evaluation -/

/-- operands, left to right -/
def evalArgs (r : Rec) (ρ : Env) : List Datum → M (List Val)
  | [] => pure []
  | e :: es => do
    let v ← r.eval e ρ
    let vs ← evalArgs r ρ es
    pure (v :: vs)

/-- a non-empty sequence of expressions; the value of the last -/
def evalExprs (r : Rec) (ρ : Env) : List Datum → M Val
  | [] => throw .syntax
  | [e] => r.eval e ρ
  | e :: es => do
    let _ ← r.eval e ρ
    evalExprs r ρ es

/-- a fresh variable for each name, innermost first -/
def allocVars : List (Text × Val) → Env → M Env
  | [], ρ => pure ρ
  | (x, v) :: xs, ρ => do
    let l ← allocCell (.var v)
    allocVars xs ((x, l) :: ρ)

def makeClosure (formals : Datum) (body : Datum) (ρ : Env) : M Val :=
  match parseFormals formals, properList body with
  | some (ps, rest), some (b :: bs) => pure (.closure ps rest (b :: bs) ρ)
  | _, _ => throw .syntax

/-- name and value of a definition form `(define x e)` / `(define (f . formals) body …)` -/
def defineValue (r : Rec) (ρ : Env) : Datum → M (Text × Val)
  | .pair _ (.pair (.sym x) (.pair e .nil)) =>
    if reserved x then throw .syntax else do
      let v ← r.eval e ρ
      pure (x, v)
  | .pair _ (.pair (.pair (.sym f) formals) body) =>
    if reserved f then throw .syntax else do
      let v ← makeClosure formals body ρ
      pure (f, v)
  | _ => throw .syntax

def assignVar (ρ : Env) (x : Text) (v : Val) : M Unit :=
  match ρ.lookup x with
  | some l => writeCell l (.var v)
  | none => setGlobal x v

/-- the forms of a body after its variables have been allocated: definitions may only lead -/
def evalBodyForms (r : Rec) (ρ : Env) : Bool → List Datum → M Val
  | _, [] => throw .syntax
  | defs, [e] =>
    if defs && isDefine e then do
      let (x, v) ← defineValue r ρ e
      assignVar ρ x v
      pure .void
    else r.eval e ρ
  | defs, e :: es =>
    if defs && isDefine e then do
      let (x, v) ← defineValue r ρ e
      assignVar ρ x v
      evalBodyForms r ρ true es
    else do
      let _ ← r.eval e ρ
      evalBodyForms r ρ false es

/-- a body: `letrec*` scope for its leading definitions -/
def evalBody (r : Rec) (ρ : Env) (body : List Datum) : M Val := do
  let ρ' ← allocVars ((leadingDefs body).map fun x => (x, Val.undef)) ρ
  evalBodyForms r ρ' true body

/-- bind the parameters of a procedure to its arguments -/
def bindArgs : List Text → Option Text → List Val → Env → M Env
  | [], none, [], ρ => pure ρ
  | [], none, _ :: _, _ => throw .arity
  | [], some r, args, ρ => do
    let lst ← allocList args
    let l ← allocCell (.var lst)
    pure ((r, l) :: ρ)
  | _ :: _, _, [], _ => throw .arity
  | p :: ps, rest, a :: args, ρ => do
    let l ← allocCell (.var a)
    bindArgs ps rest args ((p, l) :: ρ)

mutual
/-- quasiquote template at nesting `depth` -/
def qq (r : Rec) (ρ : Env) : Datum → Nat → M Val
  | .pair (.sym s) (.pair x .nil), depth =>
    if s == k_unquote then
      match depth with
      | 0 => r.eval x ρ
      | depth'+1 => do
        let x' ← qq r ρ x depth'
        allocList [.sym s, x']
    else if s == k_quasiquote then do
      let x' ← qq r ρ x (depth + 1)
      allocList [.sym s, x']
    else do
      let x' ← qq r ρ x depth
      allocList [.sym s, x']
  | .pair a d, depth => do
    let a' ← qq r ρ a depth
    let d' ← qq r ρ d depth
    cons a' d'
  | .vec e, depth => do
    let xs ← qqElems r ρ e depth
    allocVec xs
  | d, _ => quoteVal d
/-- the elements of a quasiquoted vector -/
def qqElems (r : Rec) (ρ : Env) : Datum → Nat → M (List Val)
  | .pair a d, depth => do
    let a' ← qq r ρ a depth
    let d' ← qqElems r ρ d depth
    pure (a' :: d')
  | _, _ => pure []
end

/-- `cond` clauses -/
def evalCond (r : Rec) (ρ : Env) : List Datum → M Val
  | [] => pure .void
  | c :: cs =>
    match properList c with
    | some (t :: body) =>
      if t == .sym k_else_ then
        (if cs.isEmpty then evalExprs r ρ body else throw .syntax)
      else do
        let v ← r.eval t ρ
        if truthy v then
          match body with
          | [] => pure v
          | [arrow, f] =>
            if arrow == .sym k_arrow then do
              let fv ← r.eval f ρ
              r.apply fv [v]
            else evalExprs r ρ body
          | _ => evalExprs r ρ body
        else evalCond r ρ cs
    | _ => throw .syntax

/-- `case` clauses against the key -/
def evalCase (r : Rec) (ρ : Env) (key : Val) : List Datum → M Val
  | [] => pure .void
  | c :: cs =>
    match c with
    | .pair sel bodyD =>
      match properList bodyD with
      | some body =>
        let hit : Option Bool :=
          if sel == .sym k_else_ then (if cs.isEmpty then some true else none)
          else (properList sel).map fun ds => ds.any (eqvDatum key)
        match hit with
        | none => throw .syntax
        | some false => evalCase r ρ key cs
        | some true =>
          match body with
          | [arrow, f] =>
            if arrow == .sym k_arrow then do
              let fv ← r.eval f ρ
              r.apply fv [key]
            else evalExprs r ρ body
          | _ => evalExprs r ρ body
      | none => throw .syntax
    | _ => throw .syntax

def evalAnd (r : Rec) (ρ : Env) : List Datum → M Val
  | [] => pure (.bool true)
  | [e] => r.eval e ρ
  | e :: es => do
    let v ← r.eval e ρ
    if truthy v then evalAnd r ρ es else pure v

def evalOr (r : Rec) (ρ : Env) : List Datum → M Val
  | [] => pure (.bool false)
  | [e] => r.eval e ρ
  | e :: es => do
    let v ← r.eval e ρ
    if truthy v then pure v else evalOr r ρ es

/-- `let*`: each initialiser sees the previous bindings -/
def evalLetStar (r : Rec) (body : List Datum) : List (Text × Datum) → Env → M Val
  | [], ρ => evalBody r ρ body
  | (x, e) :: bs, ρ => do
    let v ← r.eval e ρ
    let l ← allocCell (.var v)
    evalLetStar r body bs ((x, l) :: ρ)

/-- `letrec` initialisers, evaluated and assigned in order -/
def evalLetrecInits (r : Rec) (ρ : Env) : List (Text × Datum) → M Unit
  | [] => pure ()
  | (x, e) :: bs => do
    let v ← r.eval e ρ
    assignVar ρ x v
    evalLetrecInits r ρ bs

def evalVar (s : Text) (ρ : Env) : M Val :=
  if reserved s then throw .syntax else
  match ρ.lookup s with
  | some l => readVar l
  | none => getGlobal s

/-- a special form with keyword `k` and operands `rest` -/
def evalKw (r : Rec) (ρ : Env) (k : Kw) (rest : Datum) : M Val :=
  match k with
  | .quote =>
    match rest with
    | .pair x _ => quoteVal x
    | _ => throw .syntax
  | .quasiquote =>
    match rest with
    | .pair x _ => qq r ρ x 0
    | _ => throw .syntax
  | .unquote => throw .syntax
  | .lambda =>
    match rest with
    | .pair formals body => makeClosure formals body ρ
    | _ => throw .syntax
  | .define => throw .syntax        -- a definition where an expression is required
  | .setBang =>
    match properList rest with
    | some [.sym x, e] =>
      if reserved x then throw .syntax else do
        let v ← r.eval e ρ
        assignVar ρ x v
        pure .void
    | _ => throw .syntax
  | .if_ =>
    match properList rest with
    | some [t, c] => do
      let v ← r.eval t ρ
      if truthy v then r.eval c ρ else pure .void
    | some [t, c, a] => do
      let v ← r.eval t ρ
      if truthy v then r.eval c ρ else r.eval a ρ
    | _ => throw .syntax
  | .let_ =>
    match rest with
    | .pair (.sym name) (.pair bindings bodyD) =>
      -- named let
      match parseBindings bindings, properList bodyD with
      | some bs, some (b :: body) =>
        if reserved name then throw .syntax else do
        let vs ← evalArgs r ρ (bs.map (·.2))
        let l ← allocCell (.var .undef)
        let f := Val.closure (bs.map (·.1)) none (b :: body) ((name, l) :: ρ)
        writeCell l (.var f)
        r.apply f vs
      | _, _ => throw .syntax
    | .pair bindings bodyD =>
      match parseBindings bindings, properList bodyD with
      | some bs, some (b :: body) => do
        let vs ← evalArgs r ρ (bs.map (·.2))
        let ρ' ← allocVars ((bs.map (·.1)).zip vs) ρ
        evalBody r ρ' (b :: body)
      | _, _ => throw .syntax
    | _ => throw .syntax
  | .letStar =>
    match rest with
    | .pair bindings bodyD =>
      match parseBindings bindings, properList bodyD with
      | some bs, some (b :: body) => evalLetStar r (b :: body) bs ρ
      | _, _ => throw .syntax
    | _ => throw .syntax
  | .letrec =>
    match rest with
    | .pair bindings bodyD =>
      match parseBindings bindings, properList bodyD with
      | some bs, some (b :: body) => do
        let ρ' ← allocVars (bs.map fun (x, _) => (x, Val.undef)) ρ
        evalLetrecInits r ρ' bs
        evalBody r ρ' (b :: body)
      | _, _ => throw .syntax
    | _ => throw .syntax
  | .begin_ =>
    match properList rest with
    | some es => evalExprs r ρ es
    | none => throw .syntax
  | .cond =>
    match properList rest with
    | some (c :: cs) => evalCond r ρ (c :: cs)
    | _ => throw .syntax
  | .case_ =>
    match rest with
    | .pair keyE clauses =>
      match properList clauses with
      | some (c :: cs) => do
        let key ← r.eval keyE ρ
        evalCase r ρ key (c :: cs)
      | _ => throw .syntax
    | _ => throw .syntax
  | .and_ =>
    match properList rest with
    | some es => evalAnd r ρ es
    | none => throw .syntax
  | .or_ =>
    match properList rest with
    | some es => evalOr r ρ es
    | none => throw .syntax
  | .when_ =>
    match properList rest with
    | some (t :: b :: body) => do
      let v ← r.eval t ρ
      if truthy v then evalExprs r ρ (b :: body) else pure .void
    | _ => throw .syntax
  | .unless_ =>
    match properList rest with
    | some (t :: b :: body) => do
      let v ← r.eval t ρ
      if truthy v then pure .void else evalExprs r ρ (b :: body)
    | _ => throw .syntax
  | .delay =>
    match properList rest with
    | some [e] => do
      let l ← allocCell (.promise false (.closure [] none [e] ρ))
      pure (.promise l)
    | _ => throw .syntax

/-- one level of expression evaluation -/
def evalStep (r : Rec) (e : Datum) (ρ : Env) : M Val :=
  match e with
  | .sym s => evalVar s ρ
  | .pair f rest =>
    let special : Option Kw :=
      match f with
      | .sym s => kwOf s
      | _ => none
    match special with
    | some k => evalKw r ρ k rest
    | none =>
      -- application: operands left to right, then the operator
      match properList rest with
      | some es => do
        let vs ← evalArgs r ρ es
        let fv ← r.eval f ρ
        r.apply fv vs
      | none => throw .syntax
  | .nil => throw .syntax
  | .procedure _ | .macro_ | .continuation | .void | .undefined => throw .syntax
  | d => quoteVal d                      -- self-evaluating: booleans, characters, numbers, strings, vectors

/-- a top-level form: definitions bind globals; `(begin form …)` splices (R7RS 5.1) -/
def evalTopForm (r : Rec) (d : Datum) : M Val :=
  if isDefine d then do
    let (x, v) ← defineValue r [] d
    putGlobal x v
    pure .void
  else r.eval d []

def evalTopForms (r : Rec) : List Datum → M Val
  | [] => throw .syntax
  | [d] => evalTopForm r d
  | d :: ds => do
    let _ ← evalTopForm r d
    evalTopForms r ds

def evalTop (r : Rec) (d : Datum) : M Val :=
  match d with
  | .pair (.sym k) rest =>
    if k == k_begin_ then
      match properList rest with
      | some forms => evalTopForms r forms
      | none => throw .syntax
    else evalTopForm r d
  | _ => evalTopForm r d

/-! ## Primitive procedures -/

def intArgs : List Val → Option (List Int)
  | [] => some []
  | .int n :: vs => (intArgs vs).map (n :: ·)
  | _ => none

def chain (rel : Int → Int → Bool) : List Int → Bool
  | a :: b :: rest => rel a b && chain rel (b :: rest)
  | _ => true

def boolV (b : Bool) : M Val := pure (.bool b)

/-- transpose lists of arguments, stopping at the shortest -/
def zipArgs : Nat → List (List Val) → List (List Val)
  | 0, _ => []
  | fuel+1, ls =>
    if ls.isEmpty || ls.any List.isEmpty then [] else
    ls.map (fun l => l.headD .void) :: zipArgs fuel (ls.map List.tail)

def mapApply (r : Rec) (f : Val) : List (List Val) → M (List Val)
  | [] => pure []
  | a :: as => do
    let v ← r.apply f a
    let vs ← mapApply r f as
    pure (v :: vs)

def getLists : List Val → M (List (List Val))
  | [] => pure []
  | v :: vs => do
    let l ← getList v
    let ls ← getLists vs
    pure (l :: ls)

/-- `memv` / `assv`: walk the list in the store -/
def memWalk (assoc : Bool) (x : Val) : Nat → Val → M Val
  | 0, _ => throw .type
  | fuel+1, l =>
    match l with
    | .nil => pure (.bool false)
    | .pair _ => do
      let (a, d) ← readPair l
      if assoc then
        match a with
        | .pair _ => do
          let (k, _) ← readPair a
          if eqv k x then pure a else memWalk assoc x fuel d
        | _ => memWalk assoc x fuel d
      else if eqv a x then pure l else memWalk assoc x fuel d
    | _ => throw .type

def listTailWalk : Nat → Val → M Val
  | 0, l => pure l
  | k+1, l => do
    let (_, d) ← readPair l
    listTailWalk k d

def primNum (p : Prim) (args : List Val) : M Val :=
  match p, args with
  | .add, _ => match intArgs args with
    | some ns => pure (.int (ns.foldl (· + ·) 0))
    | none => throw .type
  | .mul, _ => match intArgs args with
    | some ns => pure (.int (ns.foldl (· * ·) 1))
    | none => throw .type
  | .sub, [] => throw .arity
  | .sub, _ => match intArgs args with
    | some [n] => pure (.int (-n))
    | some (n :: ns) => pure (.int (ns.foldl (· - ·) n))
    | _ => throw .type
  | .numEq, [] | .lt, [] | .gt, [] | .le, [] | .ge, [] => throw .arity
  | .numEq, _ => match intArgs args with | some ns => boolV (chain (· == ·) ns) | none => throw .type
  | .lt, _ => match intArgs args with | some ns => boolV (chain (· < ·) ns) | none => throw .type
  | .gt, _ => match intArgs args with | some ns => boolV (chain (· > ·) ns) | none => throw .type
  | .le, _ => match intArgs args with | some ns => boolV (chain (· ≤ ·) ns) | none => throw .type
  | .ge, _ => match intArgs args with | some ns => boolV (chain (· ≥ ·) ns) | none => throw .type
  | .zeroP, [.int n] => boolV (n == 0)
  | .zeroP, [_] => throw .type
  | .abs, [.int n] => pure (.int (if n < 0 then -n else n))
  | .abs, [_] => throw .type
  | .min, [] | .max, [] => throw .arity
  | .min, _ => match intArgs args with
    | some (n :: ns) => pure (.int (ns.foldl (fun a b => if a ≤ b then a else b) n))
    | _ => throw .type
  | .max, _ => match intArgs args with
    | some (n :: ns) => pure (.int (ns.foldl (fun a b => if a ≤ b then b else a) n))
    | _ => throw .type
  | _, _ => throw .arity

def primPair (p : Prim) (args : List Val) : M Val :=
  match p, args with
  | .car, [v] => do let (a, _) ← readPair v; pure a
  | .cdr, [v] => do let (_, d) ← readPair v; pure d
  | .cadr, [v] => do let (_, d) ← readPair v; let (a, _) ← readPair d; pure a
  | .cddr, [v] => do let (_, d) ← readPair v; let (_, dd) ← readPair d; pure dd
  | .caar, [v] => do let (a, _) ← readPair v; let (aa, _) ← readPair a; pure aa
  | .cdar, [v] => do let (a, _) ← readPair v; let (_, ad) ← readPair a; pure ad
  | .cons, [a, d] => cons a d
  | .list, _ => allocList args
  | .nullP, [v] => boolV (v == .nil)
  | .pairP, [v] => boolV (match v with | .pair _ => true | _ => false)
  | .listP, [v] => do
    let st ← getStore
    boolV (listOfVal (st.size + 1) st v).isSome
  | .length, [v] => do let xs ← getList v; pure (.int xs.length)
  | .append, [] => pure .nil
  | .append, [v] => pure v
  | .append, [a, b] => do let xs ← getList a; allocListTail xs b
  | .append, [a, b, c] => do
    let xs ← getList a
    let ys ← getList b
    allocListTail (xs ++ ys) c
  | .reverse, [v] => do let xs ← getList v; allocList xs.reverse
  | .setCar, [.pair l, v] => do
    match ← readCell l with
    | .pair _ d => writeCell l (.pair v d); pure .void
    | _ => throw .internal
  | .setCdr, [.pair l, v] => do
    match ← readCell l with
    | .pair a _ => writeCell l (.pair a v); pure .void
    | _ => throw .internal
  | .setCar, [_, _] | .setCdr, [_, _] => throw .type
  | .memv, [x, l] | .memq, [x, l] => do let st ← getStore; memWalk false x (st.size + 1) l
  | .assv, [x, l] | .assq, [x, l] => do let st ← getStore; memWalk true x (st.size + 1) l
  | .listTail, [l, .int k] => if k < 0 then throw .type else listTailWalk k.toNat l
  | _, _ => throw .arity

def primVec (p : Prim) (args : List Val) : M Val :=
  match p, args with
  | .vector, _ => allocVec args
  | .makeVector, [.int n, fill] => if n < 0 then throw .syntax else allocVec (List.replicate n.toNat fill)
  | .makeVector, [_, _] => throw .syntax
  | .vectorRef, [v, .int i] => do
    let (_, xs) ← readVec v
    if i < 0 then throw .range else
    match xs[i.toNat]? with
    | some x => pure x
    | none => throw .range
  | .vectorRef, [_, _] => throw .type
  | .vectorSet, [v, .int i, x] => do
    let (l, xs) ← readVec v
    if i < 0 || i.toNat ≥ xs.length then throw .range else do
      writeCell l (.vec (xs.set i.toNat x))
      pure .void
  | .vectorSet, [_, _, _] => throw .type
  | .vectorLength, [v] => do let (_, xs) ← readVec v; pure (.int xs.length)
  | .vectorToList, [v] => do let (_, xs) ← readVec v; allocList xs
  | .listToVector, [v] => do let xs ← getList v; allocVec xs
  | _, _ => throw .arity

def primPred (p : Prim) (args : List Val) : M Val :=
  match p, args with
  | .eqP, [a, b] => boolV (eqv a b)
  | .eqvP, [a, b] => boolV (eqv a b)
  | .equalP, [a, b] => do
    let st ← getStore
    boolV (equalVal (st.size + 1) st a b)
  | .not, [v] => boolV (!truthy v)
  | .vectorP, [v] => boolV (match v with | .vec _ => true | _ => false)
  | .symbolP, [v] => boolV (match v with | .sym _ => true | _ => false)
  | .stringP, [v] => boolV (match v with | .str _ => true | _ => false)
  | .charP, [v] => boolV (match v with | .char _ => true | _ => false)
  | .integerP, [v] | .numberP, [v] => boolV (match v with | .int _ => true | _ => false)
  | .booleanP, [v] => boolV (match v with | .bool _ => true | _ => false)
  | .procedureP, [v] => boolV (match v with | .prim _ | .closure _ _ _ _ => true | _ => false)
  | .stringLength, [.str s] => pure (.int s.length)
  | .stringLength, [_] => throw .type
  | .stringEq, [.str a, .str b] => boolV (a == b)
  | .stringEq, [_, _] => throw .type
  | .charToInteger, [.char c] => pure (.int c.toNat)
  | .charToInteger, [_] => throw .type
  | .charEq, [.char a, .char b] => boolV (a == b)
  | .charEq, [_, _] => throw .type
  | _, _ => throw .arity

def primMisc (p : Prim) (args : List Val) : M Val :=
  match p, args with
  | .display, [v] => do let d ← externalise v; emit false d; pure .void
  | .write, [v] => do let d ← externalise v; emit true d; pure .void
  | .error, _ => throw .user
  | _, _ => throw .arity

inductive PrimGroup | num | pair | vec | pred | misc
deriving DecidableEq, Repr

def primGroup : Prim → PrimGroup
  | .add | .mul | .sub | .numEq | .lt | .gt | .le | .ge | .zeroP | .abs | .min | .max => .num
  | .car | .cdr | .cadr | .cddr | .caar | .cdar | .cons | .list | .nullP | .pairP | .listP | .length
  | .append | .reverse | .setCar | .setCdr | .memv | .memq | .assv | .assq | .listTail => .pair
  | .vector | .makeVector | .vectorRef | .vectorSet | .vectorLength | .vectorToList | .listToVector => .vec
  | .display | .write | .error => .misc
  | _ => .pred

/-- the first-order primitives (everything that does not call back into the evaluator), in groups
    (numbers; pairs and lists; vectors; predicates, strings, characters; output and `error`) -/
def applyPrim1 (p : Prim) (args : List Val) : M Val :=
  match primGroup p with
  | .num => primNum p args
  | .pair => primPair p args
  | .vec => primVec p args
  | .pred => primPred p args
  | .misc => primMisc p args

/-- application of a procedure value to evaluated arguments, one level -/
def applyStep (r : Rec) (f : Val) (args : List Val) : M Val :=
  match f with
  | .closure ps rest body ρ => do
    let ρ' ← bindArgs ps rest args ρ
    evalBody r ρ' body
  | .prim .apply =>
    match args with
    | g :: a :: as => do
      let last := (a :: as).getLast?.getD .nil
      let xs ← getList last
      r.apply g ((a :: as).dropLast ++ xs)
    | _ => throw .arity
  | .prim .eval =>
    match args with
    | [v] => do
      let d ← externalise v
      evalTop r d
    | _ => throw .arity
  | .prim .force =>
    match args with
    | [.promise l] => do
      match ← readCell l with
      | .promise true v => pure v
      | .promise false thunk => do
        let v ← r.apply thunk []
        -- the promise may have been forced while its expression was evaluated: the first value stays
        match ← readCell l with
        | .promise true w => pure w
        | _ => do
          writeCell l (.promise true v)
          pure v
      | _ => throw .internal
    | [_] => throw .type
    | _ => throw .arity
  | .prim .map =>
    match args with
    | g :: l :: ls => do
      let lists ← getLists (l :: ls)
      let st ← getStore
      let vs ← mapApply r g (zipArgs (st.size + 1) lists)
      allocList vs
    | _ => throw .arity
  | .prim .forEach =>
    match args with
    | g :: l :: ls => do
      let lists ← getLists (l :: ls)
      let st ← getStore
      let _ ← mapApply r g (zipArgs (st.size + 1) lists)
      pure .void
    | _ => throw .arity
  | .prim p => applyPrim1 p args
  | _ => throw .notProcedure

/-! ## Fuel -/

/-- the evaluator with `n` levels of nesting left -/
def evalN : Nat → Rec
  | 0 => { eval := fun _ _ => timeoutM, apply := fun _ _ => timeoutM }
  | n+1 => { eval := evalStep (evalN n), apply := applyStep (evalN n) }

/-! ## Sessions -/

inductive FormRes
  | ok (d : Datum)
  | err (e : ErrClass)
  | timeout
deriving DecidableEq, Repr, Inhabited

/-- evaluate one top-level form; the result is externalised in the state it produced -/
def runForm (fuel : Nat) (d : Datum) (st : St) : FormRes × Option St :=
  match evalTop (evalN fuel) d st with
  | .ok v st' => (.ok (valToDatum (st'.store.size + 1) st'.store v), some st')
  | .err e st' => (.err e, some st')
  | .timeout => (.timeout, none)

/-- the results of the forms of a session, form by form, from state `st` -/
def runSession (fuel : Nat) : List Datum → St → List FormRes × Option St
  | [], st => ([], some st)
  | d :: ds, st =>
    match runForm fuel d st with
    | (r, some st') =>
      let (rs, fin) := runSession fuel ds st'
      (r :: rs, fin)
    | (r, none) => (r :: ds.map fun _ => FormRes.timeout, none)

/-- the observable results of a session in a fresh instance -/
def results (fuel : Nat) (session : List Datum) : List FormRes := (runSession fuel session initSt).1

/-- the output log of a session in a fresh instance -/
def output (fuel : Nat) (session : List Datum) : List (Bool × Datum) :=
  match (runSession fuel session initSt).2 with
  | some st => st.out
  | none => []

end Marwood.Spec.Eval
