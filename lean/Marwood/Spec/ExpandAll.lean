import Marwood.Spec.Match
/-!
# Specification: macro expansion of a whole form (R7RS 4.3, 5.4; non-hygienic)

`specExpandAll T fuel d`: the expansion of form `d` under the macro table `T` (keyword ↦ the
`syntax-rules` transformer as `Spec.Match` reads it), **outermost first**:

* a macro use `(kw . args)` — `kw` bound to a macro and not shadowed — is matched and instantiated
  **as written** (its operands are not expanded first: they are data to the transformer), and the
  result is expanded again;
* the sub-forms of any other combination are expanded left to right, head included;
* what is not an expression is left alone: a datum under `quote`; a `define-syntax` form; a
  quasiquote template except the expressions under an `unquote` at nesting level 0 (R7RS 4.2.8:
  `(quasiquote t)` raises the level inside, `(unquote t)` lowers it; a template pair is its car
  template and its cdr template, so a dotted `(a . ,e)` has the expression `e`; a vector template is
  its element templates); the formals of a `lambda` / `λ` and the target of a `define`;
* an identifier bound by the formals of a `lambda` or by a `define` is a variable inside that form,
  whatever it names outside (R7RS 4.3: a local binding shadows a keyword): the table used for the body
  is `shadow T <bound names>`.

`quote`, `quasiquote`, `define-syntax`, `unquote` are read as reserved words (R7RS lets a program rebind
them; not specified here). The region of an internal or top-level `define` is limited to the `define`
form itself. Hygiene is outside (the property says "up to the renaming that hygiene would add").

`expandGuard T fuel d` is the decidable guard of the `_partial` theorems of T17.3: no use visited is
in the gap of the known finding `C17-empty-ellipsis-before-tail` or has ellipsis variables with unequal
counts (the excluded uses of C17), no macro keyword occurs in a binding position (finding
`C17-driver-keyword-in-binding-position`), and no `unquote` / `quasiquote` symbol or vector sits in the
cdr chain of a quasiquote template pair (finding `C01-dotted-unquote`).
Structurally recursive on the datum; the fuel counts nested expansions. Core Lean only.
-/
namespace Marwood.Spec.ExpandAll
open Marwood Marwood.Spec.Match

inductive XRes where
  | ok (d : Datum)
  /-- no rule of the transformer matches the use: "it is an error" -/
  | noMatch
  /-- the excluded uses of C17 (`Spec.Match.IRes.mismatch`) -/
  | mismatch
  | malformed
  /-- more than `fuel` nested expansions -/
  | fuel
deriving Repr, Inhabited, DecidableEq

abbrev STable := List (Text × Rules)

def quoteN : Text := ['q','u','o','t','e']
def defineSyntaxN : Text := ['d','e','f','i','n','e','-','s','y','n','t','a','x']
def quasiquoteN : Text := ['q','u','a','s','i','q','u','o','t','e']
def unquoteN : Text := ['u','n','q','u','o','t','e']
def lambdaN : Text := ['l','a','m','b','d','a']
def lambdaGreekN : Text := ['λ']
def defineN : Text := ['d','e','f','i','n','e']

/-- `(kw target . body)` binds the identifiers of `target` in `body` -/
def isBinder (s : Text) : Bool := s = lambdaN || s = lambdaGreekN || s = defineN

/-- the identifiers occurring in a formals list / a `define` target -/
def symsOf : Datum → List Text
  | .sym s => [s]
  | .pair a d => symsOf a ++ symsOf d
  | .vec e => symsOf e
  | _ => []

/-- the table inside the region of a binding of `names` -/
def shadow (T : STable) (names : List Text) : STable := T.filter fun p => !names.contains p.1

namespace XRes
@[inline] def bind (x : XRes) (f : Datum → XRes) : XRes :=
  match x with
  | .ok d => f d
  | o => o
end XRes

/-- one macro use, expanded once, as written -/
def useOnce (rs : Rules) (u : Datum) : XRes :=
  match specExpand rs.ctx rs.rules u with
  | .ok e => .ok e
  | .noMatch => .noMatch
  | .mismatch => .mismatch
  | .malformed => .malformed

/-- the expression `(hd . rest)` under table `T`, given (lazily) the expansions of its parts:
    `xh` = of `hd` as an expression, `xl T'` = of the expressions along `rest` under `T'`,
    `xq` = for `rest = (tpl . r)`: `(<tpl as a level-0 template> . r)`,
    `xb` = for `rest = (target . body)`: `target` and the expansion of the expressions `body` under a table -/
def sxPair (re : STable → Datum → XRes) (T : STable) (hd rest : Datum)
    (xh : Unit → XRes) (xl : STable → XRes) (xq : Option (Unit → XRes))
    (xb : Option (Datum × (STable → XRes))) : XRes :=
  -- a combination that is neither reserved nor a macro use nor a binding form: all elements
  let elements : Unit → XRes := fun _ => (xh ()).bind fun h => (xl T).bind fun r => .ok (.pair h r)
  match hd with
  | .sym s =>
    if s = quoteN ∨ s = defineSyntaxN then .ok (.pair hd rest)
    else
      let general : Unit → XRes := fun _ =>
        match T.lookup s with
        | some rs => (useOnce rs (.pair hd rest)).bind (re T)      -- as written; then again
        | none =>
          if isBinder s then
            match xb with
            | some (target, body) =>
              (body (shadow T (symsOf target))).bind fun b => .ok (.pair hd (.pair target b))
            | none => .ok (.pair hd rest)
          else elements ()
      if s = quasiquoteN then
        match xq with
        | some q => (q ()).bind fun r' => .ok (.pair hd r')
        | none => general ()
      else general ()
  | _ => elements ()

/-- the template pair `(a . d)` at level `n`, given the expansions of its parts: `qa m` = of `a` as a
    template at level `m`, `qd m` = of `d` as a template at level `m`,
    `qu` = for `d = (e . rest)`: `(<e as an expression> . rest)` -/
def sxQQPair (a d : Datum) (n : Nat) (qa qd : Nat → XRes) (qu : Option (Unit → XRes)) : XRes :=
  if a = .sym unquoteN then
    match n with
    | 0 =>
      match qu with
      | some u => (u ()).bind fun d' => .ok (.pair a d')
      | none => .ok (.pair a d)
    | m + 1 => (qd m).bind fun d' => .ok (.pair a d')
  else if a = .sym quasiquoteN then (qd (n + 1)).bind fun d' => .ok (.pair a d')
  else (qa n).bind fun a' => (qd n).bind fun d' => .ok (.pair a' d')

mutual
/-- an expression -/
def sx (re : STable → Datum → XRes) : STable → Datum → XRes
  | T, .pair hd rest =>
    sxPair re T hd rest (fun _ => sx re T hd) (fun T' => sxList re T' rest) (sxQQHead re T rest)
      (sxBody re rest)
  | _, d => .ok d

/-- the expressions along a spine, left to right; the final cdr is kept -/
def sxList (re : STable → Datum → XRes) : STable → Datum → XRes
  | T, .pair x r => (sx re T x).bind fun x' => (sxList re T r).bind fun r' => .ok (.pair x' r')
  | _, d => .ok d

/-- `rest` of `(quasiquote . rest)` -/
def sxQQHead (re : STable → Datum → XRes) : STable → Datum → Option (Unit → XRes)
  | T, .pair tpl r => some fun _ => (sxQQ re T 0 tpl).bind fun t' => .ok (.pair t' r)
  | _, _ => none

/-- `rest` of a binding form `(kw . rest)` -/
def sxBody (re : STable → Datum → XRes) : Datum → Option (Datum × (STable → XRes))
  | .pair target body => some (target, fun T' => sxList re T' body)
  | _ => none

/-- a quasiquote template at nesting level `n` -/
def sxQQ (re : STable → Datum → XRes) : STable → Nat → Datum → XRes
  | T, n, .vec elems => (sxQQVec re T n elems).bind fun e => .ok (.vec e)
  | T, n, .pair a d =>
    sxQQPair a d n (fun m => sxQQ re T m a) (fun m => sxQQ re T m d) (sxUnq re T d)
  | _, _, d => .ok d

/-- `d` of `(unquote . d)` at level 0 -/
def sxUnq (re : STable → Datum → XRes) : STable → Datum → Option (Unit → XRes)
  | T, .pair e rest => some fun _ => (sx re T e).bind fun e' => .ok (.pair e' rest)
  | _, _ => none

/-- the element templates of a vector template (also: a cdr chain without `unquote`/`quasiquote`) -/
def sxQQVec (re : STable → Datum → XRes) : STable → Nat → Datum → XRes
  | T, n, .pair x r => (sxQQ re T n x).bind fun x' => (sxQQVec re T n r).bind fun r' => .ok (.pair x' r')
  | _, _, d => .ok d
end

/-- **R7RS expansion of a whole form**, at most `fuel` nested expansions -/
def specExpandAll : Nat → STable → Datum → XRes
  | 0 => sx (fun _ _ => .fuel)
  | f + 1 => sx (specExpandAll f)

/-! ## The decidable guard of the `_partial` theorems -/

/-- the use is outside the known gap and outside the uses the property excludes -/
def useOK (rs : Rules) (u : Datum) : Bool :=
  (rs.rules.all fun r => !zeroRepTailRule rs.ctx r u) &&
    (match specExpand rs.ctx rs.rules u with
     | .mismatch => false
     | _ => true)

/-- some macro keyword of the table occurs in the datum -/
def mentions (T : STable) : Datum → Bool
  | .sym s => (T.lookup s).isSome
  | .pair a d => mentions T a || mentions T d
  | .vec e => mentions T e
  | _ => false

/-- the cdr chain of a quasiquote template pair: no element is the symbol `unquote` / `quasiquote`,
    the end is not a vector -/
def spineOK : Datum → Bool
  | .pair x r => !(x = .sym unquoteN) && !(x = .sym quasiquoteN) && spineOK r
  | .vec _ => false
  | _ => true

/-- which of the three excluded classes the guard tests (all of them in the theorems; one at a time
    when the driver is asked *why* a form is excluded) -/
structure GuardSel where
  uses : Bool
  binders : Bool
  templates : Bool
deriving Repr, DecidableEq

def GuardSel.all : GuardSel := ⟨true, true, true⟩

/-- guard of `(hd . rest)`, from the guards of its parts (same reading as `sxPair`) -/
def gxPair (c : GuardSel) (re : STable → Datum → Bool) (T : STable) (hd rest : Datum)
    (gh gl : Unit → Bool) (gq : Option (Unit → Bool)) (gb : Option (Datum × (Unit → Bool))) : Bool :=
  let elements : Unit → Bool := fun _ => gh () && gl ()
  match hd with
  | .sym s =>
    if s = quoteN ∨ s = defineSyntaxN then true
    else
      let general : Unit → Bool := fun _ =>
        match T.lookup s with
        | some rs =>
          (!c.uses || useOK rs (.pair hd rest)) &&
            (match specExpand rs.ctx rs.rules (.pair hd rest) with
             | .ok e => re T e
             | _ => true)
        | none =>
          if isBinder s then
            match gb with
            | some (target, body) => (!c.binders || !mentions T target) && body ()
            | none => true
          else elements ()
      if s = quasiquoteN then
        match gq with
        | some q => q ()
        | none => general ()
      else general ()
  | _ => elements ()

/-- guard of the template pair `(a . d)` at level `n` -/
def gxQQPair (c : GuardSel) (a d : Datum) (n : Nat) (ga gd : Nat → Bool) (gu : Option (Unit → Bool)) : Bool :=
  if a = .sym unquoteN then
    match n with
    | 0 =>
      match gu with
      | some u => u ()
      | none => true
    | m + 1 => (!c.templates || spineOK d) && gd m
  else if a = .sym quasiquoteN then (!c.templates || spineOK d) && gd (n + 1)
  else (!c.templates || spineOK d) && ga n && gd n

mutual
def gx (c : GuardSel) (re : STable → Datum → Bool) : STable → Datum → Bool
  | T, .pair hd rest =>
    gxPair c re T hd rest (fun _ => gx c re T hd) (fun _ => gxList c re T rest) (gxQQHead c re T rest)
      (gxBody c re T rest)
  | _, _ => true

def gxList (c : GuardSel) (re : STable → Datum → Bool) : STable → Datum → Bool
  | T, .pair x r => gx c re T x && gxList c re T r
  | _, _ => true

def gxQQHead (c : GuardSel) (re : STable → Datum → Bool) : STable → Datum → Option (Unit → Bool)
  | T, .pair tpl _ => some fun _ => gxQQ c re T 0 tpl
  | _, _ => none

def gxBody (c : GuardSel) (re : STable → Datum → Bool) : STable → Datum → Option (Datum × (Unit → Bool))
  | T, .pair target body => some (target, fun _ => gxList c re T body)
  | _, _ => none

def gxQQ (c : GuardSel) (re : STable → Datum → Bool) : STable → Nat → Datum → Bool
  | T, n, .vec elems => gxQQVec c re T n elems
  | T, n, .pair a d =>
    gxQQPair c a d n (fun m => gxQQ c re T m a) (fun m => gxQQVec c re T m d) (gxUnq c re T d)
  | _, _, _ => true

def gxUnq (c : GuardSel) (re : STable → Datum → Bool) : STable → Datum → Option (Unit → Bool)
  | T, .pair e _ => some fun _ => gx c re T e
  | _, _ => none

def gxQQVec (c : GuardSel) (re : STable → Datum → Bool) : STable → Nat → Datum → Bool
  | T, n, .pair x r => gxQQ c re T n x && gxQQVec c re T n r
  | _, _, _ => true
end

/-- every use, binding form and quasiquote template met while expanding `d` (following the
    specification's expansions, at most `fuel` deep) passes the selected tests -/
def expandGuardSel (c : GuardSel) : Nat → STable → Datum → Bool
  | 0 => gx c (fun _ _ => true)
  | f + 1 => gx c (expandGuardSel c f)

/-- the guard of the `_partial` theorems: all three tests -/
def expandGuard (fuel : Nat) (T : STable) (d : Datum) : Bool := expandGuardSel .all fuel T d

end Marwood.Spec.ExpandAll
