import Marwood.Store.Basic
/-!
# Reference store: what R7RS says the list and vector procedures do

An R7RS store with *locations*: a value is a scalar or the location of a pair, a vector or a string;
`eqv?` on aggregates is equality of locations. Every procedure is defined on the *abstract list
view* of its arguments (`listView`: the elements along the cdr chain and the final tail) with plain
`List` functions — no heap cells, no boxing, no byte offsets, no allocation order.
This is the executable oracle of C14 (`c14s` in the driver); the property theorems state the same
meanings over the views of the model store (`Spec/StoreViews.lean`).

Reading of R7RS where it says "it is an error":
* procedures that must traverse the whole list (`length append reverse list->vector map for-each`,
  `list->string`) reject a non-nil final tail; procedures that stop early (`memq … assoc list-tail
  list-ref`) fail only if they actually run into a non-pair where they need a pair;
* `list-tail`/`list-ref` require their first argument to be a pair or `()`;
* `assq/assv/assoc` skip entries that are not pairs (R7RS leaves this case open);
* `(make-vector k)` fills with 0 (R7RS: unspecified contents);
* indices must be exact non-negative integers below 2^64.
Core Lean only.
-/
namespace Marwood.Spec
open Marwood
open Marwood.Store (Outcome Err)
open Marwood.Store.Outcome

inductive RVal
  | bool (b : Bool)
  | char (c : Char)
  | nil
  | num (n : Int)
  | sym (s : Text)
  | void
  | undef
  | pair (l : Nat)
  | vec (l : Nat)
  | str (l : Nat)
  | builtin (name : String)
deriving DecidableEq, Repr, Inhabited

structure RStore where
  pairs : List (RVal × RVal)
  vecs : List (List RVal)
  strs : List Text
deriving Repr, Inhabited

abbrev RRes := Outcome (RStore × RVal)

namespace RStore

def empty : RStore := ⟨[], [], []⟩

def newPair (st : RStore) (a d : RVal) : RStore × RVal :=
  ({ st with pairs := st.pairs ++ [(a, d)] }, .pair st.pairs.length)

def newVec (st : RStore) (xs : List RVal) : RStore × RVal :=
  ({ st with vecs := st.vecs ++ [xs] }, .vec st.vecs.length)

def newStr (st : RStore) (t : Text) : RStore × RVal :=
  ({ st with strs := st.strs ++ [t] }, .str st.strs.length)

/-- a fresh list with elements `xs` ending in `tail` -/
def mkList (st : RStore) : List RVal → RVal → RStore × RVal
  | [], tail => (st, tail)
  | x :: xs, tail =>
    let (st, r) := mkList st xs tail
    st.newPair x r

/-- elements along the cdr chain and the final non-pair tail; `fuel` exceeds the number of pairs in
    the store, so running out of it means the chain is circular -/
def listViewF : Nat → RStore → RVal → Outcome (List RVal × RVal)
  | 0, _, _ => .diverge
  | f+1, st, .pair l =>
    match st.pairs[l]? with
    | some (a, d) => do
      let (xs, t) ← listViewF f st d
      .ok (a :: xs, t)
    | none => .err .type
  | _+1, _, v => .ok ([], v)

def listView (st : RStore) (v : RVal) : Outcome (List RVal × RVal) :=
  listViewF (st.pairs.length + 1) st v

/-- the elements of a proper list; anything else is an error -/
def properList (st : RStore) (v : RVal) : Outcome (List RVal) := do
  let (xs, t) ← st.listView v
  if t = .nil then .ok xs else .err .pair

def vecOf (st : RStore) : RVal → Outcome (Nat × List RVal)
  | .vec l => match st.vecs[l]? with
    | some xs => .ok (l, xs)
    | none => .err .type
  | _ => .err .type

def strOf (st : RStore) : RVal → Outcome (Nat × Text)
  | .str l => match st.strs[l]? with
    | some t => .ok (l, t)
    | none => .err .type
  | _ => .err .type

end RStore

/-- an exact non-negative integer usable as an index -/
def indexOf : RVal → Outcome Nat
  | .num n => if 0 ≤ n ∧ n < 18446744073709551616 then .ok n.toNat else .err .syntax
  | _ => .err .syntax

/-- `eqv?` of R7RS on this store: scalars by value, aggregates by location -/
def eqvR (a b : RVal) : Bool := a == b

/-- `equal?`: structural equality; `fuel` bounds the depth -/
def equalR : Nat → RStore → RVal → RVal → Outcome Bool
  | 0, _, _, _ => .diverge
  | f+1, st, a, b =>
    if a == b then .ok true else
    match a, b with
    | .pair l, .pair m =>
      match st.pairs[l]?, st.pairs[m]? with
      | some (a1, d1), some (a2, d2) => do
        if !(← equalR f st a1 a2) then .ok false else equalR f st d1 d2
      | _, _ => .err .type
    | .vec l, .vec m =>
      match st.vecs[l]?, st.vecs[m]? with
      | some xs, some ys =>
        if xs.length != ys.length then .ok false
        else (xs.zip ys).foldlM (fun acc (x, y) => do
          if !acc then .ok false else equalR f st x y) true
      | _, _ => .err .type
    | .str l, .str m =>
      match st.strs[l]?, st.strs[m]? with
      | some s, some t => .ok (s == t)
      | _, _ => .err .type
    | _, _ => .ok false

/-- depth fuel that suffices for every acyclic store -/
def RStore.depthFuel (st : RStore) : Nat :=
  st.pairs.length + st.vecs.length + (st.vecs.foldl (fun n v => n + v.length) 0) + 2

/-! ## pairs and lists -/

def rCons (st : RStore) : List RVal → RRes
  | [a, d] => .ok (st.newPair a d)
  | _ => .err .arity

def rCar (st : RStore) : List RVal → RRes
  | [.pair l] => match st.pairs[l]? with
    | some (a, _) => .ok (st, a)
    | none => .err .type
  | [_] => .err .pair
  | _ => .err .arity

def rCdr (st : RStore) : List RVal → RRes
  | [.pair l] => match st.pairs[l]? with
    | some (_, d) => .ok (st, d)
    | none => .err .type
  | [_] => .err .pair
  | _ => .err .arity

def rSetCar (st : RStore) : List RVal → RRes
  | [.pair l, x] => match st.pairs[l]? with
    | some (_, d) => .ok ({ st with pairs := st.pairs.set l (x, d) }, .void)
    | none => .err .type
  | [_, _] => .err .pair
  | _ => .err .arity

def rSetCdr (st : RStore) : List RVal → RRes
  | [.pair l, x] => match st.pairs[l]? with
    | some (a, _) => .ok ({ st with pairs := st.pairs.set l (a, x) }, .void)
    | none => .err .type
  | [_, _] => .err .pair
  | _ => .err .arity

def rList (st : RStore) (args : List RVal) : RRes := .ok (st.mkList args .nil)

def rLength (st : RStore) : List RVal → RRes
  | [l] => do
    let xs ← st.properList l
    .ok (st, .num xs.length)
  | _ => .err .arity

/-- all arguments but the last must be proper lists; the result shares the last argument -/
def rAppend (st : RStore) (args : List RVal) : RRes :=
  match args.reverse with
  | [] => .ok (st, .nil)
  | last :: revInit => do
    let lists ← revInit.reverse.mapM st.properList
    .ok (st.mkList lists.flatten last)

def rReverse (st : RStore) : List RVal → RRes
  | [l] => do
    let xs ← st.properList l
    .ok (st.mkList xs.reverse .nil)
  | _ => .err .arity

/-- `k` cdrs from `v` -/
def tailAt (st : RStore) : RVal → Nat → Outcome RVal
  | v, 0 => .ok v
  | .pair l, k+1 => match st.pairs[l]? with
    | some (_, d) => tailAt st d k
    | none => .err .type
  | _, _+1 => .err .syntax

def isListish : RVal → Bool
  | .pair _ => true
  | .nil => true
  | _ => false

def rListTail (st : RStore) : List RVal → RRes
  | [l, k] => do
    let k ← indexOf k
    if !isListish l then .err .pair else do
    let t ← tailAt st l k
    .ok (st, t)
  | _ => .err .arity

def rListRef (st : RStore) : List RVal → RRes
  | [l, k] => do
    let k ← indexOf k
    if !isListish l then .err .pair else do
    match (← tailAt st l k) with
    | .pair m => match st.pairs[m]? with
      | some (a, _) => .ok (st, a)
      | none => .err .type
    | _ => .err .syntax
  | _ => .err .arity

/-- first sublist whose car satisfies `test`; walks lazily -/
def memR (test : RVal → Outcome Bool) : Nat → RStore → RVal → Outcome RVal
  | 0, _, _ => .diverge
  | _+1, _, .nil => .ok (.bool false)
  | f+1, st, .pair l =>
    match st.pairs[l]? with
    | some (a, d) => do
      if (← test a) then .ok (.pair l) else memR test f st d
    | none => .err .type
  | _+1, _, _ => .err .pair

/-- first entry that is a pair whose car satisfies `test` -/
def assR (test : RVal → Outcome Bool) : Nat → RStore → RVal → Outcome RVal
  | 0, _, _ => .diverge
  | _+1, _, .nil => .ok (.bool false)
  | f+1, st, .pair l =>
    match st.pairs[l]? with
    | some (.pair e, d) =>
      match st.pairs[e]? with
      | some (k, _) => do
        if (← test k) then .ok (.pair e) else assR test f st d
      | none => .err .type
    | some (_, d) => assR test f st d
    | none => .err .type
  | _+1, _, _ => .err .pair

def rMemq (st : RStore) : List RVal → RRes
  | [x, l] => do .ok (st, ← memR (fun a => .ok (eqvR a x)) (st.pairs.length + 1) st l)
  | _ => .err .arity

def rMember (st : RStore) : List RVal → RRes
  | [x, l] => do .ok (st, ← memR (fun a => equalR st.depthFuel st a x) (st.pairs.length + 1) st l)
  | _ => .err .arity

def rAssq (st : RStore) : List RVal → RRes
  | [x, l] => do .ok (st, ← assR (fun a => .ok (eqvR a x)) (st.pairs.length + 1) st l)
  | _ => .err .arity

def rAssoc (st : RStore) : List RVal → RRes
  | [x, l] => do .ok (st, ← assR (fun a => equalR st.depthFuel st a x) (st.pairs.length + 1) st l)
  | _ => .err .arity

def rIsList (st : RStore) : List RVal → RRes
  | [l] => do
    let (_, t) ← st.listView l
    .ok (st, .bool (t == .nil))
  | _ => .err .arity

def rEqual (st : RStore) : List RVal → RRes
  | [a, b] => do .ok (st, .bool (← equalR st.depthFuel st a b))
  | _ => .err .arity

/-! ## map / for-each: the callee is applied to the i-th elements, left to right, until the
shortest list runs out; a list that ends in a non-nil tail before that is an error -/

/-- split every list into its head and its rest; `none` when some list is exhausted -/
def headsTails (st : RStore) : List RVal → Outcome (Option (List RVal × List RVal))
  | [] => .ok (some ([], []))
  | .pair l :: rest =>
    match st.pairs[l]? with
    | some (a, d) => do
      match (← headsTails st rest) with
      | some (hs, ts) => .ok (some (a :: hs, d :: ts))
      | none => .ok none
    | none => .err .type
  | .nil :: _ => .ok none
  | _ :: _ => .err .pair        -- an improper tail where a pair is needed

/-- does some list end here (`any? null?`), scanning left to right and stopping at a non-pair -/
def anyNullR : List RVal → Bool
  | [] => false
  | .nil :: _ => true
  | _ :: rest => anyNullR rest

abbrev RCallee := RStore → List RVal → RRes

def mapR (g : RCallee) : Nat → RStore → List RVal → Outcome (RStore × List RVal)
  | 0, _, _ => .diverge
  | f+1, st, ls =>
    if ls.isEmpty then .diverge          -- (map f) with no list never terminates in the prelude
    else if anyNullR ls then .ok (st, [])
    else do
      match (← headsTails st ls) with
      | none => .ok (st, [])
      | some (hs, ts) => do
        let (st, y) ← g st hs
        let (st, ys) ← mapR g f st ts
        .ok (st, y :: ys)

def rMap (g : RCallee) (st : RStore) (lists : List RVal) : RRes := do
  let (st, ys) ← mapR g (st.pairs.length + 1) st lists
  .ok (st.mkList ys .nil)

def rForEach (g : RCallee) (st : RStore) (lists : List RVal) : RRes := do
  let (st, _) ← mapR g (st.pairs.length + 1) st lists
  .ok (st, .void)

/-! ## vectors -/

def rVector (st : RStore) (args : List RVal) : RRes := .ok (st.newVec args)

def rMakeVector (st : RStore) : List RVal → RRes
  | [k] => do .ok (st.newVec (List.replicate (← indexOf k) (.num 0)))
  | [k, fill] => do .ok (st.newVec (List.replicate (← indexOf k) fill))
  | _ => .err .arity

def rVectorLength (st : RStore) : List RVal → RRes
  | [v] => do
    let (_, xs) ← st.vecOf v
    .ok (st, .num xs.length)
  | _ => .err .arity

def rVectorRef (st : RStore) : List RVal → RRes
  | [v, k] => do
    let (_, xs) ← st.vecOf v
    let k ← indexOf k
    match xs[k]? with
    | some x => .ok (st, x)
    | none => .err .vindex
  | _ => .err .arity

def rVectorSet (st : RStore) : List RVal → RRes
  | [v, k, x] => do
    let (l, xs) ← st.vecOf v
    let k ← indexOf k
    if k < xs.length then .ok ({ st with vecs := st.vecs.set l (xs.set k x) }, .void)
    else .err .vindex
  | _ => .err .arity

def rVectorFill (st : RStore) : List RVal → RRes
  | [v, x] => do
    let (l, xs) ← st.vecOf v
    .ok ({ st with vecs := st.vecs.set l (xs.map fun _ => x) }, .void)
  | _ => .err .arity

def rVectorToList (st : RStore) : List RVal → RRes
  | [v] => do
    let (_, xs) ← st.vecOf v
    .ok (st.mkList xs .nil)
  | _ => .err .arity

def rListToVector (st : RStore) : List RVal → RRes
  | [l] => do
    let xs ← st.properList l
    .ok (st.newVec xs)
  | _ => .err .arity

/-- `(vector-copy v)` / `(vector-copy v start)`, `0 ≤ start ≤ length` -/
def rVectorCopy (st : RStore) : List RVal → RRes
  | [v] => do
    let (_, xs) ← st.vecOf v
    .ok (st.newVec xs)
  | [v, b] => do
    let (_, xs) ← st.vecOf v
    let b ← indexOf b
    if b ≤ xs.length then .ok (st.newVec (xs.drop b)) else .err .vindex
  | _ => .err .arity

/-- overwrite `xs[at ..]` with `vals` (caller guarantees it fits) -/
def overwrite (xs : List RVal) (at_ : Nat) (vals : List RVal) : List RVal :=
  xs.take at_ ++ vals ++ xs.drop (at_ + vals.length)

/-- `(vector-copy! to at from [start [end]])`: `0 ≤ start ≤ end ≤ |from|`, `0 ≤ at`,
    `at + (end - start) ≤ |to|`; the source range is read before the target is written -/
def rVectorCopyBang (st : RStore) (args : List RVal) : RRes :=
  match args with
  | [to, at_, from_] => go to at_ from_ none none
  | [to, at_, from_, b] => go to at_ from_ (some b) none
  | [to, at_, from_, b, e] => go to at_ from_ (some b) (some e)
  | _ => .err .arity
where
  go (to at_ from_ : RVal) (b e : Option RVal) : RRes := do
    let (tl, txs) ← st.vecOf to
    let (_, fxs) ← st.vecOf from_
    let at' ← indexOf at_
    let b ← (match b with | some b => indexOf b | none => .ok 0)
    let e ← (match e with | some e => indexOf e | none => .ok fxs.length)
    if b ≤ e ∧ e ≤ fxs.length ∧ at' + (e - b) ≤ txs.length then
      let vals := (fxs.drop b).take (e - b)
      .ok ({ st with vecs := st.vecs.set tl (overwrite txs at' vals) }, .void)
    else .err .vindex

end Marwood.Spec
