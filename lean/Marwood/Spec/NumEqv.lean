import Marwood.Spec.Rat
/-!
# What R7RS 6.1 demands of `eqv?` on two numbers, and `equal?` on data with numeric leaves

* `eqvSpec x y` — the two numbers have the same exactness; when both are exact their values in ℚ
  are equal; when both are inexact they are the same double (same bit pattern: `0.0` and `-0.0`
  are told apart by `/`, two doubles of different value by `=`).
  R7RS leaves `eqv?` of two NaNs unspecified; `eqvSpec` reads it as "the same NaN"
  (`bothNaN` names the pairs on which any answer is allowed; the driver's oracle answers
  `outside` for them).
* `eqvSpecB` — the same as a boolean (what the driver's oracle runs); `eqvSpecB_iff`.
* `NTree` — data whose leaves are numbers (or `()`): `NTree.equal leafEq` is `equal?` of R7RS with
  the leaf test `leafEq`; `memTest` / `assTest` are what `memv`/`member` (`assv`/`assoc`) answer
  on a one-element list when the test is `leafEq`.
Core Lean only.  Namespace `Marwood.NumSpec`.
-/
namespace Marwood.NumSpec
open Marwood

/-- the bit pattern of an inexact number -/
def bitsOf : Num → Option Nat
  | .flo f => some f.bits
  | _ => none

/-- `eqv?` on numbers, R7RS 6.1 -/
def eqvSpec (x y : Num) : Prop :=
  isExact x = isExact y ∧
  (isExact x = true → isExact y = true → val x = val y) ∧
  (isExact x = false → isExact y = false → bitsOf x = bitsOf y)

/-- executable form of `eqvSpec` -/
def eqvSpecB (x y : Num) : Bool :=
  match isExact x, isExact y with
  | true, true => val x == val y
  | false, false => bitsOf x == bitsOf y
  | _, _ => false

theorem eqvSpecB_iff (x y : Num) : eqvSpecB x y = true ↔ eqvSpec x y := by
  unfold eqvSpecB eqvSpec
  cases hx : isExact x <;> cases hy : isExact y <;> simp

instance (x y : Num) : Decidable (eqvSpec x y) := decidable_of_iff _ (eqvSpecB_iff x y)

def isNaNNum : Num → Bool
  | .flo f => Fl.isNaN f
  | _ => false

/-- the pairs on which R7RS leaves `eqv?` unspecified -/
def bothNaN (x y : Num) : Bool := isNaNNum x && isNaNNum y

/-! ## data with numeric leaves -/

inductive NTree
  | num (x : Num)
  | nil
  | pair (a d : NTree)
  | vec (ts : List NTree)
deriving Repr, Inhabited

mutual
/-- `equal?` of R7RS on trees whose leaves are compared with `leafEq` -/
def NTree.equal (leafEq : Num → Num → Bool) : NTree → NTree → Bool
  | .num x, .num y => leafEq x y
  | .nil, .nil => true
  | .pair a d, .pair a' d' => NTree.equal leafEq a a' && NTree.equal leafEq d d'
  | .vec ts, .vec us => NTree.equalAll leafEq ts us
  | _, _ => false
def NTree.equalAll (leafEq : Num → Num → Bool) : List NTree → List NTree → Bool
  | [], [] => true
  | t :: ts, u :: us => NTree.equal leafEq t u && NTree.equalAll leafEq ts us
  | _, _ => false
end

/-- `(list t1 … tn)` -/
def NTree.list : List NTree → NTree
  | [] => .nil
  | t :: ts => .pair t (NTree.list ts)

/-- `(if (mem x (list y)) #t #f)` for `memv` / `member` whose test on two numbers is `test` -/
def memTest (test : Num → Num → Bool) (x y : Num) : Bool := [y].any (fun e => test x e)

/-- `(if (ass x (list (cons y 1))) #t #f)` for `assv` / `assoc` -/
def assTest (test : Num → Num → Bool) (x y : Num) : Bool :=
  [(y, Num.fix 1)].any (fun e => test x e.1)

end Marwood.NumSpec
