import Marwood.Store.Compare
/-!
# The abstract tree view of a value (the vocabulary of C14's `equal?` theorems)

* `Atom` — the scalars C14 quantifies over: booleans, characters, `()`, exact integers, symbols (by name).
* `Tree` — what a datum *is*, with no addresses: a scalar leaf, a string (its characters), a pair of trees, a
  vector of trees.
* `View s v t` — the value (or dereferenced cell) `v` unfolds, in the store `s`, into the tree `t`: an
  **inductive** relation (no fuel). A derivation is a finite tree, so `View s v t` holds only for data
  reachable from `v` that is acyclic (sharing is allowed: a DAG has a view, the view of a shared part occurs
  several times). `View` is functional (`Lemmas/EqualView.lean: View.det`).
* `Tree.equiv` — `equal?` of R7RS on trees: the same shape, strings with the same characters, leaves `eqv?`
  (`Atom.eqv`, which is what the model's `eqvCells` computes on two scalar cells and is equality of the scalar:
  `Lemmas/EqualView.lean: eqvCells_atom`, `Atom.eqv_iff`).
* `Tree.size` — the number of nodes (a vector slot counts one more): `2 * size` bounds the fuel `equal` needs.
Core Lean only.
-/
namespace Marwood.Store

inductive Atom
  | bool (b : Bool)
  | char (c : Char)
  | nil
  | num (n : Int)
  | sym (name : Text)
deriving DecidableEq, Repr, Inhabited

/-- the cell that holds the scalar -/
def Atom.toCell : Atom → VCell
  | .bool b => .bool b
  | .char c => .char c
  | .nil => .nil
  | .num n => .num n
  | .sym n => .sym n

/-- `eqv?` on scalars (R7RS 6.1): the same boolean, the same character, both `()`, the same exact integer,
    symbols with the same name -/
def Atom.eqv : Atom → Atom → Bool
  | .bool a, .bool b => a == b
  | .char a, .char b => a == b
  | .nil, .nil => true
  | .num a, .num b => a == b
  | .sym a, .sym b => a == b
  | _, _ => false

inductive Tree
  | leaf (a : Atom)
  | str (t : Text)
  | pair (a d : Tree)
  | vec (ts : List Tree)
deriving Repr, Inhabited

mutual
/-- the value `v` (a reference, an immediate, or a dereferenced cell) unfolds into the tree `t` -/
inductive View (s : Store) : VCell → Tree → Prop
  | atom {v : VCell} {a : Atom} : s.get v = .ok a.toCell → View s v (.leaf a)
  | str {v : VCell} {id : Nat} {t : Text} : s.get v = .ok (.str id) → s.strs[id]? = some t → View s v (.str t)
  | pair {v : VCell} {a d : Nat} {ta td : Tree} : s.get v = .ok (.pair a d) → View s (.ptr a) ta →
      View s (.ptr d) td → View s v (.pair ta td)
  | vec {v : VCell} {id : Nat} {xs : List VCell} {ts : List Tree} : s.get v = .ok (.vec id) →
      s.vecs[id]? = some xs → ViewAll s xs ts → View s v (.vec ts)
/-- slot by slot -/
inductive ViewAll (s : Store) : List VCell → List Tree → Prop
  | nil : ViewAll s [] []
  | cons {x : VCell} {xs : List VCell} {t : Tree} {ts : List Tree} : View s x t → ViewAll s xs ts →
      ViewAll s (x :: xs) (t :: ts)
end

mutual
/-- `equal?` of R7RS on trees -/
def Tree.equiv : Tree → Tree → Bool
  | .leaf a, .leaf b => Atom.eqv a b
  | .str a, .str b => a == b
  | .pair a d, .pair a' d' => Tree.equiv a a' && Tree.equiv d d'
  | .vec ts, .vec us => Tree.equivAll ts us
  | _, _ => false
/-- the same number of slots, pairwise `equal?` -/
def Tree.equivAll : List Tree → List Tree → Bool
  | [], [] => true
  | t :: ts, u :: us => Tree.equiv t u && Tree.equivAll ts us
  | _, _ => false
end

mutual
/-- number of nodes; a vector slot counts one more than its content -/
def Tree.size : Tree → Nat
  | .leaf _ => 1
  | .str _ => 1
  | .pair a d => a.size + d.size + 1
  | .vec ts => Tree.sizeAll ts + 1
def Tree.sizeAll : List Tree → Nat
  | [] => 0
  | t :: ts => t.size + 1 + Tree.sizeAll ts
end

/-- the key of the association-list entry at the reference `a`: the view of its car when the entry is a pair;
    `none` when the entry is not a pair (`assq` … `assoc` skip such an entry) -/
inductive EntryKey (s : Store) (a : Nat) : Option Tree → Prop
  | pair {k d : Nat} {t : Tree} : s.cells[a]? = some (.pair k d) → View s (.ptr k) t → EntryKey s a (some t)
  | skip {c : VCell} : s.cells[a]? = some c → c.isPair = false → EntryKey s a none

def Tree.isPair : Tree → Bool
  | .pair _ _ => true
  | _ => false

end Marwood.Store
