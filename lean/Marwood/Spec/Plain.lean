import Marwood.Spec.Reach
/-!
# Kind discipline under which the marker's child function is the semantic reference function

`Heap::mark` / `mark_vcell` (model: `crefs` / `vrefs`) and the semantic references (`Spec.srefs`) differ on
shapes the VM never builds:

* a *heap cell* holding a bare `LexicalEnvPtr` or `InstructionPointer` (the marker ignores it; both only
  ever occur inline: in environment slots, on the stack, in continuations);
* an *inline* `LexicalEnv` (environments are always heap cells of their own);
* bytecode in which an operand cell is itself an opcode (the repaired `mark_lambda` would take an operand
  `JMP` for an instruction and skip the next cell; the semantic reading decodes by arity).

`plainC` / `plainV` / `plainBc` exclude exactly these, kind by kind; `Lemmas/PolicyPlain` proves
`crefs true c = srefs c` for plain cells. The executable check runs on every real snapshot
(`policy-collect`), so the hypothesis is validated on the heaps the VM actually reaches.
-/
namespace Marwood.Spec
open Marwood Marwood.Heap

def VCell.isOpcode : VCell → Bool
  | .opcode _ => true
  | _ => false

mutual
/-- inline values (stack slots, environment slots, vector elements, bytecode cells, registers) -/
def plainV : VCell → Bool
  | .lexEnv _ => false
  | .cont stk _ _ => plainVs stk
  | .lambda bc args em => plainBc 0 bc && plainVs args && plainVs em
  | .vector es => plainVs es
  | .atom _ | .opcode _ | .symbol _ | .pair _ _ | .ptr _ | .closure _ _ | .envPtr _ | .lexEnvPtr _ _
  | .ip _ _ => true
def plainVs : List VCell → Bool
  | [] => true
  | c :: cs => plainV c && plainVs cs
/-- bytecode decodes as instructions: `pending` operand cells of the current instruction remain, and an
operand is never an opcode -/
def plainBc (pending : Nat) : List VCell → Bool
  | [] => true
  | c :: cs =>
    match pending with
    | p+1 => !VCell.isOpcode c && plainV c && plainBc p cs
    | 0 =>
      match c with
      | .opcode o => plainBc o.arity cs
      | c => plainV c && plainBc 0 cs
end

/-- the content of a heap cell -/
def plainC : VCell → Bool
  | .lexEnvPtr _ _ | .ip _ _ => false
  | .lexEnv slots => plainVs slots
  | c => plainV c

/-- a global slot is a pointer or refers to nothing -/
def plainSlot : VCell → Bool
  | .ptr _ => true
  | c => (srefs c).isEmpty

def plainRoots (r : Roots) : Bool :=
  r.globalSlots.all plainSlot && plainVs r.stack && plainV r.acc

def plainHeap (h : Heap) : Bool := h.cells.toList.all plainC

end Marwood.Spec
