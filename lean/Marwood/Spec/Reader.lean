import Marwood.Lex
/-!
# What C11 demands of "one datum", read directly off the token types

Independent of the parser model: a datum ends at the first token at which the bracket depth is
back to zero (quote marks and number prefixes do not end a datum). Used as the oracle for texts
whose atoms are known to be well formed: there the reader must answer with the remaining text
that starts at the next token, or `Incomplete` when the tokens run out first.
Core Lean only.
-/
namespace Marwood.Spec

inductive DatumEnd
  | complete (k : Nat)   -- the first datum is made of the first `k` tokens
  | incomplete           -- the tokens ran out inside the first datum
  | malformed            -- a closing bracket or a dot where a datum must start
deriving DecidableEq, Repr

def firstDatumEnd : Nat → Nat → List TokType → DatumEnd
  | _, _, [] => .incomplete
  | depth, i, t :: ts =>
    match t with
    | .singleQuote | .quasiquote | .unquote | .numberPrefix => firstDatumEnd depth (i+1) ts
    | .leftParen | .hashParen => firstDatumEnd (depth+1) (i+1) ts
    | .rightParen =>
      if depth = 0 then .malformed
      else if depth = 1 then .complete (i+1)
      else firstDatumEnd (depth-1) (i+1) ts
    | .dot => if depth = 0 then .malformed else firstDatumEnd depth (i+1) ts
    | _ => if depth = 0 then .complete (i+1) else firstDatumEnd depth (i+1) ts

/-- how many data a token list holds, and whether it ends inside one -/
def countData : Nat → List TokType → Nat × DatumEnd
  | 0, _ => (0, .malformed)
  | fuel+1, ts =>
    match ts with
    | [] => (0, .complete 0)
    | _ =>
      match firstDatumEnd 0 0 ts with
      | .complete k => let r := countData fuel (ts.drop k); (r.1 + 1, r.2)
      | e => (0, e)

end Marwood.Spec
