import Marwood.Vm.ScopeSyntax
/-!
# Specification of lexical scoping (C02)

A *scope chain* is the list of binder sets (frames) lexically enclosing a program point, innermost
first; each frame maps the names it binds (parameters, rest parameter, internal definitions) to
*locations*. `resolve x` is the location of `x` in the first frame that binds it, else the global.
One frame — hence one location per bound name — is created per procedure *activation*; a closure
is the procedure text together with the chain current at its creation. Locations live in a store
that is never reclaimed, so a binding outlives the activation that created it.

`run` is the definitional interpreter of the scope-skeleton language (`Marwood.Scope.Expr`)
over such chains. It records every logged read and write as an `Event` (site, location id, value).
Evaluation order where R7RS leaves it open is fixed as marwood compiles it: operands left to
right, then the operator.
-/
namespace Marwood.Spec.Scope
open Marwood.Scope

abbrev Loc := Nat
abbrev Frame := List (Name × Loc)
abbrev Chain := List Frame

inductive Val where
  | int (n : Nat)
  | clo (ps : List Name) (rest : Option Name) (ds : Defs) (body : Exprs) (env : Chain)
  | nil
  | pair (a d : Val)
  | void
  | undef

instance : Inhabited Val := ⟨.undef⟩

def Val.ofList : List Val → Val
  | [] => .nil
  | v :: vs => .pair v (Val.ofList vs)

inductive Err where
  | unbound | arity | notProcedure | type | fuel
deriving DecidableEq, Repr

structure Event where
  site : Nat
  loc : Loc
  val : Val
  write : Bool

structure St where
  store : Array Val := #[]
  globals : Frame := []
  counter : Nat := 0
  log : List Event := []     -- most recent first

/-! ## the scope chain -/

def Frame.find? (x : Name) : Frame → Option Loc
  | [] => none
  | (y, l) :: fr => if y = x then some l else Frame.find? x fr

/-- `resolve x ρ`: the location of `x` in the innermost frame of `ρ` that binds `x` -/
def resolve (x : Name) : Chain → Option Loc
  | [] => none
  | fr :: ρ => match fr.find? x with
    | some l => some l
    | none => resolve x ρ

/-- index (0 = innermost) of the frame `resolve` stops at -/
def resolveLevel (x : Name) : Chain → Option Nat
  | [] => none
  | fr :: ρ => match fr.find? x with
    | some _ => some 0
    | none => (resolveLevel x ρ).map (· + 1)

/-- the static view of a chain: the list of binder sets, innermost first -/
def Frame.names (fr : Frame) : List Name := fr.map Prod.fst

/-- `resolve` on binder sets: the index of the innermost level that binds `x` (`none`: global) -/
def resolveIdx (x : Name) : List (List Name) → Option Nat
  | [] => none
  | b :: bs => if x ∈ b then some 0 else (resolveIdx x bs).map (· + 1)

/-! ## the interpreter -/

abbrev M := ExceptT Err (StateM St)

def alloc (v : Val) : M Loc := do
  let s ← get
  set { s with store := s.store.push v }
  pure s.store.size

def tick : M Val := do
  let s ← get
  set { s with counter := s.counter + 1 }
  pure (.int (s.counter + 1))

/-- the location a name denotes at a program point with chain `ρ` -/
def locOf (x : Name) (ρ : Chain) : M Loc := do
  match resolve x ρ with
  | some l => pure l
  | none =>
    match (← get).globals.find? x with
    | some l => pure l
    | none => throw .unbound

def readLoc (l : Loc) : M Val := do
  match (← get).store[l]? with
  | some .undef => throw .unbound       -- a definition read before its initialisation
  | some v => pure v
  | none => throw .unbound

def writeLoc (l : Loc) (v : Val) : M Unit :=
  modify fun s => { s with store := s.store.setIfInBounds l v }

def logEvent (e : Event) : M Unit := modify fun s => { s with log := e :: s.log }

/-- frame of the parameters: one fresh location per fixed parameter, the surplus arguments as a
    fresh list in the rest parameter's location -/
def bindParams : List Name → Option Name → List Val → M Frame
  | [], none, [] => pure []
  | [], none, _ :: _ => throw .arity
  | [], some r, vs => do
      let l ← alloc (Val.ofList vs)
      pure [(r, l)]
  | _ :: _, _, [] => throw .arity
  | p :: ps, r, v :: vs => do
      let l ← alloc v
      let fr ← bindParams ps r vs
      pure ((p, l) :: fr)

/-- internal definitions get their (uninitialised) locations when the activation starts -/
def allocDefs : Defs → M Frame
  | .nil => pure []
  | .cons x _ _ ds => do
      let l ← alloc .undef
      let fr ← allocDefs ds
      pure ((x, l) :: fr)

mutual
def eval : Nat → Chain → Expr → M Val
  | 0, _, _ => throw .fuel
  | _+1, _, .fresh => tick
  | _+1, ρ, .ref s x => do
      let l ← locOf x ρ
      let v ← readLoc l
      logEvent ⟨s, l, v, false⟩
      pure v
  | f+1, ρ, .set s x e => do
      let v ← eval f ρ e
      let l ← locOf x ρ
      logEvent ⟨s, l, v, true⟩
      writeLoc l v
      pure .void
  | _+1, ρ, .lam ps r ds body => pure (.clo ps r ds body ρ)
  | f+1, ρ, .call fn args => do
      let vs ← evalList f ρ args
      let fv ← eval f ρ fn
      apply f fv vs
  | f+1, ρ, .seq es => evalBody f ρ es
  | f+1, ρ, .loop n fn => do
      let fv ← eval f ρ fn
      loopGo f fv n
  | f+1, ρ, .each l args => do
      let lv ← eval f ρ l
      let vs ← evalList f ρ args
      eachGo f lv vs

def evalList : Nat → Chain → Exprs → M (List Val)
  | 0, _, _ => throw .fuel
  | _+1, _, .nil => pure []
  | f+1, ρ, .cons e es => do
      let v ← eval f ρ e
      let vs ← evalList f ρ es
      pure (v :: vs)

/-- a body: the value of the last expression (`#<void>` for an empty one, which the generator
    never produces) -/
def evalBody : Nat → Chain → Exprs → M Val
  | 0, _, _ => throw .fuel
  | _+1, _, .nil => pure .void
  | f+1, ρ, .cons e .nil => eval f ρ e
  | f+1, ρ, .cons e es => do
      let _ ← eval f ρ e
      evalBody f ρ es

def evalDefs : Nat → Chain → Defs → M Unit
  | 0, _, _ => throw .fuel
  | _+1, _, .nil => pure ()
  | f+1, ρ, .cons x _ e ds => do
      let v ← eval f ρ e
      let l ← locOf x ρ
      writeLoc l v
      evalDefs f ρ ds

/-- procedure application: a new frame — new locations — per activation, chained onto the
    closure's creation-time chain -/
def apply : Nat → Val → List Val → M Val
  | 0, _, _ => throw .fuel
  | f+1, .clo ps r ds body env, vs => do
      let fr ← bindParams ps r vs
      let fr' ← allocDefs ds
      let ρ := (fr ++ fr') :: env
      evalDefs f ρ ds
      evalBody f ρ body
  | _+1, _, _ => throw .notProcedure

def loopGo : Nat → Val → Nat → M Val
  | 0, _, _ => throw .fuel
  | _+1, _, 0 => pure .nil
  | f+1, fv, n+1 => do
      let t ← tick
      let v ← apply f fv [t]
      let rest ← loopGo f fv n
      pure (.pair v rest)

def eachGo : Nat → Val → List Val → M Val
  | 0, _, _ => throw .fuel
  | _+1, .nil, _ => pure .nil
  | f+1, .pair c rest, vs => do
      let v ← apply f c vs
      let r ← eachGo f rest vs
      pure (.pair v r)
  | _+1, _, _ => throw .type
end

/-- one top-level form; the outcome of a definition is `#<void>` -/
def runTop (fuel : Nat) : Top → M Val
  | .define x e => do
      let v ← eval fuel [] e
      match (← get).globals.find? x with
      | some l => writeLoc l v
      | none => do
          let l ← alloc v
          modify fun s => { s with globals := (x, l) :: s.globals }
      pure .void
  | .expr e => eval fuel [] e

/-- a session: every form is run in the state its predecessors left (also after an error) -/
def run (fuel : Nat) : Program → St → List (Except Err Val) × St
  | [], s => ([], s)
  | t :: ts, s =>
    let (r, s) := (runTop fuel t).run.run s
    let (rs, s) := run fuel ts s
    (r :: rs, s)

end Marwood.Spec.Scope
