import Marwood.Num.Rep
import Marwood.Num.F64
/-!
# What C08 and C09 demand, in ℚ

* `val : Num → Option Rat` — the mathematical value (none for ±inf and NaN),
* `ext : Num → Option Ext` — the value in ℚ ∪ {−∞, +∞} (none for NaN), the carrier of the one
  total order C09 speaks about,
* `representable r` — `r` can be carried exactly by some representation: an integer (bignums are
  unbounded) or a reduced ratio with both parts in the i32 range,
* the exact operations on ℚ and the judgement "this answer is what the property allows".

Executable (the driver runs it as the oracle); the theorems in `Proofs/C08.lean`, `Proofs/C09.lean`
are stated against these definitions.  Core Lean only.  Namespace `Marwood.NumSpec`.
-/
namespace Marwood.NumSpec
open Marwood

def isExact : Num → Bool
  | .flo _ => false
  | _ => true

/-- mathematical value; a rational `n/d` is `n / d` in ℚ -/
def val : Num → Option Rat
  | .fix n => some n
  | .big n => some n
  | .rat n d => some ((n : Rat) / (d : Rat))
  | .flo f => Fl.toRat? f

/-- ℚ with the two infinities -/
inductive Ext
  | ninf
  | fin (q : Rat)
  | pinf
deriving DecidableEq, Repr

def Ext.lt : Ext → Ext → Bool
  | .ninf, .ninf => false
  | .ninf, _ => true
  | .fin _, .ninf => false
  | .fin a, .fin b => decide (a < b)
  | .fin _, .pinf => true
  | .pinf, _ => false

def Ext.le (a b : Ext) : Bool := a == b || Ext.lt a b

/-- value in the extended rationals; none exactly for NaN -/
def ext : Num → Option Ext
  | .flo f =>
    if Fl.isNaN f then none
    else if Fl.isInf f then some (if Fl.signBit f then .ninf else .pinf)
    else (Fl.toRat? f).map .fin
  | a => (val a).map .fin

/-- an exact value some representation can carry: any integer, or a reduced ratio within i32 -/
def representable (r : Rat) : Bool := r.den == 1 || (inI32 r.num && inI32 (r.den : Int))

def absR (r : Rat) : Rat := if r < 0 then -r else r

def maxR (a b : Rat) : Rat := if a < b then b else a

/-- 2⁻⁵⁰ -/
def eps50 : Rat := mkRat 1 (2 ^ 50)

/-- the doubles' normal range: the error bound of the property can only be met inside it -/
def inDoubleRange (r : Rat) : Bool :=
  r == 0 || (decide (mkRat 1 (2 ^ 1022) ≤ absR r) && decide (absR r < (2 ^ 1023 : Nat)))

inductive Verdict
  | conforms
  | violates (why : String)
  | outside (why : String)
deriving Repr

/-- C08 for one answer `x` to a question whose true value is `r`, operands of magnitudes `mags`:
    exact and equal, or — only when `r` is not representable — inexact within
    2⁻⁵⁰ · max(|operands|, |r|).  `mustBeExact` is set for quotient/remainder/modulo and the
    integer-valued unary operations, which never have an excuse. -/
def judgeValue (r : Rat) (mags : List Rat) (mustBeExact : Bool) (x : Num) : Verdict :=
  if isExact x then
    match val x with
    | some v => if v == r then .conforms else .violates "exact-but-wrong"
    | none => .violates "exact-without-value"
  else if mustBeExact then .violates "inexact-integer-operation"
  else if representable r then .violates "inexact-but-representable"
  else if !inDoubleRange r then .outside "true-result-outside-double-range"
  else
    match val x with
    | none => .violates "inexact-not-finite"
    | some v =>
      let bound := eps50 * (mags.foldl maxR (absR r))
      if absR (v - r) ≤ bound then .conforms else .violates "inexact-error-too-large"

def Verdict.show : Verdict → String
  | .conforms => "conforms"
  | .violates w => "violates " ++ w
  | .outside w => "outside " ++ w

/-! ## exact operations (none = undefined: zero divisor, non-integer operand of an integer operation) -/

def isIntQ (r : Rat) : Bool := r.den == 1

def specQuotient (a b : Rat) : Option Rat :=
  if isIntQ a && isIntQ b && b != 0 then some (Int.tdiv a.num b.num : Int) else none

def specRemainder (a b : Rat) : Option Rat :=
  if isIntQ a && isIntQ b && b != 0 then some (Int.tmod a.num b.num : Int) else none

def specModulo (a b : Rat) : Option Rat :=
  if isIntQ a && isIntQ b && b != 0 then some (Int.fmod a.num b.num : Int) else none

def specDiv (a b : Rat) : Option Rat := if b == 0 then none else some (a / b)

def specFloor (a : Rat) : Rat := (a.floor : Int)
def specCeil (a : Rat) : Rat := (-((-a).floor) : Int)
def specTrunc (a : Rat) : Rat := if a < 0 then specCeil a else specFloor a

/-! ## C09: the relations on the extended rationals -/

def specRel (op : String) (a b : Ext) : Option Bool :=
  match op with
  | "=" => some (a == b)
  | "<" => some (Ext.lt a b)
  | ">" => some (Ext.lt b a)
  | "<=" => some (Ext.le a b)
  | ">=" => some (Ext.le b a)
  | _ => none

/-- conjunction over adjacent pairs -/
def chain (rel : Ext → Ext → Bool) : List Ext → Bool
  | a :: b :: rest => rel a b && chain rel (b :: rest)
  | _ => true

end Marwood.NumSpec
