import Marwood.Vm.Compile
/-!
# R7RS 3.5 (proper tail recursion) on the core forms: which procedure calls are tail calls

`tailCalls fuel tail e` lists the procedure calls that occur in `e` *in the code of the lambda `e`
belongs to* (calls inside nested `lambda` expressions belong to those lambdas), in evaluation
order, each marked `true` iff it is a tail call, where `tail` says whether `e` itself is in tail
position:
* the operands and the operator of a call are not in tail position; the call itself is a tail call
  iff it is in tail position;
* the test of `if` is not in tail position; both branches are iff the `if` is;
* the value expression of `define` / `set!` is not in tail position;
* unquoted expressions inside `quasiquote` are not in tail position;
* `quote`, `lambda`, literals and variable references contain no calls of this lambda.
Form recognition (which symbol heads a special form, arity checks) follows the compiler so that
the statement covers exactly the programs the compiler accepts.
-/
namespace Marwood.Spec
open Marwood Marwood.Vm

mutual
def tailCalls : Nat → Bool → Datum → List Bool
  | 0, _, _ => []
  | fuel+1, tail, e =>
    match e with
    | .pair proc rest =>
      if proc.isSymStr ['d', 'e', 'f', 'i', 'n', 'e'] then
        match rest with
        | .pair (.sym _) (.pair value _) => tailCalls fuel false value
        | _ => []
      else if proc.isSymStr ['d', 'e', 'f', 'i', 'n', 'e', '-', 's', 'y', 'n', 't', 'a', 'x'] then []
      else if proc.isSymStr ['l', 'a', 'm', 'b', 'd', 'a'] || proc.isSymStr ['λ'] then []
      else if proc.isSymStr ['q', 'u', 'a', 's', 'i', 'q', 'u', 'o', 't', 'e'] then
        match rest with
        | .pair x _ => quasiCalls fuel x 0
        | _ => []
      else if proc.isSymStr ['q', 'u', 'o', 't', 'e'] then []
      else if proc.isSymStr ['i', 'f'] then
        match Datum.iter rest with
        | [test, conseq] => tailCalls fuel false test ++ tailCalls fuel tail conseq
        | [test, conseq, alt] =>
          tailCalls fuel false test ++ tailCalls fuel tail conseq ++ tailCalls fuel tail alt
        | _ => []
      else if proc.isSymStr ['s', 'e', 't', '!'] then
        match Datum.iter rest with
        | [_, value] => tailCalls fuel false value
        | _ => []
      else operandCalls fuel rest ++ tailCalls fuel false proc ++ [tail]
    | _ => []

def operandCalls : Nat → Datum → List Bool
  | 0, _ => []
  | fuel+1, rest =>
    match rest with
    | .pair a d => tailCalls fuel false a ++ operandCalls fuel d
    | _ => []

/-- unquoted expressions of a quasiquote template at nesting `depth` -/
def quasiCalls : Nat → Datum → Nat → List Bool
  | 0, _, _ => []
  | fuel+1, e, depth =>
    match e with
    | .vec elems => false :: quasiElems fuel elems depth   -- the compiler's own non-tail call of `(vector)` that allocates the fresh vector
    | .pair car _ =>
      let isUnq := car.isSymStr ['u', 'n', 'q', 'u', 'o', 't', 'e']
      if isUnq && depth == 0 then
        match e with
        | .pair _ (.pair x _) => tailCalls fuel false x
        | _ => []
      else
        let depth := if isUnq then depth - 1 else depth
        let depth := if car.isSymStr ['q', 'u', 'a', 's', 'i', 'q', 'u', 'o', 't', 'e'] then depth + 1 else depth
        quasiElems fuel e depth
    | _ => []

def quasiElems : Nat → Datum → Nat → List Bool
  | 0, _, _ => []
  | fuel+1, rest, depth =>
    match rest with
    | .pair x d => quasiCalls fuel x depth ++ quasiElems fuel d depth
    | _ => []
end

/-- the calls of a lambda body: only the last expression is in tail position -/
def bodyCalls : Nat → Datum → List Bool
  | 0, _ => []
  | fuel+1, body =>
    match body with
    | .pair x rest => tailCalls fuel rest.isNil x ++ bodyCalls fuel rest
    | _ => []

end Marwood.Spec
