import Marwood.Spec.Eval
/-!
# Specification: the language of `Spec.Eval` with first-class continuations (property C05)

A definitional interpreter in **defunctionalised continuation-passing style** for exactly the language of
`Spec.Eval` (same values, store, environments, primitive procedures, error classes, left-to-right
operands then operator — every first-order definition is *imported* from `Spec.Eval`, not copied) plus
`call/cc` / `call-with-current-continuation`.

* A continuation is a list of `Frame`s (`Kont`), innermost first: "operands of an application, the values
  already computed and the operands still to evaluate", "`if` waiting for its test", "`set!`/`define`
  waiting for the value", "rest of a sequence", "apply once the operator is known", the callback frames of
  `map`/`for-each`/`force`, … The empty continuation is the top level: *the value becomes the result of the
  top-level evaluation in progress* (`topDefK`/`topSeqK` are the frames of a top-level definition / `begin`).
* A machine state is a control (`ev e ρ` evaluate, `ret v` return a value to the continuation, `app f args`
  apply), the continuation, the store `σ : St` of `Spec.Eval` and the table `ks` of captured continuations.
  `step` is a total function `State → Next`; `runNext` iterates it with fuel.
* `Spec.Eval.Val` cannot be extended without touching the definitions C01's theorems are about, so a
  continuation *value* is a reference into the append-only table `ks` (exactly as a pair value is a
  reference into the store): `contVal i` denotes `ks[i]`. The two extra procedure values are coded as
  closures with an **empty body**, which no expression of the language can create (`makeClosure`, named
  `let` and `delay` all build non-empty bodies): `callccVal`, `contVal i`.
* `(call/cc f)` in continuation `κ`: `ks := ks.push κ`, apply `f` to `contVal ks.size` in `κ`.
  `((contVal i) v)` in ANY continuation: the current continuation is dropped, `ret v` to `ks[i]`.
  The store is threaded through and never rolled back. A continuation captured while form i was evaluated
  ends in form i's top-level frames; when it is resumed during form j its value is the result of form j —
  what a REPL does.
* `step kOn`: with `kOn = false` the two extra values are not recognised and the machine is the plain CPS
  machine of `Spec.Eval` (used to tie this specification to `Spec.Eval`: `Lemmas/EvalKAgree*.lean`).

Unspecified by R7RS, taken from the implementation: a continuation applied to several values delivers the
last one; to none, it is an error. Core Lean only.
-/
namespace Marwood.Spec.EvalK
open Marwood Marwood.Spec.Eval

/-! ## The two extra procedure values -/

/-- `call/cc` -/
def callccVal : Val := .closure [] none [] []
/-- the continuation stored at index `i` of the table -/
def contVal (i : Nat) : Val := .closure [] none [] [([], i)]

inductive Special
  | callcc
  | cont (i : Nat)
deriving DecidableEq, Repr

def special : Val → Option Special
  | .closure [] none [] [] => some .callcc
  | .closure [] none [] [([], i)] => some (.cont i)
  | _ => none

def isProcedure : Val → Bool
  | .prim _ | .closure _ _ _ _ => true
  | _ => false

def k_callcc : Text := ['c', 'a', 'l', 'l', '/', 'c', 'c']
def k_callWithCC : Text :=
  ['c', 'a', 'l', 'l', '-', 'w', 'i', 't', 'h', '-', 'c', 'u', 'r', 'r', 'e', 'n', 't', '-',
   'c', 'o', 'n', 't', 'i', 'n', 'u', 'a', 't', 'i', 'o', 'n']

/-- the initial state of `Spec.Eval` plus the two names of `call/cc` -/
def initStK : St := { initSt with globals := initGlobals ++ [(k_callcc, callccVal), (k_callWithCC, callccVal)] }

/-! ## Continuations -/

/-- what happens with the values of a sequence of operands once all are evaluated -/
inductive ArgsThen
  /-- application: evaluate the operator, then apply -/
  | call (f : Datum)
  /-- `let`: bind and run the body -/
  | letBody (names : List Text) (body : List Datum)
  /-- named `let` -/
  | namedLet (name : Text) (names : List Text) (body : List Datum)
deriving DecidableEq, Repr

inductive Frame
  /-- operands, left to right: `done` = values of the operands already evaluated (latest first),
      `todo` = operands still to evaluate -/
  | args (ρ : Env) (done : List Val) (todo : List Datum) (th : ArgsThen)
  /-- the operands are `vs`; the operator is being evaluated -/
  | fn (vs : List Val)
  | ifK (ρ : Env) (c : Datum) (a : Option Datum)
  | setK (ρ : Env) (x : Text)
  /-- discard the value, go on with the non-empty sequence `rest` -/
  | seqK (ρ : Env) (rest : List Datum)
  /-- internal definition of `x`; `rest` = the body forms after it -/
  | bodyDefK (ρ : Env) (x : Text) (rest : List Datum)
  /-- top-level definition of `x`: bind the global, the form's value is `void` -/
  | topDefK (x : Text)
  /-- top-level `(begin form …)`: the forms after the current one -/
  | topSeqK (rest : List Datum)
  | letStarK (ρ : Env) (x : Text) (bs : List (Text × Datum)) (body : List Datum)
  | letrecK (ρ : Env) (x : Text) (bs : List (Text × Datum)) (body : List Datum)
  | condK (ρ : Env) (body : List Datum) (cs : List Datum)
  /-- `=>`: the receiver is being evaluated, `v` is what it gets -/
  | arrowK (v : Val)
  | caseK (ρ : Env) (cs : List Datum)
  | andK (ρ : Env) (es : List Datum)
  | orK (ρ : Env) (es : List Datum)
  /-- `when` (`neg = false`) / `unless` (`neg = true`) -/
  | whenK (ρ : Env) (neg : Bool) (body : List Datum)
  | forceK (l : Loc)
  /-- `map` (`isMap`) / `for-each`: `done` = results so far (latest first), `todo` = argument rows left -/
  | mapK (isMap : Bool) (f : Val) (done : List Val) (todo : List (List Val))
  /-- quasiquote: `(s x)` rebuilt around the value of `x` -/
  | qqWrapK (s : Text)
  /-- quasiquote: the car is done, the cdr template `d` is next -/
  | qqCarK (ρ : Env) (d : Datum) (depth : Nat)
  | qqCdrK (a : Val)
  /-- quasiquoted vector: elements done (latest first), rest of the element spine -/
  | qqVecK (ρ : Env) (done : List Val) (rest : Datum) (depth : Nat)
deriving DecidableEq, Repr

abbrev Kont := List Frame

inductive Ctrl
  | ev (e : Datum) (ρ : Env)
  | ret (v : Val)
  | app (f : Val) (args : List Val)
deriving DecidableEq, Repr

structure State where
  c : Ctrl
  κ : Kont
  σ : St
  /-- captured continuations, append-only -/
  ks : Array Kont
deriving Repr

inductive Outcome
  | value (v : Val)
  | err (e : ErrClass)
deriving DecidableEq, Repr

inductive Next
  | run (s : State)
  | halt (o : Outcome) (σ : St) (ks : Array Kont)
  /-- a helper of `Spec.Eval` ran out of fuel: cannot happen, no helper used here consumes fuel -/
  | stuck
deriving Repr

@[inline] def evalIn (e : Datum) (ρ : Env) (κ : Kont) (σ : St) (ks : Array Kont) : Next := .run ⟨.ev e ρ, κ, σ, ks⟩
@[inline] def retTo (v : Val) (κ : Kont) (σ : St) (ks : Array Kont) : Next := .run ⟨.ret v, κ, σ, ks⟩
@[inline] def appTo (f : Val) (args : List Val) (κ : Kont) (σ : St) (ks : Array Kont) : Next := .run ⟨.app f args, κ, σ, ks⟩
@[inline] def failWith (e : ErrClass) (σ : St) (ks : Array Kont) : Next := .halt (.err e) σ ks

/-- run a (first-order) computation of `Spec.Eval` on the store -/
@[inline] def withM {α : Type} (x : M α) (σ : St) (ks : Array Kont) (k : α → St → Next) : Next :=
  match x σ with
  | .ok a σ' => k a σ'
  | .err e σ' => .halt (.err e) σ' ks
  | .timeout => .stuck

/-! ## Entering forms (each function mirrors the one of `Spec.Eval` named in its comment) -/

/-- `evalExprs` -/
def exprsGo (ρ : Env) (es : List Datum) (κ : Kont) (σ : St) (ks : Array Kont) : Next :=
  match es with
  | [] => failWith .syntax σ ks
  | [e] => evalIn e ρ κ σ ks
  | e :: es => evalIn e ρ (.seqK ρ es :: κ) σ ks

/-- `defineValue`, the frame `mk x` receives the value -/
def defineGo (ρ : Env) (d : Datum) (mk : Text → Frame) (κ : Kont) (σ : St) (ks : Array Kont) : Next :=
  match d with
  | .pair _ (.pair (.sym x) (.pair e .nil)) =>
    if reserved x then failWith .syntax σ ks else evalIn e ρ (mk x :: κ) σ ks
  | .pair _ (.pair (.pair (.sym f) formals) body) =>
    if reserved f then failWith .syntax σ ks else
      withM (makeClosure formals body ρ) σ ks fun v σ' => retTo v (mk f :: κ) σ' ks
  | _ => failWith .syntax σ ks

/-- `evalBodyForms` -/
def bodyFormsGo (ρ : Env) (defs : Bool) (forms : List Datum) (κ : Kont) (σ : St) (ks : Array Kont) : Next :=
  match forms with
  | [] => failWith .syntax σ ks
  | [e] =>
    if defs && isDefine e then defineGo ρ e (fun x => .bodyDefK ρ x []) κ σ ks
    else evalIn e ρ κ σ ks
  | e :: es =>
    if defs && isDefine e then defineGo ρ e (fun x => .bodyDefK ρ x es) κ σ ks
    else evalIn e ρ (.seqK ρ es :: κ) σ ks

/-- `evalBody` -/
def bodyGo (ρ : Env) (body : List Datum) (κ : Kont) (σ : St) (ks : Array Kont) : Next :=
  withM (allocVars ((leadingDefs body).map fun x => (x, Val.undef)) ρ) σ ks fun ρ' σ' =>
    bodyFormsGo ρ' true body κ σ' ks

/-- all operands are evaluated -/
def argsDone (ρ : Env) (vs : List Val) (th : ArgsThen) (κ : Kont) (σ : St) (ks : Array Kont) : Next :=
  match th with
  | .call f => evalIn f ρ (.fn vs :: κ) σ ks
  | .letBody names body =>
    withM (allocVars (names.zip vs) ρ) σ ks fun ρ' σ' => bodyGo ρ' body κ σ' ks
  | .namedLet name names body =>
    withM (do
      let l ← allocCell (.var .undef)
      let f := Val.closure names none body ((name, l) :: ρ)
      writeCell l (.var f)
      pure f) σ ks fun f σ' => appTo f vs κ σ' ks

/-- `evalArgs` -/
def argsGo (ρ : Env) (done : List Val) (todo : List Datum) (th : ArgsThen) (κ : Kont) (σ : St)
    (ks : Array Kont) : Next :=
  match todo with
  | e :: es => evalIn e ρ (.args ρ done es th :: κ) σ ks
  | [] => argsDone ρ done.reverse th κ σ ks

/-- `evalLetStar` -/
def letStarGo (body : List Datum) (bs : List (Text × Datum)) (ρ : Env) (κ : Kont) (σ : St) (ks : Array Kont) : Next :=
  match bs with
  | [] => bodyGo ρ body κ σ ks
  | (x, e) :: bs => evalIn e ρ (.letStarK ρ x bs body :: κ) σ ks

/-- `evalLetrecInits`, then the body -/
def letrecGo (ρ : Env) (bs : List (Text × Datum)) (body : List Datum) (κ : Kont) (σ : St) (ks : Array Kont) : Next :=
  match bs with
  | [] => bodyGo ρ body κ σ ks
  | (x, e) :: bs => evalIn e ρ (.letrecK ρ x bs body :: κ) σ ks

/-- `evalCond` -/
def condGo (ρ : Env) (cs : List Datum) (κ : Kont) (σ : St) (ks : Array Kont) : Next :=
  match cs with
  | [] => retTo .void κ σ ks
  | c :: cs =>
    match properList c with
    | some (t :: body) =>
      if t == .sym k_else_ then
        (if cs.isEmpty then exprsGo ρ body κ σ ks else failWith .syntax σ ks)
      else evalIn t ρ (.condK ρ body cs :: κ) σ ks
    | _ => failWith .syntax σ ks

/-- the body of a selected `cond` / `case` clause (`v` = the test value / the key) -/
def clauseBodyGo (ρ : Env) (v : Val) (body : List Datum) (κ : Kont) (σ : St) (ks : Array Kont) : Next :=
  match body with
  | [arrow, f] =>
    if arrow == .sym k_arrow then evalIn f ρ (.arrowK v :: κ) σ ks
    else exprsGo ρ body κ σ ks
  | _ => exprsGo ρ body κ σ ks

/-- `evalCase` -/
def caseGo (ρ : Env) (key : Val) (cs : List Datum) (κ : Kont) (σ : St) (ks : Array Kont) : Next :=
  match cs with
  | [] => retTo .void κ σ ks
  | c :: cs =>
    match c with
    | .pair sel bodyD =>
      match properList bodyD with
      | some body =>
        let hit : Option Bool :=
          if sel == .sym k_else_ then (if cs.isEmpty then some true else none)
          else (properList sel).map fun ds => ds.any (eqvDatum key)
        match hit with
        | none => failWith .syntax σ ks
        | some false => caseGo ρ key cs κ σ ks
        | some true => clauseBodyGo ρ key body κ σ ks
      | none => failWith .syntax σ ks
    | _ => failWith .syntax σ ks

/-- `evalAnd` -/
def andGo (ρ : Env) (es : List Datum) (κ : Kont) (σ : St) (ks : Array Kont) : Next :=
  match es with
  | [] => retTo (.bool true) κ σ ks
  | [e] => evalIn e ρ κ σ ks
  | e :: es => evalIn e ρ (.andK ρ es :: κ) σ ks

/-- `evalOr` -/
def orGo (ρ : Env) (es : List Datum) (κ : Kont) (σ : St) (ks : Array Kont) : Next :=
  match es with
  | [] => retTo (.bool false) κ σ ks
  | [e] => evalIn e ρ κ σ ks
  | e :: es => evalIn e ρ (.orK ρ es :: κ) σ ks

/-- `qq`: descends the car spine of the template, pushing a frame per pair -/
def qqGo (ρ : Env) : Datum → Nat → Kont → St → Array Kont → Next
  | .pair (.sym s) (.pair x .nil), depth, κ, σ, ks =>
    if s == k_unquote then
      match depth with
      | 0 => evalIn x ρ κ σ ks
      | depth'+1 => qqGo ρ x depth' (.qqWrapK s :: κ) σ ks
    else if s == k_quasiquote then qqGo ρ x (depth + 1) (.qqWrapK s :: κ) σ ks
    else qqGo ρ x depth (.qqWrapK s :: κ) σ ks
  | .pair a d, depth, κ, σ, ks => qqGo ρ a depth (.qqCarK ρ d depth :: κ) σ ks
  | .vec (.pair a d), depth, κ, σ, ks => qqGo ρ a depth (.qqVecK ρ [] d depth :: κ) σ ks
  | .vec _, _, κ, σ, ks => withM (allocVec []) σ ks fun v σ' => retTo v κ σ' ks
  | d, _, κ, σ, ks => withM (quoteVal d) σ ks fun v σ' => retTo v κ σ' ks

/-- `evalTopForm` -/
def topFormGo (d : Datum) (κ : Kont) (σ : St) (ks : Array Kont) : Next :=
  if isDefine d then defineGo [] d .topDefK κ σ ks else evalIn d [] κ σ ks

/-- `evalTopForms` -/
def topFormsGo (ds : List Datum) (κ : Kont) (σ : St) (ks : Array Kont) : Next :=
  match ds with
  | [] => failWith .syntax σ ks
  | [d] => topFormGo d κ σ ks
  | d :: ds => topFormGo d (.topSeqK ds :: κ) σ ks

/-- `evalTop` -/
def topGo (d : Datum) (κ : Kont) (σ : St) (ks : Array Kont) : Next :=
  match d with
  | .pair (.sym k) rest =>
    if k == k_begin_ then
      match properList rest with
      | some forms => topFormsGo forms κ σ ks
      | none => failWith .syntax σ ks
    else topFormGo d κ σ ks
  | _ => topFormGo d κ σ ks

/-- `evalKw` -/
def kwGo (ρ : Env) (k : Kw) (rest : Datum) (κ : Kont) (σ : St) (ks : Array Kont) : Next :=
  match k with
  | .quote =>
    match rest with
    | .pair x _ => withM (quoteVal x) σ ks fun v σ' => retTo v κ σ' ks
    | _ => failWith .syntax σ ks
  | .quasiquote =>
    match rest with
    | .pair x _ => qqGo ρ x 0 κ σ ks
    | _ => failWith .syntax σ ks
  | .unquote => failWith .syntax σ ks
  | .lambda =>
    match rest with
    | .pair formals body => withM (makeClosure formals body ρ) σ ks fun v σ' => retTo v κ σ' ks
    | _ => failWith .syntax σ ks
  | .define => failWith .syntax σ ks
  | .setBang =>
    match properList rest with
    | some [.sym x, e] =>
      if reserved x then failWith .syntax σ ks else evalIn e ρ (.setK ρ x :: κ) σ ks
    | _ => failWith .syntax σ ks
  | .if_ =>
    match properList rest with
    | some [t, c] => evalIn t ρ (.ifK ρ c none :: κ) σ ks
    | some [t, c, a] => evalIn t ρ (.ifK ρ c (some a) :: κ) σ ks
    | _ => failWith .syntax σ ks
  | .let_ =>
    match rest with
    | .pair (.sym name) (.pair bindings bodyD) =>
      match parseBindings bindings, properList bodyD with
      | some bs, some (b :: body) =>
        if reserved name then failWith .syntax σ ks else
        argsGo ρ [] (bs.map (·.2)) (.namedLet name (bs.map (·.1)) (b :: body)) κ σ ks
      | _, _ => failWith .syntax σ ks
    | .pair bindings bodyD =>
      match parseBindings bindings, properList bodyD with
      | some bs, some (b :: body) =>
        argsGo ρ [] (bs.map (·.2)) (.letBody (bs.map (·.1)) (b :: body)) κ σ ks
      | _, _ => failWith .syntax σ ks
    | _ => failWith .syntax σ ks
  | .letStar =>
    match rest with
    | .pair bindings bodyD =>
      match parseBindings bindings, properList bodyD with
      | some bs, some (b :: body) => letStarGo (b :: body) bs ρ κ σ ks
      | _, _ => failWith .syntax σ ks
    | _ => failWith .syntax σ ks
  | .letrec =>
    match rest with
    | .pair bindings bodyD =>
      match parseBindings bindings, properList bodyD with
      | some bs, some (b :: body) =>
        withM (allocVars (bs.map fun (x, _) => (x, Val.undef)) ρ) σ ks fun ρ' σ' =>
          letrecGo ρ' bs (b :: body) κ σ' ks
      | _, _ => failWith .syntax σ ks
    | _ => failWith .syntax σ ks
  | .begin_ =>
    match properList rest with
    | some es => exprsGo ρ es κ σ ks
    | none => failWith .syntax σ ks
  | .cond =>
    match properList rest with
    | some (c :: cs) => condGo ρ (c :: cs) κ σ ks
    | _ => failWith .syntax σ ks
  | .case_ =>
    match rest with
    | .pair keyE clauses =>
      match properList clauses with
      | some (c :: cs) => evalIn keyE ρ (.caseK ρ (c :: cs) :: κ) σ ks
      | _ => failWith .syntax σ ks
    | _ => failWith .syntax σ ks
  | .and_ =>
    match properList rest with
    | some es => andGo ρ es κ σ ks
    | none => failWith .syntax σ ks
  | .or_ =>
    match properList rest with
    | some es => orGo ρ es κ σ ks
    | none => failWith .syntax σ ks
  | .when_ =>
    match properList rest with
    | some (t :: b :: body) => evalIn t ρ (.whenK ρ false (b :: body) :: κ) σ ks
    | _ => failWith .syntax σ ks
  | .unless_ =>
    match properList rest with
    | some (t :: b :: body) => evalIn t ρ (.whenK ρ true (b :: body) :: κ) σ ks
    | _ => failWith .syntax σ ks
  | .delay =>
    match properList rest with
    | some [e] =>
      withM (allocCell (.promise false (.closure [] none [e] ρ))) σ ks fun l σ' => retTo (.promise l) κ σ' ks
    | _ => failWith .syntax σ ks

/-- `evalStep` -/
def evGo (e : Datum) (ρ : Env) (κ : Kont) (σ : St) (ks : Array Kont) : Next :=
  match e with
  | .sym s => withM (evalVar s ρ) σ ks fun v σ' => retTo v κ σ' ks
  | .pair f rest =>
    let special : Option Kw :=
      match f with
      | .sym s => kwOf s
      | _ => none
    match special with
    | some k => kwGo ρ k rest κ σ ks
    | none =>
      match properList rest with
      | some es => argsGo ρ [] es (.call f) κ σ ks
      | none => failWith .syntax σ ks
  | .nil => failWith .syntax σ ks
  | .procedure _ | .macro_ | .continuation | .void | .undefined => failWith .syntax σ ks
  | d => withM (quoteVal d) σ ks fun v σ' => retTo v κ σ' ks

/-- `mapApply` followed by what `map` / `for-each` do with the results -/
def mapGo (isMap : Bool) (f : Val) (done : List Val) (todo : List (List Val)) (κ : Kont) (σ : St)
    (ks : Array Kont) : Next :=
  match todo with
  | a :: as => appTo f a (.mapK isMap f done as :: κ) σ ks
  | [] =>
    if isMap then withM (allocList done.reverse) σ ks fun v σ' => retTo v κ σ' ks
    else retTo .void κ σ ks

/-- `applyStep` -/
def applyGo (f : Val) (args : List Val) (κ : Kont) (σ : St) (ks : Array Kont) : Next :=
  match f with
  | .closure ps rest body ρ =>
    withM (bindArgs ps rest args ρ) σ ks fun ρ' σ' => bodyGo ρ' body κ σ' ks
  | .prim .apply =>
    match args with
    | g :: a :: as =>
      let last := (a :: as).getLast?.getD .nil
      withM (getList last) σ ks fun xs σ' => appTo g ((a :: as).dropLast ++ xs) κ σ' ks
    | _ => failWith .arity σ ks
  | .prim .eval =>
    match args with
    | [v] => withM (externalise v) σ ks fun d σ' => topGo d κ σ' ks
    | _ => failWith .arity σ ks
  | .prim .force =>
    match args with
    | [.promise l] =>
      withM (readCell l) σ ks fun c σ' =>
        match c with
        | .promise true v => retTo v κ σ' ks
        | .promise false thunk => appTo thunk [] (.forceK l :: κ) σ' ks
        | _ => failWith .internal σ' ks
    | [_] => failWith .type σ ks
    | _ => failWith .arity σ ks
  | .prim .map =>
    match args with
    | g :: l :: ls =>
      withM (getLists (l :: ls)) σ ks fun lists σ' =>
        mapGo true g [] (zipArgs (σ'.store.size + 1) lists) κ σ' ks
    | _ => failWith .arity σ ks
  | .prim .forEach =>
    match args with
    | g :: l :: ls =>
      withM (getLists (l :: ls)) σ ks fun lists σ' =>
        mapGo false g [] (zipArgs (σ'.store.size + 1) lists) κ σ' ks
    | _ => failWith .arity σ ks
  | .prim p => withM (applyPrim1 p args) σ ks fun v σ' => retTo v κ σ' ks
  | _ => failWith .notProcedure σ ks

/-- application; `kOn`: `call/cc` and continuations are recognised -/
def appGo (kOn : Bool) (f : Val) (args : List Val) (κ : Kont) (σ : St) (ks : Array Kont) : Next :=
  match (if kOn then special f else none) with
  | some .callcc =>
    match args with
    | [g] =>
      -- capture: the current continuation becomes entry `ks.size` of the table
      if isProcedure g then appTo g [contVal ks.size] κ σ (ks.push κ) else failWith .syntax σ ks
    | _ => failWith .arity σ ks
  | some (.cont i) =>
    match args.getLast? with
    | none => failWith .syntax σ ks
    | some v =>
      -- throw: the current continuation `κ` is dropped; the store is the current one
      match ks[i]? with
      | some κ' => retTo v κ' σ ks
      | none => failWith .internal σ ks
  | none => applyGo f args κ σ ks

/-- a value arrives at a frame -/
def retGo (fr : Frame) (v : Val) (κ : Kont) (σ : St) (ks : Array Kont) : Next :=
  match fr with
  | .args ρ done todo th => argsGo ρ (v :: done) todo th κ σ ks
  | .fn vs => appTo v vs κ σ ks
  | .ifK ρ c a =>
    if truthy v then evalIn c ρ κ σ ks else
      match a with
      | some a => evalIn a ρ κ σ ks
      | none => retTo .void κ σ ks
  | .setK ρ x => withM (assignVar ρ x v) σ ks fun _ σ' => retTo .void κ σ' ks
  | .seqK ρ rest => exprsGo ρ rest κ σ ks
  | .bodyDefK ρ x rest =>
    withM (assignVar ρ x v) σ ks fun _ σ' =>
      match rest with
      | [] => retTo .void κ σ' ks
      | _ :: _ => bodyFormsGo ρ true rest κ σ' ks
  | .topDefK x => withM (putGlobal x v) σ ks fun _ σ' => retTo .void κ σ' ks
  | .topSeqK rest => topFormsGo rest κ σ ks
  | .letStarK ρ x bs body =>
    withM (allocCell (.var v)) σ ks fun l σ' => letStarGo body bs ((x, l) :: ρ) κ σ' ks
  | .letrecK ρ x bs body =>
    withM (assignVar ρ x v) σ ks fun _ σ' => letrecGo ρ bs body κ σ' ks
  | .condK ρ body cs =>
    if truthy v then
      match body with
      | [] => retTo v κ σ ks
      | _ :: _ => clauseBodyGo ρ v body κ σ ks
    else condGo ρ cs κ σ ks
  | .arrowK w => appTo v [w] κ σ ks
  | .caseK ρ cs => caseGo ρ v cs κ σ ks
  | .andK ρ es => if truthy v then andGo ρ es κ σ ks else retTo v κ σ ks
  | .orK ρ es => if truthy v then retTo v κ σ ks else orGo ρ es κ σ ks
  | .whenK ρ neg body =>
    if truthy v != neg then exprsGo ρ body κ σ ks else retTo .void κ σ ks
  | .forceK l =>
    -- the promise may have been forced while its expression was evaluated: the first value stays
    withM (readCell l) σ ks fun c σ' =>
      match c with
      | .promise true w => retTo w κ σ' ks
      | _ => withM (writeCell l (.promise true v)) σ' ks fun _ σ'' => retTo v κ σ'' ks
  | .mapK isMap f done todo => mapGo isMap f (v :: done) todo κ σ ks
  | .qqWrapK s => withM (allocList [.sym s, v]) σ ks fun r σ' => retTo r κ σ' ks
  | .qqCarK ρ d depth => qqGo ρ d depth (.qqCdrK v :: κ) σ ks
  | .qqCdrK a => withM (cons a v) σ ks fun r σ' => retTo r κ σ' ks
  | .qqVecK ρ done rest depth =>
    match rest with
    | .pair a d => qqGo ρ a depth (.qqVecK ρ (v :: done) d depth :: κ) σ ks
    | _ => withM (allocVec (v :: done).reverse) σ ks fun r σ' => retTo r κ σ' ks

/-! ## The machine -/

def step (kOn : Bool) (s : State) : Next :=
  match s.c with
  | .ev e ρ => evGo e ρ s.κ s.σ s.ks
  | .app f args => appGo kOn f args s.κ s.σ s.ks
  | .ret v =>
    match s.κ with
    | [] => .halt (.value v) s.σ s.ks
    | fr :: κ => retGo fr v κ s.σ s.ks

/-- at most `fuel` steps; `none` = no outcome within the fuel -/
def runNext (kOn : Bool) : Nat → Next → Option (Outcome × St × Array Kont)
  | _, .halt o σ ks => some (o, σ, ks)
  | _, .stuck => none
  | 0, .run _ => none
  | n+1, .run s => runNext kOn n (step kOn s)

def run (kOn : Bool) (fuel : Nat) (s : State) : Option (Outcome × St × Array Kont) := runNext kOn fuel (.run s)

/-- the K machine: with `call/cc` -/
abbrev stepK : State → Next := step true
abbrev runK : Nat → State → Option (Outcome × St × Array Kont) := run true

/-! ## Sessions -/

/-- as `valToDatum`; a continuation is externalised as `#<continuation>` -/
def valToDatumK : Nat → Array Cell → Val → Datum
  | fuel+1, st, .pair l =>
    match st[l]? with
    | some (.pair a d) => .pair (valToDatumK fuel st a) (valToDatumK fuel st d)
    | _ => .undefined
  | fuel+1, st, .vec l =>
    match st[l]? with
    | some (.vec xs) => .vec (Datum.ofList (xs.map (valToDatumK fuel st)))
    | _ => .undefined
  | fuel, st, v =>
    match special v with
    | some (.cont _) => .continuation
    | _ => valToDatum fuel st v

/-- the persistent part of the machine between top-level forms -/
structure Sess where
  σ : St
  ks : Array Kont
deriving Repr

def initSess : Sess := { σ := initStK, ks := #[] }

/-- evaluate one top-level form -/
def runFormK (fuel : Nat) (d : Datum) (s : Sess) : FormRes × Option Sess :=
  match runNext true fuel (topGo d [] s.σ s.ks) with
  | some (.value v, σ', ks') => (.ok (valToDatumK (σ'.store.size + 1) σ'.store v), some ⟨σ', ks'⟩)
  | some (.err e, σ', ks') => (.err e, some ⟨σ', ks'⟩)
  | none => (.timeout, none)

def runSessionK (fuel : Nat) : List Datum → Sess → List FormRes × Option Sess
  | [], s => ([], some s)
  | d :: ds, s =>
    match runFormK fuel d s with
    | (r, some s') =>
      let (rs, fin) := runSessionK fuel ds s'
      (r :: rs, fin)
    | (r, none) => (r :: ds.map fun _ => FormRes.timeout, none)

/-- the observable results of a session in a fresh instance; `fuel` = machine steps per form -/
def resultsK (fuel : Nat) (session : List Datum) : List FormRes := (runSessionK fuel session initSess).1

def outputK (fuel : Nat) (session : List Datum) : List (Bool × Datum) :=
  match (runSessionK fuel session initSess).2 with
  | some s => s.σ.out
  | none => []

end Marwood.Spec.EvalK
