import Marwood.Highlight
/-!
# Specification of bracket matching (C20)

The textbook definition: scan the token types left to right with a stack of open-bracket
positions; an opener is pushed, a closer pops its partner (an unmatched closer has none).
Openers are `(`-like tokens and the vector opener `#(`; the closer is the `)`-like token.
-/
namespace Marwood.Spec
open Marwood

/-- all matched (opener index, closer index) pairs of the token-type sequence starting at index
    `i` with stack `st` (innermost opener first) -/
def pairsGo : Nat → List Nat → List TokType → List (Nat × Nat)
  | _, _, [] => []
  | i, st, t :: ts =>
    if t.isOpen then pairsGo (i+1) (i :: st) ts
    else if t.isClose then
      match st with
      | [] => pairsGo (i+1) [] ts
      | o :: st' => (o, i) :: pairsGo (i+1) st' ts
    else pairsGo (i+1) st ts

def pairs (tys : List TokType) : List (Nat × Nat) := pairsGo 0 [] tys

/-- the properly nested partner of the bracket token at index `k`, if any -/
def partner (tys : List TokType) (k : Nat) : Option Nat :=
  match tys[k]? with
  | none => none
  | some t =>
    if t.isOpen then ((pairs tys).find? (fun p => p.1 == k)).map (·.2)
    else if t.isClose then ((pairs tys).find? (fun p => p.2 == k)).map (·.1)
    else none

/-- the token at or just before the cursor -/
def cursorToken (ts : List Token) (i : Nat) : Option (Nat × Token) := findTokenAtCursor ts i

/-- what the highlighter must return -/
def highlight (cs : Text) (i : Nat) : Text :=
  match scan cs with
  | .error _ => cs
  | .ok ts =>
    match cursorToken ts i with
    | none => cs
    | some (k, _) =>
      match partner (ts.map (·.ty)) k with
      | none => cs
      | some j =>
        match ts[j]? with
        | none => cs
        | some b =>
          match takeBytes b.lo cs, sliceBytes b.lo b.hi cs, dropBytes b.hi cs with
          | some pre, some mid, some post => pre ++ escOn ++ mid ++ escOff ++ post
          | _, _, _ => cs

end Marwood.Spec
