import Marwood.Heap.Gc
/-!
# Specification: reachability through semantic references

`Reach children n roots x`: `x < n` is reachable from `roots` in the graph whose edges are given by
`children` (targets `≥ n` are not objects and are ignored, like `heap.get(ptr) = None` in `mark`).

`srefs` gives the *semantic* references of an object, written from the meaning of each kind of cell
and independently of the marker:
a pair refers to its car and cdr; a closure to its code and environment; an environment to whatever
its slots refer to (a slot may be a pointer, or a `LexicalEnvPtr` to the environment that owns a
captured variable); a vector to what its elements refer to; a code object to the operands of its
instructions **decoded by opcode arity** — the operand of `JMP`/`JNT` is a bytecode offset and not a
reference — plus its formal arguments and the symbols of its environment map; a continuation to
what its saved stack slots refer to, its code object and its environment; an instruction pointer to
its code object; an environment pointer to its environment.
-/
namespace Marwood.Spec
open Marwood Marwood.Heap

inductive Reach (children : Nat → List Nat) (n : Nat) (roots : List Nat) : Nat → Prop
  | root {x} : x ∈ roots → x < n → Reach children n roots x
  | step {x y} : Reach children n roots x → y ∈ children x → y < n → Reach children n roots y

mutual
/-- semantic references of a value -/
def srefs : VCell → List Nat
  | .pair a d => [a, d]
  | .ptr p => [p]
  | .closure l e => [l, e]
  | .envPtr p => [p]
  | .lexEnvPtr p _ => [p]
  | .ip l _ => [l]
  | .lexEnv slots => srefsList slots
  | .vector es => srefsList es
  | .lambda bc args em => bcSem 0 false bc ++ srefsList args ++ srefsList em
  | .cont stk l e => srefsList stk ++ [l, e]
  | .atom _ | .opcode _ | .symbol _ => []
def srefsList : List VCell → List Nat
  | [] => []
  | c :: cs => srefs c ++ srefsList cs
/-- instruction decoding: `pending` operand cells of the current instruction remain; `jump` says the
current instruction is `JMP`/`JNT` (its operand is an offset) -/
def bcSem (pending : Nat) (jump : Bool) : List VCell → List Nat
  | [] => []
  | c :: cs =>
    match pending with
    | p+1 => (if jump then [] else srefs c) ++ bcSem p jump cs
    | 0 =>
      match c with
      | .opcode o => bcSem o.arity o.isJump cs
      | c => srefs c ++ bcSem 0 false cs
end

/-- semantic children of heap address `x` -/
def schildren (h : Heap) (x : Nat) : List Nat :=
  match h.cells[x]? with
  | some c => srefs c
  | none => []

/-- semantic roots: global bindings (symbol and value), the stack up to `sp`, the accumulator, the
running code object, the current environment -/
def sroots (r : Roots) : List Nat :=
  r.globalSyms ++ srefsList r.globalSlots ++ srefsList r.stack ++ srefs r.acc ++ [r.ipLam, r.ep]

/-- `Live h r x`: the property's "reachable from the running code, the stack, saved continuations,
closure environments or global bindings" -/
def Live (h : Heap) (r : Roots) (x : Nat) : Prop := Reach (schildren h) h.cells.size (sroots r) x

/-- executable reachable set (proved equal to `Reach` in `Lemmas/GcMark`): marks over `Array Bool` -/
def reachArr (children : Nat → List Nat) (n : Nat) (fuel : Nat) (roots : List Nat) : Option (Array Bool) :=
  markLoop id true children fuel roots (Array.replicate n false)

def stotalRefs (h : Heap) : Nat := ((List.range h.cells.size).map fun x => (schildren h x).length).sum

def liveArr (h : Heap) (r : Roots) : Option (Array Bool) :=
  reachArr (schildren h) h.cells.size ((sroots r).length + stotalRefs h + 1) (sroots r)

end Marwood.Spec
