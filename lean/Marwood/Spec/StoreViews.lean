import Marwood.Store.Prelude
/-!
# Abstract views of the model store (the vocabulary of the C14 theorems)

* `IsList s v as` — `v` denotes a proper list whose element *references* are the heap addresses
  `as` (an element is the object stored at that address: "the very same object").
* `Chain s p ls q` — the cells at the addresses `ls.map fst` form a cdr-chain from `p` with car
  references `ls.map snd`, whose last cdr is the address `q` (so `q` may be a shared tail).
* `Spine s v as c` — like `IsList` for a possibly improper list: final non-pair cell `c`.
* `Extends s s'` — `s'` has every heap cell, vector and string of `s` unchanged (it may have
  more): the frame condition of the non-mutating procedures.
* `Denotes s w v` — the reference `w` stands for the value `v` the caller passed: `v` itself when
  `v` is a reference, otherwise a cell holding the immediate `v` (`heap.put` boxes immediates).
Core Lean only.
-/
namespace Marwood.Store

/-- proper list: element references `as` -/
inductive IsList (s : Store) : VCell → List Nat → Prop
  | nil {v : VCell} : s.get v = .ok .nil → IsList s v []
  | cons {v : VCell} {a d : Nat} {as : List Nat} :
      s.get v = .ok (.pair a d) → IsList s (.ptr d) as → IsList s v (a :: as)

/-- possibly improper list: element references `as`, final non-pair cell `c` -/
inductive Spine (s : Store) : VCell → List Nat → VCell → Prop
  | done {v c : VCell} : s.get v = .ok c → c.isPair = false → Spine s v [] c
  | cons {v : VCell} {a d : Nat} {as : List Nat} {c : VCell} :
      s.get v = .ok (.pair a d) → Spine s (.ptr d) as c → Spine s v (a :: as) c

/-- a cdr-chain of cells `(address, car)` from `p` to the address `q` -/
inductive Chain (s : Store) : Nat → List (Nat × Nat) → Nat → Prop
  | nil {p : Nat} : Chain s p [] p
  | cons {p a d : Nat} {ls : List (Nat × Nat)} {q : Nat} :
      s.cells[p]? = some (.pair a d) → Chain s d ls q → Chain s p ((p, a) :: ls) q

/-- frame: everything that existed in `s` is unchanged in `s'` -/
structure Extends (s s' : Store) : Prop where
  cells : ∀ i, i < s.cells.length → s'.cells[i]? = s.cells[i]?
  vecs : ∀ i, i < s.vecs.length → s'.vecs[i]? = s.vecs[i]?
  strs : ∀ i, i < s.strs.length → s'.strs[i]? = s.strs[i]?

/-- `w` is the reference under which the value `v` was stored -/
def Denotes (s : Store) (w : Nat) (v : VCell) : Prop :=
  v = .ptr w ∨ (v.isPtr = false ∧ s.cells[w]? = some v)

/-- element-wise `Denotes`: the references `as` stand for the values `vs`, position by position -/
inductive DenotesAll (s : Store) : List Nat → List VCell → Prop
  | nil : DenotesAll s [] []
  | cons {w : Nat} {v : VCell} {as : List Nat} {vs : List VCell} :
      Denotes s w v → DenotesAll s as vs → DenotesAll s (w :: as) (v :: vs)

/-- the values `vs` denote the proper lists with element references `ass`, position by position -/
inductive AllLists (s : Store) : List VCell → List (List Nat) → Prop
  | nil : AllLists s [] []
  | cons {v : VCell} {as : List Nat} {vs : List VCell} {ass : List (List Nat)} :
      IsList s v as → AllLists s vs ass → AllLists s (v :: vs) (as :: ass)

/-- of the objects that existed in `s`, only the heap cell `p` differs in `s'` (which may have
    additional cells: `set-car!` boxes an immediate argument) -/
structure OnlyCell (s s' : Store) (p : Nat) : Prop where
  len : s.cells.length ≤ s'.cells.length
  cells : ∀ i, i < s.cells.length → i ≠ p → s'.cells[i]? = s.cells[i]?
  vecs : s'.vecs = s.vecs
  strs : s'.strs = s.strs

/-- only the vector `id` differs between `s` and `s'` -/
structure OnlyVec (s s' : Store) (id : Nat) : Prop where
  cells : s'.cells = s.cells
  len : s'.vecs.length = s.vecs.length
  vecs : ∀ i, i ≠ id → s'.vecs[i]? = s.vecs[i]?
  strs : s'.strs = s.strs

/-- only the string `id` differs between `s` and `s'` -/
structure OnlyStr (s s' : Store) (id : Nat) : Prop where
  cells : s'.cells = s.cells
  vecs : s'.vecs = s.vecs
  len : s'.strs.length = s.strs.length
  strs : ∀ i, i ≠ id → s'.strs[i]? = s.strs[i]?

/-- `v` is (a reference to) the vector with identity `id` and elements `xs` -/
def IsVec (s : Store) (v : VCell) (id : Nat) (xs : List VCell) : Prop :=
  s.get v = .ok (.vec id) ∧ s.vecs[id]? = some xs

/-- `v` is (a reference to) the string with identity `id` and contents `t` -/
def IsStr (s : Store) (v : VCell) (id : Nat) (t : Text) : Prop :=
  s.get v = .ok (.str id) ∧ s.strs[id]? = some t

/-- `v` is (a reference to) the exact non-negative integer `k` (a valid index) -/
def IsIndex (s : Store) (v : VCell) (k : Nat) : Prop :=
  s.get v = .ok (.num (k : Int)) ∧ k < usizeLimit

/-- `v` is a number that is not a valid index, or not a number at all -/
def NotIndex (s : Store) (v : VCell) : Prop :=
  ∃ c, s.get v = .ok c ∧ ∀ k : Nat, k < usizeLimit → c ≠ .num (k : Int)

/-- every cell of the chain was allocated at or after heap size `n0` -/
def FreshFrom (n0 : Nat) (ls : List (Nat × Nat)) : Prop := ∀ x ∈ ls, n0 ≤ x.1

/-- `t` is reached from `v` by `k` cdrs (the R7RS definition of `list-tail`) -/
inductive NthCdr (s : Store) : VCell → Nat → VCell → Prop
  | zero {v : VCell} : NthCdr s v 0 v
  | succ {v t : VCell} {a d k : Nat} : s.get v = .ok (.pair a d) → NthCdr s (.ptr d) k t →
      NthCdr s v (k + 1) t

/-- scalars on which `eq?`/`eqv?` are fully specified: booleans, characters, `()`, exact integers
    (symbols are references: see `eqv_symbol`) -/
def VCell.isKeyScalar : VCell → Bool
  | .bool _ | .char _ | .nil | .num _ => true
  | _ => false

/-- what the alist walk does at the entry reference `a`: `p a` is the outcome of the key test when
    the entry is a pair, `false` when it is not -/
def EntryTest (s : Store) (test : Store → VCell → VCell → Outcome Bool) (obj : VCell)
    (p : Nat → Bool) (a : Nat) : Prop :=
  ∃ c, s.cells[a]? = some c ∧
    match c with
    | .pair k _ => test s (.ptr k) obj = .ok (p a)
    | _ => p a = false

/-- the arguments `vs` are (references to) strings with contents `ts`, position by position -/
inductive AllStr (s : Store) : List VCell → List Text → Prop
  | nil : AllStr s [] []
  | cons {v : VCell} {id : Nat} {t : Text} {vs : List VCell} {ts : List Text} :
      IsStr s v id t → AllStr s vs ts → AllStr s (v :: vs) (t :: ts)

/-- the arguments `vs` are characters `cs`, position by position -/
inductive AllChar (s : Store) : List VCell → List Char → Prop
  | nil : AllChar s [] []
  | cons {v : VCell} {c : Char} {vs : List VCell} {cs : List Char} :
      s.get v = .ok (.char c) → AllChar s vs cs → AllChar s (v :: vs) (c :: cs)

/-- the heap cells at the addresses `as` hold the characters `cs`, position by position -/
inductive CharsAt (s : Store) : List Nat → List Char → Prop
  | nil : CharsAt s [] []
  | cons {a : Nat} {c : Char} {as : List Nat} {cs : List Char} :
      s.cells[a]? = some (.char c) → CharsAt s as cs → CharsAt s (a :: as) (c :: cs)

end Marwood.Store
