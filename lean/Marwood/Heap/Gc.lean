import Marwood.Heap.Heap
import Marwood.Heap.Worklist
/-!
# The collector (`vm/heap.rs:328-511`, `vm/run.rs:482-508`)

`mark`: `Heap::mark(root)` for each address of a list, in order. A cell in state `Free` that is
reached **is marked `Used`** (the Rust code tests only `is_marked`) — this is the mechanism of the
double-free defect and is kept.
`sweep`: one pass over all indices: `Allocated → free(i)`, `Used → Allocated`.
`runGc`: utilisation test (or forced), root enumeration, sweep, growth.
-/
namespace Marwood.Heap
open Marwood

namespace Heap

/-- children of heap address `x` as `Heap::mark` sees them -/
def children (fixed : Bool) (h : Heap) (x : Nat) : List Nat :=
  match h.cells[x]? with
  | some c => crefs fixed c
  | none => []

def isUsed : GcState → Bool
  | .used => true
  | _ => false

/-- total number of references in the heap: with the number of roots, the fuel that always suffices -/
def totalRefs (fixed : Bool) (h : Heap) : Nat :=
  ((List.range h.gc.size).map fun x => (children fixed h x).length).sum

def markFuel (fixed : Bool) (h : Heap) (roots : List Nat) : Nat := roots.length + totalRefs fixed h + 1

/-- `Heap::mark` applied to each root in turn -/
def mark (fixed : Bool) (h : Heap) (roots : List Nat) : Option Heap :=
  (markLoop isUsed GcState.used (children fixed h) (markFuel fixed h roots) roots h.gc).map
    fun g => { h with gc := g }

/-- one iteration of the `for it in 0..self.heap.len()` loop of `Heap::sweep` -/
def sweepStep (h : Heap) (i : Nat) : Res Heap :=
  match h.gc[i]? with
  | some .allocated => h.free' i
  | some .used => h.setState i .allocated
  | _ => .ok h

def sweepFrom (h : Heap) : List Nat → Res Heap
  | [] => .ok h
  | i :: is => do
    let h' ← sweepStep h i
    sweepFrom h' is

/-- `Heap::sweep` (the bound `self.heap.len()` is evaluated once, before the loop) -/
def sweep (h : Heap) : Res Heap := sweepFrom h (List.range h.cells.size)

end Heap

/-- what `Vm::run_gc` reads from the machine -/
structure Roots where
  globalSyms : List Nat      -- keys of `globenv.bindings` (symbol cells)
  globalSlots : List VCell   -- `globenv.slots`
  stack : List VCell         -- `stack[0..=sp]`
  acc : VCell
  ipLam : Nat                -- `ip.0`
  ep : Nat
  deriving Repr, Inhabited

def VCell.asPtr? : VCell → Option Nat
  | .ptr p => some p
  | _ => none

/-- the sequence of `mark` calls made by `run_gc`, flattened -/
def Roots.refs (fixed : Bool) (r : Roots) : List Nat :=
  r.globalSyms ++ r.globalSlots.filterMap VCell.asPtr? ++ vrefsList fixed r.stack ++ vrefs fixed r.acc
    ++ [r.ipLam, r.ep]

namespace Heap

/-- `used/capacity ≥ 0.75` (exact for capacities below 2^52, see the file header of Heap.lean) -/
def utilAtLeast34 (used cap : Nat) : Bool := 3 * cap ≤ 4 * used
def utilAbove34 (used cap : Nat) : Bool := 3 * cap < 4 * used

inductive GcResult
  | skipped (h : Heap)
  | collected (h : Heap)
  | fuelExhausted

/-- `Vm::run_gc`; `force` is the verification hook that bypasses the utilisation test.
(`0/0` is NaN in Rust, `NaN < 0.75` is false, so an empty heap collects: same as `3·0 ≤ 4·0`.) -/
def runGc (fixed : Bool) (force : Bool) (h : Heap) (r : Roots) : Res GcResult := do
  let used ← h.usedSize
  if !force && !utilAtLeast34 used h.capacity then return .skipped h
  match h.mark fixed (r.refs fixed) with
  | none => return .fuelExhausted
  | some h1 =>
    let h2 ← h1.sweep
    let used2 ← h2.usedSize
    if utilAbove34 used2 h2.capacity then
      let h3 ← h2.grow
      return .collected h3
    else return .collected h2

end Heap
end Marwood.Heap
