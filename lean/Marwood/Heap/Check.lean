import Marwood.Spec.Reach
/-!
# Executable well-formedness check of a heap snapshot (run on every snapshot the harness ships)

`wfCheck` returns the name of the first violated clause of `WFHeap`/`Interned`/`PtrClosed`/`RootsOk`
(`Lemmas/HeapWF`) or of the kind discipline `Plain` under which the marker's child function and the
semantic references agree. `none` = all hold.
-/
namespace Marwood.Heap.Check
open Marwood Marwood.Heap Marwood.Spec

def sameMembers (a b : List Nat) : Bool := a.all (b.contains ·) && b.all (a.contains ·)

/-- how often each address occurs on the free list (`none` when an entry is out of range) -/
def freeCounts (n : Nat) (fl : List Nat) : Option (Array Nat) :=
  fl.foldlM (fun (a : Array Nat) p => if p < a.size then some (a.modify p (· + 1)) else none)
    (Array.replicate n 0)

def isFree (h : Heap) (i : Nat) : Bool := h.gc[i]? == some GcState.free

def wfCheck (fixed : Bool) (h : Heap) (r : Roots) : Option String :=
  let n := h.cells.size
  let idx := List.range n
  if h.gc.size ≠ n then some "sizes" else
  if idx.any (fun i => h.gc[i]? == some GcState.used) then some "used-outside-gc" else
  match freeCounts n h.free with
  | none => some "free-list-out-of-range"
  | some cnt =>
  if idx.any (fun i => cnt[i]? != some (if isFree h i then 1 else 0)) then some "free-list-vs-states" else
  if idx.any (fun i => isFree h i && !(h.cells[i]?.map VCell.isUndefined).getD false) then some "free-cell-not-undefined" else
  -- symbol table
  if h.symtab.any (fun (name, a) =>
      isFree h a || !(match h.cells[a]? with | some (.symbol m) => m == name | _ => false)) then
    some "symtab-entry-not-a-live-symbol" else
  if idx.any (fun i => !isFree h i && (match h.cells[i]? with
      | some (.symbol m) => h.symLookup m != some i
      | _ => false)) then some "live-symbol-not-in-symtab" else
  if !(h.symtab.map (·.1)).Nodup then some "symtab-duplicate-key" else
  -- pointers
  if idx.any (fun i => !isFree h i && (h.children fixed i).any (fun y => y < n && isFree h y)) then
    some "allocated-cell-points-to-free-cell" else
  if (r.refs fixed).any (fun y => y < n && isFree h y) then some "root-points-to-free-cell" else
  -- kind discipline: marker edges = semantic edges
  if idx.any (fun i => !isFree h i && !sameMembers (h.children fixed i) (schildren h i)) then
    some "marker-edges-differ-from-semantic-edges" else
  if !sameMembers (r.refs fixed) (sroots r) then some "marker-roots-differ-from-semantic-roots" else
  none

end Marwood.Heap.Check
