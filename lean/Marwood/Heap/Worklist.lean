/-!
# Depth-first marking over an array of per-node states

`markLoop isM m children fuel work a` pops addresses from `work`; an address that is out of range or
whose state satisfies `isM` is dropped; otherwise its state becomes `m` and its children are pushed in
front of the rest (so the visiting order is exactly that of the recursive `Heap::mark`: the whole
subgraph under the first child before the second). `none` = fuel exhausted (never, with
`Lemmas/HeapFuel`: the bound is `|work| + Σ |children|`).

Used twice: by the collector model (`α = GcState`, marked = `used`) and by the reachability
specification (`α = Bool`).
-/
namespace Marwood.Heap

def markLoop {α : Type} (isM : α → Bool) (m : α) (children : Nat → List Nat) :
    Nat → List Nat → Array α → Option (Array α)
  | _, [], a => some a
  | 0, _ :: _, _ => none
  | f+1, x :: w, a =>
    match a[x]? with
    | none => markLoop isM m children f w a
    | some s =>
      if isM s then markLoop isM m children f w a
      else markLoop isM m children f (children x ++ w) (a.setIfInBounds x m)

end Marwood.Heap
