import Marwood.Text
/-!
# Heap cells as the collector sees them (`vm/vcell.rs`, `vm/heap.rs:335-487`)

A `VCell` is rendered by what marking needs: its kind and the heap addresses it mentions.
`Rc` payloads (lexical environments, vectors, lambdas, continuations) are rendered by their
contents, nested to any depth (a vector may sit inline in bytecode, a continuation's stack holds
arbitrary cells). Scalars carry no payload; a symbol carries its name (the sweeper edits the
symbol table by name).

Two families of reference functions mirror the two entry points of the marker:

* `crefs`  — what `Heap::mark` does with the *content of a heap cell* (the big `match` in its loop);
* `vrefs`  — what `Heap::mark_vcell` does with an *inline value* (stack slot, environment slot,
  vector element, bytecode cell, register).

Both return the addresses handed to `mark`, in call order. They differ (faithfully): a heap cell
holding `LexicalEnvPtr`/`InstructionPointer` contributes nothing in `mark` but its target in
`mark_vcell`; an inline `LexicalEnv` contributes nothing in `mark_vcell`.

The flag `fixed` selects `mark_lambda` after commit "fix: mark_lambda no longer treats JMP/JNT
operands …" (`true`) or the pinned behaviour (`false`: every bytecode cell goes to `mark_vcell`, so a
jump offset `Ptr n` is marked as heap address `n`).
-/
namespace Marwood.Heap
open Marwood

/-- `vm/opcode.rs` `OpCode`, in declaration order. -/
inductive Op
  | cons | jmp | jnt | mov | movImmediate | push | pushAcc | pushImmediate | halt | vpushAcc
  | callAcc | closureAcc | enter | ret | tcallAcc | varArg
  deriving DecidableEq, Repr, Inhabited

def Op.isJump : Op → Bool
  | .jmp | .jnt => true
  | _ => false

/-- number of operand cells that follow the opcode in the bytecode (`opcode.rs` schema; `Acc`
operands are implicit) -/
def Op.arity : Op → Nat
  | .jmp | .jnt | .push | .pushImmediate => 1
  | .mov | .movImmediate => 2
  | _ => 0

def Op.ofNat? : Nat → Option Op
  | 0 => some .cons | 1 => some .jmp | 2 => some .jnt | 3 => some .mov | 4 => some .movImmediate
  | 5 => some .push | 6 => some .pushAcc | 7 => some .pushImmediate | 8 => some .halt
  | 9 => some .vpushAcc | 10 => some .callAcc | 11 => some .closureAcc | 12 => some .enter
  | 13 => some .ret | 14 => some .tcallAcc | 15 => some .varArg | _ => none

def Op.toNat : Op → Nat
  | .cons => 0 | .jmp => 1 | .jnt => 2 | .mov => 3 | .movImmediate => 4 | .push => 5
  | .pushAcc => 6 | .pushImmediate => 7 | .halt => 8 | .vpushAcc => 9 | .callAcc => 10
  | .closureAcc => 11 | .enter => 12 | .ret => 13 | .tcallAcc => 14 | .varArg => 15

/-- cell kinds that mention no heap address and that the collector never looks into -/
inductive Atom
  | undefined | void | nil | bool | char | number | string | acc | argc | basePtr | bpOffset
  | builtin | globSlot | lexSlot | macro_
  deriving DecidableEq, Repr, Inhabited

inductive VCell
  | atom (a : Atom)
  | opcode (o : Op)
  | symbol (name : Text)
  | pair (car cdr : Nat)
  | ptr (p : Nat)
  | closure (lam env : Nat)
  | envPtr (p : Nat)                      -- `EnvironmentPointer`
  | lexEnvPtr (env slot : Nat)
  | ip (lam off : Nat)                    -- `InstructionPointer`
  | lexEnv (slots : List VCell)
  | vector (elems : List VCell)
  | lambda (bc args envmap : List VCell)  -- envmap: the symbol of each entry
  | cont (stack : List VCell) (ipLam ep : Nat)
  deriving Repr, Inhabited

abbrev VCell.undefined : VCell := .atom .undefined

def VCell.isUndefined : VCell → Bool
  | .atom .undefined => true
  | _ => false

def VCell.isJumpOp : VCell → Bool
  | .opcode o => o.isJump
  | _ => false

mutual
/-- `Heap::mark_vcell`: addresses passed to `mark`, in order -/
def vrefs (fixed : Bool) : VCell → List Nat
  | .ip l _ => [l]
  | .cont stk l e => vrefsList fixed stk ++ [l, e]
  | .lambda bc args em =>
      (if fixed then bcRefs fixed false bc else vrefsList fixed bc)
        ++ vrefsList fixed args ++ vrefsList fixed em
  | .closure l e => [l, e]
  | .pair a d => [a, d]
  | .ptr p => [p]
  | .lexEnvPtr p _ => [p]
  | .vector es => vrefsList fixed es
  | .envPtr p => [p]
  | .atom _ | .opcode _ | .symbol _ | .lexEnv _ => []
def vrefsList (fixed : Bool) : List VCell → List Nat
  | [] => []
  | c :: cs => vrefs fixed c ++ vrefsList fixed cs
/-- the bytecode loop of the repaired `mark_lambda`: `skip` = the previous cell was `JMP`/`JNT` -/
def bcRefs (fixed : Bool) (skip : Bool) : List VCell → List Nat
  | [] => []
  | c :: cs =>
    if skip then bcRefs fixed false cs
    else if c.isJumpOp then bcRefs fixed true cs
    else vrefs fixed c ++ bcRefs fixed false cs
end

/-- `Heap::mark_lambda` -/
def lambdaRefs (fixed : Bool) (bc args em : List VCell) : List Nat :=
  (if fixed then bcRefs fixed false bc else vrefsList fixed bc)
    ++ vrefsList fixed args ++ vrefsList fixed em

/-- `Heap::mark_continuation` -/
def contRefs (fixed : Bool) (stk : List VCell) (l e : Nat) : List Nat :=
  vrefsList fixed stk ++ [l, e]

/-- the `match vcell` inside the loop of `Heap::mark`: addresses visited next, in order -/
def crefs (fixed : Bool) : VCell → List Nat
  | .pair a d => [a, d]
  | .ptr p => [p]
  | .cont stk l e => contRefs fixed stk l e
  | .lambda bc args em => lambdaRefs fixed bc args em
  | .closure l e => [l, e]
  | .lexEnv slots => vrefsList fixed slots
  | .vector es => vrefsList fixed es
  | .envPtr p => [p]
  | .atom _ | .opcode _ | .symbol _ | .lexEnvPtr _ _ | .ip _ _ => []

end Marwood.Heap
