import Marwood.Heap.Gc
/-!
# Heap invariants (statements only; proofs in `Lemmas/Heap*.lean`, `Lemmas/Gc*.lean`)

`WFHeap` is the invariant of `heap.rs` between collections; `WFCore` is the part that also holds
while marks (`Used`) are present. `Interned` is the C18 invariant; it is phrased with the table
*lookup* (what `HashMap::get` returns), so uniqueness of the cell of a name is a consequence.
-/
namespace Marwood.Heap

/-- cell `i` exists and is not in state `Free` -/
def Heap.NonFree (h : Heap) (i : Nat) : Prop :=
  h.gc[i]? = some GcState.allocated ∨ h.gc[i]? = some GcState.used

/-- cell `i` is allocated and holds `Symbol name` -/
def Heap.AllocSym (h : Heap) (i : Nat) (name : Text) : Prop :=
  h.cells[i]? = some (VCell.symbol name) ∧ h.NonFree i

/-- the symbol table maps `name` to `i` iff cell `i` is allocated and holds `Symbol name` -/
def Interned (h : Heap) : Prop := ∀ name i, h.symLookup name = some i ↔ h.AllocSym i name

/-- an address no heap can reach (`usize::MAX` is what `ep`/`ip.0` hold before the first call) -/
def Sentinel (y : Nat) : Prop := 2 ^ 63 ≤ y

/-- allocated cells refer only to allocated cells (or to a sentinel) -/
def PtrClosed (fixed : Bool) (h : Heap) : Prop :=
  ∀ i, h.NonFree i → ∀ y ∈ h.children fixed i, h.NonFree y ∨ Sentinel y

def RootsOk (h : Heap) (refs : List Nat) : Prop := ∀ y ∈ refs, h.NonFree y ∨ Sentinel y

structure WFCore (fixed : Bool) (h : Heap) : Prop where
  sizes : h.gc.size = h.cells.size
  /-- the heap is a positive number of chunks, the chunk size a positive multiple of 4 -/
  shape : 0 < h.chunk ∧ h.chunk % 4 = 0 ∧ ∃ k, 0 < k ∧ h.cells.size = k * h.chunk
  bound : h.cells.size ≤ 2 ^ 63
  free_iff : ∀ i : Nat, i ∈ h.free ↔ h.gc[i]? = some GcState.free
  nodup : h.free.Nodup
  free_undef : ∀ i : Nat, h.gc[i]? = some GcState.free → h.cells[i]? = some VCell.undefined
  interned : Interned h
  closed : PtrClosed fixed h

structure WFHeap (fixed : Bool) (h : Heap) : Prop extends WFCore fixed h where
  no_used : ∀ i : Nat, h.gc[i]? ≠ some GcState.used

end Marwood.Heap
