import Marwood.Heap.Cell
/-!
# The heap (`vm/heap.rs:14-143`, `vm/gc.rs`)

`cells` is `heap: Vec<VCell>`, `gc` is the 2-bit `gc::Map` as an array of states (`Map::get` is
`gc[i]?` because the map size is a multiple of 4 and equals the heap size), `free` is
`free_list: Vec<usize>` **with the head of the list = the last element of the Vec** (`push` = cons,
`pop` = head), `symtab` is the `HashMap<String, usize>` as an association list (keys unique by
construction of `insert`), `chunk` is `chunk_size`.

Every operation that can panic in Rust returns `Except.error site`.
Numeric facts used: `((n as f64) * 1.5).ceil()` is `⌈3n/2⌉ = (3n+1)/2` exactly for `n < 2^51`.
-/
namespace Marwood.Heap
open Marwood

inductive GcState
  | free | allocated | used
  deriving DecidableEq, Repr, Inhabited

structure Heap where
  chunk : Nat
  cells : Array VCell
  gc : Array GcState
  free : List Nat
  symtab : List (Text × Nat)
  deriving Repr, Inhabited

abbrev Res := Except String

namespace Heap

def capacity (h : Heap) : Nat := h.cells.size
def freeSize (h : Heap) : Nat := h.free.length

/-- `used_size`: `capacity() - free_size()` is a `usize` subtraction (panics in a debug build when
the free list is longer than the heap, which the double-free defect could cause) -/
def usedSize (h : Heap) : Res Nat :=
  if h.freeSize ≤ h.capacity then .ok (h.capacity - h.freeSize) else .error "used_size: subtract with overflow"

/-- `Heap::new`: `gc::Map::new` asserts `size % 4 == 0` -/
def new (chunk : Nat) : Res Heap :=
  if chunk % 4 ≠ 0 then .error "gc::Map::new: size % 4" else
  .ok { chunk := chunk
        cells := Array.replicate chunk VCell.undefined
        gc := Array.replicate chunk GcState.free
        free := List.range chunk
        symtab := [] }

/-- `⌈1.5 · (current / chunk)⌉ · chunk` -/
def grownSize (chunk current : Nat) : Nat := ((3 * (current / chunk) + 1) / 2) * chunk

/-- `Heap::grow` (division by `chunk_size = 0` panics; a size that is not a multiple of 4 trips the
assertion in `Map::resize`; `Vec::resize` to a smaller size truncates) -/
def grow (h : Heap) : Res Heap :=
  if h.chunk = 0 then .error "grow: division by zero" else
  let cur := h.cells.size
  let new := grownSize h.chunk cur
  if new % 4 ≠ 0 then .error "gc::Map::resize: size % 4" else
  .ok { h with
        cells := if cur ≤ new then h.cells ++ Array.replicate (new - cur) VCell.undefined
                 else h.cells.extract 0 new
        gc := if h.gc.size ≤ new then h.gc ++ Array.replicate (new - h.gc.size) GcState.free
              else h.gc.extract 0 new
        free := (List.range' cur (new - cur)).reverse ++ h.free }

/-- `heap_map.set(ptr, state)` -/
def setState (h : Heap) (p : Nat) (s : GcState) : Res Heap :=
  if p < h.gc.size then .ok { h with gc := h.gc.setIfInBounds p s } else .error "gc::Map::set: invalid gc index"

/-- `Heap::alloc`. After a successful `grow` of a non-empty heap the free list is non-empty, so the
recursive call pops; if it is still empty the Rust code recurses forever (reported as an error). -/
def alloc (h : Heap) : Res (Heap × Nat) :=
  match h.free with
  | p :: rest => do
    let h' ← setState { h with free := rest } p .allocated
    pure (h', p)
  | [] => do
    let g ← grow h
    match g.free with
    | p :: rest => do
      let h' ← setState { g with free := rest } p .allocated
      pure (h', p)
    | [] => .error "alloc: grow produced no free cell (unbounded recursion)"

def symLookup (h : Heap) (name : Text) : Option Nat := (h.symtab.find? (·.1 = name)).map (·.2)

/-- `HashMap::insert` -/
def symInsert (tab : List (Text × Nat)) (name : Text) (p : Nat) : List (Text × Nat) :=
  (name, p) :: tab.filter (·.1 ≠ name)

/-- `HashMap::remove` -/
def symRemove (tab : List (Text × Nat)) (name : Text) : List (Text × Nat) :=
  tab.filter (·.1 ≠ name)

/-- `*self.heap.get_mut(ptr).expect(..) = vcell` -/
def write (h : Heap) (p : Nat) (c : VCell) : Res Heap :=
  if p < h.cells.size then .ok { h with cells := h.cells.setIfInBounds p c } else .error "heap index is out of bounds"

/-- `if let Some(VCell::Symbol(sym)) = self.heap.get(ptr) { self.symbol_table.remove(sym) }` -/
def freeTab (cells : Array VCell) (tab : List (Text × Nat)) (p : Nat) : List (Text × Nat) :=
  match cells[p]? with
  | some (.symbol name) => symRemove tab name
  | _ => tab

/-- `Heap::free` -/
def free' (h : Heap) (p : Nat) : Res Heap := do
  let h1 ← setState h p .free
  let tab := freeTab h1.cells h1.symtab p
  if p < h1.cells.size then
    .ok { h1 with symtab := tab, cells := h1.cells.setIfInBounds p VCell.undefined, free := p :: h1.free }
  else .error "free: get_mut(ptr).unwrap()"

/-- the part of `put`/`maybe_put` that allocates -/
def putNew (h : Heap) (c : VCell) : Res (Heap × VCell) :=
  match c with
  | .symbol name =>
    match h.symLookup name with
    | some p => .ok (h, .ptr p)
    | none => do
      let (h1, p) ← alloc h
      let h2 ← write h1 p c
      pure ({ h2 with symtab := symInsert h2.symtab name p }, .ptr p)
  | c => do
    let (h1, p) ← alloc h
    let h2 ← write h1 p c
    pure (h2, .ptr p)

/-- `Heap::put` -/
def put (h : Heap) (c : VCell) : Res (Heap × VCell) :=
  match c with
  | .ptr _ => .ok (h, c)
  | c => putNew h c

/-- which scalars `maybe_put` returns unboxed (`Number Bool Char Nil Void Undefined`) -/
def Atom.immediate : Atom → Bool
  | .number | .bool | .char | .nil | .void | .undefined => true
  | _ => false

/-- `Heap::maybe_put` -/
def maybePut (h : Heap) (c : VCell) : Res (Heap × VCell) :=
  match c with
  | .ptr _ => .ok (h, c)
  | .atom a => if Atom.immediate a then .ok (h, c) else putNew h c
  | c => putNew h c

end Heap
end Marwood.Heap
