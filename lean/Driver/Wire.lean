import Marwood.Text
import Marwood.Datum
/-!
Wire helpers for the line protocol. Text travels as comma-separated decimal code points
(`-` for the empty text) so that no escaping is needed.
-/
namespace Marwood.Wire
open Marwood

def decText (s : String) : Option Text :=
  if s == "-" then some [] else
  (s.splitOn ",").mapM fun w =>
    match w.toNat? with
    | some n => if h : n.isValidChar then some (Char.ofNatAux n h) else none
    | none => none

def encText (cs : Text) : String :=
  if cs.isEmpty then "-" else ",".intercalate (cs.map fun c => toString c.toNat)


/-! ## Datum codec: space-separated prefix tokens
`b0 b1 c<cp> nil fix:<int> big:<int> rat:<n>/<d> flo:<16 hex> pair <a> <d> str:<text> sym:<text>
 vec<k> e1 … ek cont macro proc:<text> proc undef void` -/

def hexDigit (n : Nat) : Char := if n < 10 then Char.ofNat (48 + n) else Char.ofNat (87 + n)

def toHex16 (n : Nat) : String :=
  String.ofList ((List.range 16).reverse.map fun i => hexDigit ((n >>> (4*i)) % 16))

def hexVal (c : Char) : Option Nat :=
  if '0' ≤ c ∧ c ≤ '9' then some (c.toNat - 48)
  else if 'a' ≤ c ∧ c ≤ 'f' then some (c.toNat - 87)
  else if 'A' ≤ c ∧ c ≤ 'F' then some (c.toNat - 55)
  else none

def parseHex (s : String) : Option Nat :=
  if s.isEmpty then none else s.toList.foldlM (fun acc c => (hexVal c).map (acc * 16 + ·)) 0

def encNum : Num → String
  | .fix n => s!"fix:{n}"
  | .big n => s!"big:{n}"
  | .rat n d => s!"rat:{n}/{d}"
  | .flo f => "flo:" ++ toHex16 f.bits

def decNum (w : String) : Option Num :=
  if w.startsWith "fix:" then (w.drop 4).toString.toInt?.map .fix
  else if w.startsWith "big:" then (w.drop 4).toString.toInt?.map .big
  else if w.startsWith "rat:" then
    match (w.drop 4).toString.splitOn "/" with
    | [a, b] => do let n ← a.toInt?; let d ← b.toInt?; pure (.rat n d)
    | _ => none
  else if w.startsWith "flo:" then (parseHex (w.drop 4).toString).map fun b => .flo ⟨b⟩
  else none

partial def encDatum : Datum → String
  | .bool true => "b1"
  | .bool false => "b0"
  | .char c => s!"c{c.toNat}"
  | .nil => "nil"
  | .num n => encNum n
  | .pair a d => "pair " ++ encDatum a ++ " " ++ encDatum d
  | .str s => "str:" ++ encText s
  | .sym s => "sym:" ++ encText s
  | .vec e =>
    let xs := e.listElems
    s!"vec{xs.length}" ++ String.join (xs.map fun x => " " ++ encDatum x)
  | .continuation => "cont"
  | .macro_ => "macro"
  | .procedure (some d) => "proc:" ++ encText d
  | .procedure none => "proc"
  | .undefined => "undef"
  | .void => "void"

/-- decode one datum from the front of a token list -/
partial def decDatum : List String → Option (Datum × List String)
  | [] => none
  | w :: ws =>
    if w == "b1" then some (.bool true, ws)
    else if w == "b0" then some (.bool false, ws)
    else if w == "nil" then some (.nil, ws)
    else if w == "cont" then some (.continuation, ws)
    else if w == "macro" then some (.macro_, ws)
    else if w == "proc" then some (.procedure none, ws)
    else if w == "undef" then some (.undefined, ws)
    else if w == "void" then some (.void, ws)
    else if w == "pair" then do
      let (a, ws) ← decDatum ws
      let (d, ws) ← decDatum ws
      pure (.pair a d, ws)
    else if w.startsWith "str:" then (decText (w.drop 4).toString).map fun t => (.str t, ws)
    else if w.startsWith "sym:" then (decText (w.drop 4).toString).map fun t => (.sym t, ws)
    else if w.startsWith "proc:" then (decText (w.drop 5).toString).map fun t => (.procedure (some t), ws)
    else if w.startsWith "vec" then do
      let k ← (w.drop 3).toString.toNat?
      let rec go (k : Nat) (ws : List String) (acc : List Datum) : Option (List Datum × List String) :=
        match k with
        | 0 => some (acc.reverse, ws)
        | k+1 => do let (x, ws) ← decDatum ws; go k ws (x :: acc)
      let (xs, ws) ← go k ws []
      pure (Datum.vecOfList xs, ws)
    else if w.startsWith "c" then do
      let n ← (w.drop 1).toString.toNat?
      if h : n.isValidChar then pure (.char (Char.ofNatAux n h), ws) else none
    else (decNum w).map fun n => (.num n, ws)

end Marwood.Wire
