import Marwood.Text
/-!
Wire helpers for the line protocol. Text travels as comma-separated decimal code points
(`-` for the empty text) so that no escaping is needed.
-/
namespace Marwood.Wire
open Marwood

def decText (s : String) : Option Text :=
  if s == "-" then some [] else
  (s.splitOn ",").mapM fun w =>
    match w.toNat? with
    | some n => if h : n.isValidChar then some (Char.ofNatAux n h) else none
    | none => none

def encText (cs : Text) : String :=
  if cs.isEmpty then "-" else ",".intercalate (cs.map fun c => toString c.toNat)

end Marwood.Wire
