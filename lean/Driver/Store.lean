import Driver.Wire
/-! Driver commands of the Store area (filled in by the area's owner). -/
namespace Marwood.Driver.Store

def handle (_cmd : String) (_args : List String) : Option String := none

end Marwood.Driver.Store
