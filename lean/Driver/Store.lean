import Driver.Wire
import Marwood.Store.Prelude
import Marwood.Store.CharOps
import Marwood.Spec.Store
import Marwood.Spec.StrVec
/-!
Driver commands of the Store area.

`c14 <op>…` runs an operation sequence through the model store (`Marwood.Store`), `c14s <op>…`
through the reference store (`Marwood.Spec`). An op token is `proc,arg,…,arg`; op number `k` stands
for the Scheme form `(define p<k> (proc arg …))`. Arguments: `p<j>` (pool variable), `i<int>`,
`y<text>` (quoted symbol), `t` `f` `n` (`'()`), `c<codepoint>`, `b<name>` (a builtin procedure).
The answer lists, for every step, the outcome and the rendering of all pool variables defined so
far as one graph with sharing labels (`#k` assigned in order of first visit), so two stores that
differ by a renaming of addresses render equally and aliasing is visible.
After `map`/`for-each` fails, or after a panic, the sequence stops (effects of a half-executed
library procedure are not compared).
-/
namespace Marwood.Driver.Store
open Marwood Marwood.Wire Marwood.Store Marwood.Spec

/-! ## rendering -/

inductive Node (V : Type)
  | atom (s : String)
  | pair (key : Option Nat) (car cdr : V)
  | vec (key : Option Nat) (elems : List V)
  | str (key : Option Nat) (t : Text)

structure RSt where
  seen : List (String × Nat) := []
  next : Nat := 0
  out : String := ""

def emit (x : String) : StateM RSt Unit := modify fun st => { st with out := st.out ++ x }

/-- label of an identified node: `(label, first visit?)` -/
def labelOf (kind : String) (key : Option Nat) : StateM RSt (Nat × Bool) := do
  let st ← get
  match key with
  | some k =>
    let name := kind ++ toString k
    match st.seen.lookup name with
    | some l => pure (l, false)
    | none =>
      set { st with seen := (name, st.next) :: st.seen, next := st.next + 1 }
      pure (st.next, true)
  | none =>
    set { st with next := st.next + 1 }
    pure (st.next, true)

partial def renderV {V : Type} (cls : V → Node V) (v : V) : StateM RSt Unit := do
  match cls v with
  | .atom a => emit a
  | .pair key a d =>
    let (l, fresh) ← labelOf "p" key
    if fresh then
      emit s!"(#{l} "; renderV cls a; emit " "; renderV cls d; emit ")"
    else emit s!"#{l}"
  | .vec key xs =>
    let (l, fresh) ← labelOf "v" key
    if fresh then
      emit s!"[#{l}"
      for x in xs do
        emit " "; renderV cls x
      emit "]"
    else emit s!"#{l}"
  | .str key t =>
    let (l, fresh) ← labelOf "s" key
    if fresh then emit ("{#" ++ toString l ++ " " ++ encText t ++ "}") else emit s!"#{l}"

def renderRoots {V : Type} (cls : V → Node V) (roots : List (Option V)) : String :=
  let act : StateM RSt Unit := do
    let mut first := true
    for r in roots do
      if !first then emit " "
      first := false
      match r with
      | some v => renderV cls v
      | none => emit "!"
  (act.run {}).2.out

def atomOfScalar (name : String) : String := name

def clsModel (s : Store) (v : VCell) : Node VCell :=
  let imm (c : VCell) : Node VCell :=
    match c with
    | .bool true => .atom "t"
    | .bool false => .atom "f"
    | .char c => .atom s!"c{c.toNat}"
    | .nil => .atom "n"
    | .num n => .atom s!"i{n}"
    | .sym t => .atom ("y" ++ encText t)
    | .void => .atom "v"
    | .undef => .atom "u"
    | .builtin n => .atom ("b" ++ n)
    | .pair a d => .pair none (.ptr a) (.ptr d)      -- a pair value without a cell: no identity
    | .vec id => match s.vecs[id]? with
      | some xs => .vec (some id) xs
      | none => .atom "DANGLING"
    | .str id => match s.strs[id]? with
      | some t => .str (some id) t
      | none => .atom "DANGLING"
    | .ptr _ => .atom "PTR-IN-CELL"
  match v with
  | .ptr a => match s.cells[a]? with
    | some (.pair x y) => .pair (some a) (.ptr x) (.ptr y)
    | some c => imm c
    | none => .atom "DANGLING"
  | c => imm c

def clsSpec (st : RStore) (v : RVal) : Node RVal :=
  match v with
  | .bool true => .atom "t"
  | .bool false => .atom "f"
  | .char c => .atom s!"c{c.toNat}"
  | .nil => .atom "n"
  | .num n => .atom s!"i{n}"
  | .sym t => .atom ("y" ++ encText t)
  | .void => .atom "v"
  | .undef => .atom "u"
  | .builtin n => .atom ("b" ++ n)
  | .pair l => match st.pairs[l]? with
    | some (a, d) => .pair (some l) a d
    | none => .atom "DANGLING"
  | .vec l => match st.vecs[l]? with
    | some xs => .vec (some l) xs
    | none => .atom "DANGLING"
  | .str l => match st.strs[l]? with
    | some t => .str (some l) t
    | none => .atom "DANGLING"

/-! ## machines -/

structure Machine (S V : Type) where
  /-- literal token → value (may intern a symbol) -/
  lit : S → String → Option (S × V)
  /-- `none`: unknown operation -/
  run : S → String → List V → Option (Outcome (S × V))
  cls : S → V → Node V

def parseInt (w : String) : Option Int := w.toInt?

def litModel (s : Store) (w : String) : Option (Store × VCell) :=
  if w == "t" then some (s, .bool true)
  else if w == "f" then some (s, .bool false)
  else if w == "n" then some (s, .nil)
  else if w.startsWith "i" then (parseInt (w.drop 1).toString).map fun n => (s, .num n)
  else if w.startsWith "y" then (decText (w.drop 1).toString).map fun t => s.put (.sym t)
  else if w.startsWith "c" then do
    let n ← (w.drop 1).toString.toNat?
    if h : n.isValidChar then some (s, .char (Char.ofNatAux n h)) else none
  else if w.startsWith "b" then some (s, .builtin (w.drop 1).toString)
  else none

def litSpec (st : RStore) (w : String) : Option (RStore × RVal) :=
  if w == "t" then some (st, .bool true)
  else if w == "f" then some (st, .bool false)
  else if w == "n" then some (st, .nil)
  else if w.startsWith "i" then (parseInt (w.drop 1).toString).map fun n => (st, .num n)
  else if w.startsWith "y" then (decText (w.drop 1).toString).map fun t => (st, .sym t)
  else if w.startsWith "c" then do
    let n ← (w.drop 1).toString.toNat?
    if h : n.isValidChar then some (st, .char (Char.ofNatAux n h)) else none
  else if w.startsWith "b" then some (st, .builtin (w.drop 1).toString)
  else none

/-- fuel handed to every model loop: more than any acyclic structure in the store can use -/
def fuelOf (s : Store) : Nat :=
  2 * s.cells.length + s.vecs.length + (s.vecs.foldl (fun n v => n + v.length) 0) + 16

/-- lift a value-returning prelude function to a `Res` -/
def liftV (s : Store) (r : Outcome VCell) : Res := do .ok (s, ← r)

/-- builtins that can be the callee of `map` / `for-each` (and the plain operations) -/
def cmpOps : List (String × CmpOp) :=
  [("=?", .eq), ("<?", .lt), (">?", .gt), ("<=?", .le), (">=?", .ge)]

/-- `tableOf` below maps a character that has no oracle entry to U+FFFD followed by itself (no image of
    `char::to_lowercase` looks like that) -/
def missingEntry (T : CaseTable) (c : Char) : Bool := T.lower c == [Char.ofNat 0xFFFD, c]

/-- `string-downcase` = `str::to_lowercase` (`strLowerCtx`, Final_Sigma rule). The context bits of a
    character without an oracle entry are unknown: then the per-character images are returned, which
    show U+FFFD at that character - a visible disagreement, never a silent default. -/
def downcaseChecked (T : CaseTable) (t : Text) : Text :=
  if t.any (missingEntry T) then strLower T t else strLowerCtx T t

def runModelBase (T : CaseTable) (s : Store) (name : String) (args : List VCell) : Option Res :=
  let fuel := fuelOf s
  if name.startsWith "string-ci" then
    (cmpOps.lookup (name.drop 9).toString).map fun op => stringComp (strLower T) op s args
  else if name.startsWith "string" && (cmpOps.lookup (name.drop 6).toString).isSome then
    (cmpOps.lookup (name.drop 6).toString).map fun op => stringComp id op s args
  else if name.startsWith "char-ci" then
    (cmpOps.lookup (name.drop 7).toString).map fun op => charComp (charFoldcase T) op s args
  else if name.startsWith "char" && (cmpOps.lookup (name.drop 4).toString).isSome then
    (cmpOps.lookup (name.drop 4).toString).map fun op => charComp id op s args
  else
  match name with
  | "string-length" => some (stringLength s args)
  | "string-ref" => some (stringRef s args)
  | "string-set!" => some (stringSet s args)
  | "substring" => some (match args with | [_, _, _] => stringCopy s args | _ => .err .arity)
  | "string-copy" => some (stringCopy s args)
  | "string-fill!" => some (stringFill s args)
  | "string->list" => some (stringToList s args)
  | "string->vector" => some (stringToVector s args)
  | "vector->string" => some (vectorToString s args)
  | "list->string" => some (listToString fuel s args)
  | "string" => some (stringB s args)
  | "make-string" => some (makeString s args)
  | "string-append" => some (stringAppend s args)
  | "string-upcase" => some (stringCase (strUpper T) s args)
  | "string-downcase" => some (stringCase (downcaseChecked T) s args)
  | "string-foldcase" => some (stringCase (strLower T) s args)
  | "char->integer" => some (charToInteger s args)
  | "integer->char" => some (integerToChar s args)
  | "char-alphabetic?" => some (charPred T.alphabetic s args)
  | "char-numeric?" => some (charPred T.numeric s args)
  | "char-whitespace?" => some (charPred T.whitespace s args)
  | "char-upper-case?" => some (charPred T.isUpper s args)
  | "char-lower-case?" => some (charPred T.isLower s args)
  | "char-upcase" => some (charMap (charUpcase T) s args)
  | "char-downcase" => some (charMap (charFoldcase T) s args)
  | "char-foldcase" => some (charMap (charFoldcase T) s args)
  | "cons" => some (cons s args)
  | "car" => some (car s args)
  | "cdr" => some (cdr s args)
  | "set-car!" => some (setCar s args)
  | "set-cdr!" => some (setCdr s args)
  | "list" => some (list s args)
  | "append" => some (append fuel s args)
  | "reverse" => some (reverse fuel s args)
  | "list-tail" => some (listTail s args)
  | "list-ref" => some (listRef s args)
  | "list?" => some (isList fuel s args)
  | "length" => some (match args with | [l] => liftV s (length fuel s l) | _ => .err .arity)
  | "memq" => some (match args with | [x, l] => liftV s (memq fuel s x l) | _ => .err .arity)
  | "memv" => some (match args with | [x, l] => liftV s (memv fuel s x l) | _ => .err .arity)
  | "member" => some (match args with | [x, l] => liftV s (member fuel s x l) | _ => .err .arity)
  | "assq" => some (match args with | [x, l] => liftV s (assq fuel s x l) | _ => .err .arity)
  | "assv" => some (match args with | [x, l] => liftV s (assv fuel s x l) | _ => .err .arity)
  | "assoc" => some (match args with | [x, l] => liftV s (assoc fuel s x l) | _ => .err .arity)
  -- `equal?` terminates on every store (fix dfd9e81): `equalFuel s` is never exhausted (`equal_total`)
  | "equal?" => some (equalB (max fuel (equalFuel s)) s args)
  | "eq?" => some (eqvB s args)
  | "eqv?" => some (eqvB s args)
  | "vector" => some (vector s args)
  | "make-vector" => some (makeVector s args)
  | "vector-length" => some (vectorLength s args)
  | "vector-ref" => some (vectorRef s args)
  | "vector-set!" => some (vectorSet s args)
  | "vector-fill!" => some (vectorFill s args)
  | "vector->list" => some (vectorToList s args)
  | "list->vector" => some (listToVector fuel s args)
  | "vector-copy" => some (vectorCopy s args)
  | "vector-copy!" => some (vectorCopyBang s args)
  | _ => none

/-- a procedure value applied by `map`/`for-each`; a closure result goes back through `finish`
    exactly like a direct call -/
def calleeModel (T : CaseTable) (f : VCell) : Callee := fun s args =>
  match f with
  | .builtin name => match runModelBase T s name args with
    | some r => r
    | none => .err .notProc
  | _ => .err .notProc

def runModel (T : CaseTable) (s : Store) (name : String) (args : List VCell) : Option Res :=
  match name, args with
  | "map", f :: ls => some (map (calleeModel T f) (fuelOf s) s ls)
  | "for-each", f :: ls => some (forEach (calleeModel T f) (fuelOf s) s ls)
  | "map", [] => some (.err .arity)
  | "for-each", [] => some (.err .arity)
  | _, _ => runModelBase T s name args

def runSpecBase (T : CaseTable) (st : RStore) (name : String) (args : List RVal) : Option RRes :=
  if name.startsWith "string-ci" then
    (cmpOps.lookup (name.drop 9).toString).map fun op => rStringCmp (strLower T) op st args
  else if name.startsWith "string" && (cmpOps.lookup (name.drop 6).toString).isSome then
    (cmpOps.lookup (name.drop 6).toString).map fun op => rStringCmp id op st args
  else if name.startsWith "char-ci" then
    (cmpOps.lookup (name.drop 7).toString).map fun op => rCharCmp (simpleLower T) op st args
  else if name.startsWith "char" && (cmpOps.lookup (name.drop 4).toString).isSome then
    (cmpOps.lookup (name.drop 4).toString).map fun op => rCharCmp id op st args
  else
  match name with
  | "string-length" => some (rStringLength st args)
  | "string-ref" => some (rStringRef st args)
  | "string-set!" => some (rStringSet st args)
  | "substring" => some (match args with | [_, _, _] => rStringCopy st args | _ => .err .arity)
  | "string-copy" => some (rStringCopy st args)
  | "string-fill!" => some (rStringFill st args)
  | "string->list" => some (rStringToList st args)
  | "string->vector" => some (rStringToVector st args)
  | "vector->string" => some (rVectorToString st args)
  | "list->string" => some (rListToString st args)
  | "string" => some (rString st args)
  | "make-string" => some (rMakeString st args)
  | "string-append" => some (rStringAppend st args)
  | "string-upcase" => some (rStringCase (strUpper T) st args)
  | "string-downcase" => some (rStringCase (downcaseChecked T) st args)
  | "string-foldcase" => some (rStringCase (strLower T) st args)
  | "char->integer" => some (rCharToInteger st args)
  | "integer->char" => some (rIntegerToChar st args)
  | "char-alphabetic?" => some (rCharPred T.alphabetic st args)
  | "char-numeric?" => some (rCharPred T.numeric st args)
  | "char-whitespace?" => some (rCharPred T.whitespace st args)
  | "char-upper-case?" => some (rCharPred T.isUpper st args)
  | "char-lower-case?" => some (rCharPred T.isLower st args)
  | "char-upcase" => some (rCharMap (simpleUpper T) st args)
  | "char-downcase" => some (rCharMap (simpleLower T) st args)
  | "char-foldcase" => some (rCharMap (simpleLower T) st args)
  | "cons" => some (rCons st args)
  | "car" => some (rCar st args)
  | "cdr" => some (rCdr st args)
  | "set-car!" => some (rSetCar st args)
  | "set-cdr!" => some (rSetCdr st args)
  | "list" => some (rList st args)
  | "append" => some (rAppend st args)
  | "reverse" => some (rReverse st args)
  | "list-tail" => some (rListTail st args)
  | "list-ref" => some (rListRef st args)
  | "list?" => some (rIsList st args)
  | "length" => some (rLength st args)
  | "memq" => some (rMemq st args)
  | "memv" => some (rMemq st args)
  | "member" => some (rMember st args)
  | "assq" => some (rAssq st args)
  | "assv" => some (rAssq st args)
  | "assoc" => some (rAssoc st args)
  | "equal?" => some (rEqual st args)
  | "eq?" => some (match args with | [a, b] => .ok (st, .bool (eqvR a b)) | _ => .err .arity)
  | "eqv?" => some (match args with | [a, b] => .ok (st, .bool (eqvR a b)) | _ => .err .arity)
  | "vector" => some (rVector st args)
  | "make-vector" => some (rMakeVector st args)
  | "vector-length" => some (rVectorLength st args)
  | "vector-ref" => some (rVectorRef st args)
  | "vector-set!" => some (rVectorSet st args)
  | "vector-fill!" => some (rVectorFill st args)
  | "vector->list" => some (rVectorToList st args)
  | "list->vector" => some (rListToVector st args)
  | "vector-copy" => some (rVectorCopy st args)
  | "vector-copy!" => some (rVectorCopyBang st args)
  | _ => none

def calleeSpec (T : CaseTable) (f : RVal) : RCallee := fun st args =>
  match f with
  | .builtin name => match runSpecBase T st name args with
    | some r => r
    | none => .err .notProc
  | _ => .err .notProc

def runSpec (T : CaseTable) (st : RStore) (name : String) (args : List RVal) : Option RRes :=
  match name, args with
  | "map", f :: ls => if ls.isEmpty then some (.err .arity) else some (rMap (calleeSpec T f) st ls)
  | "for-each", f :: ls => if ls.isEmpty then some (.err .arity) else some (rForEach (calleeSpec T f) st ls)
  | "map", [] => some (.err .arity)
  | "for-each", [] => some (.err .arity)
  | _, _ => runSpecBase T st name args

def modelMachine (T : CaseTable) : Machine Store VCell := ⟨litModel, runModel T, clsModel⟩
def specMachine (T : CaseTable) : Machine RStore RVal := ⟨litSpec, runSpec T, clsSpec⟩

/-! ## the case-mapping oracle sent by the harness

`T<entry>;<entry>;…` with `entry = cp:lower:upper:flags`, `lower`/`upper` = `.`-separated code points of
`char::to_lowercase` / `to_uppercase`, flags = alphabetic 1 | numeric 2 | whitespace 4 | lowercase 8 |
uppercase 16 | cased 32 | case-ignorable 64 | 128 (always set: marks an entry that carries the two
context bits; an entry without it is not decoded). The context bits are what `str::to_lowercase` sees
of `char::is_cased` / `is_case_ignorable` (not public in std), observed through its public behaviour:
cased := `(c + "Σ").to_lowercase()` ends in ς (c is Cased and not Case_Ignorable),
case-ignorable := not cased and `("Α" + c + "Σ").to_lowercase()` ends in ς.
A character that is looked up but missing from the table maps to U+FFFD followed by
itself and has no class: a visible disagreement, never a silent default. -/

structure Entry where
  cp : Nat
  lower : List Char
  upper : List Char
  flags : Nat

def decChars (w : String) : Option (List Char) :=
  (w.splitOn ".").mapM fun x => do
    let n ← x.toNat?
    if h : n.isValidChar then some (Char.ofNatAux n h) else none

def decEntry (w : String) : Option Entry :=
  match w.splitOn ":" with
  | [cp, lo, up, fl] => do
    let flags ← fl.toNat?
    if (flags / 128) % 2 != 1 then none
    else pure { cp := ← cp.toNat?, lower := ← decChars lo, upper := ← decChars up, flags := flags }
  | _ => none

def tableOf (es : List Entry) : CaseTable :=
  let find (c : Char) : Option Entry := es.find? fun e => e.cp == c.toNat
  let missing (c : Char) : List Char := [Char.ofNat 0xFFFD, c]
  let flag (bit : Nat) (c : Char) : Bool := match find c with
    | some e => (e.flags / bit) % 2 == 1
    | none => false
  { lower := fun c => match find c with | some e => e.lower | none => missing c,
    upper := fun c => match find c with | some e => e.upper | none => missing c,
    alphabetic := flag 1, numeric := flag 2, whitespace := flag 4, isLower := flag 8,
    isUpper := flag 16, cased := flag 32, caseIgnorable := flag 64 }

def decTable (w : String) : Option CaseTable :=
  if !w.startsWith "T" then none
  else if w == "T" then some (tableOf [])
  else ((w.drop 1).toString.splitOn ";").mapM decEntry |>.map tableOf

/-! ## the sequence interpreter (shared by model and spec) -/

/-- evaluate the argument tokens left to right; `none` = undecodable token;
    `some (s, none)` = reference to a pool variable that is not bound -/
def evalArgs {S V : Type} (m : Machine S V) (pool : List (Option V)) :
    S → List String → Option (S × Option (List V))
  | s, [] => some (s, some [])
  | s, w :: ws =>
    if w.startsWith "p" then
      match (w.drop 1).toString.toNat? with
      | none => none
      | some j =>
        match pool[j]? with
        | some (some v) =>
          match evalArgs m pool s ws with
          | some (s, some vs) => some (s, some (v :: vs))
          | r => r
        | _ =>
          -- unbound: still decode the rest so that a malformed token is reported as such
          match evalArgs m pool s ws with
          | some (s, _) => some (s, none)
          | none => none
    else
      match m.lit s w with
      | none => none
      | some (s, v) =>
        match evalArgs m pool s ws with
        | some (s, some vs) => some (s, some (v :: vs))
        | r => r

def stopsAfterFailure (name : String) : Bool := name == "map" || name == "for-each"

def runSeq {S V : Type} (m : Machine S V) : S → List (Option V) → List String → List String → Option (List String)
  | _, _, [], acc => some acc.reverse
  | s, pool, op :: ops, acc =>
    match op.splitOn "," with
    | [] => none
    | name :: argToks =>
      match evalArgs m pool s argToks with
      | none => none
      | some (s1, none) =>
        let pool := pool ++ [none]
        runSeq m s pool ops (("err " ++ renderRoots (m.cls s) pool) :: acc)
      | some (s1, some args) =>
        match m.run s1 name args with
        | none => none
        | some (.ok (s2, v)) =>
          let pool := pool ++ [some v]
          runSeq m s2 pool ops (("ok " ++ renderRoots (m.cls s2) pool) :: acc)
        | some (.err _) =>
          if stopsAfterFailure name then some (("err" :: acc).reverse)
          else
            let pool := pool ++ [none]
            runSeq m s pool ops (("err " ++ renderRoots (m.cls s) pool) :: acc)
        | some (.panic _) => some (("panic" :: acc).reverse)
        | some .diverge => some (("diverge" :: acc).reverse)

def answer (steps : Option (List String)) : Option String :=
  steps.map fun xs => "ok " ++ "|".intercalate xs

def handle (cmd : String) (args : List String) : Option String :=
  match cmd with
  | "c14" => answer (runSeq (modelMachine (tableOf [])) Store.empty [] args [])
  | "c14s" => answer (runSeq (specMachine (tableOf [])) RStore.empty [] args [])
  | "c15" => match args with
    | t :: ops => (decTable t).bind fun T => answer (runSeq (modelMachine T) Store.empty [] ops [])
    | [] => none
  | "c15s" => match args with
    | t :: ops => (decTable t).bind fun T => answer (runSeq (specMachine T) RStore.empty [] ops [])
    | [] => none
  | _ => none

end Marwood.Driver.Store
