import Marwood.Vm.ConcreteHeap
import Marwood.Vm.ListExt
import Driver.VmStep
/-!
# Driver command `simstep`: one instruction of `step (concreteOps ext)` on a complete real heap snapshot

Counterpart of `harness/src/bin/simstep.rs` (stream "concrete-heap-step" of C03). The request carries the
registers, the whole stack and the WHOLE heap of the real VM before one instruction (cells with payloads,
gc states, free list, symbol table, global environment); the answer is the post-state of
`Marwood.Vm.step (Marwood.Vm.Concrete.concreteOps ext)` rendered exactly like the harness renders the real
post-state, so string equality decides agreement.

## Wire format (tokens separated by one space; no token contains space, comma or tab)

```
cell   := T F N U V | acc | op<name> | O<tag> | Q<a>:<d> | C<l>:<e> | L<n> | K<n> | X<id> | S<n> | D<e>:<n> | A<n>
        | B<n> | R<int> | E<n> | G<n> | I<l>:<o> | P<a>             (decimal; usize::MAX is `max`)
  tag  := first character n/c/s/m/y as in ConcreteHeap.lean (`y` + symbol-table key); `e` / `v` = representative of
          an inline environment / vector, `L0` / `K0` of an inline lambda / continuation
  X<id>: `builtinKind = id % 4` (0 generic, 1 apply, 2 eval, 3 callcc)
ccell  := c cell | e <n> cell*n | v <n> cell*n | l <nbc> <nargs> <nenv> cell*nbc cell*nargs (cell src)*nenv
        | k <sp> <ep> <ipl> <ipo> <bp> <n> cell*n                  src := a<n> | fa<n> | fe<n> | g | i
gc     := f | a | u
regs   := R <sp> <bp> <ep> <ipl> <ipo> <acc> <cap> <n> cell*n      (slots [n,cap) are Undefined)
heap   := H <chunk> <capacity> <m> (<addr> gc ccell)*m  F <k> run*k  T <n> (<name> <addr>)*n  GS <n> addr*n  GV <n> cell*n
          run := <a> | <a>+<n> | <a>-<n>; the free list is given NEXT ADDRESS FIRST (= `CHeap.free`)
delta  := D <capacity'> <m> (<addr> gc ccell)*m  F <keep> <n> addr*n  T <r> name*r <a> (<name> <addr>)*a
          GS <n> addr*n  GV <len'> <m> (<idx> cell)*m
ext    := X none | X ok <acc'> delta | X err <class> | X panic | X lx <idx> <0|1>
request  := simstep <info> regs heap ext            (`info` = i:<opcode>:<kind>:<core|ext|alias>:<scr|lin>:<n> is for
                                                     the Python side only: counts, and the `alias` bucket — CONS / VARARG
                                                     of an inline Rc payload — is compared on registers, stack and number
                                                     of changed cells only, see simstep.rs)
response := ok <sp> <bp> <ep> <ipl> <ipo> <acc> <halt> <cap> <n> cell*n delta | err <class> | panic
```
`ext` instantiates `ExtOps` for this one step: `builtinEval` / `compileEval` / `vectorPush` return the recorded
result and the pre-heap with the recorded delta applied (or the recorded error class / a panic).
`X lx <idx> <bit>` (mode `runlx` of the harness, info bucket `listext`): nothing is recorded — the generic builtin
called by this CALL / TCALL is entry `idx` of the table of `Marwood/Vm/ListExt.lean` and its result and heap effect are
COMPUTED by `ListExt.builtinEval` (the model the law theorems `listExtWith_laws`, `listExtWith_good`, … are about);
`bit` is the payload equality `eqTag` of two number / two string operands of `eq?` / `eqv?` (opaque tags here).
Anything that does not decode answers `none` (the dispatcher prints `bad-op`).
-/
namespace Marwood.Driver.SimStep
open Marwood Marwood.Vm Marwood.Vm.Concrete
open Marwood.Heap (GcState)
open Marwood.Driver.VmStep (natOrMax showNatOrMax opOfName opName errName errOfName)

/-! ## decoding -/

def two (r : List Char) : Option (Nat × Nat) :=
  match (String.ofList r).splitOn ":" with
  | [a, b] => do let a ← natOrMax a; let b ← natOrMax b; pure (a, b)
  | _ => none

def decCell (w : String) : Option VCell :=
  match w.toList with
  | ['T'] => some (.bool true)
  | ['F'] => some (.bool false)
  | ['N'] => some .nil
  | ['U'] => some .undefined
  | ['V'] => some .void
  | ['a', 'c', 'c'] => some .acc
  | 'o' :: 'p' :: r => (opOfName (String.ofList r)).map .opcode
  | 'O' :: r => some (.opaque (String.ofList r))
  | 'Q' :: r => (two r).map fun (a, d) => .pair a d
  | 'C' :: r => (two r).map fun (a, d) => .closure a d
  | 'L' :: r => (String.ofList r).toNat?.map .lambda
  | 'K' :: r => (String.ofList r).toNat?.map .continuation
  | 'X' :: r => (String.ofList r).toNat?.map .builtin
  | 'S' :: r => (String.ofList r).toNat?.map .lexEnvSlot
  | 'D' :: r => (two r).map fun (a, d) => .lexEnvPtr a d
  | 'A' :: r => (String.ofList r).toNat?.map .argc
  | 'B' :: r => (String.ofList r).toNat?.map .basePtr
  | 'R' :: r => (String.ofList r).toInt?.map .bpOffset
  | 'E' :: r => (natOrMax (String.ofList r)).map .envPtr
  | 'G' :: r => (String.ofList r).toNat?.map .globSlot
  | 'I' :: r => (two r).map fun (a, d) => .instrPtr a d
  | 'P' :: r => (natOrMax (String.ofList r)).map .ptr
  | _ => none

def decSrc (w : String) : Option Source :=
  match w.toList with
  | ['g'] => some .global
  | ['i'] => some .internal
  | 'f' :: 'a' :: r => (String.ofList r).toNat?.map .iofArg
  | 'f' :: 'e' :: r => (String.ofList r).toNat?.map .iofEnv
  | 'a' :: r => (String.ofList r).toNat?.map .arg
  | _ => none

def decGc (w : String) : Option GcState :=
  match w with
  | "f" => some .free | "a" => some .allocated | "u" => some .used | _ => none

abbrev Toks := List String

/-- `n` items, each consumed by `p` -/
def many {α : Type} (p : Toks → Option (α × Toks)) : Nat → Toks → Array α → Option (Array α × Toks)
  | 0, ts, acc => some (acc, ts)
  | n+1, ts, acc =>
    match p ts with
    | some (a, ts) => many p n ts (acc.push a)
    | none => none

def one {α : Type} (f : String → Option α) : Toks → Option (α × Toks)
  | t :: ts => (f t).map fun a => (a, ts)
  | [] => none

def cellsN (n : Nat) (ts : Toks) : Option (List VCell × Toks) :=
  (many (one decCell) n ts #[]).map fun (a, ts) => (a.toList, ts)

def natTok : Toks → Option (Nat × Toks) := one natOrMax

def envPair : Toks → Option ((VCell × Source) × Toks)
  | c :: s :: ts => do let c ← decCell c; let s ← decSrc s; pure ((c, s), ts)
  | _ => none

def decCCell : Toks → Option (CCell × Toks)
  | "c" :: t :: ts => (decCell t).map fun v => (.val v, ts)
  | "e" :: n :: ts => do
    let n ← n.toNat?
    let (cs, ts) ← cellsN n ts
    pure (.lexEnv cs, ts)
  | "v" :: n :: ts => do
    let n ← n.toNat?
    let (cs, ts) ← cellsN n ts
    pure (.vector cs, ts)
  | "l" :: nb :: na :: ne :: ts => do
    let nb ← nb.toNat?
    let na ← na.toNat?
    let ne ← ne.toNat?
    let (bc, ts) ← cellsN nb ts
    let (args, ts) ← cellsN na ts
    let (em, ts) ← many envPair ne ts #[]
    pure (.lambda { bc := bc, args := args, envmap := em.toList }, ts)
  | "k" :: sp :: ep :: ipl :: ipo :: bp :: n :: ts => do
    let sp ← sp.toNat?
    let ep ← natOrMax ep
    let ipl ← natOrMax ipl
    let ipo ← natOrMax ipo
    let bp ← bp.toNat?
    let n ← n.toNat?
    let (cs, ts) ← cellsN n ts
    pure (.cont { stack := { cells := cs, sp := sp }, ep := ep, ipL := ipl, ipO := ipo, bp := bp }, ts)
  | _ => none

def heapEntry : Toks → Option ((Nat × GcState × CCell) × Toks)
  | a :: g :: ts => do
    let a ← a.toNat?
    let g ← decGc g
    let (c, ts) ← decCCell ts
    pure ((a, g, c), ts)
  | _ => none

/-- one run of the compressed free list, appended to `acc` -/
def decRun (w : String) : Option (List Nat) :=
  match w.splitOn "+" with
  | [a, n] => do let a ← a.toNat?; let n ← n.toNat?; pure (List.range' a n)
  | _ =>
    match w.splitOn "-" with
    | [a, n] => do
      let a ← a.toNat?
      let n ← n.toNat?
      if n ≤ a + 1 then pure ((List.range' (a + 1 - n) n).reverse) else none
    | [a] => do let a ← a.toNat?; pure [a]
    | _ => none

def symPair : Toks → Option ((Text × Nat) × Toks)
  | n :: a :: ts => do let a ← a.toNat?; pure ((n.toList, a), ts)
  | _ => none

def idxCell : Toks → Option ((Nat × VCell) × Toks)
  | i :: c :: ts => do let i ← i.toNat?; let c ← decCell c; pure ((i, c), ts)
  | _ => none

def setEntries (cells : Array CCell) (gc : Array GcState) :
    List (Nat × GcState × CCell) → Option (Array CCell × Array GcState)
  | [] => some (cells, gc)
  | (a, g, c) :: r =>
    if a < cells.size ∧ a < gc.size then setEntries (cells.setIfInBounds a c) (gc.setIfInBounds a g) r
    else none

def decHeap : Toks → Option (CHeap × Toks)
  | "H" :: chunk :: cap :: m :: ts => do
    let chunk ← chunk.toNat?
    let cap ← cap.toNat?
    let m ← m.toNat?
    let (es, ts) ← many heapEntry m ts #[]
    let (cells, gc) ← setEntries (Array.replicate cap (CCell.val .undefined)) (Array.replicate cap GcState.free) es.toList
    match ts with
    | "F" :: k :: ts => do
      let k ← k.toNat?
      let (runs, ts) ← many (one decRun) k ts #[]
      let free := runs.toList.flatten
      match ts with
      | "T" :: n :: ts => do
        let n ← n.toNat?
        let (tab, ts) ← many symPair n ts #[]
        match ts with
        | "GS" :: n :: ts => do
          let n ← n.toNat?
          let (gs, ts) ← many (one String.toNat?) n ts #[]
          match ts with
          | "GV" :: n :: ts => do
            let n ← n.toNat?
            let (gv, ts) ← many (one decCell) n ts #[]
            pure ({ chunk := chunk, cells := cells, gc := gc, free := free, symtab := tab.toList,
                    globSyms := gs.toList, globals := gv }, ts)
          | _ => none
        | _ => none
      | _ => none
    | _ => none
  | _ => none

structure Regs where
  stack : Stack
  acc : VCell
  ep : Nat
  ipL : Nat
  ipO : Nat
  bp : Nat

def decRegs : Toks → Option (Regs × Toks)
  | "R" :: sp :: bp :: ep :: ipl :: ipo :: acc :: cap :: n :: ts => do
    let sp ← sp.toNat?
    let bp ← bp.toNat?
    let ep ← natOrMax ep
    let ipl ← natOrMax ipl
    let ipo ← natOrMax ipo
    let acc ← decCell acc
    let cap ← cap.toNat?
    let n ← n.toNat?
    if cap < n then none else
    let (cs, ts) ← cellsN n ts
    pure ({ stack := { cells := cs ++ List.replicate (cap - n) VCell.undefined, sp := sp },
            acc := acc, ep := ep, ipL := ipl, ipO := ipo, bp := bp }, ts)
  | _ => none

structure Delta where
  cap : Nat
  cells : List (Nat × GcState × CCell)
  keep : Nat
  newFree : List Nat
  symRem : List Text
  symAdd : List (Text × Nat)
  gsyms : List Nat
  glen : Nat
  gvals : List (Nat × VCell)

def decDelta : Toks → Option (Delta × Toks)
  | "D" :: cap :: m :: ts => do
    let cap ← cap.toNat?
    let m ← m.toNat?
    let (es, ts) ← many heapEntry m ts #[]
    match ts with
    | "F" :: keep :: n :: ts => do
      let keep ← keep.toNat?
      let n ← n.toNat?
      let (nf, ts) ← many (one String.toNat?) n ts #[]
      match ts with
      | "T" :: r :: ts => do
        let r ← r.toNat?
        let (rem, ts) ← many (one fun (s : String) => some s.toList) r ts #[]
        match ts with
        | a :: ts => do
          let a ← a.toNat?
          let (add, ts) ← many symPair a ts #[]
          match ts with
          | "GS" :: n :: ts => do
            let n ← n.toNat?
            let (gs, ts) ← many (one String.toNat?) n ts #[]
            match ts with
            | "GV" :: len :: m :: ts => do
              let len ← len.toNat?
              let m ← m.toNat?
              let (gv, ts) ← many idxCell m ts #[]
              pure ({ cap := cap, cells := es.toList, keep := keep, newFree := nf.toList, symRem := rem.toList,
                      symAdd := add.toList, gsyms := gs.toList, glen := len, gvals := gv.toList }, ts)
            | _ => none
          | _ => none
        | _ => none
      | _ => none
    | _ => none
  | _ => none

inductive ExtRec
  | none
  | ok (v : VCell) (d : Delta)
  | err (cls : String)
  | panic
  | lx (idx : Nat) (bit : Bool)

def decExt : Toks → Option (ExtRec × Toks)
  | "X" :: "none" :: ts => some (.none, ts)
  | "X" :: "panic" :: ts => some (.panic, ts)
  | "X" :: "err" :: c :: ts => some (.err c, ts)
  | "X" :: "lx" :: i :: b :: ts => do
    let i ← i.toNat?
    let b ← (match b with | "0" => some false | "1" => some true | _ => none)
    pure (.lx i b, ts)
  | "X" :: "ok" :: v :: ts => do
    let v ← decCell v
    let (d, ts) ← decDelta ts
    pure (.ok v d, ts)
  | _ => none

/-! ## the recorded outcome as `ExtOps` -/

def applyDelta (h : CHeap) (d : Delta) : CHeap :=
  let cells := h.cells ++ Array.replicate (d.cap - h.cells.size) (CCell.val .undefined)
  let gc := h.gc ++ Array.replicate (d.cap - h.gc.size) GcState.free
  let cells := d.cells.foldl (fun a e => a.setIfInBounds e.1 e.2.2) cells
  let gc := d.cells.foldl (fun a e => a.setIfInBounds e.1 e.2.1) gc
  let gone (n : Text) : Bool := d.symRem.contains n || d.symAdd.any (·.1 == n)
  let globals := h.globals ++ Array.replicate (d.glen - h.globals.size) VCell.undefined
  { h with
    cells := cells, gc := gc
    free := d.newFree ++ h.free.drop (h.free.length - d.keep)
    symtab := h.symtab.filter (fun p => !gone p.1) ++ d.symAdd
    globSyms := h.globSyms ++ d.gsyms
    globals := d.gvals.foldl (fun a e => a.setIfInBounds e.1 e.2) globals }

def kindOfId (id : Nat) : BuiltinKind :=
  match id % 4 with
  | 1 => .apply | 2 => .eval | 3 => .callcc | _ => .generic

def recorded (x : ExtRec) (h : CHeap) : Outcome (CHeap × VCell) :=
  match x with
  | .ok v d => .ok (applyDelta h d, v)
  | .err c => .err (errOfName c)
  | .panic => .panic "recorded panic"
  | .none => .panic "no recorded outcome for an ExtOps parameter"
  | .lx _ _ => .panic "no recorded outcome for an ExtOps parameter (listext step)"

def mkExt (x : ExtRec) : ExtOps where
  builtinKind _ id := kindOfId id
  builtinEval h _ args := match x with
    | .lx idx bit => ListExt.builtinEval (fun _ _ => bit) h (4 * idx) args
    | _ => recorded x h
  compileEval h _ := recorded x h
  vectorPush h _ _ := match recorded x h with
    | .ok (h', _) => .ok h'
    | .err e => .err e
    | .panic s => .panic s

/-! ## rendering -/

def mx (n : Nat) : String := showNatOrMax n

def encCell : VCell → String
  | .bool true => "T" | .bool false => "F" | .nil => "N" | .undefined => "U" | .void => "V"
  | .opaque t => "O" ++ t
  | .pair a d => s!"Q{mx a}:{mx d}" | .closure l e => s!"C{mx l}:{mx e}"
  | .lambda i => s!"L{i}" | .continuation i => s!"K{i}" | .builtin i => s!"X{i}"
  | .lexEnvSlot n => s!"S{n}" | .lexEnvPtr e n => s!"D{mx e}:{mx n}"
  | .acc => "acc" | .argc n => s!"A{n}" | .basePtr n => s!"B{n}" | .bpOffset i => s!"R{i}"
  | .envPtr e => "E" ++ mx e | .globSlot n => s!"G{n}"
  | .instrPtr l o => s!"I{mx l}:{mx o}" | .opcode op => "op" ++ opName op
  | .ptr a => "P" ++ mx a

def encSrc : Source → String
  | .global => "g" | .internal => "i" | .arg n => s!"a{n}" | .iofArg n => s!"fa{n}" | .iofEnv n => s!"fe{n}"

def encCells (cs : List VCell) : String := String.join (cs.map fun c => " " ++ encCell c)

def encCCell : CCell → String
  | .val v => "c " ++ encCell v
  | .lexEnv ss => s!"e {ss.length}" ++ encCells ss
  | .vector es => s!"v {es.length}" ++ encCells es
  | .lambda l =>
    s!"l {l.bc.length} {l.args.length} {l.envmap.length}" ++ encCells l.bc ++ encCells l.args ++
      String.join (l.envmap.map fun p => " " ++ encCell p.1 ++ " " ++ encSrc p.2)
  | .cont c =>
    s!"k {c.stack.sp} {mx c.ep} {mx c.ipL} {mx c.ipO} {c.bp} {c.stack.cells.length}" ++ encCells c.stack.cells

def encGc : GcState → String
  | .free => "f" | .allocated => "a" | .used => "u"

def commonPrefix : List Nat → List Nat → Nat → Nat
  | a :: as, b :: bs, n => if a = b then commonPrefix as bs (n + 1) else n
  | _, _, n => n

def textLe (a b : String) : Bool := !(b < a)

def changedCells (h h' : CHeap) : List String :=
  (List.range h'.cells.size).filterMap fun i =>
    let old : GcState × CCell := ((h.gc[i]?).getD .free, (h.cells[i]?).getD (.val .undefined))
    let new : GcState × CCell := ((h'.gc[i]?).getD .free, (h'.cells[i]?).getD (.val .undefined))
    if old = new then none else some s!" {i} {encGc new.1} {encCCell new.2}"

def encDelta (h h' : CHeap) : String :=
  let ch := changedCells h h'
  let keep := commonPrefix h.free.reverse h'.free.reverse 0
  let newPart := h'.free.take (h'.free.length - keep)
  let symPart :=
    if h.symtab = h'.symtab then " T 0 0" else
    let look (tab : List (Text × Nat)) (n : Text) : Option Nat := (tab.find? (·.1 = n)).map (·.2)
    let rem := ((h.symtab.filter fun p => (look h'.symtab p.1).isNone).map fun p => String.ofList p.1).mergeSort textLe
    let add := ((h'.symtab.filter fun p => look h.symtab p.1 ≠ some p.2).map fun p => (String.ofList p.1, p.2)).mergeSort
                 (fun a b => textLe a.1 b.1)
    s!" T {rem.length}" ++ String.join (rem.map (" " ++ ·)) ++ s!" {add.length}" ++
      String.join (add.map fun p => s!" {p.1} {p.2}")
  let gsPart :=
    if h.globSyms = h'.globSyms then " GS 0" else
    let new := (h'.globSyms.filter fun k => !h.globSyms.contains k).mergeSort (· ≤ ·)
    s!" GS {new.length}" ++ String.join (new.map fun k => s!" {k}")
  let gv := (List.range h'.globals.size).filterMap fun i =>
    match h'.globals[i]? with
    | some v => if h.globals[i]? = some v then none else some s!" {i} {encCell v}"
    | none => none
  s!"D {h'.cells.size} {ch.length}" ++ String.join ch ++
    s!" F {keep} {newPart.length}" ++ String.join (newPart.map fun a => s!" {a}") ++
    symPart ++ gsPart ++ s!" GV {h'.globals.size} {gv.length}" ++ String.join gv

def trimmed (cs : List VCell) : List VCell := (cs.reverse.dropWhile (· == .undefined)).reverse

def encOk (h : CHeap) (s : St CHeap) (halt : Bool) : String :=
  let live := trimmed s.stack.cells
  s!"ok {s.stack.sp} {s.bp} {mx s.ep} {mx s.ipL} {mx s.ipO} {encCell s.acc} {if halt then 1 else 0} " ++
    s!"{s.stack.cells.length} {live.length}" ++ encCells live ++ " " ++ encDelta h s.heap

def handle (args : List String) : Option String :=
  match args with
  | _info :: ts => do
    let (r, ts) ← decRegs ts
    let (h, ts) ← decHeap ts
    let (x, ts) ← decExt ts
    if !ts.isEmpty then none else
    let s : St CHeap := { heap := h, stack := r.stack, acc := r.acc, ep := r.ep, ipL := r.ipL, ipO := r.ipO, bp := r.bp }
    pure (match step (concreteOps (mkExt x)) s with
      | .ok (s', halt) => encOk h s' halt
      | .err e => "err " ++ errName e
      | .panic _ => "panic")
  | [] => none

end Marwood.Driver.SimStep
