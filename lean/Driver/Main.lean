import Driver.Reader
import Driver.Num
import Driver.Transform
import Driver.Store
import Driver.Gc
import Driver.Vm
import Driver.Syntax
import Driver.Print
import Driver.Eval
import Driver.Scope
import Driver.Total
import Driver.Policy
import Driver.Depth
/-!
Line-protocol driver: one request per line (`<component> <arg>…`, space separated), one response
per line. Unknown or undecodable requests answer `bad-op` — never a default.
-/
open Marwood

def handlers : List (String → List String → Option String) :=
  [Marwood.Driver.Reader.handle, Marwood.Driver.Num.handle, Marwood.Driver.Transform.handle,
   Marwood.Driver.Store.handle, Marwood.Driver.Gc.handle, Marwood.Driver.Vm.handle,
   Marwood.Driver.Syntax.handle, Marwood.Driver.Print.handle, Marwood.Driver.Eval.handle,
   Marwood.Driver.Scope.handle, Marwood.Driver.Total.handle, Marwood.Driver.Policy.handle,
   Marwood.Driver.Depth.handle]

def respond (line : String) : String :=
  match (line.trimAscii.toString.splitOn " ").filter (· ≠ "") with
  | [] => "bad-op"
  | cmd :: args =>
    match handlers.findSome? (fun h => h cmd args) with
    | some r => r
    | none => "bad-op"

partial def loop (h : IO.FS.Stream) (out : IO.FS.Stream) : IO Unit := do
  let line ← h.getLine
  if line.isEmpty then return ()
  out.putStrLn (respond line)
  loop h out

def main : IO Unit := do
  let out ← IO.getStdout
  loop (← IO.getStdin) out
  out.flush
