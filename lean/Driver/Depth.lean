import Driver.Wire
/-! Driver commands of the Depth area (filled in by the area's owner). -/
namespace Marwood.Driver.Depth

def handle (_cmd : String) (_args : List String) : Option String := none

end Marwood.Driver.Depth
