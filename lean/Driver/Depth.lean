import Driver.Wire
import Marwood.Depth
/-!
Driver commands of the Depth area (C19).

* `measure <fn> <dir> <n>` — run the depth model of `<fn>` on the family `<dir>` at depth `n`
  (`n ≤ 5000`: the models are structurally recursive themselves), answer `ok <frames>`.
  `measure mark closure|cont <n>` runs the graph-level marker model `markDepthHeap` on `closureChain n` / `contChain n`.
* `grid <op> <dir> <n> <thread> <profile>` — what the model says about a scenario of the grid:
  `bounded|unbounded <group>=<frames>,…` from the closed forms (`Proofs/C19.closedForm_eq_model`
  proves them equal to the models for every `n`), or `unmodelled`.
* `grid-spec …` — what the property demands of every scenario: `completes`.
-/
namespace Marwood.Driver.Depth
open Marwood Marwood.Depth

def decDir : String → Option Dir
  | "car" => some .car
  | "cdr" => some .cdr
  | "vec" => some .vec
  | "quote" => some .quote
  | "cdr-of-pairs" => some .cdrPairs
  | "cdr-dotted" => some .cdrDotted
  | _ => none

def decFn : String → Option Fn
  | "parse" => some .parse
  | "put" => some .put
  | "get" => some .get
  | "mark" => some .mark
  | "equal" => some .equal
  | "fmt" => some .fmt
  | "drop" => some .drop
  | _ => none

def okNat : Option Nat → Option String
  | some k => some s!"ok {k}"
  | none => some "err fuel"

/-- frames the evaluation context adds below the oldest continuation of a chain captured by the harness program
    `(define (wrap acc) (call/cc (lambda (k) k)))` inside a named-let loop of a top-level form: the saved stack of every
    continuation also holds the return addresses into the loop and into the top-level code object, and its `ep` is the
    loop's environment; the deepest of these paths (loop environment → enclosing environment → the loop's closure →
    its environment) is 6 frames longer than the path through `ip.0` that `contChain` models. The closure chain has
    no such context (`wrap` is a top-level procedure; its closures capture only `acc`). -/
def contContext : Nat := 6

def measure (fn dir : String) (n : Nat) : Option String :=
  if n > 5000 then none else
  match fn, dir with
  | "parse", "dot" => okNat (parseDepth (dotToks n []))
  | "parse", "expr-app" => okNat (parseDepth (appToks n []))
  | "compile", "expr-app" => okNat (some (compileDepth (nestApp n)))
  | "compile", "expr-lambda" => okNat (some (compileDepth (nestLambda n)))
  | "compile", "quote" => okNat (some (compileDepth (nest .quote n)))
  -- the marker on chains built at run time, marked from their outermost object
  | "mark", "closure" => okNat (some (markDepthHeap (closureChain n) [closureRoot n]))
  | "mark", "cont" => okNat (some (markDepthHeap (contChain n) [contRoot n] + contContext))
  | _, _ =>
    match decFn fn, decDir dir with
    | some f, some d => okNat (modelDepth f d n)
    | _, _ => none

def cls (b : Bool) : String := if b then "bounded" else "unbounded"

/-- the clusters a scenario of the grid goes through, with the closed-form frame counts the child
    process can observe, and whether every cluster on the path is bounded in this direction -/
def grid (op dir : String) (n : Nat) : Option String :=
  match decDir dir with
  | some d =>
    let c := fun f => closedForm f d n
    let b := fun f => bounded f d
    (match op with
    | "read" => some s!"{cls (b .parse)} parse={c .parse}"
    -- `(quote D)`: compile_expression → compile_procedure_application → compile_quote →
    -- maybe_put_cell(D); the result is converted back by get_as_cell
    | "quote" => some s!"{cls (b .put && b .get)} compile=2,get={c .get},put={c .put - 1}"
    -- collections run while the structure is being built
    | "build" => some s!"{cls (b .mark)} -"
    | "gc" => some s!"{cls (b .mark)} mark={c .mark}"
    | "equal" => some s!"{cls (b .mark && b .equal)} equal={c .equal}"
    -- get_as_cell, Display, and the converted datum is dropped
    | "write" => some s!"{cls (b .mark && b .get && b .fmt && b .drop)} fmt={c .fmt},get={c .get}"
    | "drop" => some s!"{cls (b .drop)} -"
    | _ => none)
  | none =>
    match op, dir with
    | "read", "dot" => some s!"unbounded parse={3 * n + 2}"
    | "read", "expr-app" => some s!"unbounded parse={2 * n + 1}"
    | "build", "expr-app" => some s!"unbounded compile={3 * n + 1}"
    | "build", "expr-lambda" => some s!"unbounded compile={6 * n + 1}"
    | "read", "expr-lambda" | "read", "expr-let" | "build", "expr-let"
    | "drop", "expr-app" | "drop", "expr-lambda" | "drop", "expr-let" => some "unmodelled"
    -- library procedures on long run-time data (harness table LIB): no depth model, the children decide
    | "lib", _ => some "unmodelled"
    | _, "closure" | _, "cont" | _, "nontail" | _, "nontail-error" =>
      if ["build", "gc", "equal", "write", "drop"].contains op then some "unmodelled" else none
    | _, _ => none

def handle (cmd : String) (args : List String) : Option String :=
  match cmd, args with
  | "measure", [fn, dir, n] => n.toNat?.bind (measure fn dir)
  | "grid", [op, dir, n, thread, profile] =>
    if (thread == "main" || thread == "t2m") && (profile == "release" || profile == "debug") then
      n.toNat?.bind (grid op dir)
    else none
  | "grid-spec", [_, _, _, _, _] => some "completes"
  | _, _ => none

end Marwood.Driver.Depth
