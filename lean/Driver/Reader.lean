import Marwood.Highlight
import Marwood.Spec.Brackets
import Driver.Wire
namespace Marwood.Driver.Reader
open Marwood Marwood.Wire

def tyName : TokType → String
  | .char => "Char" | .dot => "Dot" | .false_ => "False" | .leftParen => "LeftParen"
  | .number => "Number" | .numberPrefix => "NumberPrefix" | .quasiquote => "Quasiquote"
  | .rightParen => "RightParen" | .singleQuote => "SingleQuote" | .string => "String"
  | .symbol => "Symbol" | .true_ => "True" | .unquote => "Unquote" | .hashParen => "HashParen"

def lexErrName : LexErr → String
  | .incomplete => "Incomplete"
  | .unexpectedToken c => s!"UnexpectedToken:{c.toNat}"
  | .unexpectedFollowing a b => s!"UnexpectedFollowing:{encText a.toList}:{encText b.toList}"

def showTokens (ts : List Token) : String :=
  " ".intercalate (ts.map fun t => s!"{t.lo}:{t.hi}:{tyName t.ty}")

def handle (cmd : String) (args : List String) : Option String :=
  match cmd, args with
  | "scan", [t] => (decText t).map fun cs =>
      match scan cs with
      | .ok ts => "ok " ++ showTokens ts
      | .error e => "err " ++ lexErrName e
  | "highlight", [t, i] => do
      let cs ← decText t
      let i ← i.toNat?
      pure (match highlight cs i with
        | some r => "ok " ++ encText r
        | none => "panic slice")
  | "highlight-check", [t, i] => do
      let cs ← decText t
      let i ← i.toNat?
      pure ("ok " ++ toString (highlightCheck cs i))
  | "highlight-all", [t, m] => do
      let cs ← decText t
      let m ← m.toNat?
      let cell := fun (i : Nat) =>
        let h := match highlight cs i with
          | some r => if r == cs then "=" else encText r
          | none => "PANIC"
        h ++ "/" ++ (if highlightCheck cs i then "1" else "0")
      pure ("ok " ++ " ".intercalate ((List.range (m+1)).map cell))
  | "spec-highlight-all", [t, m] => do
      let cs ← decText t
      let m ← m.toNat?
      -- the specification constrains `highlight` only; the check flag is copied from the model
      -- and compared separately against its own (one-directional) clause by the harness
      let cell := fun (i : Nat) =>
        let r := Spec.highlight cs i
        (if r == cs then "=" else encText r) ++ "/" ++ (if highlightCheck cs i then "1" else "0")
      pure ("ok " ++ " ".intercalate ((List.range (m+1)).map cell))
  | _, _ => none

end Marwood.Driver.Reader
