import Marwood.Highlight
import Marwood.Spec.Brackets
import Marwood.Parse
import Marwood.Spec.Reader
import Driver.Wire
namespace Marwood.Driver.Reader
open Marwood Marwood.Wire

/-! ## float oracle: what the harness observed about doubles (float text and float arithmetic are
not modelled). Entries `K=V` separated by `;`, `-` for none. A key the model needs but the harness
did not supply yields the poison double (bits = 2^64), reported as `oracle-missing`. -/

abbrev Oracle := List (String × String)

def decOracle (s : String) : Option Oracle :=
  if s == "-" then some [] else
  (s.splitOn ";").mapM fun e =>
    match e.splitOn "=" with
    | [k, v] => some (k, v)
    | _ => none

def poison : F64 := ⟨2^64⟩

def Oracle.flo (o : Oracle) (k : String) : F64 :=
  match o.lookup k with
  | some v => (match decNum v with | some (.flo f) => f | _ => poison)
  | none => poison

def Oracle.text (o : Oracle) (k : String) : Option Text :=
  (o.lookup k).bind decText

/-- text returned for a float format the harness did not supply; it cannot occur in real output
    (a raw NUL), and every response is checked for it -/
def poisonText : Text := [Char.ofNat 0, 'M', 'I', 'S', 'S']

def textPoisoned : Text → Bool
  | [] => false
  | c :: cs => (c == Char.ofNat 0 && cs.take 4 == ['M', 'I', 'S', 'S']) || textPoisoned cs

def oracleOps (o : Oracle) : FloatOps where
  parseF64 r s :=
    match o.lookup s!"F{r}:{encText s}" with
    | some "none" => none
    | some v => (match decNum v with | some (.flo f) => some f | _ => some poison)
    | none => some poison
  bigRatToF64 n d := o.flo s!"Q{n}/{d}"
  toExact f :=
    match o.lookup ("E" ++ toHex16 f.bits) with
    | some "none" => none
    | some v => (match decNum v with | some n => some n | none => some (.flo poison))
    | none => some (.flo poison)
  toInexact n := o.flo ("I" ++ encNum n)
  fmtExp f := (o.text ("Pe" ++ toHex16 f.bits)).getD poisonText
  fmtFix1 f := (o.text ("Pf" ++ toHex16 f.bits)).getD poisonText
  fmtShort f := (o.text ("Ps" ++ toHex16 f.bits)).getD poisonText
  fmtRadix r f := (o.text (s!"R{r}:" ++ toHex16 f.bits)).getD poisonText

def numPoisoned : Num → Bool
  | .flo f => decide (f.bits ≥ 2^64)
  | _ => false

def datumPoisoned : Datum → Bool
  | .num n => numPoisoned n
  | .str t => textPoisoned t
  | .pair a d => datumPoisoned a || datumPoisoned d
  | .vec e => datumPoisoned e
  | _ => false

def parseErrName : ParseErr → String
  | .incomplete => "Incomplete"
  | .unexpectedToken => "UnexpectedToken"
  | .expectedOneTokenAfterDot => "ExpectedOneTokenAfterDot"
  | .expectedTokenBeforeDot => "ExpectedTokenBeforeDot"
  | .expectedListTerminator => "ExpectedListTerminator"
  | .expectedVectorTerminator => "ExpectedVectorTerminator"
  | .syntaxError => "SyntaxError"
  | .unknownChar => "UnknownChar"
  | .lex .incomplete => "Lex:Incomplete"
  | .lex (.unexpectedToken _) => "Lex:UnexpectedToken"
  | .lex (.unexpectedFollowing _ _) => "Lex:UnexpectedFollowing"

def procErrName : ProcErr → String
  | .invalidNumArgs => "InvalidNumArgs"
  | .invalidSyntax => "InvalidSyntax"

def showProc (r : Res ProcErr Datum) : String :=
  match r with
  | .ok d => if datumPoisoned d then "oracle-missing" else "ok " ++ encDatum d
  | .err e => "err " ++ procErrName e
  | .panic _ => "panic"

/-- decode all data of a token list -/
partial def decData (ws : List String) : Option (List Datum) :=
  match ws with
  | [] => some []
  | _ => do
    let (d, rest) ← decDatum ws
    let ds ← decData rest
    pure (d :: ds)

/-- value and exactness of a number, canonically -/
def canonNum : Num → String
  | .fix n => s!"exact:{n}/1"
  | .big n => s!"exact:{n}/1"
  | .rat n d =>
    let g : Int := Int.gcd n d
    if d = 0 then "exact:invalid" else
    let (n', d') := if d < 0 then (-(n / g), -(d / g)) else (n / g, d / g)
    s!"exact:{n'}/{d'}"
  | .flo f => "inexact:" ++ toHex16 f.bits

def showParseText (r : PRes (Datum × Option Text)) : String :=
  match r with
  | .ok (d, rest) =>
    if datumPoisoned d then "oracle-missing"
    else "ok " ++ encDatum d ++ " | " ++ (match rest with | some t => encText t | none => "none")
  | .err e => "err " ++ parseErrName e
  | .panic _ => "panic"

def showReadAll (r : Option (List Datum × Option (PRes Unit))) : String :=
  match r with
  | none => "fuel"
  | some (ds, fin) =>
    if ds.any datumPoisoned then "oracle-missing"
    else
      let e := match fin with
        | none => "end"
        | some (.err e) => "err " ++ parseErrName e
        | some (.panic _) => "panic"
        | some (.ok ()) => "end"
      s!"ok {ds.length}" ++ String.join (ds.map fun d => " | " ++ encDatum d) ++ " | " ++ e

def tyName : TokType → String
  | .char => "Char" | .dot => "Dot" | .false_ => "False" | .leftParen => "LeftParen"
  | .number => "Number" | .numberPrefix => "NumberPrefix" | .quasiquote => "Quasiquote"
  | .rightParen => "RightParen" | .singleQuote => "SingleQuote" | .string => "String"
  | .symbol => "Symbol" | .true_ => "True" | .unquote => "Unquote" | .hashParen => "HashParen"

def lexErrName : LexErr → String
  | .incomplete => "Incomplete"
  | .unexpectedToken c => s!"UnexpectedToken:{c.toNat}"
  | .unexpectedFollowing a b => s!"UnexpectedFollowing:{encText a.toList}:{encText b.toList}"

def showTokens (ts : List Token) : String :=
  " ".intercalate (ts.map fun t => s!"{t.lo}:{t.hi}:{tyName t.ty}")

def handle (cmd : String) (args : List String) : Option String :=
  match cmd, args with
  | "scan", [t] => (decText t).map fun cs =>
      match scan cs with
      | .ok ts => "ok " ++ showTokens ts
      | .error e => "err " ++ lexErrName e
  | "parse-text", [t, o] => do
      let cs ← decText t
      let o ← decOracle o
      pure (showParseText (parseText (oracleOps o) cs))
  | "read-all", [t, o] => do
      let cs ← decText t
      let o ← decOracle o
      pure (showReadAll (readAllF (oracleOps o) (cs.length + 2) cs))
  | "spec-first-datum", [t] => (decText t).map fun cs =>
      match scan cs with
      | .error .incomplete => "incomplete"
      | .error _ => "malformed"
      | .ok ts =>
        match Spec.firstDatumEnd 0 0 (ts.map (·.ty)) with
        | .incomplete => "incomplete"
        | .malformed => "malformed"
        | .complete k =>
          match ts[k]? with
          | none => "ok-rest none"
          | some t => (match dropBytes t.lo cs with
              | some r => "ok-rest " ++ encText r
              | none => "malformed")
  | "spec-count-data", [t] => (decText t).map fun cs =>
      match scan cs with
      | .error .incomplete => "incomplete"
      | .error _ => "malformed"
      | .ok ts =>
        match Spec.countData (ts.length + 1) (ts.map (·.ty)) with
        | (n, .complete _) => s!"ok {n} end"
        | (n, .incomplete) => s!"ok {n} incomplete"
        | (n, .malformed) => s!"ok {n} malformed"
  | "proc-n2s", o :: ws => do
      let o ← decOracle o
      let args ← decData ws
      pure (showProc (numberToStringProc (oracleOps o) args))
  | "proc-s2n", o :: ws => do
      let o ← decOracle o
      let args ← decData ws
      pure (showProc (stringToNumberProc (oracleOps o) args))
  | "c16-roundtrip", [o, z, r] => do
      let o ← decOracle o
      let z ← decNum z
      let r ← r.toNat?
      let fo := oracleOps o
      pure (match numberToStringProc fo [.num z, .num (.fix r)] with
        | .ok (.str s) =>
          if textPoisoned s then "oracle-missing" else
          (match stringToNumberProc fo [.str s, .num (.fix r)] with
            | .ok d => if datumPoisoned d then "oracle-missing" else "ok " ++ encText s ++ " " ++ encDatum d
            | .err e => "ok " ++ encText s ++ " err " ++ procErrName e
            | .panic _ => "ok " ++ encText s ++ " panic")
        | .ok _ => "bad-op"
        | .err e => "err " ++ procErrName e
        | .panic _ => "panic")
  | "spec-canon", [z] => (decNum z).map canonNum
  | "c16-literal", [o, t, r] => do
      let o ← decOracle o
      let cs ← decText t
      let r ← r.toNat?
      let fo := oracleOps o
      let pre : Text := if r = 2 then "#b".toList else if r = 8 then "#o".toList
        else if r = 16 then "#x".toList else "#d".toList
      let lit := match parseText fo (pre ++ cs) with
        | .ok (d, none) => if datumPoisoned d then "oracle-missing" else encDatum d
        | .ok (_, some _) => "trailing"
        | .err e => "err:" ++ parseErrName e
        | .panic _ => "panic"
      let viaProc := match stringToNumberProc fo [.str cs, .num (.fix r)] with
        | .ok d => if datumPoisoned d then "oracle-missing" else encDatum d
        | .err e => "err:" ++ procErrName e
        | .panic _ => "panic"
      pure ("ok " ++ lit ++ " " ++ viaProc)
  -- a spelling as an unprefixed source literal `(quote <s>)` against `(string->number "<s>")`
  | "c16-source", [o, t] => do
      let o ← decOracle o
      let cs ← decText t
      let fo := oracleOps o
      let lit := match parseText fo ("(quote ".toList ++ cs ++ [')']) with
        | .ok (.pair (.sym q) (.pair d _), none) =>   -- `quote` ignores further operands (`.e-1` is two tokens)
          if q ≠ "quote".toList then "other"
          else if datumPoisoned d then "oracle-missing" else encDatum d
        | .ok (_, none) => "other"
        | .ok (_, some _) => "trailing"
        | .err e => "err:" ++ parseErrName e
        | .panic _ => "panic"
      let viaProc := match stringToNumberProc fo [.str cs] with
        | .ok d => if datumPoisoned d then "oracle-missing" else encDatum d
        | .err e => "err:" ++ procErrName e
        | .panic _ => "panic"
      pure ("ok " ++ lit ++ " " ++ viaProc)
  | "highlight", [t, i] => do
      let cs ← decText t
      let i ← i.toNat?
      pure (match highlight cs i with
        | some r => "ok " ++ encText r
        | none => "panic slice")
  | "highlight-check", [t, i] => do
      let cs ← decText t
      let i ← i.toNat?
      pure ("ok " ++ toString (highlightCheck cs i))
  | "highlight-all", [t, m] => do
      let cs ← decText t
      let m ← m.toNat?
      let cell := fun (i : Nat) =>
        let h := match highlight cs i with
          | some r => if r == cs then "=" else encText r
          | none => "PANIC"
        h ++ "/" ++ (if highlightCheck cs i then "1" else "0")
      pure ("ok " ++ " ".intercalate ((List.range (m+1)).map cell))
  | "spec-highlight-all", [t, m] => do
      let cs ← decText t
      let m ← m.toNat?
      -- the specification constrains `highlight` only; the check flag is copied from the model
      -- and compared separately against its own (one-directional) clause by the harness
      let cell := fun (i : Nat) =>
        let r := Spec.highlight cs i
        (if r == cs then "=" else encText r) ++ "/" ++ (if highlightCheck cs i then "1" else "0")
      pure ("ok " ++ " ".intercalate ((List.range (m+1)).map cell))
  | _, _ => none

end Marwood.Driver.Reader
