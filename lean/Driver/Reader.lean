import Marwood.Highlight
import Marwood.Spec.Brackets
import Marwood.Parse
import Driver.Wire
namespace Marwood.Driver.Reader
open Marwood Marwood.Wire

/-! ## float oracle: what the harness observed about doubles (float text and float arithmetic are
not modelled). Entries `K=V` separated by `;`, `-` for none. A key the model needs but the harness
did not supply yields the poison double (bits = 2^64), reported as `oracle-missing`. -/

abbrev Oracle := List (String × String)

def decOracle (s : String) : Option Oracle :=
  if s == "-" then some [] else
  (s.splitOn ";").mapM fun e =>
    match e.splitOn "=" with
    | [k, v] => some (k, v)
    | _ => none

def poison : F64 := ⟨2^64⟩

def Oracle.flo (o : Oracle) (k : String) : F64 :=
  match o.lookup k with
  | some v => (match decNum v with | some (.flo f) => f | _ => poison)
  | none => poison

def Oracle.text (o : Oracle) (k : String) : Option Text :=
  (o.lookup k).bind decText

def oracleOps (o : Oracle) : FloatOps where
  parseF64 r s :=
    match o.lookup s!"F{r}:{encText s}" with
    | some "none" => none
    | some v => (match decNum v with | some (.flo f) => some f | _ => some poison)
    | none => some poison
  bigRatToF64 n d := o.flo s!"Q{n}/{d}"
  toExact f :=
    match o.lookup ("E" ++ toHex16 f.bits) with
    | some "none" => none
    | some v => (match decNum v with | some n => some n | none => some (.flo poison))
    | none => some (.flo poison)
  toInexact n := o.flo ("I" ++ encNum n)
  fmtExp f := (o.text ("Pe" ++ toHex16 f.bits)).getD []
  fmtFix1 f := (o.text ("Pf" ++ toHex16 f.bits)).getD []
  fmtShort f := (o.text ("Ps" ++ toHex16 f.bits)).getD []
  fmtRadix r f := (o.text (s!"R{r}:" ++ toHex16 f.bits)).getD []

def numPoisoned : Num → Bool
  | .flo f => decide (f.bits ≥ 2^64)
  | _ => false

def datumPoisoned : Datum → Bool
  | .num n => numPoisoned n
  | .pair a d => datumPoisoned a || datumPoisoned d
  | .vec e => datumPoisoned e
  | _ => false

def parseErrName : ParseErr → String
  | .incomplete => "Incomplete"
  | .unexpectedToken => "UnexpectedToken"
  | .expectedOneTokenAfterDot => "ExpectedOneTokenAfterDot"
  | .expectedTokenBeforeDot => "ExpectedTokenBeforeDot"
  | .expectedListTerminator => "ExpectedListTerminator"
  | .expectedVectorTerminator => "ExpectedVectorTerminator"
  | .syntaxError => "SyntaxError"
  | .unknownChar => "UnknownChar"
  | .lex .incomplete => "Lex:Incomplete"
  | .lex (.unexpectedToken _) => "Lex:UnexpectedToken"
  | .lex (.unexpectedFollowing _ _) => "Lex:UnexpectedFollowing"

def showParseText (r : PRes (Datum × Option Text)) : String :=
  match r with
  | .ok (d, rest) =>
    if datumPoisoned d then "oracle-missing"
    else "ok " ++ encDatum d ++ " | " ++ (match rest with | some t => encText t | none => "none")
  | .err e => "err " ++ parseErrName e
  | .panic _ => "panic"

def showReadAll (r : Option (List Datum × Option (PRes Unit))) : String :=
  match r with
  | none => "fuel"
  | some (ds, fin) =>
    if ds.any datumPoisoned then "oracle-missing"
    else
      let e := match fin with
        | none => "end"
        | some (.err e) => "err " ++ parseErrName e
        | some (.panic _) => "panic"
        | some (.ok ()) => "end"
      s!"ok {ds.length}" ++ String.join (ds.map fun d => " | " ++ encDatum d) ++ " | " ++ e

def tyName : TokType → String
  | .char => "Char" | .dot => "Dot" | .false_ => "False" | .leftParen => "LeftParen"
  | .number => "Number" | .numberPrefix => "NumberPrefix" | .quasiquote => "Quasiquote"
  | .rightParen => "RightParen" | .singleQuote => "SingleQuote" | .string => "String"
  | .symbol => "Symbol" | .true_ => "True" | .unquote => "Unquote" | .hashParen => "HashParen"

def lexErrName : LexErr → String
  | .incomplete => "Incomplete"
  | .unexpectedToken c => s!"UnexpectedToken:{c.toNat}"
  | .unexpectedFollowing a b => s!"UnexpectedFollowing:{encText a.toList}:{encText b.toList}"

def showTokens (ts : List Token) : String :=
  " ".intercalate (ts.map fun t => s!"{t.lo}:{t.hi}:{tyName t.ty}")

def handle (cmd : String) (args : List String) : Option String :=
  match cmd, args with
  | "scan", [t] => (decText t).map fun cs =>
      match scan cs with
      | .ok ts => "ok " ++ showTokens ts
      | .error e => "err " ++ lexErrName e
  | "parse-text", [t, o] => do
      let cs ← decText t
      let o ← decOracle o
      pure (showParseText (parseText (oracleOps o) cs))
  | "read-all", [t, o] => do
      let cs ← decText t
      let o ← decOracle o
      pure (showReadAll (readAllF (oracleOps o) (cs.length + 2) cs))
  | "highlight", [t, i] => do
      let cs ← decText t
      let i ← i.toNat?
      pure (match highlight cs i with
        | some r => "ok " ++ encText r
        | none => "panic slice")
  | "highlight-check", [t, i] => do
      let cs ← decText t
      let i ← i.toNat?
      pure ("ok " ++ toString (highlightCheck cs i))
  | "highlight-all", [t, m] => do
      let cs ← decText t
      let m ← m.toNat?
      let cell := fun (i : Nat) =>
        let h := match highlight cs i with
          | some r => if r == cs then "=" else encText r
          | none => "PANIC"
        h ++ "/" ++ (if highlightCheck cs i then "1" else "0")
      pure ("ok " ++ " ".intercalate ((List.range (m+1)).map cell))
  | "spec-highlight-all", [t, m] => do
      let cs ← decText t
      let m ← m.toNat?
      -- the specification constrains `highlight` only; the check flag is copied from the model
      -- and compared separately against its own (one-directional) clause by the harness
      let cell := fun (i : Nat) =>
        let r := Spec.highlight cs i
        (if r == cs then "=" else encText r) ++ "/" ++ (if highlightCheck cs i then "1" else "0")
      pure ("ok " ++ " ".intercalate ((List.range (m+1)).map cell))
  | _, _ => none

end Marwood.Driver.Reader
