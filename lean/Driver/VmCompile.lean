import Marwood.Vm.Compile
import Driver.Wire
import Driver.VmStep
/-! `compile <datum>`: the compiler model on a macro-expanded form, rendered canonically
(slot operands and environment maps by symbol name, environment maps sorted). -/
namespace Marwood.Driver.VmCompile
open Marwood Marwood.Vm Marwood.Wire

def nameTok (s : Text) : String := ".".intercalate (s.map fun c => toString c.toNat)

def srcTok : Source → String
  | .argument n => s!"a{n}" | .internal => "i" | .iofEnvironment => "e" | .iofArgument n => s!"f{n}"

def cErrName : CErr → String
  | .unquotedNil => "unquotedNil" | .invalidSyntax => "invalidSyntax"
  | .invalidUsePrimitive => "invalidUsePrimitive" | .invalidNumArgs => "invalidNumArgs"
  | .invalidArgs => "invalidArgs" | .expectedPair => "expectedPair"
  | .lambdaMissingExpression => "lambdaMissingExpression" | .unsupported w => "unsupported:" ++ w

def insertSorted (x : String) : List String → List String
  | [] => [x]
  | y :: ys => if x < y then x :: y :: ys else y :: insertSorted x ys

def sortStrings (l : List String) : List String := l.foldr insertSorted []

partial def renderLambda (st : CState) (l : LambdaM) : String :=
  let env := sortStrings (l.envmap.map fun (n, s) => nameTok n ++ ":" ++ srcTok s)
  let bc := l.bc.map fun c =>
    match c with
    | .op o => VmStep.opName o
    | .acc => "acc"
    | .global n => "G:" ++ nameTok n
    | .envSlot n => "S:" ++ nameTok n
    | .bpOffset i => s!"R{i}"
    | .argc n => s!"A{n}"
    | .target o => s!"T{o}"
    | .datum d => "D" ++ (encDatum d).replace " " "~"
    | .void => "void"
    | .newVector => "Dvec0"
    | .lambda id => match st.lambdas[id]? with
      | some l' => renderLambda st l'
      | none => "L?"
  s!"L[args={",".intercalate (l.args.map nameTok)};va={if l.isVararg then 1 else 0};top={if l.topLevel then 1 else 0};env={"|".intercalate env};bc={",".intercalate bc}]"

partial def datumSize : Datum → Nat
  | .pair a d => 1 + datumSize a + datumSize d
  | .vec e => 1 + datumSize e
  | _ => 1

def handle (cmd : String) (args : List String) : Option String :=
  match cmd with
  | "compile" => do
      let (d, rest) ← decDatum args
      if !rest.isEmpty then none else
      pure (match compileTop d (4 * datumSize d + 16) with
        | .ok (st, l) => "ok " ++ renderLambda st l
        | .error e => "err " ++ cErrName e)
  | _ => none

end Marwood.Driver.VmCompile
