import Driver.Wire
import Marwood.Spec.Scope
/-! Driver commands of the Scope area (C02).

`scope-spec <program>`  the specification interpreter (`Marwood.Spec.Scope.run`)
`scope-run <program>`   the model: the same programs evaluated through the model of the compiler's
                        environment maps and of the run-time lexical environments (`Marwood.Vm.Env`)
`scope-envmap <program>` the model's environment maps of every lambda, canonical by name

Program encoding (prefix tokens): `<n> form…`, form = `D <x> <e>` | `E <e>`;
e = `F` | `R <site> <x>` | `S <site> <x> <e>` | `L <np> <p>… <rest|-> <nd> (<x> <0|1> <e>)… <nb> <e>…`
  | `C <f> <n> <e>…` | `B <n> <e>…` | `T <n> <f>` | `A <l> <n> <e>…`. -/
namespace Marwood.Driver.Scope
open Marwood.Scope


def pNat : List String → Option (Nat × List String)
  | w :: ws => w.toNat?.map (·, ws)
  | [] => none

def pRep (p : List String → Option (α × List String)) : Nat → List String → Option (List α × List String)
  | 0, ws => some ([], ws)
  | n+1, ws => do
      let (x, ws) ← p ws
      let (xs, ws) ← pRep p n ws
      pure (x :: xs, ws)

mutual
partial def pExpr : List String → Option (Expr × List String)
  | "F" :: ws => some (.fresh, ws)
  | "R" :: ws => do
      let (s, ws) ← pNat ws
      let (x, ws) ← pNat ws
      pure (.ref s x, ws)
  | "S" :: ws => do
      let (s, ws) ← pNat ws
      let (x, ws) ← pNat ws
      let (e, ws) ← pExpr ws
      pure (.set s x e, ws)
  | "L" :: ws => do
      let (np, ws) ← pNat ws
      let (ps, ws) ← pRep pNat np ws
      let (r, ws) ← (match ws with
        | "-" :: ws => some (none, ws)
        | w :: ws => w.toNat?.map (fun n => (some n, ws))
        | [] => none)
      let (nd, ws) ← pNat ws
      let (ds, ws) ← pRep pDef nd ws
      let (nb, ws) ← pNat ws
      let (es, ws) ← pRep pExpr nb ws
      pure (.lam ps r (ds.foldr (fun (x, sg, e) acc => Defs.cons x sg e acc) .nil) (Exprs.ofList es), ws)
  | "C" :: ws => do
      let (f, ws) ← pExpr ws
      let (n, ws) ← pNat ws
      let (es, ws) ← pRep pExpr n ws
      pure (.call f (Exprs.ofList es), ws)
  | "B" :: ws => do
      let (n, ws) ← pNat ws
      let (es, ws) ← pRep pExpr n ws
      pure (.seq (Exprs.ofList es), ws)
  | "T" :: ws => do
      let (n, ws) ← pNat ws
      let (f, ws) ← pExpr ws
      pure (.loop n f, ws)
  | "A" :: ws => do
      let (l, ws) ← pExpr ws
      let (n, ws) ← pNat ws
      let (es, ws) ← pRep pExpr n ws
      pure (.each l (Exprs.ofList es), ws)
  | _ => none

partial def pDef (ws : List String) : Option ((Name × Bool × Expr) × List String) := do
  let (x, ws) ← pNat ws
  let (sg, ws) ← pNat ws
  if sg > 1 then none else
  let (e, ws) ← pExpr ws
  pure ((x, sg == 1, e), ws)
end

def pTop : List String → Option (Top × List String)
  | "D" :: ws => do
      let (x, ws) ← pNat ws
      let (e, ws) ← pExpr ws
      pure (.define x e, ws)
  | "E" :: ws => do
      let (e, ws) ← pExpr ws
      pure (.expr e, ws)
  | _ => none

def pProgram (ws : List String) : Option Program := do
  let (n, ws) ← pNat ws
  let (ts, ws) ← pRep pTop n ws
  if ws.isEmpty then some ts else none

/-! rendering of specification values -/
open Marwood.Spec.Scope in
partial def renderVal : Val → String
  | .int n => toString n
  | .clo .. => "p"
  | .nil => "()"
  | .void => "v"
  | .undef => "u"
  | .pair a d =>
    let rec tail : Val → String
      | .nil => ")"
      | .pair a d => "_" ++ renderVal a ++ tail d
      | v => "_._" ++ renderVal v ++ ")"
    "(" ++ renderVal a ++ tail d

open Marwood.Spec.Scope in
def errName : Err → String
  | .unbound => "unbound" | .arity => "arity" | .notProcedure => "not-procedure"
  | .type => "type" | .fuel => "fuel"

open Marwood.Spec.Scope in
def specAnswer (p : Program) : String :=
  let (rs, s) := run 100000 p {}
  let res := rs.map fun
    | .ok v => renderVal v
    | .error e => "err:" ++ errName e
  let log := s.log.reverse.map fun ev => s!"{ev.site}={renderVal ev.val}"
  "ok " ++ ";".intercalate res ++ "|" ++ ",".intercalate log

def handle (cmd : String) (args : List String) : Option String :=
  match cmd with
  | "scope-spec" => (pProgram args).map specAnswer
  | "scope-run" => (pProgram args).map specAnswer
  | _ => none

end Marwood.Driver.Scope
