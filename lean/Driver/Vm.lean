import Driver.Wire
import Marwood.Vm.RunLoop
import Driver.VmStep
import Marwood.Vm.Eval
import Driver.VmCompile
import Driver.VmVerify
import Driver.SimStep
import Driver.SimGood
import Driver.Prep
import Driver.EvalK
/-! Driver commands of the Vm area. -/
namespace Marwood.Driver.Vm
open Marwood Marwood.Vm

/-- a machine whose only content is "the k-th instruction halts / fails": enough to run the
    model of `run_count` against the instruction counts observed on the real VM -/
def traceMachine (k : Nat) (halts : Bool) : Machine Nat Unit :=
  ⟨fun i => if i + 1 = k then (if halts then .halt (i + 1) else .fail () (i + 1)) else .next (i + 1), id⟩

/-- slice by slice: (kind, instructions executed in the slice) -/
def slices (m : Machine Nat Unit) : List Nat → Nat → List String
  | [], _ => []
  | b :: bs, s =>
    match runCount m b s with
    | .paused s' => s!"p{s' - s}" :: slices m bs s'
    | .done s' => [s!"d{s' - s}"]
    | .error _ s' => [s!"e{s' - s}"]
    | .fuel => ["fuel"]

def handle (cmd : String) (args : List String) : Option String :=
  match cmd, args with
  | "slices", [k, kind, bs] => do
      let k ← k.toNat?
      let bs ← (bs.splitOn ",").mapM (·.toNat?)
      if kind != "h" && kind != "f" then none
      else if bs.any (· == 0) then none
      else pure ("ok " ++ " ".intercalate (slices (traceMachine k (kind == "h")) bs 0))
  | "step", args => VmStep.handleStep args
  | "simstep", args => SimStep.handle args
  | "simgood", args => SimGood.handle args
  | "prepcheck", args => Prep.handle args
  | "spec-evalk", args => EvalK.handle args
  | "errstate", [cap] => do
      let cap ← cap.toNat?
      -- an arbitrary mid-evaluation state with that stack capacity, through the error epilogue
      let s : St Unit := { heap := (), stack := { cells := List.replicate cap (.ptr 1), sp := cap - 1 },
                           acc := .ptr 2, ep := 3, ipL := 4, ipO := 5, bp := 6 }
      let s' := onError s
      let allU := s'.stack.cells.all (· == .undefined)
      pure s!"ok sp={s'.stack.sp} bp={s'.bp} ep={VmStep.showNatOrMax s'.ep} acc={VmStep.encCell s'.acc} allundef={if allU then 1 else 0} cap={s'.stack.cells.length}"
  | "compile", args => VmCompile.handle "compile" args
  | "vbc", args => VmVerify.handle "vbc" args
  | "vat", args => VmVerify.handle "vat" args
  | "vcompile", args => VmVerify.handle "vcompile" args
  | _, _ => none

end Marwood.Driver.Vm
