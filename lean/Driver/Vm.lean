import Driver.Wire
/-! Driver commands of the Vm area (filled in by the area's owner). -/
namespace Marwood.Driver.Vm

def handle (_cmd : String) (_args : List String) : Option String := none

end Marwood.Driver.Vm
