import Driver.Wire
import Marwood.Heap.Gc
import Marwood.Heap.Check
import Marwood.Spec.Reach
/-! Driver commands of the Gc area: heap snapshots through the collector model and the
reachability specification; Heap API operation sequences. Wire format: harness/src/gc_snapshot.rs. -/
namespace Marwood.Driver.Gc
open Marwood Marwood.Heap Marwood.Spec

abbrev P := StateT (List String) Option

def tok : P String := fun
  | [] => none
  | t :: ts => some (t, ts)

def nat : P Nat := do
  let t ← tok
  match t.toNat? with
  | some n => pure n
  | none => failure

def rep {α} (n : Nat) (p : P α) : P (List α) := do
  let mut acc : Array α := #[]
  for _ in [0:n] do
    acc := acc.push (← p)
  pure acc.toList

def atomOf : String → Option Atom
  | "U" => some .undefined | "V" => some .void | "N" => some .nil | "B" => some .bool
  | "C" => some .char | "#" => some .number | "S" => some .string | "A" => some .acc
  | "an" => some .argc | "bp" => some .basePtr | "bo" => some .bpOffset | "bi" => some .builtin
  | "gs" => some .globSlot | "ls" => some .lexSlot | "M" => some .macro_
  | _ => none

def atomStr : Atom → String
  | .undefined => "U" | .void => "V" | .nil => "N" | .bool => "B" | .char => "C" | .number => "#"
  | .string => "S" | .acc => "A" | .argc => "an" | .basePtr => "bp" | .bpOffset => "bo"
  | .builtin => "bi" | .globSlot => "gs" | .lexSlot => "ls" | .macro_ => "M"

partial def vcell : P VCell := do
  let t ← tok
  match atomOf t with
  | some a => pure (.atom a)
  | none =>
  if t == "P" then do pure (.pair (← nat) (← nat))
  else if t == "p" then do pure (.ptr (← nat))
  else if t == "K" then do pure (.closure (← nat) (← nat))
  else if t == "E" then do pure (.envPtr (← nat))
  else if t == "L" then do pure (.lexEnvPtr (← nat) (← nat))
  else if t == "I" then do pure (.ip (← nat) (← nat))
  else if t == "e" then do
    let n ← nat
    pure (.lexEnv (← rep n vcell))
  else if t == "v" then do
    let n ← nat
    pure (.vector (← rep n vcell))
  else if t == "l" then do
    let nb ← nat; let na ← nat; let ne ← nat
    let bc ← rep nb vcell
    let args ← rep na vcell
    let em ← rep ne vcell
    pure (.lambda bc args em)
  else if t == "k" then do
    let n ← nat
    let st ← rep n vcell
    pure (.cont st (← nat) (← nat))
  else if t.startsWith "y:" then
    match Wire.decText (t.drop 2).toString with
    | some name => pure (.symbol name)
    | none => failure
  else if t.startsWith "o" then
    match (t.drop 1).toString.toNat? >>= Op.ofNat? with
    | some o => pure (.opcode o)
    | none => failure
  else failure

partial def encVCell : VCell → String
  | .atom a => atomStr a
  | .opcode o => s!"o{o.toNat}"
  | .symbol n => "y:" ++ Wire.encText n
  | .pair a d => s!"P {a} {d}"
  | .ptr p => s!"p {p}"
  | .closure l e => s!"K {l} {e}"
  | .envPtr p => s!"E {p}"
  | .lexEnvPtr p s => s!"L {p} {s}"
  | .ip l o => s!"I {l} {o}"
  | .lexEnv ss => s!"e {ss.length}" ++ String.join (ss.map fun c => " " ++ encVCell c)
  | .vector ss => s!"v {ss.length}" ++ String.join (ss.map fun c => " " ++ encVCell c)
  | .lambda bc a e => s!"l {bc.length} {a.length} {e.length}" ++
      String.join ((bc ++ a ++ e).map fun c => " " ++ encVCell c)
  | .cont st l e => s!"k {st.length}" ++ String.join (st.map fun c => " " ++ encVCell c) ++ s!" {l} {e}"

def stateOf : String → Option GcState
  | "f" => some .free | "a" => some .allocated | "u" => some .used | _ => none

def expect (s : String) : P Unit := do
  let t ← tok
  if t == s then pure () else failure

def heap : P Heap := do
  expect "h"
  let chunk ← nat
  let cap ← nat
  let m ← nat
  let mut cells : Array VCell := Array.replicate cap VCell.undefined
  let mut gc : Array GcState := Array.replicate cap GcState.free
  for _ in [0:m] do
    let i ← nat
    let st ← tok
    let c ← vcell
    match stateOf st with
    | none => failure
    | some s =>
      if i < cap then
        cells := cells.set! i c
        gc := gc.set! i s
      else failure
  expect "f"
  let nf ← nat
  let fl ← rep nf nat
  expect "t"
  let nt ← nat
  let tab ← rep nt (do
    let name ← tok
    let a ← nat
    match Wire.decText name with
    | some n => pure (n, a)
    | none => failure)
  -- the Vec's last element is the head of the model's list
  pure { chunk := chunk, cells := cells, gc := gc, free := fl.reverse, symtab := tab }

def roots : P Roots := do
  expect "r"
  let n ← nat
  let syms ← rep n nat
  let n ← nat
  let slots ← rep n vcell
  let n ← nat
  let stack ← rep n vcell
  let acc ← vcell
  let ipl ← nat
  let ep ← nat
  pure { globalSyms := syms, globalSlots := slots, stack := stack, acc := acc, ipLam := ipl, ep := ep }

/-! ## rendering -/

def ranges (v : List Nat) : String :=
  -- v sorted ascending; duplicates are kept as repeated singletons
  let rec go (lo hi : Nat) : List Nat → List String
    | [] => [if lo == hi then s!"{lo}" else s!"{lo}-{hi}"]
    | x :: xs =>
      if x == hi + 1 then go lo x xs
      else (if lo == hi then s!"{lo}" else s!"{lo}-{hi}") :: go x x xs
  match v with
  | [] => "-"
  | x :: xs => ",".intercalate (go x x xs)

def sortNat (l : List Nat) : List Nat := l.mergeSort (· ≤ ·)

def summary (h : Heap) : String :=
  let idx := List.range h.cells.size
  let alloc := idx.filter fun i => h.gc[i]? != some GcState.free
  let used := (idx.filter fun i => h.gc[i]? == some GcState.used).length
  let tab := (h.symtab.map fun (n, a) => (a, Wire.encText n)).mergeSort
    fun x y => x.1 < y.1 || (x.1 == y.1 && x.2 ≤ y.2)
  let tabs := if tab.isEmpty then "-" else ";".intercalate (tab.map fun (a, n) => s!"{a}={n}")
  s!"c{h.cells.size} a{ranges alloc} f{ranges (sortNat h.free)} u{used} t{tabs}"

def stChar : Option GcState → String
  | some .free => "f" | some .allocated => "a" | some .used => "u" | none => "?"

def fullState (h : Heap) : String :=
  let cs := (List.range h.cells.size).map fun i =>
    stChar h.gc[i]? ++ ":" ++ ((encVCell (h.cells[i]?.getD VCell.undefined)).replace " " "_")
  " ".intercalate cs ++ " fl" ++ String.join (h.free.reverse.map fun a => s!" {a}")

/-! ## commands -/

def runP {α} (p : P α) (args : List String) : Option α :=
  match p args with
  | some (a, []) => some a
  | _ => none

def gcRun (args : List String) : Option String := do
  let (fixed, h, r) ← runP (do
    let f ← nat
    let h ← heap
    let r ← roots
    pure (f != 0, h, r)) args
  let wfBefore := match Check.wfCheck fixed h r with
    | none => "ok" | some e => e
  match Heap.runGc fixed true h r with
  | .error e => some s!"panic {e}"
  | .ok .fuelExhausted => some "fuel"
  | .ok (.skipped _) => some "skipped"
  | .ok (.collected h') =>
    let wfAfter := match Check.wfCheck fixed h' r with
      | none => "ok" | some e => e
    some s!"ok {summary h'} W{wfBefore}/{wfAfter}"

def gcReach (args : List String) : Option String := do
  let (h, r) ← runP (do
    let h ← heap
    let r ← roots
    pure (h, r)) args
  match liveArr h r with
  | none => some "fuel"
  | some a =>
    let live := (List.range a.size).filter fun i => a[i]? == some true
    some s!"ok a{ranges live}"

/-- C03 exploration: the reference transcript *is* the specification of the scheduled run -/
def gcObs (args : List String) : Option String :=
  match args.getLast? with
  | some a => if a.startsWith "ref=" then some (a.drop 4).toString else none
  | none => none

inductive HOp
  | put (c : VCell) | mput (c : VCell) | alloc | free (p : Nat) | mark (p : Nat) | sweep | grow

partial def hops : P (List HOp) := fun ts =>
  match ts with
  | [] => some ([], [])
  | _ => (do
    let t ← tok
    let op ← (if t == "put" then do pure (HOp.put (← vcell))
      else if t == "mput" then do pure (HOp.mput (← vcell))
      else if t == "alloc" then pure HOp.alloc
      else if t == "free" then do pure (HOp.free (← nat))
      else if t == "mark" then do pure (HOp.mark (← nat))
      else if t == "sweep" then pure HOp.sweep
      else if t == "grow" then pure HOp.grow
      else failure)
    let rest ← hops
    pure (op :: rest)) ts

def heapOps (args : List String) : Option String := do
  let (chunk, ops) ← runP (do
    let c ← nat
    let ops ← hops
    pure (c, ops)) args
  let fixed := true
  let rec go (h : Heap) (out : Array String) : List HOp → Except String (Heap × Array String)
    | [] => .ok (h, out)
    | op :: rest =>
      match op with
      | .put c => do let (h', v) ← h.put c; go h' (out.push ((encVCell v).replace " " "_")) rest
      | .mput c => do let (h', v) ← h.maybePut c; go h' (out.push ((encVCell v).replace " " "_")) rest
      | .alloc => do let (h', p) ← h.alloc; go h' (out.push s!"{p}") rest
      | .free p => do let h' ← h.free' p; go h' (out.push "-") rest
      | .mark p =>
        match h.mark fixed [p] with
        | some h' => go h' (out.push "-") rest
        | none => .error "fuel"
      | .sweep => do let h' ← h.sweep; go h' (out.push "-") rest
      | .grow => do let h' ← h.grow; go h' (out.push "-") rest
  match Heap.new chunk with
  | .error _ => some "panic"
  | .ok h0 =>
    match go h0 #[] ops with
    | .error "fuel" => some "fuel"
    | .error _ => some "panic"
    | .ok (h, out) => some s!"ok {" ".intercalate out.toList} | {summary h} | {fullState h}"

def handle (cmd : String) (args : List String) : Option String :=
  match cmd with
  | "gc-run" => gcRun args
  | "gc-reach" => gcReach args
  | "gc-obs" => gcObs args
  | "heap-ops" => heapOps args
  | _ => none

end Marwood.Driver.Gc
