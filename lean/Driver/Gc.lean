import Driver.Wire
/-! Driver commands of the Gc area (filled in by the area's owner). -/
namespace Marwood.Driver.Gc

def handle (_cmd : String) (_args : List String) : Option String := none

end Marwood.Driver.Gc
