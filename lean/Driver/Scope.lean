import Driver.Wire
/-! Driver commands of the Scope area (filled in by the area's owner). -/
namespace Marwood.Driver.Scope

def handle (_cmd : String) (_args : List String) : Option String := none

end Marwood.Driver.Scope
