import Driver.Wire
import Marwood.Spec.Scope
import Marwood.Vm.EnvRun
import Marwood.Vm.Compile
/-! Driver commands of the Scope area (C02).

`scope-spec <program>`  the specification interpreter (`Marwood.Spec.Scope.run`)
`scope-run <program>`   the model: the same programs evaluated through the model of the compiler's
                        environment maps and of the run-time lexical environments (`Marwood.Vm.Env`)
`scope-envmap <program>` the model's environment maps of every lambda, canonical by name

Program encoding (prefix tokens): `<n> form…`, form = `D <x> <e>` | `E <e>`;
e = `F` | `R <site> <x>` | `S <site> <x> <e>` | `L <np> <p>… <rest|-> <nd> (<x> <0|1> <e>)… <nb> <e>…`
  | `C <f> <n> <e>…` | `B <n> <e>…` | `T <n> <f>` | `A <l> <n> <e>…`. -/
namespace Marwood.Driver.Scope
open Marwood.Scope


def pNat : List String → Option (Nat × List String)
  | w :: ws => w.toNat?.map (·, ws)
  | [] => none

def pRep (p : List String → Option (α × List String)) : Nat → List String → Option (List α × List String)
  | 0, ws => some ([], ws)
  | n+1, ws => do
      let (x, ws) ← p ws
      let (xs, ws) ← pRep p n ws
      pure (x :: xs, ws)

mutual
partial def pExpr : List String → Option (Expr × List String)
  | "F" :: ws => some (.fresh, ws)
  | "R" :: ws => do
      let (s, ws) ← pNat ws
      let (x, ws) ← pNat ws
      pure (.ref s x, ws)
  | "S" :: ws => do
      let (s, ws) ← pNat ws
      let (x, ws) ← pNat ws
      let (e, ws) ← pExpr ws
      pure (.set s x e, ws)
  | "L" :: ws => do
      let (np, ws) ← pNat ws
      let (ps, ws) ← pRep pNat np ws
      let (r, ws) ← (match ws with
        | "-" :: ws => some (none, ws)
        | w :: ws => w.toNat?.map (fun n => (some n, ws))
        | [] => none)
      let (nd, ws) ← pNat ws
      let (ds, ws) ← pRep pDef nd ws
      let (nb, ws) ← pNat ws
      let (es, ws) ← pRep pExpr nb ws
      pure (.lam ps r (ds.foldr (fun (x, sg, e) acc => Defs.cons x sg e acc) .nil) (Exprs.ofList es), ws)
  | "C" :: ws => do
      let (f, ws) ← pExpr ws
      let (n, ws) ← pNat ws
      let (es, ws) ← pRep pExpr n ws
      pure (.call f (Exprs.ofList es), ws)
  | "B" :: ws => do
      let (n, ws) ← pNat ws
      let (es, ws) ← pRep pExpr n ws
      pure (.seq (Exprs.ofList es), ws)
  | "T" :: ws => do
      let (n, ws) ← pNat ws
      let (f, ws) ← pExpr ws
      pure (.loop n f, ws)
  | "A" :: ws => do
      let (l, ws) ← pExpr ws
      let (n, ws) ← pNat ws
      let (es, ws) ← pRep pExpr n ws
      pure (.each l (Exprs.ofList es), ws)
  | _ => none

partial def pDef (ws : List String) : Option ((Name × Bool × Expr) × List String) := do
  let (x, ws) ← pNat ws
  let (sg, ws) ← pNat ws
  if sg > 1 then none else
  let (e, ws) ← pExpr ws
  pure ((x, sg == 1, e), ws)
end

def pTop : List String → Option (Top × List String)
  | "D" :: ws => do
      let (x, ws) ← pNat ws
      let (e, ws) ← pExpr ws
      pure (.define x e, ws)
  | "E" :: ws => do
      let (e, ws) ← pExpr ws
      pure (.expr e, ws)
  | _ => none

def pProgram (ws : List String) : Option Program := do
  let (n, ws) ← pNat ws
  let (ts, ws) ← pRep pTop n ws
  if ws.isEmpty then some ts else none

/-! rendering of specification values -/
open Marwood.Spec.Scope in
partial def renderVal : Val → String
  | .int n => toString n
  | .clo .. => "p"
  | .nil => "()"
  | .void => "v"
  | .undef => "u"
  | .pair a d =>
    let rec tail : Val → String
      | .nil => ")"
      | .pair a d => "_" ++ renderVal a ++ tail d
      | v => "_._" ++ renderVal v ++ ")"
    "(" ++ renderVal a ++ tail d

open Marwood.Spec.Scope in
def errName : Err → String
  | .unbound => "unbound" | .arity => "arity" | .notProcedure => "not-procedure"
  | .type => "type" | .fuel => "fuel"

open Marwood.Spec.Scope in
def specAnswer (p : Program) : String :=
  let (rs, s) := run 100000 p {}
  let res := rs.map fun
    | .ok v => renderVal v
    | .error e => "err:" ++ errName e
  let log := s.log.reverse.map fun ev => s!"{ev.site}={renderVal ev.val}"
  "ok " ++ ";".intercalate res ++ "|" ++ ",".intercalate log

/-! the model evaluator -/
open Marwood.Vm.EnvRun in
partial def renderMVal : Marwood.Vm.EnvRun.Val → String
  | .int n => toString n
  | .clo .. => "p"
  | .nil => "()"
  | .void => "v"
  | .undef => "u"
  | .pair a d =>
    let rec tail : Marwood.Vm.EnvRun.Val → String
      | .nil => ")"
      | .pair a d => "_" ++ renderMVal a ++ tail d
      | v => "_._" ++ renderMVal v ++ ")"
    "(" ++ renderMVal a ++ tail d

open Marwood.Vm.EnvRun in
def mErrName : Marwood.Vm.EnvRun.Err → String
  | .unbound => "err:unbound" | .arity => "err:arity" | .notProcedure => "err:not-procedure"
  | .type => "err:type" | .fuel => "err:fuel" | .internal => "err:internal" | .panic => "panic:env"

open Marwood.Vm.EnvRun in
def modelAnswer (p : Program) : String :=
  let (rs, s) := Marwood.Vm.EnvRun.run 100000 p {}
  let res := rs.map fun
    | .ok v => renderMVal v
    | .error e => mErrName e
  let log := s.log.reverse.map fun (site, v) => s!"{site}={renderMVal v}"
  "ok " ++ ";".intercalate res ++ "|" ++ ",".intercalate log

/-! environment maps of every lambda, as `scope.rs` renders the real ones -/
open Marwood.Vm.Env

def insertSorted (x : String) : List String → List String
  | [] => [x]
  | y :: ys => if x < y then x :: y :: ys else y :: insertSorted x ys

def sortStrings (l : List String) : List String := l.foldr insertSorted []

/-- follow the entry at `slot` of the innermost map along its `IofEnvironment` links -/
def followStr : List LamCtx → Nat → Name → String
  | [], _, _ => "!top"
  | c :: outer, slot, want =>
    match c.envmap[slot]? with
    | none => "!range"
    | some (s, src) =>
      if s != want then "!name" else
      match src with
      | .argument n => s!"a{n}"
      | .internal => "i"
      | .iofArg n => s!"f{n}"
      | .iofEnv k => "e>" ++ (match outer with
        | [] => "!top"
        | _ => followStr outer k want)

def locTok (chain : List LamCtx) (x : Name) : String :=
  match chain with
  | [] => s!"G{x}"
  | c :: _ =>
    match bindingLocation c x with
    | .global => s!"G{x}"
    | .env s => s!"S{x}:" ++ followStr chain s x
    | .arg n => s!"R{(n : Int) + 1 - c.args.length}"

mutual
/-- the variable operands and nested lambdas of the code `compile_expression` emits, in order -/
partial def codeToks (chain : List LamCtx) : Expr → List String
  | .fresh => [locTok chain Name.tick]
  | .ref _ x => [locTok chain x, locTok chain Name.rd]
  | .set _ x e => codeToks chain e ++ [locTok chain Name.wr, locTok chain x]
  | .lam ps r ds body => [lamTok chain false ps r ds body]
  | .call f args => codeToksList chain args ++ codeToks chain f
  | .seq es => [lamTok chain false [] none .nil es]
  | .loop _ f => codeToks chain f ++ [locTok chain Name.times]
  | .each l args => codeToks chain l ++ codeToksList chain args ++ [locTok chain Name.list, locTok chain Name.each]

partial def codeToksList (chain : List LamCtx) : Exprs → List String
  | .nil => []
  | .cons e es => codeToks chain e ++ codeToksList chain es

partial def defToks (chain : List LamCtx) : Defs → List String
  | .nil => []
  | .cons x sugar e ds =>
    (match sugar, e with
     | true, .lam ps r ds' body => [lamTok chain true ps r ds' body]
     | _, e => codeToks chain e) ++ [locTok chain x] ++ defToks chain ds

partial def lamTok (chain : List LamCtx) (sugar : Bool) (ps : List Name) (r : Option Name) (ds : Defs)
    (body : Exprs) : String :=
  let iof := match chain with | c :: _ => c | [] => LamCtx.top
  let c := compileLam iof sugar ps r ds body
  let chain' := c :: chain
  let env := sortStrings (c.envmap.zipIdx.map fun ((x, _), i) => s!"{x}:" ++ followStr chain' i x)
  let code := defToks chain' ds ++ codeToksList chain' body
  s!"L[{",".intercalate (c.args.map toString)};{if r.isSome then 1 else 0};{"|".intercalate env};{",".intercalate code}]"
end

/-! cross-check of the two compiler models: the term-level scope model (`Marwood.Vm.Env`) against
the datum-level compiler model (`Marwood.Vm.Compile`, the one tied to `compile.rs` on arbitrary
forms by the C04 correspondence), on the rendering of the program -/

def nameStr (n : Name) : String :=
  match n with
  | 0 => "a" | 1 => "b" | 2 => "c" | 3 => "k" | 4 => "i" | 5 => "d" | 6 => "e"
  | 1000 => "tick" | 1001 => "rd" | 1002 => "wr" | 1003 => "times" | 1004 => "each" | 1005 => "list"
  | n => if 10 ≤ n ∧ n < 100 then s!"g{n - 10}" else s!"v{n}"

def symD (n : Name) : Datum := .sym (nameStr n).toList
def kw (s : String) : Datum := .sym s.toList
def numD (n : Nat) : Datum := .num (.fix n)

def formalsD (head : Option Name) (ps : List Name) (r : Option Name) : Datum :=
  Datum.ofListTail ((head.toList ++ ps).map symD) (match r with | some x => symD x | none => .nil)

mutual
partial def renderD : Expr → Datum
  | .fresh => Datum.ofList [symD Name.tick]
  | .ref s x => Datum.ofList [symD Name.rd, numD s, symD x]
  | .set s x e => Datum.ofList [kw "set!", symD x, Datum.ofList [symD Name.wr, numD s, renderD e]]
  | .lam ps r ds body => Datum.ofList ([kw "lambda", formalsD none ps r] ++ bodyD ds body)
  | .call f args => Datum.ofList (renderD f :: listD args)
  | .seq es => Datum.ofList [Datum.ofList ([kw "lambda", Datum.nil] ++ listD es)]
  | .loop n f => Datum.ofList [symD Name.times, numD n, renderD f]
  | .each l args => Datum.ofList [symD Name.each, renderD l, Datum.ofList (symD Name.list :: listD args)]
partial def listD : Exprs → List Datum
  | .nil => []
  | .cons e es => renderD e :: listD es
partial def bodyD (ds : Defs) (body : Exprs) : List Datum :=
  let rec defsD : Defs → List Datum
    | .nil => []
    | .cons x sugar e ds =>
      (match sugar, e with
       | true, .lam ps r ds' body' => Datum.ofList ([kw "define", formalsD (some x) ps r] ++ bodyD ds' body')
       | _, e => Datum.ofList [kw "define", symD x, renderD e]) :: defsD ds
  defsD ds ++ listD body
end

def srcKind : Source → String
  | .argument n => s!"a{n}" | .internal => "i" | .iofEnv _ => "e" | .iofArg n => s!"f{n}"

def srcKindC : Marwood.Vm.Source → String
  | .argument n => s!"a{n}" | .internal => "i" | .iofEnvironment => "e" | .iofArgument n => s!"f{n}"

def lamSummary (args : List String) (env : List String) : String :=
  ",".intercalate args ++ "/" ++ "|".intercalate (sortStrings env)

mutual
/-- the scope model's lambdas in the order the compiler finishes them (innermost first) -/
partial def lamsPost (iof : LamCtx) : Expr → List String
  | .fresh | .ref _ _ => []
  | .set _ _ e => lamsPost iof e
  | .lam ps r ds body => lamPost iof false ps r ds body
  | .call f args => lamsPostList iof args ++ lamsPost iof f
  | .seq es => lamPost iof false [] none .nil es
  | .loop _ f => lamsPost iof f
  | .each l args => lamsPost iof l ++ lamsPostList iof args
partial def lamsPostList (iof : LamCtx) : Exprs → List String
  | .nil => []
  | .cons e es => lamsPost iof e ++ lamsPostList iof es
partial def lamsPostDefs (iof : LamCtx) : Defs → List String
  | .nil => []
  | .cons _ sugar e ds =>
    (match sugar, e with
     | true, .lam ps r ds' body => lamPost iof true ps r ds' body
     | _, e => lamsPost iof e) ++ lamsPostDefs iof ds
partial def lamPost (iof : LamCtx) (sugar : Bool) (ps : List Name) (r : Option Name) (ds : Defs)
    (body : Exprs) : List String :=
  let c := compileLam iof sugar ps r ds body
  lamsPostDefs c ds ++ lamsPostList c body ++
    [lamSummary (c.args.map nameStr) (c.envmap.map fun (x, s) => nameStr x ++ ":" ++ srcKind s)]
end

/-- `none` when both models produce the same lambdas for the form -/
def crossCheck (t : Top) : Option String :=
  let (d, e) := match t with
    | .define x e => (Datum.ofList [kw "define", symD x, renderD e], e)
    | .expr e => (renderD e, e)
  let mine := lamsPost LamCtx.top e
  match Marwood.Vm.compileTop d 100000 with
  | .error _ => some "!xmodel-error"
  | .ok (st, _) =>
    let theirs := st.lambdas.map fun l =>
      lamSummary (l.args.map String.ofList) (l.envmap.map fun (x, s) => String.ofList x ++ ":" ++ srcKindC s)
    if mine == theirs then none else some ("!xmodel[" ++ ";".intercalate mine ++ "≠" ++ ";".intercalate theirs ++ "]")

def envmapAnswer (p : Program) : String :=
  let forms := p.map fun t =>
    (match t with
     | .define x e => "L[;0;;" ++ ",".intercalate (codeToks [LamCtx.top] e ++ [s!"G{x}"]) ++ "]"
     | .expr e => "L[;0;;" ++ ",".intercalate (codeToks [LamCtx.top] e) ++ "]")
    ++ (match crossCheck t with | none => "" | some m => m)
  "ok " ++ ";".intercalate forms

def handle (cmd : String) (args : List String) : Option String :=
  match cmd with
  | "scope-spec" => (pProgram args).map specAnswer
  | "scope-run" => (pProgram args).map modelAnswer
  | "scope-envmap" => (pProgram args).map envmapAnswer
  | _ => none

end Marwood.Driver.Scope
