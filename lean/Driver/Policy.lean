import Driver.Wire
/-! Driver commands of the Policy area (filled in by the area's owner). -/
namespace Marwood.Driver.Policy

def handle (_cmd : String) (_args : List String) : Option String := none

end Marwood.Driver.Policy
