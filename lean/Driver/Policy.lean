import Driver.Wire
import Driver.Gc
import Marwood.Spec.HeapPolicy
import Marwood.Spec.Plain
/-! Driver commands of the Policy area (C12): collection-point traces through `Spec.HeapPolicy`, the
T12.3 bound on measured premises, and the C03 snapshots through the collector model / `Spec.Reach` with the
kind discipline `Plain`. Wire format: harness/src/bin/policy.rs. -/
namespace Marwood.Driver.Policy
open Marwood Marwood.Heap Marwood.Spec Marwood.Spec.HeapPolicy

/-- run-length encoding of a token sequence: `tok` or `tok*count` (same as `rle` in policy.rs) -/
def rle (toks : List String) : String :=
  let rec go (cur : String) (cnt : Nat) (acc : Array String) : List String → Array String
    | [] => acc.push (if cnt == 1 then cur else s!"{cur}*{cnt}")
    | t :: ts =>
      if t == cur then go cur (cnt + 1) acc ts
      else go t 1 (acc.push (if cnt == 1 then cur else s!"{cur}*{cnt}")) ts
  match toks with
  | [] => "-"
  | t :: ts => " ".intercalate (go t 1 #[] ts).toList

def nats (args : List String) : Option (List Nat) := args.mapM String.toNat?

/-- a trace never contains more allocations between two points than this (the harness encodes an
impossible negative difference as `usize::MAX`) -/
def maxAllocs : Nat := 100000000

/-- `policy-trace <label> <chunk> <cap0> <used0> <n> (<k> <live>)*n <k-end>` -/
def trace (args : List String) : Option String := do
  let _label :: rest := args | none
  let chunk :: cap0 :: used0 :: n :: rest ← nats rest | none
  if rest.length ≠ 2 * n + 1 then none
  let mut s : PState := ⟨chunk, cap0, used0⟩
  let mut out : Array String := #[]
  let mut xs := rest
  for _ in [0:n] do
    match xs with
    | k :: live :: tl =>
      if k > maxAllocs then none
      s := allocN k s
      let capBefore := s.capacity
      let coll := collects false s
      s := gcPoint false live s
      out := out.push s!"{capBefore}:{if coll then 1 else 0}:{s.used}:{s.capacity}"
      xs := tl
    | _ => none
  match xs with
  | [kEnd] =>
    if kEnd > maxAllocs then none
    s := allocN kEnd s
    some s!"ok {rle out.toList} | end {s.capacity} {s.used}"
  | _ => none

/-- `policy-bound <label> <chunk> <cap0> <used0> <A> <L> <maxcap>`: the hypotheses of
`capacity_bounded` on the measured numbers, then `maxcap ≤ bound` -/
def boundCmd (args : List String) : Option String := do
  let _label :: rest := args | none
  let [chunk, cap0, used0, a, l, maxcap] ← nats rest | none
  if chunk = 0 || cap0 % chunk ≠ 0 then some "hyp-fail shape"
  else if !(used0 ≤ l || 4 * used0 < 3 * cap0) then some "hyp-fail initial"
  else
    let b := bound chunk cap0 a l
    if maxcap ≤ b then some "ok within" else some s!"ok exceeds {b}"

def allocated (h : Heap) : List Nat :=
  (List.range h.cells.size).filter fun i => h.gc[i]? != some GcState.free

/-- `policy-collect <heap> <roots>`: the collector model (repaired marker, forced) on a real snapshot;
also checks the kind discipline under which `allocated_after_gc_iff_live` speaks about semantic references -/
def collect (args : List String) : Option String := do
  let (h, r) ← Gc.runP (do
    let h ← Gc.heap
    let r ← Gc.roots
    pure (h, r)) args
  let plain := if !plainHeap h then "notplain-heap" else if !plainRoots r then "notplain-roots" else "plain"
  match Heap.runGc true true h r with
  | .error e => some s!"panic {e}"
  | .ok .fuelExhausted => some "fuel"
  | .ok (.skipped _) => some "skipped"
  | .ok (.collected h') => some s!"ok c{h'.cells.size} a{Gc.ranges (allocated h')} {plain}"

/-- `policy-live <heap> <roots>`: the specification — cells reachable through semantic references -/
def live (args : List String) : Option String := do
  let (h, r) ← Gc.runP (do
    let h ← Gc.heap
    let r ← Gc.roots
    pure (h, r)) args
  match liveArr h r with
  | none => some "fuel"
  | some a =>
    let l := (List.range a.size).filter fun i => a[i]? == some true
    some s!"ok a{Gc.ranges l}"

def handle (cmd : String) (args : List String) : Option String :=
  match cmd with
  | "policy-trace" => trace args
  | "policy-bound" => boundCmd args
  | "policy-collect" => collect args
  | "policy-live" => live args
  | _ => none

end Marwood.Driver.Policy
